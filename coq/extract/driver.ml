(* driver.ml — model-side correspondence driver over the extracted Coq model.
   Reads the same case lines as harness/drv.c and prints one line per case.
   Tokens: signed hex integers, or byte strings written x:<hex bytes>. *)
open Model

let hexval c = match c with
  | '0'..'9' -> Char.code c - 48
  | 'a'..'f' -> Char.code c - 87
  | 'A'..'F' -> Char.code c - 55
  | _ -> failwith "bad hex"

(* positive from a hex string without sign; linear *)
let z_of_hex (s : string) : z =
  let neg = String.length s > 0 && s.[0] = '-' in
  let st = if neg then 1 else 0 in
  let n = String.length s in
  let p = ref None in
  for i = st to n - 1 do
    let h = hexval s.[i] in
    for b = 3 downto 0 do
      let bit = (h lsr b) land 1 = 1 in
      p := (match !p with
        | None -> if bit then Some XH else None
        | Some q -> Some (if bit then XI q else XO q))
    done
  done;
  match !p with
  | None -> Z0
  | Some q -> if neg then Zneg q else Zpos q

let hex_of_pos (p : positive) : string =
  (* collect bits least significant first *)
  let buf = Buffer.create 64 in
  let rec go p acc k =
    (* acc: value of current nibble, k: bits in it *)
    let emit acc = Buffer.add_char buf "0123456789abcdef".[acc] in
    match p with
    | XH -> let acc = acc lor (1 lsl k) in emit acc
    | XO q -> if k = 3 then (emit acc; go q 0 0) else go q acc (k+1)
    | XI q -> let acc = acc lor (1 lsl k) in if k = 3 then (emit acc; go q 0 0) else go q acc (k+1)
  in
  go p 0 0;
  let s = Buffer.contents buf in
  let n = String.length s in
  String.init n (fun i -> s.[n-1-i])

let hex_of_z (x : z) : string = match x with
  | Z0 -> "0"
  | Zpos p -> hex_of_pos p
  | Zneg p -> "-" ^ hex_of_pos p

let z_of_int (i : int) : z = z_of_hex (if i < 0 then Printf.sprintf "-%x" (-i) else Printf.sprintf "%x" i)

let tok_of_string (s : string) : tok =
  if String.length s >= 2 && s.[0] = 'x' && s.[1] = ':' then begin
    let n = (String.length s - 2) / 2 in
    TB (List.init n (fun i -> z_of_int (hexval s.[2+2*i] * 16 + hexval s.[3+2*i])))
  end else begin
    let ok = ref (String.length s > 0) in
    String.iteri (fun i c -> match c with
      | '0'..'9' | 'a'..'f' | 'A'..'F' -> ()
      | '-' when i = 0 && String.length s > 1 -> ()
      | _ -> ok := false) s;
    if !ok then TZ (z_of_hex s)
    else TB (List.init (String.length s) (fun i -> z_of_int (Char.code s.[i])))   (* a name: its bytes *)
  end

let int_of_z (x : z) : int = int_of_string ("0x" ^ hex_of_z x)

let string_of_tok (t : tok) : string = match t with
  | TZ z -> hex_of_z z
  | TB l -> "x:" ^ String.concat "" (List.map (fun b -> Printf.sprintf "%02x" (int_of_z b)) l)

let () =
  let tbl = Hashtbl.create 256 in
  List.iter (fun (k, f) -> Hashtbl.replace tbl k f) Table.table;
  let lineno = ref 0 in
  (try
    while true do
      let line = input_line stdin in
      incr lineno;
      let line = String.trim line in
      if line <> "" && line.[0] <> '#' then begin
        let toks = List.filter (fun s -> s <> "") (String.split_on_char ' ' line) in
        match toks with
        | [] -> ()
        | op :: args ->
          let out =
            match Hashtbl.find_opt tbl op with
            | None -> "NO-MODEL"
            | Some f ->
              let r = f (List.map tok_of_string args) in
              String.concat " " (List.map string_of_tok r)
          in
          print_string (string_of_int !lineno); print_char ' '; print_string out; print_newline ()
      end
    done
  with End_of_file -> ())
