(* Properties_C06.v — C06: radix conversion is exact in every base and round-trips.
   Table theorems are about the tables REGENERATED from mpn/generic/mp_bases.c and mp_dv_tab.c.
   Statements only. *)
From Coq Require Import ZArith List Bool Reals.
From Mpir Require Import Word Limbs DivDefs SetStrCDefs SetStrCProofs RadixDefs RadixReal RadixProofs TablesDefs TablesProofs.
From MpirGen Require Import Gen_Consts Gen_BasesLog_all.
Import ListNotations.
Local Open Scope Z_scope.

(* every entry 2..62 of the 64-bit mp_bases table: big_base = b^chars_per_limb < 2^64 <= b^(chars_per_limb+1)
   and big_base_inverted is invert_limb of the normalised big_base; powers of two carry log2 b *)
Theorem C06_bases_table_ok :
  forallb (fun e : Z * (Z * (Z * Z) * Z * Z) => let '(b, (cpl, me, bb, bbi)) := e in base_entry_ok b cpl bb bbi) bases64 = true
  /\ map fst bases64 = map Z.of_nat (seq 2 61).
Proof. exact bases_table_ok. Qed.
Print Assumptions C06_bases_table_ok.

(* chars_per_bit_exactly = log 2 / log b to within 2^-50 for every non-power-of-two base
   (real-number statement, proved by interval arithmetic) *)
Theorem C06_chars_per_bit :
  Forall (fun e => cpb_ok (fst e) (fst (snd e)) (snd (snd e))) (cpb_of_bases bases64).
Proof. exact cpb_all. Qed.
Print Assumptions C06_chars_per_bit.

(* positional notation: the digit list of x is the unique one: every digit below b, no leading
   zero, and Horner evaluation gives back x *)
Theorem C06_digits : forall x b, 0 <= x -> 2 <= b ->
  horner b (digits x b) = x
  /\ Forall (fun d => 0 <= d < b) (digits x b)
  /\ (match digits x b with d :: _ => d <> 0 | [] => x = 0 end).
Proof. exact digits_spec. Qed.
Print Assumptions C06_digits.

(* the chunked generation / consumption of mpn_get_str / mpn_set_str (big_base = b^cpl) is the same
   positional notation, for every chunk size *)
Theorem C06_chunks : forall x b cpl ds, 0 <= x -> 2 <= b -> 1 <= cpl ->
  Forall (fun d => 0 <= d < b) ds ->
  mpn_get_str x b cpl (b ^ cpl) = digits x b /\ mpn_set_str ds b cpl = horner b ds.
Proof. exact chunks_spec. Qed.
Print Assumptions C06_chunks.

(* what mpz_get_str writes, mpz_set_str reads back exactly — every base 2..62 and -2..-36, with
   the regenerated digit value table; and mpz_inp_str consumes exactly those bytes *)
Theorem C06_roundtrip : forall x base,
  (2 <= base <= 62 \/ -36 <= base <= -2) ->
  set_str digit_value_tab (mpz_get_str x base ++ [0]) (Z.abs base) = Some x
  /\ inp_str digit_value_tab (mpz_get_str x base) (Z.abs base)
     = (Z.of_nat (length (mpz_get_str x base)), Some x).
Proof. exact roundtrip_spec. Qed.
Print Assumptions C06_roundtrip.

(* rejection: a string whose first non-blank (after an optional '-') is not a digit of the base,
   or that contains a non-blank byte that is not a digit, is not a number: -1 *)
Theorem C06_rejects : forall s base c rest,
  2 <= base <= 62 -> skip_space s = c :: rest -> c <> 45 ->
  base <= dv digit_value_tab (if 36 <? base then 224 else 0) c ->
  set_str digit_value_tab s base = None.
Proof. exact rejects_spec. Qed.
Print Assumptions C06_rejects.

(* mpz_sizeinbase is exact for power-of-two bases *)
Theorem C06_sizeinbase_pow2 : forall x k m e, x <> 0 -> 1 <= k ->
  sizeinbase x (2 ^ k) m e = Z.of_nat (length (digits (Z.abs x) (2 ^ k))).
Proof. exact sizeinbase_pow2_spec. Qed.
Print Assumptions C06_sizeinbase_pow2.

(* the REGENERATED digit value table of mp_dv_tab.c, byte by byte: in bases up to 36 the digits are 0-9 and the letters of either
   case with values 10..35, in bases 37..62 upper case is 10..35 and lower case 36..61, and EVERY other byte is "not a digit" *)
Theorem C06_digit_value_table : forall c, 0 <= c < 256 ->
  dv digit_value_tab 0 c = digit_spec_ci c /\ dv digit_value_tab 224 c = digit_spec_cs c.
Proof. exact digit_tab_entries. Qed.
Print Assumptions C06_digit_value_table.

Theorem C06_only_documented_digits : forall c, 0 <= c < 256 ->
  (dv digit_value_tab 0 c <> 255 <-> (is_dig c || is_up c || is_lo c) = true)
  /\ (dv digit_value_tab 224 c <> 255 <-> (is_dig c || is_up c || is_lo c) = true).
Proof. exact digit_tab_only_documented. Qed.
Print Assumptions C06_only_documented_digits.


(* ---- mpn/generic/set_str.c AS CODED (SetStrCDefs.v: the basecase gathering chars_per_limb digits per limb with its base-10 loop, the
   table of powers with stripped low zero limbs, the divide-and-conquer recursion with its zero high part case, the bit packing for
   power-of-two bases, the threshold choice with the REGENERATED thresholds and mp_bases table), the executable model of the family
   mpn_set_str-as-coded ---- *)
Theorem C06_mpn_set_str_as_coded : forall base str, 2 <= base <= 62 -> str <> [] -> Forall (dig base) str -> len str < 2 ^ 32 ->
  exists l, SetStrCDefs.mpn_set_str str base = Some l /\ wf l /\ eval l = horner base str
            /\ (nlz str -> normal l /\ len l = nlimbs (horner base str)).
Proof. exact mpn_set_str_correct. Qed.
Print Assumptions C06_mpn_set_str_as_coded.

(* every entry j of the power table is big_base^e_j with its low zero limbs stripped, e_j = ((un-1) >> (j+1)) + 1 *)
Theorem C06_set_str_power_table : forall base cpl bigb un, 2 <= base -> 1 <= cpl -> bigb = base ^ cpl -> bigb < B -> 2 <= un -> un - 1 < 2 ^ 32 ->
  exists tab, mpn_set_str_compute_powtab un base cpl bigb = Some tab
    /\ tab_ok base cpl tab /\ Z.of_nat (length tab) = Z.log2 (un - 1) + 1
    /\ pw_digits_in_base (hd (mkpow [] 0 0 0 0) tab) = cpl * (Z.shiftr (un - 1) 1 + 1)
    /\ (forall (j : nat) e, nth_error tab j = Some e ->
          let ej := Z.shiftr (un - 1) (Z.of_nat j + 1) + 1 in
          pw_digits_in_base e = cpl * ej /\ eval (pw_p e) * B ^ pw_shift e = bigb ^ ej).
Proof. exact compute_powtab_correct'. Qed.
Print Assumptions C06_set_str_power_table.

Theorem C06_dc_set_str_as_coded : forall base cpl bigb dc_thr, 2 <= base -> 1 <= cpl -> bigb = base ^ cpl -> bigb < B ->
  (base = 10 -> cpl = MP_BASES_CHARS_PER_LIMB_10) -> cpl < dc_thr ->
  forall powtab str, tab_ok base cpl powtab -> str <> [] -> Forall (dig base) str ->
  len str <= 2 * pw_digits_in_base (hd (mkpow [] 0 0 0 0) powtab) ->
  exists l, mpn_dc_set_str dc_thr cpl bigb str powtab = Some l /\ res_ok base str l.
Proof. exact dc_set_str_correct. Qed.
Print Assumptions C06_dc_set_str_as_coded.

Example C06_nonvacuous :
  set_str digit_value_tab [32; 45; 48; 120; 49; 70; 0] 0 = Some (-31)
  /\ mpz_get_str (-255) 16 = [45; 102; 102] /\ mpz_get_str 255 (-16) = [70; 70]
  /\ set_str digit_value_tab [43; 53; 0] 10 = None
  /\ sizeinbase (10 ^ 19) 10 5422874305198589 (-54) = 20.
Proof. exact C06_example. Qed.
