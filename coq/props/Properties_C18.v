(* Properties_C18.v — C18: formatted output follows the C rules, extended to MPIR types.
   Statements only. *)
From Coq Require Import ZArith List Bool.
From Mpir Require Import Word RadixDefs PrintfDefs PrintfProofs DoscanDefs DoscanProofs.
From MpirGen Require Import Gen_Consts.
Import ListNotations.
Local Open Scope Z_scope.

(* For EVERY sequence of flag characters (any order, any repetition), every width (none, a number, a '*'
   argument of either sign), every numeric precision (none, a number, a '*' argument of either sign), every
   conversion d i o x X and EVERY integer v, the bytes produced by the parser of doprnt.c followed by the layout
   of doprnti.c are exactly the bytes the C99 rules prescribe.  Carved out: only the documented deviation
   '#' with precision 0 on a zero value for x / X.  (o x X are signed in MPIR: the C rules for the sign flags are
   applied to them as for d; a bare '.' is treated separately below.) *)
Theorem C18_layout_is_c99 : forall fl w p conv v,
  forallb is_flag fl = true -> is_conv conv = true ->
  (match w with WNum n => 1 <= n | _ => True end) -> (match p with PNum n => 0 <= n | _ => True end) ->
  (has 35 fl && (v =? 0) && ((conv =? 120) || (conv =? 88)) && (match prec_of p with Some 0 => true | _ => false end) = false) ->
  printf_Z (spec_of fl w p) (stars_of w p) conv v = c99_int (flags_of fl w) (width_of w) (prec_of p) conv v.
Proof. exact layout_is_c99. Qed.
Print Assumptions C18_layout_is_c99.

(* the documented deviation: a '.' with nothing after it means "precision not given" *)
Theorem C18_bare_dot : forall fl w conv v,
  forallb is_flag fl = true -> is_conv conv = true -> (match w with WNum n => 1 <= n | _ => True end) ->
  printf_Z (spec_of fl w PNone ++ [46]) (stars_of w PNone) conv v = printf_Z (spec_of fl w PNone) (stars_of w PNone) conv v.
Proof. exact bare_dot_is_none. Qed.
Print Assumptions C18_bare_dot.

(* consequences of the C rules that hold for every call: the output is never shorter than the width, and is
   exactly the width whenever the number itself is shorter; it contains the digits of |v| *)
Theorem C18_width : forall fl width prec conv v, 0 <= width ->
  let out := c99_int fl width prec conv v in
  width <= len out /\
  (len (c99_int fl 0 prec conv v) <= width -> len out = width).
Proof. exact c99_width. Qed.
Print Assumptions C18_width.

(* gmp_snprintf: for every size and every sequence of chunks the stored bytes are the first size-1 bytes of the
   whole output, never more; the terminator is stored iff size >= 1; the return value is the whole length *)
Theorem C18_snprintf_bounded : forall size chunks, 0 <= size ->
  let '(out, term, ret) := snprintf_sink size chunks in
  out = firstn (Z.to_nat (size - 1)) (concat chunks)
  /\ (len out + (if term then 1 else 0) <= size)
  /\ term = (1 <=? size)
  /\ ret = len (concat chunks).
Proof. exact snprintf_bounded. Qed.
Print Assumptions C18_snprintf_bounded.


(* ---- the input side: scanf/doscan.c AS CODED (DoscanDefs.v: the directive loop of __gmp_doscan and the field reader gmpscan,
   on the string functions of sscanffuns.c), the executable model of the correspondence ---- *)

(* field width: after the skipped white space the reader takes a prefix of the input no longer than the width (no width: at most
   INT_MAX - 1 bytes); it either meets the end of input, or rejects the field, or the bytes taken are sign, base indicator and
   digits of the value it stores, and the return value is their number *)
Theorem C18_scan_field_width_Z : forall pbase pw ignore s, pbase_ok pbase -> 0 <= pw -> bytes s ->
  exists ret cons s' v, gmpscan digit_value_tab 90 pbase pw ignore s = (ret, s', v)
    /\ s = cons ++ s' /\ len cons <= eff_width pw
    /\ ((ret = -2 /\ cons = [] /\ v = None /\ fst (sget s) = -1)
        \/ (ret = -1 /\ v = None /\ fst (sget s) <> -1)
        \/ (ret = len cons /\ 0 < ret
            /\ exists z, number_denotes pbase cons z /\ v = if ignore then None else Some (SVZ z))).
Proof. exact gmpscan_width_Z. Qed.
Print Assumptions C18_scan_field_width_Z.

Theorem C18_scan_field_width_Q : forall pbase pw ignore s, pbase_ok pbase -> 0 <= pw -> bytes s ->
  exists ret cons s' v, gmpscan digit_value_tab 81 pbase pw ignore s = (ret, s', v)
    /\ s = cons ++ s' /\ len cons <= eff_width pw
    /\ ((ret = -2 /\ cons = [] /\ fst (sget s) = -1) \/ ret = -1 \/ ret = len cons).
Proof. exact gmpscan_width_Q. Qed.
Print Assumptions C18_scan_field_width_Q.

(* the C-style count: for EVERY format and input (inside the modelled directives) the return value is the number of assigned
   fields (suppressed fields and %n do not count), and it is -1 exactly when the input ran out - only white space left - before
   anything was assigned *)
Theorem C18_scan_count : forall fmt input,
  let r := doscan_run digit_value_tab fmt input in
  d_stop r <> St_unsupported -> d_stop r <> St_fuel ->
  (d_ret r = -1 <-> (d_stop r = St_eof /\ nassigned (d_stores r) = 0))
  /\ (d_ret r <> -1 -> d_ret r = nassigned (d_stores r))
  /\ (d_stop r = St_eof -> exhausted (d_rest r)).
Proof. exact doscan_count. Qed.
Print Assumptions C18_scan_count.

(* round trip: what the printing model prints for ANY integer in the styles d, x, X, o, #x, #X, #o is read back by the matching
   conversion (d, x/X, o, and i for the # styles and for d) as the same integer, one field, exactly the printed bytes consumed -
   provided the next input byte is not a digit of the base and, when a zero is read with %Zi, not an x (which would make "0x" a
   base indicator without digits) *)
Theorem C18_scan_roundtrip_Z : forall hash pconv sconv z rest,
  In (hash, pconv, sconv) styles -> bytes rest ->
  let printed := printf_Z (if hash then [35] else []) [] pconv z in
  digit_ok (Z.abs (conv_base pconv)) (fst (sget rest)) = false ->
  (sconv = 105 -> z = 0 -> fst (sget rest) <> 120 /\ fst (sget rest) <> 88) ->
  len printed < 2147483646 ->
  doscan digit_value_tab [37; 90; sconv] (printed ++ rest) = (1, [SVZ z], len printed).
Proof. exact roundtrip_Z. Qed.
Print Assumptions C18_scan_roundtrip_Z.

Example C18_nonvacuous :
  printf_Z [45; 48; 43] [] 105 (-42) = [45; 52; 50]
  /\ printf_Z ([48; 43] ++ dec 12 ++ 46 :: dec 4) [] 105 (-42) = [32; 32; 32; 32; 32; 32; 32; 45; 48; 48; 52; 50]
  /\ printf_Z [35; 46; 52] [] 111 1 = [48; 48; 48; 49]
  /\ printf_Z [43; 32] [] 100 0 = [43; 48]
  /\ printf_Z [46; 42] [-1] 100 0 = [48]
  /\ snprintf_sink 4 [[60]; [49; 50; 51]; [62]] = ([60; 49; 50], true, 5).
Proof. exact C18_example. Qed.
