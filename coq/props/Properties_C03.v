(* Properties_C03.v — C03: add, subtract, negate, shift, copy, compare compute the
   exact limb-vector function; the mpz functions built on them return the exact
   signed result.  Only theorem statements here; each is closed by a lemma of
   theories/ and followed by Print Assumptions. *)
From Coq Require Import ZArith List Bool.
From Mpir Require Import Word Limbs MpnBasicDefs MpnBasicProofs MemDefs MemProofs MpzDefs MpzProofs.
Import ListNotations.
Local Open Scope Z_scope.

(* ---- mpn level: exact value equations for every length and content ---- *)

Theorem C03_add_n : forall u v, wf u -> wf v -> length u = length v ->
  eval (fst (add_n u v)) + B ^ len u * snd (add_n u v) = eval u + eval v
  /\ wf (fst (add_n u v)) /\ length (fst (add_n u v)) = length u
  /\ (snd (add_n u v) = 0 \/ snd (add_n u v) = 1).
Proof. exact add_n_spec. Qed.
Print Assumptions C03_add_n.

Theorem C03_sub_n : forall u v, wf u -> wf v -> length u = length v ->
  eval (fst (sub_n u v)) - B ^ len u * snd (sub_n u v) = eval u - eval v
  /\ wf (fst (sub_n u v)) /\ length (fst (sub_n u v)) = length u
  /\ (snd (sub_n u v) = 0 \/ snd (sub_n u v) = 1).
Proof. exact sub_n_spec. Qed.
Print Assumptions C03_sub_n.

Theorem C03_add_1 : forall u v, wf u -> limb v -> u <> [] ->
  eval (fst (add_1 u v)) + B ^ len u * snd (add_1 u v) = eval u + v
  /\ wf (fst (add_1 u v)) /\ length (fst (add_1 u v)) = length u
  /\ (snd (add_1 u v) = 0 \/ snd (add_1 u v) = 1).
Proof. exact add_1_spec. Qed.
Print Assumptions C03_add_1.

Theorem C03_sub_1 : forall u v, wf u -> limb v -> u <> [] ->
  eval (fst (sub_1 u v)) - B ^ len u * snd (sub_1 u v) = eval u - v
  /\ wf (fst (sub_1 u v)) /\ length (fst (sub_1 u v)) = length u
  /\ (snd (sub_1 u v) = 0 \/ snd (sub_1 u v) = 1).
Proof. exact sub_1_spec. Qed.
Print Assumptions C03_sub_1.

Theorem C03_add : forall x y, wf x -> wf y -> (length y <= length x)%nat ->
  eval (fst (add x y)) + B ^ len x * snd (add x y) = eval x + eval y
  /\ wf (fst (add x y)) /\ length (fst (add x y)) = length x
  /\ (snd (add x y) = 0 \/ snd (add x y) = 1).
Proof. exact add_spec. Qed.
Print Assumptions C03_add.

Theorem C03_sub : forall x y, wf x -> wf y -> (length y <= length x)%nat ->
  eval (fst (sub x y)) - B ^ len x * snd (sub x y) = eval x - eval y
  /\ wf (fst (sub x y)) /\ length (fst (sub x y)) = length x
  /\ (snd (sub x y) = 0 \/ snd (sub x y) = 1).
Proof. exact sub_spec. Qed.
Print Assumptions C03_sub.

Theorem C03_com_n : forall u, wf u ->
  eval (com_n u) = B ^ len u - 1 - eval u /\ wf (com_n u) /\ length (com_n u) = length u.
Proof. exact com_n_spec. Qed.
Print Assumptions C03_com_n.

(* two's complement negation modulo B^n; the return value says whether u <> 0 *)
Theorem C03_neg_n : forall u, wf u ->
  eval (fst (neg_n u)) + eval u = B ^ len u * snd (neg_n u)
  /\ wf (fst (neg_n u)) /\ length (fst (neg_n u)) = length u
  /\ snd (neg_n u) = (if eval u =? 0 then 0 else 1).
Proof. exact neg_n_spec. Qed.
Print Assumptions C03_neg_n.

Theorem C03_lshift : forall u cnt, wf u -> 1 <= cnt <= 63 ->
  eval (fst (lshift u cnt)) + B ^ len u * snd (lshift u cnt) = eval u * 2 ^ cnt
  /\ wf (fst (lshift u cnt)) /\ length (fst (lshift u cnt)) = length u
  /\ 0 <= snd (lshift u cnt) < 2 ^ cnt.
Proof. exact lshift_spec. Qed.
Print Assumptions C03_lshift.

(* the result is floor(u / 2^cnt); the bits shifted out are returned left-aligned *)
Theorem C03_rshift : forall u cnt, wf u -> u <> [] -> 1 <= cnt <= 63 ->
  eval (fst (rshift u cnt)) * B + snd (rshift u cnt) = eval u * 2 ^ (64 - cnt)
  /\ wf (fst (rshift u cnt)) /\ length (fst (rshift u cnt)) = length u
  /\ limb (snd (rshift u cnt)).
Proof. exact rshift_spec. Qed.
Print Assumptions C03_rshift.

Theorem C03_cmp : forall x y, wf x -> wf y -> length x = length y ->
  cmp x y = Z.sgn (eval x - eval y).
Proof. exact cmp_spec. Qed.
Print Assumptions C03_cmp.

Theorem C03_zero_p : forall x, wf x -> (zero_p x = true <-> eval x = 0).
Proof. exact zero_p_spec. Qed.
Print Assumptions C03_zero_p.

Theorem C03_zero : forall n, eval (zero n) = 0 /\ wf (zero n) /\ length (zero n) = n.
Proof. exact zero_spec. Qed.
Print Assumptions C03_zero.

(* ---- overlap: the C loops on a shared memory, every permitted placement ---- *)

Theorem C03_add_n_overlap : forall m rp up vp n,
  asc_ok rp up n -> asc_ok rp vp n ->
  rd (fst (add_n_mem m rp up vp n 0)) rp n = fst (add_n (rd m up n) (rd m vp n))
  /\ snd (add_n_mem m rp up vp n 0) = snd (add_n (rd m up n) (rd m vp n))
  /\ forall a, outside rp n a -> fst (add_n_mem m rp up vp n 0) a = m a.
Proof. exact add_n_mem_overlap. Qed.
Print Assumptions C03_add_n_overlap.

Theorem C03_sub_n_overlap : forall m rp up vp n,
  asc_ok rp up n -> asc_ok rp vp n ->
  rd (fst (sub_n_mem m rp up vp n 0)) rp n = fst (sub_n (rd m up n) (rd m vp n))
  /\ snd (sub_n_mem m rp up vp n 0) = snd (sub_n (rd m up n) (rd m vp n))
  /\ forall a, outside rp n a -> fst (sub_n_mem m rp up vp n 0) a = m a.
Proof. exact sub_n_mem_overlap. Qed.
Print Assumptions C03_sub_n_overlap.

Theorem C03_copyi_overlap : forall m rp up n, asc_ok rp up n ->
  rd (copyi_mem m rp up n) rp n = rd m up n
  /\ forall a, outside rp n a -> copyi_mem m rp up n a = m a.
Proof. exact copyi_mem_overlap. Qed.
Print Assumptions C03_copyi_overlap.

Theorem C03_copyd_overlap : forall m rp up n, desc_ok rp up n ->
  rd (copyd_mem m (rp + Z.of_nat n) (up + Z.of_nat n) n) rp n = rd m up n
  /\ forall a, outside rp n a -> copyd_mem m (rp + Z.of_nat n) (up + Z.of_nat n) n a = m a.
Proof. exact copyd_mem_overlap. Qed.
Print Assumptions C03_copyd_overlap.

Theorem C03_lshift_overlap : forall m rp up n cnt, desc_ok rp up n -> 1 <= cnt <= 63 ->
  rd (fst (lshift_mem m rp up n cnt)) rp n = fst (lshift (rd m up n) cnt)
  /\ snd (lshift_mem m rp up n cnt) = snd (lshift (rd m up n) cnt)
  /\ forall a, outside rp n a -> fst (lshift_mem m rp up n cnt) a = m a.
Proof. exact lshift_mem_overlap. Qed.
Print Assumptions C03_lshift_overlap.

Theorem C03_rshift_overlap : forall m rp up n cnt, asc_ok rp up n -> 1 <= cnt <= 63 ->
  rd (fst (rshift_mem m rp up n cnt)) rp n = fst (rshift (rd m up n) cnt)
  /\ snd (rshift_mem m rp up n cnt) = snd (rshift (rd m up n) cnt)
  /\ forall a, outside rp n a -> fst (rshift_mem m rp up n cnt) a = m a.
Proof. exact rshift_mem_overlap. Qed.
Print Assumptions C03_rshift_overlap.

(* ---- mpz level: exact signed results, well-formed outputs ---- *)

Theorem C03_mpz_of_Z : forall x, value (mpz_of_Z x) = x /\ mpz_wf (mpz_of_Z x).
Proof. exact mpz_of_Z_spec. Qed.
Print Assumptions C03_mpz_of_Z.

Theorem C03_mpz_add : forall u v, mpz_wf u -> mpz_wf v ->
  value (mpz_add u v) = value u + value v /\ mpz_wf (mpz_add u v).
Proof. exact mpz_add_spec. Qed.
Print Assumptions C03_mpz_add.

Theorem C03_mpz_sub : forall u v, mpz_wf u -> mpz_wf v ->
  value (mpz_sub u v) = value u - value v /\ mpz_wf (mpz_sub u v).
Proof. exact mpz_sub_spec. Qed.
Print Assumptions C03_mpz_sub.

Theorem C03_mpz_add_ui : forall u v, mpz_wf u -> limb v ->
  value (mpz_add_ui u v) = value u + v /\ mpz_wf (mpz_add_ui u v).
Proof. exact mpz_add_ui_spec. Qed.
Print Assumptions C03_mpz_add_ui.

Theorem C03_mpz_sub_ui : forall u v, mpz_wf u -> limb v ->
  value (mpz_sub_ui u v) = value u - v /\ mpz_wf (mpz_sub_ui u v).
Proof. exact mpz_sub_ui_spec. Qed.
Print Assumptions C03_mpz_sub_ui.

Theorem C03_mpz_ui_sub : forall u v, limb u -> mpz_wf v ->
  value (mpz_ui_sub u v) = u - value v /\ mpz_wf (mpz_ui_sub u v).
Proof. exact mpz_ui_sub_spec. Qed.
Print Assumptions C03_mpz_ui_sub.

Theorem C03_mpz_neg_abs_set_swap : forall u v, mpz_wf u -> mpz_wf v ->
  (value (mpz_neg u) = - value u /\ mpz_wf (mpz_neg u))
  /\ (value (mpz_abs u) = Z.abs (value u) /\ mpz_wf (mpz_abs u))
  /\ (value (mpz_set u) = value u /\ mpz_wf (mpz_set u))
  /\ (value (fst (mpz_swap u v)) = value v /\ value (snd (mpz_swap u v)) = value u).
Proof. exact mpz_neg_abs_set_swap_spec. Qed.
Print Assumptions C03_mpz_neg_abs_set_swap.

Theorem C03_mpz_mul_2exp : forall u cnt, mpz_wf u -> 0 <= cnt ->
  value (mpz_mul_2exp u cnt) = value u * 2 ^ cnt /\ mpz_wf (mpz_mul_2exp u cnt).
Proof. exact mpz_mul_2exp_spec. Qed.
Print Assumptions C03_mpz_mul_2exp.

(* non-vacuity: concrete operands meeting the hypotheses, exercising a full
   carry chain and a sign change *)
Example C03_nonvacuous :
  wf [B - 1; B - 1; B - 1] /\ add_n [B - 1; B - 1; B - 1] [1; 0; 0] = ([0; 0; 0], 1)
  /\ mpz_wf (mkz (-2) [0; 1]) /\ mpz_wf (mkz 1 [5])
  /\ value (mpz_add (mkz (-2) [0; 1]) (mkz 1 [5])) = - B + 5.
Proof. exact C03_example. Qed.
