(* Properties_C04.v — C04: no call sequence breaks the allocator contract or a variable.
   The allocation state machine of AllocDefs.v (tied to the code event by event by the histF
   correspondence).  Statements only. *)
From Coq Require Import ZArith List Bool.
From Mpir Require Import AllocDefs AllocProofs.
Import ListNotations.
Local Open Scope Z_scope.

(* (scalar arguments are C unsigned longs: op_ok; init names a slot of the pool: op_inb)
   after every operation every variable is well formed: at least one limb allocated and the
   allocation the C code requested is large enough for the value it then stores *)
Theorem C04_wf_preserved : forall kara ops p, Forall op_ok ops -> pool_ok p -> pool_ok (fst (run kara p ops)).
Proof. exact run_pool_ok. Qed.
Print Assumptions C04_wf_preserved.

(* reallocate and free are always called with exactly the size the block currently has: every
   event of a step names the byte size of a live variable of the pool it is applied to *)
Theorem C04_exact_sizes : forall kara p o e, pool_ok p -> In e (snd (step kara p o)) ->
  match e with
  | ERealloc old _ => exists i ob, getv p i = Some ob /\ old = 8 * zalloc ob
  | EFree b => exists i ob, getv p i = Some ob /\ b = 8 * zalloc ob
  | EAlloc b => 8 <= b
  end.
Proof. exact step_exact_sizes. Qed.
Print Assumptions C04_exact_sizes.

(* the bytes held by the variables always equal the net effect of the allocator events *)
Theorem C04_balance : forall kara ops p, Forall (op_inb (length p)) ops ->
  held (fst (run kara p ops)) = held p + net (snd (run kara p ops)).
Proof. exact run_balance. Qed.
Print Assumptions C04_balance.

(* once every variable has been cleared the library holds no block *)
Theorem C04_no_leak : forall kara n ops, Forall (op_inb n) ops ->
  held (fst (run kara (repeat None n) (ops ++ clear_all n))) = 0
  /\ net (snd (run kara (repeat None n) (ops ++ clear_all n))) = 0.
Proof. exact run_no_leak. Qed.
Print Assumptions C04_no_leak.

(* values are independent of the allocation history: two pools with the same values (whatever
   their allocations) stay value-equal under every operation sequence *)
Theorem C04_alloc_independent : forall kara ops p p',
  pool_ok p -> pool_ok p' -> vals p = vals p' ->
  vals (fst (run kara p ops)) = vals (fst (run kara p' ops)).
Proof. exact run_alloc_independent. Qed.
Print Assumptions C04_alloc_independent.

(* growing or shrinking a variable with mpz_realloc2 to any size that still holds its value never
   changes any value *)
Theorem C04_realloc2_neutral : forall kara p i bits ob, pool_ok p -> getv p i = Some ob ->
  nl (zval ob) <= Z.max ((bits + 63) / 64) 1 ->
  vals (fst (step kara p (ORealloc2 i bits))) = vals p.
Proof. exact realloc2_neutral. Qed.
Print Assumptions C04_realloc2_neutral.

Example C04_nonvacuous :
  pool_ok [Some (mkobj 1 5); None]
  /\ run 17 [Some (mkobj 1 5); None] [OMul 0 0 0; OInit 1; OMul2exp 1 0 130; OClear 0; OClear 1]
     = ([None; None], [ERealloc 8 16; EAlloc 8; ERealloc 8 32; EFree 16; EFree 32]).
Proof. exact C04_example. Qed.
