(* Properties_C17.v — C17: import/export and the raw stream format round-trip in the documented
   format and report a short stream.  Statements only. *)
From Coq Require Import ZArith List Bool.
From Mpir Require Import Word Limbs MpzDefs IoDefs IoProofs IoLoopDefs IoLoopProofs.
Import ListNotations.
Local Open Scope Z_scope.

(* mpz_import (mpz_export x) = |x| for every word size, order, endianness and nail count *)
Theorem C17_import_export : forall x size order endian nails,
  1 <= size -> 0 <= nails < 8 * size -> (order = 1 \/ order = -1) -> (endian = 1 \/ endian = 0 \/ endian = -1) ->
  let '(bytes, count) := mpz_export x size order endian nails in
  mpz_import bytes count size order endian nails = Z.abs x.
Proof. exact import_export. Qed.
Print Assumptions C17_import_export.

(* exactly the documented number of words is written: ceil (bits / (8 size - nails)), count * size bytes,
   each a byte, and 0 words for 0 *)
Theorem C17_export_count : forall x size order endian nails,
  1 <= size -> 0 <= nails < 8 * size ->
  let '(bytes, count) := mpz_export x size order endian nails in
  Z.of_nat (length bytes) = count * size
  /\ Forall (fun b => 0 <= b < 256) bytes
  /\ (x = 0 -> count = 0)
  /\ (x <> 0 -> (count - 1) * (8 * size - nails) <= Z.log2 (Z.abs x) < count * (8 * size - nails)).
Proof. exact export_count_spec. Qed.
Print Assumptions C17_export_count.

(* the nail bits of every exported word are zero: each word, read back in full, is below 2^(8 size - nails) *)
Theorem C17_export_nails_zero : forall x size order endian nails,
  1 <= size -> 0 <= nails < 8 * size -> (endian = 1 \/ endian = 0 \/ endian = -1) ->
  let '(bytes, count) := mpz_export x size order endian nails in
  Forall (fun w => 0 <= bytes_word (if endian =? 0 then -1 else endian) w < 2 ^ (8 * size - nails))
         (chunks (Z.to_nat count) (Z.to_nat size) bytes).
Proof. exact export_nails_zero. Qed.
Print Assumptions C17_export_nails_zero.

(* mpz_import ignores the nail bits of its input and yields a non-negative value below 2^(count * payload) *)
Theorem C17_import_range : forall bytes count size order endian nails,
  1 <= size -> 0 <= nails < 8 * size -> 0 <= count ->
  0 <= mpz_import bytes count size order endian nails < 2 ^ (count * (8 * size - nails)).
Proof. exact import_range. Qed.
Print Assumptions C17_import_range.

(* the raw format: 4-byte big-endian two's complement byte count (negative for negative x), then the
   magnitude, most significant byte first with no leading zero byte *)
Theorem C17_out_raw_format : forall x, Z.abs x < 2 ^ (8 * (2 ^ 31 - 1)) ->
  let s := out_raw x in
  Z.of_nat (length s) = 4 + nbytes x
  /\ val_le 8 (rev (firstn 4 s)) = (if x <? 0 then 2 ^ 32 - nbytes x else nbytes x) mod 2 ^ 32
  /\ val_le 8 (rev (skipn 4 s)) = Z.abs x
  /\ (x <> 0 -> 0 < nth 4 s 0)
  /\ Forall (fun b => 0 <= b < 256) s.
Proof. exact out_raw_format. Qed.
Print Assumptions C17_out_raw_format.

(* what mpz_out_raw writes, mpz_inp_raw reads back exactly, consuming exactly those bytes, whatever follows *)
Theorem C17_raw_roundtrip : forall x rest, Z.abs x < 2 ^ (8 * (2 ^ 31 - 1)) ->
  inp_raw (out_raw x ++ rest) = (Z.of_nat (length (out_raw x)), x).
Proof. exact raw_roundtrip. Qed.
Print Assumptions C17_raw_roundtrip.

(* a stream that ends early: every proper prefix of a raw record is rejected with 0 *)
Theorem C17_raw_truncated : forall x (k : nat), Z.abs x < 2 ^ (8 * (2 ^ 31 - 1)) ->
  (k < length (out_raw x))%nat -> fst (inp_raw (firstn k (out_raw x))) = 0.
Proof. exact raw_truncated. Qed.
Print Assumptions C17_raw_truncated.

(* arbitrary (invalid) headers: the reader either fails with 0 or consumes exactly 4 + |count| bytes, which the
   stream does hold, and returns a value of at most that many bytes *)
Theorem C17_raw_total : forall s, Forall (fun b => 0 <= b < 256) s ->
  let '(n, v) := inp_raw s in
  n = 0 \/ (4 <= n <= Z.of_nat (length s) /\ Z.abs v < 2 ^ (8 * (n - 4))).
Proof. exact raw_total. Qed.
Print Assumptions C17_raw_total.


(* the general bit-packing loops AS CODED (mpz/export.c: EXTRACT with its end-of-limbs guard, byte and word pointers walking by
   endian / order, nail bytes; mpz/import.c: ACCUMULATE) produce exactly the bytes / the value of the specification above, for
   every size, order, endianness, nail count, value and initial buffer content *)
Theorem C17_export_loop_is_spec : forall init x size order endian nails,
  1 <= size -> 0 <= nails < 8 * size -> (order = 1 \/ order = -1) -> (endian = 1 \/ endian = 0 \/ endian = -1) ->
  fst (export_loop init (limbs_of_Z x) size order endian nails) = fst (mpz_export x size order endian nails)
  /\ snd (export_loop init (limbs_of_Z x) size order endian nails) = snd (mpz_export x size order endian nails).
Proof. exact export_loop_eq_spec_Z. Qed.
Print Assumptions C17_export_loop_is_spec.

Theorem C17_import_loop_is_spec : forall bytes count size order endian nails,
  1 <= size -> 0 <= nails < 8 * size -> (order = 1 \/ order = -1) -> (endian = 1 \/ endian = 0 \/ endian = -1) -> 0 <= count ->
  Z.of_nat (length bytes) = count * size -> Forall (fun b => 0 <= b < 256) bytes ->
  import_loop bytes count size order endian nails = mpz_import bytes count size order endian nails.
Proof. exact import_loop_eq_spec. Qed.
Print Assumptions C17_import_loop_is_spec.

(* the bit buffer of EXTRACT always holds exactly the next bits of the zero-extended value: nothing beyond the last limb is read *)
Theorem C17_extract_reads_no_stale_limb : forall ls s, wf ls -> reachable ls s -> exists pos, buf_inv (eval ls) pos s.
Proof. exact buf_inv_always. Qed.
Print Assumptions C17_extract_reads_no_stale_limb.

Example C17_nonvacuous :
  mpz_export (2 ^ 64 + 258) 2 1 1 0 = ([0; 1; 0; 0; 0; 0; 0; 0; 1; 2], 5)
  /\ mpz_export 0x123456 3 (-1) (-1) 4 = ([86; 52; 2; 1; 0; 0], 2)
  /\ mpz_import [86; 52; 242; 1; 0; 240] 2 3 (-1) (-1) 4 = 0x123456
  /\ out_raw (-258) = [255; 255; 255; 254; 1; 2]
  /\ inp_raw [0; 0; 0; 2; 0; 7; 9] = (6, 7) /\ inp_raw [0; 0; 0; 3; 1; 2] = (0, 0).
Proof. exact C17_example. Qed.
