(* Properties_C05.v — C05: outputs may alias inputs; input-only operands are never modified.
   The store theorems fix what an aliased call must return (the function of the initial values)
   and that non-output variables keep their values; the mpn overlap theorems are proved on the C
   loops over a shared memory.  The tie to the code is the exhaustive alias-partition harness. *)
From Coq Require Import ZArith List Bool.
From Mpir Require Import HeapDefs HeapProofs Word Limbs MpnBasicDefs MemDefs MemProofs AliasDefs AliasProofs.
Import ListNotations.
Local Open Scope Z_scope.

Theorem C05_one_output : forall fn st w ins,
  call1 fn st w ins w = fn (map st ins)
  /\ forall x, x <> w -> call1 fn st w ins x = st x.
Proof. exact call1_alias. Qed.
Print Assumptions C05_one_output.

Theorem C05_two_outputs : forall fn st w1 w2 ins, w1 <> w2 ->
  call2 fn st w1 w2 ins w1 = fst (fn (map st ins))
  /\ call2 fn st w1 w2 ins w2 = snd (fn (map st ins))
  /\ forall x, x <> w1 -> x <> w2 -> call2 fn st w1 w2 ins x = st x.
Proof. exact call2_alias. Qed.
Print Assumptions C05_two_outputs.

Theorem C05_distinct_vs_aliased : forall fn st st' w w' ins ins',
  map st ins = map st' ins' -> call1 fn st w ins w = call1 fn st' w' ins' w'.
Proof. exact call1_distinct_vs_aliased. Qed.
Print Assumptions C05_distinct_vs_aliased.

(* mpn: every overlap the manual allows, on the C loops acting on one memory *)
Theorem C05_mpn_add_n_overlap : forall m rp up vp n,
  asc_ok rp up n -> asc_ok rp vp n ->
  rd (fst (add_n_mem m rp up vp n 0)) rp n = fst (add_n (rd m up n) (rd m vp n))
  /\ snd (add_n_mem m rp up vp n 0) = snd (add_n (rd m up n) (rd m vp n))
  /\ forall a, outside rp n a -> fst (add_n_mem m rp up vp n 0) a = m a.
Proof. exact add_n_mem_overlap. Qed.
Print Assumptions C05_mpn_add_n_overlap.

Theorem C05_mpn_lshift_overlap : forall m rp up n cnt, desc_ok rp up n -> 1 <= cnt <= 63 ->
  rd (fst (lshift_mem m rp up n cnt)) rp n = fst (lshift (rd m up n) cnt)
  /\ snd (lshift_mem m rp up n cnt) = snd (lshift (rd m up n) cnt)
  /\ forall a, outside rp n a -> fst (lshift_mem m rp up n cnt) a = m a.
Proof. exact lshift_mem_overlap. Qed.
Print Assumptions C05_mpn_lshift_overlap.

Theorem C05_mpn_rshift_overlap : forall m rp up n cnt, asc_ok rp up n -> 1 <= cnt <= 63 ->
  rd (fst (rshift_mem m rp up n cnt)) rp n = fst (rshift (rd m up n) cnt)
  /\ snd (rshift_mem m rp up n cnt) = snd (rshift (rd m up n) cnt)
  /\ forall a, outside rp n a -> fst (rshift_mem m rp up n cnt) a = m a.
Proof. exact rshift_mem_overlap. Qed.
Print Assumptions C05_mpn_rshift_overlap.

Theorem C05_mpn_copy_overlap : forall m rp up n,
  (asc_ok rp up n -> rd (copyi_mem m rp up n) rp n = rd m up n)
  /\ (desc_ok rp up n -> rd (copyd_mem m (rp + Z.of_nat n) (up + Z.of_nat n) n) rp n = rd m up n).
Proof.
  intros m rp up n. split; intros H.
  - exact (proj1 (copyi_mem_overlap m rp up n H)).
  - exact (proj1 (copyd_mem_overlap m rp up n H)).
Qed.
Print Assumptions C05_mpn_copy_overlap.


(* mpz_add / mpz_sub as coded (mpz/aors.h, mpz/realloc.c) on a heap of blocks where a reallocation moves the block and
   invalidates the old one: for EVERY alias pattern among w, u, v (any of them the same variable) the call never touches an
   invalid block, leaves a well-formed state, puts the exact sum / difference into w and changes no other variable *)
Theorem C05_heap_aors : forall dom sub st w u v, st_wf dom st -> In w dom -> In u dom -> In v dom ->
  exists st', mpz_aors sub st w u v = Some st' /\ st_wf dom st'
    /\ value_of st' w = (if sub then value_of st u - value_of st v else value_of st u + value_of st v)
    /\ (forall x, In x dom -> x <> w -> value_of st' x = value_of st x).
Proof. exact mpz_aors_safe_correct. Qed.
Print Assumptions C05_heap_aors.

(* the order of the statements matters: loading the operand pointers BEFORE the reallocation (what the comment in aors.h
   warns against) reads a freed block as soon as the destination is also a source and has no spare limb *)
Theorem C05_stale_pointer_is_wrong :
  st_wf [0; 1; 2]%nat tight /\ mpz_aors_stale false tight 0 0 1 = None /\ mpz_aors_stale_src false tight 0 0 1 = None
  /\ option_map obs (mpz_aors false tight 0 0 1) = Some [B * B - 1 - 3; -3; 0]
  /\ option_map (st_wfb [0; 1; 2]%nat) (mpz_aors false tight 0 0 1) = Some true.
Proof. exact mpz_aors_stale_wrong. Qed.
Print Assumptions C05_stale_pointer_is_wrong.

Example C05_nonvacuous :
  call1 (fun l => nth 0 l 0 + nth 1 l 0) (fun k => Z.of_nat k + 5) 1 [1%nat; 1%nat] 1%nat = 12
  /\ asc_ok 10 10 3 /\ desc_ok 12 10 3.
Proof. unfold asc_ok, desc_ok. split; [reflexivity|split; [left|left]; apply Z.le_refl || (apply Z.leb_le; reflexivity)]. Qed.
