(* Properties_C08.v — C08: powers and modular powers are exact.  Statements only. *)
From Coq Require Import ZArith List Bool.
From Mpir Require Import Word Limbs MpzDefs DivDefs GcdDefs PowDefs PowProofs PowmWDefs PowmWProofs PowmEvenProofs.
Import ListNotations.
Local Open Scope Z_scope.

(* Montgomery reduction limb by limb: a representative of T * B^-n modulo m below B^n, for every
   odd modulus of n limbs and every T of 2n limbs (the final subtraction happens exactly when the
   sum carries out of n limbs) *)
Theorem C08_redc_1 : forall t m n invm,
  0 < m < B ^ Z.of_nat n -> (m * invm) mod B = B - 1 -> 0 <= invm < B -> 0 <= t < B ^ Z.of_nat n * B ^ Z.of_nat n ->
  0 <= redc_1 t m n invm < B ^ Z.of_nat n
  /\ (redc_1 t m n invm * B ^ Z.of_nat n) mod m = t mod m.
Proof. exact redc_1_spec. Qed.
Print Assumptions C08_redc_1.

Theorem C08_binvert_limb : forall a, 0 < a < B -> Z.odd a = true -> (a * binvert_limb a) mod B = 1.
Proof. exact binvert_limb_spec. Qed.
Print Assumptions C08_binvert_limb.

(* exponentiation by squaring and by fixed windows of any width: b^e mod m for every exponent *)
Theorem C08_powm_methods : forall k b e m, 0 < m -> 0 <= e -> (1 <= k)%nat ->
  powm_bin b e m = b ^ e mod m /\ powm_window k b e m = b ^ e mod m.
Proof. exact powm_methods_spec. Qed.
Print Assumptions C08_powm_methods.

(* even moduli: recombination of the residues modulo the odd part and modulo 2^t *)
Theorem C08_crt_even : forall x modd t, 0 < modd -> Z.odd modd = true -> 1 <= t ->
  crt_even (x mod modd) (x mod 2 ^ t) modd t = x mod (modd * 2 ^ t).
Proof. exact crt_even_spec. Qed.
Print Assumptions C08_crt_even.

(* mpz_powm: every base, every non-negative exponent, every non-zero modulus odd or even; negative
   exponents when the base is invertible; zero modulus is the DivByZero tag *)
Theorem C08_mpz_powm : forall b e m,
  (m = 0 -> mpz_powm b e m = DivByZero)
  /\ (m <> 0 -> 0 <= e -> mpz_powm b e m = Ok (b ^ e mod Z.abs m))
  /\ (m <> 0 -> e < 0 -> 1 < Z.abs m -> Z.gcd b m = 1 ->
        exists r, mpz_powm b e m = Ok r /\ 0 <= r < Z.abs m /\ (r * b ^ (- e)) mod Z.abs m = 1)
  /\ (m <> 0 -> e < 0 -> Z.gcd b m <> 1 -> mpz_powm b e m = DivByZero)
  /\ mpz_pow_ui 0 0 = 1.
Proof. exact mpz_powm_spec. Qed.
Print Assumptions C08_mpz_powm.


(* ---- mpn/generic/powm.c and mpz/powm.c AS CODED (PowmWDefs.v), the executable models of the families mpn_powm-as-coded and
   mpz_powm-as-coded ---- *)

(* the window of exponent bits: for every position, windows that straddle a limb boundary and the short window at the bottom included *)
Theorem C08_getbits : forall p bi nbits, wf p -> 0 <= bi -> 1 <= nbits <= 63 ->
  getbits p bi nbits = if bi <? nbits then eval p mod 2 ^ bi else (eval p / 2 ^ (bi - nbits)) mod 2 ^ nbits.
Proof. exact getbits_spec. Qed.
Print Assumptions C08_getbits.

Theorem C08_win_size : forall eb, 0 <= eb < B -> 1 <= win_size eb <= 10.
Proof. exact win_size_range. Qed.
Print Assumptions C08_win_size.

(* the whole routine - table of odd powers in Montgomery form, first window, zero-skipping loop, squaring / window loop, conversion
   out of Montgomery form and the final canonical reduction - returns b^e mod m for EVERY base (reduced or not), every exponent
   and every odd modulus *)
Theorem C08_mpn_powm_as_coded : forall bl el ml, wf bl -> wf el -> wf ml ->
  el <> [] -> lat el (len el - 1) <> 0 -> 64 * len el < B -> Z.odd (lat ml 0) = true ->
  mpn_powm_c bl el ml = to_limbs (length ml) (eval bl ^ eval el mod eval ml).
Proof. exact mpn_powm_c_spec. Qed.
Print Assumptions C08_mpn_powm_as_coded.

(* the whole wrapper as coded equals the specification for EVERY base, exponent and modulus: m = 0 (trap), e = 0, e = 1 and e = -1 (the
   shortcut that subtracts without dividing, normalised after the repair 3b23d14), negative exponents through the inverse (both
   outcomes), zero and negative bases, odd moduli, and even moduli (low zero limbs stripped, the shift with its top-limb check, the
   powlo shortcuts, binvert / mullow / mask / mul / add = the CRT recombination); the size hypotheses hold for every mpz the
   library can represent (sizes are C ints) *)
Theorem C08_mpz_powm_as_coded : forall b e m, mpz_wf b -> mpz_wf e -> mpz_wf m -> 64 * len (d e) < B -> 64 * len (d m) < B ->
  match mpz_powm (value b) (value e) (value m) with
  | Ok v => exists z, mpz_powm_c b e m = Ok z /\ value z = v /\ mpz_wf z
  | DivByZero => mpz_powm_c b e m = DivByZero
  end.
Proof. exact mpz_powm_c_spec. Qed.
Print Assumptions C08_mpz_powm_as_coded.

Theorem C08_powm_e1_as_coded : forall b m, mpz_wf b -> mpz_wf m -> sz m <> 0 ->
  exists z, powm_e1 b m = Ok z /\ value z = value b mod Z.abs (value m) /\ mpz_wf z.
Proof. exact powm_e1_spec. Qed.
Print Assumptions C08_powm_e1_as_coded.

(* the recombination for an even modulus modd * 2^t, as coded, is the Chinese remainder value *)
Theorem C08_even_recombination_as_coded : forall X modd r2 n nodd k cnt, 0 < modd -> Z.odd modd = true -> 1 <= k -> 0 <= cnt <= 63 ->
  let t := (k - b2z (negb (cnt =? 0))) * 64 + cnt in
  modd * 2 ^ t <= B ^ n -> modd < B ^ nodd -> 0 <= nodd -> r2 mod 2 ^ t = X mod 2 ^ t ->
  recomb (X mod modd) r2 modd n nodd k cnt = X mod (modd * 2 ^ t).
Proof. exact recomb_spec. Qed.
Print Assumptions C08_even_recombination_as_coded.

Example C08_nonvacuous :
  mpz_powm 2 5 (3 * 2 ^ 64) = Ok 32 /\ mpz_powm 3 (-1) 7 = Ok 5 /\ mpz_powm (-2) 3 5 = Ok 2
  /\ redc_1 (5 * B) 7 1 (B - binvert_limb 7) mod 7 = 5.
Proof. exact C08_example. Qed.
