(* Properties_C08.v — C08: powers and modular powers are exact.  Statements only. *)
From Coq Require Import ZArith List Bool.
From Mpir Require Import Word DivDefs GcdDefs PowDefs PowProofs.
Import ListNotations.
Local Open Scope Z_scope.

(* Montgomery reduction limb by limb: a representative of T * B^-n modulo m below B^n, for every
   odd modulus of n limbs and every T of 2n limbs (the final subtraction happens exactly when the
   sum carries out of n limbs) *)
Theorem C08_redc_1 : forall t m n invm,
  0 < m < B ^ Z.of_nat n -> (m * invm) mod B = B - 1 -> 0 <= invm < B -> 0 <= t < B ^ Z.of_nat n * B ^ Z.of_nat n ->
  0 <= redc_1 t m n invm < B ^ Z.of_nat n
  /\ (redc_1 t m n invm * B ^ Z.of_nat n) mod m = t mod m.
Proof. exact redc_1_spec. Qed.
Print Assumptions C08_redc_1.

Theorem C08_binvert_limb : forall a, 0 < a < B -> Z.odd a = true -> (a * binvert_limb a) mod B = 1.
Proof. exact binvert_limb_spec. Qed.
Print Assumptions C08_binvert_limb.

(* exponentiation by squaring and by fixed windows of any width: b^e mod m for every exponent *)
Theorem C08_powm_methods : forall k b e m, 0 < m -> 0 <= e -> (1 <= k)%nat ->
  powm_bin b e m = b ^ e mod m /\ powm_window k b e m = b ^ e mod m.
Proof. exact powm_methods_spec. Qed.
Print Assumptions C08_powm_methods.

(* even moduli: recombination of the residues modulo the odd part and modulo 2^t *)
Theorem C08_crt_even : forall x modd t, 0 < modd -> Z.odd modd = true -> 1 <= t ->
  crt_even (x mod modd) (x mod 2 ^ t) modd t = x mod (modd * 2 ^ t).
Proof. exact crt_even_spec. Qed.
Print Assumptions C08_crt_even.

(* mpz_powm: every base, every non-negative exponent, every non-zero modulus odd or even; negative
   exponents when the base is invertible; zero modulus is the DivByZero tag *)
Theorem C08_mpz_powm : forall b e m,
  (m = 0 -> mpz_powm b e m = DivByZero)
  /\ (m <> 0 -> 0 <= e -> mpz_powm b e m = Ok (b ^ e mod Z.abs m))
  /\ (m <> 0 -> e < 0 -> 1 < Z.abs m -> Z.gcd b m = 1 ->
        exists r, mpz_powm b e m = Ok r /\ 0 <= r < Z.abs m /\ (r * b ^ (- e)) mod Z.abs m = 1)
  /\ (m <> 0 -> e < 0 -> Z.gcd b m <> 1 -> mpz_powm b e m = DivByZero)
  /\ mpz_pow_ui 0 0 = 1.
Proof. exact mpz_powm_spec. Qed.
Print Assumptions C08_mpz_powm.

Example C08_nonvacuous :
  mpz_powm 2 5 (3 * 2 ^ 64) = Ok 32 /\ mpz_powm 3 (-1) 7 = Ok 5 /\ mpz_powm (-2) 3 5 = Ok 2
  /\ redc_1 (5 * B) 7 1 (B - binvert_limb 7) mod 7 = 5.
Proof. exact C08_example. Qed.
