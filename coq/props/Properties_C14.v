(* Properties_C14.v — C14: results do not depend on the kernel, the tuning table or the build options.
   What can be a theorem: (1) the value-level specification every kernel is executed against is exact (no
   information lost) and is the very function the limb-level models of the portable C routines compute
   (those models are the subject of C01 / C03 / C10); (2) every shipped gmp-mparam.h, REGENERATED from the
   tree, is a valid threshold vector and FFT table; (3) the multiplication models give the product for
   EVERY threshold / every valid FFT table, so a result cannot depend on which table is in force.
   That each assembly kernel agrees with its specification is decided by execution (no x86 semantics
   here).  Statements only. *)
From Coq Require Import String ZArith List Bool.
From Mpir Require Import Word Limbs MpnBasicDefs MpnMulDefs FftDefs BitDefs KernDefs KernProofs.
From MpirGen Require Import Gen_Tables.
Import ListNotations.
Local Open Scope Z_scope.

(* (1a) the specifications lose nothing: result and return value recombine to the exact integer result *)
Theorem C14_specs_exact : forall n u v w vl c, 0 <= n -> 0 <= u < Bn n -> 0 <= v < Bn n -> 0 <= w < Bn n -> 0 <= vl < 2 ^ 64 -> 1 <= c <= 63 ->
  let ex (p : Z * Z) := fst p + snd p * Bn n in let exs (p : Z * Z) := fst p - snd p * Bn n in
  let rng (p : Z * Z) (k : Z) := 0 <= fst p < Bn n /\ 0 <= snd p <= k in
  (ex (k_add_n n u v) = u + v /\ rng (k_add_n n u v) 1)
  /\ (exs (k_sub_n n u v) = u - v /\ rng (k_sub_n n u v) 1)
  /\ (ex (k_addlsh_n n u v c) = u + v * 2 ^ c /\ rng (k_addlsh_n n u v c) (2 ^ c))
  /\ (exs (k_sublsh_n n u v c) = u - v * 2 ^ c /\ rng (k_sublsh_n n u v c) (2 ^ c))
  /\ (ex (k_addadd_n n u v w) = u + v + w /\ rng (k_addadd_n n u v w) 2)
  /\ (exs (k_subadd_n n u v w) = u - v - w /\ rng (k_subadd_n n u v w) 2)
  /\ (ex (k_addsub_n n u v w) = u + v - w /\ 0 <= fst (k_addsub_n n u v w) < Bn n /\ -1 <= snd (k_addsub_n n u v w) <= 1)
  /\ (ex (k_mul_1 n u vl) = u * vl /\ rng (k_mul_1 n u vl) (2 ^ 64 - 1))
  /\ (ex (k_addmul_1 n w u vl) = w + u * vl /\ rng (k_addmul_1 n w u vl) (2 ^ 64 - 1))
  /\ (exs (k_submul_1 n w u vl) = w - u * vl /\ rng (k_submul_1 n w u vl) (2 ^ 64 - 1))
  /\ (ex (k_lshift n u c) = u * 2 ^ c /\ rng (k_lshift n u c) (2 ^ c - 1))
  /\ (fst (k_rshift n u c) * 2 ^ c + snd (k_rshift n u c) / 2 ^ (64 - c) = u /\ 0 <= snd (k_rshift n u c) < 2 ^ 64
      /\ snd (k_rshift n u c) mod 2 ^ (64 - c) = 0)
  /\ (2 * fst (k_rsh1add_n n u v) + snd (k_rsh1add_n n u v) = u + v /\ 0 <= fst (k_rsh1add_n n u v) < Bn n).
Proof. exact specs_exact. Qed.
Print Assumptions C14_specs_exact.

(* (1b) they are the functions of the limb-level models of the portable C routines *)
Theorem C14_spec_is_portable_model : forall u v r vl c, wf u -> wf v -> wf r -> length v = length u -> length r = length u -> limb vl -> 1 <= c <= 63 ->
  let n := Z.of_nat (length u) in
  k_add_n n (eval u) (eval v) = (eval (fst (add_n u v)), snd (add_n u v))
  /\ k_sub_n n (eval u) (eval v) = (eval (fst (sub_n u v)), snd (sub_n u v))
  /\ k_mul_1 n (eval u) vl = (eval (fst (mul_1 u vl)), snd (mul_1 u vl))
  /\ k_addmul_1 n (eval r) (eval u) vl = (eval (fst (addmul_1 r u vl)), snd (addmul_1 r u vl))
  /\ k_submul_1 n (eval r) (eval u) vl = (eval (fst (submul_1 r u vl)), snd (submul_1 r u vl))
  /\ (u <> [] -> v <> [] -> k_mul (eval u) (eval v) = eval (mul_basecase u v))
  /\ k_not n (eval u) = eval (com_n u)
  /\ k_logic 0 n (eval u) (eval v) = eval (and_n u v) /\ k_logic 2 n (eval u) (eval v) = eval (ior_n u v)
  /\ k_logic 6 n (eval u) (eval v) = eval (xor_n u v) /\ k_logic 1 n (eval u) (eval v) = eval (andn_n u v)
  /\ k_popcount (eval u) = popcount u.
Proof. exact spec_is_portable_model. Qed.
Print Assumptions C14_spec_is_portable_model.

(* (2) every gmp-mparam.h shipped under mpn/x86_64 is a valid threshold vector with a valid FFT table *)
Theorem C14_shipped_tables_valid :
  forallb (fun s => thr_valid minsizes (fst (snd s)) && tab_valid (snd (snd s))) shipped = true
  /\ (20 <= length shipped)%nat.
Proof. exact shipped_tables_valid. Qed.
Print Assumptions C14_shipped_tables_valid.

(* (3) threshold independence of the multiplication models: Karatsuba for every threshold, FFT parameters for every
   valid table *)
Theorem C14_threshold_independent :
  (forall fuel thr n x y, 0 <= n -> kara_mul fuel thr n x y = x * y)
  /\ (forall t n1 n2 c, tab_valid t = true -> 1 <= n1 -> 1 <= n2 -> fft_trunc (n1 * 64) (n2 * 64) 6 1 > 2 * 2 ^ 6 ->
        fft_params (tab_of t) n1 n2 = Some c -> choice_ok n1 n2 c).
Proof. exact threshold_independent. Qed.
Print Assumptions C14_threshold_independent.

Example C14_nonvacuous :
  k_add_n 2 (2 ^ 128 - 1) 1 = (0, 1) /\ k_sub_n 1 0 1 = (2 ^ 64 - 1, 1) /\ k_rsh1sub_n 1 0 1 = (2 ^ 64 - 1, 1)
  /\ k_addmul_2 2 5 (2 ^ 128 - 1) (2 ^ 128 - 1) = (6277101735386680763155224689365789489175606229600498089990, 2 ^ 64 - 1)
  /\ thr_valid minsizes [("MUL_KARATSUBA_THRESHOLD"%string, 3)] = false.
Proof. exact C14_example. Qed.
