(* Properties_C20.v — C20: C++ class expressions evaluate to the same values as the C functions.
   The theorems are about the evaluation strategy of the expression templates (mpirxx.h), for ANY carrier
   and ANY operator semantics: so they hold for mpz_class, mpq_class and mpf_class alike.  Statements only. *)
From Coq Require Import ZArith List Bool.
From Mpir Require Import Word CxxDefs CxxProofs.
Import ListNotations.
Local Open Scope Z_scope.

Section AnyCarrier.
Variable V : Type.
Variables (un : Z -> V -> V) (bin : Z -> V -> V -> V) (binl : Z -> V -> Z -> V) (binr : Z -> Z -> V -> V) (blt : Z -> Z) (dflt : V).
Let value := value V un bin binl binr blt dflt.
Let run := run V un bin binl binr blt.

(* Evaluating ANY well-formed expression tree straight into ANY destination - a named object that may occur anywhere
   in the tree, or a temporary - leaves in the destination exactly the value obtained by evaluating every
   sub-expression on its own with the C function of its operator; no other named object and no temporary in use
   (numbered below k) changes. *)
Theorem C20_strategy_correct : forall e p k s, wf_expr e = true ->
  (match p with Tmp i => (i < k)%nat | Named _ => True end) ->
  run e p k s p = value e (fun v => s (Named v))
  /\ (forall v, loc_eqb (Named v) p = false -> run e p k s (Named v) = s (Named v))
  /\ (forall i, (i < k)%nat -> loc_eqb (Tmp i) p = false -> run e p k s (Tmp i) = s (Tmp i)).
Proof. exact (strategy_correct V un bin binl binr blt dflt). Qed.

(* x = e, also when x occurs in e *)
Theorem C20_assignment : forall x e s, wf_expr e = true ->
  assign V un bin binl binr blt x e s (Named x) = value e (fun v => s (Named v))
  /\ (forall v, v <> x -> assign V un bin binl binr blt x e s (Named v) = s (Named v)).
Proof. exact (assignment_correct V un bin binl binr blt dflt). Qed.

(* x op= e behaves like x = x op e *)
Theorem C20_compound_assignment : forall op x e s, wf_expr e = true \/ (exists j, e = EBuiltin j) ->
  compound V un bin binl binr blt op x e s (Named x) = value (EBin op (EVar x) e) (fun v => s (Named v))
  /\ (forall v, v <> x -> compound V un bin binl binr blt op x e s (Named v) = s (Named v)).
Proof. exact (compound_correct V un bin binl binr blt dflt). Qed.
End AnyCarrier.
Print Assumptions C20_strategy_correct.
Print Assumptions C20_assignment.
Print Assumptions C20_compound_assignment.

(* the operator table for mpz_class: the C functions are the mathematical ones *)
Theorem C20_mpz_operators : forall a b, 
  z_bin 0 a b = a + b /\ z_bin 1 a b = a - b /\ z_bin 2 a b = a * b
  /\ (b <> 0 -> a = b * z_bin 3 a b + z_bin 4 a b /\ Z.abs (z_bin 4 a b) < Z.abs b /\ (z_bin 4 a b = 0 \/ Z.sgn (z_bin 4 a b) = Z.sgn a))
  /\ (forall n, 0 <= n -> Z.testbit (z_bin 5 a b) n = Z.testbit a n && Z.testbit b n)
  /\ (forall n, 0 <= n -> Z.testbit (z_bin 6 a b) n = Z.testbit a n || Z.testbit b n)
  /\ (forall n, 0 <= n -> Z.testbit (z_bin 7 a b) n = xorb (Z.testbit a n) (Z.testbit b n))
  /\ z_un 0 a = - a /\ z_un 1 a = Z.lnot a /\ z_un 2 a = Z.abs a
  /\ (0 <= a -> z_un 3 a * z_un 3 a <= a < (z_un 3 a + 1) * (z_un 3 a + 1)).
Proof. exact mpz_operators. Qed.
Print Assumptions C20_mpz_operators.

Example C20_nonvacuous :
  let s : store Z := fun q => match q with Named 0 => 7 | Named 1 => -3 | Named 2 => 10 | _ => 0 end in
  let e := EBin 0 (EBin 2 (EVar 0) (EVar 1)) (EBin 1 (EVar 2) (EBin 3 (EVar 0) (EBuiltin 0))) in     (* a*b + (c - a / 2) *)
  wf_expr e = true
  /\ assign Z z_un z_bin (fun op a k => z_bin op a k) (fun op k a => z_bin op k a) (fun _ => 2) 0 e s (Named 0) = 7 * -3 + (10 - 3)
  /\ compound Z z_un z_bin (fun op a k => z_bin op a k) (fun op k a => z_bin op k a) (fun _ => 2) 1 0 (EBin 2 (EVar 0) (EVar 0)) s (Named 0) = 7 - 49.
Proof. exact C20_example. Qed.
