(* Properties_C12.v — C12: rational arithmetic is exact and every result is canonical.
   Values are compared by cross-multiplication (denominators are positive).  Statements only. *)
From Coq Require Import ZArith List Bool.
From Mpir Require Import Word DivDefs ConvDefs MpqDefs MpqProofs.
Import ListNotations.
Local Open Scope Z_scope.

Theorem C12_add_sub : forall x y, qcanon x -> qcanon y ->
  (qcanon (mpq_add x y)
   /\ qn (mpq_add x y) * (qd x * qd y) = (qn x * qd y + qn y * qd x) * qd (mpq_add x y))
  /\ (qcanon (mpq_sub x y)
   /\ qn (mpq_sub x y) * (qd x * qd y) = (qn x * qd y - qn y * qd x) * qd (mpq_sub x y)).
Proof. exact mpq_add_sub_spec. Qed.
Print Assumptions C12_add_sub.

Theorem C12_mul : forall x y same, qcanon x -> qcanon y -> (same = true -> x = y) ->
  qcanon (mpq_mul x y same)
  /\ qn (mpq_mul x y same) * (qd x * qd y) = (qn x * qn y) * qd (mpq_mul x y same).
Proof. exact mpq_mul_spec. Qed.
Print Assumptions C12_mul.

Theorem C12_div : forall x y, qcanon x -> qcanon y ->
  (qn y = 0 -> mpq_div x y = DivByZero)
  /\ (qn y <> 0 -> exists r, mpq_div x y = Ok r /\ qcanon r
                             /\ qn r * (qd x * qn y) = (qn x * qd y) * qd r).
Proof. exact mpq_div_spec. Qed.
Print Assumptions C12_div.

Theorem C12_inv_neg_abs : forall x, qcanon x ->
  (qn x = 0 -> mpq_inv x = DivByZero)
  /\ (qn x <> 0 -> exists r, mpq_inv x = Ok r /\ qcanon r /\ qn r * qn x = qd x * qd r)
  /\ (qcanon (mpq_neg x) /\ qn (mpq_neg x) = - qn x /\ qd (mpq_neg x) = qd x)
  /\ (qcanon (mpq_abs x) /\ qn (mpq_abs x) = Z.abs (qn x) /\ qd (mpq_abs x) = qd x).
Proof. exact mpq_inv_neg_abs_spec. Qed.
Print Assumptions C12_inv_neg_abs.

Theorem C12_mul_div_2exp : forall x n, qcanon x -> 0 <= n ->
  (qcanon (mpq_mul_2exp x n) /\ qn (mpq_mul_2exp x n) * qd x = qn x * 2 ^ n * qd (mpq_mul_2exp x n))
  /\ (qcanon (mpq_div_2exp x n) /\ qn (mpq_div_2exp x n) * (qd x * 2 ^ n) = qn x * qd (mpq_div_2exp x n)).
Proof. exact mpq_md_2exp_spec. Qed.
Print Assumptions C12_mul_div_2exp.

(* canonicalize: any pair with non-zero denominator; value preserved; idempotent *)
Theorem C12_canonicalize : forall x,
  (qd x = 0 -> mpq_canonicalize x = DivByZero)
  /\ (qd x <> 0 -> exists r, mpq_canonicalize x = Ok r /\ qcanon r /\ qn r * qd x = qn x * qd r)
  /\ (qcanon x -> mpq_canonicalize x = Ok x).
Proof. exact mpq_canonicalize_spec. Qed.
Print Assumptions C12_canonicalize.

(* conversions are exact and canonical *)
Theorem C12_set : forall z bits neg m e mf ef,
  qcanon (mpq_set_z z) /\ qn (mpq_set_z z) = z /\ qd (mpq_set_z z) = 1
  /\ (decode_double bits = DFin neg m e -> 0 <= m ->
      exists r, mpq_set_d bits = COk r /\ qcanon r
        /\ (0 <= e -> qn r = (if neg then - m else m) * 2 ^ e * qd r)
        /\ (e < 0 -> qn r * 2 ^ (- e) = (if neg then - m else m) * qd r))
  /\ (qcanon (mpq_set_f mf ef)
      /\ (0 <= ef -> qn (mpq_set_f mf ef) = mf * 2 ^ ef * qd (mpq_set_f mf ef))
      /\ (ef < 0 -> qn (mpq_set_f mf ef) * 2 ^ (- ef) = mf * qd (mpq_set_f mf ef))).
Proof. exact mpq_set_spec. Qed.
Print Assumptions C12_set.

Example C12_nonvacuous :
  qcanon (mkq 1 6) /\ qcanon (mkq 1 10) /\ mpq_add (mkq 1 6) (mkq 1 10) = mkq 4 15
  /\ mpq_div_2exp (mkq 12 5) 3 = mkq 3 10 /\ mpq_canonicalize (mkq 6 (-4)) = Ok (mkq (-3) 2).
Proof. exact C12_example. Qed.
