(* Properties_C02.v — C02: division returns the exact quotient/remainder with the documented
   rounding.  Statements only. *)
From Coq Require Import ZArith List Bool.
From Mpir Require Import DcDivDefs DcDivProofs SbDivDefs SbDivProofs Word Limbs MpnBasicDefs MpzDefs DivDefs DivWordProofs DivWord2Proofs DivProofs.
Import ListNotations.
Local Open Scope Z_scope.

(* ---- word level: the pre-inverted two-by-one division of gmp-impl.h ---- *)
Theorem C02_invert_limb : forall d, B / 2 <= d < B ->
  invert_limb d = (B * B - 1) / d - B /\ limb (invert_limb d).
Proof. exact invert_limb_spec. Qed.
Print Assumptions C02_invert_limb.

Theorem C02_udiv_qrnnd_preinv1 : forall nh nl d, B / 2 <= d < B -> 0 <= nh < d -> limb nl ->
  udiv_qrnnd_preinv1 nh nl d (invert_limb d) = ((nh * B + nl) / d, (nh * B + nl) mod d).
Proof. exact preinv1_spec. Qed.
Print Assumptions C02_udiv_qrnnd_preinv1.

(* the 3/2 division step of Moeller-Granlund with its reciprocal: exact quotient limb and two-limb
   remainder, including the equality edges n2:n1 = d1:d0 - 1 and r1 = d1 *)
Theorem C02_invert_pi1 : forall d1 d0, B / 2 <= d1 < B -> limb d0 ->
  invert_pi1 d1 d0 = (B * B * B - 1) / (d1 * B + d0) - B.
Proof. exact invert_pi1_spec. Qed.
Print Assumptions C02_invert_pi1.

Theorem C02_udiv_qr_3by2 : forall n2 n1 n0 d1 d0, B / 2 <= d1 < B -> limb d0 -> limb n2 -> limb n1 -> limb n0 ->
  n2 * B + n1 < d1 * B + d0 ->
  let '(q, r1, r0) := udiv_qr_3by2 n2 n1 n0 d1 d0 (invert_pi1 d1 d0) in
  q = (n2 * B * B + n1 * B + n0) / (d1 * B + d0) /\ r1 * B + r0 = (n2 * B * B + n1 * B + n0) mod (d1 * B + d0) /\ limb q /\ limb r1 /\ limb r0.
Proof. exact udiv_qr_3by2_spec. Qed.
Print Assumptions C02_udiv_qr_3by2.

(* ---- limb level: division by one limb, any n, any non-zero divisor ---- *)
Theorem C02_divrem_1 : forall n d, wf n -> 0 < d < B ->
  eval n = eval (fst (divrem_1 n d)) * d + snd (divrem_1 n d)
  /\ 0 <= snd (divrem_1 n d) < d /\ wf (fst (divrem_1 n d)) /\ length (fst (divrem_1 n d)) = length n
  /\ mod_1 n d = eval n mod d.
Proof. exact divrem_1_spec. Qed.
Print Assumptions C02_divrem_1.

(* ---- mpz level: rounding families, every sign combination ---- *)
Theorem C02_tdiv : forall n d,
  (d = 0 -> tdiv_qr n d = DivByZero)
  /\ (d <> 0 -> tdiv_qr n d = Ok (Z.quot n d, Z.rem n d)
               /\ n = Z.quot n d * d + Z.rem n d /\ Z.abs (Z.rem n d) < Z.abs d /\ 0 <= Z.rem n d * n).
Proof. exact tdiv_spec. Qed.
Print Assumptions C02_tdiv.

Theorem C02_fdiv : forall n d,
  (d = 0 -> fdiv_qr n d = DivByZero)
  /\ (d <> 0 -> fdiv_qr n d = Ok (n / d, n mod d)
               /\ n = (n / d) * d + n mod d /\ Z.abs (n mod d) < Z.abs d /\ 0 <= (n mod d) * d).
Proof. exact fdiv_spec. Qed.
Print Assumptions C02_fdiv.

(* ceiling: q = -floor(-n/d), remainder has the opposite sign to d *)
Theorem C02_cdiv : forall n d,
  (d = 0 -> cdiv_qr n d = DivByZero)
  /\ (d <> 0 -> cdiv_qr n d = Ok (- ((- n) / d), n + ((- n) / d) * d)
               /\ Z.abs (n + ((- n) / d) * d) < Z.abs d /\ (n + ((- n) / d) * d) * d <= 0).
Proof. exact cdiv_spec. Qed.
Print Assumptions C02_cdiv.

Theorem C02_div_ui : forall n d, 0 < d ->
  tdiv_qr_ui n d = Ok (Z.quot n d, Z.rem n d, Z.abs (Z.rem n d))
  /\ fdiv_qr_ui n d = Ok (n / d, n mod d, n mod d)
  /\ cdiv_qr_ui n d = Ok (- ((- n) / d), n + ((- n) / d) * d, - (n + ((- n) / d) * d))
  /\ 0 <= - (n + ((- n) / d) * d) < d.
Proof. exact div_ui_spec. Qed.
Print Assumptions C02_div_ui.

Theorem C02_div_2exp : forall n cnt, 0 <= cnt ->
  tdiv_q_2exp n cnt = Z.quot n (2 ^ cnt) /\ tdiv_r_2exp n cnt = Z.rem n (2 ^ cnt)
  /\ cfdiv_q_2exp n cnt (-1) = n / 2 ^ cnt /\ cfdiv_r_2exp n cnt (-1) = n mod 2 ^ cnt
  /\ cfdiv_q_2exp n cnt 1 = - ((- n) / 2 ^ cnt) /\ cfdiv_r_2exp n cnt 1 = n + ((- n) / 2 ^ cnt) * 2 ^ cnt.
Proof. exact div_2exp_spec. Qed.
Print Assumptions C02_div_2exp.

Theorem C02_mod_divexact : forall n d, d <> 0 ->
  mpz_mod n d = Ok (n mod Z.abs d) /\ 0 <= n mod Z.abs d < Z.abs d
  /\ ((d | n) -> divexact n d = Ok (n / d) /\ n = (n / d) * d).
Proof. exact mod_divexact_spec. Qed.
Print Assumptions C02_mod_divexact.

(* divisibility and congruence predicates agree with the quotient/remainder, including d = 0 *)
Theorem C02_divisible_congruent : forall a c d cnt, 0 <= cnt ->
  (divisible_p a d = true <-> (d | a))
  /\ (divisible_2exp_p a cnt = true <-> (2 ^ cnt | a))
  /\ (congruent_p a c d = true <-> (d | a - c))
  /\ (congruent_2exp_p a c cnt = true <-> (2 ^ cnt | a - c)).
Proof. exact divisible_congruent_spec. Qed.
Print Assumptions C02_divisible_congruent.

(* the certificate check used for very large divisions never rejects a correct result *)
Theorem C02_divcheck_complete : forall n d q r, n = q * d + r -> divcheck_residues n d q r = true.
Proof. exact divcheck_complete. Qed.
Print Assumptions C02_divcheck_complete.


(* divide-and-conquer division as coded (mpn/generic/dc_div_qr_n.c): high half by the top half of the divisor, multiply back,
   correct with the "while (cy != 0)" loop, then the low half; base case any exact division of 2m by m limbs.  For EVERY
   2n-limb numerator, every normalised n-limb divisor, every threshold and recursion depth: exact quotient (with its extra
   high bit qh) and remainder; the first correction loop runs at most 4 times, the second at most 2 *)
Theorem C02_dc_div_qr_n : forall basediv mmin thr fuel lfuel n N D,
  base_exact basediv mmin thr -> 1 <= mmin -> 2 * mmin <= thr -> (4 <= lfuel)%nat ->
  2 * mmin <= n -> n <= 2 ^ Z.of_nat fuel -> 0 <= N < Bp (2 * n) -> Bp n / 2 <= D < Bp n ->
  let '(qh, Q, R) := dc_div_qr_n basediv fuel lfuel thr n N D in
  N = (qh * Bp n + Q) * D + R /\ 0 <= R < D /\ 0 <= Q < Bp n /\ (qh = 0 \/ qh = 1).
Proof. exact dc_div_qr_n_correct. Qed.
Print Assumptions C02_dc_div_qr_n.

Theorem C02_dc_div_qr_n_is_div_mod : forall basediv mmin thr fuel lfuel n N D,
  base_exact basediv mmin thr -> 1 <= mmin -> 2 * mmin <= thr -> (4 <= lfuel)%nat ->
  2 * mmin <= n -> n <= 2 ^ Z.of_nat fuel -> 0 <= N < Bp (2 * n) -> Bp n / 2 <= D < Bp n ->
  let '(qh, Q, R) := dc_div_qr_n basediv fuel lfuel thr n N D in qh * Bp n + Q = N / D /\ R = N mod D.
Proof. exact dc_div_qr_n_div_mod. Qed.
Print Assumptions C02_dc_div_qr_n_is_div_mod.


(* schoolbook division as coded (mpn/generic/sb_div_qr.c): initial compare/subtract, then per quotient limb the 3-by-2 estimate
   (or B-1 when the two top limbs equal the divisor's), submul of the low divisor limbs, the sub_333 borrow test and the single
   add-back: exact for every numerator, every normalised divisor of at least 3 limbs; the estimate is never more than 1 too large *)
Theorem C02_sb_div_qr : forall nn dn N D, 3 <= dn -> dn <= nn -> 0 <= N < Bp nn -> Bp dn / 2 <= D < Bp dn ->
  let '(qh, Q, R) := sb_div_qr nn dn N D in
  N = (qh * Bp (nn - dn) + Q) * D + R /\ 0 <= R < D /\ 0 <= Q < Bp (nn - dn) /\ (qh = 0 \/ qh = 1).
Proof. exact sb_div_qr_correct. Qed.
Print Assumptions C02_sb_div_qr.

(* ... which discharges the base-case hypothesis of the divide-and-conquer theorem: schoolbook below the threshold,
   divide-and-conquer above, no assumption left *)
Theorem C02_dc_over_sb : forall thr fuel lfuel n N D, 6 <= thr -> (4 <= lfuel)%nat -> 6 <= n -> n <= 2 ^ Z.of_nat fuel ->
  0 <= N < Bp (2 * n) -> Bp n / 2 <= D < Bp n ->
  let '(qh, Q, R) := dc_div_qr_n sb_basediv fuel lfuel thr n N D in
  N = (qh * Bp n + Q) * D + R /\ 0 <= R < D /\ 0 <= Q < Bp n /\ (qh = 0 \/ qh = 1).
Proof. exact dc_with_sb_correct. Qed.
Print Assumptions C02_dc_over_sb.

Example C02_nonvacuous :
  B / 2 <= B - 1 < B /\ udiv_qrnnd_preinv1 (B - 2) (B - 1) (B - 1) (invert_limb (B - 1)) = (B - 1, B - 2)
  /\ fdiv_qr (-7) 2 = Ok (-4, 1) /\ cdiv_qr 7 2 = Ok (4, -1) /\ tdiv_qr (-7) 2 = Ok (-3, -1).
Proof. exact C02_example. Qed.
