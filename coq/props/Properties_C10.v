(* Properties_C10.v — C10: bitwise functions follow infinite two's-complement semantics.
   Statements only. *)
From Coq Require Import ZArith List Bool.
From Mpir Require Import ScanDefs ScanProofs Word Limbs MpnBasicDefs MpzDefs BitDefs BitProofs.
Import ListNotations.
Local Open Scope Z_scope.

(* mpn logical functions are the plain bitwise functions of the limb vectors *)
Theorem C10_mpn_logic : forall u v, wf u -> wf v -> length u = length v ->
  let m := B ^ len u - 1 in
  eval (and_n u v) = Z.land (eval u) (eval v)
  /\ eval (ior_n u v) = Z.lor (eval u) (eval v)
  /\ eval (xor_n u v) = Z.lxor (eval u) (eval v)
  /\ eval (andn_n u v) = Z.land (eval u) (m - eval v)
  /\ eval (iorn_n u v) = Z.lor (eval u) (m - eval v)
  /\ eval (nand_n u v) = m - Z.land (eval u) (eval v)
  /\ eval (nior_n u v) = m - Z.lor (eval u) (eval v)
  /\ eval (xnor_n u v) = m - Z.lxor (eval u) (eval v)
  /\ wf (and_n u v) /\ wf (ior_n u v) /\ wf (xor_n u v) /\ wf (andn_n u v)
  /\ wf (iorn_n u v) /\ wf (nand_n u v) /\ wf (nior_n u v) /\ wf (xnor_n u v).
Proof. exact mpn_logic_spec. Qed.
Print Assumptions C10_mpn_logic.

(* Zpopcount counts the set bits *)
Theorem C10_popcount_bits : forall n x, 0 <= x < 2 ^ Z.of_nat n ->
  Zpopcount x = fold_right Z.add 0 (map (fun i => b2z (Z.testbit x (Z.of_nat i))) (seq 0 n)).
Proof. exact popcount_bits. Qed.
Print Assumptions C10_popcount_bits.

Theorem C10_mpn_popcount_hamdist : forall u v, wf u -> wf v -> length u = length v ->
  popcount u = Zpopcount (eval u) /\ hamdist u v = Zpopcount (Z.lxor (eval u) (eval v)).
Proof. exact mpn_popcount_hamdist_spec. Qed.
Print Assumptions C10_mpn_popcount_hamdist.

(* scan1: the least set bit at or above the start, or the largest bit count iff there is none *)
Theorem C10_scan1 : forall x s, 0 <= s ->
  (Zscan1 x s = BITCNT_MAX /\ forall k, s <= k -> Z.testbit x k = false)
  \/ (s <= Zscan1 x s /\ Z.testbit x (Zscan1 x s) = true
      /\ forall k, s <= k < Zscan1 x s -> Z.testbit x k = false).
Proof. exact scan1_spec. Qed.
Print Assumptions C10_scan1.

Theorem C10_scan0 : forall x s, 0 <= s ->
  (Zscan0 x s = BITCNT_MAX /\ forall k, s <= k -> Z.testbit x k = true)
  \/ (s <= Zscan0 x s /\ Z.testbit x (Zscan0 x s) = false
      /\ forall k, s <= k < Zscan0 x s -> Z.testbit x k = true).
Proof. exact scan0_spec. Qed.
Print Assumptions C10_scan0.

(* mpz logical functions: every sign combination, every length *)
Theorem C10_mpz_and_ior_xor : forall a b, mpz_wf a -> mpz_wf b ->
  (value (mpz_and a b) = Z.land (value a) (value b) /\ mpz_wf (mpz_and a b))
  /\ (value (mpz_ior a b) = Z.lor (value a) (value b) /\ mpz_wf (mpz_ior a b))
  /\ (value (mpz_xor a b) = Z.lxor (value a) (value b) /\ mpz_wf (mpz_xor a b)).
Proof. exact mpz_and_ior_xor_spec. Qed.
Print Assumptions C10_mpz_and_ior_xor.

Theorem C10_mpz_com : forall a, mpz_wf a ->
  value (mpz_com a) = Z.lnot (value a) /\ mpz_wf (mpz_com a).
Proof. exact mpz_com_spec. Qed.
Print Assumptions C10_mpz_com.

Theorem C10_mpz_tstbit : forall u k, mpz_wf u -> 0 <= k ->
  mpz_tstbit u k = b2z (Z.testbit (value u) k).
Proof. exact mpz_tstbit_spec. Qed.
Print Assumptions C10_mpz_tstbit.

Theorem C10_mpz_setbit_clrbit_combit : forall u k, mpz_wf u -> 0 <= k ->
  (value (mpz_setbit u k) = Z.setbit (value u) k /\ mpz_wf (mpz_setbit u k))
  /\ (value (mpz_clrbit u k) = Z.clearbit (value u) k /\ mpz_wf (mpz_clrbit u k))
  /\ (value (mpz_combit u k) = Z.lxor (value u) (2 ^ k) /\ mpz_wf (mpz_combit u k)).
Proof. exact mpz_setbit_clrbit_combit_spec. Qed.
Print Assumptions C10_mpz_setbit_clrbit_combit.

Theorem C10_mpz_popcount_hamdist : forall u v, mpz_wf u -> mpz_wf v ->
  mpz_popcount u = (if value u <? 0 then BITCNT_MAX else Zpopcount (value u))
  /\ mpz_hamdist u v =
     (if Bool.eqb (value u <? 0) (value v <? 0) then Zpopcount (Z.lxor (value u) (value v)) else BITCNT_MAX).
Proof. exact mpz_popcount_hamdist_spec. Qed.
Print Assumptions C10_mpz_popcount_hamdist.


(* mpz_scan1 / mpz_scan0 as coded (mpz/scan1.c, mpz/scan0.c) on sign-magnitude limbs: start limb, mask, walking up, for negatives the
   downward search for a non-zero lower limb (ones-complement region), the skip of zero limbs with limb = -limb, the inverted
   search running off the end: equal to the value-level definitions for every well-formed operand and every start *)
Theorem C10_scan_limb_level : forall u start, mpz_wf u -> 0 <= start ->
  mpz_scan1_c u start = mpz_scan1 u start /\ mpz_scan0_c u start = mpz_scan0 u start.
Proof. intros u start Hu Hs; split; [exact (mpz_scan1_c_correct u start Hu Hs) | exact (mpz_scan0_c_correct u start Hu Hs)]. Qed.
Print Assumptions C10_scan_limb_level.

Example C10_nonvacuous :
  mpz_wf (mkz (-2) [0; 1]) /\ mpz_wf (mkz (-1) [3])
  /\ value (mpz_and (mkz (-2) [0; 1]) (mkz (-1) [3])) = Z.land (- B) (-3)
  /\ mpz_scan1 (mkz (-3) [1; 0; 1]) 64 = 64.
Proof. exact C10_example. Qed.
