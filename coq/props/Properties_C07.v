(* Properties_C07.v — C07: gcd, extended gcd, lcm, modular inverse, Kronecker symbol.
   Statements only. *)
From Coq Require Import ZArith List Bool.
From Mpir Require Import Word DivDefs GcdDefs GcdProofs.
Import ListNotations.
Local Open Scope Z_scope.

(* the binary algorithm of mpn_gcd_1 (common twos, odd parts, subtract-and-strip) *)
Theorem C07_gcd_1 : forall u v, 0 < u -> 0 < v -> gcd_1 u v = Z.gcd u v.
Proof. exact gcd_1_spec. Qed.
Print Assumptions C07_gcd_1.

(* mpz_gcdext: g is the non-negative gcd, a s + b t = g, the manual's normalisation and special cases *)
Theorem C07_gcdext : forall a b,
  let '(g, s, t) := gcdext a b in
  g = Z.gcd a b /\ a * s + b * t = g
  /\ (a <> 0 -> b <> 0 -> Z.abs a <> Z.abs b -> 2 * g * Z.abs s <= Z.abs b)
  /\ (b = 0 -> s = Z.sgn a /\ t = 0)
  /\ (a = 0 -> b <> 0 -> s = 0 /\ t = Z.sgn b)
  /\ (a <> 0 -> Z.abs a = Z.abs b -> s = 0 /\ t = Z.sgn b)
  /\ (a <> 0 -> b <> 0 -> s = 0 -> g = Z.abs b).
Proof. exact gcdext_spec. Qed.
Print Assumptions C07_gcdext.

Theorem C07_lcm : forall a b, mpz_lcm a b = Z.lcm a b /\ 0 <= mpz_lcm a b.
Proof. exact lcm_spec. Qed.
Print Assumptions C07_lcm.

(* mpz_invert reports existence correctly and returns the inverse in [0, |n|) *)
Theorem C07_invert : forall x n, 1 < Z.abs n ->
  (mpz_invert x n = None <-> Z.gcd x n <> 1)
  /\ (forall r, mpz_invert x n = Some r -> 0 <= r < Z.abs n /\ (x * r) mod Z.abs n = 1).
Proof. exact invert_spec. Qed.
Print Assumptions C07_invert.

(* the symbol takes values in {-1, 0, 1}, vanishes exactly when the arguments have a common
   factor, and depends on the numerator only modulo an odd positive denominator *)
Theorem C07_kronecker : forall a b,
  (kronecker a b = -1 \/ kronecker a b = 0 \/ kronecker a b = 1)
  /\ (kronecker a b = 0 <-> Z.gcd a b <> 1)
  /\ (forall k, 0 < b -> Z.odd b = true -> jacobi (a + k * b) b = jacobi a b)
  /\ (0 < b -> Z.odd b = true -> kronecker a b = jacobi a b).
Proof. exact kronecker_spec. Qed.
Print Assumptions C07_kronecker.

Example C07_nonvacuous :
  gcdext 240 46 = (2, -9, 47) /\ mpz_invert 3 (-7) = Some 5 /\ kronecker 2 15 = 1 /\ kronecker (-1) (-1) = -1
  /\ kronecker 5 0 = 0 /\ gcd_1 (3 * 2 ^ 40) (9 * 2 ^ 13) = 3 * 2 ^ 13.
Proof. exact C07_example. Qed.
