(* Properties_C15.v — C15: concurrent use from several threads gives sequential results.
   Statements only. *)
From Coq Require Import String ZArith List Bool.
From Mpir Require Import ThreadDefs ThreadProofs.
From MpirGen Require Import Gen_Globals.
Import ListNotations.
Local Open Scope Z_scope.

(* every object the library built from the current tree keeps in a writable section (inventory REGENERATED from
   libmpir.a by nm) is one of: the shared state the manual documents, the trap helpers, or a table that is never
   written.  A new static cache, counter or buffer makes this theorem fail. *)
Theorem C15_only_documented_shared_state : inventory_ok writable_globals = true /\ (20 <= length writable_globals)%nat.
Proof. exact only_documented_shared_state. Qed.
Print Assumptions C15_only_documented_shared_state.

(* two steps that do not write what the other reads or writes commute *)
Theorem C15_independent_steps_commute : forall s t h, step_ok s -> step_ok t -> indep s t = true ->
  heq (run s (run t h)) (run t (run s h)).
Proof. exact independent_steps_commute. Qed.
Print Assumptions C15_independent_steps_commute.

(* EVERY interleaving of two threads whose steps are pairwise independent ends in the heap of running one thread
   after the other *)
Theorem C15_two_threads : forall p q r h, prog_ok p -> prog_ok q -> progs_indep p q -> merge p q r ->
  heq (exec r h) (exec (p ++ q) h).
Proof. exact two_threads_sequential. Qed.
Print Assumptions C15_two_threads.

(* ... and so does every interleaving of any number of threads: the result is that of the sequential run
   thread 1; thread 2; ...; and each thread's own locations hold what the thread alone would have computed *)
Theorem C15_any_threads : forall ps r h, Forall prog_ok ps -> all_indep ps -> merges ps r ->
  heq (exec r h) (exec (concat ps) h).
Proof. exact any_threads_sequential. Qed.
Print Assumptions C15_any_threads.

Theorem C15_thread_sees_own_result : forall p q r h x, prog_ok p -> prog_ok q -> progs_indep p q -> merge p q r ->
  inl x (footprint p) = true -> exec r h x = exec p h x.
Proof. exact thread_sees_own_result. Qed.
Print Assumptions C15_thread_sees_own_result.

Example C15_nonvacuous :
  let s := mkstep [1] [2] (fun h x => if x =? 2 then h 1 + 1 else h x) in
  let t := mkstep [1] [3] (fun h x => if x =? 3 then h 1 * 2 else h x) in
  indep s t = true /\ indep s (mkstep [2] [4] (fun h x => if x =? 4 then h 2 else h x)) = false
  /\ merge [s; s] [t] [s; t; s] /\ classified "x.0" = true /\ classified "cache" = false.
Proof. exact C15_example. Qed.
