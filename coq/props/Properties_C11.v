(* Properties_C11.v — C11: comparisons and conversions agree with exact arithmetic.
   A double is its IEEE-754 bit pattern, its value the exact dyadic.  Statements only. *)
From Coq Require Import ZArith List Bool.
From Mpir Require Import Word Limbs MpnBasicDefs MpzDefs ConvDefs MpqDefs ConvProofs GetDDefs GetDProofs.
Import ListNotations.
Local Open Scope Z_scope.

(* mpz_cmp as coded (sizes first, then limbs from the top) is the sign of the exact difference *)
Theorem C11_mpz_cmp : forall u v, mpz_wf u -> mpz_wf v ->
  mpz_cmp_limbs u v = Z.sgn (value u - value v).
Proof. exact mpz_cmp_limbs_spec. Qed.
Print Assumptions C11_mpz_cmp.

(* one consistent total order for integers, doubles and rationals *)
Theorem C11_order : forall a b c,
  mpz_cmp a b = - mpz_cmp b a
  /\ (mpz_cmp a b <= 0 -> mpz_cmp b c <= 0 -> mpz_cmp a c <= 0)
  /\ (mpz_cmp a b = 0 <-> a = b)
  /\ mpz_cmpabs a b = mpz_cmp (Z.abs a) (Z.abs b) /\ mpz_sgn a = mpz_cmp a 0.
Proof. exact order_spec. Qed.
Print Assumptions C11_order.

Theorem C11_mpq_order : forall n1 d1 n2 d2 n3 d3, 0 < d1 -> 0 < d2 -> 0 < d3 ->
  mpq_cmp n1 d1 n2 d2 = - mpq_cmp n2 d2 n1 d1
  /\ (mpq_cmp n1 d1 n2 d2 <= 0 -> mpq_cmp n2 d2 n3 d3 <= 0 -> mpq_cmp n1 d1 n3 d3 <= 0)
  /\ (qcanon (mkq n1 d1) -> qcanon (mkq n2 d2) -> (mpq_equal n1 d1 n2 d2 = true <-> mpq_cmp n1 d1 n2 d2 = 0)).
Proof. exact mpq_order_spec. Qed.
Print Assumptions C11_mpq_order.

(* doubles compared exactly; infinities lie beyond every integer *)
Theorem C11_cmp_d : forall z bits,
  (forall neg m e, decode_double bits = DFin neg m e -> 0 <= e ->
     mpz_cmp_d z bits = COk (Z.sgn (z - (if neg then - m else m) * 2 ^ e)))
  /\ (forall neg m e, decode_double bits = DFin neg m e -> e < 0 ->
     mpz_cmp_d z bits = COk (Z.sgn (z * 2 ^ (- e) - (if neg then - m else m))))
  /\ (decode_double bits = DInf false -> mpz_cmp_d z bits = COk (-1))
  /\ (decode_double bits = DInf true -> mpz_cmp_d z bits = COk 1)
  /\ (decode_double bits = DNan -> mpz_cmp_d z bits = Invalid).
Proof. exact cmp_d_spec. Qed.
Print Assumptions C11_cmp_d.

(* fits predicates are true exactly on the representable range; get_* are exact there and the
   documented low bits otherwise *)
Theorem C11_fits_get : forall z,
  (fits_u 64 z = true <-> 0 <= z < 2 ^ 64) /\ (fits_s 64 z = true <-> - 2 ^ 63 <= z < 2 ^ 63)
  /\ (fits_u 32 z = true <-> 0 <= z < 2 ^ 32) /\ (fits_s 32 z = true <-> - 2 ^ 31 <= z < 2 ^ 31)
  /\ (fits_u 16 z = true <-> 0 <= z < 2 ^ 16) /\ (fits_s 16 z = true <-> - 2 ^ 15 <= z < 2 ^ 15)
  /\ (0 <= z < 2 ^ 64 -> mpz_get_ui z = z)
  /\ (- 2 ^ 63 <= z < 2 ^ 63 -> mpz_get_si z = z /\ mpz_get_sx z = z)
  /\ mpz_get_ui z = Z.abs z mod 2 ^ 64.
Proof. exact fits_get_spec. Qed.
Print Assumptions C11_fits_get.

(* mpz_set_d truncates toward zero; exact on integers *)
Theorem C11_set_d : forall bits neg m e, decode_double bits = DFin neg m e -> 0 <= m ->
  exists t, mpz_set_d bits = COk t
    /\ (0 <= e -> t = (if neg then - m else m) * 2 ^ e)
    /\ (e < 0 -> t = Z.quot (if neg then - m else m) (2 ^ (- e))).
Proof. exact set_d_spec. Qed.
Print Assumptions C11_set_d.

(* mpz_get_d: for |z| < 2^1024 the result is the finite double m2 * 2^e2 with a full 53-bit
   significand that truncates |z| toward zero (never rounds up) and carries z's sign; exact when
   |z| has at most 53 significant bits; from 2^1024 on the result is the infinity of z's sign *)
Theorem C11_get_d_truncates : forall z, z <> 0 ->
  (Z.log2 (Z.abs z) < 1024 ->
     exists m2 e2, decode_double (mpz_get_d z) = DFin (z <? 0) m2 e2 /\ 2 ^ 52 <= m2 < 2 ^ 53
       /\ (0 <= e2 -> m2 * 2 ^ e2 <= Z.abs z < (m2 + 1) * 2 ^ e2)
       /\ (e2 < 0 -> m2 = Z.abs z * 2 ^ (- e2)))
  /\ (1024 <= Z.log2 (Z.abs z) -> decode_double (mpz_get_d z) = DInf (z <? 0)).
Proof. exact get_d_truncates. Qed.
Print Assumptions C11_get_d_truncates.


(* ---- the conversions to and from double AS CODED, at bit level (GetDDefs.v: the IEEE union path of mpn_get_d with its shifts,
   masks, the LONG_MAX overflow guard, denormal and underflow branches; mpz_get_d, mpz_get_d_2exp; __gmp_extract_double with its
   denormal loop and mpz_set_d; mpq_get_d with its choice of quotient length, padding / chopping and truncating division) are the
   value-level functions above, for every input ---- *)
Theorem C11_mpn_get_d_as_coded : forall l sign exp, wf l -> l <> [] -> last l 0 <> 0 -> len l < 2 ^ 57 -> - 2 ^ 63 <= exp < 2 ^ 63 ->
  mpn_get_d_c l (len l) sign exp = get_d_bits (eval l) (sign <? 0) exp.
Proof. exact mpn_get_d_c_correct. Qed.
Print Assumptions C11_mpn_get_d_as_coded.

Theorem C11_mpz_get_d_as_coded : forall z, mpz_wf z -> len (d z) < 2 ^ 57 -> mpz_get_d_c z = ConvDefs.mpz_get_d (value z).
Proof. exact mpz_get_d_c_correct. Qed.
Print Assumptions C11_mpz_get_d_as_coded.

Theorem C11_mpz_get_d_2exp_as_coded : forall z, mpz_wf z -> len (d z) < 2 ^ 57 -> mpz_get_d_2exp_c z = ConvDefs.mpz_get_d_2exp (value z).
Proof. exact mpz_get_d_2exp_c_correct. Qed.
Print Assumptions C11_mpz_get_d_2exp_as_coded.

(* the exact decomposition of a finite double into two limbs and a limb exponent, denormals included *)
Theorem C11_extract_double_as_coded : forall bits m e, 0 <= bits < 2 ^ 63 -> decode_double bits = DFin false m e ->
  (m = 0 -> extract_double_c bits = ([0; 0], 0))
  /\ (m <> 0 -> exists lo hi rn u, extract_double_c bits = ([lo; hi], rn) /\ limb lo /\ limb hi /\ hi <> 0 /\ 0 <= u
                 /\ eval [lo; hi] = m * 2 ^ u /\ e = 64 * (rn - 2) + u).
Proof. exact extract_double_c_correct. Qed.
Print Assumptions C11_extract_double_as_coded.

Theorem C11_mpz_set_d_as_coded : forall bits, 0 <= bits < 2 ^ 64 ->
  match ConvDefs.mpz_set_d bits, mpz_set_d_c bits with
  | COk t, COk z => value z = t /\ mpz_wf z
  | Invalid, Invalid => True
  | _, _ => False
  end.
Proof. exact mpz_set_d_c_correct. Qed.
Print Assumptions C11_mpz_set_d_as_coded.

(* mpq_get_d: for every numerator and positive denominator (canonical or not) the result is the exact quotient truncated toward zero *)
Theorem C11_mpq_get_d_as_coded : forall num den, mpz_wf num -> mpz_wf den -> 0 < sz den -> len (d num) < 2 ^ 56 -> len (d den) < 2 ^ 56 ->
  mpq_get_d_c num den = ConvDefs.mpq_get_d (value num) (value den).
Proof. exact mpq_get_d_c_correct. Qed.
Print Assumptions C11_mpq_get_d_as_coded.

Theorem C11_mpq_get_d_truncates : forall num den a, mpz_wf num -> mpz_wf den -> 0 < sz den -> len (d num) < 2 ^ 56 -> len (d den) < 2 ^ 56 ->
  value num <> 0 -> 2 ^ 52 <= qfl (Z.abs (value num)) (value den) a ->
  mpq_get_d_c num den = get_d_bits (qfl (Z.abs (value num)) (value den) a) (value num <? 0) (- a).
Proof. exact mpq_get_d_c_truncates. Qed.
Print Assumptions C11_mpq_get_d_truncates.

Example C11_nonvacuous :
  decode_double 4607182418800017408 = DFin false (2 ^ 52) (-52)        (* 1.0 *)
  /\ mpz_set_d 4611686018427387904 = COk 2                             (* 2.0 *)
  /\ mpz_get_d 3 = 4613937818241073152                                 (* 3.0 *)
  /\ mpz_get_d (2 ^ 53 + 1) = mpz_get_d (2 ^ 53)                       (* truncation *)
  /\ mpz_cmp_d (2 ^ 53 + 1) (mpz_get_d (2 ^ 53)) = COk 1.
Proof. exact C11_example. Qed.
