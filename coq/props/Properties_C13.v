(* Properties_C13.v — C13: float results are accurate to the destination precision.
   Theorem for the bit-exact model of mpf_mul; the accuracy certificate that the correspondence
   check evaluates on every other function's result is characterised here.  Statements only. *)
From Coq Require Import ZArith List Bool.
From Mpir Require Import MpfAddDefs MpfAddProofs MpfSubDefs MpfSubProofs MpfDivDefs MpfDivProofs Word DivDefs MpfDefs MpfProofs.
Import ListNotations.
Local Open Scope Z_scope.

(* mpf_mul: for all well-formed operands of ANY lengths and every destination precision
   prec >= 2 limbs, with p = mpf_get_prec = 64 (prec - 1): the result is well formed, its error is
   below 2^(2-p) relative, and it is exact when both operands have at most prec limbs and the
   product has at most prec + 1 limbs *)
Theorem C13_mpf_mul_accurate : forall prec u v pu pv,
  2 <= prec -> mpf_wf pu u -> mpf_wf pv v ->
  mpf_wf prec (mpf_mul prec u v)
  /\ acc_ok (bits_of_prec prec) (fnum u * fnum v) (fden u * fden v)
            (fnum (mpf_mul prec u v)) (fden (mpf_mul prec u v)) = true
  /\ (fn u <= prec -> fn v <= prec -> nlimbs (fM u * fM v) <= prec + 1 ->
        fnum (mpf_mul prec u v) * (fden u * fden v) = fnum u * fnum v * fden (mpf_mul prec u v)).
Proof. exact mpf_mul_accurate. Qed.
Print Assumptions C13_mpf_mul_accurate.

(* what the certificate means: relative error below 2^(2-p), by cross multiplication *)
Theorem C13_certificate : forall p en ed rn rd, 2 <= p -> 0 < ed -> 0 < rd ->
  (acc_ok p en ed rn rd = true <->
     (en = 0 /\ rn = 0) \/ (en <> 0 /\ Z.abs (rn * ed - en * rd) * 2 ^ (p - 2) < Z.abs en * rd))
  /\ (forall fit, cert_ok p fit en ed rn rd = true -> fit = true -> fits_bits p en ed = true -> rn * ed = en * rd).
Proof. exact certificate_spec. Qed.
Print Assumptions C13_certificate.

(* requested precision is honoured: mpf_get_prec (mpf_init2 b) >= b *)
Theorem C13_prec_roundtrip : forall b, 0 <= b -> b <= bits_of_prec (prec_of_bits b) /\ 2 <= prec_of_bits b.
Proof. exact prec_roundtrip. Qed.
Print Assumptions C13_prec_roundtrip.

(* ---- mpf_add (same-sign path of mpf/add.c), bit-exact model MpfAddDefs.v ---- *)
(* for all well-formed operands of ANY lengths that do not have opposite signs and every destination
   precision prec >= 1 limbs, p = mpf_get_prec = 64 (prec - 1): the result is well formed (at most
   prec + 1 limbs, top limb non-zero), it is a truncation of the exact sum, its error is below
   2^(2-p) relative, and it is exact when both operands lie in the window of prec limbs below the
   larger exponent *)
Theorem C13_mpf_add_accurate : forall prec u v pu pv,
  1 <= prec -> mpf_wf pu u -> mpf_wf pv v -> same_sign u v ->
  mpf_wf prec (mpf_add prec u v)
  /\ Z.abs (fnum (mpf_add prec u v) * add_den u v) <= Z.abs (add_num u v * fden (mpf_add prec u v))
  /\ acc_ok (bits_of_prec prec) (add_num u v) (add_den u v)
            (fnum (mpf_add prec u v)) (fden (mpf_add prec u v)) = true
  /\ (add_window prec u v ->
      fnum (mpf_add prec u v) * add_den u v = add_num u v * fden (mpf_add prec u v)).
Proof. exact mpf_add_accurate. Qed.
Print Assumptions C13_mpf_add_accurate.

(* the same with the bound 2^(1-p) (one bit better; mpf_add_ex_tight shows 2^(-p) fails) and
   exactness whenever every limb that is cut off is zero *)
Theorem C13_mpf_add_accurate_sharp : forall prec u v pu pv,
  1 <= prec -> mpf_wf pu u -> mpf_wf pv v -> same_sign u v ->
  mpf_wf prec (mpf_add prec u v)
  /\ Z.abs (fnum (mpf_add prec u v) * add_den u v) <= Z.abs (add_num u v * fden (mpf_add prec u v))
  /\ acc_ok (bits_of_prec prec + 1) (add_num u v) (add_den u v)
            (fnum (mpf_add prec u v)) (fden (mpf_add prec u v)) = true
  /\ (add_nothing_lost prec u v ->
      fnum (mpf_add prec u v) * add_den u v = add_num u v * fden (mpf_add prec u v)).
Proof. exact mpf_add_accurate_sharp. Qed.
Print Assumptions C13_mpf_add_accurate_sharp.

Theorem C13_mpf_add_wf : forall prec u v pu pv,
  1 <= prec -> mpf_wf pu u -> mpf_wf pv v -> same_sign u v -> mpf_wf prec (mpf_add prec u v).
Proof. exact mpf_add_wf. Qed.
Print Assumptions C13_mpf_add_wf.

(* no cancellation: non-zero result of the operands' sign, exponent max or max + 1 *)
Theorem C13_mpf_add_sign : forall prec u v pu pv,
  1 <= prec -> mpf_wf pu u -> mpf_wf pv v -> fM u <> 0 -> fM v <> 0 -> fneg u = fneg v ->
  fM (mpf_add prec u v) <> 0 /\ fneg (mpf_add prec u v) = fneg u
  /\ Z.max (fexp u) (fexp v) <= fexp (mpf_add prec u v) <= Z.max (fexp u) (fexp v) + 1.
Proof. exact mpf_add_sign. Qed.
Print Assumptions C13_mpf_add_sign.


(* ---- mpf_sub as coded (mpf/sub.c, 400 lines: stripping of equal leading limbs, the x+1 / x pattern with its runs of 00 / ff limbs,
   the near-cancellation path, five layouts with negated low parts, normalisation), bit-exact model MpfSubDefs.v ---- *)
(* operands of equal sign (a true subtraction of magnitudes), any lengths, any destination precision >= 1 limb: the result is well
   formed, within 2^(-p) of the EXACT difference - also under near-total cancellation of operands longer than the destination -
   zero exactly when u = v, and exact whenever every limb below the kept window is zero *)
Theorem C13_mpf_sub_accurate : forall prec u v pu pv,
  1 <= prec -> mpf_wf pu u -> mpf_wf pv v -> same_sign u v ->
  mpf_wf prec (mpf_sub prec u v)
  /\ acc_ok (bits_of_prec prec + 2) (sub_num u v) (sub_den u v) (fnum (mpf_sub prec u v)) (fden (mpf_sub prec u v)) = true
  /\ (sub_nothing_lost prec u v -> fnum (mpf_sub prec u v) * sub_den u v = sub_num u v * fden (mpf_sub prec u v)).
Proof. exact mpf_sub_accurate_sharp. Qed.
Print Assumptions C13_mpf_sub_accurate.

(* any signs (different signs go through the mpf_add model, as in the C code) *)
Theorem C13_mpf_sub_any_sign : forall prec u v pu pv,
  1 <= prec -> mpf_wf pu u -> mpf_wf pv v ->
  mpf_wf prec (mpf_sub_full prec u v)
  /\ acc_ok (bits_of_prec prec + 1) (sub_num u v) (sub_den u v) (fnum (mpf_sub_full prec u v)) (fden (mpf_sub_full prec u v)) = true
  /\ (add_window prec u v -> fnum (mpf_sub_full prec u v) * sub_den u v = sub_num u v * fden (mpf_sub_full prec u v)).
Proof. exact mpf_sub_full_accurate. Qed.
Print Assumptions C13_mpf_sub_any_sign.

Theorem C13_mpf_sub_sign : forall prec u v pu pv,
  1 <= prec -> mpf_wf pu u -> mpf_wf pv v -> same_sign u v -> Z.sgn (fnum (mpf_sub prec u v)) = Z.sgn (sub_num u v).
Proof. exact mpf_sub_sign. Qed.
Print Assumptions C13_mpf_sub_sign.


(* ---- mpf_div, mpf_mul_ui, mpf_div_ui as coded (mpf/div.c: choice of the dividend length by padding / chopping, truncating division,
   strip of a zero high quotient limb; mpf/mul_ui.c: the carry-in from the dropped low limbs and its ripple; mpf/div_ui.c),
   bit-exact models MpfDivDefs.v: well formed, truncation toward zero, within 2^(-p) of the exact result, exact exactly when
   nothing non-zero is lost; a zero divisor is the DIVIDE_BY_ZERO trap (None) ---- *)
Theorem C13_mpf_div_accurate : forall prec u v pu pv, 1 <= prec -> mpf_wf pu u -> mpf_wf pv v -> fM v <> 0 ->
  exists r, mpf_div prec u v = Some r /\ mpf_wf prec r
    /\ Z.abs (fnum r * div_den u v) <= Z.abs (div_num u v * fden r)
    /\ acc_ok (bits_of_prec prec + 2) (div_num u v) (div_den u v) (fnum r) (fden r) = true
    /\ (fnum r * div_den u v = div_num u v * fden r <-> div_nothing_lost prec u v).
Proof. exact mpf_div_accurate_sharp. Qed.
Print Assumptions C13_mpf_div_accurate.

Theorem C13_mpf_mul_ui_accurate : forall prec u k pu, 1 <= prec -> mpf_wf pu u -> 0 <= k < B ->
  mpf_wf prec (mpf_mul_ui prec u k)
  /\ Z.abs (fnum (mpf_mul_ui prec u k) * fden u) <= Z.abs (fnum u * k * fden (mpf_mul_ui prec u k))
  /\ acc_ok (bits_of_prec prec + 2) (fnum u * k) (fden u) (fnum (mpf_mul_ui prec u k)) (fden (mpf_mul_ui prec u k)) = true
  /\ (fnum (mpf_mul_ui prec u k) * fden u = fnum u * k * fden (mpf_mul_ui prec u k) <-> mul_ui_nothing_lost prec u k).
Proof. exact mpf_mul_ui_accurate_sharp. Qed.
Print Assumptions C13_mpf_mul_ui_accurate.

(* the carry from the dropped limbs can ripple through every kept limb: ceil(B^m / k) / B^m times k is exactly 1 *)
Theorem C13_mpf_mul_ui_ripple : forall prec m k, 1 <= prec -> prec < m -> 2 <= k < B ->
  mpf_mul_ui prec (mkf false ((B ^ m + k - 1) / k) m 0) k = mkf false (B ^ prec) (prec + 1) 1.
Proof. exact mpf_mul_ui_recip_family. Qed.
Print Assumptions C13_mpf_mul_ui_ripple.

Theorem C13_mpf_div_ui_accurate : forall prec u k pu, 1 <= prec -> mpf_wf pu u -> 0 < k < B ->
  exists r, mpf_div_ui prec u k = Some r /\ mpf_wf prec r
    /\ Z.abs (fnum r * (fden u * k)) <= Z.abs (fnum u * fden r)
    /\ acc_ok (bits_of_prec prec + 2) (fnum u) (fden u * k) (fnum r) (fden r) = true
    /\ (fnum r * (fden u * k) = fnum u * fden r <-> div_ui_nothing_lost prec u k).
Proof. exact mpf_div_ui_accurate_sharp. Qed.
Print Assumptions C13_mpf_div_ui_accurate.

Example C13_nonvacuous :
  mpf_wf 3 (mkf false (B + 5) 2 1) /\ mpf_mul 2 (mkf false (B + 5) 2 1) (mkf true 3 1 1) = mkf true (3 * B + 15) 2 1
  /\ acc_ok 128 1 3 (2 ^ 130 / 3) (2 ^ 130) = true /\ acc_ok 128 1 3 (2 ^ 100 / 3) (2 ^ 100) = false.
Proof. exact C13_example. Qed.
