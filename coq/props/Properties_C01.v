(* Properties_C01.v — C01: multiplication is exact for every operand shape and content.
   Statements only; each closed by a lemma of theories/ and followed by Print Assumptions. *)
From Coq Require Import ZArith List Bool.
From Mpir Require Import Toom3Defs Toom3Proofs Toom4Defs Toom4Proofs MulSliceDefs MulSliceProofs Word Limbs MpnBasicDefs MpzDefs MpnMulDefs MpnMulProofs FftDefs FftProofs.
Import ListNotations.
Local Open Scope Z_scope.

Theorem C01_mul_1 : forall u vl, wf u -> limb vl ->
  eval (fst (mul_1 u vl)) + B ^ len u * snd (mul_1 u vl) = eval u * vl
  /\ wf (fst (mul_1 u vl)) /\ length (fst (mul_1 u vl)) = length u /\ limb (snd (mul_1 u vl)).
Proof. exact mul_1_spec. Qed.
Print Assumptions C01_mul_1.

Theorem C01_addmul_1 : forall r u vl, wf r -> wf u -> limb vl -> length r = length u ->
  eval (fst (addmul_1 r u vl)) + B ^ len u * snd (addmul_1 r u vl) = eval r + eval u * vl
  /\ wf (fst (addmul_1 r u vl)) /\ length (fst (addmul_1 r u vl)) = length u
  /\ limb (snd (addmul_1 r u vl)).
Proof. exact addmul_1_spec. Qed.
Print Assumptions C01_addmul_1.

Theorem C01_submul_1 : forall r u vl, wf r -> wf u -> limb vl -> length r = length u ->
  eval (fst (submul_1 r u vl)) - B ^ len u * snd (submul_1 r u vl) = eval r - eval u * vl
  /\ wf (fst (submul_1 r u vl)) /\ length (fst (submul_1 r u vl)) = length u
  /\ limb (snd (submul_1 r u vl)).
Proof. exact submul_1_spec. Qed.
Print Assumptions C01_submul_1.

(* schoolbook multiplication: all un + vn result limbs are those of the exact product *)
Theorem C01_mul_basecase : forall u v, wf u -> wf v -> u <> [] -> v <> [] ->
  eval (mul_basecase u v) = eval u * eval v
  /\ wf (mul_basecase u v) /\ length (mul_basecase u v) = (length u + length v)%nat.
Proof. exact mul_basecase_spec. Qed.
Print Assumptions C01_mul_basecase.

(* Karatsuba's recombination with the |xh-xl|*|yh-yl| sign rule is the exact product for
   every split size, every threshold and every recursion depth *)
Theorem C01_kara_mul : forall fuel thr n x y, 0 <= n -> kara_mul fuel thr n x y = x * y.
Proof. exact kara_mul_spec. Qed.
Print Assumptions C01_kara_mul.

Theorem C01_mpz_mul : forall u v, mpz_wf u -> mpz_wf v ->
  value (mpz_mul u v) = value u * value v /\ mpz_wf (mpz_mul u v).
Proof. exact mpz_mul_spec. Qed.
Print Assumptions C01_mpz_mul.

Theorem C01_mpz_mul_ui : forall u v, mpz_wf u -> limb v ->
  value (mpz_mul_ui u v) = value u * v /\ mpz_wf (mpz_mul_ui u v).
Proof. exact mpz_mul_ui_spec. Qed.
Print Assumptions C01_mpz_mul_ui.

Theorem C01_mpz_mul_si : forall u v, mpz_wf u -> - 2 ^ 63 <= v < 2 ^ 63 ->
  value (mpz_mul_si u v) = value u * v /\ mpz_wf (mpz_mul_si u v).
Proof. exact mpz_mul_si_spec. Qed.
Print Assumptions C01_mpz_mul_si.

Theorem C01_mpz_addmul_submul : forall w x y, mpz_wf w -> mpz_wf x -> mpz_wf y ->
  (value (mpz_addmul w x y) = value w + value x * value y /\ mpz_wf (mpz_addmul w x y))
  /\ (value (mpz_submul w x y) = value w - value x * value y /\ mpz_wf (mpz_submul w x y)).
Proof. exact mpz_addmul_submul_spec. Qed.
Print Assumptions C01_mpz_addmul_submul.

Theorem C01_mpz_addmul_submul_ui : forall w x y, mpz_wf w -> mpz_wf x -> limb y ->
  (value (mpz_addmul_ui w x y) = value w + value x * y /\ mpz_wf (mpz_addmul_ui w x y))
  /\ (value (mpz_submul_ui w x y) = value w - value x * y /\ mpz_wf (mpz_submul_ui w x y)).
Proof. exact mpz_addmul_submul_ui_spec. Qed.
Print Assumptions C01_mpz_addmul_submul_ui.

(* the residue oracle used for very large operands is sound *)
Theorem C01_mul_residues : forall u v,
  mul_residues u v = map (fun p => (u * v) mod p) res_moduli.
Proof. exact mul_residues_spec. Qed.
Print Assumptions C01_mul_residues.

(* FFT parameter selection: for every pair of operand sizes that reaches mpn_mul_fft_main
   (its entry ASSERT) and every well-formed tuning table, the (depth, w) handed to the
   transform keeps the convolution inside the transform length and every product
   coefficient below 2^(n w), so nothing wraps modulo 2^(n w) + 1 *)
Theorem C01_fft_params_safe : forall t n1 n2 c,
  tab_valid t = true -> 1 <= n1 -> 1 <= n2 ->
  fft_trunc (n1 * 64) (n2 * 64) 6 1 > 2 * 2 ^ 6 ->
  fft_params (tab_of t) n1 n2 = Some c -> choice_ok n1 n2 c.
Proof. exact fft_params_safe. Qed.
Print Assumptions C01_fft_params_safe.


(* Toom-3 as coded (mpn/generic/toom3_mul_n.c, mpn_toom3_interpolate in toom3_mul.c): split at k limbs, the five evaluation
   points with the sign of the point at -1, the interpolation sequence with its division by 3 and two halvings, the
   recombination: the result is the exact product for every k > 0 and all operands, whatever routine computes the five
   recursive products exactly *)
Theorem C01_toom3_mul : forall mulrec k a b,
  (forall x y, mulrec x y = x * y) -> 0 < k -> 0 <= a -> 0 <= b -> toom3_mul mulrec k a b = a * b.
Proof. exact toom3_mul_correct. Qed.
Print Assumptions C01_toom3_mul.

(* the three divisions of the interpolation are exact, and the evaluation points respect the bounds the C code asserts
   (v1 < 9 B^2k, |vm1| < 4 B^2k, v2 < 49 B^2k): every intermediate fits the 2k+1 limbs reserved for it *)
Theorem C01_toom3_exact_divisions_and_bounds : forall mulrec k r a0 a1 a2 b0 b1 b2,
  (forall x y, mulrec x y = x * y) -> 1 <= r <= k ->
  0 <= a0 < Bpow k -> 0 <= a1 < Bpow k -> 0 <= a2 < Bpow r -> 0 <= b0 < Bpow k -> 0 <= b1 < Bpow k -> 0 <= b2 < Bpow r ->
  let p := toom3_eval mulrec a0 a1 a2 b0 b1 b2 in
  ((3 | toom3_dividend_by3 p) /\ (2 | toom3_dividend_half1 p) /\ (2 | toom3_dividend_half2 p))
  /\ (0 <= pt_v1 p < 9 * Bpow (2 * k)) /\ (0 <= pt_vm1 p < 4 * Bpow (2 * k)) /\ (0 <= pt_v2 p < 49 * Bpow (2 * k))
  /\ (0 <= pt_v0 p < Bpow (2 * k)) /\ (0 <= pt_vinf p < Bpow (2 * r)).
Proof.
  intros mulrec k r a0 a1 a2 b0 b1 b2 Hm Hr Ha0 Ha1 Ha2 Hb0 Hb1 Hb2 p.
  split; [exact (toom3_divisions_exact mulrec Hm a0 a1 a2 b0 b1 b2) |].
  destruct (toom3_bounds mulrec k r a0 a1 a2 b0 b1 b2 Hm Hr Ha0 Ha1 Ha2 Hb0 Hb1 Hb2) as (H1 & H2 & _ & H4 & H5 & H6).
  repeat split; first [apply H1 | apply H2 | apply H4 | apply H5 | apply H6].
Qed.
Print Assumptions C01_toom3_exact_divisions_and_bounds.


(* Toom-4 as coded (mpn/generic/toom4_mul_n.c): seven evaluation points (oo, 2, 1, -1, 1/2, -1/2 scaled by 8, 0) with the signs
   kept beside the magnitudes, the ~30 statements of mpn_toom4_interpolate with their exact divisions by 2, 8, 3, 15 and 4,
   recombination: exact product for every k > 0 and all operands; every division exact *)
Theorem C01_toom4_mul : forall mulrec k a b,
  (forall x y, mulrec x y = x * y) -> 0 < k -> 0 <= a -> 0 <= b -> toom4_mul mulrec k a b = a * b.
Proof. exact toom4_mul_correct. Qed.
Print Assumptions C01_toom4_mul.

Theorem C01_toom4_exact_divisions : forall mulrec, (forall x y, mulrec x y = x * y) -> forall a0 a1 a2 a3 b0 b1 b2 b3,
  let p := toom4_eval mulrec a0 a1 a2 a3 b0 b1 b2 b3 in
  (2 | toom4_dividend_half1 p) /\ (8 | toom4_dividend_shift3 p) /\ (3 | toom4_dividend_by3_r5 p) /\ (2 | toom4_dividend_half2 p)
  /\ (3 | toom4_dividend_by3_r2a p) /\ (3 | toom4_dividend_by3_r2b p) /\ (15 | toom4_dividend_by15 p) /\ (4 | toom4_dividend_shift2 p).
Proof. exact toom4_divisions_exact. Qed.
Print Assumptions C01_toom4_exact_divisions.

(* the sliced schoolbook path of mpn_mul (vn below the Karatsuba threshold, un above MUL_BASECASE_MAX_UN): pieces of M limbs,
   the saved "high triangle" added back after the next piece: exact product, and the carry propagation the source marks
   "safe?" never leaves the limbs just written *)
Theorem C01_mul_sliced : forall M vn un u v, 1 <= vn -> vn <= M -> M < un -> 0 <= u < Bp un -> 0 <= v < Bp vn ->
  mul_sliced M vn u v un = u * v /\ mul_sliced_overflows M vn u v un = false.
Proof. exact mul_sliced_correct. Qed.
Print Assumptions C01_mul_sliced.

Example C01_nonvacuous :
  wf [B - 1; B - 1] /\ mul_basecase [B - 1; B - 1] [B - 1; B - 1] = [1; 0; B - 2; B - 1]
  /\ fft_params (tab_of [(4,3);(3,3);(2,2);(2,1);(1,0)]) 4000 3800 = Some (FftTrunc 7 16)
  /\ tab_valid [(4,3);(3,3);(2,2);(2,1);(1,0)] = true
  /\ fft_trunc (4000 * 64) (3800 * 64) 6 1 > 2 * 2 ^ 6.
Proof. exact C01_example. Qed.
