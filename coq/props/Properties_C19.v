(* Properties_C19.v — C19: random numbers stay in range and are a function of the generator state.
   The generator constants and the default Mersenne Twister state are REGENERATED from randmt.c /
   randmt.h / randlc2s.c.  In the model a state is a value: two equal states (same algorithm and seed,
   or a state and its copy) trivially give equal sequences; that the implementation's states behave as
   these values is what the correspondence check decides.  Statements only. *)
From Coq Require Import ZArith List Bool.
From Mpir Require Import Word RandDefs RandProofs.
From MpirGen Require Import Gen_Rand.
Import ListNotations.
Local Open Scope Z_scope.

(* Mersenne Twister: every request of nbits bits returns a value below 2^nbits, for any well-formed state,
   and leaves a well-formed state *)
Theorem C19_mt_range : forall N M A m1 m2 st nbits,
  0 < M < N -> 0 <= A < 2 ^ 32 -> 0 <= m1 < 2 ^ 32 -> 0 <= m2 < 2 ^ 32 -> mt_wf N st -> 0 <= nbits ->
  0 <= fst (randget_mt N M A m1 m2 st nbits) < 2 ^ nbits /\ mt_wf N (snd (randget_mt N M A m1 m2 st nbits)).
Proof. exact mt_range. Qed.
Print Assumptions C19_mt_range.

(* ... and is exactly the first nbits bits of the stream of 32-bit outputs, consuming ceil(nbits/32) of them,
   across limb and buffer-refill boundaries *)
Theorem C19_mt_stream : forall N M A m1 m2 st nbits,
  0 < M < N -> 0 <= A < 2 ^ 32 -> 0 <= m1 < 2 ^ 32 -> 0 <= m2 < 2 ^ 32 -> mt_wf N st -> 0 <= nbits ->
  let k := Z.to_nat ((nbits + 31) / 32) in
  randget_mt N M A m1 m2 st nbits = (fst (mt_words N M A m1 m2 k st) mod 2 ^ nbits, snd (mt_words N M A m1 m2 k st)).
Proof. exact mt_stream. Qed.
Print Assumptions C19_mt_stream.

(* the regenerated constants and default state satisfy the hypotheses *)
Theorem C19_mt_default_wf :
  0 < mt_M < mt_N /\ 0 <= mt_MATRIX_A < 2 ^ 32 /\ 0 <= mt_MASK_1 < 2 ^ 32 /\ 0 <= mt_MASK_2 < 2 ^ 32
  /\ mt_wf mt_N (mkmt mt_default_state (mt_WARM_UP mod mt_N)).
Proof. exact mt_default_wf. Qed.
Print Assumptions C19_mt_default_wf.

(* linear congruential generator: the result is below 2^nbits and is the concatenation of the HIGH parts
   X / 2^(m/2) of successive values of X <- a X + c mod 2^m, (m+1)/2 bits each: the weak low half of X never
   reaches the caller *)
Theorem C19_lc_high_half : forall st nbits, 1 <= lc_m st -> 0 <= nbits ->
  let chunk := lc_chunk st in
  let k := Z.to_nat ((nbits + chunk - 1) / chunk) in
  fst (randget_lc st nbits) = cat_le chunk (lc_highs k st) mod 2 ^ nbits
  /\ 0 <= fst (randget_lc st nbits) < 2 ^ nbits
  /\ Forall (fun v => 0 <= v < 2 ^ chunk) (lc_highs k st).
Proof. exact lc_high_half. Qed.
Print Assumptions C19_lc_high_half.

(* every size up to 128 gets a scheme with at least that many output bits per step; larger sizes are refused *)
Theorem C19_lc_schemes :
  forallb (fun size => match lc_pick lc_schemes size with Some (m, a, c) => (size <=? m / 2) && (0 <? a) && (a <? 2 ^ m) | None => false end)
          (map Z.of_nat (seq 1 128)) = true
  /\ lc_pick lc_schemes 129 = None.
Proof. exact lc_schemes_ok. Qed.
Print Assumptions C19_lc_schemes.

(* every row of the REGENERATED parameter table of randlc2s.c meets the full-period conditions of a mixed congruential generator
   modulo 2^m (c odd, a = 5 mod 8); with c odd the state 0 is left at once (c = 0 and a seed divisible by 2^m give zeros for ever) *)
Theorem C19_lc_schemes_full_period_conditions :
  forallb (fun s => let '(m, a, c) := s in Z.odd c && (a mod 8 =? 5) && (0 <? a) && (a <? 2 ^ m) && (0 <=? c) && (c <? 2 ^ m) && (2 <=? m)) lc_schemes = true.
Proof. exact lc_schemes_full_period_conditions. Qed.
Print Assumptions C19_lc_schemes_full_period_conditions.

Theorem C19_lc_step_leaves_zero : forall m a c, 1 <= m -> Z.odd c = true -> (a * 0 + c) mod 2 ^ m <> 0.
Proof. exact lc_step_leaves_zero. Qed.
Print Assumptions C19_lc_step_leaves_zero.

(* the functions built on ANY generator that honours its bit count *)
Section AnyGenerator.
Variable St : Type.
Variable get : St -> Z -> Z * St.
Hypothesis get_range : forall st nbits, 0 <= nbits -> 0 <= fst (get st nbits) < 2 ^ nbits.

(* rejection sampling: the result is in [0, |n|-1]; each draw is accepted with probability above one half *)
Theorem C19_urandomm : forall fuel st n r st', n <> 0 ->
  mpz_urandomm St get fuel st n = Some (r, st') -> 0 <= r < Z.abs n.
Proof. exact (urandomm_range St get get_range). Qed.
Theorem C19_urandomm_accept : forall n, 1 <= n ->
  let nbits := bitlen n - (if pow2_p n then 1 else 0) in 0 <= nbits /\ n <= 2 ^ nbits < 2 * n.
Proof. exact urandomm_accept. Qed.
Theorem C19_mpn_urandomm : forall fuel st n r st', 1 <= n ->
  mpn_urandomm St get fuel st n = Some (r, st') -> 0 <= r < n.
Proof. exact (mpn_urandomm_range St get get_range). Qed.
Theorem C19_urandomm_ui : forall st n, 1 <= n < 2 ^ 64 -> 0 <= fst (urandomm_ui St get st n) < n.
Proof. exact (urandomm_ui_range St get get_range). Qed.
Theorem C19_urandomb_ui : forall st bits, 0 <= bits -> 0 <= fst (urandomb_ui St get st bits) < 2 ^ (Z.min bits 64).
Proof. exact (urandomb_ui_range St get get_range). Qed.

(* long runs of ones and zeros: exactly nbits bits (top bit set) *)
Theorem C19_rrandomb : forall st nbits, 1 <= nbits -> 2 ^ (nbits - 1) <= fst (rrandomb St get st nbits) < 2 ^ nbits.
Proof. exact (rrandomb_range St get get_range). Qed.
(* mpn_rrandom and mpn_randomb fill exactly n limbs with a non-zero top limb *)
Theorem C19_mpn_rrandom : forall st n, 1 <= n -> 2 ^ (64 * (n - 1)) <= fst (mpn_rrandom St get st n) < 2 ^ (64 * n).
Proof. exact (mpn_rrandom_range St get get_range). Qed.
Theorem C19_mpn_randomb : forall fuel st n r st', 1 <= n ->
  mpn_randomb St get fuel st n = Some (r, st') -> 2 ^ (64 * (n - 1)) <= r < 2 ^ (64 * n).
Proof. exact (mpn_randomb_range St get get_range). Qed.
(* mpf_urandomb: mantissa / 2^(64 nl) lies in [0, 1) *)
Theorem C19_mpf_urandomb : forall st prec nbits, 1 <= prec -> 0 <= nbits ->
  let '(m, nl, _) := mpf_urandomb St get st prec nbits in 1 <= nl <= prec + 1 /\ 0 <= m < 2 ^ (64 * nl).
Proof. exact (mpf_urandomb_range St get get_range). Qed.
End AnyGenerator.
Print Assumptions C19_urandomm.
Print Assumptions C19_urandomm_accept.
Print Assumptions C19_mpn_urandomm.
Print Assumptions C19_urandomm_ui.
Print Assumptions C19_urandomb_ui.
Print Assumptions C19_rrandomb.
Print Assumptions C19_mpn_rrandom.
Print Assumptions C19_mpn_randomb.
Print Assumptions C19_mpf_urandomb.

Example C19_nonvacuous :
  fst (randget_lc (lc_seed (lc_init 43840821 1 32) 12345) 40) = 987631518444
  /\ lc_pick lc_schemes 20 = Some (40, 10995212661, 1)
  /\ fst (randget_mt mt_N mt_M mt_MATRIX_A mt_MASK_1 mt_MASK_2 (mkmt mt_default_state (mt_WARM_UP mod mt_N)) 70) = 873397278450747484276.
Proof. exact C19_example. Qed.
