(* Properties_C09.v — C09: integer roots, remainders and perfect-power tests are exact.
   Statements only. *)
From Coq Require Import ZArith List Bool.
From Mpir Require Import Word Limbs DivDefs SqrtDefs SqrtProofs SqrtTopProofs RootDefs RootProofs TablesDefs TablesProofs.
From MpirGen Require Import Gen_Consts.
Import ListNotations.
Local Open Scope Z_scope.

(* Zimmermann's recursion: for every n >= 1 and every normalised 2n-limb input, s = floor(sqrt x)
   and r = x - s^2 with 0 <= r <= 2 s — including the single possible correction step *)
Theorem C09_dc_sqrtrem : forall fuel n x,
  1 <= n -> B ^ (2 * n) <= 4 * x -> x < B ^ (2 * n) -> (Z.to_nat (Z.log2 n) < fuel)%nat ->
  fst (dc_sqrtrem fuel n x) = Z.sqrt x
  /\ snd (dc_sqrtrem fuel n x) = x - Z.sqrt x * Z.sqrt x
  /\ 0 <= snd (dc_sqrtrem fuel n x) <= 2 * Z.sqrt x.
Proof. exact dc_sqrtrem_spec. Qed.
Print Assumptions C09_dc_sqrtrem.

(* mpn_sqrtrem with its normalising shift, any operand, odd and even limb counts *)
Theorem C09_mpn_sqrtrem : forall x, 0 <= x ->
  mpn_sqrtrem x = (Z.sqrt x, x - Z.sqrt x * Z.sqrt x).
Proof. exact mpn_sqrtrem_spec. Qed.
Print Assumptions C09_mpn_sqrtrem.

Theorem C09_iroot : forall n x, 1 <= n -> 0 <= x ->
  0 <= iroot n x /\ iroot n x ^ n <= x < (iroot n x + 1) ^ n.
Proof. exact iroot_spec. Qed.
Print Assumptions C09_iroot.

(* mpz_root / mpz_rootrem: truncated root (toward zero, also for negative u with odd n), remainder
   u - root^n, exactness flag true exactly when the root is exact; the documented traps *)
Theorem C09_mpz_root : forall u n,
  (u < 0 -> Z.even n = true -> mpz_root u n = RSqrtNeg)
  /\ (n = 0 -> 0 <= u -> mpz_root u n = RDivByZero)
  /\ (1 <= n -> (0 <= u \/ Z.odd n = true) ->
        exists r ex, mpz_root u n = ROk (r, ex) /\ mpz_rootrem u n = ROk (r, u - r ^ n)
          /\ Z.abs r ^ n <= Z.abs u < (Z.abs r + 1) ^ n /\ 0 <= r * u
          /\ (ex = true <-> r ^ n = u)).
Proof. exact mpz_root_spec. Qed.
Print Assumptions C09_mpz_root.

Theorem C09_perfect_tests : forall u,
  (mpz_perfect_square_p u = true <-> exists s, u = s * s)
  /\ (mpz_perfect_power_p u = true <-> exists a b, 1 < b /\ u = a ^ b).
Proof. exact perfect_tests_spec. Qed.
Print Assumptions C09_perfect_tests.

(* the REGENERATED seed table of the one-limb square root (approx_tab of sqrtrem.c): entry i - 64 is floor (sqrt (256 i)) for every
   leading byte i = 64 .. 255 - the single correction step after the table look-up is enough only for this floor *)
Theorem C09_sqrt_seed_table : forall i, 64 <= i < 256 -> nth (Z.to_nat (i - 64)) sqrt_approx_tab 0 = Z.sqrt (256 * i).
Proof. exact sqrt_tab_entries. Qed.
Print Assumptions C09_sqrt_seed_table.


(* ---- mpn/generic/sqrtrem.c AS CODED, with limbs, carries and the C int / limb conversions (SqrtDefs.v; its seed table is the
   REGENERATED approx_tab), the executable model of the family mpn_sqrtrem-as-coded ---- *)

(* the one-limb square root: table seed (a sweep over all leading 16-bit values of the regenerated table, lifted), the single
   correction, two Newton steps: root and remainder of EVERY normalised limb *)
Theorem C09_sqrtrem1_as_coded : forall a, 2 ^ 62 <= a < 2 ^ 64 ->
  SqrtDefs.sqrtrem1 a = Some (Z.sqrt a, a - Z.sqrt a * Z.sqrt a, if a - Z.sqrt a * Z.sqrt a =? 0 then 0 else 1).
Proof. exact sqrtrem1_correct. Qed.
Print Assumptions C09_sqrtrem1_as_coded.

Theorem C09_sqrtrem2_as_coded : forall a1 a0, 2 ^ 62 <= a1 < 2 ^ 64 -> 0 <= a0 < 2 ^ 64 ->
  let x := a1 * 2 ^ 64 + a0 in let S := Z.sqrt x in
  SqrtDefs.sqrtrem2 a1 a0 = Some ((x - S * S) / 2 ^ 64, S, (x - S * S) mod 2 ^ 64) /\ 2 ^ 63 <= S < 2 ^ 64 /\ 0 <= x - S * S <= 2 * S.
Proof. exact sqrtrem2_correct. Qed.
Print Assumptions C09_sqrtrem2_as_coded.

(* the divide-and-conquer recursion with its carries q, c, b, both borrow paths and the final correction, for every n and every
   normalised 2n-limb operand *)
Theorem C09_dc_sqrtrem_as_coded : forall n N fuel, 1 <= n -> (Z.to_nat n <= fuel)%nat -> Bk (2 * n) <= 4 * N -> N < Bk (2 * n) ->
  let S := Z.sqrt N in
  SqrtDefs.dc_sqrtrem fuel n N = Some ((N - S * S) / Bk n, S, (N - S * S) mod Bk n)
  /\ S < Bk n /\ Bk n <= 2 * S /\ 0 <= N - S * S <= 2 * S /\ 0 <= (N - S * S) / Bk n <= 1.
Proof. exact dc_sqrtrem_correct. Qed.
Print Assumptions C09_dc_sqrtrem_as_coded.


(* the top level of mpn_sqrtrem as coded - one limb, odd limb counts and odd shifts through the temporary, un-normalising the root
   and recomputing the remainder, both un-shift paths, the in-place even case, MPN_NORMALIZE of the remainder - for EVERY operand
   with a non-zero top limb: root, remainder, and the returned remainder size *)
Theorem C09_mpn_sqrtrem_as_coded : forall nn N, 1 <= nn -> Bk (nn - 1) <= N < Bk nn ->
  let S := Z.sqrt N in let R := N - S * S in
  SqrtDefs.mpn_sqrtrem nn N = Some (S, R, limb_count R) /\ 0 <= S < Bk ((nn + 1) / 2) /\ 0 <= R <= 2 * S.
Proof. exact mpn_sqrtrem_correct. Qed.
Print Assumptions C09_mpn_sqrtrem_as_coded.

Theorem C09_mpn_sqrtrem_limbs_as_coded : forall np, wf np -> np <> [] -> last np 0 <> 0 ->
  exists sl rl, mpn_sqrtrem_limbs np = Some (sl, rl) /\ wf sl /\ wf rl
    /\ eval sl = Z.sqrt (eval np) /\ eval rl = eval np - Z.sqrt (eval np) * Z.sqrt (eval np)
    /\ len sl = (len np + 1) / 2 /\ len rl = limb_count (eval np - Z.sqrt (eval np) * Z.sqrt (eval np)) /\ normalized rl.
Proof. exact mpn_sqrtrem_limbs_correct. Qed.
Print Assumptions C09_mpn_sqrtrem_limbs_as_coded.

Example C09_nonvacuous :
  mpn_sqrtrem (2 ^ 128 - 1) = (2 ^ 64 - 1, 2 ^ 65 - 2) /\ mpz_root (-27) 3 = ROk (-3, true)
  /\ mpz_rootrem 30 3 = ROk (3, 3) /\ mpz_perfect_power_p (- 64) = true /\ mpz_perfect_power_p (-16) = false
  /\ iroot 3 (2 ^ 192 - 1) = 2 ^ 64 - 1.
Proof. exact C09_example. Qed.
