(* Properties_C16.v — C16: factorial, binomial, Fibonacci/Lucas, factor removal, primality.
   Table theorems are about __gmp_fib_table REGENERATED from mpn/generic/fib_table.c.  Statements only. *)
From Coq Require Import ZArith Znumtheory List Bool.
From Mpir Require Import Word DivDefs PowDefs CombDefs CombProofs.
From MpirGen Require Import Gen_Consts.
Import ListNotations.
Local Open Scope Z_scope.

(* every entry of the regenerated table is the Fibonacci number it stands for: tab[i] = F[i-1] *)
Theorem C16_fib_table_ok :
  forallb (fun i => nth i fib_table 0 =? (if Nat.eqb i 0 then 1 else fib (i - 1))) (seq 0 (length fib_table)) = true
  /\ (2 <= length fib_table)%nat.
Proof. exact fib_table_ok. Qed.
Print Assumptions C16_fib_table_ok.

(* the doubling identities used by mpn_fib2_ui, for every k *)
Theorem C16_fib_doubling : forall k : nat, (1 <= k)%nat ->
  fib (2 * k + 1) = 4 * fib k * fib k - fib (k - 1) * fib (k - 1) + (if Nat.odd k then -2 else 2)
  /\ fib (2 * k - 1) = fib k * fib k + fib (k - 1) * fib (k - 1)
  /\ fib (2 * k) = fib (2 * k + 1) - fib (2 * k - 1).
Proof. exact fib_doubling. Qed.
Print Assumptions C16_fib_doubling.

(* mpn_fib2_ui / mpz_fib2_ui: (F n, F (n-1)) for every n, for any table that is correct up to its limit *)
Theorem C16_fib2_ui : forall tab limit n,
  (forall i : nat, (i <= Z.to_nat limit + 1)%nat -> nth i tab 0 = (if Nat.eqb i 0 then 1 else fib (i - 1))) ->
  1 <= limit -> 0 <= n < 2 ^ 64 ->
  fib2_ui tab limit n = (fib (Z.to_nat n), snd (fib_pair (Z.to_nat n))).
Proof. exact fib2_ui_spec. Qed.
Print Assumptions C16_fib2_ui.

(* definitional identities of factorial, multifactorial and binomial *)
Theorem C16_fac_bin : forall n k : nat,
  fac (Z.of_nat n) = Z.of_nat (fact n)
  /\ mfac (Z.of_nat n) 1 = fac (Z.of_nat n)
  /\ ((k <= n)%nat -> bin_uiui (Z.of_nat n) (Z.of_nat k) * (fac (Z.of_nat k) * fac (Z.of_nat (n - k))) = fac (Z.of_nat n))
  /\ ((n < k)%nat -> bin_uiui (Z.of_nat n) (Z.of_nat k) = 0).
Proof. exact fac_bin_spec. Qed.
Print Assumptions C16_fac_bin.

(* mpz_remove: the result is free of the factor, src = result * f^k, and k is returned *)
Theorem C16_remove : forall src f, 2 <= f -> src <> 0 ->
  let '(x, k) := mpz_remove src f in
  0 <= k /\ src = x * f ^ k /\ x mod f <> 0.
Proof. exact remove_spec. Qed.
Print Assumptions C16_remove.

(* trial division decides primality (used for the primorial and small-n checks) *)
Theorem C16_trial_division : forall n, is_prime_td n = true <-> prime n.
Proof. exact is_prime_td_spec. Qed.
Print Assumptions C16_trial_division.

Example C16_nonvacuous :
  fib2_ui fib_table 93 100 = (354224848179261915075, 218922995834555169026)
  /\ fac 20 = 2432902008176640000 /\ bin_ui (-4) 3 = -20 /\ mpz_remove 96 2 = (3, 5)
  /\ is_prime64 3215031751 = false /\ is_prime64 18446744073709551557 = true.
Proof. exact C16_example. Qed.
