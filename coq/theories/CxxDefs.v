(* CxxDefs.v — models behind C20.
   (1) expressions over class objects (variables) and built-in numbers, and their VALUE: every
       sub-expression evaluated on its own with the C function of the operator (on Z for mpz_class,
       on canonical fractions for mpq_class);
   (2) the evaluation STRATEGY of the expression templates of mpirxx.h (the eval members of
       __gmp_expr<T, __gmp_unary_expr / __gmp_binary_expr>): evaluate straight into the destination
       object, re-use it for the sub-expression on the spine, make a temporary for the other side, test
       whether the destination is one of the operands.  Parametrised by the carrier and the operator
       semantics.
   Definitions only. *)
From Coq Require Import ZArith List Bool.
From Mpir Require Import Word.
Import ListNotations.
Local Open Scope Z_scope.

Inductive expr :=
  | EVar (v : nat)                 (* a class object *)
  | EBuiltin (k : Z)               (* a built-in number (long, unsigned long, double), given by its index into the argument list *)
  | EUn (op : Z) (e : expr)
  | EBin (op : Z) (a b : expr).
Definition is_leaf (e : expr) : bool := match e with EVar _ | EBuiltin _ => true | _ => false end.

Section Strategy.
Variable V : Type.
Variable un : Z -> V -> V.                    (* the C function of a unary operator *)
Variable bin : Z -> V -> V -> V.              (* ... of a binary operator on two class values *)
Variable binl : Z -> V -> Z -> V.             (* ... class value and built-in *)
Variable binr : Z -> Z -> V -> V.             (* ... built-in and class value *)
Variable blt : Z -> Z.                        (* the value of built-in number k *)
Variable dflt : V.

(* ---- (1) the value ---- *)
Fixpoint value (e : expr) (env : nat -> V) : V :=
  match e with
  | EVar v => env v
  | EBuiltin k => dflt                       (* a built-in alone is not a class expression *)
  | EUn op a => un op (value a env)
  | EBin op a b =>
      match a, b with
      | EBuiltin k, _ => binr op (blt k) (value b env)
      | _, EBuiltin k => binl op (value a env) (blt k)
      | _, _ => bin op (value a env) (value b env)
      end
  end.

(* ---- (2) the strategy ---- *)
(* destinations: a named object or the i-th temporary; a store maps both *)
Inductive loc := Named (v : nat) | Tmp (i : nat).
Definition loc_eqb (a b : loc) : bool :=
  match a, b with Named x, Named y => Nat.eqb x y | Tmp i, Tmp j => Nat.eqb i j | _, _ => false end.
Definition store := loc -> V.
Definition upd (s : store) (p : loc) (x : V) : store := fun q => if loc_eqb q p then x else s q.
(* run e p k s: evaluate e into p; temporaries are numbered from k upwards.  Returns the store. *)
Fixpoint run (e : expr) (p : loc) (k : nat) (s : store) : store :=
  match e with
  | EVar v => upd s p (s (Named v))                                   (* mpz_set *)
  | EBuiltin _ => s
  | EUn op a =>
      match a with
      | EVar v => upd s p (un op (s (Named v)))
      | _ => let s1 := run a p k s in upd s1 p (un op (s1 p))           (* expr.val.eval(p); Op::eval(p, p) *)
      end
  | EBin op a b =>
      match a, b with
      | EVar x, EVar y => upd s p (bin op (s (Named x)) (s (Named y)))
      | EVar x, EBuiltin j => upd s p (binl op (s (Named x)) (blt j))
      | EBuiltin j, EVar y => upd s p (binr op (blt j) (s (Named y)))
      | EBuiltin _, EBuiltin _ => s
      | EVar x, _ =>                                                    (* object op sub-expression *)
          if loc_eqb p (Named x)
          then let s1 := run b (Tmp k) (S k) s in upd s1 p (bin op (s1 (Named x)) (s1 (Tmp k)))     (* __gmp_temp temp(expr.val2) *)
          else let s1 := run b p k s in upd s1 p (bin op (s1 (Named x)) (s1 p))                       (* __gmp_set_expr(p, expr.val2) *)
      | _, EVar y =>
          if loc_eqb p (Named y)
          then let s1 := run a (Tmp k) (S k) s in upd s1 p (bin op (s1 (Tmp k)) (s1 (Named y)))
          else let s1 := run a p k s in upd s1 p (bin op (s1 p) (s1 (Named y)))
      | _, EBuiltin j => let s1 := run a p k s in upd s1 p (binl op (s1 p) (blt j))                   (* expr.val1.eval(p); Op::eval(p, p, val2) *)
      | EBuiltin j, _ => let s1 := run b p k s in upd s1 p (binr op (blt j) (s1 p))
      | _, _ =>                                                         (* both sub-expressions: temp2 first, then val1 into p *)
          let s1 := run b (Tmp k) (S k) s in
          let s2 := run a p (S k) s1 in
          upd s2 p (bin op (s2 p) (s2 (Tmp k)))
      end
  end.
(* well-formed: no built-in op built-in, no built-in as a unary operand or alone *)
Fixpoint wf_expr (e : expr) : bool :=
  match e with
  | EVar _ => true
  | EBuiltin _ => false
  | EUn _ a => wf_expr a
  | EBin _ a b =>
      match a, b with
      | EBuiltin _, EBuiltin _ => false
      | EBuiltin _, _ => wf_expr b
      | _, EBuiltin _ => wf_expr a
      | _, _ => wf_expr a && wf_expr b
      end
  end.
(* assignment "x = e" and compound assignment "x op= e" *)
Definition assign (x : nat) (e : expr) (s : store) : store := run e (Named x) 0 s.
Definition compound (op : Z) (x : nat) (e : expr) (s : store) : store := run (EBin op (EVar x) e) (Named x) 0 s.
End Strategy.

(* ---- the C functions behind the operators of mpz_class ---- *)
(* 0 + | 1 - | 2 * | 3 / (tdiv_q) | 4 % (tdiv_r) | 5 & | 6 or | 7 ^ | 8 gcd | 9 lcm | 10 << | 11 >> (floor) *)
Definition z_bin (op a b : Z) : Z :=
  if op =? 0 then a + b else if op =? 1 then a - b else if op =? 2 then a * b
  else if op =? 3 then Z.quot a b else if op =? 4 then Z.rem a b
  else if op =? 5 then Z.land a b else if op =? 6 then Z.lor a b else if op =? 7 then Z.lxor a b
  else if op =? 8 then Z.gcd a b else if op =? 9 then (if (a =? 0) || (b =? 0) then 0 else Z.abs (a * b) / Z.gcd a b)
  else if op =? 10 then a * 2 ^ b else a / 2 ^ b.
(* 0 - | 1 ~ | 2 abs | 3 sqrt (floor, non-negative operand) | 4 sgn as a value *)
Definition z_un (op a : Z) : Z :=
  if op =? 0 then - a else if op =? 1 then - a - 1 else if op =? 2 then Z.abs a else if op =? 3 then Z.sqrt a else Z.sgn a.
