(* PrintfProofs.v — proofs behind C18: the parser of doprnt.c followed by the layout of doprnti.c
   gives the C99 layout; the bare '.'; the width consequences; the bounded sink of snprntffuns.c. *)
From Coq Require Import ZArith List Lia Bool.
From Mpir Require Import Word RadixDefs RadixProofs PrintfDefs.
Import ListNotations.
Local Open Scope Z_scope.
Arguments Z.pow : simpl never.

(* ------------------------------------------------------------------------------------------ *)
(* len / rep                                                                                    *)
(* ------------------------------------------------------------------------------------------ *)
Lemma len_nil : len [] = 0.
Proof. reflexivity. Qed.
Lemma len_cons c l : len (c :: l) = 1 + len l.
Proof. unfold len. cbn [length]. lia. Qed.
Lemma len_app a b : len (a ++ b) = len a + len b.
Proof. unfold len. rewrite app_length. lia. Qed.
Lemma len_nonneg l : 0 <= len l.
Proof. unfold len. lia. Qed.
Lemma len_rep c n : len (rep c n) = Z.max 0 n.
Proof. unfold len, rep. rewrite repeat_length. lia. Qed.
Lemma rep_nonpos c n : n <= 0 -> rep c n = [].
Proof. intros H. unfold rep. replace (Z.to_nat n) with O by lia. reflexivity. Qed.
Lemma rep_max c n : rep c (Z.max 0 n) = rep c n.
Proof. unfold rep. f_equal. lia. Qed.
Lemma rep_pos c n : 0 < n -> rep c n = c :: rep c (n - 1).
Proof. intros H. unfold rep. replace (Z.to_nat n) with (S (Z.to_nat (n - 1))) by lia. reflexivity. Qed.
Lemma rep_comm c n l : rep c n ++ c :: l = c :: rep c n ++ l.
Proof.
  unfold rep. change (c :: l) with ([c] ++ l). rewrite app_assoc, <- repeat_cons. reflexivity.
Qed.
Lemma firstn_len l : firstn (Z.to_nat (len l)) l = l.
Proof. unfold len. rewrite Nat2Z.id. apply firstn_all. Qed.

(* ------------------------------------------------------------------------------------------ *)
(* the C99 layout: width                                                                        *)
(* ------------------------------------------------------------------------------------------ *)
Lemma c99_int_shape fl pr conv v : exists (sg pre body : list Z) (zp : bool), forall w,
  c99_int fl w pr conv v =
  (let pad := Z.max 0 (w - (len sg + len pre + len body)) in
   if f_minus fl then sg ++ pre ++ body ++ rep 32 pad
   else if zp then sg ++ pre ++ rep 48 pad ++ body
   else rep 32 pad ++ sg ++ pre ++ body).
Proof.
  unfold c99_int. do 4 eexists. intros w. reflexivity.
Qed.

Lemma c99_width : forall fl width prec conv v, 0 <= width ->
  let out := c99_int fl width prec conv v in
  width <= len out /\
  (len (c99_int fl 0 prec conv v) <= width -> len out = width).
Proof.
  intros fl width prec conv v Hw out. subst out.
  destruct (c99_int_shape fl prec conv v) as (sg & pre & body & zp & H).
  rewrite !H. cbv zeta.
  pose proof (len_nonneg sg). pose proof (len_nonneg pre). pose proof (len_nonneg body).
  destruct (f_minus fl); [|destruct zp]; rewrite !len_app, !len_rep; lia.
Qed.

(* ------------------------------------------------------------------------------------------ *)
(* the bounded sink                                                                             *)
(* ------------------------------------------------------------------------------------------ *)
Lemma sink_fold : forall chunks sz out,
  fold_left sink_step chunks (sz, out) =
  if 1 <? sz then (sz - len (firstn (Z.to_nat (sz - 1)) (concat chunks)),
                   out ++ firstn (Z.to_nat (sz - 1)) (concat chunks))
  else (sz, out).
Proof.
  induction chunks as [|c cs IH]; intros sz out.
  - cbn [fold_left concat]. rewrite firstn_nil, app_nil_r, len_nil.
    destruct (1 <? sz); [f_equal; lia | reflexivity].
  - cbn [fold_left concat]. unfold sink_step at 2.
    destruct (Z.ltb_spec 1 sz) as [Hs|Hs].
    + rewrite IH. rewrite firstn_app.
      destruct (Z.ltb_spec 1 (sz - Z.min (sz - 1) (len c))) as [Hn|Hn].
      * assert (Hc : len c < sz - 1) by lia. unfold len in Hc.
        replace (Z.min (sz - 1) (len c)) with (len c) by (unfold len; lia).
        rewrite firstn_len. rewrite (firstn_all2 c) by lia.
        rewrite <- app_assoc. rewrite len_app.
        replace (Z.to_nat (sz - len c - 1)) with (Z.to_nat (sz - 1) - length c)%nat by (unfold len; lia).
        f_equal. lia.
      * assert (Hc : sz - 1 <= len c) by lia. unfold len in Hc.
        replace (Z.min (sz - 1) (len c)) with (sz - 1) by (unfold len; lia).
        replace (Z.to_nat (sz - 1) - length c)%nat with O by lia.
        cbn [firstn]. rewrite app_nil_r. f_equal.
        unfold len. rewrite firstn_length. lia.
    + rewrite IH. destruct (Z.ltb_spec 1 sz); [lia | reflexivity].
Qed.

Lemma ret_fold : forall chunks a, fold_left (fun a c => a + len c) chunks a = a + len (concat chunks).
Proof.
  induction chunks as [|c cs IH]; intros a.
  - cbn [fold_left concat]. rewrite len_nil. lia.
  - cbn [fold_left concat]. rewrite IH, len_app. lia.
Qed.

Lemma snprintf_bounded : forall size chunks, 0 <= size ->
  let '(out, term, ret) := snprintf_sink size chunks in
  out = firstn (Z.to_nat (size - 1)) (concat chunks)
  /\ (len out + (if term then 1 else 0) <= size)
  /\ term = (1 <=? size)
  /\ ret = len (concat chunks).
Proof.
  intros size chunks Hs. unfold snprintf_sink. rewrite sink_fold, ret_fold.
  destruct (Z.ltb_spec 1 size) as [H1|H1].
  - cbn [app]. split; [reflexivity|].
    assert (L : len (firstn (Z.to_nat (size - 1)) (concat chunks)) <= size - 1).
    { unfold len. rewrite firstn_length. lia. }
    pose proof (len_nonneg (firstn (Z.to_nat (size - 1)) (concat chunks))) as L0.
    destruct (Z.leb_spec 1 (size - len (firstn (Z.to_nat (size - 1)) (concat chunks)))); [|lia].
    destruct (Z.leb_spec 1 size); [|lia].
    repeat split; lia.
  - replace (Z.to_nat (size - 1)) with O by lia. cbn [firstn]. rewrite len_nil.
    split; [reflexivity|]. destruct (Z.leb_spec 1 size); repeat split; lia.
Qed.

(* ------------------------------------------------------------------------------------------ *)
(* mpz_get_str: sign, alphabet, leading digit                                                   *)
(* ------------------------------------------------------------------------------------------ *)
Lemma digit_char_ge base d : 0 <= d -> 48 <= digit_char base d.
Proof.
  intros Hd. unfold digit_char.
  destruct (Z.ltb_spec d 10); [lia|].
  destruct (36 <? base); [destruct (d <? 36); lia|]. destruct (base <? 0); lia.
Qed.

Lemma digit_char_48 base d : 0 <= d -> digit_char base d = 48 -> d = 0.
Proof.
  intros Hd. unfold digit_char.
  destruct (Z.ltb_spec d 10); [lia|].
  destruct (36 <? base); [destruct (d <? 36); lia|]. destruct (base <? 0); lia.
Qed.

Lemma get_str_sign v base :
  mpz_get_str v base = (if v <? 0 then [45] else []) ++ mpz_get_str (Z.abs v) base.
Proof.
  unfold mpz_get_str. rewrite Z.abs_involutive.
  destruct (Z.ltb_spec (Z.abs v) 0); [lia|]. reflexivity.
Qed.

Lemma get_str_zero base : mpz_get_str 0 base = [48].
Proof. reflexivity. Qed.

Lemma get_str_facts a base : 0 <= a -> 2 <= Z.abs base ->
  Forall (fun c => 48 <= c) (mpz_get_str a base)
  /\ 1 <= len (mpz_get_str a base)
  /\ (hd0 (mpz_get_str a base) =? 48) = (a =? 0).
Proof.
  intros Ha Hb. unfold mpz_get_str. rewrite (Z.abs_eq a) by lia.
  destruct (Z.ltb_spec a 0); [lia|]. cbn [app].
  destruct (digits_spec a (Z.abs base) Ha Hb) as (E & F & N).
  destruct (digits a (Z.abs base)) as [|d r].
  - subst a. split; [|split]; [repeat constructor; lia | rewrite len_cons, len_nil; lia | reflexivity].
  - inversion F as [|d' r' Hd Hr]; subst d' r'.
    assert (Hd0 : 0 < d) by lia.
    split; [|split].
    + cbn [map]. constructor; [apply digit_char_ge; lia|].
      rewrite Forall_forall in *. intros c Hc. apply in_map_iff in Hc. destruct Hc as (x & <- & Hx).
      apply digit_char_ge. apply Hr in Hx. lia.
    + cbn [map]. rewrite len_cons. pose proof (len_nonneg (map (digit_char base) r)). lia.
    + cbn [map hd0].
      assert (a <> 0).
      { pose proof (horner_lower (Z.abs base) d r Hb F N) as HL.
        assert (0 < Z.abs base ^ Z.of_nat (length r)) by (apply Z.pow_pos_nonneg; lia).
        lia. }
      destruct (Z.eqb_spec a 0); [lia|].
      destruct (Z.eqb_spec (digit_char base d) 48) as [E8|E8]; [|reflexivity].
      apply digit_char_48 in E8; lia.
Qed.

(* ------------------------------------------------------------------------------------------ *)
(* doprnt_integer on the string of an integer                                                   *)
(* ------------------------------------------------------------------------------------------ *)
Lemma index_of_none : forall s i, Forall (fun c => 48 <= c) s -> index_of 47 s i = None.
Proof.
  induction s as [|c r IH]; intros i F; [reflexivity|].
  inversion F as [|c' r' Hc Hr]; subst. cbn [index_of].
  destruct (Z.eqb_spec c 47); [lia|]. apply IH. exact Hr.
Qed.

Definition showbase_of (sbf base : Z) : list Z :=
  if sbf =? 0 then [] else if base =? 16 then [48; 120] else if base =? -16 then [48; 88] else if base =? 8 then [48] else [].

Definition dop_s (base fill just prec sbf sgc0 wd v : Z) : list Z :=
  let D := mpz_get_str (Z.abs v) base in
  let sgc := if v <? 0 then 45 else sgc0 in
  let ds := if (v =? 0) && (prec =? 0) then [] else D in
  let showbase := showbase_of sbf base in
  let sbl0 := if (sbf =? 2) && (hd0 ds =? 48) then 0 else len showbase in
  let zeros := Z.max 0 (prec - len ds) in
  let sbl := if (base =? 8) && (0 <? zeros) then 0 else sbl0 in
  let justlen := wd - (len ds + (if sgc =? 0 then 0 else 1) + sbl + 0 + zeros) in
  let R := rep fill justlen in
  (if just =? 2 then R else []) ++ (if sgc =? 0 then [] else [sgc]) ++ firstn (Z.to_nat sbl) showbase
  ++ rep 48 zeros ++ (if just =? 3 then R else []) ++ ds ++ (if just =? 1 then R else []).

Lemma just_simpl jl just fill k : k <> 0 ->
  (if (if jl <=? 0 then 0 else just) =? k then rep fill jl else []) = (if just =? k then rep fill jl else []).
Proof.
  intros Hk. destruct (Z.leb_spec jl 0) as [H|H]; [|reflexivity].
  rewrite rep_nonpos by exact H. destruct (0 =? k), (just =? k); reflexivity.
Qed.

Lemma doprnt_simpl base fill just prec sbf sgc0 wd s i v : 2 <= Z.abs base ->
  doprnt_integer (mkp base fill just prec sbf sgc0 wd s i) (mpz_get_str v base)
  = dop_s base fill just prec sbf sgc0 wd v.
Proof.
  intros Hb. unfold doprnt_integer, dop_s.
  cbn [p_base p_fill p_justify p_prec p_showbase p_sign p_width]. cbv zeta.
  rewrite (get_str_sign v base).
  destruct (get_str_facts (Z.abs v) base ltac:(lia) Hb) as (F & L & H48).
  set (D := mpz_get_str (Z.abs v) base) in *.
  set (S0 := (if v <? 0 then [45] else []) ++ D).
  assert (H45 : (hd0 D =? 45) = false).
  { destruct D as [|c r]; [reflexivity|]. inversion F; subst. cbn [hd0]. lia. }
  replace (hd0 S0 =? 45) with (v <? 0)
    by (subst S0; destruct (v <? 0); cbn [app hd0]; [reflexivity | symmetry; exact H45]).
  replace (if v <? 0 then tl0 S0 else S0) with D by (subst S0; destruct (v <? 0); reflexivity).
  rewrite H48.
  assert (Hds : (if (Z.abs v =? 0) && (prec =? 0) then tl0 D else D) = (if (v =? 0) && (prec =? 0) then [] else D)).
  { destruct (Z.eqb_spec v 0) as [->|Hv].
    - subst D. cbn [Z.abs]. rewrite get_str_zero. cbn [Z.eqb andb tl0]. reflexivity.
    - destruct (Z.eqb_spec (Z.abs v) 0); [lia | reflexivity]. }
  rewrite Hds. clear Hds.
  set (ds := if (v =? 0) && (prec =? 0) then [] else D).
  assert (Hidx : index_of 47 ds 0 = None).
  { apply index_of_none. subst ds. destruct ((v =? 0) && (prec =? 0)); [constructor | exact F]. }
  rewrite Hidx. cbv beta iota.
  rewrite !just_simpl by lia.
  reflexivity.
Qed.

(* ------------------------------------------------------------------------------------------ *)
(* the layout of doprnti.c against the C99 layout                                               *)
(* ------------------------------------------------------------------------------------------ *)
Lemma sign_eq v (pl sp : bool) :
  let sgc := if v <? 0 then 45 else (if pl then 43 else if sp then 32 else 0) in
  let sg := if v <? 0 then [45] else if pl then [43] else if sp then [32] else [] in
  (if sgc =? 0 then [] else [sgc]) = sg /\ (if sgc =? 0 then 0 else 1) = len sg.
Proof. destruct (v <? 0), pl, sp; split; reflexivity. Qed.

Lemma is_conv_cases conv : is_conv conv = true ->
  conv = 100 \/ conv = 105 \/ conv = 111 \/ conv = 120 \/ conv = 88.
Proof.
  unfold is_conv. intros H.
  destruct (Z.eqb_spec conv 100); [tauto|]. destruct (Z.eqb_spec conv 105); [tauto|].
  destruct (Z.eqb_spec conv 111); [tauto|]. destruct (Z.eqb_spec conv 120); [tauto|].
  destruct (Z.eqb_spec conv 88); [tauto|]. discriminate.
Qed.

Lemma prefix_eq (h : bool) conv v ds zeros : is_conv conv = true -> 0 <= zeros ->
  (h = true -> (conv =? 120) || (conv =? 88) = true -> (hd0 ds =? 48) = (v =? 0)) ->
  let showbase := showbase_of (if h then 2 else 0) (conv_base conv) in
  let sbl0 := if ((if h then 2 else 0) =? 2) && (hd0 ds =? 48) then 0 else len showbase in
  let sbl := if (conv_base conv =? 8) && (0 <? zeros) then 0 else sbl0 in
  let prefix := if h && negb (v =? 0) then (if conv =? 120 then [48; 120] else if conv =? 88 then [48; 88] else []) else [] in
  let oct := if h && (conv =? 111) && negb (hd0 (rep 48 zeros ++ ds) =? 48) then [48] else [] in
  firstn (Z.to_nat sbl) showbase = prefix ++ oct /\ sbl = len (prefix ++ oct) /\ (oct = [] \/ oct = [48]).
Proof.
  intros Hc Hz Hhex. cbv zeta.
  destruct h.
  2:{ cbn. destruct (_ && _); repeat split; auto. }
  specialize (Hhex eq_refl).
  destruct (is_conv_cases conv Hc) as [->|[->|[->|[->| ->]]]].
  - cbn. destruct (v =? 0), (hd0 ds =? 48); cbn; auto.
  - cbn. destruct (v =? 0), (hd0 ds =? 48); cbn; auto.
  - change (conv_base 111) with 8. change (showbase_of 2 8) with [48].
    cbn [Z.eqb Pos.eqb andb]. 
    replace (if negb (v =? 0) then [] else []) with (@nil Z) by (destruct (v =? 0); reflexivity).
    cbn [app].
    destruct (Z.ltb_spec 0 zeros) as [Hp|Hp].
    + rewrite (rep_pos 48 zeros Hp). cbn. auto.
    + rewrite (rep_nonpos 48 zeros Hp). cbn [app].
      destruct (hd0 ds =? 48); cbn; auto.
  - rewrite (Hhex eq_refl). cbn. destruct (v =? 0); cbn; auto.
  - rewrite (Hhex eq_refl). cbn. destruct (v =? 0); cbn; auto.
Qed.

Lemma assemble (m zp : bool) SG prefix oct zeros ds wd :
  0 <= zeros -> (zp = true -> zeros = 0) -> (oct = [] \/ oct = [48]) ->
  let jl := wd - (len ds + len SG + len (prefix ++ oct) + 0 + zeros) in
  let R := rep (if zp && negb m then 48 else 32) jl in
  let just := if m then 1 else if zp then 3 else 2 in
  (if just =? 2 then R else []) ++ SG ++ (prefix ++ oct) ++ rep 48 zeros
    ++ (if just =? 3 then R else []) ++ ds ++ (if just =? 1 then R else [])
  = let body := oct ++ rep 48 zeros ++ ds in
    let pad := Z.max 0 (wd - (len SG + len prefix + len body)) in
    if m then SG ++ prefix ++ body ++ rep 32 pad
    else if zp then SG ++ prefix ++ rep 48 pad ++ body
    else rep 32 pad ++ SG ++ prefix ++ body.
Proof.
  intros Hz Hzp Ho. cbv zeta. rewrite !rep_max.
  replace (wd - (len SG + len prefix + len (oct ++ rep 48 zeros ++ ds)))
    with (wd - (len ds + len SG + len (prefix ++ oct) + 0 + zeros)) by (rewrite !len_app, len_rep; lia).
  set (jl := wd - (len ds + len SG + len (prefix ++ oct) + 0 + zeros)).
  destruct m, zp; cbn [andb negb Z.eqb Pos.eqb app].
  - rewrite <- !app_assoc. reflexivity.
  - rewrite <- !app_assoc. reflexivity.
  - rewrite (Hzp eq_refl). rewrite (rep_nonpos 48 0) by lia. cbn [app].
    destruct Ho as [->| ->].
    + rewrite ?app_nil_r. cbn [app]. reflexivity.
    + rewrite <- ?app_assoc, ?app_nil_r. cbn [app]. rewrite rep_comm. reflexivity.
  - rewrite <- !app_assoc. rewrite app_nil_r. reflexivity.
Qed.

Lemma if_cons (b : bool) (c : Z) l : (if b then c :: l else l) = (if b then [c] else []) ++ l.
Proof. destruct b; reflexivity. Qed.

Lemma core (m zp pl sp h : bool) wd conv v ds zeros :
  is_conv conv = true -> 0 <= zeros -> (zp = true -> zeros = 0) ->
  (h = true -> (conv =? 120) || (conv =? 88) = true -> (hd0 ds =? 48) = (v =? 0)) ->
  (let sgc := if v <? 0 then 45 else (if pl then 43 else if sp then 32 else 0) in
   let showbase := showbase_of (if h then 2 else 0) (conv_base conv) in
   let sbl0 := if ((if h then 2 else 0) =? 2) && (hd0 ds =? 48) then 0 else len showbase in
   let sbl := if (conv_base conv =? 8) && (0 <? zeros) then 0 else sbl0 in
   let justlen := wd - (len ds + (if sgc =? 0 then 0 else 1) + sbl + 0 + zeros) in
   let R := rep (if zp && negb m then 48 else 32) justlen in
   let just := if m then 1 else if zp then 3 else 2 in
   (if just =? 2 then R else []) ++ (if sgc =? 0 then [] else [sgc]) ++ firstn (Z.to_nat sbl) showbase
   ++ rep 48 zeros ++ (if just =? 3 then R else []) ++ ds ++ (if just =? 1 then R else []))
  =
  (let body := rep 48 zeros ++ ds in
   let body := if h && (conv =? 111) && negb (hd0 body =? 48) then 48 :: body else body in
   let prefix := if h && negb (v =? 0) then (if conv =? 120 then [48; 120] else if conv =? 88 then [48; 88] else []) else [] in
   let sign := if v <? 0 then [45] else if pl then [43] else if sp then [32] else [] in
   let pad := Z.max 0 (wd - (len sign + len prefix + len body)) in
   if m then sign ++ prefix ++ body ++ rep 32 pad
   else if zp then sign ++ prefix ++ rep 48 pad ++ body
   else rep 32 pad ++ sign ++ prefix ++ body).
Proof.
  intros Hc Hz Hzp Hhex. cbv zeta.
  pose proof (sign_eq v pl sp) as S. cbv zeta in S. destruct S as [S1 S2]. rewrite S1, S2.
  pose proof (prefix_eq h conv v ds zeros Hc Hz Hhex) as P. cbv zeta in P. destruct P as (P1 & P2 & P3).
  rewrite P1, P2.
  rewrite (if_cons (h && (conv =? 111) && negb (hd0 (rep 48 zeros ++ ds) =? 48)) 48 (rep 48 zeros ++ ds)).
  apply (assemble m zp _ _ _ zeros ds wd Hz Hzp P3).
Qed.

Lemma conv_base_ok conv : is_conv conv = true -> 2 <= Z.abs (conv_base conv).
Proof.
  intros Hc. destruct (is_conv_cases conv Hc) as [->|[->|[->|[->| ->]]]]; cbn; lia.
Qed.

Definition prec_code (pr : option Z) : Z := match pr with Some n => n | None => -1 end.
Definition is_none (pr : option Z) : bool := match pr with None => true | _ => false end.

Lemma dop_c99 (m pl sp h z : bool) wd pr conv v :
  is_conv conv = true -> (match pr with Some n => 0 <= n | None => True end) ->
  h && (v =? 0) && ((conv =? 120) || (conv =? 88)) && (match pr with Some 0 => true | _ => false end) = false ->
  dop_s (conv_base conv) (if (z && is_none pr) && negb m then 48 else 32)
        (if m then 1 else if z && is_none pr then 3 else 2) (prec_code pr)
        (if h then 2 else 0) (if pl then 43 else if sp then 32 else 0) wd v
  = c99_int (mkfl m pl sp h z) wd pr conv v.
Proof.
  intros Hc Hpr Hcarve.
  pose proof (conv_base_ok conv Hc) as Hb.
  destruct (get_str_facts (Z.abs v) (conv_base conv) ltac:(lia) Hb) as (F & L & H48).
  unfold dop_s, c99_int. cbn [f_minus f_plus f_space f_hash f_zero].
  set (D := mpz_get_str (Z.abs v) (conv_base conv)) in *.
  destruct pr as [n|]; cbn [prec_code is_none].
  - replace (match n with 0 => true | _ => false end) with (n =? 0) in * by (destruct n; reflexivity).
    rewrite andb_false_r.
    apply (core m false pl sp h wd conv v (if (v =? 0) && (n =? 0) then [] else D)
                (Z.max 0 (n - len (if (v =? 0) && (n =? 0) then [] else D))) Hc); [lia | discriminate |].
    intros -> Hx. rewrite Hx in Hcarve. cbn [andb] in Hcarve. rewrite andb_true_r in Hcarve.
    destruct (Z.eqb_spec v 0) as [Hv|Hv].
    + cbn [andb] in Hcarve. rewrite Hcarve. cbn [andb]. rewrite H48. destruct (Z.eqb_spec (Z.abs v) 0); [reflexivity|lia].
    + cbn [andb]. rewrite H48. destruct (Z.eqb_spec (Z.abs v) 0); [lia|reflexivity].
  - rewrite andb_true_r. change (-1 =? 0) with false. rewrite !andb_false_r.
    replace (Z.max 0 (1 - len D)) with (Z.max 0 (-1 - len D)) by lia.
    apply (core m z pl sp h wd conv v D (Z.max 0 (-1 - len D)) Hc); [lia | lia |].
    intros _ _. rewrite H48. destruct (Z.eqb_spec v 0), (Z.eqb_spec (Z.abs v) 0); try reflexivity; lia.
Qed.

Lemma doprnt_c99 (m pl sp h z : bool) wd pr conv v s i :
  is_conv conv = true -> (match pr with Some n => 0 <= n | None => True end) ->
  h && (v =? 0) && ((conv =? 120) || (conv =? 88)) && (match pr with Some 0 => true | _ => false end) = false ->
  doprnt_integer (mkp (conv_base conv) (if (z && is_none pr) && negb m then 48 else 32)
                      (if m then 1 else if z && is_none pr then 3 else 2) (prec_code pr)
                      (if h then 2 else 0) (if pl then 43 else if sp then 32 else 0) wd s i)
                 (mpz_get_str v (conv_base conv))
  = c99_int (mkfl m pl sp h z) wd pr conv v.
Proof.
  intros Hc Hpr Hcarve. rewrite doprnt_simpl by (apply conv_base_ok; exact Hc).
  apply dop_c99; assumption.
Qed.

(* ------------------------------------------------------------------------------------------ *)
(* the parser of doprnt.c                                                                       *)
(* ------------------------------------------------------------------------------------------ *)
Lemma parse_spec_nil f st p : parse_spec f [] st p = (p, [], st).
Proof. destruct f; reflexivity. Qed.

Lemma parse_spec_more : forall f s st p p' st', parse_spec f s st p = (p', [], st') ->
  forall f', (f <= f')%nat -> parse_spec f' s st p = (p', [], st').
Proof.
  induction f as [|f IH]; intros s st p p' st' H f' Hle.
  - cbn in H. inversion H; subst. apply parse_spec_nil.
  - destruct f' as [|f']; [lia|]. destruct s as [|c r]; [exact H|].
    assert (Hf : (f <= f')%nat) by lia.
    cbn [parse_spec] in *.
    destruct (c =? 35); [exact (IH _ _ _ _ _ H f' Hf)|].
    destruct (c =? 43); [exact (IH _ _ _ _ _ H f' Hf)|].
    destruct (c =? 32); [exact (IH _ _ _ _ _ H f' Hf)|].
    destruct (c =? 45); [exact (IH _ _ _ _ _ H f' Hf)|].
    destruct (c =? 46); [exact (IH _ _ _ _ _ H f' Hf)|].
    destruct (c =? 42); [destruct (p_in_prec p); exact (IH _ _ _ _ _ H f' Hf)|].
    destruct (c =? 48); [destruct (p_in_prec p); exact (IH _ _ _ _ _ H f' Hf)|].
    destruct (is_digit c); [|exact H].
    destruct (parse_num (c :: r) 0) as [n r']. exact (IH _ _ _ _ _ H f' Hf).
Qed.

(* the state after the flags: minus plus space hash zero seen, and the width *)
Definition fs (m pl sp h z : bool) (wd : Z) : params :=
  mkp 10 (if z && negb m then 48 else 32) (if m then 1 else if z then 3 else 2) 6 (if h then 2 else 0)
      (if pl then 43 else if sp then 32 else 0) wd false false.

Lemma is_flag_cases c : is_flag c = true -> c = 45 \/ c = 43 \/ c = 32 \/ c = 35 \/ c = 48.
Proof.
  unfold is_flag. intros H.
  destruct (Z.eqb_spec c 45); [tauto|]. destruct (Z.eqb_spec c 43); [tauto|].
  destruct (Z.eqb_spec c 32); [tauto|]. destruct (Z.eqb_spec c 35); [tauto|].
  destruct (Z.eqb_spec c 48); [tauto|]. discriminate.
Qed.

Lemma flag_step f c r stars (m pl sp h z : bool) wd : is_flag c = true ->
  parse_spec (S f) (c :: r) stars (fs m pl sp h z wd)
  = parse_spec f r stars (fs (m || (45 =? c)) (pl || (43 =? c)) (sp || (32 =? c)) (h || (35 =? c)) (z || (48 =? c)) wd).
Proof.
  intros Hc.
  destruct (is_flag_cases c Hc) as [->|[->|[->|[->| ->]]]];
    cbn [parse_spec Z.eqb Pos.eqb]; f_equal; destruct m, pl, sp, h, z; reflexivity.
Qed.

Lemma flags_fold : forall fl f rest stars (m pl sp h z : bool) wd, forallb is_flag fl = true ->
  parse_spec (length fl + f) (fl ++ rest) stars (fs m pl sp h z wd)
  = parse_spec f rest stars (fs (m || has 45 fl) (pl || has 43 fl) (sp || has 32 fl) (h || has 35 fl) (z || has 48 fl) wd).
Proof.
  induction fl as [|c fl IH]; intros f rest stars m pl sp h z wd H.
  - cbn [length app Nat.add has existsb]. rewrite !orb_false_r. reflexivity.
  - cbn [forallb] in H. apply andb_true_iff in H. destruct H as [Hc Hfl].
    cbn [length app Nat.add]. rewrite (flag_step _ _ _ _ _ _ _ _ _ _ Hc). rewrite (IH _ _ _ _ _ _ _ _ _ Hfl).
    unfold has. cbn [existsb]. rewrite !orb_assoc. reflexivity.
Qed.

(* decimal numbers *)
Definition pval (l : list Z) (k : Z) : Z := fold_left (fun a c => a * 10 + (c - 48)) l k.

Lemma parse_num_digits : forall l rest k, Forall (fun c => is_digit c = true) l ->
  parse_num (l ++ rest) k = parse_num rest (pval l k).
Proof.
  induction l as [|c l IH]; intros rest k F; [reflexivity|].
  inversion F as [|c' l' Hc Hl]; subst. cbn [app parse_num]. rewrite Hc. rewrite (IH _ _ Hl). reflexivity.
Qed.

Lemma dd_S f n acc :
  dec_digits (S f) n acc = if n <? 10 then (48 + n) :: acc else dec_digits f (n / 10) ((48 + n mod 10) :: acc).
Proof. reflexivity. Qed.

Lemma dd_acc : forall f n acc, dec_digits f n acc = dec_digits f n [] ++ acc.
Proof.
  induction f as [|f IH]; intros n acc; [reflexivity|].
  rewrite !dd_S. destruct (n <? 10); [reflexivity|].
  rewrite (IH (n / 10) (_ :: acc)), (IH (n / 10) [_]). rewrite <- app_assoc. reflexivity.
Qed.

Lemma dd_spec : forall f n, 0 <= n < 2 ^ Z.of_nat (S f) ->
  Forall (fun c => is_digit c = true) (dec_digits (S f) n [])
  /\ pval (dec_digits (S f) n []) 0 = n
  /\ (exists c l, dec_digits (S f) n [] = c :: l /\ (1 <= n -> c <> 48)).
Proof.
  induction f as [|f IH]; intros n Hn.
  - change (2 ^ Z.of_nat 1) with 2 in Hn. rewrite dd_S.
    destruct (Z.ltb_spec n 10); [|lia].
    split; [|split].
    + constructor; [|constructor]. unfold is_digit. apply andb_true_iff. split; apply Z.leb_le; lia.
    + unfold pval. cbn [fold_left]. lia.
    + exists (48 + n), []. split; [reflexivity | lia].
  - rewrite dd_S. destruct (Z.ltb_spec n 10) as [H10|H10].
    + split; [|split].
      * constructor; [|constructor]. unfold is_digit. apply andb_true_iff. split; apply Z.leb_le; lia.
      * unfold pval. cbn [fold_left]. lia.
      * exists (48 + n), []. split; [reflexivity | lia].
    + assert (Hq : 0 <= n / 10 < 2 ^ Z.of_nat (S f)) by (apply half_fuel; lia).
      assert (Hq1 : 1 <= n / 10) by (apply Z.div_le_lower_bound; lia).
      destruct (IH (n / 10) Hq) as (F & V & c & l & E & N).
      pose proof (Z.mod_pos_bound n 10 ltac:(lia)) as Hm.
      pose proof (Z.div_mod n 10 ltac:(lia)) as Hdm.
      rewrite dd_acc. split; [|split].
      * apply Forall_app. split; [exact F|]. constructor; [|constructor].
        unfold is_digit. apply andb_true_iff. split; apply Z.leb_le; lia.
      * unfold pval in *. rewrite fold_left_app, V. cbn [fold_left]. lia.
      * rewrite E. exists c, (l ++ [48 + n mod 10]). split; [reflexivity|]. intros _. apply N. exact Hq1.
Qed.

Lemma dec_spec n : 1 <= n ->
  exists c l, dec n = c :: l /\ is_digit c = true /\ c <> 48
              /\ forall rest, parse_num (dec n ++ rest) 0 = parse_num rest n.
Proof.
  intros Hn. unfold dec.
  destruct (dd_spec (Z.to_nat (Z.log2 n)) n (log2_fuel n ltac:(lia))) as (F & V & c & l & E & N).
  exists c, l. split; [exact E|]. split; [|split].
  - rewrite E in F. inversion F; assumption.
  - apply N. exact Hn.
  - intros rest. rewrite (parse_num_digits _ _ _ F), V. reflexivity.
Qed.

Lemma dec_zero : dec 0 = [48].
Proof. reflexivity. Qed.

Lemma parse_num_stop rest n : (rest = [] \/ exists r, rest = 46 :: r) -> parse_num rest n = (n, rest).
Proof. intros [->|(r & ->)]; reflexivity. Qed.

Lemma num_step f n rest stars p : 1 <= n -> (rest = [] \/ exists r, rest = 46 :: r) ->
  parse_spec (S f) (dec n ++ rest) stars p
  = parse_spec f rest stars (if p_in_prec p then set_prec p n else set_width p n).
Proof.
  intros Hn Hrest. destruct (dec_spec n Hn) as (c & l & E & Hd & H48 & HP).
  specialize (HP rest). rewrite E in *. cbn [app] in *.
  assert (Hr : 48 <= c <= 57).
  { unfold is_digit in Hd. apply andb_true_iff in Hd. destruct Hd as [H1 H2].
    apply Z.leb_le in H1. apply Z.leb_le in H2. lia. }
  cbn [parse_spec].
  destruct (Z.eqb_spec c 35); [lia|]. destruct (Z.eqb_spec c 43); [lia|].
  destruct (Z.eqb_spec c 32); [lia|]. destruct (Z.eqb_spec c 45); [lia|].
  destruct (Z.eqb_spec c 46); [lia|]. destruct (Z.eqb_spec c 42); [lia|].
  destruct (Z.eqb_spec c 48); [lia|].
  rewrite Hd, HP, (parse_num_stop rest n Hrest). reflexivity.
Qed.

(* width *)
Definition wpart (w : wspec) : list Z := match w with WNone => [] | WNum n => dec n | WStar _ => [42] end.
Definition wstars (w : wspec) : list Z := match w with WStar n => [n] | _ => [] end.
Definition wneg (w : wspec) : bool := match w with WStar n => n <? 0 | _ => false end.
Definition nw (w : wspec) : nat := match w with WNone => 0 | _ => 1 end.
Definition ppart (p : pspec) : list Z := match p with PNone => [] | PNum n => 46 :: dec n | PStar _ => [46; 42] end.
Definition pstars (p : pspec) : list Z := match p with PStar n => [n] | _ => [] end.
Definition np (p : pspec) : nat := match p with PNone => 0 | _ => 2 end.

Lemma width_phase f w rest srest (m pl sp h z : bool) :
  (match w with WNum n => 1 <= n | _ => True end) -> (rest = [] \/ exists r, rest = 46 :: r) ->
  parse_spec (nw w + f) (wpart w ++ rest) (wstars w ++ srest) (fs m pl sp h z 0)
  = parse_spec f rest srest (fs (m || wneg w) pl sp h z (width_of w)).
Proof.
  intros Hw Hrest. destruct w as [|n|n]; cbn [nw wpart wstars wneg width_of Nat.add app].
  - rewrite orb_false_r. reflexivity.
  - rewrite (num_step f n rest srest _ Hw Hrest). rewrite orb_false_r. reflexivity.
  - cbn [parse_spec Z.eqb Pos.eqb fs p_in_prec hd0 tl0].
    destruct (Z.ltb_spec n 0) as [Hn|Hn].
    + replace (Z.abs n) with (- n) by lia. f_equal. destruct m, z; reflexivity.
    + replace (Z.abs n) with n by lia. rewrite orb_false_r. reflexivity.
Qed.

Lemma wpart_len w : (match w with WNum n => 1 <= n | _ => True end) -> (nw w <= length (wpart w))%nat.
Proof.
  destruct w as [|n|n]; cbn [nw wpart length]; intros H; try lia.
  destruct (dec_spec n H) as (c & l & E & _). rewrite E. cbn [length]. lia.
Qed.

Lemma ppart_len p : (match p with PNum n => 0 <= n | _ => True end) -> (np p <= length (ppart p))%nat.
Proof.
  destruct p as [|n|n]; cbn [np ppart length]; intros H; try lia.
  destruct (Z.eq_dec n 0) as [->|Hn]; [rewrite dec_zero; cbn [length]; lia|].
  destruct (dec_spec n ltac:(lia)) as (c & l & E & _). rewrite E. cbn [length]. lia.
Qed.

Lemma ppart_shape p : ppart p = [] \/ exists r, ppart p = 46 :: r.
Proof. destruct p; cbn [ppart]; [left; reflexivity | right; eexists; reflexivity ..]. Qed.

(* precision, then at_integer *)
Lemma dot_step f r st p : parse_spec (S f) (46 :: r) st p = parse_spec f r st (set_seen (set_prec p (-1)) true true).
Proof. reflexivity. Qed.

Lemma prec_phase p conv (m pl sp h z : bool) wd :
  (match p with PNum n => 0 <= n | _ => True end) ->
  exists P s i,
    parse_spec (np p) (ppart p) (pstars p) (fs m pl sp h z wd) = (P, [], [])
    /\ at_integer P conv =
       mkp (conv_base conv) (if (z && is_none (prec_of p)) && negb m then 48 else 32)
           (if m then 1 else if z && is_none (prec_of p) then 3 else 2) (prec_code (prec_of p))
           (if h then 2 else 0) (if pl then 43 else if sp then 32 else 0) wd s i.
Proof.
  intros Hp. destruct p as [|n|n]; cbn [np ppart pstars prec_of].
  - eexists. exists false, false. split; [reflexivity|].
    destruct m, z; reflexivity.
  - destruct (Z.eq_dec n 0) as [->|Hn].
    + rewrite dec_zero. eexists. exists true, true. split; [reflexivity|].
      destruct m, z; reflexivity.
    + assert (H1 : 1 <= n) by lia.
      eexists. exists true, true. split.
      * rewrite dot_step. rewrite <- (app_nil_r (dec n)).
        rewrite (num_step 0 n [] [] _ H1 (or_introl eq_refl)). cbn [parse_spec]. reflexivity.
      * unfold at_integer. cbn [fs set_seen set_prec set_base set_width p_base p_fill p_justify p_prec p_showbase p_sign
                                  p_width p_seen_prec p_in_prec is_none prec_code].
        replace (0 <=? n) with true by (symmetry; apply Z.leb_le; lia).
        destruct m, z; reflexivity.
  - destruct (Z.ltb_spec n 0) as [Hn|Hn].
    + eexists. exists false, true. split.
      * cbn [parse_spec Z.eqb Pos.eqb fs set_seen set_prec p_in_prec hd0 tl0].
        destruct (Z.ltb_spec n 0); [|lia]. reflexivity.
      * destruct m, z; reflexivity.
    + eexists. exists true, true. split.
      * cbn [parse_spec Z.eqb Pos.eqb fs set_seen set_prec p_in_prec hd0 tl0].
        destruct (Z.ltb_spec n 0); [lia|]. reflexivity.
      * unfold at_integer. cbn [fs set_seen set_prec set_base set_width p_base p_fill p_justify p_prec p_showbase p_sign
                                  p_width p_seen_prec p_in_prec is_none prec_code].
        replace (0 <=? n) with true by (symmetry; apply Z.leb_le; lia).
        destruct m, z; reflexivity.
Qed.

Lemma spec_parts fl w p : spec_of fl w p = fl ++ (wpart w ++ ppart p).
Proof. reflexivity. Qed.
Lemma stars_parts w p : stars_of w p = wstars w ++ pstars p.
Proof. reflexivity. Qed.

Lemma layout_is_c99 : forall fl w p conv v,
  forallb is_flag fl = true -> is_conv conv = true ->
  (match w with WNum n => 1 <= n | _ => True end) -> (match p with PNum n => 0 <= n | _ => True end) ->
  (has 35 fl && (v =? 0) && ((conv =? 120) || (conv =? 88)) && (match prec_of p with Some 0 => true | _ => false end) = false) ->
  printf_Z (spec_of fl w p) (stars_of w p) conv v = c99_int (flags_of fl w) (width_of w) (prec_of p) conv v.
Proof.
  intros fl w p conv v Hfl Hc Hw Hp Hcarve.
  destruct (prec_phase p conv (has 45 fl || wneg w) (has 43 fl) (has 32 fl) (has 35 fl) (has 48 fl) (width_of w) Hp)
    as (P & s & i & HP & HA).
  assert (Hparse : parse_spec (S (length (spec_of fl w p))) (spec_of fl w p) (stars_of w p) p_init = (P, [], [])).
  { apply parse_spec_more with (f := (length fl + (nw w + np p))%nat).
    - rewrite spec_parts, stars_parts.
      change p_init with (fs false false false false false 0).
      rewrite (flags_fold fl _ _ _ _ _ _ _ _ _ Hfl). cbn [orb].
      rewrite (width_phase _ w _ _ _ _ _ _ _ Hw (ppart_shape p)). exact HP.
    - rewrite spec_parts, !app_length.
      pose proof (wpart_len w Hw). pose proof (ppart_len p Hp). lia. }
  unfold printf_Z. rewrite Hparse. rewrite HA.
  cbn [p_base].
  apply doprnt_c99; [exact Hc | | exact Hcarve].
  destruct p as [|n|n]; cbn [prec_of]; [exact I | exact Hp |].
  destruct (Z.ltb_spec n 0); [exact I | assumption].
Qed.

Lemma bare_dot_is_none : forall fl w conv v,
  forallb is_flag fl = true -> is_conv conv = true -> (match w with WNum n => 1 <= n | _ => True end) ->
  printf_Z (spec_of fl w PNone ++ [46]) (stars_of w PNone) conv v = printf_Z (spec_of fl w PNone) (stars_of w PNone) conv v.
Proof.
  intros fl w conv v Hfl Hc Hw.
  pose proof (conv_base_ok conv Hc) as Hb.
  set (Q := fs (has 45 fl || wneg w) (has 43 fl) (has 32 fl) (has 35 fl) (has 48 fl) (width_of w)).
  assert (H1 : parse_spec (S (length (spec_of fl w PNone))) (spec_of fl w PNone) (stars_of w PNone) p_init = (Q, [], [])).
  { apply parse_spec_more with (f := (length fl + (nw w + 0))%nat).
    - rewrite spec_parts, stars_parts.
      change p_init with (fs false false false false false 0).
      rewrite (flags_fold fl _ _ _ _ _ _ _ _ _ Hfl). cbn [orb].
      rewrite (width_phase _ w _ _ _ _ _ _ _ Hw (or_introl eq_refl)). reflexivity.
    - rewrite spec_parts, !app_length. pose proof (wpart_len w Hw). lia. }
  assert (H2 : parse_spec (S (length (spec_of fl w PNone ++ [46]))) (spec_of fl w PNone ++ [46]) (stars_of w PNone) p_init
               = (set_seen (set_prec Q (-1)) true true, [], [])).
  { apply parse_spec_more with (f := (length fl + (nw w + 1))%nat).
    - rewrite spec_parts, stars_parts. cbn [ppart pstars]. rewrite <- !app_assoc. cbn [app].
      change p_init with (fs false false false false false 0).
      rewrite (flags_fold fl _ _ _ _ _ _ _ _ _ Hfl). cbn [orb].
      rewrite (width_phase _ w _ _ _ _ _ _ _ Hw (or_intror (ex_intro _ [] eq_refl))). reflexivity.
    - rewrite spec_parts, !app_length. pose proof (wpart_len w Hw). cbn [length]. lia. }
  unfold printf_Z. rewrite H1, H2.
  unfold at_integer, Q.
  cbn [fs set_seen set_prec set_base p_base p_fill p_justify p_prec p_showbase p_sign p_width p_seen_prec p_in_prec].
  cbn [Z.leb Z.compare andb].
  cbn [fs set_seen set_prec set_base p_base p_fill p_justify p_prec p_showbase p_sign p_width p_seen_prec p_in_prec].
  unfold set_base, set_seen, set_prec, fs.
  cbn [p_base p_fill p_justify p_prec p_showbase p_sign p_width p_seen_prec p_in_prec].
  rewrite !doprnt_simpl by exact Hb. reflexivity.
Qed.

(* ------------------------------------------------------------------------------------------ *)
(* examples                                                                                     *)
(* ------------------------------------------------------------------------------------------ *)
Lemma C18_example :
  printf_Z [45; 48; 43] [] 105 (-42) = [45; 52; 50]
  /\ printf_Z ([48; 43] ++ dec 12 ++ 46 :: dec 4) [] 105 (-42) = [32; 32; 32; 32; 32; 32; 32; 45; 48; 48; 52; 50]
  /\ printf_Z [35; 46; 52] [] 111 1 = [48; 48; 48; 49]
  /\ printf_Z [43; 32] [] 100 0 = [43; 48]
  /\ printf_Z [46; 42] [-1] 100 0 = [48]
  /\ snprintf_sink 4 [[60]; [49; 50; 51]; [62]] = ([60; 49; 50], true, 5).
Proof. repeat split; vm_compute; reflexivity. Qed.
