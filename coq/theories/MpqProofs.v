(* MpqProofs.v — the rational models of MpqDefs.v return the exact value in canonical form. *)
From Coq Require Import ZArith Znumtheory Zpow_facts List Lia Bool.
From Mpir Require Import Word DivDefs ConvDefs MpqDefs.
Import ListNotations.
Local Open Scope Z_scope.

(* ------------------------------------------------------------------ *)
(* coprimality toolkit, phrased with Z.gcd _ _ = 1                      *)

Lemma cop_sym a b : Z.gcd a b = 1 -> Z.gcd b a = 1.
Proof. intros H. rewrite Z.gcd_comm. exact H. Qed.

Lemma cop_mul_r a b c : Z.gcd a b = 1 -> Z.gcd a c = 1 -> Z.gcd a (b * c) = 1.
Proof. rewrite !Zgcd_1_rel_prime. apply rel_prime_mult. Qed.

Lemma cop_mul_l a b c : Z.gcd a c = 1 -> Z.gcd b c = 1 -> Z.gcd (a * b) c = 1.
Proof.
  intros H1 H2. apply cop_sym. apply cop_mul_r; apply cop_sym; assumption.
Qed.

Lemma cop_div_l a b c : Z.gcd a b = 1 -> (c | a) -> Z.gcd c b = 1.
Proof. rewrite !Zgcd_1_rel_prime. apply rel_prime_div. Qed.

Lemma cop_div_r a b c : Z.gcd a b = 1 -> (c | b) -> Z.gcd a c = 1.
Proof.
  intros H D. apply cop_sym. apply cop_div_l with (a := b); [apply cop_sym; exact H|exact D].
Qed.

Lemma cop_div a b c e : Z.gcd a b = 1 -> (c | a) -> (e | b) -> Z.gcd c e = 1.
Proof.
  intros H D1 D2. apply cop_div_l with (a := a); [|exact D1].
  apply cop_div_r with (b := b); assumption.
Qed.

Lemma cop_pm1 s m : s = 1 \/ s = -1 -> Z.gcd s m = 1.
Proof.
  intros [E|E]; subst s; [apply Z.gcd_1_l|].
  change (-1) with (- (1)). rewrite Z.gcd_opp_l. apply Z.gcd_1_l.
Qed.

Lemma gcd_add_multiple t m k : Z.gcd (t + k * m) m = Z.gcd t m.
Proof. rewrite Z.gcd_comm, Z.gcd_add_mult_diag_r. apply Z.gcd_comm. Qed.

Lemma gcd_split a b : Z.gcd a b <> 0 ->
  0 < Z.gcd a b /\ a = Z.gcd a b * (a / Z.gcd a b) /\ b = Z.gcd a b * (b / Z.gcd a b)
  /\ Z.gcd (a / Z.gcd a b) (b / Z.gcd a b) = 1.
Proof.
  intros Hne. pose proof (Z.gcd_nonneg a b) as Hnn.
  assert (Hpos : 0 < Z.gcd a b) by lia.
  split; [exact Hpos|]. split; [|split].
  - apply Zdivide_Zdiv_eq; [exact Hpos|apply Z.gcd_divide_l].
  - apply Zdivide_Zdiv_eq; [exact Hpos|apply Z.gcd_divide_r].
  - apply Z.gcd_div_gcd; [exact Hne|reflexivity].
Qed.

Lemma gcd_nz_r a b : b <> 0 -> Z.gcd a b <> 0.
Proof. intros Hb E. apply Z.gcd_eq_0_r in E. contradiction. Qed.

Lemma gcd_nz_l a b : a <> 0 -> Z.gcd a b <> 0.
Proof. intros Ha E. apply Z.gcd_eq_0_l in E. contradiction. Qed.

Lemma mul_pos_cancel a b : 0 < a -> 0 < a * b -> 0 < b.
Proof. intros Ha Hab. apply Z.mul_pos_cancel_l with (n := a); assumption. Qed.

Lemma qcanon_neg_both n d : d < 0 -> Z.gcd n d = 1 -> qcanon (mkq (- n) (- d)).
Proof.
  intros Hd Hg. unfold qcanon. cbn [qn qd]. split; [lia|].
  rewrite Z.gcd_opp_l, Z.gcd_opp_r. exact Hg.
Qed.

(* ------------------------------------------------------------------ *)
(* mpq_add / mpq_sub                                                    *)

Lemma aors_gen x y fn s : (s = 1 \/ s = -1) -> (forall u v, fn u v = u + s * v) ->
  qcanon x -> qcanon y ->
  qcanon (mpq_aors x y fn)
  /\ qn (mpq_aors x y fn) * (qd x * qd y)
     = (qn x * qd y + s * (qn y * qd x)) * qd (mpq_aors x y fn).
Proof.
  intros Hs Hfn Hx Hy. destruct x as [nx dx], y as [ny dy].
  destruct Hx as [Hdx Hcx], Hy as [Hdy Hcy]. cbn [qn qd] in *.
  unfold mpq_aors. cbn [qn qd]. cbv zeta. rewrite !Hfn.
  assert (Hg0 : Z.gcd dx dy <> 0) by (apply gcd_nz_l; lia).
  destruct (gcd_split dx dy Hg0) as (Hg & Ea & Eb & Hab).
  set (g := Z.gcd dx dy) in *. set (a := dx / g) in *. set (b := dy / g) in *.
  clearbody a b.
  destruct (Z.eqb_spec g 1) as [E1|N1]; cbn [negb].
  - (* coprime denominators *)
    cbn [qn qd]. split; [|reflexivity].
    unfold qcanon. cbn [qn qd]. split; [apply Z.mul_pos_pos; assumption|].
    apply cop_mul_r.
    + replace (nx * dy + s * (ny * dx)) with (nx * dy + (s * ny) * dx) by ring.
      rewrite gcd_add_multiple. apply cop_mul_l; [exact Hcx|]. apply cop_sym. exact E1.
    + replace (nx * dy + s * (ny * dx)) with (s * (ny * dx) + nx * dy) by ring.
      rewrite gcd_add_multiple. apply cop_mul_l; [apply cop_pm1; exact Hs|].
      apply cop_mul_l; [exact Hcy|exact E1].
  - clearbody g. subst dx dy.
    assert (Ha : 0 < a) by (apply mul_pos_cancel with (a := g); assumption).
    assert (Hb : 0 < b) by (apply mul_pos_cancel with (a := g); assumption).
    remember (nx * b + s * (ny * a)) as t eqn:Dt.
    assert (Hres : (if Z.gcd t g =? 1 then mkq t (g * b * a)
                    else mkq (t / Z.gcd t g) (g * b / Z.gcd t g * a))
                   = mkq (t / Z.gcd t g) (g * b / Z.gcd t g * a)).
    { destruct (Z.eqb_spec (Z.gcd t g) 1) as [E|E]; [|reflexivity].
      rewrite E, !Z.div_1_r. reflexivity. }
    rewrite Hres. clear Hres. cbn [qn qd].
    assert (Hg20 : Z.gcd t g <> 0) by (apply gcd_nz_r; lia).
    destruct (gcd_split t g Hg20) as (Hg2 & Et & Eh & Hth).
    set (g2 := Z.gcd t g) in *. set (t' := t / g2) in *. set (h := g / g2) in *.
    clearbody t' h g2. subst g t.
    assert (Hh : 0 < h) by (apply mul_pos_cancel with (a := g2); assumption).
    replace (g2 * h * b / g2) with (h * b).
    2:{ symmetry. replace (g2 * h * b) with (h * b * g2) by ring. apply Z.div_mul. lia. }
    split.
    + unfold qcanon. cbn [qn qd]. split.
      * apply Z.mul_pos_pos; [apply Z.mul_pos_pos|]; assumption.
      * apply cop_mul_r; [apply cop_mul_r|].
        -- exact Hth.
        -- apply cop_div_l with (a := g2 * t'); [|exists g2; ring].
           rewrite <- Et.
           replace (nx * b + s * (ny * a)) with (s * (ny * a) + nx * b) by ring.
           rewrite gcd_add_multiple. apply cop_mul_l; [apply cop_pm1; exact Hs|].
           apply cop_mul_l; [|exact Hab].
           apply cop_div_r with (b := g2 * h * b); [exact Hcy|exists (g2 * h); ring].
        -- apply cop_div_l with (a := g2 * t'); [|exists g2; ring].
           rewrite <- Et.
           replace (nx * b + s * (ny * a)) with (nx * b + (s * ny) * a) by ring.
           rewrite gcd_add_multiple. apply cop_mul_l; [|apply cop_sym; exact Hab].
           apply cop_div_r with (b := g2 * h * a); [exact Hcx|exists (g2 * h); ring].
    + replace (nx * (g2 * h * b) + s * (ny * (g2 * h * a)))
        with (g2 * h * (nx * b + s * (ny * a))) by ring.
      rewrite Et. ring.
Qed.

Lemma mpq_add_sub_spec : forall x y, qcanon x -> qcanon y ->
  (qcanon (mpq_add x y)
   /\ qn (mpq_add x y) * (qd x * qd y) = (qn x * qd y + qn y * qd x) * qd (mpq_add x y))
  /\ (qcanon (mpq_sub x y)
   /\ qn (mpq_sub x y) * (qd x * qd y) = (qn x * qd y - qn y * qd x) * qd (mpq_sub x y)).
Proof.
  intros x y Hx Hy. split.
  - destruct (aors_gen x y Z.add 1 (or_introl eq_refl)) as [C V]; try assumption.
    { intros u v. ring. }
    split; [exact C|]. unfold mpq_add. rewrite V. ring.
  - destruct (aors_gen x y Z.sub (-1) (or_intror eq_refl)) as [C V]; try assumption.
    { intros u v. ring. }
    split; [exact C|]. unfold mpq_sub. rewrite V. ring.
Qed.

(* ------------------------------------------------------------------ *)
(* mpq_mul, mpq_div                                                     *)

Lemma mpq_mul_spec : forall x y same, qcanon x -> qcanon y -> (same = true -> x = y) ->
  qcanon (mpq_mul x y same)
  /\ qn (mpq_mul x y same) * (qd x * qd y) = (qn x * qn y) * qd (mpq_mul x y same).
Proof.
  intros x y same Hx Hy Hsame. unfold mpq_mul. destruct same.
  - rewrite <- (Hsame eq_refl). destruct x as [nx dx]. destruct Hx as [Hdx Hcx].
    cbn [qn qd] in *. split; [|reflexivity].
    unfold qcanon. cbn [qn qd]. split; [apply Z.mul_pos_pos; assumption|].
    apply cop_mul_r; apply cop_mul_l; assumption.
  - clear Hsame. destruct x as [nx dx], y as [ny dy].
    destruct Hx as [Hdx Hcx], Hy as [Hdy Hcy]. cbn [qn qd] in *. cbv zeta.
    assert (H10 : Z.gcd nx dy <> 0) by (apply gcd_nz_r; lia).
    assert (H20 : Z.gcd ny dx <> 0) by (apply gcd_nz_r; lia).
    destruct (gcd_split nx dy H10) as (Hg1 & Ea & Eb & Hab).
    destruct (gcd_split ny dx H20) as (Hg2 & Ec & Ee & Hce).
    set (g1 := Z.gcd nx dy) in *. set (a := nx / g1) in *. set (b := dy / g1) in *.
    set (g2 := Z.gcd ny dx) in *. set (c := ny / g2) in *. set (e := dx / g2) in *.
    clearbody a b c e g1 g2. subst nx dy ny dx.
    assert (Hb : 0 < b) by (apply mul_pos_cancel with (a := g1); assumption).
    assert (He : 0 < e) by (apply mul_pos_cancel with (a := g2); assumption).
    split; [|ring].
    unfold qcanon. cbn [qn qd]. split; [apply Z.mul_pos_pos; assumption|].
    apply cop_mul_r; apply cop_mul_l.
    + exact Hab.
    + apply cop_div with (a := g2 * c) (b := g1 * b); [exact Hcy| |]; [exists g2|exists g1]; ring.
    + apply cop_div with (a := g1 * a) (b := g2 * e); [exact Hcx| |]; [exists g1|exists g2]; ring.
    + exact Hce.
Qed.

Lemma mpq_div_spec : forall x y, qcanon x -> qcanon y ->
  (qn y = 0 -> mpq_div x y = DivByZero)
  /\ (qn y <> 0 -> exists r, mpq_div x y = Ok r /\ qcanon r
                             /\ qn r * (qd x * qn y) = (qn x * qd y) * qd r).
Proof.
  intros x y Hx Hy. unfold mpq_div. split.
  - intros E. rewrite E. reflexivity.
  - intros Hny. destruct (Z.eqb_spec (qn y) 0) as [E|_]; [contradiction|].
    eexists. split; [reflexivity|].
    destruct x as [nx dx], y as [ny dy].
    destruct Hx as [Hdx Hcx], Hy as [Hdy Hcy]. cbn [qn qd] in *. cbv zeta.
    assert (H10 : Z.gcd nx ny <> 0) by (apply gcd_nz_r; lia).
    assert (H20 : Z.gcd dy dx <> 0) by (apply gcd_nz_r; lia).
    destruct (gcd_split nx ny H10) as (Hg1 & Ea & Ec & Hac).
    destruct (gcd_split dy dx H20) as (Hg2 & Eb & Ee & Hbe).
    set (g1 := Z.gcd nx ny) in *. set (a := nx / g1) in *. set (c := ny / g1) in *.
    set (g2 := Z.gcd dy dx) in *. set (b := dy / g2) in *. set (e := dx / g2) in *.
    clearbody a b c e g1 g2. subst nx dy ny dx.
    assert (Hb : 0 < b) by (apply mul_pos_cancel with (a := g2); assumption).
    assert (He : 0 < e) by (apply mul_pos_cancel with (a := g2); assumption).
    assert (Hc : c <> 0) by (intros E; subst c; lia).
    assert (Hcop : Z.gcd (a * b) (c * e) = 1).
    { apply cop_mul_r; apply cop_mul_l.
      + exact Hac.
      + apply cop_sym.
        apply cop_div with (a := g1 * c) (b := g2 * b); [exact Hcy| |]; [exists g1|exists g2]; ring.
      + apply cop_div with (a := g1 * a) (b := g2 * e); [exact Hcx| |]; [exists g1|exists g2]; ring.
      + exact Hbe. }
    assert (Hden : c * e <> 0) by (apply Z.neq_mul_0; split; lia).
    destruct (Z.ltb_spec (c * e) 0) as [Hlt|Hge].
    + split; [apply qcanon_neg_both; assumption|]. cbn [qn qd]. ring.
    + split; [|cbn [qn qd]; ring].
      unfold qcanon. cbn [qn qd]. split; [lia|exact Hcop].
Qed.

(* ------------------------------------------------------------------ *)
(* mpq_inv, mpq_neg, mpq_abs                                            *)

Lemma mpq_inv_neg_abs_spec : forall x, qcanon x ->
  (qn x = 0 -> mpq_inv x = DivByZero)
  /\ (qn x <> 0 -> exists r, mpq_inv x = Ok r /\ qcanon r /\ qn r * qn x = qd x * qd r)
  /\ (qcanon (mpq_neg x) /\ qn (mpq_neg x) = - qn x /\ qd (mpq_neg x) = qd x)
  /\ (qcanon (mpq_abs x) /\ qn (mpq_abs x) = Z.abs (qn x) /\ qd (mpq_abs x) = qd x).
Proof.
  intros x Hx. destruct x as [nx dx]. destruct Hx as [Hdx Hcx]. cbn [qn qd] in *.
  unfold mpq_inv, mpq_neg, mpq_abs, qcanon. cbn [qn qd].
  split; [|split; [|split]].
  - intros E. rewrite E. reflexivity.
  - intros Hn. destruct (Z.eqb_spec nx 0) as [E|_]; [contradiction|].
    eexists. split; [reflexivity|].
    destruct (Z.ltb_spec nx 0) as [Hlt|Hge]; cbn [qn qd].
    + split; [|ring]. split; [lia|].
      rewrite Z.gcd_opp_l, Z.gcd_opp_r. apply cop_sym. exact Hcx.
    + split; [|ring]. split; [lia|]. apply cop_sym. exact Hcx.
  - split; [|split; reflexivity]. split; [exact Hdx|].
    rewrite Z.gcd_opp_l. exact Hcx.
  - split; [|split; reflexivity]. split; [exact Hdx|].
    rewrite Z.gcd_abs_l. exact Hcx.
Qed.

(* ------------------------------------------------------------------ *)
(* mpq_canonicalize                                                     *)

Lemma mpq_canonicalize_spec : forall x,
  (qd x = 0 -> mpq_canonicalize x = DivByZero)
  /\ (qd x <> 0 -> exists r, mpq_canonicalize x = Ok r /\ qcanon r /\ qn r * qd x = qn x * qd r)
  /\ (qcanon x -> mpq_canonicalize x = Ok x).
Proof.
  intros x. destruct x as [nx dx]. unfold mpq_canonicalize. cbn [qn qd].
  split; [|split].
  - intros E. rewrite E. reflexivity.
  - intros Hd. destruct (Z.eqb_spec dx 0) as [E|_]; [contradiction|].
    eexists. split; [reflexivity|]. cbv zeta.
    assert (Hg0 : Z.gcd nx dx <> 0) by (apply gcd_nz_r; exact Hd).
    destruct (gcd_split nx dx Hg0) as (Hg & Ea & Eb & Hab).
    set (g := Z.gcd nx dx) in *. set (a := nx / g) in *. set (b := dx / g) in *.
    clearbody a b g. subst nx dx.
    assert (Hb : b <> 0) by (intros E; subst b; lia).
    destruct (Z.ltb_spec b 0) as [Hlt|Hge].
    + split; [apply qcanon_neg_both; assumption|]. cbn [qn qd]. ring.
    + split; [|cbn [qn qd]; ring].
      unfold qcanon. cbn [qn qd]. split; [lia|exact Hab].
  - intros [Hdx Hc]. cbn [qn qd] in *.
    destruct (Z.eqb_spec dx 0) as [E|_]; [lia|]. cbv zeta.
    rewrite Hc, !Z.div_1_r.
    destruct (Z.ltb_spec dx 0) as [Hlt|Hge]; [lia|reflexivity].
Qed.

(* ------------------------------------------------------------------ *)
(* powers of two: v2 r is the exact exponent of 2 in r                  *)

Lemma ctz_pos_nonneg p : 0 <= ctz_pos p.
Proof. induction p as [p IH|p IH|]; cbn [ctz_pos]; lia. Qed.

Lemma ctz_pos_spec p : exists q, Zpos p = 2 ^ ctz_pos p * q /\ Z.odd q = true.
Proof.
  induction p as [p IH|p IH|]; cbn [ctz_pos].
  - exists (Zpos p~1). split; [rewrite Z.pow_0_r; lia|reflexivity].
  - destruct IH as (q & Eq & Oq). exists q. split; [|exact Oq].
    pose proof (ctz_pos_nonneg p) as Hnn.
    rewrite Z.pow_add_r by lia. rewrite Z.pow_1_r.
    change (Zpos p~0) with (2 * Zpos p). rewrite Eq. ring.
  - exists 1. split; reflexivity.
Qed.

Lemma v2_spec r : r <> 0 -> 0 <= v2 r /\ exists q, r = 2 ^ v2 r * q /\ Z.odd q = true.
Proof.
  intros Hr. unfold v2. destruct r as [|p|p]; [contradiction| |]; cbn [Z.abs ctz].
  - split; [apply ctz_pos_nonneg|apply ctz_pos_spec].
  - split; [apply ctz_pos_nonneg|].
    destruct (ctz_pos_spec p) as (q & Eq & Oq). exists (- q). split.
    + change (Zneg p) with (- Zpos p). rewrite Eq. ring.
    + rewrite Z.odd_opp. exact Oq.
Qed.

Lemma v2_opp r : v2 (- r) = v2 r.
Proof. unfold v2. rewrite Z.abs_opp. reflexivity. Qed.

Lemma odd_cop_2 q : Z.odd q = true -> Z.gcd q 2 = 1.
Proof.
  intros Oq. apply Z.odd_spec in Oq. destruct Oq as (m & Em).
  apply Zgcd_1_rel_prime. apply bezout_rel_prime.
  apply Bezout_intro with (u := 1) (v := - m). lia.
Qed.

Lemma odd_cop_pow2 q k : Z.odd q = true -> 0 <= k -> Z.gcd q (2 ^ k) = 1.
Proof.
  intros Oq Hk. apply Zgcd_1_rel_prime. apply rel_prime_Zpower_r; [exact Hk|].
  apply Zgcd_1_rel_prime. apply odd_cop_2. exact Oq.
Qed.

Lemma pow2_pos k : 0 <= k -> 0 < 2 ^ k.
Proof. intros Hk. apply Z.pow_pos_nonneg; lia. Qed.

(* strip up to n factors of two *)
Lemma strip2 r n : r <> 0 -> 0 <= n ->
  0 <= Z.min (v2 r) n <= n
  /\ r = 2 ^ Z.min (v2 r) n * (r / 2 ^ Z.min (v2 r) n)
  /\ (Z.min (v2 r) n = n \/ Z.odd (r / 2 ^ Z.min (v2 r) n) = true).
Proof.
  intros Hr Hn. destruct (v2_spec r Hr) as (Hv & q & Eq & Oq).
  set (v := v2 r) in *. clearbody v.
  set (k := Z.min v n). assert (Hk : 0 <= k <= n /\ k <= v) by (unfold k; lia).
  assert (Ediv : r / 2 ^ k = 2 ^ (v - k) * q).
  { rewrite Eq. replace v with ((v - k) + k) at 1 by lia.
    rewrite Z.pow_add_r by lia.
    replace (2 ^ (v - k) * 2 ^ k * q) with (2 ^ (v - k) * q * 2 ^ k) by ring.
    apply Z.div_mul. pose proof (pow2_pos k). lia. }
  split; [lia|]. split.
  - rewrite Ediv. rewrite Eq at 1. replace v with ((v - k) + k) at 1 by lia.
    rewrite Z.pow_add_r by lia. ring.
  - destruct (Z.eq_dec k n) as [E|N]; [left; exact E|right].
    assert (k = v) as -> by (unfold k in *; lia).
    rewrite Ediv, Z.sub_diag, Z.pow_0_r, Z.mul_1_l. exact Oq.
Qed.

(* ------------------------------------------------------------------ *)
(* mpq_mul_2exp, mpq_div_2exp                                           *)

Lemma mpq_md_2exp_spec : forall x n, qcanon x -> 0 <= n ->
  (qcanon (mpq_mul_2exp x n) /\ qn (mpq_mul_2exp x n) * qd x = qn x * 2 ^ n * qd (mpq_mul_2exp x n))
  /\ (qcanon (mpq_div_2exp x n) /\ qn (mpq_div_2exp x n) * (qd x * 2 ^ n) = qn x * qd (mpq_div_2exp x n)).
Proof.
  intros x n Hx Hn. destruct x as [nx dx]. destruct Hx as [Hdx Hcx]. cbn [qn qd] in *.
  unfold mpq_mul_2exp, mpq_div_2exp, mord_2exp. cbn [qn qd]. cbv zeta. split.
  - assert (Hd0 : dx <> 0) by lia.
    destruct (strip2 dx n Hd0 Hn) as (Hk & Ed & Hodd).
    set (k := Z.min (v2 dx) n) in *. set (d' := dx / 2 ^ k) in *. clearbody d' k.
    pose proof (pow2_pos k ltac:(lia)) as P.
    assert (Hd' : 0 < d') by (apply mul_pos_cancel with (a := 2 ^ k); [exact P|lia]).
    split.
    + unfold qcanon. cbn [qn qd]. split; [exact Hd'|].
      apply cop_mul_l.
      * apply cop_div_r with (b := dx); [exact Hcx|]. exists (2 ^ k). rewrite Ed at 1. ring.
      * destruct Hodd as [E|Od].
        -- rewrite E, Z.sub_diag, Z.pow_0_r. apply Z.gcd_1_l.
        -- apply cop_sym. apply odd_cop_pow2; [exact Od|lia].
    + cbn [qn qd]. replace n with ((n - k) + k) at 2 by lia.
      rewrite Z.pow_add_r by lia. rewrite Ed at 1. ring.
  - destruct (Z.eqb_spec nx 0) as [E|Hn0].
    + subst nx. cbn [qn qd]. split; [|reflexivity].
      unfold qcanon. cbn [qn qd]. split; reflexivity.
    + destruct (strip2 nx n Hn0 Hn) as (Hk & En & Hodd).
      set (k := Z.min (v2 nx) n) in *. set (n' := nx / 2 ^ k) in *. clearbody n' k.
      pose proof (pow2_pos k ltac:(lia)) as P.
      pose proof (pow2_pos (n - k) ltac:(lia)) as P'.
      split.
      * unfold qcanon. cbn [qn qd]. split; [apply Z.mul_pos_pos; assumption|].
        apply cop_mul_r.
        -- apply cop_div_l with (a := nx); [exact Hcx|]. exists (2 ^ k). rewrite En at 1. ring.
        -- destruct Hodd as [E|Od].
           ++ rewrite E, Z.sub_diag, Z.pow_0_r. apply Z.gcd_1_r.
           ++ apply odd_cop_pow2; [exact Od|lia].
      * cbn [qn qd]. replace n with ((n - k) + k) at 1 by lia.
        rewrite Z.pow_add_r by lia. rewrite En at 1. ring.
Qed.

(* ------------------------------------------------------------------ *)
(* conversions into mpq                                                 *)

(* m * 2^e with e < 0 in lowest terms *)
Lemma dyadic_canon m e : m <> 0 -> e < 0 ->
  qcanon (mkq (m / 2 ^ Z.min (v2 m) (- e)) (2 ^ (- e - Z.min (v2 m) (- e))))
  /\ m / 2 ^ Z.min (v2 m) (- e) * 2 ^ (- e) = m * 2 ^ (- e - Z.min (v2 m) (- e)).
Proof.
  intros Hm He.
  destruct (strip2 m (- e) Hm ltac:(lia)) as (Hk & Em & Hodd).
  set (k := Z.min (v2 m) (- e)) in *. set (m' := m / 2 ^ k) in *. clearbody m' k.
  split.
  - unfold qcanon. cbn [qn qd]. split; [apply pow2_pos; lia|].
    destruct Hodd as [E|Od].
    + rewrite E, Z.sub_diag, Z.pow_0_r. apply Z.gcd_1_r.
    + apply odd_cop_pow2; [exact Od|lia].
  - replace (- e) with ((- e - k) + k) at 1 by lia.
    rewrite Z.pow_add_r by lia. rewrite Em at 1. ring.
Qed.

Lemma mpq_set_f_spec mf ef :
  qcanon (mpq_set_f mf ef)
  /\ (0 <= ef -> qn (mpq_set_f mf ef) = mf * 2 ^ ef * qd (mpq_set_f mf ef))
  /\ (ef < 0 -> qn (mpq_set_f mf ef) * 2 ^ (- ef) = mf * qd (mpq_set_f mf ef)).
Proof.
  unfold mpq_set_f. destruct (Z.eqb_spec mf 0) as [E|Hm].
  - subst mf. cbn [qn qd]. split; [split; reflexivity|]. split; intros _; ring.
  - destruct (Z.leb_spec 0 ef) as [Hge|Hlt]; cbv zeta; cbn [qn qd].
    + split; [split; [reflexivity|apply Z.gcd_1_r]|]. split; [intros _; ring|lia].
    + destruct (dyadic_canon mf ef Hm Hlt) as [C V].
      split; [exact C|]. split; [lia|intros _; exact V].
Qed.

Lemma mpq_set_spec : forall z bits neg m e mf ef,
  qcanon (mpq_set_z z) /\ qn (mpq_set_z z) = z /\ qd (mpq_set_z z) = 1
  /\ (decode_double bits = DFin neg m e -> 0 <= m ->
      exists r, mpq_set_d bits = COk r /\ qcanon r
        /\ (0 <= e -> qn r = (if neg then - m else m) * 2 ^ e * qd r)
        /\ (e < 0 -> qn r * 2 ^ (- e) = (if neg then - m else m) * qd r))
  /\ (qcanon (mpq_set_f mf ef)
      /\ (0 <= ef -> qn (mpq_set_f mf ef) = mf * 2 ^ ef * qd (mpq_set_f mf ef))
      /\ (ef < 0 -> qn (mpq_set_f mf ef) * 2 ^ (- ef) = mf * qd (mpq_set_f mf ef))).
Proof.
  intros z bits neg m e mf ef.
  split; [split; [reflexivity|apply Z.gcd_1_r]|].
  split; [reflexivity|]. split; [reflexivity|]. split; [|apply mpq_set_f_spec].
  intros Hdec Hm. unfold mpq_set_d. rewrite Hdec. cbv zeta.
  set (sm := if neg then - m else m).
  assert (Hv : v2 m = v2 sm) by (unfold sm; destruct neg; [rewrite v2_opp|]; reflexivity).
  destruct (Z.eqb_spec m 0) as [E|Hm0].
  - assert (Es : sm = 0) by (unfold sm; destruct neg; lia).
    eexists. split; [reflexivity|]. rewrite Es. cbn [qn qd].
    split; [split; reflexivity|]. split; intros _; ring.
  - assert (Hs0 : sm <> 0) by (unfold sm; destruct neg; lia).
    destruct (Z.leb_spec 0 e) as [Hge|Hlt].
    + eexists. split; [reflexivity|]. cbn [qn qd].
      split; [split; [reflexivity|apply Z.gcd_1_r]|]. split; [intros _; ring|lia].
    + eexists. split; [reflexivity|]. cbn [qn qd]. rewrite Hv.
      destruct (dyadic_canon sm e Hs0 Hlt) as [C V].
      split; [exact C|]. split; [lia|intros _; exact V].
Qed.

Lemma C12_example :
  qcanon (mkq 1 6) /\ qcanon (mkq 1 10) /\ mpq_add (mkq 1 6) (mkq 1 10) = mkq 4 15
  /\ mpq_div_2exp (mkq 12 5) 3 = mkq 3 10 /\ mpq_canonicalize (mkq 6 (-4)) = Ok (mkq (-3) 2).
Proof.
  split; [split; reflexivity|]. split; [split; reflexivity|].
  split; [vm_compute; reflexivity|]. split; vm_compute; reflexivity.
Qed.
