(* MpfAddDefs.v — a bit-exact model of mpf_add (mpf/add.c), same-sign path, AS CODED.
   Conventions of MpfDefs.v: an mpf value is sign * fM * B^(fexp - fn), fM an fn-limb integer whose
   top limb is non-zero; zero is fM = 0, fn = 0, fexp = 0.  The limb vector {p, n} of the C code is
   the integer sum p[i] B^i; "p += k; n -= k" (drop the k low limbs) is M / B^k; MPN_COPY of the low
   k limbs is M mod B^k; mpn_add returns the low limbs of the sum and the carry out.
   Definitions only. *)
From Coq Require Import ZArith List Bool.
From Mpir Require Import Word DivDefs MpfDefs.
Import ListNotations.
Local Open Scope Z_scope.

(* mpf/set.c: mpf_set (r, u) keeps the top prec + 1 limbs of u ("lie not to lose precision"),
   sign and exponent unchanged.  mpf_add calls it when one operand is zero (when r == v nothing is
   done: v then already has at most prec + 1 limbs and the model returns it unchanged as well). *)
Definition mpf_set (prec : Z) (u : mpf) : mpf :=
  let '(m, n) := top_limbs (fM u) (fn u) (prec + 1) in mkf (fneg u) m n (fexp u).

(* "If V extends beyond PREC, ignore the part that does.  Note that this may make vsize negative."
     if (vsize + ediff > prec) { vp += vsize + ediff - prec; vsize = prec - ediff; }
   The new vsize is <= 0 exactly when ediff >= prec; the limbs are then never read (vp points past
   the end of v) and the integer M / B^k below is 0 because k >= n. *)
Definition v_trunc (prec ediff M n : Z) : Z * Z :=
  if prec <? n + ediff then (M / B ^ (n + ediff - prec), prec - ediff) else (M, n).

(* The three layouts of the branch ediff < prec: the limb vector tp (as an integer), the carry cy and
   rsize (before the carry is appended).  um has un limbs, vm has vn limbs, top of v is ediff limbs
   below the top of u. *)
Definition add_layout (um un vm vn ediff : Z) : Z * Z * Z :=
  if ediff <? un then
    if vn + ediff <=? un then
      (* uuuu
           v      size = usize - ediff - vsize; MPN_COPY (tp, up, size);
                  cy = mpn_add (tp + size, up + size, usize - size, vp, vsize); rsize = usize *)
      let size := un - ediff - vn in
      let low := um mod B ^ size in
      let hi := um / B ^ size + vm in                    (* the full sum formed by mpn_add *)
      (low + (hi mod B ^ (un - size)) * B ^ size, hi / B ^ (un - size), un)
    else
      (* uuuu
           vvvvv  size = vsize + ediff - usize; MPN_COPY (tp, vp, size);
                  cy = mpn_add (tp + size, up, usize, vp + size, usize - ediff); rsize = vsize + ediff *)
      let size := vn + ediff - un in
      let low := vm mod B ^ size in
      let hi := um + vm / B ^ size in
      (low + (hi mod B ^ un) * B ^ size, hi / B ^ un, vn + ediff)
  else
    (* uuuu
            vv    size = vsize + ediff - usize; MPN_COPY (tp, vp, vsize); MPN_ZERO (tp + vsize, ediff - usize);
                  MPN_COPY (tp + size, up, usize); cy = 0; rsize = size + usize *)
    let size := vn + ediff - un in
    (vm + 0 * B ^ vn + um * B ^ size, 0, size + un).

(* mpf_add after the special cases and the swap: u and v non-zero, of the same sign,
   fexp v <= fexp u.  The result is not normalised: low zero limbs stay, and no high zero limb can
   arise.  rsize is prec + 1 when the sum of a full-width layout carries. *)
Definition mpf_add_ordered (prec : Z) (u v : mpf) : mpf :=
  let ediff := fexp u - fexp v in
  let '(um, un) := top_limbs (fM u) (fn u) prec in          (* if (usize > prec) { up += usize - prec; usize = prec; } *)
  let '(vm, vn) := v_trunc prec ediff (fM v) (fn v) in
  if prec <=? ediff then
    mkf (fneg u) um un (fexp u)                              (* V completely cancelled: rsize = usize *)
  else
    let '(tp, cy, rsize) := add_layout um un vm vn ediff in
    (* MPN_COPY (rp, tp, rsize); rp[rsize] = cy; rsize += cy; uexp += cy *)
    mkf (fneg u) (tp + cy * B ^ rsize) (rsize + cy) (fexp u + cy).

(* mpf/add.c.  Operands of different signs are handed to mpf_sub, which is NOT modelled: the model
   returns the dummy mkf false 0 0 0 there. *)
Definition mpf_add (prec : Z) (u v : mpf) : mpf :=
  if fn u =? 0 then mpf_set prec v
  else if fn v =? 0 then mpf_set prec u
  else if negb (eqb (fneg u) (fneg v)) then mkf false 0 0 0   (* mpf_sub: not modelled *)
  else if fexp u <? fexp v then mpf_add_ordered prec v u
  else mpf_add_ordered prec u v.

(* the hypothesis of the theorems: the two operands do not have opposite signs *)
Definition same_sign (u v : mpf) : Prop := fM u <> 0 -> fM v <> 0 -> fneg u = fneg v.

(* exact rational sum of two values num / den *)
Definition add_num (u v : mpf) : Z := fnum u * fden v + fnum v * fden u.
Definition add_den (u v : mpf) : Z := fden u * fden v.

(* nothing is cut off: both operands have at most prec limbs and, when both are non-zero, all their
   limbs lie in the window of prec limbs below the larger exponent *)
Definition add_window (prec : Z) (u v : mpf) : Prop :=
  fn u <= prec /\ fn v <= prec
  /\ (fM u <> 0 -> fM v <> 0 ->
      Z.max (fexp u) (fexp v) - Z.min (fexp u - fn u) (fexp v - fn v) <= prec).

(* the general form: whatever is cut off is zero.  [low_zero x c]: every limb of x below the
   position c (weight B^c) is zero.  With one operand zero the other is cut to prec + 1 limbs
   (mpf_set); otherwise both are cut at prec limbs below the larger exponent. *)
Definition low_zero (x : mpf) (c : Z) : Prop :=
  c <= fexp x - fn x \/ fM x mod B ^ (c - (fexp x - fn x)) = 0.
Definition add_nothing_lost (prec : Z) (u v : mpf) : Prop :=
  (fM u = 0 -> low_zero v (fexp v - (prec + 1)))
  /\ (fM v = 0 -> low_zero u (fexp u - (prec + 1)))
  /\ (fM u <> 0 -> fM v <> 0 ->
      low_zero u (Z.max (fexp u) (fexp v) - prec) /\ low_zero v (Z.max (fexp u) (fexp v) - prec)).
