(* SetStrCProofs.v -- the as-coded model of mpn/generic/set_str.c (SetStrCDefs.v) returns the limbs of
   horner base digits: basecase, power table, divide-and-conquer recursion, top level.
   Standard library plus this project's lemmas; no axioms (Print Assumptions at the end of the file).

   Main theorems
     bc_set_str_correct       mpn_bc_set_str: normalised limbs of horner base str, size = limb count
     compute_powtab_correct'  mpn_set_str_compute_powtab: every entry j satisfies
                              {p,n} * B^shift = big_base^e_j = base^digits_in_base, e_j = ((un-1) >> (j+1)) + 1
                              (compute_powtab_correct: the same with the low-bit facts of big_base as hypotheses)
     dc_set_str_correct       mpn_dc_set_str with any table satisfying tab_ok
     set_str_pow2_correct     the bit packing of the power of two bases
     set_str_other_correct'   threshold choice basecase / power table + divide and conquer
     mpn_set_str_correct      the top level for every base 2..62 with the regenerated table and thresholds
     bc_set_str_table, dc_set_str_table   the internal routines with the regenerated table entries
     lowbit_exists            (x & -x) - 1 is the mask of the trailing zero bits of a limb x
   Examples ex_hypotheses, ex_run_dc, ex_run_top, ex_run_top_dc: the hypotheses on concrete inputs, evaluated
   with vm_compute. *)
From Coq Require Import ZArith List Lia Bool Znumtheory Zpow_facts.
From Mpir Require Import Word Limbs RadixDefs RadixProofs SetStrCDefs.
From MpirGen Require Import Gen_Consts Gen_Tables.
Import ListNotations.
Local Open Scope Z_scope.

(* ------------------------------------------------------------------ *)
(* powers of the limb base, limb blocks of a value                      *)
(* ------------------------------------------------------------------ *)

Lemma B_pow2 : B = 2 ^ 64.
Proof. rewrite B_val. reflexivity. Qed.

Lemma B_gt_1 : 1 < B.
Proof. rewrite B_val. lia. Qed.

Lemma Bn_0 : Bn 0 = 1.
Proof. reflexivity. Qed.

Lemma Bn_S n : Bn (S n) = B * Bn n.
Proof. unfold Bn. apply Bpow_succ. Qed.

Lemma Bn_pos n : 0 < Bn n.
Proof. unfold Bn. apply Bpow_pos. Qed.

Lemma Bn_add a b : Bn (a + b) = Bn a * Bn b.
Proof. unfold Bn. rewrite Nat2Z.inj_add, Z.pow_add_r by lia. reflexivity. Qed.

Lemma Bn_pow2 n : Bn n = 2 ^ (64 * Z.of_nat n).
Proof. unfold Bn. rewrite B_pow2, <- Z.pow_mul_r by lia. reflexivity. Qed.

Lemma Bn_le a b : (a <= b)%nat -> Bn a <= Bn b.
Proof.
  intros H. unfold Bn. apply Z.pow_le_mono_r; [ pose proof B_pos; lia | lia ].
Qed.

Lemma limbs_of_length n : forall v, length (limbs_of n v) = n.
Proof. induction n as [|k IH]; intros v; cbn [limbs_of length]; [ reflexivity | rewrite IH; reflexivity ]. Qed.

Lemma limbs_of_wf n : forall v, wf (limbs_of n v).
Proof.
  induction n as [|k IH]; intros v; cbn [limbs_of]; [ apply wf_nil | ].
  apply wf_cons; [ apply wrap_limb | apply IH ].
Qed.

Lemma limbs_of_eval n : forall v, eval (limbs_of n v) = v mod Bn n.
Proof.
  induction n as [|k IH]; intros v; cbn [limbs_of eval].
  - rewrite Bn_0, Z.mod_1_r. reflexivity.
  - rewrite IH, Bn_S. pose proof B_pos as HB. pose proof (Bn_pos k) as Hk.
    rewrite Z.rem_mul_r by lia. reflexivity.
Qed.

Lemma limbs_of_small n v : 0 <= v < Bn n -> eval (limbs_of n v) = v.
Proof. intros H. rewrite limbs_of_eval. apply Z.mod_small. exact H. Qed.

Lemma eval_lt l : wf l -> 0 <= eval l < Bn (length l).
Proof. apply eval_bounds. Qed.

Lemma len_nonneg l : 0 <= len l.
Proof. unfold len. lia. Qed.

(* ------------------------------------------------------------------ *)
(* normalised blocks and the limb count                                 *)
(* ------------------------------------------------------------------ *)

(* {p, n} with a non-zero top limb (n = 0 allowed): stated on the value *)
Definition normal (l : list Z) : Prop := wf l /\ (l <> [] -> Bn (length l - 1) <= eval l).

Lemma normal_nil : normal [].
Proof. split; [ apply wf_nil | intros H; congruence ]. Qed.

Lemma nlimbs_range v k : Bn k <= v < Bn (S k) -> nlimbs v = Z.of_nat k + 1.
Proof.
  intros [Hlo Hhi]. pose proof (Bn_pos k) as Hk. unfold nlimbs.
  destruct (Z.leb_spec v 0) as [H0|H0]; [ lia | ].
  rewrite Bn_pow2 in Hlo, Hhi.
  apply Z.log2_le_pow2 in Hlo; [ | lia ]. apply Z.log2_lt_pow2 in Hhi; [ | lia ].
  rewrite Nat2Z.inj_succ in Hhi.
  f_equal. symmetry. apply Z.div_unique with (r := Z.log2 v - 64 * Z.of_nat k); lia.
Qed.

Lemma nlimbs_0 : nlimbs 0 = 0.
Proof. reflexivity. Qed.

Lemma normal_len l : normal l -> len l = nlimbs (eval l).
Proof.
  intros [Hwf Hn]. destruct l as [|x r].
  - reflexivity.
  - assert (Hne : x :: r <> []) by congruence. specialize (Hn Hne).
    pose proof (eval_lt _ Hwf) as Hb. cbn [length] in *.
    replace (S (length r) - 1)%nat with (length r) in Hn by lia.
    rewrite (nlimbs_range _ (length r)) by lia. unfold len. cbn [length]. lia.
Qed.

(* the top limb of a block is non-zero exactly when the value reaches B^(n-1) *)
Lemma top_limb l n : wf l -> length l = S n ->
  (nthl l (Z.of_nat n) =? 0) = (eval l <? Bn n).
Proof.
  intros Hwf Hl. unfold nthl. rewrite Nat2Z.id.
  rewrite <- (firstn_skipn n l) in Hwf |- * at 1.
  assert (Hf : length (firstn n l) = n) by (rewrite firstn_length; lia).
  assert (Hs : length (skipn n l) = 1%nat) by (rewrite skipn_length; lia).
  destruct (skipn n l) as [|t [|? ?]] eqn:Es; try discriminate.
  rewrite app_nth2 by lia. rewrite Hf, Nat.sub_diag. cbn [nth].
  rewrite (eval_firstn_skipn l n), Es, Hf. cbn [eval].
  apply wf_app_inv in Hwf. destruct Hwf as [Hw1 Hw2]. apply wf_inv in Hw2. destruct Hw2 as [Ht _].
  pose proof (eval_lt _ Hw1) as Hb. rewrite Hf in Hb. fold (Bn n). unfold limb in Ht.
  destruct (Z.eqb_spec t 0) as [E|E]; destruct (Z.ltb_spec (eval (firstn n l) + Bn n * (t + B * 0)) (Bn n)) as [L|L];
    try reflexivity; exfalso; nia.
Qed.

(* ------------------------------------------------------------------ *)
(* mpn_bc_set_str                                                       *)
(* ------------------------------------------------------------------ *)

(* the shared tail of both loops: rp <- rp * big_base + res_digit, size adjusted *)
Lemma bc_accum_spec rp bb d : normal rp -> 1 <= bb < B -> 0 <= d < B ->
  normal (bc_accum rp bb d) /\ eval (bc_accum rp bb d) = eval rp * bb + d.
Proof.
  intros [Hwf Hn] Hbb Hd. destruct rp as [|x r].
  - cbn [bc_accum eval]. destruct (Z.eqb_spec d 0) as [E|E].
    + split; [ apply normal_nil | cbn [eval]; lia ].
    + split; [ | cbn [eval]; lia ]. split.
      * apply wf_cons; [ exact Hd | apply wf_nil ].
      * intros _. cbn [length eval Nat.sub]. rewrite Bn_0. lia.
  - assert (Hne : x :: r <> []) by congruence. specialize (Hn Hne).
    set (rp := x :: r) in *. set (n := length rp).
    assert (Hn1 : (n - 1 + 1 = n)%nat) by (unfold n, rp; cbn [length]; lia).
    pose proof (eval_lt _ Hwf) as Hb. fold n in Hb, Hn.
    pose proof (Bn_pos n) as HBn. pose proof (Bn_pos (n - 1)) as HBn1.
    unfold bc_accum, rp. fold rp.
    unfold mpn_mul_1, mpn_add_1. rewrite limbs_of_length. fold n.
    rewrite limbs_of_eval.
    set (X := eval rp * bb).
    assert (HX : 0 <= X) by (unfold X; nia).
    pose proof (Z.div_mod X (Bn n) ltac:(lia)) as HdmX.
    pose proof (Z.mod_pos_bound X (Bn n) HBn) as HmX.
    set (Y := X mod Bn n + d) in *.
    pose proof (Z.div_mod Y (Bn n) ltac:(lia)) as HdmY.
    pose proof (Z.mod_pos_bound Y (Bn n) HBn) as HmY.
    assert (Hc1 : 0 <= X / Bn n) by (apply Z.div_pos; lia).
    assert (Hc2 : 0 <= Y / Bn n) by (apply Z.div_pos; lia).
    assert (Htot : Y mod Bn n + (X / Bn n + Y / Bn n) * Bn n = X + d) by (unfold Y in *; lia).
    assert (Hcy : X / Bn n + Y / Bn n < B).
    { assert (X + d < B * Bn n) by (unfold X; nia). nia. }
    rewrite (wrap_small (X / Bn n + Y / Bn n)) by lia.
    assert (Hwf2 : wf (limbs_of n Y)) by apply limbs_of_wf.
    assert (Hev2 : eval (limbs_of n Y) = Y mod Bn n) by apply limbs_of_eval.
    destruct (Z.eqb_spec (X / Bn n + Y / Bn n) 0) as [E|E].
    + split; [ split; [ exact Hwf2 | ] | ].
      * intros _. rewrite limbs_of_length, Hev2. fold X. nia.
      * rewrite Hev2. fold X. lia.
    + split; [ split | ].
      * apply wf_app; [ exact Hwf2 | ]. apply wf_cons; [ unfold limb; lia | apply wf_nil ].
      * intros _. rewrite app_length, limbs_of_length. cbn [length].
        replace (n + 1 - 1)%nat with n by lia.
        rewrite eval_app, limbs_of_length, Hev2. cbn [eval]. fold (Bn n). nia.
      * rewrite eval_app, limbs_of_length, Hev2. cbn [eval]. fold (Bn n). fold X. nia.
Qed.

Section BC.
Variables base cpl bigb : Z.
Hypothesis Hbase : 2 <= base.
Hypothesis Hcpl : 1 <= cpl.
Hypothesis Hbigb : bigb = base ^ cpl.
Hypothesis HbigbB : bigb < B.
Hypothesis H10 : base = 10 -> cpl = MP_BASES_CHARS_PER_LIMB_10.

Lemma pow_base_pos k : 0 <= k -> 0 < base ^ k.
Proof. intros Hk. apply Z.pow_pos_nonneg; lia. Qed.

Lemma pow_base_le a b : 0 <= a <= b -> base ^ a <= base ^ b.
Proof. intros H. apply Z.pow_le_mono_r; lia. Qed.

Lemma gather_spec : forall cnt res str,
  (cnt <= length str)%nat -> Forall (dig base) str -> 0 <= res ->
  (res + 1) * base ^ Z.of_nat cnt <= B ->
  gather cnt base res str = (res * base ^ Z.of_nat cnt + horner base (firstn cnt str), skipn cnt str).
Proof.
  induction cnt as [|k IH]; intros res str Hlen Hdig Hres Hfit.
  - cbn [gather firstn skipn]. rewrite horner_nil. cbn [Z.of_nat]. rewrite Z.pow_0_r. f_equal. lia.
  - destruct str as [|d s]; [ cbn [length] in Hlen; lia | ].
    cbn [length] in Hlen. apply Forall_cons_iff in Hdig. destruct Hdig as [Hd Hs]. unfold dig in Hd.
    cbn [gather hd0 tl0 firstn skipn].
    rewrite Nat2Z.inj_succ, Z.pow_succ_r in Hfit |- * by lia.
    pose proof (pow_base_pos (Z.of_nat k) ltac:(lia)) as HP.
    set (P := base ^ Z.of_nat k) in *.
    assert (Hnw : 0 <= res * base + d < B) by nia.
    rewrite wrap_small by exact Hnw.
    rewrite IH; [ | lia | exact Hs | lia | nia ].
    rewrite horner_cons, firstn_length_le by lia. fold P. f_equal. ring.
Qed.

Lemma gather_last_spec : forall cnt res bb str,
  length str = cnt -> Forall (dig base) str -> 0 <= res < bb ->
  bb * base ^ Z.of_nat cnt < B ->
  gather_last cnt base res bb str = (res * base ^ Z.of_nat cnt + horner base str, bb * base ^ Z.of_nat cnt).
Proof.
  induction cnt as [|k IH]; intros res bb str Hlen Hdig Hres Hfit.
  - destruct str; [ | discriminate ]. cbn [gather_last]. rewrite horner_nil. cbn [Z.of_nat].
    rewrite Z.pow_0_r. f_equal; lia.
  - destruct str as [|d s]; [ discriminate | ]. cbn [length] in Hlen.
    apply Forall_cons_iff in Hdig. destruct Hdig as [Hd Hs]. unfold dig in Hd.
    cbn [gather_last hd0 tl0].
    rewrite Nat2Z.inj_succ, Z.pow_succ_r in Hfit |- * by lia.
    pose proof (pow_base_pos (Z.of_nat k) ltac:(lia)) as HP.
    set (P := base ^ Z.of_nat k) in *.
    assert (Hnw : 0 <= res * base + d < bb * base) by nia.
    assert (Hbb : bb * base < B) by nia.
    rewrite !wrap_small by nia.
    rewrite IH; [ | lia | exact Hs | lia | nia ].
    rewrite horner_cons. replace (length s) with k by lia. fold P. f_equal; ring.
Qed.

(* one full chunk of chars_per_limb digits (both copies of the inner loop) *)
Lemma chunk_spec str : cpl <= len str -> Forall (dig base) str ->
  (if base =? 10
   then gather (Z.to_nat (MP_BASES_CHARS_PER_LIMB_10 - 1)) 10 (hd0 str) (tl0 str)
   else gather (Z.to_nat (cpl - 1)) base (hd0 str) (tl0 str))
  = (horner base (firstn (Z.to_nat cpl) str), skipn (Z.to_nat cpl) str).
Proof.
  intros Hlen Hdig.
  assert (E : (if base =? 10
   then gather (Z.to_nat (MP_BASES_CHARS_PER_LIMB_10 - 1)) 10 (hd0 str) (tl0 str)
   else gather (Z.to_nat (cpl - 1)) base (hd0 str) (tl0 str))
   = gather (Z.to_nat (cpl - 1)) base (hd0 str) (tl0 str)).
  { destruct (Z.eqb_spec base 10) as [E10|E10]; [ | reflexivity ].
    rewrite (H10 E10), E10. reflexivity. }
  rewrite E. unfold len in Hlen.
  destruct str as [|d s]; [ cbn [length] in Hlen; lia | ].
  cbn [length] in Hlen. apply Forall_cons_iff in Hdig. destruct Hdig as [Hd Hs]. unfold dig in Hd.
  cbn [hd0 tl0].
  replace (Z.to_nat cpl) with (S (Z.to_nat (cpl - 1))) by lia.
  cbn [firstn skipn].
  pose proof (pow_base_pos (cpl - 1) ltac:(lia)) as HP.
  assert (Hpw : base ^ cpl = base * base ^ (cpl - 1)).
  { replace cpl with (Z.succ (cpl - 1)) at 1 by lia. rewrite Z.pow_succ_r by lia. reflexivity. }
  rewrite gather_spec; [ | lia | exact Hs | lia | rewrite Z2Nat.id by lia; nia ].
  rewrite horner_cons, firstn_length_le by lia. rewrite Z2Nat.id by lia. reflexivity.
Qed.

Lemma pow_len_split (s : list Z) k : (k <= length s)%nat ->
  base ^ len s = base ^ Z.of_nat k * base ^ len (skipn k s).
Proof.
  intros Hk. unfold len. rewrite skipn_length, <- Z.pow_add_r by lia. f_equal. lia.
Qed.

Lemma horner_split (s : list Z) k :
  horner base s = horner base (firstn k s) * base ^ len (skipn k s) + horner base (skipn k s).
Proof. rewrite <- (firstn_skipn k s) at 1. apply horner_app. Qed.

Lemma bc_loop_spec total : forall fuel str rp,
  normal rp -> Forall (dig base) str -> (1 <= length str)%nat -> (length str < fuel)%nat ->
  exists r rp',
    bc_loop fuel base cpl bigb total (total - len str + cpl) str rp = Some (total - len r + cpl, r, rp')
    /\ normal rp' /\ (1 <= length r)%nat /\ len r <= cpl /\ Forall (dig base) r
    /\ eval rp' * base ^ len r + horner base r = eval rp * base ^ len str + horner base str.
Proof.
  induction fuel as [|f IH]; intros str rp Hrp Hdig Hlen Hfuel; [ lia | ].
  cbn [bc_loop]. destruct (Z.ltb_spec (total - len str + cpl) total) as [Hlt|Hge].
  - assert (Hl : cpl < len str) by lia.
    rewrite chunk_spec by (try lia; exact Hdig).
    set (k := Z.to_nat cpl). set (c := horner base (firstn k str)). set (s := skipn k str).
    assert (Hk : (k <= length str)%nat) by (unfold k, len in *; lia).
    assert (Hfl : length (firstn k str) = k) by (apply firstn_length_le; exact Hk).
    assert (Hsl : length s = (length str - k)%nat) by (unfold s; apply skipn_length).
    assert (Hfd : Forall (dig base) (firstn k str)).
    { rewrite <- (firstn_skipn k str) in Hdig. apply Forall_app in Hdig. tauto. }
    assert (Hsd : Forall (dig base) s).
    { rewrite <- (firstn_skipn k str) in Hdig. apply Forall_app in Hdig. tauto. }
    pose proof (horner_bounds base _ Hbase Hfd) as Hc. rewrite Hfl in Hc. fold c in Hc.
    assert (Hkz : Z.of_nat k = cpl) by (unfold k; lia). rewrite Hkz, <- Hbigb in Hc.
    destruct (bc_accum_spec rp bigb c Hrp ltac:(lia) ltac:(lia)) as [Hn1 He1].
    assert (Hsl1 : (1 <= length s)%nat) by (unfold len in Hl; lia).
    destruct (IH s (bc_accum rp bigb c) Hn1 Hsd Hsl1 ltac:(lia)) as (r & rp' & Hrun & Hn' & Hr1 & Hr2 & Hrd & Hval).
    exists r, rp'.
    replace (total - len str + cpl + cpl) with (total - len s + cpl) by (unfold len; lia).
    split; [ exact Hrun | ]. repeat (split; [ assumption | ]).
    rewrite Hval, He1. rewrite (pow_len_split str k Hk), (horner_split str k).
    fold s. fold c. rewrite Hkz, <- Hbigb. ring.
  - exists str, rp. split; [ reflexivity | ]. split; [ exact Hrp | ].
    split; [ exact Hlen | ]. split; [ lia | ]. split; [ exact Hdig | reflexivity ].
Qed.

(* MAIN THEOREM (basecase): for every digit string of length >= 1 the basecase returns a normalised limb
   block (non-zero top limb; the empty block for an all-zero string) whose value is horner base str;
   the returned size `len l` is the limb count of that value. *)
Theorem bc_set_str_correct str :
  str <> [] -> Forall (dig base) str ->
  exists l, mpn_bc_set_str str base cpl bigb = Some l
            /\ normal l /\ eval l = horner base str /\ len l = nlimbs (horner base str).
Proof.
  intros Hne Hdig. unfold mpn_bc_set_str.
  destruct (Z.ltb_spec cpl 1) as [H|_]; [ lia | ].
  assert (Hlen : (1 <= length str)%nat) by (destruct str; [ congruence | cbn [length]; lia ]).
  destruct (bc_loop_spec (len str) (S (length str)) str [] normal_nil Hdig Hlen ltac:(lia))
    as (r & rp & Hrun & Hn & Hr1 & Hr2 & Hrd & Hval).
  replace (len str - len str + cpl) with cpl in Hrun by lia.
  rewrite Hrun.
  set (i := len str - len r + cpl).
  assert (Hj10 : len str - (i - MP_BASES_CHARS_PER_LIMB_10) - 1 = len r - 1 \/ base <> 10).
  { destruct (Z.eq_dec base 10) as [E|E]; [ left; rewrite <- (H10 E); unfold i; lia | right; exact E ]. }
  assert (Hj : len str - (i - cpl) - 1 = len r - 1) by (unfold i; lia).
  assert (E : (if base =? 10
     then gather_last (Z.to_nat (len str - (i - MP_BASES_CHARS_PER_LIMB_10) - 1)) 10 (hd0 r) base (tl0 r)
     else gather_last (Z.to_nat (len str - (i - cpl) - 1)) base (hd0 r) base (tl0 r))
     = gather_last (Z.to_nat (len r - 1)) base (hd0 r) base (tl0 r)).
  { destruct (Z.eqb_spec base 10) as [E10|E10].
    - destruct Hj10 as [Hj10|Hj10]; [ | congruence ]. rewrite Hj10. rewrite E10. reflexivity.
    - rewrite Hj. reflexivity. }
  rewrite E. clear E Hj Hj10.
  destruct r as [|d s]; [ cbn [length] in Hr1; lia | ].
  apply Forall_cons_iff in Hrd. destruct Hrd as [Hd Hs]. unfold dig in Hd.
  cbn [hd0 tl0]. unfold len in Hr2 |- *. cbn [length] in Hr2 |- *.
  replace (Z.to_nat (Z.of_nat (S (length s)) - 1)) with (length s) by lia.
  assert (Hpw : base * base ^ Z.of_nat (length s) = base ^ Z.of_nat (S (length s))).
  { rewrite Nat2Z.inj_succ, Z.pow_succ_r by lia. reflexivity. }
  assert (Hle : base ^ Z.of_nat (S (length s)) <= bigb).
  { rewrite Hbigb. apply pow_base_le. lia. }
  rewrite gather_last_spec; [ | reflexivity | exact Hs | lia | lia ].
  rewrite <- horner_cons, Hpw.
  assert (Hds : Forall (dig base) (d :: s)) by (constructor; assumption).
  pose proof (horner_bounds base _ Hbase Hds) as Hh. cbn [length] in Hh.
  pose proof (pow_base_pos (Z.of_nat (S (length s))) ltac:(lia)) as Hpp.
  destruct (bc_accum_spec rp (base ^ Z.of_nat (S (length s))) (horner base (d :: s)) Hn ltac:(lia) ltac:(lia))
    as [Hn2 He2].
  eexists. split; [ reflexivity | ]. split; [ exact Hn2 | ].
  assert (Hev : eval (bc_accum rp (base ^ Z.of_nat (S (length s))) (horner base (d :: s))) = horner base str).
  { rewrite He2. unfold len in Hval. cbn [length] in Hval. rewrite Hval. cbn [eval]. lia. }
  split; [ exact Hev | ]. rewrite <- Hev. apply normal_len. exact Hn2.
Qed.

End BC.

(* ------------------------------------------------------------------ *)
(* mpn_set_str_compute_powtab                                           *)
(* ------------------------------------------------------------------ *)

(* n = k + (t[k] != 0) on a block of k + 1 limbs whose value reaches B^(k-1): the normalised block *)
Lemma trim_top t k : wf t -> length t = S k -> Bn (k - 1) <= eval t -> 0 < eval t ->
  let n' := Z.of_nat k + b2z (negb (nthl t (Z.of_nat k) =? 0)) in
  let l := firstn (Z.to_nat n') t in
  normal l /\ eval l = eval t /\ l <> [] /\ len l = n'.
Proof.
  intros Hwf Hlen Hlo Hpos. cbv zeta. rewrite (top_limb t k Hwf Hlen).
  destruct (Z.ltb_spec (eval t) (Bn k)) as [Hlt|Hge]; cbn [negb b2z].
  - replace (Z.to_nat (Z.of_nat k + 0)) with k by lia.
    assert (Hk : k <> 0%nat).
    { intros E. rewrite E, Bn_0 in Hlt. lia. }
    assert (Hf : length (firstn k t) = k) by (rewrite firstn_length; lia).
    assert (He : eval (firstn k t) = eval t).
    { pose proof (eval_firstn_skipn t k) as H. rewrite Hf in H. fold (Bn k) in H.
      pose proof (eval_lt _ (wf_firstn t k Hwf)) as H1. pose proof (eval_lt _ (wf_skipn t k Hwf)) as H2.
      pose proof (Bn_pos k) as HBk.
      assert (Hs0 : eval (skipn k t) = 0).
      { destruct (Z.eq_dec (eval (skipn k t)) 0) as [E0|E0]; [ exact E0 | exfalso ].
        assert (Bn k * 1 <= Bn k * eval (skipn k t)) by (apply Z.mul_le_mono_nonneg_l; lia). lia. }
      rewrite Hs0 in H. lia. }
    split; [ split; [ apply wf_firstn; exact Hwf | intros _; rewrite Hf, He; exact Hlo ] | ].
    split; [ exact He | ]. split.
    + intros E. rewrite E in Hf. cbn [length] in Hf. lia.
    + unfold len. rewrite Hf. lia.
  - replace (Z.to_nat (Z.of_nat k + 1)) with (S k) by lia. rewrite <- Hlen, firstn_all.
    split; [ split; [ exact Hwf | intros _; rewrite Hlen; replace (S k - 1)%nat with k by lia; exact Hge ] | ].
    split; [ reflexivity | ]. split.
    + intros E. rewrite E in Hlen. discriminate.
    + unfold len. rewrite Hlen. lia.
Qed.

Lemma land_2 x : Z.land x 2 = if Z.testbit x 1 then 2 else 0.
Proof.
  apply Z.bits_inj'. intros j Hj. rewrite Z.land_spec.
  destruct (Z.eq_dec j 1) as [E|E].
  - subst j. change (Z.testbit 2 1) with true. rewrite andb_true_r.
    destruct (Z.testbit x 1); reflexivity.
  - assert (H2 : Z.testbit 2 j = false).
    { change 2 with (2 ^ 1). apply Z.pow2_bits_false. lia. }
    rewrite H2, andb_false_r. destruct (Z.testbit x 1); [ symmetry; exact H2 | symmetry; apply Z.bits_0 ].
Qed.

(* the test of line 176 reads bit pi + 1 of un - 1 *)
Lemma bit_test m pi : 0 <= pi ->
  (Z.land (Z.shiftr m pi) 2 =? 0) = negb (Z.odd (Z.shiftr m (pi + 1))).
Proof.
  intros Hpi. rewrite land_2.
  replace (Z.testbit (Z.shiftr m pi) 1) with (Z.odd (Z.shiftr m (pi + 1))).
  - destruct (Z.odd (Z.shiftr m (pi + 1))); reflexivity.
  - rewrite <- Z.bit0_odd, <- Z.shiftr_shiftr by lia. rewrite Z.shiftr_spec by lia. reflexivity.
Qed.

Lemma shiftr_step y : 0 <= y -> y = 2 * Z.shiftr y 1 + (if Z.odd y then 1 else 0).
Proof.
  intros Hy. rewrite <- Z.div2_spec. pose proof (Z.div2_odd y) as H. unfold Z.b2z in H. exact H.
Qed.

Section PT.
Variables base cpl bigb c o : Z.
Hypothesis Hbase : 2 <= base.
Hypothesis Hcpl : 1 <= cpl.
Hypothesis Hbigb : bigb = base ^ cpl.
Hypothesis HbigbB : bigb < B.
(* big_base = 2^c * o with o odd, and (big_base & -big_base) - 1 is the mask of the c low bits *)
Hypothesis Hc : 0 <= c.
Hypothesis Hco : bigb = 2 ^ c * o.
Hypothesis Hodd : Z.odd o = true.
Hypothesis Hmask : Z.land bigb (wrap (- bigb)) - 1 = Z.ones c.

Lemma bigb_ge2 : 2 <= bigb.
Proof.
  rewrite Hbigb.
  assert (H : base ^ 1 <= base ^ cpl) by (apply Z.pow_le_mono_r; lia). rewrite Z.pow_1_r in H. lia.
Qed.

Lemma o_pos : 0 < o.
Proof.
  pose proof bigb_ge2 as H. rewrite Hco in H.
  assert (0 < 2 ^ c) by (apply Z.pow_pos_nonneg; lia). nia.
Qed.

Lemma rel_prime_o_pow2 k : 0 <= k -> rel_prime o (2 ^ k).
Proof.
  intros Hk. apply Zpow_facts.rel_prime_Zpower_r; [ exact Hk | ].
  apply bezout_rel_prime. pose proof (Z.div2_odd o) as H. rewrite Hodd in H. cbn [Z.b2z] in H.
  apply Bezout_intro with (u := 1) (v := - Z.div2 o). lia.
Qed.

Lemma c_lt_64 : c < 64.
Proof.
  pose proof o_pos as Ho. rewrite B_pow2 in HbigbB.
  assert (H2c : 0 < 2 ^ c) by (apply Z.pow_pos_nonneg; lia).
  assert (Hlt : 2 ^ c < 2 ^ 64) by nia.
  apply Z.pow_lt_mono_r_iff in Hlt; lia.
Qed.

(* stripping a zero low limb keeps divisibility by big_base when the next limb has c low zero bits *)
Lemma div_strip R : (bigb | B * R) -> R mod 2 ^ c = 0 -> (bigb | R).
Proof.
  intros Hdiv Hmod.
  assert (H2c : 0 < 2 ^ c) by (apply Z.pow_pos_nonneg; lia).
  assert (HR : R = 2 ^ c * (R / 2 ^ c)).
  { pose proof (Z.div_mod R (2 ^ c) ltac:(lia)). lia. }
  assert (Ho1 : (o | B * R)).
  { apply Z.divide_trans with bigb; [ | exact Hdiv ]. exists (2 ^ c). rewrite Hco. ring. }
  assert (Ho2 : (o | R)).
  { apply Gauss with B; [ exact Ho1 | ]. rewrite B_pow2. apply rel_prime_o_pow2. lia. }
  assert (Ho3 : (o | R / 2 ^ c)).
  { apply Gauss with (2 ^ c); [ rewrite <- HR; exact Ho2 | apply rel_prime_o_pow2; exact Hc ]. }
  destruct Ho3 as [q Hq]. exists q. rewrite HR, Hq, Hco. ring.
Qed.

Lemma strip_low_spec : forall t n shift,
  normal t -> t <> [] -> n = len t -> 0 <= shift -> (bigb | eval t) ->
  exists t' shift', strip_low t n shift (Z.ones c) = Some (t', len t', shift')
    /\ normal t' /\ t' <> [] /\ (bigb | eval t') /\ shift <= shift'
    /\ eval t' * B ^ shift' = eval t * B ^ shift.
Proof.
  induction t as [|t0 rest IH]; intros n shift Hn Hne Hlen Hsh Hdiv; [ congruence | ].
  cbn [strip_low]. destruct (Z.eqb_spec t0 0) as [E0|E0].
  - subst t0. destruct rest as [|t1 r2].
    + exfalso. destruct Hn as [_ Hn]. specialize (Hn Hne). cbn [length eval Nat.sub] in Hn. rewrite Bn_0 in Hn. lia.
    + assert (Hnr : normal (t1 :: r2)).
      { destruct Hn as [Hwf Hn]. specialize (Hn Hne). apply wf_inv in Hwf. destruct Hwf as [_ Hwf].
        split; [ exact Hwf | ]. intros _. cbn [length eval Nat.sub] in Hn |- *.
        replace (S (length r2) - 0)%nat with (S (length r2)) in Hn by lia.
        replace (length r2 - 0)%nat with (length r2) by lia.
        rewrite Bn_S in Hn. cbn [eval] in Hn. pose proof B_pos. nia. }
      destruct (Z.eqb_spec (Z.land t1 (Z.ones c)) 0) as [E1|E1].
      * assert (Hdr : (bigb | eval (t1 :: r2))).
        { apply div_strip.
          - cbn [eval] in Hdiv |- *. replace (B * (t1 + B * eval r2)) with (0 + B * (t1 + B * eval r2)) by lia. exact Hdiv.
          - rewrite Z.land_ones in E1 by exact Hc. cbn [eval].
            assert (H2c : 0 < 2 ^ c) by (apply Z.pow_pos_nonneg; lia).
            assert (HB : B = 2 ^ c * 2 ^ (64 - c)).
            { rewrite B_pow2, <- Z.pow_add_r by (pose proof c_lt_64; lia). f_equal. lia. }
            rewrite HB. replace (t1 + 2 ^ c * 2 ^ (64 - c) * eval r2) with (t1 + (2 ^ (64 - c) * eval r2) * 2 ^ c) by ring.
            rewrite Z.mod_add by lia. exact E1. }
        destruct (IH (n - 1) (shift + 1) Hnr ltac:(congruence) ltac:(unfold len in *; cbn [length] in *; lia) ltac:(lia) Hdr)
          as (t' & shift' & Hrun & Hn' & Hne' & Hd' & Hs' & Hv').
        exists t', shift'. split; [ exact Hrun | ]. repeat (split; [ first [ assumption | lia ] | ]).
        rewrite Hv'. rewrite Z.pow_add_r by lia. cbn [eval]. rewrite Z.pow_1_r. ring.
      * exists (0 :: t1 :: r2), shift. rewrite Hlen. split; [ reflexivity | ].
        repeat (split; [ first [ assumption | lia ] | ]). reflexivity.
  - exists (t0 :: rest), shift. rewrite Hlen. split; [ reflexivity | ].
    repeat (split; [ first [ assumption | lia ] | ]). reflexivity.
Qed.

(* one table entry: a normalised non-empty block with  {p,n} * B^shift = base^digits_in_base *)
Definition entry_ok (e : powers) : Prop :=
  normal (pw_p e) /\ pw_p e <> [] /\ pw_n e = len (pw_p e) /\ 0 <= pw_shift e
  /\ 1 <= pw_digits_in_base e /\ pw_base e = base
  /\ eval (pw_p e) * B ^ pw_shift e = base ^ pw_digits_in_base e.

(* the table powtab[pi], ..., powtab[i]: each entry has at most twice the digits of the next one, the
   last one has chars_per_limb digits *)
Fixpoint tab_ok (tab : list powers) : Prop :=
  match tab with
  | [] => False
  | e :: rest =>
      entry_ok e /\
      match rest with
      | [] => pw_digits_in_base e = cpl
      | e' :: _ => pw_digits_in_base e <= 2 * pw_digits_in_base e' /\ tab_ok rest
      end
  end.

Lemma tab_ok_nth : forall tab j e, tab_ok tab -> nth_error tab j = Some e -> entry_ok e.
Proof.
  induction tab as [|e0 rest IH]; intros j e Htab Hje; [ destruct j; discriminate Hje | ].
  cbn [tab_ok] in Htab. destruct Htab as [He0 Hrest]. destruct j as [|j']; cbn [nth_error] in Hje.
  - injection Hje as <-. exact He0.
  - destruct rest as [|e1 r1]; [ destruct j'; discriminate Hje | ].
    destruct Hrest as [_ Hrest]. exact (IH j' e Hrest Hje).
Qed.

Section Loop.
Variable un : Z.
Let m := un - 1.
Hypothesis Hm : 1 <= m.
Variable i : Z.
Hypothesis Hi : i <= 31.

Definition ex (k : nat) : Z := Z.shiftr m (Z.of_nat k + 1) + 1.

Lemma ex_ge1 k : 1 <= ex k.
Proof. unfold ex. assert (0 <= Z.shiftr m (Z.of_nat k + 1)) by (apply Z.shiftr_nonneg; lia). lia. Qed.

Lemma ex_step k : ex k = 2 * ex (S k) - (if Z.odd (Z.shiftr m (Z.of_nat k + 1)) then 0 else 1).
Proof.
  unfold ex. rewrite Nat2Z.inj_succ.
  replace (Z.succ (Z.of_nat k) + 1) with (Z.of_nat k + 1 + 1) by lia.
  rewrite <- (Z.shiftr_shiftr m (Z.of_nat k + 1) 1) by lia.
  assert (H0 : 0 <= Z.shiftr m (Z.of_nat k + 1)) by (apply Z.shiftr_nonneg; lia).
  pose proof (shiftr_step _ H0) as H.
  destruct (Z.odd (Z.shiftr m (Z.of_nat k + 1))); lia.
Qed.

Lemma ex_bound k : 4 * ex (S k) <= m + 4.
Proof.
  unfold ex. rewrite Z.shiftr_div_pow2 by lia.
  assert (H4 : 2 ^ 2 <= 2 ^ (Z.of_nat (S k) + 1)) by (apply Z.pow_le_mono_r; lia).
  change (2 ^ 2) with 4 in H4.
  assert (m / 2 ^ (Z.of_nat (S k) + 1) <= m / 4) by (apply Z.div_le_compat_l; lia).
  pose proof (Z.div_mod m 4 ltac:(lia)). pose proof (Z.mod_pos_bound m 4 ltac:(lia)). lia.
Qed.

(* the loop state before the iteration pi = k - 1 *)
Definition st_ok (k : nat) (p : list Z) (n dib shift memptr : Z) : Prop :=
  normal p /\ p <> [] /\ n = len p /\ 0 <= shift /\ dib = cpl * ex k
  /\ eval p * B ^ shift = bigb ^ ex k /\ (bigb | eval p)
  /\ memptr <= 2 * ex k + 2 * (i - Z.of_nat k) - 1.

Lemma st_entry k p n dib shift memptr : st_ok k p n dib shift memptr ->
  entry_ok (mkpow p n dib base shift).
Proof.
  intros (Hn & Hne & Hlen & Hsh & Hdib & Hval & _ & _). pose proof (ex_ge1 k) as He.
  unfold entry_ok. cbn [pw_p pw_n pw_shift pw_digits_in_base pw_base].
  repeat (split; [ first [ assumption | reflexivity | nia ] | ]).
  rewrite Hval, Hdib, Hbigb, <- Z.pow_mul_r by lia. reflexivity.
Qed.

Lemma powtab_loop_spec : forall k p n dib shift memptr rest,
  Z.of_nat k <= i ->
  st_ok k p n dib shift memptr -> tab_ok (mkpow p n dib base shift :: rest) ->
  (forall j e, nth_error (mkpow p n dib base shift :: rest) j = Some e -> pw_digits_in_base e = cpl * ex (k + j)) ->
  exists tab', powtab_loop k un base cpl bigb p n dib shift memptr (mkpow p n dib base shift :: rest) = Some tab'
    /\ tab_ok tab' /\ length tab' = (length rest + 1 + k)%nat
    /\ pw_digits_in_base (hd (mkpow p n dib base shift) tab') = cpl * ex 0
    /\ (forall j e, nth_error tab' j = Some e -> pw_digits_in_base e = cpl * ex j).
Proof.
  induction k as [|k IH]; intros p n dib shift memptr rest Hki Hst Htab Hidx.
  - exists (mkpow p n dib base shift :: rest). split; [ reflexivity | ]. split; [ exact Htab | ].
    split; [ cbn [length]; lia | ]. split; [ | exact Hidx ].
    cbn [hd pw_digits_in_base]. destruct Hst as (_ & _ & _ & _ & Hd & _). exact Hd.
  - pose proof Hst as (Hn & Hne & Hlen & Hsh & Hdib & Hval & Hdiv & Hmem).
    cbn [powtab_loop]. unfold mpn_dc_set_str_powtab_alloc.
    pose proof (ex_ge1 (S k)) as He1. pose proof (ex_bound k) as Heb. pose proof (ex_step k) as Hes.
    set (e := ex (S k)) in *.
    set (P := eval p) in *.
    destruct Hn as [Hwf Hnn]. specialize (Hnn Hne).
    pose proof (eval_lt _ Hwf) as HPb. fold P in HPb, Hnn.
    set (np := length p) in *.
    assert (Hnp : (1 <= np)%nat) by (unfold np; destruct p; [ congruence | cbn [length]; lia ]).
    assert (Hnz : n = Z.of_nat np) by (rewrite Hlen; reflexivity).
    pose proof (Bn_pos (np - 1)) as HB1. pose proof (Bn_pos np) as HB2. pose proof B_gt_1 as HBgt.
    pose proof bigb_ge2 as Hbb2.
    assert (HPpos : 0 < P) by lia.
    (* n <= e *)
    assert (Hne_le : n <= e).
    { assert (HBs : 0 < B ^ shift) by (apply Z.pow_pos_nonneg; lia).
      assert (Hlt : bigb ^ e < B ^ e) by (apply Z.pow_lt_mono_l; lia).
      assert (Hge : B ^ Z.of_nat (np - 1) <= bigb ^ e).
      { rewrite <- Hval. fold (Bn (np - 1)). nia. }
      assert (Hpl : B ^ Z.of_nat (np - 1) < B ^ e) by lia.
      apply Z.pow_lt_mono_r_iff in Hpl; lia. }
    destruct (Z.ltb_spec (memptr + 2 * n) (un + 64)) as [Hmp|Hmp]; [ | exfalso; unfold m in *; lia ].
    cbn [negb].
    (* the square *)
    unfold mpn_sqr. fold np. fold P.
    set (t := limbs_of (np + np) (P * P)).
    assert (Hsqb : Bn (np + np - 1 - 1) <= P * P < Bn (np + np)).
    { rewrite Bn_add. split; [ | nia ].
      replace (np + np - 1 - 1)%nat with ((np - 1) + (np - 1))%nat by lia. rewrite Bn_add. nia. }
    assert (Htwf : wf t) by apply limbs_of_wf.
    assert (Htl : length t = S (np + np - 1)) by (unfold t; rewrite limbs_of_length; lia).
    assert (Hte : eval t = P * P) by (unfold t; apply limbs_of_small; lia).
    replace (2 * n - 1) with (Z.of_nat (np + np - 1)) by lia.
    pose proof (trim_top t (np + np - 1) Htwf Htl ltac:(rewrite Hte; lia) ltac:(rewrite Hte; nia)) as Htrim.
    cbv zeta in Htrim.
    set (n2 := Z.of_nat (np + np - 1) + b2z (negb (nthl t (Z.of_nat (np + np - 1)) =? 0))) in *.
    set (t2 := firstn (Z.to_nat n2) t) in *.
    destruct Htrim as (Hn2 & He2 & Hne2 & Hl2). rewrite Hte in He2.
    rewrite bit_test by lia.
    replace (Z.shiftr (un - 1) (Z.of_nat k + 1)) with (Z.shiftr m (Z.of_nat k + 1)) by reflexivity.
    assert (Hdiv2 : (bigb | P * P)) by (apply Z.divide_mul_l; exact Hdiv).
    (* the state after the optional exact division: block t3, exponent e3 *)
    assert (Hmid : exists t3,
      (let '(t9, n9, d9) :=
         if negb (Z.odd (Z.shiftr m (Z.of_nat k + 1)))
         then let t := mpn_divexact_1 t2 bigb in
              let n := n2 - b2z (nthl t (n2 - 1) =? 0) in (firstn (Z.to_nat n) t, n, dib * 2 - cpl)
         else (t2, n2, dib * 2) in
       match strip_low t9 n9 (shift * 2) (Z.land bigb (wrap (- bigb)) - 1) with
       | Some (t0, n0, shift0) =>
           powtab_loop k un base cpl bigb t0 n0 d9 shift0 (memptr + 2 * n)
             (mkpow t0 n0 d9 base shift0 :: mkpow p n dib base shift :: rest)
       | None => None
       end)
      = match strip_low t3 (len t3) (shift * 2) (Z.ones c) with
        | Some (t0, n0, shift0) =>
            powtab_loop k un base cpl bigb t0 n0 (cpl * ex k) shift0 (memptr + 2 * n)
              (mkpow t0 n0 (cpl * ex k) base shift0 :: mkpow p n dib base shift :: rest)
        | None => None
        end
      /\ normal t3 /\ t3 <> [] /\ (bigb | eval t3) /\ eval t3 * B ^ (shift * 2) = bigb ^ ex k).
    { rewrite Hmask.
      assert (Hsq : P * P * B ^ (shift * 2) = bigb ^ (2 * e)).
      { replace (2 * e) with (e + e) by lia. replace (shift * 2) with (shift + shift) by lia.
        rewrite !Z.pow_add_r by lia. rewrite <- Hval. ring. }
      destruct (Z.odd (Z.shiftr m (Z.of_nat k + 1))) eqn:Eodd; cbn [negb].
      - exists t2. rewrite Hl2. replace (dib * 2) with (cpl * ex k) by (rewrite Hdib, Hes; ring).
        split; [ reflexivity | ]. split; [ exact Hn2 | ]. split; [ exact Hne2 | ].
        split; [ rewrite He2; exact Hdiv2 | ]. rewrite He2, Hsq. f_equal. lia.
      - cbv zeta. unfold mpn_divexact_1. rewrite He2.
        set (np2 := length t2). assert (Hnp2 : n2 = Z.of_nat np2) by (rewrite <- Hl2; reflexivity).
        destruct Hdiv as [q Hq].
        assert (Hqpos : 0 < q) by nia.
        assert (HQ : P * P / bigb = P * q).
        { rewrite Hq. replace (q * bigb * (q * bigb)) with (q * bigb * q * bigb) by ring.
          rewrite Z.div_mul by lia. ring. }
        rewrite HQ.
        assert (Hnp2pos : (1 <= np2)%nat) by (unfold np2; destruct t2; [ congruence | cbn [length]; lia ]).
        destruct Hn2 as [Hwf2 Hnn2]. specialize (Hnn2 Hne2). rewrite He2 in Hnn2. fold np2 in Hnn2.
        pose proof (eval_lt _ Hwf2) as Hb2. rewrite He2 in Hb2. fold np2 in Hb2.
        set (t3 := limbs_of np2 (P * q)).
        assert (HPq : P * q * bigb = P * P) by (rewrite Hq; ring).
        assert (Ht3e : eval t3 = P * q).
        { unfold t3. apply limbs_of_small. nia. }
        assert (Ht3l : length t3 = S (np2 - 1)) by (unfold t3; rewrite limbs_of_length; lia).
        assert (Hlow : Bn (np2 - 1 - 1) <= P * q).
        { destruct (Nat.eq_dec np2 1) as [E1|E1].
          - rewrite E1. cbn [Nat.sub]. rewrite Bn_0. nia.
          - replace (np2 - 1)%nat with (S (np2 - 1 - 1)) in Hnn2 by lia. rewrite Bn_S in Hnn2.
            pose proof (Bn_pos (np2 - 1 - 1)). nia. }
        pose proof (trim_top t3 (np2 - 1) (limbs_of_wf _ _) Ht3l ltac:(rewrite Ht3e; exact Hlow) ltac:(rewrite Ht3e; nia)) as Htrim.
        cbv zeta in Htrim.
        replace (n2 - 1) with (Z.of_nat (np2 - 1)) by lia.
        replace (n2 - b2z (nthl t3 (Z.of_nat (np2 - 1)) =? 0))
          with (Z.of_nat (np2 - 1) + b2z (negb (nthl t3 (Z.of_nat (np2 - 1)) =? 0)))
          by (destruct (nthl t3 (Z.of_nat (np2 - 1)) =? 0); cbn [negb b2z]; lia).
        set (n3 := Z.of_nat (np2 - 1) + b2z (negb (nthl t3 (Z.of_nat (np2 - 1)) =? 0))) in *.
        destruct Htrim as (Hn3 & He3 & Hne3 & Hl3). rewrite Ht3e in He3.
        exists (firstn (Z.to_nat n3) t3). rewrite Hl3.
        replace (dib * 2 - cpl) with (cpl * ex k) by (rewrite Hdib, Hes; ring).
        split; [ reflexivity | ]. split; [ exact Hn3 | ]. split; [ exact Hne3 | ]. rewrite He3.
        split; [ exists (q * q); rewrite Hq; ring | ].
        assert (Hk2 : ex k = 2 * e - 1) by lia.
        assert (Hpw : bigb ^ (2 * e) = bigb ^ ex k * bigb).
        { rewrite Hk2. replace (2 * e) with (2 * e - 1 + 1) at 1 by lia. rewrite Z.pow_add_r by lia. lia. }
        assert (Hcancel : P * q * B ^ (shift * 2) * bigb = bigb ^ ex k * bigb) by (rewrite <- Hpw, <- Hsq, <- HPq; ring).
        apply Z.mul_reg_r with bigb; [ lia | exact Hcancel ]. }
    destruct Hmid as (t3 & Hrun & Hn3 & Hne3 & Hd3 & Hv3).
    match goal with |- exists tab', ?X = _ /\ _ => replace X with
      (match strip_low t3 (len t3) (shift * 2) (Z.ones c) with
        | Some (t0, n0, shift0) =>
            powtab_loop k un base cpl bigb t0 n0 (cpl * ex k) shift0 (memptr + 2 * n)
              (mkpow t0 n0 (cpl * ex k) base shift0 :: mkpow p n dib base shift :: rest)
        | None => None
        end) end.
    destruct (strip_low_spec t3 (len t3) (shift * 2) Hn3 Hne3 eq_refl ltac:(lia) Hd3)
      as (t4 & shift4 & Hrun4 & Hn4 & Hne4 & Hd4 & Hs4 & Hv4).
    rewrite Hrun4.
    assert (Hst4 : st_ok k t4 (len t4) (cpl * ex k) shift4 (memptr + 2 * n)).
    { unfold st_ok. repeat (split; [ first [ assumption | reflexivity | lia ] | ]).
      rewrite Nat2Z.inj_succ in Hmem. destruct (Z.odd (Z.shiftr m (Z.of_nat k + 1))); lia. }
    destruct (IH t4 (len t4) (cpl * ex k) shift4 (memptr + 2 * n) (mkpow p n dib base shift :: rest)
                 ltac:(lia) Hst4) as (tab' & Hr' & Ht' & Hl' & Hh' & Hi').
    { cbn [tab_ok]. split; [ exact (st_entry _ _ _ _ _ _ Hst4) | ].
      cbn [pw_digits_in_base]. split; [ | exact Htab ].
      rewrite Hdib. pose proof (ex_ge1 k). destruct (Z.odd (Z.shiftr m (Z.of_nat k + 1))); nia. }
    { intros j e0 Hje. destruct j as [|j']; cbn [nth_error] in Hje.
      - injection Hje as <-. cbn [pw_digits_in_base]. rewrite Nat.add_0_r. reflexivity.
      - rewrite (Hidx j' e0 Hje). replace (k + S j')%nat with (S k + j')%nat by lia. reflexivity. }
    exists tab'. split; [ exact Hr' | ]. split; [ exact Ht' | ]. split; [ cbn [length] in Hl'; lia | ].
    split; [ | exact Hi' ].
    destruct tab' as [|e0 tl0]; [ cbn [tab_ok] in Ht'; contradiction | ]. cbn [hd] in Hh' |- *. exact Hh'.
Qed.

End Loop.

(* MAIN THEOREM (power table): for 2 <= un (un - 1 < 2^32 keeps the always-on ASSERT_ALWAYS on the
   scratch area true) the table is computed, has floor(log2(un-1)) + 1 entries; entry j (= powtab[j]) is a
   normalised block with  {p,n} * B^shift = big_base^e_j = base^digits_in_base,  digits_in_base =
   chars_per_limb * e_j,  e_j = ((un-1) >> (j+1)) + 1;  consecutive entries at most double the digit count,
   the last entry is big_base itself (tab_ok). *)
Theorem compute_powtab_correct un :
  2 <= un -> un - 1 < 2 ^ 32 ->
  exists tab, mpn_set_str_compute_powtab un base cpl bigb = Some tab
    /\ tab_ok tab /\ Z.of_nat (length tab) = Z.log2 (un - 1) + 1
    /\ pw_digits_in_base (hd (mkpow [] 0 0 0 0) tab) = cpl * (Z.shiftr (un - 1) 1 + 1)
    /\ (forall (j : nat) e, nth_error tab j = Some e ->
          let ej := Z.shiftr (un - 1) (Z.of_nat j + 1) + 1 in
          pw_digits_in_base e = cpl * ej /\ eval (pw_p e) * B ^ pw_shift e = bigb ^ ej).
Proof.
  intros Hun Hsmall. unfold mpn_set_str_compute_powtab.
  destruct (Z.leb_spec (un - 1) 0) as [H|_]; [ lia | ].
  unfold clz. replace (64 - 1 - (63 - Z.log2 (un - 1))) with (Z.log2 (un - 1)) by lia.
  set (i := Z.log2 (un - 1)).
  assert (Hi0 : 0 <= i) by apply Z.log2_nonneg.
  assert (Hi : i <= 31).
  { assert (i < 32); [ | lia ]. apply Z.log2_lt_pow2; lia. }
  pose proof (Z.log2_spec (un - 1) ltac:(lia)) as [_ Hup]. fold i in Hup.
  pose proof bigb_ge2 as Hbb.
  assert (Hex : ex un (Z.to_nat i) = 1).
  { unfold ex. rewrite Z2Nat.id by lia. rewrite Z.shiftr_div_pow2 by lia.
    replace (i + 1) with (Z.succ i) by lia. rewrite Z.div_small by lia. reflexivity. }
  assert (Hst : st_ok un i (Z.to_nat i) [bigb] 1 cpl 0 1).
  { unfold st_ok. rewrite Hex. split.
    - split; [ apply wf_cons; [ unfold limb; lia | apply wf_nil ] | ].
      intros _. cbn [length eval Nat.sub]. rewrite Bn_0. lia.
    - split; [ congruence | ]. split; [ reflexivity | ]. split; [ lia | ]. split; [ lia | ].
      split; [ cbn [eval]; rewrite Z.pow_0_r, Z.pow_1_r; lia | ].
      split; [ cbn [eval]; exists 1; lia | lia ]. }
  destruct (powtab_loop_spec un ltac:(lia) i Hi (Z.to_nat i) [bigb] 1 cpl 0 1 [] ltac:(lia) Hst)
    as (tab & Hrun & Htab & Hlen & Hhd & Hidx).
  { cbn [tab_ok]. split; [ exact (st_entry un ltac:(lia) i Hi _ _ _ _ _ _ Hst) | reflexivity ]. }
  { intros j e Hje. destruct j as [|j']; cbn [nth_error] in Hje.
    - injection Hje as <-. cbn [pw_digits_in_base]. rewrite Nat.add_0_r, Hex. lia.
    - destruct j'; discriminate Hje. }
  exists tab. split; [ exact Hrun | ]. split; [ exact Htab | ].
  split; [ rewrite Hlen; cbn [length]; lia | ].
  split.
  - destruct tab as [|e0 r0]; [ cbn [tab_ok] in Htab; contradiction | ].
    cbn [hd] in Hhd |- *. rewrite Hhd. unfold ex. cbn [Z.of_nat]. reflexivity.
  - intros j e Hje. cbv zeta. pose proof (Hidx j e Hje) as Hd. unfold ex in Hd.
    split; [ exact Hd | ].
    destruct (tab_ok_nth tab j e Htab Hje) as (_ & _ & _ & _ & _ & _ & Hv).
    assert (0 <= Z.shiftr (un - 1) (Z.of_nat j + 1)) by (apply Z.shiftr_nonneg; lia).
    rewrite Hv, Hd, Hbigb, <- Z.pow_mul_r by lia. reflexivity.
Qed.

End PT.

(* ------------------------------------------------------------------ *)
(* mpn_dc_set_str                                                       *)
(* ------------------------------------------------------------------ *)

Lemma below_true size thr : 0 <= size < thr -> BELOW_THRESHOLD size thr = true.
Proof.
  intros H. unfold BELOW_THRESHOLD.
  destruct (Z.eqb_spec thr 0) as [E|E]; [ lia | ].
  destruct (Z.leb_spec thr size) as [L|L]; [ lia | ].
  rewrite andb_false_r. reflexivity.
Qed.

Lemma below_false size thr : 0 < thr -> BELOW_THRESHOLD size thr = false -> thr <= size.
Proof.
  intros Ht H. unfold BELOW_THRESHOLD in H.
  destruct (Z.eqb_spec thr 0) as [E|E]; [ lia | ].
  destruct (Z.leb_spec thr size) as [L|L]; [ exact L | ].
  rewrite andb_false_r in H. discriminate.
Qed.

(* return n - (rp[n - 1] == 0) on a block of n = k + 1 limbs *)
Lemma trim_gen t k : wf t -> length t = S k ->
  let l := firstn (Z.to_nat (Z.of_nat (S k) - b2z (nthl t (Z.of_nat k) =? 0))) t in
  wf l /\ eval l = eval t
  /\ ((length l = S k /\ Bn k <= eval t) \/ (length l = k /\ eval t < Bn k)).
Proof.
  intros Hwf Hlen. cbv zeta. rewrite (top_limb t k Hwf Hlen).
  destruct (Z.ltb_spec (eval t) (Bn k)) as [Hlt|Hge]; cbn [b2z].
  - replace (Z.to_nat (Z.of_nat (S k) - 1)) with k by lia.
    assert (Hf : length (firstn k t) = k) by (rewrite firstn_length; lia).
    assert (He : eval (firstn k t) = eval t).
    { pose proof (eval_firstn_skipn t k) as H. rewrite Hf in H. fold (Bn k) in H.
      pose proof (eval_lt _ (wf_firstn t k Hwf)) as H1. pose proof (eval_lt _ (wf_skipn t k Hwf)) as H2.
      pose proof (Bn_pos k) as HBk.
      assert (Hs0 : eval (skipn k t) = 0).
      { destruct (Z.eq_dec (eval (skipn k t)) 0) as [E0|E0]; [ exact E0 | exfalso ].
        assert (Bn k * 1 <= Bn k * eval (skipn k t)) by (apply Z.mul_le_mono_nonneg_l; lia). lia. }
      rewrite Hs0 in H. lia. }
    split; [ apply wf_firstn; exact Hwf | ]. split; [ exact He | ]. right. split; [ exact Hf | exact Hlt ].
  - replace (Z.to_nat (Z.of_nat (S k) - 0)) with (S k) by lia. rewrite <- Hlen, firstn_all.
    split; [ exact Hwf | ]. split; [ reflexivity | ]. left. split; [ reflexivity | exact Hge ].
Qed.

Lemma Bn_lt_inv a b : Bn a < Bn b -> (a < b)%nat.
Proof.
  intros H. destruct (Nat.lt_ge_cases a b) as [L|L]; [ exact L | ].
  pose proof (Bn_le b a L). lia.
Qed.

Lemma length0_nil (l : list Z) : length l = 0%nat -> l = [].
Proof. destruct l; [ reflexivity | discriminate ]. Qed.

(* the part of mpn_dc_set_str after the two recursive conversions (lines 238-265) *)
Definition dc_join (pw : powers) (tp_hi tp_lo : list Z) : option (list Z) :=
  let hn := len tp_hi in
  let sn := pw_shift pw in
  let rp :=
    if hn =? 0 then repeat 0 (Z.to_nat (pw_n pw + sn))
    else repeat 0 (Z.to_nat sn) ++
         (if hn <? pw_n pw then mpn_mul (pw_p pw) tp_hi else mpn_mul tp_hi (pw_p pw)) in
  let ln := len tp_lo in
  let rp' :=
    if ln =? 0 then Some rp
    else if len rp <? ln then None
    else
      let '(lo, cy) := mpn_add_n (firstn (Z.to_nat ln) rp) tp_lo in
      let '(hi, cyout) := mpn_incr_u (skipn (Z.to_nat ln) rp) cy in
      if cyout =? 0 then Some (lo ++ hi) else None in
  match rp' with
  | None => None
  | Some rp =>
      let n := hn + pw_n pw + sn in
      Some (firstn (Z.to_nat (n - b2z (nthl rp (n - 1) =? 0))) rp)
  end.

Lemma dc_join_spec pw tp_hi tp_lo :
  wf tp_hi -> wf tp_lo -> normal (pw_p pw) -> pw_p pw <> [] -> pw_n pw = len (pw_p pw) -> 0 <= pw_shift pw ->
  let D := eval (pw_p pw) * B ^ pw_shift pw in
  eval tp_lo < D -> (tp_lo <> [] -> Bn (length tp_lo - 1) <= D) ->
  let V := eval tp_hi * D + eval tp_lo in
  let n := (length tp_hi + length (pw_p pw) + Z.to_nat (pw_shift pw))%nat in
  exists l, dc_join pw tp_hi tp_lo = Some l /\ wf l /\ eval l = V
     /\ ((length l = n /\ Bn (n - 1) <= V) \/ (length l = (n - 1)%nat /\ V < Bn (n - 1))).
Proof.
  intros Hwh Hwl [Hwp Hnp] Hpne Hpn Hsn D HloD Hlolen V n. specialize (Hnp Hpne).
  unfold dc_join. rewrite Hpn.
  set (p := pw_p pw) in *. set (sn := pw_shift pw) in *.
  set (hnn := length tp_hi) in *. set (pnn := length p) in *. set (snn := Z.to_nat sn) in *.
  assert (HBs : B ^ sn = Bn snn) by (unfold Bn, snn; rewrite Z2Nat.id by lia; reflexivity).
  pose proof (eval_lt _ Hwh) as HH. pose proof (eval_lt _ Hwp) as HP. pose proof (eval_lt _ Hwl) as HL.
  fold hnn in HH. fold pnn in HP, Hnp.
  set (H := eval tp_hi) in *. set (P := eval p) in *. set (Lo := eval tp_lo) in *.
  assert (Hpnn : (1 <= pnn)%nat) by (unfold pnn; destruct p; [ congruence | cbn [length]; lia ]).
  pose proof (Bn_pos snn) as HBsn. pose proof (Bn_pos pnn) as HBpn. pose proof (Bn_pos hnn) as HBhn.
  pose proof (Bn_pos (pnn - 1)) as HBpn1.
  assert (HD : D = P * Bn snn) by (unfold D; rewrite HBs; reflexivity).
  assert (HDpos : 0 < D) by (rewrite HD; nia).
  assert (HDlt : D < Bn (pnn + snn)).
  { rewrite HD, Bn_add. apply Z.mul_lt_mono_pos_r; lia. }
  assert (Hn : n = (hnn + (pnn + snn))%nat) by (unfold n; lia).
  assert (HVlt : V < Bn n).
  { rewrite Hn, Bn_add. unfold V.
    assert ((H + 1) * D <= Bn hnn * D) by (apply Z.mul_le_mono_nonneg_r; lia).
    assert (Bn hnn * D < Bn hnn * Bn (pnn + snn)) by (apply Z.mul_lt_mono_pos_l; lia).
    lia. }
  assert (HV0 : 0 <= V) by (unfold V; nia).
  (* the product, shifted *)
  set (rp0 := if len tp_hi =? 0 then repeat 0 (Z.to_nat (len p + sn))
              else repeat 0 snn ++ (if len tp_hi <? len p then mpn_mul p tp_hi else mpn_mul tp_hi p)).
  assert (Hrp0 : wf rp0 /\ length rp0 = n /\ eval rp0 = H * D).
  { unfold rp0. unfold len. fold hnn. fold pnn. destruct (Z.eqb_spec (Z.of_nat hnn) 0) as [E|E].
    - assert (Eh : tp_hi = []) by (apply length0_nil; fold hnn; lia).
      split; [ apply wf_repeat; unfold limb; pose proof B_pos; lia | ].
      split; [ rewrite repeat_length; unfold n, snn; lia | ].
      rewrite eval_repeat0. unfold H. rewrite Eh. cbn [eval]. lia.
    - assert (Hprod : forall x y a b, x * y = H * P -> (a + b = hnn + pnn)%nat ->
                wf (limbs_of (a + b) (x * y)) /\ length (limbs_of (a + b) (x * y)) = (hnn + pnn)%nat
                /\ eval (limbs_of (a + b) (x * y)) = H * P).
      { intros x y a b Exy Eab. rewrite Exy, Eab. split; [ apply limbs_of_wf | ].
        split; [ apply limbs_of_length | ]. apply limbs_of_small. rewrite Bn_add. nia. }
      assert (Hpr : let pr := (if Z.of_nat hnn <? Z.of_nat pnn then mpn_mul p tp_hi else mpn_mul tp_hi p) in
                    wf pr /\ length pr = (hnn + pnn)%nat /\ eval pr = H * P).
      { cbv zeta. destruct (Z.of_nat hnn <? Z.of_nat pnn); unfold mpn_mul; fold hnn; fold pnn; fold H; fold P;
          apply Hprod; lia. }
      cbv zeta in Hpr. destruct Hpr as (Hw & Hl & He).
      split; [ apply wf_app; [ apply wf_repeat; unfold limb; pose proof B_pos; lia | exact Hw ] | ].
      split; [ rewrite app_length, repeat_length, Hl; unfold n, snn; lia | ].
      rewrite eval_app, eval_repeat0, repeat_length, He. fold snn. fold (Bn snn). rewrite HD. ring. }
  destruct Hrp0 as (Hw0 & Hl0 & He0).
  (* the addition of the low part *)
  set (lnn := length tp_lo) in *.
  assert (Hadd : exists rp2,
     (if len tp_lo =? 0 then Some rp0
      else if len rp0 <? len tp_lo then None
      else let '(lo, cy) := mpn_add_n (firstn (Z.to_nat (len tp_lo)) rp0) tp_lo in
           let '(hi, cyout) := mpn_incr_u (skipn (Z.to_nat (len tp_lo)) rp0) cy in
           if cyout =? 0 then Some (lo ++ hi) else None) = Some rp2
     /\ wf rp2 /\ length rp2 = n /\ eval rp2 = V).
  { unfold len. fold lnn. destruct (Z.eqb_spec (Z.of_nat lnn) 0) as [E|E].
    - exists rp0. assert (El : tp_lo = []) by (apply length0_nil; fold lnn; lia).
      split; [ reflexivity | ]. split; [ exact Hw0 | ]. split; [ exact Hl0 | ].
      rewrite He0. unfold V, Lo. rewrite El. cbn [eval]. lia.
    - assert (Hlne : tp_lo <> []) by (intros El; unfold lnn in E; rewrite El in E; cbn [length] in E; lia).
      specialize (Hlolen Hlne).
      assert (Hlnn : (lnn <= pnn + snn)%nat).
      { assert (lnn - 1 < pnn + snn)%nat; [ apply Bn_lt_inv; lia | lia ]. }
      rewrite Hl0. destruct (Z.ltb_spec (Z.of_nat n) (Z.of_nat lnn)) as [L|_]; [ lia | ].
      rewrite Nat2Z.id. unfold mpn_add_n, mpn_incr_u.
      assert (Hfl : length (firstn lnn rp0) = lnn) by (rewrite firstn_length; lia).
      assert (Hsl : length (skipn lnn rp0) = (n - lnn)%nat) by (rewrite skipn_length; lia).
      rewrite Hfl, Hsl.
      pose proof (eval_firstn_skipn rp0 lnn) as Hsplit. rewrite Hfl in Hsplit. fold (Bn lnn) in Hsplit.
      pose proof (eval_lt _ (wf_firstn rp0 lnn Hw0)) as HF. pose proof (eval_lt _ (wf_skipn rp0 lnn Hw0)) as HS.
      rewrite Hfl in HF. rewrite Hsl in HS.
      set (F := eval (firstn lnn rp0)) in *. set (S := eval (skipn lnn rp0)) in *. fold Lo.
      pose proof (Bn_pos lnn) as HBl. pose proof (Bn_pos (n - lnn)) as HBnl.
      set (x := F + Lo).
      pose proof (Z.div_mod x (Bn lnn) ltac:(lia)) as Hdx. pose proof (Z.mod_pos_bound x (Bn lnn) HBl) as Hmx.
      assert (Hx0 : 0 <= x / Bn lnn) by (apply Z.div_pos; unfold x; lia).
      set (y := S + x / Bn lnn).
      assert (HVy : V = x mod Bn lnn + Bn lnn * y).
      { unfold V, y. rewrite <- He0, Hsplit. unfold x in *. lia. }
      assert (Hsplitn : Bn n = Bn lnn * Bn (n - lnn)).
      { rewrite <- Bn_add. f_equal. lia. }
      assert (Hy : 0 <= y < Bn (n - lnn)).
      { split; [ unfold y; lia | ]. nia. }
      rewrite (Z.div_small y) by exact Hy. cbn [Z.eqb].
      eexists. split; [ reflexivity | ].
      split; [ apply wf_app; apply limbs_of_wf | ].
      split; [ rewrite app_length, !limbs_of_length; lia | ].
      rewrite eval_app, limbs_of_length, !limbs_of_eval. fold (Bn lnn).
      rewrite (Z.mod_small y) by exact Hy. lia. }
  destruct Hadd as (rp2 & Hrun & Hw2 & Hl2 & He2).
  fold rp0. rewrite Hrun.
  assert (Hn1 : length rp2 = S (n - 1)) by lia.
  pose proof (trim_gen rp2 (n - 1) Hw2 Hn1) as Ht. cbv zeta in Ht.
  replace (len tp_hi + len p + sn) with (Z.of_nat (S (n - 1))) by (unfold len, n, snn; fold hnn; fold pnn; lia).
  replace (Z.of_nat (S (n - 1)) - 1) with (Z.of_nat (n - 1)) by lia.
  destruct Ht as (Hwl' & Hel' & Hcase).
  eexists. split; [ reflexivity | ]. split; [ exact Hwl' | ]. split; [ rewrite Hel'; exact He2 | ].
  rewrite He2 in Hcase. destruct Hcase as [[Hc1 Hc2]|[Hc1 Hc2]]; [ left | right ]; split; try assumption; lia.
Qed.

Section DC.
Variables base cpl bigb dc_thr : Z.
Hypothesis Hbase : 2 <= base.
Hypothesis Hcpl : 1 <= cpl.
Hypothesis Hbigb : bigb = base ^ cpl.
Hypothesis HbigbB : bigb < B.
Hypothesis H10 : base = 10 -> cpl = MP_BASES_CHARS_PER_LIMB_10.
(* SET_STR_DC_THRESHOLD is above chars_per_limb (otherwise the recursion leaves the table) *)
Hypothesis Hthr : cpl < dc_thr.

(* what every conversion routine returns for the digit string str: limbs of the right value; at most
   one limb more than base^len needs; normalised when the leading digit is non-zero *)
Definition res_ok (str l : list Z) : Prop :=
  wf l /\ eval l = horner base str
  /\ (l <> [] -> Bn (length l - 1) <= base ^ len str)
  /\ (nlz str -> normal l).

Lemma bc_res_ok str : str <> [] -> Forall (dig base) str ->
  exists l, mpn_bc_set_str str base cpl bigb = Some l /\ res_ok str l.
Proof.
  intros Hne Hdig.
  destruct (bc_set_str_correct base cpl bigb Hbase Hcpl Hbigb HbigbB H10 str Hne Hdig) as (l & Hrun & Hn & He & _).
  exists l. split; [ exact Hrun | ]. pose proof Hn as [Hwf Hnn].
  split; [ exact Hwf | ]. split; [ exact He | ]. split; [ | intros _; exact Hn ].
  intros Hl. specialize (Hnn Hl). pose proof (horner_bounds base str Hbase Hdig) as Hb.
  rewrite He in Hnn. unfold len. lia.
Qed.

Definition sub_call (powtab1 : list powers) (n : Z) (s : list Z) (pwbase : Z) : option (list Z) :=
  if BELOW_THRESHOLD n dc_thr then mpn_bc_set_str s pwbase cpl bigb
  else mpn_dc_set_str dc_thr cpl bigb s powtab1.

Lemma dc_unfold pw powtab1 str :
  mpn_dc_set_str dc_thr cpl bigb str (pw :: powtab1) =
  let str_len := len str in
  let len_lo := pw_digits_in_base pw in
  if str_len <=? len_lo then sub_call powtab1 str_len str (pw_base pw)
  else
    match sub_call powtab1 (str_len - len_lo) (firstn (Z.to_nat (str_len - len_lo)) str) (pw_base pw) with
    | None => None
    | Some tp_hi =>
        match sub_call powtab1 len_lo (skipn (Z.to_nat (str_len - len_lo)) str) (pw_base pw) with
        | None => None
        | Some tp_lo => dc_join pw tp_hi tp_lo
        end
    end.
Proof. reflexivity. Qed.

Lemma pow_base_pos' k : 0 <= k -> 0 < base ^ k.
Proof. intros Hk. apply Z.pow_pos_nonneg; lia. Qed.

(* MAIN THEOREM (divide and conquer): with a table satisfying tab_ok (the one compute_powtab builds) and a
   digit string of at most twice the digits of the first entry, the recursion returns limbs of value
   horner base str; the returned size is the limb count when the leading digit is non-zero (normal),
   and never more than one limb above the limbs of base^len. *)
Theorem dc_set_str_correct : forall powtab str,
  tab_ok base cpl powtab -> str <> [] -> Forall (dig base) str ->
  len str <= 2 * pw_digits_in_base (hd (mkpow [] 0 0 0 0) powtab) ->
  exists l, mpn_dc_set_str dc_thr cpl bigb str powtab = Some l /\ res_ok str l.
Proof.
  induction powtab as [|pw powtab1 IH]; intros str Htab Hne Hdig Hlen; [ cbn [tab_ok] in Htab; contradiction | ].
  cbn [hd] in Hlen. cbn [tab_ok] in Htab. destruct Htab as [Hent Hrest].
  destruct Hent as (Hpn & Hpne & Hpnl & Hsh & Hdib1 & Hpb & Hpval).
  set (dib := pw_digits_in_base pw) in *.
  (* a recursive conversion of a piece of at most dib digits *)
  assert (Hsub : forall s, s <> [] -> Forall (dig base) s -> len s <= dib ->
            exists l, sub_call powtab1 (len s) s (pw_base pw) = Some l /\ res_ok s l).
  { intros s Hsne Hsd Hsl. unfold sub_call. rewrite Hpb.
    destruct (BELOW_THRESHOLD (len s) dc_thr) eqn:Eb.
    - apply bc_res_ok; assumption.
    - apply below_false in Eb; [ | lia ].
      destruct powtab1 as [|pw' powtab2]; [ lia | ].
      destruct Hrest as [Hle Htab1]. apply IH; [ exact Htab1 | exact Hsne | exact Hsd | ].
      cbn [hd]. lia. }
  rewrite dc_unfold. cbv zeta. fold dib.
  destruct (Z.leb_spec (len str) dib) as [Hle|Hgt].
  - apply Hsub; assumption.
  - set (len_hi := len str - dib).
    set (k := Z.to_nat len_hi).
    set (str_hi := firstn k str). set (str_lo := skipn k str).
    assert (Hk : (k <= length str)%nat) by (unfold k, len_hi, len in *; lia).
    assert (Hk1 : (1 <= k)%nat) by (unfold k, len_hi, len in *; lia).
    assert (Hhl : len str_hi = len_hi).
    { unfold len, str_hi. rewrite firstn_length_le by exact Hk. unfold k, len_hi, len in *. lia. }
    assert (Hll : len str_lo = dib).
    { unfold len, str_lo. rewrite skipn_length. unfold k, len_hi, len in *. lia. }
    assert (Hhd : Forall (dig base) str_hi).
    { rewrite <- (firstn_skipn k str) in Hdig. apply Forall_app in Hdig. tauto. }
    assert (Hld : Forall (dig base) str_lo).
    { rewrite <- (firstn_skipn k str) in Hdig. apply Forall_app in Hdig. tauto. }
    assert (Hhne : str_hi <> []).
    { intros E. rewrite E in Hhl. unfold len in Hhl. cbn [length] in Hhl. unfold len_hi in Hhl. lia. }
    assert (Hlne : str_lo <> []).
    { intros E. rewrite E in Hll. unfold len in Hll. cbn [length] in Hll. lia. }
    destruct (Hsub str_hi Hhne Hhd ltac:(unfold len_hi in *; lia)) as (tp_hi & Hrh & Hoh).
    destruct (Hsub str_lo Hlne Hld ltac:(lia)) as (tp_lo & Hrl & Hol).
    rewrite Hhl in Hrh. rewrite Hll in Hrl. fold str_hi str_lo. rewrite Hrh, Hrl.
    destruct Hoh as (Hwh & Heh & Hbh & Hnh). destruct Hol as (Hwl & Hel & Hbl & Hnl).
    pose proof (horner_bounds base str_lo Hbase Hld) as Hlob. fold (len str_lo) in Hlob. rewrite Hll in Hlob.
    pose proof (horner_bounds base str_hi Hbase Hhd) as Hhib. fold (len str_hi) in Hhib.
    rewrite Hll in Hbl.
    destruct (dc_join_spec pw tp_hi tp_lo Hwh Hwl Hpn Hpne Hpnl Hsh) as (l & Hrun & Hwfl & Hevl & Hcase).
    { rewrite Hpval, Hel. lia. }
    { rewrite Hpval. exact Hbl. }
    rewrite Hpval in Hevl, Hcase. fold dib in Hevl, Hcase.
    assert (HV : horner base str = eval tp_hi * base ^ dib + eval tp_lo).
    { rewrite (horner_split base str k). fold str_hi str_lo. rewrite Hll, Heh, Hel. reflexivity. }
    rewrite <- HV in Hevl, Hcase.
    exists l. split; [ exact Hrun | ].
    (* sizes *)
    set (hnn := length tp_hi) in *. set (pnn := length (pw_p pw)) in *. set (snn := Z.to_nat (pw_shift pw)) in *.
    set (n := (hnn + pnn + snn)%nat) in *.
    assert (HBs : B ^ pw_shift pw = Bn snn) by (unfold Bn, snn; rewrite Z2Nat.id by lia; reflexivity).
    destruct Hpn as [Hwp Hnp]. specialize (Hnp Hpne). fold pnn in Hnp.
    assert (Hpnn : (1 <= pnn)%nat) by (unfold pnn; destruct (pw_p pw); [ congruence | cbn [length]; lia ]).
    pose proof (Bn_pos snn) as HBsn. pose proof (Bn_pos (pnn - 1)) as HBp1.
    assert (HDlow : Bn (pnn - 1 + snn) <= base ^ dib).
    { rewrite <- Hpval, HBs, Bn_add. apply Z.mul_le_mono_nonneg_r; lia. }
    pose proof (horner_bounds base str Hbase Hdig) as Hsb. fold (len str) in Hsb.
    assert (Hpow : base ^ len str = base ^ len_hi * base ^ dib).
    { rewrite <- Z.pow_add_r by (unfold len_hi; lia). f_equal. unfold len_hi. lia. }
    pose proof (pow_base_pos' len_hi ltac:(unfold len_hi; lia)) as Hphi.
    pose proof (pow_base_pos' dib ltac:(lia)) as Hpdib.
    split; [ exact Hwfl | ]. split; [ exact Hevl | ]. split.
    + intros Hlne'. destruct Hcase as [[Hc1 Hc2]|[Hc1 Hc2]].
      * rewrite Hc1. clear - Hc2 Hsb. lia.
      * rewrite Hc1.
        destruct (Nat.eq_dec hnn 0) as [E0|E0].
        -- assert (H1 : Bn (n - 1 - 1) <= Bn (pnn - 1 + snn)) by (apply Bn_le; unfold n; clear - E0 Hpnn; lia).
           assert (H2 : 1 * base ^ dib <= base ^ len_hi * base ^ dib)
             by (apply Z.mul_le_mono_nonneg_r; clear - Hphi Hpdib; lia).
           clear - H1 H2 HDlow Hpow. lia.
        -- assert (Hhne' : tp_hi <> []).
           { intros E. unfold hnn in E0. rewrite E in E0. cbn [length] in E0. lia. }
           specialize (Hbh Hhne'). fold hnn in Hbh. rewrite Hhl in Hbh.
           replace (n - 1 - 1)%nat with ((hnn - 1) + (pnn - 1 + snn))%nat by (unfold n; clear - E0 Hpnn; lia).
           rewrite Bn_add, Hpow. pose proof (Bn_pos (hnn - 1)) as Hq1. pose proof (Bn_pos (pnn - 1 + snn)) as Hq2.
           apply Z.mul_le_mono_nonneg; [ clear - Hq1; lia | exact Hbh | clear - Hq2; lia | exact HDlow ].
    + intros Hnlz. split; [ exact Hwfl | ]. intros Hlne'.
      (* the high part is normalised and non-zero *)
      assert (Hnlzh : nlz str_hi).
      { unfold str_hi. destruct str as [|d r]; [ congruence | ].
        replace k with (S (k - 1)) by (clear - Hk1; lia). cbn [firstn nlz]. exact Hnlz. }
      specialize (Hnh Hnlzh).
      assert (Hhpos : 1 <= eval tp_hi).
      { rewrite Heh. destruct str_hi as [|d r]; [ congruence | ]. cbn [nlz] in Hnlzh.
        pose proof (horner_lower base d r Hbase Hhd Hnlzh) as Hl.
        pose proof (pow_base_pos' (Z.of_nat (length r)) (Nat2Z.is_nonneg _)) as Hpp. clear - Hl Hpp. lia. }
      assert (Hhne' : tp_hi <> []) by (intros E; rewrite E in Hhpos; cbn [eval] in Hhpos; lia).
      destruct Hnh as [_ Hnh]. specialize (Hnh Hhne'). fold hnn in Hnh.
      assert (Hlow : Bn ((hnn - 1) + (pnn - 1 + snn)) <= horner base str).
      { rewrite HV, Bn_add. pose proof (eval_lt _ Hwl) as Hq0. pose proof (Bn_pos (hnn - 1)) as Hq1.
        pose proof (Bn_pos (pnn - 1 + snn)) as Hq2.
        assert (Hq3 : Bn (hnn - 1) * Bn (pnn - 1 + snn) <= eval tp_hi * base ^ dib)
          by (apply Z.mul_le_mono_nonneg; [ clear - Hq1; lia | exact Hnh | clear - Hq2; lia | exact HDlow ]).
        clear - Hq3 Hq0. lia. }
      assert (Hh1 : (1 <= hnn)%nat) by (unfold hnn; destruct tp_hi; [ congruence | cbn [length]; lia ]).
      rewrite Hevl. destruct Hcase as [[Hc1 Hc2]|[Hc1 Hc2]]; rewrite Hc1.
      * exact Hc2.
      * replace (n - 1 - 1)%nat with ((hnn - 1) + (pnn - 1 + snn))%nat by (unfold n; clear - Hh1 Hpnn; lia). exact Hlow.
Qed.

End DC.

(* ------------------------------------------------------------------ *)
(* mpn_set_str, power of two bases: bit packing                         *)
(* ------------------------------------------------------------------ *)

Lemma small_testbit a k j : 0 <= a < 2 ^ k -> 0 <= k <= j -> Z.testbit a j = false.
Proof.
  intros Ha Hk. destruct (Z.testbit a j) eqn:E; [ | reflexivity ].
  apply Z.testbit_true in E; [ | lia ].
  assert (H2 : 2 ^ k <= 2 ^ j) by (apply Z.pow_le_mono_r; lia).
  rewrite Z.div_small in E by lia. discriminate.
Qed.

(* or-ing disjoint bit fields is addition *)
Lemma lor_disjoint a y k : 0 <= k -> 0 <= a < 2 ^ k -> Z.lor a (y * 2 ^ k) = a + y * 2 ^ k.
Proof.
  intros Hk Ha. rewrite Z.add_comm, (Z.add_nocarry_lxor (y * 2 ^ k) a).
  - rewrite Z.lxor_comm, Z.lxor_lor; [ reflexivity | ].
    apply Z.bits_inj'. intros j Hj. rewrite Z.land_spec, Z.bits_0.
    destruct (Z.lt_ge_cases j k) as [L|L].
    + rewrite Z.mul_pow2_bits_low by lia. apply andb_false_r.
    + rewrite (small_testbit a k j) by lia. reflexivity.
  - apply Z.bits_inj'. intros j Hj. rewrite Z.land_spec, Z.bits_0.
    destruct (Z.lt_ge_cases j k) as [L|L].
    + rewrite Z.mul_pow2_bits_low by lia. reflexivity.
    + rewrite (small_testbit a k j) by lia. apply andb_false_r.
Qed.

Section P2.
Variable bits : Z.
Hypothesis Hbits : 1 <= bits <= 64.

Definition p2_inv (s : list Z) (st : Z * Z * list Z) : Prop :=
  let '(res, nbp, rp) := st in
  wf rp /\ 0 <= nbp < 64 /\ 0 <= res < 2 ^ nbp /\ 64 * len rp + nbp = bits * len s
  /\ eval rp + Bn (length rp) * res = horner (2 ^ bits) s
  /\ (nlz s -> s <> [] -> res = 0 -> rp <> [] /\ Bn (length rp - 1) <= eval rp).

Lemma p2_step_inv d s st : 0 <= d < 2 ^ bits -> p2_inv s st -> p2_inv (d :: s) (pow2_step bits st d).
Proof.
  intros Hd. destruct st as [[res nbp] rp]. unfold p2_inv, pow2_step.
  intros (Hwf & Hnbp & Hres & Hpos & Hval & Hnz).
  set (a := 2 ^ nbp) in *. set (b := 2 ^ (64 - nbp)).
  assert (Ha : 0 < a) by (apply Z.pow_pos_nonneg; lia).
  assert (Hb : 0 < b) by (apply Z.pow_pos_nonneg; lia).
  assert (Hab : b * a = B).
  { unfold a, b. rewrite <- Z.pow_add_r by lia. rewrite B_pow2. f_equal. lia. }
  set (q := d / b). set (y := d mod b).
  pose proof (Z.div_mod d b ltac:(lia)) as Hdm. fold q y in Hdm.
  pose proof (Z.mod_pos_bound d b Hb) as Hy. fold y in Hy.
  assert (Hq0 : 0 <= q) by (apply Z.div_pos; lia).
  assert (Hshl : wrap (Z.shiftl d nbp) = y * a).
  { unfold wrap. rewrite Z.shiftl_mul_pow2 by lia. fold a. rewrite <- Hab.
    rewrite Z.mul_mod_distr_r by lia. reflexivity. }
  rewrite Hshl.
  assert (Hlor : Z.lor res (y * a) = res + y * a) by (apply lor_disjoint; [ lia | exact Hres ]).
  rewrite !Hlor.
  assert (Hlen : len (d :: s) = len s + 1) by (unfold len; cbn [length]; lia).
  assert (Hpw : 2 ^ (bits * len s) = Bn (length rp) * a).
  { rewrite <- Hpos, Z.pow_add_r by (unfold len; lia). rewrite Bn_pow2. reflexivity. }
  assert (Hh : horner (2 ^ bits) (d :: s) = d * (Bn (length rp) * a) + horner (2 ^ bits) s).
  { rewrite horner_cons, <- Z.pow_mul_r by lia. fold (len s). rewrite Hpw. reflexivity. }
  pose proof (Bn_pos (length rp)) as HBn.
  destruct (Z.leb_spec 64 (nbp + bits)) as [Hge|Hlt].
  - (* the limb is complete *)
    replace (bits - (nbp + bits - 64)) with (64 - nbp) by lia.
    rewrite Z.shiftr_div_pow2 by lia. fold b. fold q.
    assert (Hbits2 : 2 ^ bits = b * 2 ^ (nbp + bits - 64)).
    { unfold b. rewrite <- Z.pow_add_r by lia. f_equal. lia. }
    assert (Hc : 0 < 2 ^ (nbp + bits - 64)) by (apply Z.pow_pos_nonneg; lia).
    assert (Hq : q < 2 ^ (nbp + bits - 64)).
    { apply Z.div_lt_upper_bound; [ lia | ]. rewrite <- Hbits2. lia. }
    assert (Hw : 0 <= res + y * a < B) by nia.
    split; [ apply wf_app; [ exact Hwf | apply wf_cons; [ exact Hw | apply wf_nil ] ] | ].
    split; [ lia | ]. split; [ lia | ].
    split; [ unfold len in *; rewrite app_length; cbn [length] in *; lia | ].
    split.
    + rewrite eval_app, app_length. cbn [length eval]. rewrite Bn_add. fold (Bn (length rp)).
      change (Bn 1) with (B ^ 1). rewrite Z.pow_1_r, Hh, <- Hval.
      assert (Hd' : d * a = y * a + B * q) by (rewrite <- Hab; rewrite Hdm at 1; ring).
      replace (d * (Bn (length rp) * a)) with (Bn (length rp) * (d * a)) by ring. rewrite Hd'. ring.
    + intros Hd0 _ Hq1. cbn [nlz] in Hd0. split; [ destruct rp; cbn [app]; congruence | ].
      rewrite app_length. cbn [length]. replace (length rp + 1 - 1)%nat with (length rp) by lia.
      rewrite eval_app. cbn [eval]. fold (Bn (length rp)).
      pose proof (eval_lt _ Hwf) as Hrp.
      assert (Hy1 : 1 <= y) by (rewrite Hq1 in Hdm; lia).
      assert (1 <= res + y * a) by nia. nia.
  - (* the limb is not complete *)
    assert (Hbits2 : 2 ^ bits * 2 ^ (64 - nbp - bits) = b).
    { unfold b. rewrite <- Z.pow_add_r by lia. f_equal. lia. }
    assert (Hc : 0 < 2 ^ (64 - nbp - bits)) by (apply Z.pow_pos_nonneg; lia).
    assert (Hdb : d < b) by nia.
    assert (Hyd : y = d) by (unfold y; apply Z.mod_small; lia).
    assert (Hpab : 2 ^ (nbp + bits) = a * 2 ^ bits) by (rewrite Z.pow_add_r by lia; reflexivity).
    assert (Hda : 0 <= d * a <= (2 ^ bits - 1) * a).
    { split; [ apply Z.mul_nonneg_nonneg; lia | apply Z.mul_le_mono_nonneg_r; lia ]. }
    split; [ exact Hwf | ]. split; [ lia | ]. split; [ rewrite Hpab, Hyd; lia | ].
    split; [ rewrite Hlen; lia | ]. split.
    + rewrite Hh, <- Hval, Hyd. ring.
    + intros Hd0 _ Hr0. cbn [nlz] in Hd0. exfalso. rewrite Hyd in Hr0. nia.
Qed.

Lemma p2_fold : forall s, Forall (dig (2 ^ bits)) s ->
  p2_inv s (fold_left (pow2_step bits) (rev s) (0, 0, [])).
Proof.
  induction s as [|d s IH]; intros Hdig.
  - cbn [rev fold_left p2_inv]. split; [ apply wf_nil | ]. split; [ lia | ]. split; [ cbn; lia | ].
    split; [ unfold len; cbn [length]; lia | ]. split; [ cbn [eval length]; rewrite horner_nil; lia | ].
    intros _ H. congruence.
  - apply Forall_cons_iff in Hdig. destruct Hdig as [Hd Hs]. cbn [rev]. rewrite fold_left_app. cbn [fold_left].
    apply p2_step_inv; [ exact Hd | apply IH; exact Hs ].
Qed.

(* MAIN THEOREM (power of two bases, bits_per_indigit = bits, base = 2^bits): the packed limbs have the
   value horner base str; when the most significant digit is non-zero the top limb is non-zero, i.e. the
   returned size is the limb count.  (With a zero leading digit high zero limbs may be included, as
   documented for mpn_set_str.) *)
Theorem set_str_pow2_correct str : Forall (dig (2 ^ bits)) str ->
  let l := set_str_pow2 str bits in
  wf l /\ eval l = horner (2 ^ bits) str /\ (nlz str -> str <> [] -> normal l /\ len l = nlimbs (horner (2 ^ bits) str)).
Proof.
  intros Hdig. cbv zeta. unfold set_str_pow2. pose proof (p2_fold str Hdig) as Hinv.
  destruct (fold_left (pow2_step bits) (rev str) (0, 0, [])) as [[res nbp] rp].
  unfold p2_inv in Hinv. destruct Hinv as (Hwf & Hnbp & Hres & Hpos & Hval & Hnz).
  assert (HresB : res < B).
  { rewrite B_pow2. assert (2 ^ nbp <= 2 ^ 64) by (apply Z.pow_le_mono_r; lia). lia. }
  destruct (Z.eqb_spec res 0) as [E|E].
  - split; [ exact Hwf | ]. split; [ rewrite <- Hval, E; lia | ].
    intros H1 H2. destruct (Hnz H1 H2 E) as [Hne Hlow].
    assert (Hn : normal rp) by (split; [ exact Hwf | intros _; exact Hlow ]).
    split; [ exact Hn | ]. rewrite <- Hval, E, Z.mul_0_r, Z.add_0_r. apply normal_len. exact Hn.
  - assert (Hwf2 : wf (rp ++ [res])) by (apply wf_app; [ exact Hwf | apply wf_cons; [ unfold limb; lia | apply wf_nil ] ]).
    assert (Hev : eval (rp ++ [res]) = horner (2 ^ bits) str).
    { rewrite eval_app. cbn [eval]. fold (Bn (length rp)). rewrite <- Hval. ring. }
    split; [ exact Hwf2 | ]. split; [ exact Hev | ]. intros _ _.
    assert (Hn : normal (rp ++ [res])).
    { split; [ exact Hwf2 | ]. intros _. rewrite app_length. cbn [length].
      replace (length rp + 1 - 1)%nat with (length rp) by lia.
      rewrite eval_app. cbn [eval]. fold (Bn (length rp)).
      pose proof (eval_lt _ Hwf). pose proof (Bn_pos (length rp)). nia. }
    split; [ exact Hn | ]. rewrite <- Hev. apply normal_len. exact Hn.
Qed.

End P2.

(* ------------------------------------------------------------------ *)
(* mpn_set_str, other bases: threshold choice                           *)
(* ------------------------------------------------------------------ *)

Section Other.
Variables base cpl bigb c o pre_thr dc_thr : Z.
Hypothesis Hbase : 2 <= base.
Hypothesis Hcpl : 1 <= cpl.
Hypothesis Hbigb : bigb = base ^ cpl.
Hypothesis HbigbB : bigb < B.
Hypothesis H10 : base = 10 -> cpl = MP_BASES_CHARS_PER_LIMB_10.
Hypothesis Hc : 0 <= c.
Hypothesis Hco : bigb = 2 ^ c * o.
Hypothesis Hodd : Z.odd o = true.
Hypothesis Hmask : Z.land bigb (wrap (- bigb)) - 1 = Z.ones c.
(* SET_STR_DC_THRESHOLD > chars_per_limb, SET_STR_PRECOMPUTE_THRESHOLD >= chars_per_limb *)
Hypothesis Hdc : cpl < dc_thr.
Hypothesis Hpre : cpl <= pre_thr.

Theorem set_str_other_correct str :
  str <> [] -> Forall (dig base) str -> len str < 2 ^ 32 ->
  exists l, set_str_other pre_thr dc_thr str base cpl bigb = Some l /\ res_ok base str l.
Proof.
  intros Hne Hdig Hsmall. unfold set_str_other.
  destruct (BELOW_THRESHOLD (len str) pre_thr) eqn:Eb.
  - apply bc_res_ok; assumption.
  - apply below_false in Eb; [ | lia ].
    set (m := len str / cpl).
    assert (Hm1 : 1 <= m).
    { assert (0 < m); [ | lia ]. apply Z.div_str_pos. lia. }
    assert (Hm2 : m <= len str).
    { apply Z.div_le_upper_bound; [ lia | ]. pose proof (len_nonneg str). nia. }
    pose proof (Z.div_mod (len str) cpl ltac:(lia)) as Hdm. fold m in Hdm.
    pose proof (Z.mod_pos_bound (len str) cpl ltac:(lia)) as Hmod.
    destruct (compute_powtab_correct base cpl bigb c o Hbase Hcpl Hbigb HbigbB Hc Hco Hodd Hmask (m + 1)
                ltac:(lia) ltac:(lia)) as (tab & Hrun & Htab & _ & Hhd & _).
    rewrite Hrun.
    apply dc_set_str_correct; try assumption.
    rewrite Hhd. replace (m + 1 - 1) with m by lia.
    rewrite Z.shiftr_div_pow2 by lia. change (2 ^ 1) with 2.
    pose proof (Z.div_mod m 2 ltac:(lia)) as Hd2. pose proof (Z.mod_pos_bound m 2 ltac:(lia)) as Hm2'.
    nia.
Qed.

End Other.


(* ------------------------------------------------------------------ *)
(* (big_base & -big_base) - 1 for an arbitrary limb                     *)
(* ------------------------------------------------------------------ *)

Lemma odd_part p : exists c o, 0 <= c /\ Zpos p = 2 ^ c * o /\ Z.odd o = true.
Proof.
  induction p as [p IH|p IH|].
  - exists 0, (Zpos p~1). split; [ lia | ]. split; [ rewrite Z.pow_0_r; lia | reflexivity ].
  - destruct IH as (c & o & Hc & Hp & Ho). exists (c + 1), o. split; [ lia | ]. split; [ | exact Ho ].
    rewrite Z.pow_add_r, Z.pow_1_r by lia. rewrite Pos2Z.inj_xO, Hp. ring.
  - exists 0, 1. split; [ lia | ]. split; reflexivity.
Qed.

(* two odd numbers with sum 2^k share only bit 0 *)
Lemma land_odd_compl o k : 1 <= k -> 0 < o < 2 ^ k -> Z.odd o = true -> Z.land o (2 ^ k - o) = 1.
Proof.
  intros Hk Ho Hodd.
  set (u := Z.ldiff (Z.ones k) o).
  assert (Hu : Z.ones k - o = u).
  { unfold u. apply Z.sub_nocarry_ldiff. apply Z.bits_inj'. intros j Hj.
    rewrite Z.ldiff_spec, Z.bits_0.
    destruct (Z.lt_ge_cases j k) as [L|L].
    - rewrite Z.ones_spec_low by lia. apply andb_false_r.
    - rewrite (small_testbit o k j) by lia. reflexivity. }
  assert (Hub : forall j, 0 <= j -> Z.testbit u j = if j <? k then negb (Z.testbit o j) else false).
  { intros j Hj. unfold u. rewrite Z.ldiff_spec. destruct (Z.ltb_spec j k) as [L|L].
    - rewrite Z.ones_spec_low by lia. reflexivity.
    - rewrite Z.ones_spec_high by lia. reflexivity. }
  assert (Hu0 : Z.testbit u 0 = false).
  { rewrite Hub by lia. destruct (Z.ltb_spec 0 k); [ | lia ]. rewrite Z.bit0_odd, Hodd. reflexivity. }
  assert (Hv : 2 ^ k - o = Z.lor u 1).
  { replace (2 ^ k - o) with (u + 1) by (rewrite <- Hu, Z.ones_equiv; lia).
    rewrite Z.add_nocarry_lxor.
    - apply Z.lxor_lor. apply Z.bits_inj'. intros j Hj. rewrite Z.land_spec, Z.bits_0.
      destruct (Z.eq_dec j 0) as [E|E]; [ subst j; rewrite Hu0; reflexivity | ].
      replace (Z.testbit 1 j) with false; [ apply andb_false_r | ].
      symmetry. change 1 with (2 ^ 0). apply Z.pow2_bits_false. lia.
    - apply Z.bits_inj'. intros j Hj. rewrite Z.land_spec, Z.bits_0.
      destruct (Z.eq_dec j 0) as [E|E]; [ subst j; rewrite Hu0; reflexivity | ].
      replace (Z.testbit 1 j) with false; [ apply andb_false_r | ].
      symmetry. change 1 with (2 ^ 0). apply Z.pow2_bits_false. lia. }
  rewrite Hv. apply Z.bits_inj'. intros j Hj. rewrite Z.land_spec, Z.lor_spec.
  destruct (Z.eq_dec j 0) as [E|E].
  - subst j. rewrite Hu0. rewrite Z.bit0_odd, Hodd. reflexivity.
  - replace (Z.testbit 1 j) with false by (symmetry; change 1 with (2 ^ 0); apply Z.pow2_bits_false; lia).
    rewrite orb_false_r, Hub by lia. destruct (j <? k); [ apply andb_negb_r | apply andb_false_r ].
Qed.

Lemma lowbit_exists x : 0 < x < B ->
  exists c o, 0 <= c /\ x = 2 ^ c * o /\ Z.odd o = true /\ Z.land x (wrap (- x)) - 1 = Z.ones c.
Proof.
  intros Hx. destruct x as [|p|p]; try lia.
  destruct (odd_part p) as (c & o & Hc & Hp & Ho). exists c, o.
  split; [ exact Hc | ]. split; [ exact Hp | ]. split; [ exact Ho | ].
  set (x := Zpos p) in *.
  assert (H2c : 0 < 2 ^ c) by (apply Z.pow_pos_nonneg; lia).
  assert (Hopos : 0 < o) by nia.
  assert (Hc64 : c < 64).
  { rewrite B_pow2 in Hx. assert (Hlt : 2 ^ c < 2 ^ 64) by nia. apply Z.pow_lt_mono_r_iff in Hlt; lia. }
  assert (HB : B = 2 ^ c * 2 ^ (64 - c)).
  { rewrite B_pow2, <- Z.pow_add_r by lia. f_equal. lia. }
  assert (Hw : wrap (- x) = 2 ^ c * (2 ^ (64 - c) - o)).
  { unfold wrap. symmetry. apply Z.mod_unique with (-1); [ left; lia | ]. rewrite HB, Hp. ring. }
  assert (Hok : o < 2 ^ (64 - c)) by nia.
  rewrite Hw. rewrite Hp at 1.
  rewrite (Z.mul_comm (2 ^ c) o), (Z.mul_comm (2 ^ c) (2 ^ (64 - c) - o)).
  rewrite <- !Z.shiftl_mul_pow2 by lia. rewrite <- Z.shiftl_land.
  rewrite land_odd_compl by (try lia; exact Ho).
  rewrite Z.shiftl_mul_pow2 by lia. rewrite Z.ones_equiv. lia.
Qed.

(* the general theorems without the hypotheses on the low bits of big_base *)
Theorem compute_powtab_correct' base cpl bigb un :
  2 <= base -> 1 <= cpl -> bigb = base ^ cpl -> bigb < B ->
  2 <= un -> un - 1 < 2 ^ 32 ->
  exists tab, mpn_set_str_compute_powtab un base cpl bigb = Some tab
    /\ tab_ok base cpl tab /\ Z.of_nat (length tab) = Z.log2 (un - 1) + 1
    /\ pw_digits_in_base (hd (mkpow [] 0 0 0 0) tab) = cpl * (Z.shiftr (un - 1) 1 + 1)
    /\ (forall (j : nat) e, nth_error tab j = Some e ->
          let ej := Z.shiftr (un - 1) (Z.of_nat j + 1) + 1 in
          pw_digits_in_base e = cpl * ej /\ eval (pw_p e) * B ^ pw_shift e = bigb ^ ej).
Proof.
  intros Hbase Hcpl Hbigb HbigbB Hun Hsmall.
  assert (Hpos : 0 < bigb) by (rewrite Hbigb; apply Z.pow_pos_nonneg; lia).
  destruct (lowbit_exists bigb ltac:(lia)) as (c & o & Hc & Hco & Hodd & Hmask).
  exact (compute_powtab_correct base cpl bigb c o Hbase Hcpl Hbigb HbigbB Hc Hco Hodd Hmask un Hun Hsmall).
Qed.

Theorem set_str_other_correct' base cpl bigb pre_thr dc_thr str :
  2 <= base -> 1 <= cpl -> bigb = base ^ cpl -> bigb < B ->
  (base = 10 -> cpl = MP_BASES_CHARS_PER_LIMB_10) -> cpl < dc_thr -> cpl <= pre_thr ->
  str <> [] -> Forall (dig base) str -> len str < 2 ^ 32 ->
  exists l, set_str_other pre_thr dc_thr str base cpl bigb = Some l /\ res_ok base str l.
Proof.
  intros Hbase Hcpl Hbigb HbigbB H10 Hdc Hpre Hne Hdig Hsmall.
  assert (Hpos : 0 < bigb) by (rewrite Hbigb; apply Z.pow_pos_nonneg; lia).
  destruct (lowbit_exists bigb ltac:(lia)) as (c & o & Hc & Hco & Hodd & Hmask).
  exact (set_str_other_correct base cpl bigb c o pre_thr dc_thr Hbase Hcpl Hbigb HbigbB H10 Hc Hco Hodd Hmask
           Hdc Hpre str Hne Hdig Hsmall).
Qed.

(* ------------------------------------------------------------------ *)
(* mpn_set_str with the regenerated table and thresholds                *)
(* ------------------------------------------------------------------ *)

(* what the theorems need of one entry of mp_bases (checked by computation on the regenerated table) *)
Definition entry_check (e : Z * (Z * (Z * Z) * Z * Z)) : bool :=
  let '(b, (cpl, _, bigb, _)) := e in
  if POW2_P b then (1 <=? bigb) && (bigb <=? 64) && (b =? 2 ^ bigb)
  else
    (2 <=? b) && (1 <=? cpl) && (bigb =? b ^ cpl) && (bigb <? B)
    && (negb (b =? 10) || (cpl =? MP_BASES_CHARS_PER_LIMB_10))
    && (cpl <? thr_SET_STR_DC_THRESHOLD) && (cpl <=? thr_SET_STR_PRECOMPUTE_THRESHOLD).

Lemma table_check :
  forallb (fun n => match find (fun e => fst e =? n) bases64 with
                    | Some e => (fst e =? n) && entry_check e
                    | None => false
                    end) (map Z.of_nat (seq 2 61)) = true.
Proof. vm_compute. reflexivity. Qed.

Lemma table_entry base : 2 <= base <= 62 ->
  exists e, find (fun e => fst e =? base) bases64 = Some e /\ fst e = base /\ entry_check e = true.
Proof.
  intros Hb. pose proof table_check as H. rewrite forallb_forall in H.
  specialize (H base). destruct (find (fun e => fst e =? base) bases64) as [e|].
  - exists e. split; [ reflexivity | ].
    assert (Hin : In base (map Z.of_nat (seq 2 61))).
    { apply in_map_iff. exists (Z.to_nat base). split; [ lia | apply in_seq; lia ]. }
    specialize (H Hin). apply andb_true_iff in H. destruct H as [H1 H2].
    split; [ apply Z.eqb_eq; exact H1 | exact H2 ].
  - assert (Hin : In base (map Z.of_nat (seq 2 61))).
    { apply in_map_iff. exists (Z.to_nat base). split; [ lia | apply in_seq; lia ]. }
    specialize (H Hin). discriminate.
Qed.

(* MAIN THEOREM (top level): for every base 2..62, with chars_per_limb / big_base of the regenerated
   mp_bases table and the regenerated SET_STR_DC_THRESHOLD / SET_STR_PRECOMPUTE_THRESHOLD, every digit
   string of length >= 1 (below 2^32 digits) is converted to limbs of value horner base str; the
   returned size is the limb count of the value when the most significant digit is non-zero. *)
Theorem mpn_set_str_correct base str :
  2 <= base <= 62 -> str <> [] -> Forall (dig base) str -> len str < 2 ^ 32 ->
  exists l, mpn_set_str str base = Some l /\ wf l /\ eval l = horner base str
            /\ (nlz str -> normal l /\ len l = nlimbs (horner base str)).
Proof.
  intros Hb Hne Hdig Hsmall.
  destruct (table_entry base Hb) as (e & Hfind & Hfst & Hchk).
  unfold mpn_set_str, mp_bases. rewrite Hfind.
  destruct e as [b [[[cpl me] bigb] bbi]]. cbn [fst] in Hfst. subst b.
  unfold entry_check in Hchk.
  destruct (POW2_P base) eqn:Ep.
  - apply andb_true_iff in Hchk. destruct Hchk as [Hchk H3]. apply andb_true_iff in Hchk. destruct Hchk as [H1 H2].
    apply Z.leb_le in H1. apply Z.leb_le in H2. apply Z.eqb_eq in H3.
    rewrite H3 in Hdig.
    destruct (set_str_pow2_correct bigb ltac:(lia) str Hdig) as (Hwf & Hev & Hn).
    eexists. split; [ reflexivity | ]. rewrite H3. split; [ exact Hwf | ]. split; [ exact Hev | ].
    intros Hnlz. apply Hn; assumption.
  - apply andb_true_iff in Hchk. destruct Hchk as [Hchk Hk4]. apply andb_true_iff in Hchk. destruct Hchk as [Hchk Hk5].
    apply andb_true_iff in Hchk. destruct Hchk as [Hchk Hk6]. apply andb_true_iff in Hchk. destruct Hchk as [Hchk Hk7].
    apply andb_true_iff in Hchk. destruct Hchk as [Hchk Hk8]. apply andb_true_iff in Hchk. destruct Hchk as [Hchk Hk9].
    apply Z.leb_le in Hchk. apply Z.leb_le in Hk9. apply Z.eqb_eq in Hk8. apply Z.ltb_lt in Hk7.
    apply Z.ltb_lt in Hk5. apply Z.leb_le in Hk4.
    assert (H10 : base = 10 -> cpl = MP_BASES_CHARS_PER_LIMB_10).
    { intros E. apply orb_true_iff in Hk6. destruct Hk6 as [Hk6|Hk6].
      - apply negb_true_iff in Hk6. apply Z.eqb_neq in Hk6. congruence.
      - apply Z.eqb_eq. exact Hk6. }
    destruct (set_str_other_correct' base cpl bigb thr_SET_STR_PRECOMPUTE_THRESHOLD thr_SET_STR_DC_THRESHOLD str
                Hchk Hk9 Hk8 Hk7 H10 Hk5 Hk4 Hne Hdig Hsmall) as (l & Hrun & Hok).
    exists l. split; [ exact Hrun | ]. destruct Hok as (Hwf & Hev & _ & Hn).
    split; [ exact Hwf | ]. split; [ exact Hev | ]. intros Hnlz. specialize (Hn Hnlz).
    split; [ exact Hn | ]. rewrite <- Hev. apply normal_len. exact Hn.
Qed.

(* ------------------------------------------------------------------ *)
(* the internal routines with the regenerated table entries             *)
(* ------------------------------------------------------------------ *)

(* everything the general theorems assume, for an entry of the regenerated table that is not a power of 2 *)
Definition params_ok (base cpl bigb : Z) : Prop :=
  2 <= base /\ 1 <= cpl /\ bigb = base ^ cpl /\ bigb < B
  /\ (base = 10 -> cpl = MP_BASES_CHARS_PER_LIMB_10)
  /\ cpl < thr_SET_STR_DC_THRESHOLD /\ cpl <= thr_SET_STR_PRECOMPUTE_THRESHOLD.

Lemma table_params base : 2 <= base <= 62 -> POW2_P base = false ->
  exists cpl bigb, mp_bases base = (cpl, bigb) /\ params_ok base cpl bigb.
Proof.
  intros Hb Ep. destruct (table_entry base Hb) as (e & Hfind & Hfst & Hchk).
  unfold mp_bases. rewrite Hfind.
  destruct e as [b [[[cpl me] bigb] bbi]]. cbn [fst] in Hfst. subst b.
  unfold entry_check in Hchk. rewrite Ep in Hchk.
  apply andb_true_iff in Hchk. destruct Hchk as [Hchk Hk4]. apply andb_true_iff in Hchk. destruct Hchk as [Hchk Hk5].
  apply andb_true_iff in Hchk. destruct Hchk as [Hchk Hk6]. apply andb_true_iff in Hchk. destruct Hchk as [Hchk Hk7].
  apply andb_true_iff in Hchk. destruct Hchk as [Hchk Hk8]. apply andb_true_iff in Hchk. destruct Hchk as [Hchk Hk9].
  apply Z.leb_le in Hchk. apply Z.leb_le in Hk9. apply Z.eqb_eq in Hk8. apply Z.ltb_lt in Hk7.
  apply Z.ltb_lt in Hk5. apply Z.leb_le in Hk4.
  exists cpl, bigb. split; [ reflexivity | ].
  unfold params_ok. repeat (split; [ assumption | ]). split; [ | split; assumption ].
  intros E. apply orb_true_iff in Hk6. destruct Hk6 as [Hk6|Hk6].
  - apply negb_true_iff in Hk6. apply Z.eqb_neq in Hk6. congruence.
  - apply Z.eqb_eq. exact Hk6.
Qed.

(* basecase, every base 2..62 that is not a power of two, table fields from Gen_Consts.bases64 *)
Theorem bc_set_str_table base str :
  2 <= base <= 62 -> POW2_P base = false -> str <> [] -> Forall (dig base) str ->
  exists l, mpn_bc_set_str str base (fst (mp_bases base)) (snd (mp_bases base)) = Some l
            /\ normal l /\ eval l = horner base str /\ len l = nlimbs (horner base str).
Proof.
  intros Hb Ep Hne Hdig. destruct (table_params base Hb Ep) as (cpl & bigb & Hmp & Hp).
  rewrite Hmp. cbn [fst snd]. destruct Hp as (H1 & H2 & H3 & H4 & H5 & _).
  apply bc_set_str_correct; assumption.
Qed.

(* power table + divide and conquer as the top level calls them (un = str_len / chars_per_limb + 1) *)
Theorem dc_set_str_table base str :
  2 <= base <= 62 -> POW2_P base = false -> Forall (dig base) str ->
  let cpl := fst (mp_bases base) in let bigb := snd (mp_bases base) in
  cpl <= len str < 2 ^ 32 ->
  exists tab l,
    mpn_set_str_compute_powtab (len str / cpl + 1) base cpl bigb = Some tab
    /\ tab_ok base cpl tab
    /\ mpn_dc_set_str thr_SET_STR_DC_THRESHOLD cpl bigb str tab = Some l
    /\ wf l /\ eval l = horner base str
    /\ (nlz str -> normal l /\ len l = nlimbs (horner base str)).
Proof.
  intros Hb Ep Hdig. destruct (table_params base Hb Ep) as (cpl & bigb & Hmp & Hp).
  rewrite Hmp. cbn [fst snd]. intros Hlen.
  destruct Hp as (H1 & H2 & H3 & H4 & H5 & H10 & H11).
  set (m := len str / cpl).
  assert (Hm1 : 1 <= m).
  { assert (0 < m); [ | lia ]. apply Z.div_str_pos. lia. }
  assert (Hm2 : m <= len str).
  { apply Z.div_le_upper_bound; [ lia | ]. nia. }
  pose proof (Z.div_mod (len str) cpl ltac:(lia)) as Hdm. fold m in Hdm.
  pose proof (Z.mod_pos_bound (len str) cpl ltac:(lia)) as Hmod.
  destruct (compute_powtab_correct' base cpl bigb (m + 1) H1 H2 H3 H4
              ltac:(lia) ltac:(lia)) as (tab & Hrun & Htab & _ & Hhd & _).
  assert (Hne : str <> []) by (intros E; rewrite E in Hlen; unfold len in Hlen; cbn [length] in Hlen; lia).
  destruct (dc_set_str_correct base cpl bigb thr_SET_STR_DC_THRESHOLD H1 H2 H3 H4 H5 H10 tab str Htab Hne Hdig)
    as (l & Hrl & Hok).
  { rewrite Hhd. replace (m + 1 - 1) with m by lia.
    rewrite Z.shiftr_div_pow2 by lia. change (2 ^ 1) with 2.
    pose proof (Z.div_mod m 2 ltac:(lia)) as Hd2. pose proof (Z.mod_pos_bound m 2 ltac:(lia)) as Hm2'.
    nia. }
  exists tab, l. split; [ exact Hrun | ]. split; [ exact Htab | ]. split; [ exact Hrl | ].
  destruct Hok as (Hwf & Hev & _ & Hn). split; [ exact Hwf | ]. split; [ exact Hev | ].
  intros Hnlz. specialize (Hn Hnlz). split; [ exact Hn | ]. rewrite <- Hev. apply normal_len. exact Hn.
Qed.

(* ------------------------------------------------------------------ *)
(* the hypotheses are satisfiable: a non-trivial input                   *)
(* ------------------------------------------------------------------ *)

(* 100 decimal digits; with SET_STR_PRECOMPUTE_THRESHOLD = 40 and SET_STR_DC_THRESHOLD = 30 the
   conversion builds a three-entry power table and recurses *)
Definition ex_digits : list Z :=
  [3;1;4;1;5;9;2;6;5;3;5;8;9;7;9;3;2;3;8;4;6;2;6;4;3;3;8;3;2;7;9;5;0;2;8;8;4;1;9;7;1;6;9;3;9;9;3;7;5;1;
   0;5;8;2;0;9;7;4;9;4;4;5;9;2;3;0;7;8;1;6;4;0;6;2;8;6;2;0;8;9;9;8;6;2;8;0;3;4;8;2;5;3;4;2;1;1;7;0;6;7].

Example ex_hypotheses :
  (2 <= 10 /\ 1 <= 19 /\ 10 ^ 19 = 10 ^ 19 /\ 10 ^ 19 < B /\ (10 = 10 -> 19 = MP_BASES_CHARS_PER_LIMB_10)
   /\ 0 <= 19 /\ 10 ^ 19 = 2 ^ 19 * 5 ^ 19 /\ Z.odd (5 ^ 19) = true
   /\ Z.land (10 ^ 19) (wrap (- 10 ^ 19)) - 1 = Z.ones 19 /\ 19 < 30 /\ 19 <= 40)
  /\ ex_digits <> [] /\ forallb (fun d => (0 <=? d) && (d <? 10)) ex_digits = true /\ len ex_digits < 2 ^ 32.
Proof.
  rewrite B_val. repeat split; try (vm_compute; first [ reflexivity | discriminate ]).
Qed.

Example ex_run_dc :
  set_str_other 40 30 ex_digits 10 19 (10 ^ 19)
  = Some (limbs_of (Z.to_nat (nlimbs (horner 10 ex_digits))) (horner 10 ex_digits))
  /\ option_map (map (fun e => (pw_n e, pw_shift e, pw_digits_in_base e)))
       (mpn_set_str_compute_powtab (len ex_digits / 19 + 1) 10 19 (10 ^ 19)) = Some [(3, 0, 57); (2, 0, 38); (1, 0, 19)].
Proof. split; vm_compute; reflexivity. Qed.

Example ex_run_top :
  mpn_set_str ex_digits 10 = Some (limbs_of (Z.to_nat (nlimbs (horner 10 ex_digits))) (horner 10 ex_digits))
  /\ mpn_set_str [1; 0; 15; 15; 15; 15; 15; 15; 15; 15; 15; 15; 15; 15; 15; 15; 15; 15] 16 = Some [B - 1; 16].
Proof. rewrite B_val. split; vm_compute; reflexivity. Qed.

(* the top-level divide and conquer path with the real thresholds: 2000 decimal digits (the result is
   compared through its value, length and limb bounds: Coq's Z division makes limbs_of slow here) *)
Fixpoint ex_gen (n : nat) (x : Z) : list Z :=
  match n with O => [] | S k => (x / 7) mod 10 :: ex_gen k ((x * 1103515245 + 12345) mod 2147483648) end.
Definition ex_long : list Z := 7 :: ex_gen (40 * 50 - 1) 42.

Example ex_run_top_dc :
  len ex_long = 2000
  /\ option_map (fun l => (eval l, len l, wfb l)) (mpn_set_str ex_long 10)
     = Some (horner 10 ex_long, nlimbs (horner 10 ex_long), true)
  (* (n, shift, digits_in_base) of powtab[0..6]: stripped low zero limbs from 10^95 on *)
  /\ option_map (map (fun e => (pw_n e, pw_shift e, pw_digits_in_base e)))
       (mpn_set_str_compute_powtab (2000 / 19 + 1) 10 19 (10 ^ 19))
     = Some [(38, 15, 1007); (20, 7, 513); (11, 3, 266); (6, 1, 133); (4, 0, 76); (2, 0, 38); (1, 0, 19)].
Proof. split; [ | split ]; vm_compute; reflexivity. Qed.

(* all main theorems are closed under the global context *)
Print Assumptions bc_set_str_correct.
Print Assumptions compute_powtab_correct.
Print Assumptions compute_powtab_correct'.
Print Assumptions dc_set_str_correct.
Print Assumptions set_str_pow2_correct.
Print Assumptions set_str_other_correct'.
Print Assumptions mpn_set_str_correct.
Print Assumptions bc_set_str_table.
Print Assumptions dc_set_str_table.
Print Assumptions lowbit_exists.
Print Assumptions ex_run_top_dc.
