(* PowmWDefs.v — mpn_powm (mpn/generic/powm.c) and mpz_powm (mpz/powm.c) AS CODED:
   win_size, getbit, getbits, redcify, the table of odd powers in Montgomery form, the
   sliding-window main loop (INNERLOOP) in its redc_1 branch, the conversion out of
   Montgomery form and the final canonical reduction; and the mpz_powm wrapper (e = 0,
   negative exponent through mpz_invert, b = 0, e = 1, the split m = 2^t * modd of an even
   modulus with mpn_powlo on the power-of-two part and the recombination, negative base).
   Definitions only; the theorems are in PowmWProofs.v.

   Conventions: limb lists are least significant first (Limbs.v), B = 2^64, no nails.
   An n-limb area that is only ever used through mpn_mul_n / mpn_sqr / mpn_redc_1 /
   mpn_tdiv_qr / mpn_powlo / mpn_binvert / mpn_mullow_n / mpn_mul is carried as its value
   (a Z below B^n) and those helpers are taken at value level (PowDefs.redc_1,
   PowDefs.binvert_limb, PowDefs.powm_bin, GcdDefs.mpz_invert) with the truncation to the
   destination size written explicitly; the exponent, the modulus and the base are limb
   lists wherever the C code looks at individual limbs or bits.
   Build configuration modelled: WANT_REDC_2 undefined (no native addmul_2 / redc_2),
   n < REDC_1_TO_REDC_N_THRESHOLD, i.e. every reduction is MPN_REDC_1 (rp, tp, mp, n, mip[0]).
   Loops with explicit fuel return None (then mpn_powm_c returns [] and mpz_powm_c a size of
   -1), values that the theorems exclude. *)
From Coq Require Import ZArith List Bool.
From Mpir Require Import Word Limbs MpnBasicDefs MpzDefs DivDefs GcdDefs PowDefs.
Import ListNotations.
Local Open Scope Z_scope.

(* p[i] *)
Definition lat (l : list Z) (i : Z) : Z := nth (Z.to_nat i) l 0.

(* an n-limb area holding the value v (v mod B^n) *)
Fixpoint to_limbs (n : nat) (v : Z) : list Z :=
  match n with O => [] | S k => v mod B :: to_limbs k (v / B) end.

(* ------------------------------------------------------------------------------------ *)
(* mpn/generic/powm.c                                                                   *)
(* ------------------------------------------------------------------------------------ *)

(* powm.c:100-101
     #define getbit(p,bi) ((p[(bi - 1) / GMP_LIMB_BITS] >> (bi - 1) % GMP_LIMB_BITS) & 1) *)
Definition getbit (p : list Z) (bi : Z) : Z :=
  Z.land (Z.shiftr (lat p ((bi - 1) / 64)) ((bi - 1) mod 64)) 1.

(* powm.c:103-125  static inline mp_limb_t getbits (const mp_limb_t *p, mp_bitcnt_t bi, int nbits)
     if (bi < nbits)
       return p[0] & (((mp_limb_t) 1 << bi) - 1);
     else {
       bi -= nbits;                       /* bit index of low bit to extract */
       i = bi / GMP_NUMB_BITS;            /* word index of low bit to extract */
       bi %= GMP_NUMB_BITS;               /* bit index in low word */
       r = p[i] >> bi;                    /* extract (low) bits */
       nbits_in_r = GMP_NUMB_BITS - bi;   /* number of bits now in r */
       if (nbits_in_r < nbits)            /* did we get enough bits? */
         r += p[i + 1] << nbits_in_r;     /* prepend bits from higher word */
       return r & (((mp_limb_t ) 1 << nbits) - 1);
     }                                                                                     *)
Definition getbits (p : list Z) (bi nbits : Z) : Z :=
  if bi <? nbits then
    Z.land (lat p 0) (wrap (wrap (Z.shiftl 1 bi) - 1))
  else
    let bi := bi - nbits in
    let i := bi / 64 in
    let bi := bi mod 64 in
    let r := Z.shiftr (lat p i) bi in
    let nbits_in_r := 64 - bi in
    let r := if nbits_in_r <? nbits
             then wrap (r + wrap (Z.shiftl (lat p (i + 1)) nbits_in_r))
             else r in
    Z.land r (wrap (wrap (Z.shiftl 1 nbits) - 1)).

(* powm.c:127-135  static inline int win_size (mp_bitcnt_t eb)
     static mp_bitcnt_t x[] = {0,7,25,81,241,673,1793,4609,11521,28161,~(mp_bitcnt_t)0};
     for (k = 1; eb > x[k]; k++) ;
     return k;
   Out of fuel (cannot happen for eb <= ~0): 0, not a window size. *)
Definition win_tab : list Z := [0; 7; 25; 81; 241; 673; 1793; 4609; 11521; 28161; B - 1].
Fixpoint win_size_loop (fuel : nat) (eb k : Z) : Z :=
  match fuel with
  | O => 0
  | S f => if lat win_tab k <? eb then win_size_loop f eb (k + 1) else k
  end.
Definition win_size (eb : Z) : Z := win_size_loop 11 eb 1.

(* gmp-impl.h:2728-2737  MPN_SIZEINBASE_2EXP (ebi, ep, en, 1):
     count_leading_zeros (__cnt, (ptr)[(size)-1]);
     __totbits = (mp_bitcnt_t) (size) * GMP_NUMB_BITS - (__cnt - GMP_NAIL_BITS);
     (result) = (__totbits + (base2exp)-1) / (base2exp);                                   *)
Definition sizeinbase_2exp (ep : list Z) : Z :=
  let en := len ep in
  let cnt := clz (lat ep (en - 1)) in
  let totbits := en * 64 - cnt in
  (totbits + 1 - 1) / 1.

(* powm.c:137-152  redcify (rp, up, un, mp, n):  U_r = B^n * U mod M
     MPN_ZERO (tp, n); MPN_COPY (tp + n, up, un); mpn_tdiv_qr (qp, rp, 0L, tp, un + n, mp, n); *)
Definition redcify (u m : Z) (n : nat) : Z := (B ^ Z.of_nat n * u) mod m.

(* powm.c:243-259  (redc_1 branch)
     for (i = (1 << (windowsize - 1)) - 1; i > 0; i--) {
       mpn_mul_n (tp, this_pp, rp, n);
       this_pp += n;
       MPN_REDC_1 (this_pp, tp, mp, n, mip[0]);
     }
   rp holds b^2 in Montgomery form; the result is the list of the entries written after
   the first one. *)
Fixpoint precomp (i : nat) (this_pp b2 m : Z) (n : nat) (invm : Z) : list Z :=
  match i with
  | O => []
  | S j => let nx := redc_1 (this_pp * b2) m n invm in
           nx :: precomp j nx b2 m n invm
  end.

(* powm.c:276-283  (inside INNERLOOP)
     while (getbit (ep, ebi) == 0) {
       MPN_SQR (tp, rp, n); MPN_REDUCE (rp, tp, mp, n, mip);
       ebi--;
       if (ebi == 0) goto done;
     }
   Result: (rp, ebi, whether `goto done` was taken). *)
Fixpoint skip0 (fuel : nat) (ep : list Z) (m : Z) (n : nat) (invm rp ebi : Z)
  : option (Z * Z * bool) :=
  match fuel with
  | O => None
  | S f =>
      if getbit ep ebi =? 0 then
        let rp := redc_1 (rp * rp) m n invm in
        let ebi := ebi - 1 in
        if ebi =? 0 then Some (rp, ebi, true)
        else skip0 f ep m n invm rp ebi
      else Some (rp, ebi, false)
  end.

(* powm.c:304-310
     do { MPN_SQR (tp, rp, n); MPN_REDUCE (rp, tp, mp, n, mip); this_windowsize--; }
     while (this_windowsize != 0);                                                         *)
Fixpoint sqr_dowhile (fuel : nat) (m : Z) (n : nat) (invm rp tw : Z) : option Z :=
  match fuel with
  | O => None
  | S f =>
      let rp := redc_1 (rp * rp) m n invm in
      let tw := tw - 1 in
      if tw =? 0 then Some rp else sqr_dowhile f m n invm rp tw
  end.

(* powm.c:273-314  INNERLOOP with MPN_REDUCE = MPN_REDC_1:
     while (ebi != 0) {
       while (getbit (ep, ebi) == 0) { ... }                      (skip0)
       expbits = getbits (ep, ebi, windowsize);
       this_windowsize = windowsize;
       if (ebi < windowsize) { this_windowsize -= windowsize - ebi; ebi = 0; }
       else ebi -= windowsize;
       count_trailing_zeros (cnt, expbits);
       this_windowsize -= cnt;  ebi += cnt;  expbits >>= cnt;
       do { ... } while (this_windowsize != 0);                   (sqr_dowhile)
       MPN_MUL_N (tp, rp, pp + n * (expbits >> 1), n);
       MPN_REDUCE (rp, tp, mp, n, mip);
     }
   pp is the table, one value per n-limb entry. *)
Fixpoint powm_loop (fuel : nat) (ep pp : list Z) (w m : Z) (n : nat) (invm rp ebi : Z)
  : option Z :=
  match fuel with
  | O => None
  | S f =>
      if ebi =? 0 then Some rp
      else
        match skip0 (Z.to_nat ebi) ep m n invm rp ebi with
        | None => None
        | Some (rp, ebi, true) => Some rp                                   (* goto done *)
        | Some (rp, ebi, false) =>
            let expbits := getbits ep ebi w in
            let this_w := w in
            let '(this_w, ebi) :=
              if ebi <? w then (this_w - (w - ebi), 0) else (this_w, ebi - w) in
            let cnt := ctz expbits in
            let this_w := this_w - cnt in
            let ebi := ebi + cnt in
            let expbits := Z.shiftr expbits cnt in
            match sqr_dowhile (Z.to_nat w) m n invm rp this_w with
            | None => None
            | Some rp =>
                let rp := redc_1 (rp * nth (Z.to_nat (Z.shiftr expbits 1)) pp (-1)) m n invm in
                powm_loop f ep pp w m n invm rp ebi
            end
        end
  end.

(* powm.c:158-580  mpn_powm (rp, bp, bn, ep, en, mp, n, tp), redc_1 branch.
     MPN_SIZEINBASE_2EXP(ebi, ep, en, 1);
     windowsize = win_size (ebi);
     modlimb_invert (mip[0], mp[0]);  mip[0] = -mip[0];
     this_pp = pp;  redcify (this_pp, bp, bn, mp, n);
     mpn_sqr (tp, this_pp, n);  MPN_REDC_1 (rp, tp, mp, n, mip[0]);        /* b^2 at rp */
     for (...) precomputation
     expbits = getbits (ep, ebi, windowsize);
     if (ebi < windowsize) ebi = 0; else ebi -= windowsize;
     count_trailing_zeros (cnt, expbits);  ebi += cnt;  expbits >>= cnt;
     MPN_COPY (rp, pp + n * (expbits >> 1), n);
     INNERLOOP
    done:
     MPN_COPY (tp, rp, n);  MPN_ZERO (tp + n, n);  MPN_REDC_1 (rp, tp, mp, n, mip[0]);
     if (mpn_cmp (rp, mp, n) >= 0) mpn_sub_n (rp, rp, mp, n);
   bl, el, ml: the limbs of base (bn = length), exponent (en = length) and modulus
   (n = length).  Result: the n limbs at rp ([] when a loop ran out of fuel). *)
Definition mpn_powm_c (bl el ml : list Z) : list Z :=
  let n := length ml in
  let m := eval ml in
  let ebi := sizeinbase_2exp el in
  let w := win_size ebi in
  let invm := wrap (- binvert_limb (lat ml 0)) in
  let pp0 := redcify (eval bl) m n in
  let b2 := redc_1 (pp0 * pp0) m n invm in
  let pp := pp0 :: precomp (Z.to_nat (Z.shiftl 1 (w - 1) - 1)) pp0 b2 m n invm in
  let expbits := getbits el ebi w in
  let ebi := if ebi <? w then 0 else ebi - w in
  let cnt := ctz expbits in
  let ebi := ebi + cnt in
  let expbits := Z.shiftr expbits cnt in
  let rp := nth (Z.to_nat (Z.shiftr expbits 1)) pp (-1) in
  match powm_loop (S (Z.to_nat ebi)) el pp w m n invm rp ebi with
  | None => []
  | Some rp =>
      let rp := to_limbs n (redc_1 rp m n invm) in
      if 0 <=? cmp rp ml then fst (sub_n rp ml) else rp
  end.

(* ------------------------------------------------------------------------------------ *)
(* mpz/powm.c                                                                           *)
(* ------------------------------------------------------------------------------------ *)

(* powm.c:156-160   while (UNLIKELY (mp[0] == 0)) { mp++; ncnt++; }
   ("This loop will terminate for correctly represented mpz numbers"; running off the end of
   the list gives an empty modulus, excluded by the theorems) *)
Fixpoint strip_low (mp : list Z) (ncnt : Z) : list Z * Z :=
  match mp with
  | [] => ([], ncnt)
  | x :: r => if x =? 0 then strip_low r (ncnt + 1) else (mp, ncnt)
  end.

(* mpn_binvert (odd_inv_2exp, mp, ncnt, scratch): the inverse of {mp, ncnt} modulo B^ncnt *)
Definition binvert_v (a k : Z) : Z :=
  match mpz_invert (a mod B ^ k) (B ^ k) with Some i => i | None => 0 end.

(* ret:  MPZ_REALLOC (r, rn); SIZ(r) = rn; MPN_COPY (PTR(r), rp, rn); *)
Definition ret (rn : Z) (rp : list Z) : res mpz := Ok (mkz rn (firstn (Z.to_nat rn) rp)).

(* MPN_NORMALIZE (rp, rn) starting from rn = length rp *)
Definition norm_len (rp : list Z) : Z := len (strip rp).

(* powm.c:117-151  the case en == 1 && ep[0] == 1 *)
Definition powm_e1 (b m : mpz) : res mpz :=
  let n := Z.abs (sz m) in
  let mp := d m in
  let bn := Z.abs (sz b) in
  let bp := d b in
  if n <=? bn then
    (* mpn_tdiv_qr (qp, rp, 0L, bp, bn, mp, n); rn = n; MPN_NORMALIZE (rp, rn); *)
    let rp := to_limbs (Z.to_nat n) (eval bp mod eval mp) in
    let rn := norm_len rp in
    if (sz b <? 0) && negb (rn =? 0) then
      (* mpn_sub (rp, mp, n, rp, rn); rn = n; MPN_NORMALIZE (rp, rn); *)
      let rp := fst (sub mp (firstn (Z.to_nat rn) rp)) in
      ret (norm_len rp) rp
    else ret rn rp
  else if sz b <? 0 then
    (* mpn_sub (rp, mp, n, bp, bn); rn = n; MPN_NORMALIZE (rp, rn);
       (before the repair 3b23d14 in /repo: rn -= (rp[rn - 1] == 0), which left zero high limbs when m - |b| is two or more limbs
       shorter than m) *)
    let rp := fst (sub mp bp) in
    ret (norm_len rp) rp
  else
    (* MPN_COPY (rp, bp, bn); rn = bn; *)
    ret bn bp.

(* powm.c:153-277  the general case (en > 1 or ep[0] > 1, bn > 0) *)
Definition powm_general (b e m : mpz) : res mpz :=
  let n := Z.abs (sz m) in
  let bn := Z.abs (sz b) in
  let bp := d b in
  let en := sz e in
  let ep := d e in
  (* ncnt = 0; while (mp[0] == 0) { mp++; ncnt++; }  nodd = n - ncnt; cnt = 0; *)
  let '(mp, ncnt) := strip_low (d m) 0 in
  let nodd := n - ncnt in
  (* if (mp[0] % 2 == 0) { count_trailing_zeros (cnt, mp[0]); mpn_rshift (newmp, mp, nodd, cnt);
       nodd -= newmp[nodd - 1] == 0; mp = newmp; ncnt++; } *)
  let '(mp, nodd, ncnt, cnt) :=
    if lat mp 0 mod 2 =? 0 then
      let cnt := ctz (lat mp 0) in
      let newmp := fst (rshift mp cnt) in
      let nodd := nodd - b2z (lat newmp (nodd - 1) =? 0) in
      (firstn (Z.to_nat nodd) newmp, nodd, ncnt + 1, cnt)
    else (mp, nodd, ncnt, 0) in
  (* mpn_powm (rp, bp, bn, ep, en, mp, nodd, tp);  rn = n; *)
  let rpl := mpn_powm_c bp ep mp in
  if (length rpl =? 0)%nat then Ok (mkz (-1) []) else
  let r1 := eval rpl in
  let modd := eval mp in
  let r :=
    if negb (ncnt =? 0) then
      (* if (bn < ncnt) { newbp = bp padded with zeros to ncnt limbs; bp = newbp; }   (value unchanged) *)
      let powlo := powm_bin (eval bp mod B ^ ncnt) (eval ep) (B ^ ncnt) in  (* mpn_powlo (r2, bp, ep, en, ncnt, ..) *)
      let r2 :=
        if lat bp 0 mod 2 =? 0 then
          if 1 <? en then 0                                   (* MPN_ZERO (r2, ncnt); goto zero; *)
          else
            (* t = (ncnt - (cnt != 0)) * GMP_NUMB_BITS + cnt;
               bcnt = (0x1213 >> ((bp[0] & 7) << 1)) & 0x3;
               if (ep[0] * bcnt >= t) { MPN_ZERO (r2, ncnt); goto zero; } *)
            let t := (ncnt - b2z (negb (cnt =? 0))) * 64 + cnt in
            let bcnt := Z.land (Z.shiftr 4627 (Z.shiftl (Z.land (lat bp 0) 7) 1)) 3 in
            if t <=? wrap (lat ep 0 * bcnt) then 0 else powlo
        else powlo in
      (* zero: if (nodd < ncnt) mp padded with zeros to ncnt limbs   (value unchanged)
         mpn_binvert (odd_inv_2exp, mp, ncnt, tp + 2 * n); *)
      let odd_inv := binvert_v modd ncnt in
      (* mpn_sub (r2, r2, ncnt, rp, nodd > ncnt ? ncnt : nodd);   borrow discarded *)
      let r2 := (r2 - r1 mod B ^ (if ncnt <? nodd then ncnt else nodd)) mod B ^ ncnt in
      (* mpn_mullow_n (xp, odd_inv_2exp, r2, ncnt); *)
      let xp := (odd_inv * r2) mod B ^ ncnt in
      (* if (cnt != 0) xp[ncnt - 1] &= (CNST_LIMB(1) << cnt) - 1; *)
      let xp :=
        if negb (cnt =? 0) then
          xp mod B ^ (ncnt - 1)
          + B ^ (ncnt - 1) * Z.land (xp / B ^ (ncnt - 1)) (wrap (wrap (Z.shiftl 1 cnt) - 1))
        else xp in
      (* mpn_mul (yp, xp, ncnt, mp, nodd) or mpn_mul (yp, mp, nodd, xp, ncnt): ncnt + nodd limbs *)
      let yp := xp * modd in
      (* mpn_add (rp, yp, n, rp, nodd);   n limbs of yp, carry discarded *)
      (yp mod B ^ n + r1) mod B ^ n
    else r1 in
  (* MPN_NORMALIZE (rp, rn); *)
  let rp := to_limbs (Z.to_nat n) r in
  let rn := norm_len rp in
  (* if ((ep[0] & 1) && SIZ(b) < 0 && rn != 0)
       { mpn_sub (rp, PTR(m), n, rp, rn); rn = n; MPN_NORMALIZE (rp, rn); } *)
  if negb (Z.land (lat ep 0) 1 =? 0) && (sz b <? 0) && negb (rn =? 0) then
    let rp := fst (sub (d m) (firstn (Z.to_nat rn) rp)) in
    ret (norm_len rp) rp
  else ret rn rp.

(* powm.c:104-151 + general: everything after the exponent sign has been dealt with
   (es > 0; b is the original base or the inverse) *)
Definition powm_pos (b e m : mpz) : res mpz :=
  let bn := Z.abs (sz b) in
  (* if (UNLIKELY (bn == 0)) { SIZ(r) = 0; return; } *)
  if bn =? 0 then Ok (mkz 0 [])
  (* if (UNLIKELY (en == 1 && ep[0] == 1)) *)
  else if (Z.abs (sz e) =? 1) && (lat (d e) 0 =? 1) then powm_e1 b m
  else powm_general b (mkz (Z.abs (sz e)) (d e)) m.

(* powm.c:62-285  mpz_powm (r, b, e, m) *)
Definition mpz_powm_c (b e m : mpz) : res mpz :=
  let n := Z.abs (sz m) in
  (* if (UNLIKELY (n == 0)) DIVIDE_BY_ZERO; *)
  if n =? 0 then DivByZero
  else
    let es := sz e in
    if es <=? 0 then
      if es =? 0 then
        (* SIZ(r) = n != 1 || mp[0] != 1;  PTR(r)[0] = 1; *)
        ret (b2z (negb (n =? 1) || negb (lat (d m) 0 =? 1))) [1]
      else
        (* if (UNLIKELY (! mpz_invert (new_b, b, m))) DIVIDE_BY_ZERO;  b = new_b; es = -es; *)
        match mpz_invert (value b) (value m) with
        | None => DivByZero
        | Some v => powm_pos (mpz_of_Z v) e m
        end
    else powm_pos b e m.
