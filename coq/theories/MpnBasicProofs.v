(* MpnBasicProofs.v — exact value equations for the mpn models of MpnBasicDefs.v *)
From Coq Require Import ZArith List Lia Bool.
From Mpir Require Import Word Limbs MpnBasicDefs.
Import ListNotations.
Local Open Scope Z_scope.

(* ------------------------------------------------------------------ *)
(* small general facts                                                  *)

Lemma Bpow_len_nil : B ^ len [] = 1.
Proof. reflexivity. Qed.

Lemma Bpow_len_cons x l : B ^ len (x :: l) = B * B ^ len l.
Proof. unfold len. cbn [length]. apply Bpow_succ. Qed.

Lemma Bpow_len_pos l : 0 < B ^ len l.
Proof. unfold len. apply Bpow_pos. Qed.

Lemma B_gt_1 : 1 < B.
Proof. rewrite B_val. lia. Qed.

Lemma limb_0 : limb 0.
Proof. unfold limb. pose proof B_pos. lia. Qed.

Lemma limb_1 : limb 1.
Proof. unfold limb. pose proof B_gt_1. lia. Qed.

Lemma limb_01 c : c = 0 \/ c = 1 -> limb c.
Proof. intros [H|H]; subst; [apply limb_0 | apply limb_1]. Qed.

Lemma eval_nonneg l : wf l -> 0 <= eval l.
Proof. intros H. apply eval_bounds in H. lia. Qed.

Lemma eval_lt l : wf l -> eval l < B ^ len l.
Proof. intros H. apply eval_bounds in H. unfold len. lia. Qed.

Lemma firstn_app_exact {A} (a b : list A) : firstn (length a) (a ++ b) = a.
Proof. induction a as [|x a IH]; simpl; [destruct b; reflexivity | rewrite IH; reflexivity]. Qed.

Lemma skipn_app_exact {A} (a b : list A) : skipn (length a) (a ++ b) = b.
Proof. induction a as [|x a IH]; simpl; [reflexivity | exact IH]. Qed.

Lemma len_app a b : len (a ++ b) = len a + len b.
Proof. unfold len. rewrite app_length, Nat2Z.inj_add. reflexivity. Qed.

Lemma Bpow_len_app a b : B ^ len (a ++ b) = B ^ len a * B ^ len b.
Proof. rewrite len_app. unfold len. apply Z.pow_add_r; lia. Qed.

Lemma eval_app_len a b : eval (a ++ b) = eval a + B ^ len a * eval b.
Proof. apply eval_app. Qed.

(* ------------------------------------------------------------------ *)
(* single-limb steps                                                    *)

Lemma add_step ul vl cy :
  limb ul -> limb vl -> (cy = 0 \/ cy = 1) ->
  let sl := wrap (ul + vl) in
  let cy1 := b2z (sl <? ul) in
  let rl := wrap (sl + cy) in
  let cy2 := b2z (rl <? sl) in
  rl + B * Z.lor cy1 cy2 = ul + vl + cy /\ limb rl
  /\ (Z.lor cy1 cy2 = 0 \/ Z.lor cy1 cy2 = 1).
Proof.
  intros Hul Hvl Hcy. cbv zeta.
  pose proof (wrap_limb (ul + vl)) as Hsl.
  pose proof (wrap_add_carry ul vl Hul Hvl) as E1.
  pose proof (limb_01 cy Hcy) as Hcyl.
  pose proof (wrap_limb (wrap (ul + vl) + cy)) as Hrl.
  pose proof (wrap_add_carry (wrap (ul + vl)) cy Hsl Hcyl) as E2.
  set (sl := wrap (ul + vl)) in *.
  set (rl := wrap (sl + cy)) in *.
  unfold limb in *. pose proof B_pos as HB.
  destruct (Z.ltb_spec sl ul) as [C1|C1], (Z.ltb_spec rl sl) as [C2|C2];
    simpl in *; (split; [|split]); lia.
Qed.

Lemma sub_step ul vl cy :
  limb ul -> limb vl -> (cy = 0 \/ cy = 1) ->
  let sl := wrap (ul - vl) in
  let cy1 := b2z (ul <? sl) in
  let rl := wrap (sl - cy) in
  let cy2 := b2z (sl <? rl) in
  rl - B * Z.lor cy1 cy2 = ul - vl - cy /\ limb rl
  /\ (Z.lor cy1 cy2 = 0 \/ Z.lor cy1 cy2 = 1).
Proof.
  intros Hul Hvl Hcy. cbv zeta.
  pose proof (wrap_limb (ul - vl)) as Hsl.
  pose proof (wrap_sub_borrow ul vl Hul Hvl) as E1.
  pose proof (limb_01 cy Hcy) as Hcyl.
  pose proof (wrap_limb (wrap (ul - vl) - cy)) as Hrl.
  pose proof (wrap_sub_borrow (wrap (ul - vl)) cy Hsl Hcyl) as E2.
  set (sl := wrap (ul - vl)) in *.
  set (rl := wrap (sl - cy)) in *.
  unfold limb in *. pose proof B_pos as HB.
  destruct (Z.ltb_spec ul vl) as [C0|C0], (Z.ltb_spec sl cy) as [C3|C3],
           (Z.ltb_spec ul sl) as [C1|C1], (Z.ltb_spec sl rl) as [C2|C2];
    simpl in *; (split; [|split]); lia.
Qed.

Lemma wrap_succ x : limb x ->
  (x + 1 < B /\ wrap (x + 1) = x + 1) \/ (x = B - 1 /\ wrap (x + 1) = 0).
Proof.
  intros Hx. unfold limb in Hx.
  destruct (Z_lt_dec (x + 1) B) as [Hlt|Hge].
  - left. split; [assumption|]. apply wrap_small. lia.
  - right. assert (E : x = B - 1) by lia. split; [assumption|].
    subst x. replace (B - 1 + 1) with B by lia. unfold wrap. apply Z.mod_same.
    pose proof B_pos. lia.
Qed.

Lemma wrap_pred x : limb x ->
  (1 <= x /\ wrap (x - 1) = x - 1) \/ (x = 0 /\ wrap (x - 1) = B - 1).
Proof.
  intros Hx. pose proof (wrap_sub_borrow x 1 Hx limb_1) as E. unfold limb in Hx.
  destruct (Z.ltb_spec x 1) as [C|C]; simpl in E.
  - right. split; lia.
  - left. split; lia.
Qed.

(* ------------------------------------------------------------------ *)
(* add_n / sub_n                                                        *)

Lemma add_n_c_spec : forall u v cy, wf u -> wf v -> length u = length v ->
  (cy = 0 \/ cy = 1) ->
  eval (fst (add_n_c u v cy)) + B ^ len u * snd (add_n_c u v cy) = eval u + eval v + cy
  /\ wf (fst (add_n_c u v cy)) /\ length (fst (add_n_c u v cy)) = length u
  /\ (snd (add_n_c u v cy) = 0 \/ snd (add_n_c u v cy) = 1).
Proof.
  induction u as [|ul u IH]; intros [|vl v] cy Hu Hv Hl Hcy; try discriminate.
  - cbn [add_n_c fst snd eval length]. rewrite Bpow_len_nil.
    split; [lia|]. split; [apply wf_nil|]. split; [reflexivity|assumption].
  - apply wf_inv in Hu. destruct Hu as [Hul Hu].
    apply wf_inv in Hv. destruct Hv as [Hvl Hv].
    injection Hl as Hl.
    destruct (add_step ul vl cy Hul Hvl Hcy) as (S1 & S2 & S3). cbv zeta in S1, S2, S3.
    cbn [add_n_c].
    set (cy' := Z.lor _ _) in *.
    specialize (IH v cy' Hu Hv Hl S3).
    destruct (add_n_c u v cy') as [r c]. cbn [fst snd] in *.
    destruct IH as (I1 & I2 & I3 & I4).
    cbn [eval length]. rewrite Bpow_len_cons.
    split; [|split; [|split]].
    + pose proof (f_equal (Z.mul B) I1) as I1'. lia.
    + apply wf_cons; assumption.
    + rewrite I3. reflexivity.
    + assumption.
Qed.

Lemma add_n_spec : forall u v, wf u -> wf v -> length u = length v ->
  eval (fst (add_n u v)) + B ^ len u * snd (add_n u v) = eval u + eval v
  /\ wf (fst (add_n u v)) /\ length (fst (add_n u v)) = length u
  /\ (snd (add_n u v) = 0 \/ snd (add_n u v) = 1).
Proof.
  intros u v Hu Hv Hl. unfold add_n.
  destruct (add_n_c_spec u v 0 Hu Hv Hl (or_introl eq_refl)) as (H1 & H2 & H3 & H4).
  split; [lia|]. split; [assumption|]. split; assumption.
Qed.

Lemma sub_n_c_spec : forall u v cy, wf u -> wf v -> length u = length v ->
  (cy = 0 \/ cy = 1) ->
  eval (fst (sub_n_c u v cy)) - B ^ len u * snd (sub_n_c u v cy) = eval u - eval v - cy
  /\ wf (fst (sub_n_c u v cy)) /\ length (fst (sub_n_c u v cy)) = length u
  /\ (snd (sub_n_c u v cy) = 0 \/ snd (sub_n_c u v cy) = 1).
Proof.
  induction u as [|ul u IH]; intros [|vl v] cy Hu Hv Hl Hcy; try discriminate.
  - cbn [sub_n_c fst snd eval length]. rewrite Bpow_len_nil.
    split; [lia|]. split; [apply wf_nil|]. split; [reflexivity|assumption].
  - apply wf_inv in Hu. destruct Hu as [Hul Hu].
    apply wf_inv in Hv. destruct Hv as [Hvl Hv].
    injection Hl as Hl.
    destruct (sub_step ul vl cy Hul Hvl Hcy) as (S1 & S2 & S3). cbv zeta in S1, S2, S3.
    cbn [sub_n_c].
    set (cy' := Z.lor _ _) in *.
    specialize (IH v cy' Hu Hv Hl S3).
    destruct (sub_n_c u v cy') as [r c]. cbn [fst snd] in *.
    destruct IH as (I1 & I2 & I3 & I4).
    cbn [eval length]. rewrite Bpow_len_cons.
    split; [|split; [|split]].
    + pose proof (f_equal (Z.mul B) I1) as I1'. lia.
    + apply wf_cons; assumption.
    + rewrite I3. reflexivity.
    + assumption.
Qed.

Lemma sub_n_spec : forall u v, wf u -> wf v -> length u = length v ->
  eval (fst (sub_n u v)) - B ^ len u * snd (sub_n u v) = eval u - eval v
  /\ wf (fst (sub_n u v)) /\ length (fst (sub_n u v)) = length u
  /\ (snd (sub_n u v) = 0 \/ snd (sub_n u v) = 1).
Proof.
  intros u v Hu Hv Hl. unfold sub_n.
  destruct (sub_n_c_spec u v 0 Hu Hv Hl (or_introl eq_refl)) as (H1 & H2 & H3 & H4).
  split; [lia|]. split; [assumption|]. split; assumption.
Qed.

(* ------------------------------------------------------------------ *)
(* carry / borrow propagation, add_1 / sub_1                            *)

Lemma incr_c_spec : forall u, wf u ->
  eval (fst (incr_c u)) + B ^ len u * snd (incr_c u) = eval u + 1
  /\ wf (fst (incr_c u)) /\ length (fst (incr_c u)) = length u
  /\ (snd (incr_c u) = 0 \/ snd (incr_c u) = 1).
Proof.
  induction u as [|x r IH]; intros Hu.
  - cbn [incr_c fst snd eval]. rewrite Bpow_len_nil.
    split; [lia|]. split; [apply wf_nil|]. split; [reflexivity|right; reflexivity].
  - apply wf_inv in Hu. destruct Hu as [Hx Hr]. specialize (IH Hr).
    cbn [incr_c]. rewrite Bpow_len_cons.
    destruct (wrap_succ x Hx) as [[C E]|[C E]]; rewrite E.
    + unfold limb in Hx.
      destruct (Z.ltb_spec (x + 1) 1) as [C'|C']; [lia|].
      cbn [fst snd eval length].
      split; [lia|]. split; [apply wf_cons; [unfold limb; lia|assumption]|].
      split; [reflexivity|left; reflexivity].
    + change (0 <? 1) with true. cbv iota.
      destruct (incr_c r) as [r' c]. cbn [fst snd] in *.
      destruct IH as (I1 & I2 & I3 & I4).
      cbn [eval length].
      split; [|split; [|split]].
      * pose proof (f_equal (Z.mul B) I1) as I1'. lia.
      * apply wf_cons; [apply limb_0|assumption].
      * rewrite I3. reflexivity.
      * assumption.
Qed.

Lemma decr_c_spec : forall u, wf u ->
  eval (fst (decr_c u)) - B ^ len u * snd (decr_c u) = eval u - 1
  /\ wf (fst (decr_c u)) /\ length (fst (decr_c u)) = length u
  /\ (snd (decr_c u) = 0 \/ snd (decr_c u) = 1).
Proof.
  induction u as [|x r IH]; intros Hu.
  - cbn [decr_c fst snd eval]. rewrite Bpow_len_nil.
    split; [lia|]. split; [apply wf_nil|]. split; [reflexivity|right; reflexivity].
  - apply wf_inv in Hu. destruct Hu as [Hx Hr]. specialize (IH Hr).
    cbn [decr_c]. rewrite Bpow_len_cons.
    destruct (wrap_pred x Hx) as [[C E]|[C E]]; rewrite E.
    + unfold limb in Hx.
      destruct (Z.ltb_spec x 1) as [C'|C']; [lia|].
      cbn [fst snd eval length].
      split; [lia|]. split; [apply wf_cons; [unfold limb; lia|assumption]|].
      split; [reflexivity|left; reflexivity].
    + subst x. change (0 <? 1) with true. cbv iota.
      destruct (decr_c r) as [r' c]. cbn [fst snd] in *.
      destruct IH as (I1 & I2 & I3 & I4).
      cbn [eval length].
      split; [|split; [|split]].
      * pose proof (f_equal (Z.mul B) I1) as I1'. lia.
      * apply wf_cons; [unfold limb; pose proof B_pos; lia|assumption].
      * rewrite I3. reflexivity.
      * assumption.
Qed.

Lemma add_1_spec : forall u v, wf u -> limb v -> u <> [] ->
  eval (fst (add_1 u v)) + B ^ len u * snd (add_1 u v) = eval u + v
  /\ wf (fst (add_1 u v)) /\ length (fst (add_1 u v)) = length u
  /\ (snd (add_1 u v) = 0 \/ snd (add_1 u v) = 1).
Proof.
  intros [|x r] v Hu Hv Hne; [congruence|].
  apply wf_inv in Hu. destruct Hu as [Hx Hr].
  cbn [add_1]. rewrite Bpow_len_cons.
  pose proof (wrap_add_carry v x Hv Hx) as E. rewrite (Z.add_comm v x) in E.
  pose proof (wrap_limb (x + v)) as Hy.
  set (y := wrap (x + v)) in *.
  destruct (Z.ltb_spec y v) as [C|C]; simpl in E.
  - pose proof (incr_c_spec r Hr) as IH.
    destruct (incr_c r) as [r' c]. cbn [fst snd] in *.
    destruct IH as (I1 & I2 & I3 & I4).
    cbn [eval length].
    split; [|split; [|split]].
    + pose proof (f_equal (Z.mul B) I1) as I1'. lia.
    + apply wf_cons; assumption.
    + rewrite I3. reflexivity.
    + assumption.
  - cbn [fst snd eval length].
    split; [lia|]. split; [apply wf_cons; assumption|].
    split; [reflexivity|left; reflexivity].
Qed.

Lemma sub_1_spec : forall u v, wf u -> limb v -> u <> [] ->
  eval (fst (sub_1 u v)) - B ^ len u * snd (sub_1 u v) = eval u - v
  /\ wf (fst (sub_1 u v)) /\ length (fst (sub_1 u v)) = length u
  /\ (snd (sub_1 u v) = 0 \/ snd (sub_1 u v) = 1).
Proof.
  intros [|x r] v Hu Hv Hne; [congruence|].
  apply wf_inv in Hu. destruct Hu as [Hx Hr].
  cbn [sub_1]. rewrite Bpow_len_cons.
  pose proof (wrap_sub_borrow x v Hx Hv) as E.
  pose proof (wrap_limb (x - v)) as Hy.
  set (y := wrap (x - v)) in *.
  destruct (Z.ltb_spec x v) as [C|C]; simpl in E.
  - pose proof (decr_c_spec r Hr) as IH.
    destruct (decr_c r) as [r' c]. cbn [fst snd] in *.
    destruct IH as (I1 & I2 & I3 & I4).
    cbn [eval length].
    split; [|split; [|split]].
    + pose proof (f_equal (Z.mul B) I1) as I1'. lia.
    + apply wf_cons; assumption.
    + rewrite I3. reflexivity.
    + assumption.
  - cbn [fst snd eval length].
    split; [lia|]. split; [apply wf_cons; assumption|].
    split; [reflexivity|left; reflexivity].
Qed.

(* ------------------------------------------------------------------ *)
(* add / sub with operands of different lengths                         *)

Lemma add_app_spec : forall a b y, wf a -> wf b -> wf y -> length a = length y ->
  eval (fst (add (a ++ b) y)) + B ^ len (a ++ b) * snd (add (a ++ b) y)
    = eval (a ++ b) + eval y
  /\ wf (fst (add (a ++ b) y)) /\ length (fst (add (a ++ b) y)) = length (a ++ b)
  /\ (snd (add (a ++ b) y) = 0 \/ snd (add (a ++ b) y) = 1).
Proof.
  intros a b y Ha Hb Hy Hl. unfold add. rewrite <- Hl.
  rewrite firstn_app_exact, skipn_app_exact.
  pose proof (add_n_spec a y Ha Hy Hl) as H.
  destruct (add_n a y) as [lo c]. cbn [fst snd] in H.
  destruct H as (H1 & H2 & H3 & H4).
  rewrite Bpow_len_app, !eval_app_len.
  assert (Elo : len lo = len a) by (unfold len; rewrite H3; reflexivity).
  destruct H4 as [H4|H4]; subst c.
  - change (0 =? 0) with true. cbv iota. cbn [fst snd].
    rewrite eval_app_len, Elo.
    split; [lia|]. split; [apply wf_app; assumption|].
    split; [rewrite !app_length, H3; reflexivity|left; reflexivity].
  - change (1 =? 0) with false. cbv iota.
    pose proof (incr_c_spec b Hb) as I.
    destruct (incr_c b) as [hi c']. cbn [fst snd] in *.
    destruct I as (I1 & I2 & I3 & I4).
    rewrite eval_app_len, Elo.
    split; [|split; [|split]].
    + pose proof (f_equal (Z.mul (B ^ len a)) I1) as I1'. lia.
    + apply wf_app; assumption.
    + rewrite !app_length, H3, I3. reflexivity.
    + assumption.
Qed.

Lemma split_at_len (x y : list Z) : (length y <= length x)%nat ->
  x = firstn (length y) x ++ skipn (length y) x /\ length (firstn (length y) x) = length y.
Proof.
  intros H. split; [symmetry; apply firstn_skipn | apply firstn_length_le; exact H].
Qed.

Lemma add_spec : forall x y, wf x -> wf y -> (length y <= length x)%nat ->
  eval (fst (add x y)) + B ^ len x * snd (add x y) = eval x + eval y
  /\ wf (fst (add x y)) /\ length (fst (add x y)) = length x
  /\ (snd (add x y) = 0 \/ snd (add x y) = 1).
Proof.
  intros x y Hx Hy Hl.
  destruct (split_at_len x y Hl) as [E La].
  pose proof (wf_firstn x (length y) Hx) as Ha.
  pose proof (wf_skipn x (length y) Hx) as Hb.
  set (a := firstn (length y) x) in *. set (b := skipn (length y) x) in *.
  clearbody a b. subst x. apply add_app_spec; assumption.
Qed.

Lemma sub_app_spec : forall a b y, wf a -> wf b -> wf y -> length a = length y ->
  eval (fst (sub (a ++ b) y)) - B ^ len (a ++ b) * snd (sub (a ++ b) y)
    = eval (a ++ b) - eval y
  /\ wf (fst (sub (a ++ b) y)) /\ length (fst (sub (a ++ b) y)) = length (a ++ b)
  /\ (snd (sub (a ++ b) y) = 0 \/ snd (sub (a ++ b) y) = 1).
Proof.
  intros a b y Ha Hb Hy Hl. unfold sub. rewrite <- Hl.
  rewrite firstn_app_exact, skipn_app_exact.
  pose proof (sub_n_spec a y Ha Hy Hl) as H.
  destruct (sub_n a y) as [lo c]. cbn [fst snd] in H.
  destruct H as (H1 & H2 & H3 & H4).
  rewrite Bpow_len_app, !eval_app_len.
  assert (Elo : len lo = len a) by (unfold len; rewrite H3; reflexivity).
  destruct H4 as [H4|H4]; subst c.
  - change (0 =? 0) with true. cbv iota. cbn [fst snd].
    rewrite eval_app_len, Elo.
    split; [lia|]. split; [apply wf_app; assumption|].
    split; [rewrite !app_length, H3; reflexivity|left; reflexivity].
  - change (1 =? 0) with false. cbv iota.
    pose proof (decr_c_spec b Hb) as I.
    destruct (decr_c b) as [hi c']. cbn [fst snd] in *.
    destruct I as (I1 & I2 & I3 & I4).
    rewrite eval_app_len, Elo.
    split; [|split; [|split]].
    + pose proof (f_equal (Z.mul (B ^ len a)) I1) as I1'. lia.
    + apply wf_app; assumption.
    + rewrite !app_length, H3, I3. reflexivity.
    + assumption.
Qed.

Lemma sub_spec : forall x y, wf x -> wf y -> (length y <= length x)%nat ->
  eval (fst (sub x y)) - B ^ len x * snd (sub x y) = eval x - eval y
  /\ wf (fst (sub x y)) /\ length (fst (sub x y)) = length x
  /\ (snd (sub x y) = 0 \/ snd (sub x y) = 1).
Proof.
  intros x y Hx Hy Hl.
  destruct (split_at_len x y Hl) as [E La].
  pose proof (wf_firstn x (length y) Hx) as Ha.
  pose proof (wf_skipn x (length y) Hx) as Hb.
  set (a := firstn (length y) x) in *. set (b := skipn (length y) x) in *.
  clearbody a b. subst x. apply sub_app_spec; assumption.
Qed.

(* ------------------------------------------------------------------ *)
(* complement and negation                                              *)

Lemma com_n_spec : forall u, wf u ->
  eval (com_n u) = B ^ len u - 1 - eval u /\ wf (com_n u) /\ length (com_n u) = length u.
Proof.
  induction u as [|x r IH]; intros Hu.
  - cbn [com_n map eval]. rewrite Bpow_len_nil.
    split; [lia|]. split; [apply wf_nil|reflexivity].
  - apply wf_inv in Hu. destruct Hu as [Hx Hr].
    destruct (IH Hr) as (I1 & I2 & I3).
    unfold com_n in *. cbn [map eval length]. rewrite Bpow_len_cons.
    split; [rewrite I1; ring|].
    split; [apply wf_cons; [unfold limb in *; lia|assumption]|].
    rewrite I3. reflexivity.
Qed.

Lemma neg_n_spec : forall u, wf u ->
  eval (fst (neg_n u)) + eval u = B ^ len u * snd (neg_n u)
  /\ wf (fst (neg_n u)) /\ length (fst (neg_n u)) = length u
  /\ snd (neg_n u) = (if eval u =? 0 then 0 else 1).
Proof.
  induction u as [|x r IH]; intros Hu.
  - cbn [neg_n fst snd eval]. rewrite Bpow_len_nil.
    split; [lia|]. split; [apply wf_nil|]. split; reflexivity.
  - apply wf_inv in Hu. destruct Hu as [Hx Hr].
    cbn [neg_n]. rewrite Bpow_len_cons. cbn [eval].
    pose proof (eval_nonneg r Hr) as Hr0. pose proof B_pos as HB.
    destruct (Z.eqb_spec x 0) as [C|C].
    + subst x. specialize (IH Hr).
      destruct (neg_n r) as [r' c]. cbn [fst snd] in *.
      destruct IH as (I1 & I2 & I3 & I4).
      cbn [eval length].
      split; [|split; [|split]].
      * pose proof (f_equal (Z.mul B) I1) as I1'. lia.
      * apply wf_cons; [apply limb_0|assumption].
      * rewrite I3. reflexivity.
      * rewrite I4.
        destruct (Z.eqb_spec (eval r) 0) as [D|D], (Z.eqb_spec (0 + B * eval r) 0) as [D'|D'];
          try reflexivity; exfalso; nia.
    + destruct (com_n_spec r Hr) as (K1 & K2 & K3).
      pose proof (wrap_sub_borrow 0 x limb_0 Hx) as E.
      change (0 - x) with (- x) in E. unfold limb in Hx.
      destruct (Z.ltb_spec 0 x) as [D|D]; [|lia]. simpl in E.
      cbn [fst snd eval length].
      split; [|split; [|split]].
      * rewrite K1, E. ring.
      * apply wf_cons; [apply wrap_limb|assumption].
      * rewrite K3. reflexivity.
      * assert (0 <= B * eval r) by (apply Z.mul_nonneg_nonneg; lia).
        destruct (Z.eqb_spec (x + B * eval r) 0) as [D'|D']; [lia|reflexivity].
Qed.

(* ------------------------------------------------------------------ *)
(* shifts                                                               *)

Lemma lor_add_disjoint a b k :
  0 <= k -> 0 <= b < 2 ^ k -> a mod 2 ^ k = 0 -> Z.lor a b = a + b.
Proof.
  intros Hk Hb Ha.
  assert (Hp : 0 < 2 ^ k) by (apply Z.pow_pos_nonneg; lia).
  assert (Hl : Z.land a b = 0).
  { apply Z.bits_inj'. intros n Hn. rewrite Z.land_spec, Z.bits_0.
    destruct (Z_lt_dec n k) as [Hlt|Hge].
    - assert (Ea : a = (a / 2 ^ k) * 2 ^ k).
      { pose proof (Z.div_mod a (2 ^ k) ltac:(lia)) as D. lia. }
      rewrite Ea. rewrite Z.mul_pow2_bits_low by lia. reflexivity.
    - rewrite <- (Z.mod_small b (2 ^ k)) by lia.
      rewrite Z.mod_pow2_bits_high by lia. apply andb_false_r. }
  rewrite <- Z.lxor_lor by exact Hl. symmetry. apply Z.add_nocarry_lxor. exact Hl.
Qed.

Lemma B_split cnt : 0 <= cnt <= 64 -> B = 2 ^ (64 - cnt) * 2 ^ cnt.
Proof.
  intros H. rewrite <- Z.pow_add_r by lia.
  replace (64 - cnt + cnt) with 64 by lia. rewrite B_val. reflexivity.
Qed.

(* splitting x * 2^cnt into the part staying in the limb and the part shifted out *)
Lemma shift_parts x cnt : limb x -> 1 <= cnt <= 63 ->
  wrap (Z.shiftl x cnt) + B * Z.shiftr x (64 - cnt) = x * 2 ^ cnt
  /\ 0 <= Z.shiftr x (64 - cnt) < 2 ^ cnt
  /\ 0 <= wrap (Z.shiftl x cnt) <= B - 2 ^ cnt
  /\ wrap (Z.shiftl x cnt) mod 2 ^ cnt = 0.
Proof.
  intros Hx Hc. unfold limb in Hx.
  pose proof (B_split cnt ltac:(lia)) as HB.
  assert (Hpc : 0 < 2 ^ cnt) by (apply Z.pow_pos_nonneg; lia).
  assert (Hpt : 0 < 2 ^ (64 - cnt)) by (apply Z.pow_pos_nonneg; lia).
  rewrite Z.shiftl_mul_pow2, Z.shiftr_div_pow2 by lia.
  assert (W : wrap (x * 2 ^ cnt) = (x mod 2 ^ (64 - cnt)) * 2 ^ cnt).
  { unfold wrap. rewrite HB. apply Z.mul_mod_distr_r; lia. }
  rewrite W.
  pose proof (Z.div_mod x (2 ^ (64 - cnt)) ltac:(lia)) as D.
  pose proof (Z.mod_pos_bound x (2 ^ (64 - cnt)) Hpt) as M.
  set (q := x / 2 ^ (64 - cnt)) in *. set (r := x mod 2 ^ (64 - cnt)) in *.
  set (T := 2 ^ (64 - cnt)) in *. set (C := 2 ^ cnt) in *.
  split; [|split; [|split]].
  - rewrite HB. transitivity ((T * q + r) * C); [ring | rewrite <- D; reflexivity].
  - split.
    + apply Z.div_pos; lia.
    + apply Z.div_lt_upper_bound; lia.
  - split; [apply Z.mul_nonneg_nonneg; lia|].
    rewrite HB. assert (r * C <= (T - 1) * C) by (apply Z.mul_le_mono_nonneg_r; lia). lia.
  - apply Z.mod_mul. lia.
Qed.

Lemma lshift_c_spec : forall cnt, 1 <= cnt <= 63 -> forall u lo, wf u -> 0 <= lo < 2 ^ cnt ->
  eval (fst (lshift_c u cnt lo)) + B ^ len u * snd (lshift_c u cnt lo) = eval u * 2 ^ cnt + lo
  /\ wf (fst (lshift_c u cnt lo)) /\ length (fst (lshift_c u cnt lo)) = length u
  /\ 0 <= snd (lshift_c u cnt lo) < 2 ^ cnt.
Proof.
  intros cnt Hc. induction u as [|x r IH]; intros lo Hu Hlo.
  - cbn [lshift_c fst snd eval]. rewrite Bpow_len_nil.
    split; [lia|]. split; [apply wf_nil|]. split; [reflexivity|assumption].
  - apply wf_inv in Hu. destruct Hu as [Hx Hr].
    destruct (shift_parts x cnt Hx Hc) as (P1 & P2 & P3 & P4).
    cbn [lshift_c].
    specialize (IH (Z.shiftr x (64 - cnt)) Hr P2).
    destruct (lshift_c r cnt (Z.shiftr x (64 - cnt))) as [r' out]. cbn [fst snd] in *.
    destruct IH as (I1 & I2 & I3 & I4).
    rewrite (lor_add_disjoint _ lo cnt) by (assumption || lia).
    cbn [eval length]. rewrite Bpow_len_cons.
    split; [|split; [|split]].
    + pose proof (f_equal (Z.mul B) I1) as I1'. lia.
    + apply wf_cons; [unfold limb; lia|assumption].
    + rewrite I3. reflexivity.
    + assumption.
Qed.

Lemma lshift_spec : forall u cnt, wf u -> 1 <= cnt <= 63 ->
  eval (fst (lshift u cnt)) + B ^ len u * snd (lshift u cnt) = eval u * 2 ^ cnt
  /\ wf (fst (lshift u cnt)) /\ length (fst (lshift u cnt)) = length u
  /\ 0 <= snd (lshift u cnt) < 2 ^ cnt.
Proof.
  intros u cnt Hu Hc. unfold lshift.
  assert (H0 : 0 <= 0 < 2 ^ cnt) by (split; [lia|apply Z.pow_pos_nonneg; lia]).
  destruct (lshift_c_spec cnt Hc u 0 Hu H0) as (H1 & H2 & H3 & H4).
  split; [lia|]. split; [assumption|]. split; assumption.
Qed.

Definition rshift_out (u : list Z) (cnt : Z) : Z :=
  match u with [] => 0 | x :: _ => wrap (Z.shiftl x (64 - cnt)) end.

Lemma rshift_out_bounds u cnt : wf u -> 1 <= cnt <= 63 ->
  0 <= rshift_out u cnt <= B - 2 ^ (64 - cnt) /\ rshift_out u cnt mod 2 ^ (64 - cnt) = 0.
Proof.
  intros Hu Hc. destruct u as [|x r]; cbn [rshift_out].
  - assert (2 ^ (64 - cnt) <= B).
    { rewrite (B_split (64 - cnt)) by lia.
      assert (0 < 2 ^ (64 - cnt)) by (apply Z.pow_pos_nonneg; lia).
      assert (0 < 2 ^ (64 - (64 - cnt))) by (apply Z.pow_pos_nonneg; lia). nia. }
    split; [lia|]. apply Z.mod_0_l.
    assert (0 < 2 ^ (64 - cnt)) by (apply Z.pow_pos_nonneg; lia). lia.
  - apply wf_inv in Hu. destruct Hu as [Hx Hr].
    destruct (shift_parts x (64 - cnt) Hx ltac:(lia)) as (P1 & P2 & P3 & P4).
    split; assumption.
Qed.

Lemma rshift_hi_spec : forall cnt, 1 <= cnt <= 63 -> forall u, wf u ->
  eval (rshift_hi u cnt) * B + rshift_out u cnt = eval u * 2 ^ (64 - cnt)
  /\ wf (rshift_hi u cnt) /\ length (rshift_hi u cnt) = length u.
Proof.
  intros cnt Hc. induction u as [|x r IH]; intros Hu.
  - cbn [rshift_hi rshift_out eval]. split; [lia|]. split; [apply wf_nil|reflexivity].
  - apply wf_inv in Hu. destruct Hu as [Hx Hr].
    destruct (IH Hr) as (I1 & I2 & I3).
    destruct (shift_parts x (64 - cnt) Hx ltac:(lia)) as (P1 & P2 & P3 & P4).
    replace (64 - (64 - cnt)) with cnt in * by lia.
    destruct (rshift_out_bounds r cnt Hr Hc) as (O1 & O2).
    cbn [rshift_hi]. fold (rshift_out r cnt).
    rewrite Z.lor_comm.
    rewrite (lor_add_disjoint _ (Z.shiftr x cnt) (64 - cnt)) by (assumption || lia).
    cbn [eval length rshift_out].
    split; [|split].
    + lia.
    + apply wf_cons; [unfold limb; lia|assumption].
    + rewrite I3. reflexivity.
Qed.

Lemma rshift_spec : forall u cnt, wf u -> u <> [] -> 1 <= cnt <= 63 ->
  eval (fst (rshift u cnt)) * B + snd (rshift u cnt) = eval u * 2 ^ (64 - cnt)
  /\ wf (fst (rshift u cnt)) /\ length (fst (rshift u cnt)) = length u
  /\ limb (snd (rshift u cnt)).
Proof.
  intros u cnt Hu Hne Hc. unfold rshift. cbn [fst snd]. fold (rshift_out u cnt).
  destruct (rshift_hi_spec cnt Hc u Hu) as (H1 & H2 & H3).
  split; [assumption|]. split; [assumption|]. split; [assumption|].
  destruct u as [|x r]; [congruence|]. cbn [rshift_out]. apply wrap_limb.
Qed.

(* ------------------------------------------------------------------ *)
(* comparison, zero test, zero fill                                     *)

Lemma wf_rev l : wf l -> wf (rev l).
Proof. unfold wf. apply Forall_rev. Qed.

Lemma cmp_rev_spec : forall a b, wf a -> wf b -> length a = length b ->
  cmp_rev a b = Z.sgn (eval (rev a) - eval (rev b)).
Proof.
  induction a as [|x a IH]; intros [|y b] Ha Hb Hl; try discriminate.
  - reflexivity.
  - apply wf_inv in Ha. destruct Ha as [Hx Ha].
    apply wf_inv in Hb. destruct Hb as [Hy Hb].
    injection Hl as Hl. specialize (IH b Ha Hb Hl).
    cbn [cmp_rev rev]. rewrite !eval_app. cbn [eval].
    rewrite !rev_length, <- Hl.
    pose proof (eval_bounds (rev a) (wf_rev a Ha)) as Ba.
    pose proof (eval_bounds (rev b) (wf_rev b Hb)) as Bb.
    rewrite !rev_length in Ba, Bb. rewrite <- Hl in Bb.
    set (P := B ^ Z.of_nat (length a)) in *.
    unfold limb in Hx, Hy.
    destruct (Z.eqb_spec x y) as [C|C].
    + subst y. rewrite IH. f_equal. ring.
    + destruct (Z.ltb_spec x y) as [D|D].
      * assert (P * (y + B * 0) - P * (x + B * 0) >= P).
        { replace (P * (y + B * 0) - P * (x + B * 0)) with (P * (y - x)) by ring.
          assert (P * 1 <= P * (y - x)) by (apply Z.mul_le_mono_nonneg_l; lia). lia. }
        symmetry. apply Z.sgn_neg. lia.
      * assert (P * (x + B * 0) - P * (y + B * 0) >= P).
        { replace (P * (x + B * 0) - P * (y + B * 0)) with (P * (x - y)) by ring.
          assert (P * 1 <= P * (x - y)) by (apply Z.mul_le_mono_nonneg_l; lia). lia. }
        symmetry. apply Z.sgn_pos. lia.
Qed.

Lemma cmp_spec : forall x y, wf x -> wf y -> length x = length y ->
  cmp x y = Z.sgn (eval x - eval y).
Proof.
  intros x y Hx Hy Hl. unfold cmp.
  rewrite cmp_rev_spec.
  - rewrite !rev_involutive. reflexivity.
  - apply wf_rev; assumption.
  - apply wf_rev; assumption.
  - rewrite !rev_length. assumption.
Qed.

Lemma zero_p_spec : forall x, wf x -> (zero_p x = true <-> eval x = 0).
Proof.
  unfold zero_p. induction x as [|a r IH]; intros Hx.
  - cbn. tauto.
  - apply wf_inv in Hx. destruct Hx as [Ha Hr]. specialize (IH Hr).
    pose proof (eval_nonneg r Hr) as Hr0. pose proof B_pos as HB. unfold limb in Ha.
    cbn [forallb eval]. rewrite andb_true_iff, IH, Z.eqb_eq.
    assert (0 <= B * eval r) by (apply Z.mul_nonneg_nonneg; lia).
    split.
    + intros [E1 E2]. rewrite E1, E2. lia.
    + intros E. assert (Er : B * eval r = 0) by lia.
      split; [lia|]. apply Z.mul_eq_0 in Er. lia.
Qed.

Lemma zero_spec : forall n, eval (zero n) = 0 /\ wf (zero n) /\ length (zero n) = n.
Proof.
  intros n. unfold zero. split; [apply eval_repeat0|].
  split; [apply wf_repeat; apply limb_0|apply repeat_length].
Qed.
