(* Limbs.v — limb vectors (least significant limb first) and their value. *)
From Coq Require Import ZArith List Lia Bool.
From Mpir Require Import Word.
Import ListNotations.
Local Open Scope Z_scope.

Fixpoint eval (l : list Z) : Z :=
  match l with [] => 0 | x :: r => x + B * eval r end.

Definition wf (l : list Z) : Prop := Forall limb l.

Definition len (l : list Z) : Z := Z.of_nat (length l).

Fixpoint wfb (l : list Z) : bool :=
  match l with [] => true | x :: r => (0 <=? x) && (x <? B) && wfb r end.

Lemma wfb_wf l : wfb l = true <-> wf l.
Proof.
  unfold wf. induction l as [|x r IH]; simpl.
  - split; auto.
  - rewrite !andb_true_iff, IH, Z.leb_le, Z.ltb_lt. split.
    + intros [[H1 H2] H3]. constructor; [split|]; assumption.
    + intros H. inversion H as [|? ? [H1 H2] H3]; subst. auto.
Qed.

Lemma wf_nil : wf []. Proof. constructor. Qed.
Lemma wf_cons x l : limb x -> wf l -> wf (x :: l).
Proof. intros; constructor; assumption. Qed.
Lemma wf_inv x l : wf (x :: l) -> limb x /\ wf l.
Proof. intros H; inversion H; auto. Qed.
Lemma wf_app a b : wf a -> wf b -> wf (a ++ b).
Proof. unfold wf. intros. apply Forall_app; auto. Qed.
Lemma wf_app_inv a b : wf (a ++ b) -> wf a /\ wf b.
Proof. unfold wf. intros H. apply Forall_app in H. exact H. Qed.

Lemma Bpow_pos n : 0 < B ^ Z.of_nat n.
Proof. apply Z.pow_pos_nonneg; [exact B_pos | lia]. Qed.

Lemma Bpow_succ n : B ^ Z.of_nat (S n) = B * B ^ Z.of_nat n.
Proof. rewrite Nat2Z.inj_succ, Z.pow_succ_r by lia. reflexivity. Qed.

Lemma eval_bounds l : wf l -> 0 <= eval l < B ^ Z.of_nat (length l).
Proof.
  induction l as [|x r IH]; intros H.
  - simpl. lia.
  - apply wf_inv in H. destruct H as [Hx Hr]. specialize (IH Hr).
    unfold limb in Hx. pose proof B_pos.
    cbn [eval length]. rewrite Bpow_succ.
    pose proof (Bpow_pos (length r)).
    assert (B * eval r <= B * (B ^ Z.of_nat (length r) - 1)) by (apply Z.mul_le_mono_nonneg_l; lia).
    assert (0 <= B * eval r) by (apply Z.mul_nonneg_nonneg; lia).
    lia.
Qed.

Lemma eval_app a b : eval (a ++ b) = eval a + B ^ Z.of_nat (length a) * eval b.
Proof.
  induction a as [|x r IH].
  - cbn [app eval length Z.of_nat]. rewrite Z.pow_0_r. lia.
  - cbn [app eval length]. rewrite IH, Bpow_succ. ring.
Qed.

Lemma eval_inj a b : wf a -> wf b -> length a = length b -> eval a = eval b -> a = b.
Proof.
  revert b. induction a as [|x r IH]; intros [|y s] Ha Hb Hl He; try discriminate; auto.
  apply wf_inv in Ha. apply wf_inv in Hb. destruct Ha as [Hx Hr], Hb as [Hy Hs].
  cbn [eval] in He. unfold limb in *. pose proof B_pos.
  assert (x = y /\ eval r = eval s) as [E1 E2].
  { assert (Hm : x mod B = y mod B).
    { replace x with (y + (eval s - eval r) * B) by lia.
      apply Z.mod_add. lia. }
    rewrite !Z.mod_small in Hm by lia. split; [assumption|]. subst. nia. }
  subst. f_equal. apply IH; auto.
Qed.

Lemma eval_repeat0 n : eval (repeat 0 n) = 0.
Proof. induction n; simpl; lia. Qed.

Lemma wf_repeat x n : limb x -> wf (repeat x n).
Proof. intros H. induction n; simpl; constructor; auto. Qed.

Lemma eval_firstn_skipn l n :
  eval l = eval (firstn n l) + B ^ Z.of_nat (length (firstn n l)) * eval (skipn n l).
Proof. rewrite <- eval_app, firstn_skipn. reflexivity. Qed.

Lemma wf_firstn l n : wf l -> wf (firstn n l).
Proof. intros H. rewrite <- (firstn_skipn n l) in H. apply wf_app_inv in H. tauto. Qed.
Lemma wf_skipn l n : wf l -> wf (skipn n l).
Proof. intros H. rewrite <- (firstn_skipn n l) in H. apply wf_app_inv in H. tauto. Qed.

(* normalisation: strip high zero limbs (MPN_NORMALIZE) *)
Fixpoint strip (l : list Z) : list Z :=
  match l with
  | [] => []
  | x :: r => match strip r with
              | [] => if x =? 0 then [] else [x]
              | s => x :: s
              end
  end.

Lemma strip_eval l : eval (strip l) = eval l.
Proof.
  induction l as [|x r IH]; [reflexivity|].
  cbn [strip eval]. destruct (strip r) as [|y s] eqn:E.
  - cbn [eval] in IH. rewrite <- IH.
    destruct (Z.eqb_spec x 0); subst; simpl; lia.
  - cbn [eval] in *. rewrite IH. reflexivity.
Qed.

Lemma strip_wf l : wf l -> wf (strip l).
Proof.
  induction l as [|x r IH]; intros H; [constructor|].
  apply wf_inv in H. destruct H as [Hx Hr]. specialize (IH Hr).
  cbn [strip]. destruct (strip r) as [|y s].
  - destruct (x =? 0); constructor; auto.
  - constructor; auto.
Qed.

Definition normalized (l : list Z) : Prop := l = [] \/ last l 0 <> 0.

Lemma strip_normalized l : normalized (strip l).
Proof.
  unfold normalized. induction l as [|x r IH]; [left; reflexivity|].
  cbn [strip]. destruct (strip r) as [|y s] eqn:E.
  - destruct (Z.eqb_spec x 0); [left; reflexivity|right; simpl; assumption].
  - right. destruct IH as [IH|IH]; [discriminate|]. exact IH.
Qed.

Lemma strip_length_le l : (length (strip l) <= length l)%nat.
Proof.
  induction l as [|x r IH]; simpl; [lia|].
  destruct (strip r); [destruct (x =? 0)|]; simpl in *; lia.
Qed.
