(* IoDefs.v — models behind C17: mpz_export / mpz_import at byte level (word size, order,
   endianness, nails), the raw format of mpz_out_raw / mpz_inp_raw (4-byte big-endian two's
   complement byte count, magnitude bytes most significant first), streams that end early.
   Definitions only. *)
From Coq Require Import ZArith List Bool.
From Mpir Require Import Word.
Import ListNotations.
Local Open Scope Z_scope.

(* little-endian digits of x in base 2^k, exactly n of them *)
Fixpoint digits_le (n : nat) (k x : Z) : list Z :=
  match n with O => [] | S m => (x mod 2 ^ k) :: digits_le m k (x / 2 ^ k) end.
Definition val_le (k : Z) (l : list Z) : Z := fold_right (fun d acc => d + 2 ^ k * acc) 0 l.

(* number of words: ceil(bits / (8 size - nails)) *)
Definition export_count (x size nails : Z) : Z :=
  if x =? 0 then 0 else (Z.log2 (Z.abs x) + 1 + (8 * size - nails) - 1) / (8 * size - nails).
(* one word value -> size bytes, endian = 1 most significant byte first, -1 least significant first *)
Definition word_bytes (size endian w : Z) : list Z :=
  let le := digits_le (Z.to_nat size) 8 w in if 0 <? endian then rev le else le.
(* mpz_export: words hold 8 size - nails value bits each (nail bits zero);
   order = 1 most significant word first, -1 least significant first; endian 0 is the host (little) *)
Definition mpz_export (x size order endian nails : Z) : list Z * Z :=
  let cnt := export_count x size nails in
  let ws := digits_le (Z.to_nat cnt) (8 * size - nails) (Z.abs x) in
  let ws := if 0 <? order then rev ws else ws in
  let e := if endian =? 0 then -1 else endian in
  (flat_map (word_bytes size e) ws, cnt).
(* split a byte list into chunks of n *)
Fixpoint chunks (fuel : nat) (n : nat) (l : list Z) : list (list Z) :=
  match fuel with
  | O => []
  | S f => match l with [] => [] | _ => firstn n l :: chunks f n (skipn n l) end
  end.
Definition bytes_word (endian : Z) (bs : list Z) : Z := val_le 8 (if 0 <? endian then rev bs else bs).
(* mpz_import: count words; nail bits of each word are ignored *)
Definition mpz_import (bytes : list Z) (count size order endian nails : Z) : Z :=
  let e := if endian =? 0 then -1 else endian in
  let ws := map (fun c => bytes_word e c mod 2 ^ (8 * size - nails))
                (chunks (Z.to_nat count) (Z.to_nat size) (firstn (Z.to_nat (count * size)) bytes)) in
  let ws := if 0 <? order then rev ws else ws in
  val_le (8 * size - nails) ws.

(* ---- raw format ---- *)
Definition nbytes (x : Z) : Z := if x =? 0 then 0 else Z.log2 (Z.abs x) / 8 + 1.
Definition be_bytes (n : nat) (x : Z) : list Z := rev (digits_le n 8 x).
(* mpz_out_raw: size field = +-(number of magnitude bytes) as a 32-bit two's complement big-endian, then the magnitude *)
Definition out_raw (x : Z) : list Z :=
  let nb := nbytes x in
  be_bytes 4 ((if x <? 0 then - nb else nb) mod 2 ^ 32) ++ be_bytes (Z.to_nat nb) (Z.abs x).
(* mpz_inp_raw on a byte stream: (bytes consumed, value); 0 consumed = failure (short stream).
   High zero bytes in the data are accepted (stripped). *)
Definition inp_raw (s : list Z) : Z * Z :=
  if (length s <? 4)%nat then (0, 0)
  else
    let c := val_le 8 (rev (firstn 4 s)) in
    let csize := if c <? 2 ^ 31 then c else c - 2 ^ 32 in
    let n := Z.abs csize in
    let data := firstn (Z.to_nat n) (skipn 4 s) in
    if (Z.of_nat (length data) <? n) then (0, 0)
    else let m := val_le 8 (rev data) in (4 + n, if csize <? 0 then - m else m).
