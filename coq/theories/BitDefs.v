(* BitDefs.v — models behind C10.
   mpn level: the eight logical operations, com, popcount, hamdist, scan0/scan1 on limb lists.
   mpz level: and/ior/xor/com built the way the C code builds them — magnitudes of
   negative operands turned into one's complement by subtracting 1 (mpn_sub_1), a limb-wise
   operation, and "+1, negate" on the way out (mpn_add_1 with a possible new top limb) —
   and tstbit exactly as mpz/tstbit.c.  setbit/clrbit/combit/scan/popcount/hamdist at
   value level.  Definitions only. *)
From Coq Require Import ZArith List Bool.
From Mpir Require Import Word Limbs MpnBasicDefs MpzDefs.
Import ListNotations.
Local Open Scope Z_scope.

Definition BITCNT_MAX : Z := B - 1.        (* the largest mp_bitcnt_t *)

(* ---- mpn logical operations (mpn/generic/and_n.c ...), equal lengths ---- *)
Fixpoint map2 (f : Z -> Z -> Z) (x y : list Z) : list Z :=
  match x, y with a :: x', b :: y' => f a b :: map2 f x' y' | _, _ => [] end.
Definition lnotl (a : Z) : Z := B - 1 - a.            (* ~a on a limb *)
Definition and_n := map2 Z.land.
Definition ior_n := map2 Z.lor.
Definition xor_n := map2 Z.lxor.
Definition andn_n := map2 (fun a b => Z.land a (lnotl b)).
Definition iorn_n := map2 (fun a b => Z.lor a (lnotl b)).
Definition nand_n := map2 (fun a b => lnotl (Z.land a b)).
Definition nior_n := map2 (fun a b => lnotl (Z.lor a b)).
Definition xnor_n := map2 (fun a b => lnotl (Z.lxor a b)).

(* ---- population count ---- *)
Fixpoint pos_popcount (p : positive) : Z :=
  match p with xH => 1 | xO q => pos_popcount q | xI q => 1 + pos_popcount q end.
Definition Zpopcount (x : Z) : Z := match x with Zpos p => pos_popcount p | _ => 0 end.
Definition popcount (u : list Z) : Z := fold_right (fun a s => Zpopcount a + s) 0 u.
Definition hamdist (u v : list Z) : Z := popcount (xor_n u v).

(* ---- scanning: least bit index >= start with the wanted value ---- *)
(* value level: x >> start (arithmetic) is non-zero, then start + trailing zeros of it *)
Definition Zscan1 (x start : Z) : Z :=
  let y := Z.shiftr x start in
  if y =? 0 then BITCNT_MAX else start + ctz (Z.abs y).
Definition Zscan0 (x start : Z) : Z := Zscan1 (Z.lnot x) start.
(* mpn_scan1 / mpn_scan0 on a limb vector known to contain such a bit (the manual's precondition) *)
Definition mpn_scan1 (u : list Z) (start : Z) : Z := Zscan1 (eval u) start.
Definition mpn_scan0 (u : list Z) (start : Z) : Z := Zscan0 (eval u) start.

(* ---- mpz: and / ior / xor / com ---- *)
(* pad both to the longer length, apply f limb-wise *)
Definition lop (f : Z -> Z -> Z) (x y : list Z) : list Z :=
  let n := Nat.max (length x) (length y) in map2 f (pad x n) (pad y n).
(* |z| - 1 as limbs (z <> 0): mpn_sub_1 (.., 1) *)
Definition mag_m1 (z : mpz) : list Z := fst (sub_1 (d z) 1).
(* -(eval l + 1): mpn_add_1 (.., 1), store the carry as a new top limb, negate *)
Definition neg_p1 (l : list Z) : mpz :=
  match l with
  | [] => mkz (-1) [1]
  | _ => let '(r, c) := add_1 l 1 in mk_norm true (r ++ [c])
  end.
Definition isneg (z : mpz) : bool := sz z <? 0.

Definition mpz_and (a b : mpz) : mpz :=
  match isneg a, isneg b with
  | false, false => mk_norm false (lop Z.land (d a) (d b))
  | true, true => neg_p1 (lop Z.lor (mag_m1 a) (mag_m1 b))
  | false, true => mk_norm false (lop (fun x y => Z.land x (lnotl y)) (d a) (mag_m1 b))
  | true, false => mk_norm false (lop (fun x y => Z.land x (lnotl y)) (d b) (mag_m1 a))
  end.
Definition mpz_ior (a b : mpz) : mpz :=
  match isneg a, isneg b with
  | false, false => mk_norm false (lop Z.lor (d a) (d b))
  | true, true => neg_p1 (lop Z.land (mag_m1 a) (mag_m1 b))
  | false, true => neg_p1 (lop (fun x y => Z.land x (lnotl y)) (mag_m1 b) (d a))
  | true, false => neg_p1 (lop (fun x y => Z.land x (lnotl y)) (mag_m1 a) (d b))
  end.
Definition mpz_xor (a b : mpz) : mpz :=
  match isneg a, isneg b with
  | false, false => mk_norm false (lop Z.lxor (d a) (d b))
  | true, true => mk_norm false (lop Z.lxor (mag_m1 a) (mag_m1 b))
  | false, true => neg_p1 (lop Z.lxor (d a) (mag_m1 b))
  | true, false => neg_p1 (lop Z.lxor (mag_m1 a) (d b))
  end.
(* mpz/com.c: x >= 0 -> -(x+1); x < 0 -> |x| - 1 *)
Definition mpz_com (a : mpz) : mpz :=
  if isneg a then mk_norm false (mag_m1 a) else neg_p1 (d a).

(* mpz/tstbit.c *)
Definition mpz_tstbit (u : mpz) (bit_index : Z) : Z :=
  let limb_index := Z.to_nat (bit_index / 64) in
  if (length (d u) <=? limb_index)%nat then b2z (sz u <? 0)
  else
    let limb0 := nth limb_index (d u) 0 in
    let limb :=
      if sz u <? 0 then
        let t := wrap (- limb0) in                                     (* twos complement *)
        if zero_p (firstn limb_index (d u)) then t else wrap (t - 1)   (* ones complement *)
      else limb0 in
    Z.land (Z.shiftr limb (bit_index mod 64)) 1.

(* setbit / clrbit / combit through the logical operations with 2^k *)
Definition mpz_setbit (u : mpz) (k : Z) : mpz := mpz_ior u (mpz_of_Z (2 ^ k)).
Definition mpz_clrbit (u : mpz) (k : Z) : mpz := mpz_and u (mpz_com (mpz_of_Z (2 ^ k))).
Definition mpz_combit (u : mpz) (k : Z) : mpz := mpz_xor u (mpz_of_Z (2 ^ k)).

(* scan / popcount / hamdist on the signed value, with the manual's "no such bit" answer *)
Definition mpz_scan1 (u : mpz) (start : Z) : Z := Zscan1 (value u) start.
Definition mpz_scan0 (u : mpz) (start : Z) : Z := Zscan0 (value u) start.
Definition mpz_popcount (u : mpz) : Z := if sz u <? 0 then BITCNT_MAX else popcount (d u).
Definition mpz_hamdist (u v : mpz) : Z :=
  match isneg u, isneg v with
  | false, false => popcount (lop Z.lxor (d u) (d v))
  | true, true => popcount (lop Z.lxor (mag_m1 u) (mag_m1 v))
  | _, _ => BITCNT_MAX
  end.
