(* MpnMulProofs.v — the multiplication models of MpnMulDefs.v compute the exact product. *)
From Coq Require Import ZArith List Lia Bool.
From Mpir Require Import Word Limbs MpnBasicDefs MpnBasicProofs MpzDefs MpzProofs MpnMulDefs FftDefs.
Import ListNotations.
Local Open Scope Z_scope.

(* ------------------------------------------------------------------ *)
(* single-limb steps                                                    *)

Lemma mul_step ul vl cl : limb ul -> limb vl -> limb cl ->
  let '(hpl, lpl) := umul_ppmm ul vl in
  let lpl1 := wrap (lpl + cl) in
  let cl1 := wrap (b2z (lpl1 <? cl) + hpl) in
  lpl1 + B * cl1 = ul * vl + cl /\ limb lpl1 /\ limb cl1.
Proof.
  intros Hul Hvl Hcl.
  pose proof (umul_ppmm_spec ul vl Hul Hvl) as HM.
  destruct (umul_ppmm ul vl) as [hpl lpl]. destruct HM as (M1 & M2 & M3). cbv zeta.
  pose proof (wrap_add_carry cl lpl Hcl M3) as E1.
  rewrite (Z.add_comm cl lpl) in E1.
  pose proof (wrap_limb (lpl + cl)) as L1.
  set (lpl1 := wrap (lpl + cl)) in *.
  pose proof B_pos as HB. pose proof B_gt_1 as HB1.
  assert (Hh : hpl <= B - 2).
  { unfold limb in *. assert (ul * vl <= (B - 1) * (B - 1)) by (apply Z.mul_le_mono_nonneg; lia).
    destruct (Z_le_gt_dec hpl (B - 2)) as [Hle|Hgt]; [exact Hle|exfalso].
    assert ((B - 1) * B <= hpl * B) by (apply Z.mul_le_mono_nonneg_r; lia).
    lia. }
  assert (Hc : 0 <= b2z (lpl1 <? cl) + hpl < B).
  { unfold limb in *. destruct (lpl1 <? cl); cbn [b2z]; lia. }
  rewrite (wrap_small _ Hc).
  split; [|split; [exact L1|exact Hc]].
  lia.
Qed.

Lemma addmul_step rl ul vl cl : limb rl -> limb ul -> limb vl -> limb cl ->
  let '(hpl, lpl) := umul_ppmm ul vl in
  let lpl1 := wrap (lpl + cl) in
  let cl1 := wrap (b2z (lpl1 <? cl) + hpl) in
  let lpl2 := wrap (rl + lpl1) in
  let cl2 := wrap (cl1 + b2z (lpl2 <? rl)) in
  lpl2 + B * cl2 = rl + ul * vl + cl /\ limb lpl2 /\ limb cl2.
Proof.
  intros Hrl Hul Hvl Hcl.
  pose proof (mul_step ul vl cl Hul Hvl Hcl) as HS.
  destruct (umul_ppmm ul vl) as [hpl lpl]. cbv zeta in *.
  set (lpl1 := wrap (lpl + cl)) in *.
  set (cl1 := wrap (b2z (lpl1 <? cl) + hpl)) in *.
  destruct HS as (S1 & S2 & S3).
  pose proof (wrap_add_carry rl lpl1 Hrl S2) as E2.
  pose proof (wrap_limb (rl + lpl1)) as L2.
  set (lpl2 := wrap (rl + lpl1)) in *.
  pose proof B_pos as HB. pose proof B_gt_1 as HB1.
  assert (Hp : ul * vl <= (B - 1) * (B - 1)).
  { unfold limb in *. apply Z.mul_le_mono_nonneg; lia. }
  assert (Hc : 0 <= cl1 + b2z (lpl2 <? rl) < B).
  { unfold limb in *. destruct (lpl2 <? rl); cbn [b2z] in *; nia. }
  rewrite (wrap_small _ Hc).
  split; [|split; [exact L2|exact Hc]].
  lia.
Qed.

Lemma submul_step rl ul vl cl : limb rl -> limb ul -> limb vl -> limb cl ->
  let '(hpl, lpl) := umul_ppmm ul vl in
  let lpl1 := wrap (lpl + cl) in
  let cl1 := wrap (b2z (lpl1 <? cl) + hpl) in
  let lpl2 := wrap (rl - lpl1) in
  let cl2 := wrap (cl1 + b2z (rl <? lpl2)) in
  lpl2 - B * cl2 = rl - ul * vl - cl /\ limb lpl2 /\ limb cl2.
Proof.
  intros Hrl Hul Hvl Hcl.
  pose proof (mul_step ul vl cl Hul Hvl Hcl) as HS.
  destruct (umul_ppmm ul vl) as [hpl lpl]. cbv zeta in *.
  set (lpl1 := wrap (lpl + cl)) in *.
  set (cl1 := wrap (b2z (lpl1 <? cl) + hpl)) in *.
  destruct HS as (S1 & S2 & S3).
  pose proof (wrap_sub_borrow rl lpl1 Hrl S2) as E2.
  pose proof (wrap_limb (rl - lpl1)) as L2.
  set (lpl2 := wrap (rl - lpl1)) in *.
  pose proof B_pos as HB. pose proof B_gt_1 as HB1.
  assert (Hp : ul * vl <= (B - 1) * (B - 1)).
  { unfold limb in *. apply Z.mul_le_mono_nonneg; lia. }
  assert (Hb : b2z (rl <? lpl2) = b2z (rl <? lpl1)).
  { unfold limb in *.
    destruct (Z.ltb_spec rl lpl1) as [C1|C1], (Z.ltb_spec rl lpl2) as [C2|C2];
      cbn [b2z] in *; lia. }
  rewrite Hb.
  assert (Hc : 0 <= cl1 + b2z (rl <? lpl1) < B).
  { unfold limb in *. destruct (rl <? lpl1); cbn [b2z] in *; nia. }
  rewrite (wrap_small _ Hc).
  split; [|split; [exact L2|exact Hc]].
  lia.
Qed.

(* ------------------------------------------------------------------ *)
(* mul_1 / addmul_1 / submul_1                                          *)

Lemma mul_1_c_spec : forall u vl cl, wf u -> limb vl -> limb cl ->
  eval (fst (mul_1_c u vl cl)) + B ^ len u * snd (mul_1_c u vl cl) = eval u * vl + cl
  /\ wf (fst (mul_1_c u vl cl)) /\ length (fst (mul_1_c u vl cl)) = length u
  /\ limb (snd (mul_1_c u vl cl)).
Proof.
  induction u as [|ul u IH]; intros vl cl Hu Hvl Hcl.
  - cbn [mul_1_c fst snd eval length]. rewrite Bpow_len_nil.
    split; [lia|]. split; [apply wf_nil|]. split; [reflexivity|assumption].
  - apply wf_inv in Hu. destruct Hu as [Hul Hu].
    pose proof (mul_step ul vl cl Hul Hvl Hcl) as HS.
    cbn [mul_1_c].
    destruct (umul_ppmm ul vl) as [hpl lpl]. cbv zeta in *.
    set (lpl1 := wrap (lpl + cl)) in *.
    set (cl1 := wrap (b2z (lpl1 <? cl) + hpl)) in *.
    destruct HS as (S1 & S2 & S3).
    specialize (IH vl cl1 Hu Hvl S3).
    destruct (mul_1_c u vl cl1) as [r c]. cbn [fst snd] in *.
    destruct IH as (I1 & I2 & I3 & I4).
    cbn [eval length]. rewrite Bpow_len_cons.
    split; [|split; [|split]].
    + pose proof (f_equal (Z.mul B) I1) as I1'. lia.
    + apply wf_cons; assumption.
    + rewrite I3. reflexivity.
    + assumption.
Qed.

Lemma mul_1_spec : forall u vl, wf u -> limb vl ->
  eval (fst (mul_1 u vl)) + B ^ len u * snd (mul_1 u vl) = eval u * vl
  /\ wf (fst (mul_1 u vl)) /\ length (fst (mul_1 u vl)) = length u /\ limb (snd (mul_1 u vl)).
Proof.
  intros u vl Hu Hvl. unfold mul_1.
  destruct (mul_1_c_spec u vl 0 Hu Hvl limb_0) as (H1 & H2 & H3 & H4).
  split; [lia|]. split; [assumption|]. split; assumption.
Qed.

Lemma addmul_1_c_spec : forall r u vl cl, wf r -> wf u -> limb vl -> limb cl ->
  length r = length u ->
  eval (fst (addmul_1_c r u vl cl)) + B ^ len u * snd (addmul_1_c r u vl cl)
    = eval r + eval u * vl + cl
  /\ wf (fst (addmul_1_c r u vl cl)) /\ length (fst (addmul_1_c r u vl cl)) = length u
  /\ limb (snd (addmul_1_c r u vl cl)).
Proof.
  induction r as [|rl r IH]; intros [|ul u] vl cl Hr Hu Hvl Hcl Hl; try discriminate.
  - cbn [addmul_1_c fst snd eval length]. rewrite Bpow_len_nil.
    split; [lia|]. split; [apply wf_nil|]. split; [reflexivity|assumption].
  - apply wf_inv in Hr. destruct Hr as [Hrl Hr].
    apply wf_inv in Hu. destruct Hu as [Hul Hu].
    injection Hl as Hl.
    pose proof (addmul_step rl ul vl cl Hrl Hul Hvl Hcl) as HS.
    cbn [addmul_1_c].
    destruct (umul_ppmm ul vl) as [hpl lpl]. cbv zeta in *.
    set (lpl1 := wrap (lpl + cl)) in *.
    set (cl1 := wrap (b2z (lpl1 <? cl) + hpl)) in *.
    set (lpl2 := wrap (rl + lpl1)) in *.
    set (cl2 := wrap (cl1 + b2z (lpl2 <? rl))) in *.
    destruct HS as (S1 & S2 & S3).
    specialize (IH u vl cl2 Hr Hu Hvl S3 Hl).
    destruct (addmul_1_c r u vl cl2) as [o c]. cbn [fst snd] in *.
    destruct IH as (I1 & I2 & I3 & I4).
    cbn [eval length]. rewrite Bpow_len_cons.
    split; [|split; [|split]].
    + pose proof (f_equal (Z.mul B) I1) as I1'. lia.
    + apply wf_cons; assumption.
    + rewrite I3. reflexivity.
    + assumption.
Qed.

Lemma addmul_1_spec : forall r u vl, wf r -> wf u -> limb vl -> length r = length u ->
  eval (fst (addmul_1 r u vl)) + B ^ len u * snd (addmul_1 r u vl) = eval r + eval u * vl
  /\ wf (fst (addmul_1 r u vl)) /\ length (fst (addmul_1 r u vl)) = length u
  /\ limb (snd (addmul_1 r u vl)).
Proof.
  intros r u vl Hr Hu Hvl Hl. unfold addmul_1.
  destruct (addmul_1_c_spec r u vl 0 Hr Hu Hvl limb_0 Hl) as (H1 & H2 & H3 & H4).
  split; [lia|]. split; [assumption|]. split; assumption.
Qed.

Lemma submul_1_c_spec : forall r u vl cl, wf r -> wf u -> limb vl -> limb cl ->
  length r = length u ->
  eval (fst (submul_1_c r u vl cl)) - B ^ len u * snd (submul_1_c r u vl cl)
    = eval r - eval u * vl - cl
  /\ wf (fst (submul_1_c r u vl cl)) /\ length (fst (submul_1_c r u vl cl)) = length u
  /\ limb (snd (submul_1_c r u vl cl)).
Proof.
  induction r as [|rl r IH]; intros [|ul u] vl cl Hr Hu Hvl Hcl Hl; try discriminate.
  - cbn [submul_1_c fst snd eval length]. rewrite Bpow_len_nil.
    split; [lia|]. split; [apply wf_nil|]. split; [reflexivity|assumption].
  - apply wf_inv in Hr. destruct Hr as [Hrl Hr].
    apply wf_inv in Hu. destruct Hu as [Hul Hu].
    injection Hl as Hl.
    pose proof (submul_step rl ul vl cl Hrl Hul Hvl Hcl) as HS.
    cbn [submul_1_c].
    destruct (umul_ppmm ul vl) as [hpl lpl]. cbv zeta in *.
    set (lpl1 := wrap (lpl + cl)) in *.
    set (cl1 := wrap (b2z (lpl1 <? cl) + hpl)) in *.
    set (lpl2 := wrap (rl - lpl1)) in *.
    set (cl2 := wrap (cl1 + b2z (rl <? lpl2))) in *.
    destruct HS as (S1 & S2 & S3).
    specialize (IH u vl cl2 Hr Hu Hvl S3 Hl).
    destruct (submul_1_c r u vl cl2) as [o c]. cbn [fst snd] in *.
    destruct IH as (I1 & I2 & I3 & I4).
    cbn [eval length]. rewrite Bpow_len_cons.
    split; [|split; [|split]].
    + pose proof (f_equal (Z.mul B) I1) as I1'. lia.
    + apply wf_cons; assumption.
    + rewrite I3. reflexivity.
    + assumption.
Qed.

Lemma submul_1_spec : forall r u vl, wf r -> wf u -> limb vl -> length r = length u ->
  eval (fst (submul_1 r u vl)) - B ^ len u * snd (submul_1 r u vl) = eval r - eval u * vl
  /\ wf (fst (submul_1 r u vl)) /\ length (fst (submul_1 r u vl)) = length u
  /\ limb (snd (submul_1 r u vl)).
Proof.
  intros r u vl Hr Hu Hvl Hl. unfold submul_1.
  destruct (submul_1_c_spec r u vl 0 Hr Hu Hvl limb_0 Hl) as (H1 & H2 & H3 & H4).
  split; [lia|]. split; [assumption|]. split; assumption.
Qed.

(* ------------------------------------------------------------------ *)
(* mul_basecase                                                         *)

Lemma wf_snoc a x : wf a -> limb x -> wf (a ++ [x]).
Proof. intros Ha Hx. apply wf_app; [exact Ha|]. apply wf_cons; [exact Hx|apply wf_nil]. Qed.

Lemma mul_bc_rest_spec : forall v win u, wf win -> wf u -> wf v ->
  length win = S (length u) ->
  eval (mul_bc_rest win u v) = eval win + B * (eval u * eval v)
  /\ wf (mul_bc_rest win u v)
  /\ length (mul_bc_rest win u v) = (length win + length v)%nat.
Proof.
  induction v as [|vj v IH]; intros win u Hwin Hu Hv Hl.
  - cbn [mul_bc_rest eval length]. split; [ring|]. split; [exact Hwin|]. lia.
  - apply wf_inv in Hv. destruct Hv as [Hvj Hv].
    destruct win as [|w0 wt]; [discriminate|].
    apply wf_inv in Hwin. destruct Hwin as [Hw0 Hwt].
    injection Hl as Hl.
    cbn [mul_bc_rest].
    destruct (addmul_1_spec wt u vj Hwt Hu Hvj Hl) as (A1 & A2 & A3 & A4).
    destruct (addmul_1 wt u vj) as [w' c]. cbn [fst snd] in *.
    assert (Hl' : length (w' ++ [c]) = S (length u)).
    { rewrite app_length. cbn [length]. lia. }
    destruct (IH (w' ++ [c]) u (wf_snoc w' c A2 A4) Hu Hv Hl') as (I1 & I2 & I3).
    cbn [eval length]. split; [|split].
    + rewrite I1, eval_snoc. rewrite (len_eq_of_length w' u A3).
      replace (eval w' + B ^ len u * c) with (eval wt + eval u * vj) by lia. ring.
    + apply wf_cons; assumption.
    + rewrite I3, Hl'. lia.
Qed.

Lemma mul_basecase_spec : forall u v, wf u -> wf v -> u <> [] -> v <> [] ->
  eval (mul_basecase u v) = eval u * eval v
  /\ wf (mul_basecase u v) /\ length (mul_basecase u v) = (length u + length v)%nat.
Proof.
  intros u v Hu Hv Hune Hvne. destruct v as [|v0 v]; [contradiction|].
  apply wf_inv in Hv. destruct Hv as [Hv0 Hv].
  unfold mul_basecase.
  destruct (mul_1_spec u v0 Hu Hv0) as (M1 & M2 & M3 & M4).
  destruct (mul_1 u v0) as [r0 c0]. cbn [fst snd] in *.
  assert (Hl' : length (r0 ++ [c0]) = S (length u)).
  { rewrite app_length. cbn [length]. lia. }
  destruct (mul_bc_rest_spec v (r0 ++ [c0]) u (wf_snoc r0 c0 M2 M4) Hu Hv Hl') as (I1 & I2 & I3).
  split; [|split].
  - rewrite I1, eval_snoc, (len_eq_of_length r0 u M3), M1. cbn [eval]. ring.
  - exact I2.
  - rewrite I3, Hl'. cbn [length]. lia.
Qed.

(* ------------------------------------------------------------------ *)
(* Karatsuba                                                            *)

Lemma kara_identity X xl xh yl yh x y :
  x = X * xh + xl -> y = X * yh + yl ->
  (xl * yl + X ^ 2 * (xh * yh) + X * (xl * yl + xh * yh - (xh - xl) * (yh - yl)) = x * y).
Proof. intros -> ->. ring. Qed.

Lemma kara_mul_spec : forall fuel thr n x y, 0 <= n -> kara_mul fuel thr n x y = x * y.
Proof.
  induction fuel as [|f IH]; intros thr n x y Hn; [reflexivity|].
  cbn [kara_mul]. cbv zeta.
  assert (Hn2 : 0 <= n / 2) by (apply Z.div_pos; lia).
  assert (Hn3 : 0 <= n - n / 2).
  { pose proof (Z.div_mod n 2 ltac:(lia)). pose proof (Z.mod_pos_bound n 2 ltac:(lia)). lia. }
  set (n2 := n / 2) in *.
  assert (HX : 0 < B ^ n2) by (apply Z.pow_pos_nonneg; [exact B_pos|exact Hn2]).
  set (X := B ^ n2) in *.
  assert (HX2 : B ^ (2 * n2) = X ^ 2).
  { unfold X. rewrite <- Z.pow_mul_r by lia. f_equal. lia. }
  rewrite HX2.
  pose proof (Z.div_mod x X ltac:(lia)) as Ex.
  pose proof (Z.div_mod y X ltac:(lia)) as Ey.
  set (xl := x mod X) in *. set (xh := x / X) in *.
  set (yl := y mod X) in *. set (yh := y / X) in *.
  assert (Hrec : forall m a b, 0 <= m ->
            (if n - n2 <? thr then fun _ a b => a * b else kara_mul f thr) m a b = a * b).
  { intros m a b Hm. destruct (n - n2 <? thr); [reflexivity|apply IH; exact Hm]. }
  pose proof (kara_identity X xl xh yl yh x y Ex Ey) as KI.
  destruct (xl <=? xh), (yl <=? yh); cbn [xorb];
    rewrite !Hrec by assumption; rewrite <- KI; ring.
Qed.

(* ------------------------------------------------------------------ *)
(* mpz_mul                                                              *)

Lemma mpn_mul_spec u v : wf u -> wf v -> u <> [] -> v <> [] ->
  eval (mpn_mul u v) = eval u * eval v
  /\ wf (mpn_mul u v) /\ length (mpn_mul u v) = (length u + length v)%nat.
Proof.
  intros Hu Hv Hune Hvne. unfold mpn_mul.
  destruct (length v <=? length u)%nat.
  - apply mul_basecase_spec; assumption.
  - destruct (mul_basecase_spec v u Hv Hu Hvne Hune) as (M1 & M2 & M3).
    split; [rewrite M1; ring|]. split; [exact M2|]. rewrite M3. lia.
Qed.

Lemma len_pos_ne l : 0 < len l -> l <> [].
Proof. intros H E. subst l. unfold len in H. cbn [length] in H. lia. Qed.

Lemma drop_top_zero_spec w total : wf w -> (2 <= len w) -> eval w = total ->
  B ^ (len w - 2) <= total ->
  eval (drop_top_zero w) = total /\ wf (drop_top_zero w) /\ normalized (drop_top_zero w)
  /\ 0 < len (drop_top_zero w).
Proof.
  intros Hw Hl He Hlow.
  assert (Hne : w <> []) by (apply len_pos_ne; lia).
  destruct (exists_last Hne) as (a & x & E). subst w.
  unfold drop_top_zero. rewrite last_last, removelast_last.
  rewrite len_snoc in *. rewrite eval_snoc in He.
  apply wf_app_inv in Hw. destruct Hw as [Ha Hx].
  destruct (Z.eqb_spec x 0) as [X0|X0].
  - subst x. split; [lia|]. split; [exact Ha|]. split; [|lia].
    apply lower_normalized; [exact Ha|apply len_pos_ne; lia|].
    replace (len a - 1) with (len a + 1 - 2) by lia. lia.
  - rewrite eval_snoc, len_snoc. split; [exact He|]. split; [apply wf_app; assumption|].
    split; [apply normalized_snoc; exact X0|]. pose proof (len_nonneg a). lia.
Qed.

Lemma len_pos_of_sz s l : Z.abs s = len l -> s <> 0 -> 0 < len l.
Proof. intros H1 H2. lia. Qed.

Lemma mpz_mul_spec : forall u v, mpz_wf u -> mpz_wf v ->
  value (mpz_mul u v) = value u * value v /\ mpz_wf (mpz_mul u v).
Proof.
  intros [us up] [vs vp] (Au & Wu & Nu) (Av & Wv & Nv). cbn [sz d] in *.
  unfold mpz_mul. cbn [sz d]. cbv zeta.
  destruct (Z.eqb_spec us 0) as [U0|U0]; [|destruct (Z.eqb_spec vs 0) as [V0|V0]]; cbn [orb].
  - subst us. split; [|apply mpz_wf_zero]. unfold value. cbn [sz d Z.sgn eval]. lia.
  - subst vs. split; [|apply mpz_wf_zero]. unfold value. cbn [sz d Z.sgn eval]. lia.
  - pose proof (len_pos_of_sz us up Au U0) as Lu.
    pose proof (len_pos_of_sz vs vp Av V0) as Lv.
    pose proof (len_pos_ne up Lu) as Une. pose proof (len_pos_ne vp Lv) as Vne.
    destruct (mpn_mul_spec up vp Wu Wv Une Vne) as (M1 & M2 & M3).
    assert (Ml : len (mpn_mul up vp) = len up + len vp).
    { unfold len. rewrite M3. lia. }
    pose proof (normalized_lower up Wu Nu Une) as Lou.
    pose proof (normalized_lower vp Wv Nv Vne) as Lov.
    assert (Hlow : B ^ (len (mpn_mul up vp) - 2) <= eval up * eval vp).
    { rewrite Ml. replace (len up + len vp - 2) with ((len up - 1) + (len vp - 1)) by lia.
      rewrite Z.pow_add_r by lia.
      apply Z.mul_le_mono_nonneg; try assumption;
        apply Z.pow_nonneg; pose proof B_pos; lia. }
    destruct (drop_top_zero_spec (mpn_mul up vp) (eval up * eval vp) M2 ltac:(lia) M1 Hlow)
      as (D1 & D2 & D3 & D4).
    set (w := drop_top_zero (mpn_mul up vp)) in *.
    unfold value at 2 3. cbn [sz d].
    destruct (Z.ltb_spec us 0) as [Cu|Cu], (Z.ltb_spec vs 0) as [Cv|Cv]; cbn [xorb].
    + destruct (mkz_pos w D2 D3) as [P1 P2]. split; [|exact P2]. rewrite P1, D1.
      replace (Z.sgn us) with (-1) by lia. replace (Z.sgn vs) with (-1) by lia. ring.
    + destruct (mkz_neg w D2 D3) as [P1 P2]. split; [|exact P2]. rewrite P1, D1.
      replace (Z.sgn us) with (-1) by lia. replace (Z.sgn vs) with 1 by lia. ring.
    + destruct (mkz_neg w D2 D3) as [P1 P2]. split; [|exact P2]. rewrite P1, D1.
      replace (Z.sgn us) with 1 by lia. replace (Z.sgn vs) with (-1) by lia. ring.
    + destruct (mkz_pos w D2 D3) as [P1 P2]. split; [|exact P2]. rewrite P1, D1.
      replace (Z.sgn us) with 1 by lia. replace (Z.sgn vs) with 1 by lia. ring.
Qed.

(* ------------------------------------------------------------------ *)
(* mpz_mul_ui / mpz_mul_si                                              *)

Lemma mpz_mul_1_spec u sml neg_mult : mpz_wf u -> limb sml ->
  value (mpz_mul_1 u sml neg_mult) = (if neg_mult then - (value u * sml) else value u * sml)
  /\ mpz_wf (mpz_mul_1 u sml neg_mult).
Proof.
  destruct u as [us up]. intros (Au & Wu & Nu) Hs. cbn [sz d] in *.
  unfold mpz_mul_1. cbn [sz d].
  destruct (Z.eqb_spec us 0) as [U0|U0]; [|destruct (Z.eqb_spec sml 0) as [S0|S0]]; cbn [orb].
  - subst us. split; [|apply mpz_wf_zero]. unfold value. cbn [sz d Z.sgn eval].
    destruct neg_mult; lia.
  - subst sml. split; [|apply mpz_wf_zero]. unfold value. cbn [sz d Z.sgn eval].
    destruct neg_mult; lia.
  - pose proof (len_pos_of_sz us up Au U0) as Lu.
    pose proof (len_pos_ne up Lu) as Une.
    destruct (mul_1_spec up sml Wu Hs) as (M1 & M2 & M3 & M4).
    destruct (mul_1 up sml) as [p cy]. cbn [fst snd] in *.
    pose proof (normalized_lower up Wu Nu Une) as Lou.
    pose proof (len_eq_of_length p up M3) as Lp.
    set (w := if cy =? 0 then p else p ++ [cy]).
    assert (Hw : eval w = eval up * sml /\ wf w /\ normalized w).
    { unfold w. destruct (Z.eqb_spec cy 0) as [C0|C0].
      - subst cy. split; [lia|]. split; [exact M2|].
        apply lower_normalized; [exact M2|apply len_pos_ne; lia|].
        rewrite Lp. unfold limb in Hs.
        assert (0 <= B ^ (len up - 1)) by (apply Z.pow_nonneg; pose proof B_pos; lia).
        nia.
      - split; [rewrite eval_snoc, Lp; exact M1|].
        split; [apply wf_snoc; assumption|apply normalized_snoc; exact C0]. }
    destruct Hw as (W1 & W2 & W3).
    unfold value at 2 3. cbn [sz d].
    destruct (Z.ltb_spec us 0) as [Cu|Cu], neg_mult; cbn [xorb].
    + destruct (mkz_pos w W2 W3) as [P1 P2]. split; [|exact P2]. rewrite P1, W1.
      replace (Z.sgn us) with (-1) by lia. ring.
    + destruct (mkz_neg w W2 W3) as [P1 P2]. split; [|exact P2]. rewrite P1, W1.
      replace (Z.sgn us) with (-1) by lia. ring.
    + destruct (mkz_neg w W2 W3) as [P1 P2]. split; [|exact P2]. rewrite P1, W1.
      replace (Z.sgn us) with 1 by lia. ring.
    + destruct (mkz_pos w W2 W3) as [P1 P2]. split; [|exact P2]. rewrite P1, W1.
      replace (Z.sgn us) with 1 by lia. ring.
Qed.

Lemma mpz_mul_ui_spec : forall u v, mpz_wf u -> limb v ->
  value (mpz_mul_ui u v) = value u * v /\ mpz_wf (mpz_mul_ui u v).
Proof. intros u v Hu Hv. exact (mpz_mul_1_spec u v false Hu Hv). Qed.

Lemma mpz_mul_si_spec : forall u v, mpz_wf u -> - 2 ^ 63 <= v < 2 ^ 63 ->
  value (mpz_mul_si u v) = value u * v /\ mpz_wf (mpz_mul_si u v).
Proof.
  intros u v Hu Hv. unfold mpz_mul_si.
  assert (Ha : limb (Z.abs v)).
  { unfold limb. rewrite B_val. change (2 ^ 63) with 9223372036854775808 in Hv. lia. }
  destruct (mpz_mul_1_spec u (Z.abs v) (v <? 0) Hu Ha) as [M1 M2].
  split; [|exact M2]. rewrite M1.
  destruct (Z.ltb_spec v 0) as [C|C].
  - rewrite Z.abs_neq by lia. ring.
  - rewrite Z.abs_eq by lia. ring.
Qed.

(* ------------------------------------------------------------------ *)
(* mpz_addmul / mpz_submul                                              *)

Lemma value_sz0 z : sz z = 0 -> value z = 0.
Proof. intros H. unfold value. rewrite H. reflexivity. Qed.

Lemma mpz_aorsmul_spec w x y is_sub : mpz_wf w -> mpz_wf x -> mpz_wf y ->
  value (mpz_aorsmul w x y is_sub)
    = (if is_sub then value w - value x * value y else value w + value x * value y)
  /\ mpz_wf (mpz_aorsmul w x y is_sub).
Proof.
  intros Hw Hx Hy. unfold mpz_aorsmul.
  destruct (Z.eqb_spec (sz x) 0) as [X0|X0]; [|destruct (Z.eqb_spec (sz y) 0) as [Y0|Y0]];
    cbn [orb].
  - split; [|exact Hw]. rewrite (value_sz0 x X0). destruct is_sub; ring.
  - split; [|exact Hw]. rewrite (value_sz0 y Y0). destruct is_sub; ring.
  - destruct (mpz_mul_spec x y Hx Hy) as [M1 M2].
    destruct is_sub.
    + destruct (mpz_sub_spec w (mpz_mul x y) Hw M2) as [S1 S2].
      split; [rewrite S1, M1; reflexivity|exact S2].
    + destruct (mpz_add_spec w (mpz_mul x y) Hw M2) as [S1 S2].
      split; [rewrite S1, M1; reflexivity|exact S2].
Qed.

Lemma mpz_addmul_submul_spec : forall w x y, mpz_wf w -> mpz_wf x -> mpz_wf y ->
  (value (mpz_addmul w x y) = value w + value x * value y /\ mpz_wf (mpz_addmul w x y))
  /\ (value (mpz_submul w x y) = value w - value x * value y /\ mpz_wf (mpz_submul w x y)).
Proof.
  intros w x y Hw Hx Hy. split.
  - exact (mpz_aorsmul_spec w x y false Hw Hx Hy).
  - exact (mpz_aorsmul_spec w x y true Hw Hx Hy).
Qed.

Lemma mpz_aorsmul_ui_spec w x y is_sub : mpz_wf w -> mpz_wf x -> limb y ->
  value (mpz_aorsmul_ui w x y is_sub)
    = (if is_sub then value w - value x * y else value w + value x * y)
  /\ mpz_wf (mpz_aorsmul_ui w x y is_sub).
Proof.
  intros Hw Hx Hy. unfold mpz_aorsmul_ui.
  destruct (Z.eqb_spec (sz x) 0) as [X0|X0]; [|destruct (Z.eqb_spec y 0) as [Y0|Y0]];
    cbn [orb].
  - split; [|exact Hw]. rewrite (value_sz0 x X0). destruct is_sub; ring.
  - split; [|exact Hw]. subst y. destruct is_sub; ring.
  - destruct (mpz_mul_ui_spec x y Hx Hy) as [M1 M2].
    destruct is_sub.
    + destruct (mpz_sub_spec w (mpz_mul_ui x y) Hw M2) as [S1 S2].
      split; [rewrite S1, M1; reflexivity|exact S2].
    + destruct (mpz_add_spec w (mpz_mul_ui x y) Hw M2) as [S1 S2].
      split; [rewrite S1, M1; reflexivity|exact S2].
Qed.

Lemma mpz_addmul_submul_ui_spec : forall w x y, mpz_wf w -> mpz_wf x -> limb y ->
  (value (mpz_addmul_ui w x y) = value w + value x * y /\ mpz_wf (mpz_addmul_ui w x y))
  /\ (value (mpz_submul_ui w x y) = value w - value x * y /\ mpz_wf (mpz_submul_ui w x y)).
Proof.
  intros w x y Hw Hx Hy. split.
  - exact (mpz_aorsmul_ui_spec w x y false Hw Hx Hy).
  - exact (mpz_aorsmul_ui_spec w x y true Hw Hx Hy).
Qed.

(* ------------------------------------------------------------------ *)
(* residues                                                             *)

Lemma mul_residues_spec : forall u v,
  mul_residues u v = map (fun p => (u * v) mod p) res_moduli.
Proof.
  intros u v. unfold mul_residues. apply map_ext_in. intros p Hp.
  symmetry. apply Z.mul_mod.
  unfold res_moduli in Hp. cbn [In] in Hp.
  destruct Hp as [<-|[<-|[<-|[<-|[]]]]]; discriminate.
Qed.

(* ------------------------------------------------------------------ *)
(* concrete instance                                                    *)

Lemma C01_example :
  wf [B - 1; B - 1] /\ mul_basecase [B - 1; B - 1] [B - 1; B - 1] = [1; 0; B - 2; B - 1]
  /\ fft_params (tab_of [(4,3);(3,3);(2,2);(2,1);(1,0)]) 4000 3800 = Some (FftTrunc 7 16)
  /\ tab_valid [(4,3);(3,3);(2,2);(2,1);(1,0)] = true
  /\ fft_trunc (4000 * 64) (3800 * 64) 6 1 > 2 * 2 ^ 6.
Proof.
  split; [apply wfb_wf; vm_compute; reflexivity|].
  split; [vm_compute; reflexivity|].
  split; [vm_compute; reflexivity|].
  split; [vm_compute; reflexivity|].
  vm_compute. reflexivity.
Qed.
