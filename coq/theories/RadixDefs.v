(* RadixDefs.v — models behind C06: string input grammar of mpz_set_str (mpz/set_str.c, byte by
   byte), digit generation and consumption in chunks of chars_per_limb digits as mpn_get_str /
   mpn_set_str do, mpz_get_str (sign, alphabet), mpz_sizeinbase (mpn/generic/sizeinbase.c incl. the
   double-precision product), and the consistency predicate of the mp_bases table.
   Strings are lists of byte values.  Definitions only. *)
From Coq Require Import ZArith List Bool.
From Mpir Require Import Word DivDefs.
Import ListNotations.
Local Open Scope Z_scope.

(* ---- the digit value table (regenerated from mp_dv_tab.c, passed as a parameter) ---- *)
Definition dv (tab : list Z) (off c : Z) : Z := nth (Z.to_nat (off + c)) tab 255.
Definition isspace (c : Z) : bool := (c =? 32) || ((9 <=? c) && (c <=? 13)).

(* mpz_set_str (x, str, base): None is the -1 return; the string ends at the first 0 byte *)
Fixpoint skip_space (s : list Z) : list Z :=
  match s with c :: r => if isspace c then skip_space r else s | [] => [] end.
Fixpoint skip_zeros_space (s : list Z) : list Z :=
  match s with c :: r => if (c =? 48) || isspace c then skip_zeros_space r else s | [] => [] end.
(* digits of the rest, white space dropped; None on an invalid digit *)
Fixpoint collect (tab : list Z) (off base : Z) (s : list Z) : option (list Z) :=
  match s with
  | [] => Some []
  | c :: r =>
      if c =? 0 then Some []
      else if isspace c then collect tab off base r
      else let d := dv tab off c in
           if base <=? d then None
           else match collect tab off base r with Some l => Some (d :: l) | None => None end
  end.
Definition horner (base : Z) (ds : list Z) : Z := fold_left (fun acc d => acc * base + d) ds 0.
Definition hd0 (s : list Z) : Z := match s with c :: _ => c | [] => 0 end.
Definition tl0 (s : list Z) : list Z := match s with _ :: r => r | [] => [] end.

Definition set_str (tab : list Z) (s : list Z) (base : Z) : option Z :=
  if 62 <? base then None
  else
    let off := if 36 <? base then 224 else 0 in
    let s1 := skip_space s in
    let neg := hd0 s1 =? 45 in
    let s2 := if neg then tl0 s1 else s1 in
    let c := hd0 s2 in
    if (if base =? 0 then 10 else base) <=? dv tab off c then None
    else
      (* base 0: look at the prefix *)
      let '(base', s3) :=
        if base =? 0 then
          if c =? 48 then
            let c2 := hd0 (tl0 s2) in
            if (c2 =? 120) || (c2 =? 88) then (16, tl0 (tl0 s2))
            else if (c2 =? 98) || (c2 =? 66) then (2, tl0 (tl0 s2))
            else (8, tl0 s2)
          else (10, s2)
        else (base, s2) in
      let s4 := skip_zeros_space s3 in
      if hd0 s4 =? 0 then Some 0
      else match collect tab off base' s4 with
           | None => None
           | Some ds => Some (if neg then - horner base' ds else horner base' ds)
           end.

(* ---- digit generation ---- *)
(* digits of x >= 0 in base b, most significant first, no leading zero; [] for 0 *)
Fixpoint digits_fuel (fuel : nat) (x b : Z) (acc : list Z) : list Z :=
  match fuel with
  | O => acc
  | S f => if x <=? 0 then acc else digits_fuel f (x / b) b ((x mod b) :: acc)
  end.
Definition digits (x b : Z) : list Z := digits_fuel (S (Z.to_nat (Z.log2 x))) x b [].

(* mpn_get_str for a base that is not a power of two: divide by big_base = b^cpl, each remainder
   yields exactly cpl digits (zero padded), leading zeros of the whole stripped at the end *)
Fixpoint chunk_digits (n : nat) (r b : Z) (acc : list Z) : list Z :=
  match n with O => acc | S k => chunk_digits k (r / b) b ((r mod b) :: acc) end.
Fixpoint get_str_chunks (fuel : nat) (x b cpl bigb : Z) (acc : list Z) : list Z :=
  match fuel with
  | O => acc
  | S f => if x <=? 0 then acc
           else get_str_chunks f (x / bigb) b cpl bigb (chunk_digits (Z.to_nat cpl) (x mod bigb) b acc)
  end.
Fixpoint strip_lead0 (l : list Z) : list Z :=
  match l with 0 :: r => strip_lead0 r | _ => l end.
Definition mpn_get_str (x b cpl bigb : Z) : list Z :=
  strip_lead0 (get_str_chunks (S (Z.to_nat (Z.log2 x))) x b cpl bigb []).

(* mpn_set_str basecase: Horner in chunks of cpl digits with multiplier big_base; the last,
   shorter chunk multiplies by b^k *)
Fixpoint take_chunk (n : nat) (ds : list Z) (b acc : Z) (k : Z) : Z * Z * list Z :=
  match n, ds with
  | S m, d :: r => take_chunk m r b (acc * b + d) (k + 1)
  | _, _ => (acc, k, ds)
  end.
Fixpoint set_str_chunks (fuel : nat) (ds : list Z) (b cpl : Z) (acc : Z) : Z :=
  match fuel with
  | O => acc
  | S f =>
      match ds with
      | [] => acc
      | _ => let '(chunk, k, rest) := take_chunk (Z.to_nat cpl) ds b 0 0 in
             set_str_chunks f rest b cpl (acc * b ^ k + chunk)
      end
  end.
Definition mpn_set_str (ds : list Z) (b cpl : Z) : Z := set_str_chunks (S (length ds)) ds b cpl 0.

(* mpz_get_str: '-' for negatives; alphabet by base: 2..36 lower case, -2..-36 upper case,
   37..62 upper then lower case; zero prints "0" *)
Definition digit_char (base d : Z) : Z :=
  if d <? 10 then 48 + d
  else if 36 <? base then (if d <? 36 then 65 + d - 10 else 97 + d - 36)
  else if base <? 0 then 65 + d - 10
  else 97 + d - 10.
Definition mpz_get_str (x base : Z) : list Z :=
  let b := Z.abs base in
  let ds := digits (Z.abs x) b in
  (if x <? 0 then [45] else []) ++ (match ds with [] => [48] | _ => map (digit_char base) ds end).

(* ---- mpz_sizeinbase ---- *)
(* round-to-nearest-even of the exact product m * 2^e * t to a double, then truncation to an
   integer: enough of IEEE multiplication for (double) totbits * chars_per_bit_exactly *)
Definition round53 (n : Z) : Z * Z :=        (* n = m' * 2^s exactly rounded: returns (m', s) *)
  let L := Z.log2 n + 1 in
  if L <=? 53 then (n, 0)
  else let s := L - 53 in
       let q := n / 2 ^ s in let r := n mod 2 ^ s in
       let half := 2 ^ (s - 1) in
       let q' := if (half <? r) || ((r =? half) && Z.odd q) then q + 1 else q in (q', s).
Definition dmul_floor (m e t : Z) : Z :=     (* floor (round_to_double (m * 2^e * t)), e <= 0 <= m, t *)
  if (m =? 0) || (t =? 0) then 0
  else let '(q, s) := round53 (m * t) in
       let ex := e + s in
       if 0 <=? ex then q * 2 ^ ex else q / 2 ^ (- ex).
Definition log2_exact (b : Z) : option Z :=  (* Some k when b = 2^k *)
  let k := Z.log2 b in if b =? 2 ^ k then Some k else None.
Definition sizeinbase (x base m e : Z) : Z :=
  if x =? 0 then 1
  else
    let totbits := Z.log2 (Z.abs x) + 1 in
    match log2_exact base with
    | Some lb => (totbits + lb - 1) / lb
    | None => dmul_floor m e totbits + 1
    end.

(* ---- table consistency (one entry) ---- *)
Definition base_entry_ok (b cpl bigb bigbinv : Z) : bool :=
  match log2_exact b with
  | Some lb => (bigb =? lb) && (cpl =? 64 / lb)
  | None =>
      (bigb =? b ^ cpl) && (bigb <? B) && (B <=? bigb * b)
      && (bigbinv =? invert_limb (bigb * 2 ^ (63 - Z.log2 bigb)))
  end.

(* ---- mpz_inp_str (mpz/inp_str.c): reads from a byte stream; returns (bytes consumed, value) with
   0 consumed meaning failure.  getc at the end of the stream gives EOF = -1. ---- *)
Definition getc (s : list Z) : Z * list Z := match s with c :: r => (c, r) | [] => (-1, []) end.
Fixpoint inp_skip_space (fuel : nat) (s : list Z) (nread : Z) : Z * list Z * Z :=
  let '(c, r) := getc s in
  match fuel with
  | O => (c, r, nread + 1)
  | S f => if isspace c then inp_skip_space f r (nread + 1) else (c, r, nread + 1)
  end.
Fixpoint inp_skip_zeros (fuel : nat) (c : Z) (s : list Z) (nread : Z) : Z * list Z * Z :=
  match fuel with
  | O => (c, s, nread)
  | S f => if c =? 48 then let '(c', r) := getc s in inp_skip_zeros f c' r (nread + 1) else (c, s, nread)
  end.
Fixpoint inp_digits (fuel : nat) (tab : list Z) (off base c : Z) (s : list Z) (acc : list Z) : list Z :=
  match fuel with
  | O => rev acc
  | S f => if c =? -1 then rev acc
           else let d := dv tab off c in
                if base <=? d then rev acc
                else let '(c', r) := getc s in inp_digits f tab off base c' r (d :: acc)
  end.
Definition inp_str (tab : list Z) (s : list Z) (base : Z) : Z * option Z :=
  let fuel := S (length s) in
  let '(c, r, nread) := inp_skip_space fuel s 0 in
  if 62 <? base then (0, None)
  else
    let off := if 36 <? base then 224 else 0 in
    let neg := c =? 45 in
    let '(c, r, nread) := if neg then let '(c', r') := getc r in (c', r', nread + 1) else (c, r, nread) in
    if (c =? -1) || ((if base =? 0 then 10 else base) <=? dv tab off c) then (0, None)
    else
      let '(base', c, r, nread) :=
        if base =? 0 then
          if c =? 48 then
            let '(c2, r2) := getc r in
            if (c2 =? 120) || (c2 =? 88) then let '(c3, r3) := getc r2 in (16, c3, r3, nread + 2)
            else if (c2 =? 98) || (c2 =? 66) then let '(c3, r3) := getc r2 in (2, c3, r3, nread + 2)
            else (8, c2, r2, nread + 1)
          else (10, c, r, nread)
        else (base, c, r, nread) in
      let '(c, r, nread) := inp_skip_zeros fuel c r nread in
      let ds := inp_digits fuel tab off base' c r [] in
      let v := horner base' ds in
      (nread + Z.of_nat (length ds) - 1, Some (if neg then - v else v)).
