(* KernProofs.v — C14: proofs about the value-level kernel specifications of KernDefs.v:
   they are exact, they are the functions computed by the limb-level models of the portable C
   routines, the shipped tuning tables are valid, and the multiplication models do not depend on
   the thresholds. *)
From Coq Require Import String ZArith List Bool Lia.
From Mpir Require Import Word Limbs MpnBasicDefs MpnBasicProofs MpnMulDefs MpnMulProofs
  FftDefs FftProofs BitDefs BitProofs KernDefs.
From MpirGen Require Import Gen_Tables.
Import ListNotations.
Local Open Scope Z_scope.
Arguments Z.pow : simpl never.

(* ---------- generic quotient / remainder facts ---------- *)

Lemma Bn_pos n : 0 <= n -> 0 < Bn n.
Proof. intros Hn. unfold Bn. apply Z.pow_pos_nonneg; lia. Qed.

(* x in [0, (k+1) P) : x mod P + (x / P) P = x with quotient in [0, k] *)
Lemma ex_gen P x k : 0 < P -> 0 <= x -> x < (k + 1) * P ->
  x mod P + x / P * P = x /\ (0 <= x mod P < P /\ 0 <= x / P <= k).
Proof.
  intros HP H0 Hk.
  pose proof (Z.div_mod x P ltac:(lia)) as Hdm.
  pose proof (Z.mod_pos_bound x P HP) as Hm.
  assert (Hq0 : 0 <= x / P) by (apply Z.div_pos; lia).
  assert (Hq1 : x / P < k + 1) by (apply Z.div_lt_upper_bound; lia).
  repeat split; lia.
Qed.

(* x in [-k P, P) : x mod P - (-(x / P)) P = x with borrow in [0, k] *)
Lemma exs_gen P x k : 0 < P -> 0 <= k -> - (k * P) <= x -> x < P ->
  x mod P - - (x / P) * P = x /\ (0 <= x mod P < P /\ 0 <= - (x / P) <= k).
Proof.
  intros HP Hk0 Hlo Hhi.
  pose proof (Z.div_mod x P ltac:(lia)) as Hdm.
  pose proof (Z.mod_pos_bound x P HP) as Hm.
  assert (Hq0 : x / P < 1) by (apply Z.div_lt_upper_bound; lia).
  assert (Hq1 : - k <= x / P) by (apply Z.div_le_lower_bound; lia).
  repeat split; lia.
Qed.

Lemma pow2c_pos c : 0 <= c -> 0 < 2 ^ c.
Proof. intros. apply Z.pow_pos_nonneg; lia. Qed.

(* ---------- (1a) the specifications are exact ---------- *)

Section Exact.
Variables (n u v w vl c : Z).
Hypothesis Hn : 0 <= n.
Hypothesis Hu : 0 <= u < Bn n.
Hypothesis Hv : 0 <= v < Bn n.
Hypothesis Hw : 0 <= w < Bn n.
Hypothesis Hvl : 0 <= vl < 2 ^ 64.
Hypothesis Hc : 1 <= c <= 63.

Ltac hp := pose proof (Bn_pos n Hn) as HP.

Lemma add_n_exact :
  fst (k_add_n n u v) + snd (k_add_n n u v) * Bn n = u + v
  /\ (0 <= fst (k_add_n n u v) < Bn n /\ 0 <= snd (k_add_n n u v) <= 1).
Proof using Hn Hu Hv. clear Hw Hvl Hc. hp. unfold k_add_n; cbn [fst snd]. apply ex_gen; lia. Qed.

Lemma sub_n_exact :
  fst (k_sub_n n u v) - snd (k_sub_n n u v) * Bn n = u - v
  /\ (0 <= fst (k_sub_n n u v) < Bn n /\ 0 <= snd (k_sub_n n u v) <= 1).
Proof using Hn Hu Hv. clear Hw Hvl Hc. hp. unfold k_sub_n; cbn [fst snd]. apply exs_gen; lia. Qed.

Lemma addlsh_n_exact :
  fst (k_addlsh_n n u v c) + snd (k_addlsh_n n u v c) * Bn n = u + v * 2 ^ c
  /\ (0 <= fst (k_addlsh_n n u v c) < Bn n /\ 0 <= snd (k_addlsh_n n u v c) <= 2 ^ c).
Proof using Hn Hu Hv Hc. clear Hw Hvl.
  hp. unfold k_addlsh_n; cbn [fst snd]. pose proof (pow2c_pos c ltac:(lia)) as H2.
  revert HP Hu Hv H2. generalize (Bn n) (2 ^ c). intros P T HP Hu Hv HT.
  apply ex_gen; nia.
Qed.

Lemma sublsh_n_exact :
  fst (k_sublsh_n n u v c) - snd (k_sublsh_n n u v c) * Bn n = u - v * 2 ^ c
  /\ (0 <= fst (k_sublsh_n n u v c) < Bn n /\ 0 <= snd (k_sublsh_n n u v c) <= 2 ^ c).
Proof using Hn Hu Hv Hc. clear Hw Hvl.
  hp. unfold k_sublsh_n; cbn [fst snd]. pose proof (pow2c_pos c ltac:(lia)) as H2.
  revert HP Hu Hv H2. generalize (Bn n) (2 ^ c). intros P T HP Hu Hv HT.
  apply exs_gen; nia.
Qed.

Lemma addadd_n_exact :
  fst (k_addadd_n n u v w) + snd (k_addadd_n n u v w) * Bn n = u + v + w
  /\ (0 <= fst (k_addadd_n n u v w) < Bn n /\ 0 <= snd (k_addadd_n n u v w) <= 2).
Proof using Hn Hu Hv Hw. clear Hvl Hc. hp. unfold k_addadd_n; cbn [fst snd]. apply ex_gen; lia. Qed.

Lemma subadd_n_exact :
  fst (k_subadd_n n u v w) - snd (k_subadd_n n u v w) * Bn n = u - v - w
  /\ (0 <= fst (k_subadd_n n u v w) < Bn n /\ 0 <= snd (k_subadd_n n u v w) <= 2).
Proof using Hn Hu Hv Hw. clear Hvl Hc. hp. unfold k_subadd_n; cbn [fst snd]. apply exs_gen; lia. Qed.

Lemma addsub_n_exact :
  fst (k_addsub_n n u v w) + snd (k_addsub_n n u v w) * Bn n = u + v - w
  /\ 0 <= fst (k_addsub_n n u v w) < Bn n /\ -1 <= snd (k_addsub_n n u v w) <= 1.
Proof using Hn Hu Hv Hw. clear Hvl Hc.
  hp. unfold k_addsub_n; cbn [fst snd].
  revert HP Hu Hv Hw. generalize (Bn n). intros P HP Hu Hv Hw.
  pose proof (Z.div_mod (u + v - w) P ltac:(lia)) as Hdm.
  pose proof (Z.mod_pos_bound (u + v - w) P HP) as Hm.
  assert (Hq0 : (u + v - w) / P < 2) by (apply Z.div_lt_upper_bound; lia).
  assert (Hq1 : -1 <= (u + v - w) / P) by (apply Z.div_le_lower_bound; lia).
  repeat split; lia.
Qed.

Lemma mul_1_exact :
  fst (k_mul_1 n u vl) + snd (k_mul_1 n u vl) * Bn n = u * vl
  /\ (0 <= fst (k_mul_1 n u vl) < Bn n /\ 0 <= snd (k_mul_1 n u vl) <= 2 ^ 64 - 1).
Proof using Hn Hu Hvl. clear Hv Hw Hc.
  hp. unfold k_mul_1; cbn [fst snd].
  revert HP Hu Hvl. generalize (Bn n) (2 ^ 64). intros P T HP Hu Hvl.
  apply ex_gen; nia.
Qed.

Lemma addmul_1_exact :
  fst (k_addmul_1 n w u vl) + snd (k_addmul_1 n w u vl) * Bn n = w + u * vl
  /\ (0 <= fst (k_addmul_1 n w u vl) < Bn n /\ 0 <= snd (k_addmul_1 n w u vl) <= 2 ^ 64 - 1).
Proof using Hn Hu Hw Hvl. clear Hv Hc.
  hp. unfold k_addmul_1; cbn [fst snd].
  revert HP Hu Hw Hvl. generalize (Bn n) (2 ^ 64). intros P T HP Hu Hw Hvl.
  apply ex_gen; nia.
Qed.

Lemma submul_1_exact :
  fst (k_submul_1 n w u vl) - snd (k_submul_1 n w u vl) * Bn n = w - u * vl
  /\ (0 <= fst (k_submul_1 n w u vl) < Bn n /\ 0 <= snd (k_submul_1 n w u vl) <= 2 ^ 64 - 1).
Proof using Hn Hu Hw Hvl. clear Hv Hc.
  hp. unfold k_submul_1; cbn [fst snd].
  revert HP Hu Hw Hvl. generalize (Bn n) (2 ^ 64). intros P T HP Hu Hw Hvl.
  apply exs_gen; nia.
Qed.

Lemma lshift_exact :
  fst (k_lshift n u c) + snd (k_lshift n u c) * Bn n = u * 2 ^ c
  /\ (0 <= fst (k_lshift n u c) < Bn n /\ 0 <= snd (k_lshift n u c) <= 2 ^ c - 1).
Proof using Hn Hu Hc. clear Hv Hw Hvl.
  hp. unfold k_lshift; cbn [fst snd]. pose proof (pow2c_pos c ltac:(lia)) as H2.
  revert HP Hu H2. generalize (Bn n) (2 ^ c). intros P T HP Hu HT.
  apply ex_gen; nia.
Qed.

Lemma rshift_exact :
  fst (k_rshift n u c) * 2 ^ c + snd (k_rshift n u c) / 2 ^ (64 - c) = u
  /\ 0 <= snd (k_rshift n u c) < 2 ^ 64
  /\ snd (k_rshift n u c) mod 2 ^ (64 - c) = 0.
Proof using Hc. clear Hn Hu Hv Hw Hvl.
  unfold k_rshift; cbn [fst snd].
  pose proof (pow2c_pos c ltac:(lia)) as H2.
  pose proof (pow2c_pos (64 - c) ltac:(lia)) as H3.
  assert (E : 2 ^ 64 = 2 ^ c * 2 ^ (64 - c)).
  { rewrite <- Z.pow_add_r by lia. f_equal. lia. }
  rewrite E. clear E.
  revert H2 H3. generalize (2 ^ c) (2 ^ (64 - c)). intros T S HT HS.
  pose proof (Z.div_mod u T ltac:(lia)) as Hdm.
  pose proof (Z.mod_pos_bound u T HT) as Hm.
  rewrite Z.div_mul by lia. rewrite Z.mod_mul by lia.
  repeat split; try lia; nia.
Qed.

Lemma rsh1add_n_exact :
  2 * fst (k_rsh1add_n n u v) + snd (k_rsh1add_n n u v) = u + v
  /\ 0 <= fst (k_rsh1add_n n u v) < Bn n.
Proof using Hn Hu Hv. clear Hw Hvl Hc.
  unfold k_rsh1add_n; cbn [fst snd].
  pose proof (Z.div_mod (u + v) 2 ltac:(lia)) as Hdm.
  pose proof (Z.mod_pos_bound (u + v) 2 ltac:(lia)) as Hm.
  repeat split; lia.
Qed.

End Exact.

Lemma specs_exact : forall n u v w vl c, 0 <= n -> 0 <= u < Bn n -> 0 <= v < Bn n -> 0 <= w < Bn n -> 0 <= vl < 2 ^ 64 -> 1 <= c <= 63 ->
  let ex (p : Z * Z) := fst p + snd p * Bn n in let exs (p : Z * Z) := fst p - snd p * Bn n in
  let rng (p : Z * Z) (k : Z) := 0 <= fst p < Bn n /\ 0 <= snd p <= k in
  (ex (k_add_n n u v) = u + v /\ rng (k_add_n n u v) 1)
  /\ (exs (k_sub_n n u v) = u - v /\ rng (k_sub_n n u v) 1)
  /\ (ex (k_addlsh_n n u v c) = u + v * 2 ^ c /\ rng (k_addlsh_n n u v c) (2 ^ c))
  /\ (exs (k_sublsh_n n u v c) = u - v * 2 ^ c /\ rng (k_sublsh_n n u v c) (2 ^ c))
  /\ (ex (k_addadd_n n u v w) = u + v + w /\ rng (k_addadd_n n u v w) 2)
  /\ (exs (k_subadd_n n u v w) = u - v - w /\ rng (k_subadd_n n u v w) 2)
  /\ (ex (k_addsub_n n u v w) = u + v - w /\ 0 <= fst (k_addsub_n n u v w) < Bn n /\ -1 <= snd (k_addsub_n n u v w) <= 1)
  /\ (ex (k_mul_1 n u vl) = u * vl /\ rng (k_mul_1 n u vl) (2 ^ 64 - 1))
  /\ (ex (k_addmul_1 n w u vl) = w + u * vl /\ rng (k_addmul_1 n w u vl) (2 ^ 64 - 1))
  /\ (exs (k_submul_1 n w u vl) = w - u * vl /\ rng (k_submul_1 n w u vl) (2 ^ 64 - 1))
  /\ (ex (k_lshift n u c) = u * 2 ^ c /\ rng (k_lshift n u c) (2 ^ c - 1))
  /\ (fst (k_rshift n u c) * 2 ^ c + snd (k_rshift n u c) / 2 ^ (64 - c) = u /\ 0 <= snd (k_rshift n u c) < 2 ^ 64
      /\ snd (k_rshift n u c) mod 2 ^ (64 - c) = 0)
  /\ (2 * fst (k_rsh1add_n n u v) + snd (k_rsh1add_n n u v) = u + v /\ 0 <= fst (k_rsh1add_n n u v) < Bn n).
Proof.
  intros n u v w vl c Hn Hu Hv Hw Hvl Hc ex exs rng. subst ex exs rng. cbv beta.
  split; [apply add_n_exact; assumption|].
  split; [apply sub_n_exact; assumption|].
  split; [apply addlsh_n_exact; assumption|].
  split; [apply sublsh_n_exact; assumption|].
  split; [apply addadd_n_exact; assumption|].
  split; [apply subadd_n_exact; assumption|].
  split; [apply addsub_n_exact; assumption|].
  split; [apply mul_1_exact; assumption|].
  split; [apply addmul_1_exact; assumption|].
  split; [apply submul_1_exact; assumption|].
  split; [apply lshift_exact; assumption|].
  split; [apply rshift_exact; assumption|].
  apply rsh1add_n_exact; assumption.
Qed.

(* ---------- (1b) they are the functions of the limb-level models ---------- *)

Lemma Bn_B n : 0 <= n -> Bn n = B ^ n.
Proof.
  intros Hn. unfold Bn. rewrite Z.pow_mul_r by lia.
  replace (2 ^ 64) with B by (rewrite B_val; reflexivity). reflexivity.
Qed.

(* r + P c = x with 0 <= r < P : (x mod P, x / P) = (r, c) *)
Lemma pair_add P x r c : 0 <= r < P -> r + P * c = x -> (x mod P, x / P) = (r, c).
Proof.
  intros Hr E. f_equal.
  - symmetry. apply Z.mod_unique with (q := c); [left; exact Hr | lia].
  - symmetry. apply Z.div_unique with (r := r); [left; exact Hr | lia].
Qed.

Lemma pair_sub P x r c : 0 <= r < P -> r - P * c = x -> (x mod P, - (x / P)) = (r, c).
Proof.
  intros Hr E. f_equal.
  - symmetry. apply Z.mod_unique with (q := - c); [left; exact Hr | lia].
  - assert (E2 : x / P = - c).
    { symmetry. apply Z.div_unique with (r := r); [left; exact Hr | lia]. }
    rewrite E2. lia.
Qed.

Lemma spec_is_portable_model : forall u v r vl c, wf u -> wf v -> wf r -> length v = length u -> length r = length u -> limb vl -> 1 <= c <= 63 ->
  let n := Z.of_nat (length u) in
  k_add_n n (eval u) (eval v) = (eval (fst (add_n u v)), snd (add_n u v))
  /\ k_sub_n n (eval u) (eval v) = (eval (fst (sub_n u v)), snd (sub_n u v))
  /\ k_mul_1 n (eval u) vl = (eval (fst (mul_1 u vl)), snd (mul_1 u vl))
  /\ k_addmul_1 n (eval r) (eval u) vl = (eval (fst (addmul_1 r u vl)), snd (addmul_1 r u vl))
  /\ k_submul_1 n (eval r) (eval u) vl = (eval (fst (submul_1 r u vl)), snd (submul_1 r u vl))
  /\ (u <> [] -> v <> [] -> k_mul (eval u) (eval v) = eval (mul_basecase u v))
  /\ k_not n (eval u) = eval (com_n u)
  /\ k_logic 0 n (eval u) (eval v) = eval (and_n u v) /\ k_logic 2 n (eval u) (eval v) = eval (ior_n u v)
  /\ k_logic 6 n (eval u) (eval v) = eval (xor_n u v) /\ k_logic 1 n (eval u) (eval v) = eval (andn_n u v)
  /\ k_popcount (eval u) = popcount u.
Proof.
  intros u v r vl c Hu Hv Hr Hlv Hlr Hvl Hc n.
  assert (HB : Bn n = B ^ len u) by (unfold len; apply Bn_B; subst n; lia).
  assert (Hbnd : forall l, wf l -> length l = length u -> 0 <= eval l < B ^ len u).
  { intros l Hl El. unfold len. rewrite <- El. apply eval_bounds. exact Hl. }
  split.
  { destruct (add_n_spec u v Hu Hv (eq_sym Hlv)) as (E & Hw & Hl & _).
    unfold k_add_n. rewrite HB. apply pair_add; [apply Hbnd; assumption | exact E]. }
  split.
  { destruct (sub_n_spec u v Hu Hv (eq_sym Hlv)) as (E & Hw & Hl & _).
    unfold k_sub_n. rewrite HB. apply pair_sub; [apply Hbnd; assumption | exact E]. }
  split.
  { destruct (mul_1_spec u vl Hu Hvl) as (E & Hw & Hl & _).
    unfold k_mul_1. rewrite HB. apply pair_add; [apply Hbnd; assumption | exact E]. }
  split.
  { destruct (addmul_1_spec r u vl Hr Hu Hvl Hlr) as (E & Hw & Hl & _).
    unfold k_addmul_1. rewrite HB. apply pair_add; [apply Hbnd; assumption | exact E]. }
  split.
  { destruct (submul_1_spec r u vl Hr Hu Hvl Hlr) as (E & Hw & Hl & _).
    unfold k_submul_1. rewrite HB. apply pair_sub; [apply Hbnd; assumption | exact E]. }
  split.
  { intros Hun Hvn. destruct (mul_basecase_spec u v Hu Hv Hun Hvn) as (E & _).
    unfold k_mul. symmetry. exact E. }
  split.
  { destruct (com_n_spec u Hu) as (E & _). unfold k_not. rewrite HB. symmetry. exact E. }
  pose proof (mpn_logic_spec u v Hu Hv (eq_sym Hlv)) as HL. cbv zeta in HL.
  destruct HL as (Eand & Eior & Exor & Eandn & _).
  split.
  { change (k_logic 0 n (eval u) (eval v)) with (Z.land (eval u) (eval v)). symmetry. exact Eand. }
  split.
  { change (k_logic 2 n (eval u) (eval v)) with (Z.lor (eval u) (eval v)). symmetry. exact Eior. }
  split.
  { change (k_logic 6 n (eval u) (eval v)) with (Z.lxor (eval u) (eval v)). symmetry. exact Exor. }
  split.
  { change (k_logic 1 n (eval u) (eval v)) with (Z.land (eval u) (k_not n (eval v))).
    unfold k_not. rewrite HB. symmetry. exact Eandn. }
  unfold k_popcount. symmetry. apply popcount_eval. exact Hu.
Qed.

(* ---------- (2) the shipped tables ---------- *)

Lemma shipped_tables_valid :
  forallb (fun s => thr_valid minsizes (fst (snd s)) && tab_valid (snd (snd s))) shipped = true
  /\ (20 <= length shipped)%nat.
Proof.
  split.
  - vm_compute. reflexivity.
  - apply Nat.leb_le. vm_compute. reflexivity.
Qed.

(* ---------- (3) threshold independence ---------- *)

Lemma threshold_independent :
  (forall fuel thr n x y, 0 <= n -> kara_mul fuel thr n x y = x * y)
  /\ (forall t n1 n2 c, tab_valid t = true -> 1 <= n1 -> 1 <= n2 -> fft_trunc (n1 * 64) (n2 * 64) 6 1 > 2 * 2 ^ 6 ->
        fft_params (tab_of t) n1 n2 = Some c -> choice_ok n1 n2 c).
Proof. split; [exact kara_mul_spec | exact fft_params_safe]. Qed.

Lemma C14_example :
  k_add_n 2 (2 ^ 128 - 1) 1 = (0, 1) /\ k_sub_n 1 0 1 = (2 ^ 64 - 1, 1) /\ k_rsh1sub_n 1 0 1 = (2 ^ 64 - 1, 1)
  /\ k_addmul_2 2 5 (2 ^ 128 - 1) (2 ^ 128 - 1) = (6277101735386680763155224689365789489175606229600498089990, 2 ^ 64 - 1)
  /\ thr_valid minsizes [("MUL_KARATSUBA_THRESHOLD"%string, 3)] = false.
Proof.
  split; [vm_compute; reflexivity|].
  split; [vm_compute; reflexivity|].
  split; [vm_compute; reflexivity|].
  split; [vm_compute; reflexivity|].
  vm_compute. reflexivity.
Qed.
