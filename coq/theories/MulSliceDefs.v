(* MulSliceDefs.v — value-level, step-by-step model of the "sliced schoolbook" path of
   mpn_mul as coded in mpn/generic/mul.c (the branch taken when
   vn < MUL_KARATSUBA_THRESHOLD and un > MUL_BASECASE_MAX_UN).  Definitions only; the
   proofs are in MulSliceProofs.v.

   The C code (M = MUL_BASECASE_MAX_UN = 500):

       mpn_mul_basecase (prodp, up, M, vp, vn);
       prodp += M;
       MPN_COPY (tp, prodp, vn);                    -- preserve high triangle
       up += M;  un -= M;
       while (un > M)
         {
           mpn_mul_basecase (prodp, up, M, vp, vn);
           cy = mpn_add_n (prodp, prodp, tp, vn);   -- add back preserved triangle
           mpn_incr_u (prodp + vn, cy);             -- safe?
           prodp += M;
           MPN_COPY (tp, prodp, vn);
           up += M;  un -= M;
         }
       if (un > vn)  mpn_mul_basecase (prodp, up, un, vp, vn);
       else        { ASSERT_ALWAYS (un > 0); mpn_mul_basecase (prodp, vp, vn, up, un); }
       cy = mpn_add_n (prodp, prodp, tp, vn);
       mpn_incr_u (prodp + vn, cy);                 -- safe?
       return prodp[un + vn - 1];                   -- with the advanced prodp and reduced un

   Values, not limb arrays: an operand {p, n} is the integer 0 <= x < B^n, B = 2^64.
   M is a parameter of the model.  mpn_incr_u has no length argument: it keeps
   incrementing limbs until one does not wrap.  The only limbs it may legitimately touch
   here are the ones the preceding mpn_mul_basecase has just written above prodp + vn
   (M of them inside the loop, un of them for the last piece); the model gives it that
   many limbs and reports, in a boolean, whether the carry would run past them. *)
From Coq Require Import ZArith Bool.
Local Open Scope Z_scope.

(* B^k for B = 2^GMP_NUMB_BITS = 2^64. *)
Definition Bp (k : Z) : Z := 2 ^ (64 * k).

(* ---- the three mpn primitives used, at value level ------------------------------ *)

(* mpn_mul_basecase (rp, ap, an, bp, bn): {rp, an+bn} <- {ap, an} * {bp, bn}.
   Its documented requirement is an >= bn >= 1 ([bc_pre]); its result is the exact
   product (MpnMulProofs.mul_basecase_spec for the limb-level model). *)
Definition bc_mul (a b : Z) : Z := a * b.
Definition bc_pre (an bn : Z) : bool := (1 <=? bn) && (bn <=? an).

(* cy = mpn_add_n (rp, ap, bp, n): ({rp, n}, cy). *)
Definition add_n (n a b : Z) : Z * Z := ((a + b) mod Bp n, (a + b) / Bp n).

(* mpn_incr_u (p, cy) on the n limbs {p, n}: (new {p, n}, did the carry leave {p, n}?).
   When the flag is true the real code goes on incrementing p[n], p[n+1], ... *)
Definition incr_u (n a cy : Z) : Z * bool := ((a + cy) mod Bp n, Bp n <=? a + cy).

(* The two lines
       cy = mpn_add_n (prodp, prodp, tp, vn);
       mpn_incr_u (prodp + vn, cy);
   acting on the window {prodp, wn + vn} = win that mpn_mul_basecase has just written:
   lo = {prodp, vn}, hi = {prodp + vn, wn}. *)
Definition add_back (wn vn win tp : Z) : Z * bool :=
  let lo := win mod Bp vn in
  let hi := win / Bp vn in
  let '(lo', cy) := add_n vn lo tp in
  let '(hi', ovf) := incr_u wn hi cy in
  (lo' + Bp vn * hi', ovf).

(* ---- state between C statements ------------------------------------------------- *)

Record slice_state : Set := mk_slice_state {
  ss_low : Z;    (* the limbs below the current prodp: final, never touched again      *)
  ss_off : Z;    (* how many of them: prodp - (original prodp) = up - (original up)     *)
  ss_win : Z;    (* {prodp, vn}: written, not final; the next mpn_mul_basecase
                    overwrites them, which is why they are saved in tp                 *)
  ss_tp  : Z;    (* {tp, vn}: the saved high triangle                                  *)
  ss_up  : Z;    (* the remaining {up, un}                                             *)
  ss_un  : Z;    (* the C variable un                                                  *)
  ss_ovf : bool; (* some mpn_incr_u so far ran past the limbs just written             *)
  ss_pre : bool  (* every mpn_mul_basecase call so far had an >= bn >= 1               *)
}.

(* mpn_mul_basecase (prodp, up, M, vp, vn); prodp += M; MPN_COPY (tp, prodp, vn);
   up += M; un -= M; *)
Definition slice_first (M vn u v un : Z) : slice_state :=
  let w := bc_mul (u mod Bp M) v in                 (* {prodp, M + vn} *)
  let top := (w / Bp M) mod Bp vn in                (* {prodp + M, vn} *)
  {| ss_low := w mod Bp M;
     ss_off := M;
     ss_win := top;
     ss_tp  := top;
     ss_up  := u / Bp M;
     ss_un  := un - M;
     ss_ovf := false;
     ss_pre := bc_pre M vn |}.

(* One pass through the while body. *)
Definition slice_step (M vn v : Z) (st : slice_state) : slice_state :=
  let w0 := bc_mul (ss_up st mod Bp M) v in         (* overwrites {prodp, M + vn} *)
  let '(w, ovf) := add_back M vn w0 (ss_tp st) in
  let top := (w / Bp M) mod Bp vn in
  {| ss_low := ss_low st + Bp (ss_off st) * (w mod Bp M);
     ss_off := ss_off st + M;
     ss_win := top;
     ss_tp  := top;
     ss_up  := ss_up st / Bp M;
     ss_un  := ss_un st - M;
     ss_ovf := ss_ovf st || ovf;
     ss_pre := ss_pre st && bc_pre M vn |}.

(* while (un > M) body — [fuel] bounds the number of passes. *)
Fixpoint slice_loop (M vn v : Z) (fuel : nat) (st : slice_state) : slice_state :=
  match fuel with
  | O => st
  | S f => if M <? ss_un st then slice_loop M vn v f (slice_step M vn v st) else st
  end.

(* What the function leaves behind. *)
Record slice_result : Set := mk_slice_result {
  sr_val : Z;    (* {original prodp, original un + vn}                                 *)
  sr_top : Z;    (* the return value prodp[un + vn - 1] (advanced prodp, reduced un)   *)
  sr_ovf : bool; (* some mpn_incr_u ran past the limbs just written                    *)
  sr_pre : bool  (* every mpn_mul_basecase call had an >= bn >= 1 (and the
                    ASSERT_ALWAYS (un > 0) held)                                       *)
}.

(* The code after the loop: last piece (operands swapped when un <= vn), add-back. *)
Definition slice_last (vn v : Z) (st : slice_state) : slice_result :=
  let un := ss_un st in
  let w0 := if vn <? un then bc_mul (ss_up st) v else bc_mul v (ss_up st) in
  let pre := if vn <? un then bc_pre un vn else (0 <? un) && bc_pre vn un in
  let '(w, ovf) := add_back un vn w0 (ss_tp st) in  (* {prodp, un + vn} *)
  {| sr_val := ss_low st + Bp (ss_off st) * w;
     sr_top := w / Bp (un + vn - 1);
     sr_ovf := ss_ovf st || ovf;
     sr_pre := ss_pre st && pre |}.

(* The loop runs at most un / M times (un decreases by M per pass and stays positive). *)
Definition mul_sliced_run (M vn u v un : Z) : slice_result :=
  slice_last vn v (slice_loop M vn v (Z.to_nat (un / M)) (slice_first M vn u v un)).

Definition mul_sliced (M vn : Z) (u v : Z) (un : Z) : Z := sr_val (mul_sliced_run M vn u v un).
Definition mul_sliced_overflows (M vn : Z) (u v : Z) (un : Z) : bool :=
  sr_ovf (mul_sliced_run M vn u v un).

(* Observers used by the examples: the carry cy that mpn_add_n returns in the next loop
   pass / in the final add-back, from the state just before it. *)
Definition slice_step_cy (M vn v : Z) (st : slice_state) : Z :=
  snd (add_n vn (bc_mul (ss_up st mod Bp M) v mod Bp vn) (ss_tp st)).
Definition slice_last_cy (vn v : Z) (st : slice_state) : Z :=
  snd (add_n vn (bc_mul (ss_up st) v mod Bp vn) (ss_tp st)).
