(* ApiComb.v — correspondence entry points for C16.  Definitions only. *)
From Coq Require Import ZArith List Bool.
From Mpir Require Import Word MpzDefs DivDefs MpnMulDefs PowDefs CombDefs ApiBasic.
From MpirGen Require Import Gen_Consts.
Import ListNotations.
Local Open Scope Z_scope.

Definition fib_limit : Z := Z.of_nat (length fib_table) - 2.      (* FIB_TABLE_LIMIT: the table is F[-1] .. F[limit] *)
Definition api_mpz_fib2_ui : api := fun a => let '(f, f1) := fib2_ui fib_table fib_limit (argz a 0) in [TZ f; TZ f1].
Definition api_mpz_lucnum2_ui : api := fun a => let '(l, l1) := lucnum2 fib_table fib_limit (argz a 0) in [TZ l; TZ l1].
Definition residues (x : Z) : list tok := TZ (Z.sgn x) :: map (fun p => TZ (Z.abs x mod p)) res_moduli.
(* n! modulo each modulus by modular products, for n too large for the exact value *)
Fixpoint prod_mod (k : nat) (start step p acc : Z) : Z :=
  match k with O => acc | S j => prod_mod j (start - step) step p ((acc * (start mod p)) mod p) end.
Definition out_big (exact : Z) (big : Z) (modp : Z -> Z) : list tok :=
  if big =? 0 then [TZ exact] else TZ 1 :: map (fun p => TZ (modp p)) res_moduli.
Definition api_mpz_fac_ui : api := fun a =>
  let n := argz a 0 in
  if argz a 1 =? 0 then [TZ (fac n)] else TZ 1 :: map (fun p => TZ (prod_mod (Z.to_nat n) n 1 p 1)) res_moduli.
Definition api_mpz_2fac_ui : api := fun a =>
  let n := argz a 0 in
  if argz a 1 =? 0 then [TZ (mfac n 2)] else TZ 1 :: map (fun p => TZ (prod_mod (Z.to_nat ((n + 1) / 2)) n 2 p 1)) res_moduli.
Definition api_mpz_mfac_uiui : api := fun a =>
  let n := argz a 0 in let m := argz a 1 in
  if argz a 2 =? 0 then [TZ (mfac n m)]
  else TZ 1 :: map (fun p => TZ (if m <=? 0 then 1 else prod_mod (Z.to_nat ((n + m - 1) / m)) n m p 1)) res_moduli.
Definition api_mpz_primorial_ui : api := fun a => [TZ (primorial (argz a 0))].
Definition api_mpz_bin_uiui : api := fun a => [TZ (bin_uiui (argz a 0) (argz a 1))].
Definition api_mpz_bin_ui : api := fun a => [TZ (bin_ui (argz a 0) (argz a 1))].
Definition api_mpz_remove : api := fun a => let '(x, k) := mpz_remove (argz a 0) (argz a 1) in [TZ x; TZ k].
(* primality verdicts below 2^64: a prime is never reported composite (0) and a composite never "definitely prime" (2);
   with 25 or more repetitions a composite is reported composite.  Printed: expected (result<>0, result=2) per function,
   where -1 means "either is acceptable". *)
Definition api_mpz_prime : api := fun a =>
  let n := argz a 0 in let reps := argz a 1 in
  let p := is_prime64 n in
  let nz := if p then 1 else if 25 <=? reps then 0 else -1 in
  let two := if p then -1 else 0 in
  (* probab_prime_p, probable_prime_p, likely_prime_p, miller_rabin *)
  [TZ nz; TZ two; TZ nz; TZ two; TZ (if p then 1 else -1); TZ two; TZ nz; TZ two].
Definition api_mpz_nextprime : api := fun a => let q := next_prime (argz a 0) in [TZ q; TZ q].
