(* SqrtDefs.v -- model of mpn/generic/sqrtrem.c AS CODED (GMP_NUMB_BITS = GMP_LIMB_BITS = 64,
   GMP_NAIL_BITS = 0, so HALF_NAIL = 0 and Prec = 32): mpn_sqrtrem1, mpn_sqrtrem2,
   mpn_dc_sqrtrem and mpn_sqrtrem, statement by statement.  Definitions only; the proofs are
   in SqrtProofs.v.  (RootDefs.v holds the older value-level sketch of the same file; the
   functions below are the limb/carry-accurate ones.)

   Conventions
   -----------
   * Scalar C variables of type mp_limb_t are integers in [0, 2^64); every C operation that can
     wrap around is written with Word.wrap (x mod 2^64).  `x << k` is shl x k, `x >> k` is
     shr x k.
   * Scalar C variables of type int (c, b, cc) are integers in [-2^31, 2^31); a conversion
     mp_limb_t -> int (an assignment `c = <limb expression>` or the compound assignments
     `c -= <limb expression>`, which are computed in mp_limb_t and converted back) is sint,
     reduction to the signed 32-bit range, as gcc does it.  A conversion int -> mp_limb_t is wrap.
   * A limb block {p, k} is modelled by its value, an integer in [0, B^k), B^k = Bk k
     (the convention of DcDivDefs.v / SbDivDefs.v).  The helper routines of libmpir called by
     sqrtrem.c (mpn_add_n, mpn_sub_n, mpn_add_1, mpn_sub_1, mpn_addmul_1, mpn_submul_1, mpn_sqr,
     mpn_lshift, mpn_rshift, mpn_half, mpn_divrem_1/mpn_divrem_2/mpn_tdiv_qr behind
     mpn_intdivrem) are given by their specification: result block mod B^k and carry/borrow out.
   * Addressing of mpn_dc_sqrtrem (sp, np, n), l = n / 2, h = n - l (so l <= h <= l + 1):
       np[0 .. l)        A0     low piece of the operand
       np[l .. 2l)       A1     middle piece
       np[2l .. 2n)      HI     2h limbs, operand of the recursive call; on return its low h
                                limbs np[2l .. 2l + h) hold the low part of the remainder and
                                np[2l + h .. 2n) hold stale data that is never read again
                                (the division reads {np + l, n} = np[l .. 2l + h) only)
       sp[l .. n)        S1     root of HI (h limbs)
       sp[0 .. l)        quotient of the division
     After mpn_intdivrem the remainder is in np[l .. l + h) = np[l .. n); mpn_sqr writes
     {sp, l}^2 to np[n .. n + 2l) (scratch above the remainder, n + 2l <= 2n); then
     {np, 2l} -= square, the borrow goes into limb np[2l] when h = l + 1 (the top limb of the
     remainder) or directly into c when h = l.  On exit {np, n} holds the low n limbs of the
     remainder and np[n .. 2n) is scratch.  The model returns (c, {sp, n}, {np, n}).
   * Differential validation: the four functions were evaluated (vm_compute) on the inputs and
     compared with the outputs of the real C code (sqrtrem.c included in a driver for the
     static functions, and libmpir.a's mpn_sqrtrem): 6125 + 5777 + 2345 + 7298 vectors, all equal.
   * Loops carry explicit fuel; a run out of fuel returns None, which every theorem of
     SqrtProofs.v excludes (they state `= Some ...`). *)
From Coq Require Import ZArith List Bool.
From Mpir Require Import Word Limbs.
From MpirGen Require Import Gen_Consts.
Import ListNotations.
Local Open Scope Z_scope.
Local Open Scope bool_scope.

(* ------------------------------------------------------------------------------------------ *)
(* C scalars                                                                                   *)

Definition Bk (k : Z) : Z := 2 ^ (64 * k).                     (* B^k *)

(* conversion to int: the value mod 2^32 in [-2^31, 2^31) *)
Definition sint (x : Z) : Z := (x + 2 ^ 31) mod 2 ^ 32 - 2 ^ 31.

Definition shl (x k : Z) : Z := wrap (Z.shiftl x k).           (* (mp_limb_t) x << k *)
Definition shr (x k : Z) : Z := Z.shiftr x k.                  (* (mp_limb_t) x >> k *)

(* ------------------------------------------------------------------------------------------ *)
(* helper mpn routines: specification on block values                                          *)

(* cy = mpn_add_n (rp, ap, bp, k) *)
Definition v_add_n (k a b : Z) : Z * Z := ((a + b) / Bk k, (a + b) mod Bk k).
(* cy = mpn_sub_n (rp, ap, bp, k): borrow out, difference mod B^k *)
Definition v_sub_n (k a b : Z) : Z * Z := ((if a <? b then 1 else 0), (a - b) mod Bk k).
(* cy = mpn_add_1 (rp, ap, k, v), v a limb *)
Definition v_add_1 (k a v : Z) : Z * Z := ((a + v) / Bk k, (a + v) mod Bk k).
(* cy = mpn_sub_1 (rp, ap, k, v), v a limb *)
Definition v_sub_1 (k a v : Z) : Z * Z := ((if a <? v then 1 else 0), (a - v) mod Bk k).
(* cy = mpn_addmul_1 (rp, sp, k, v): {rp,k} += {sp,k} * v, returns the carry limb *)
Definition v_addmul_1 (k a s v : Z) : Z * Z := ((a + s * v) / Bk k, (a + s * v) mod Bk k).
(* cy = mpn_submul_1 (rp, sp, k, v): {rp,k} -= {sp,k} * v, returns the borrow limb *)
Definition v_submul_1 (k a s v : Z) : Z * Z := (- ((a - s * v) / Bk k), (a - s * v) mod Bk k).
(* mpn_sqr (rp, sp, k): 2k limbs *)
Definition v_sqr (k a : Z) : Z := a * a.
(* cy = mpn_lshift (rp, ap, k, cnt), 1 <= cnt < 64: bits shifted out, block *)
Definition v_lshift (k a cnt : Z) : Z * Z := ((a * 2 ^ cnt) / Bk k, (a * 2 ^ cnt) mod Bk k).
(* mpn_rshift (rp, ap, k, cnt), 1 <= cnt < 64 (the returned bits are never used here) *)
Definition v_rshift (k a cnt : Z) : Z := a / 2 ^ cnt.

(* static mpn_intdivrem (qp, qxn = 0, np, nn, dp, dn)  (sqrtrem.c lines 34-105).  All three
   branches (dn == 1: mpn_divrem_1, dn == 2: mpn_divrem_2, else mpn_tdiv_qr into temporaries)
   compute the quotient Q = N / D on nn - dn + 1 limbs, store its low nn - dn limbs at qp,
   return the top limb (q2p[qn], resp. the return value of mpn_divrem_2), and leave the
   remainder N mod D in {np, dn}.  Result: (returned limb, {qp, nn - dn}, {np, dn}). *)
Definition v_intdivrem (nn dn N D : Z) : Z * Z * Z :=
  let Q := N / D in
  ((Q / Bk (nn - dn)) mod B, Q mod Bk (nn - dn), N mod D).

(* ------------------------------------------------------------------------------------------ *)
(* mpn_sqrtrem1                                                                                *)

(* sqrtrem.c lines 115-129: approx_tab[i - 64] = floor (sqrt (256 i)), 64 <= i < 256 *)
(* the table is REGENERATED from mpn/generic/sqrtrem.c on every run (translator/gen_consts.py) *)
Definition approx_tab : list Z := sqrt_approx_tab.

(* lines 144-156, state (np0, s, r) on entry to the while loop:
     np0 = np[0] << GMP_NAIL_BITS;
     q = np0 >> (GMP_LIMB_BITS - 8);
     s = approx_tab[q - 64];
     r = (np0 >> (GMP_LIMB_BITS - 16)) - s * s;
     if (r > 2 * s) { r -= 2 * s + 1; s++; }
     prec = 8;  np0 <<= 2 * prec; *)
Definition sqrtrem1_init (a : Z) : Z * Z * Z :=
  let np0 := shl a 0 in
  let q := shr np0 (64 - 8) in
  let s := nth (Z.to_nat (q - 64)) approx_tab 0 in
  let r := wrap (shr np0 (64 - 16) - wrap (s * s)) in
  let '(r, s) := if wrap (2 * s) <? r
                 then (wrap (r - wrap (wrap (2 * s) + 1)), wrap (s + 1)) else (r, s) in
  let np0 := shl np0 (2 * 8) in
  (np0, s, r).

(* one execution of the loop body, lines 160-175:
     r = (r << prec) + (np0 >> (GMP_LIMB_BITS - prec));
     np0 <<= prec;
     u = 2 * s;
     q = r / u;
     u = r - q * u;
     s = (s << prec) + q;
     u = (u << prec) + (np0 >> (GMP_LIMB_BITS - prec));
     q = q * q;
     r = u - q;
     if (u < q) { r += 2 * s - 1; s --; }
     np0 <<= prec;
   (`prec = 2 * prec` is done by the loop below) *)
Definition sqrtrem1_step (prec : Z) (st : Z * Z * Z) : Z * Z * Z :=
  let '(np0, s, r) := st in
  let r := wrap (shl r prec + shr np0 (64 - prec)) in
  let np0 := shl np0 prec in
  let u := wrap (2 * s) in
  let q := r / u in
  let u := wrap (r - wrap (q * u)) in
  let s := wrap (shl s prec + q) in
  let u := wrap (shl u prec + shr np0 (64 - prec)) in
  let q := wrap (q * q) in
  let r := wrap (u - q) in
  let '(r, s) := if u <? q
                 then (wrap (r + wrap (wrap (2 * s) - 1)), wrap (s - 1)) else (r, s) in
  let np0 := shl np0 prec in
  (np0, s, r).

(* while (2 * prec < GMP_LIMB_BITS) { body; prec = 2 * prec; }    (lines 157-176) *)
Fixpoint sqrtrem1_loop (fuel : nat) (prec : Z) (st : Z * Z * Z) : option (Z * Z * Z) :=
  if 2 * prec <? 64 then
    match fuel with
    | O => None
    | S f => sqrtrem1_loop f (2 * prec) (sqrtrem1_step prec st)
    end
  else Some st.

(* mpn_sqrtrem1 (sp, rp, np), a = np[0]; result (sp[0], rp[0], return value).  Lines 182-189
   with HALF_NAIL = 0:
     sp[0] = s >> HALF_NAIL;
     u = s - (sp[0] << HALF_NAIL);
     r += u * ((sp[0] << (HALF_NAIL + 1)) + u);
     r = r >> GMP_NAIL_BITS;
     if (rp != NULL) rp[0] = r;
     return r != 0 ? 1 : 0; *)
Definition sqrtrem1 (a : Z) : option (Z * Z * Z) :=
  match sqrtrem1_loop 3 8 (sqrtrem1_init a) with
  | None => None
  | Some (_, s, r) =>
      let sp0 := shr s 0 in
      let u := wrap (s - shl sp0 0) in
      let r := wrap (r + wrap (u * wrap (shl sp0 (0 + 1) + u))) in
      let r := shr r 0 in
      Some (sp0, r, if r =? 0 then 0 else 1)
  end.

(* ------------------------------------------------------------------------------------------ *)
(* mpn_sqrtrem2                                                                                *)

(* lines 207-212:  qhl = 0;  while (rp[0] >= sp[0]) { qhl++; rp[0] -= sp[0]; }
   result (qhl, rp[0]) *)
Fixpoint sqrtrem2_loop (fuel : nat) (sp0 qhl rp0 : Z) : option (Z * Z) :=
  if sp0 <=? rp0 then
    match fuel with
    | O => None
    | S f => sqrtrem2_loop f sp0 (wrap (qhl + 1)) (wrap (rp0 - sp0))
    end
  else Some (qhl, rp0).

(* mpn_sqrtrem2 (sp, rp, np) with a1 = np[1], a0 = np[0]; rp may be np (mpn_dc_sqrtrem calls
   it so): np[0] is read into np0 before anything is stored, np[1] is read by mpn_sqrtrem1
   before it stores rp[0].  Result (returned limb cc, sp[0], rp[0]).  Lines 205-233:
     np0 = np[0];
     mpn_sqrtrem1 (sp, rp, np + 1);
     qhl = 0; while ...
     rp[0] = (rp[0] << Prec) + (np0 >> Prec);
     u = 2 * sp[0];
     q = rp[0] / u;
     u = rp[0] - q * u;
     q += (qhl & 1) << (Prec - 1);
     qhl >>= 1;
     sp[0] = ((sp[0] + qhl) << Prec) + q;
     cc = u >> Prec;
     rp[0] = ((u << Prec) & GMP_NUMB_MASK) + (np0 & (((mp_limb_t) 1 << Prec) - 1));
     cc -= mpn_sub_1 (rp, rp, 1, q * q) + qhl;
     if (cc < 0)
       {
         cc += sp[0] != 0 ? mpn_add_1 (rp, rp, 1, sp[0]) : 1;
         cc += mpn_add_1 (rp, rp, 1, --sp[0]);
       }
     return cc;                                   (int -> mp_limb_t) *)
Definition sqrtrem2 (a1 a0 : Z) : option (Z * Z * Z) :=
  let np0 := a0 in
  match sqrtrem1 a1 with
  | None => None
  | Some (sp0, rp0, _) =>
      match sqrtrem2_loop 3 sp0 0 rp0 with
      | None => None
      | Some (qhl, rp0) =>
          let rp0 := wrap (shl rp0 32 + shr np0 32) in
          let u := wrap (2 * sp0) in
          let q := rp0 / u in
          let u := wrap (rp0 - wrap (q * u)) in
          let q := wrap (q + shl (Z.land qhl 1) (32 - 1)) in
          let qhl := shr qhl 1 in
          let sp0 := wrap (shl (wrap (sp0 + qhl)) 32 + q) in
          let cc := sint (shr u 32) in
          let rp0 := wrap (Z.land (shl u 32) (B - 1) + Z.land np0 (wrap (shl 1 32 - 1))) in
          let '(bw, rp0) := v_sub_1 1 rp0 (wrap (q * q)) in
          let cc := sint (wrap (wrap cc - wrap (bw + qhl))) in
          let '(cc, sp0, rp0) :=
            if cc <? 0 then
              let '(cy, rp0) := if negb (sp0 =? 0) then v_add_1 1 rp0 sp0 else (1, rp0) in
              let cc := sint (wrap (wrap cc + cy)) in
              let sp0 := wrap (sp0 - 1) in
              let '(cy, rp0) := v_add_1 1 rp0 sp0 in
              let cc := sint (wrap (wrap cc + cy)) in
              (cc, sp0, rp0)
            else (cc, sp0, rp0) in
          Some (wrap cc, sp0, rp0)
      end
  end.

(* ------------------------------------------------------------------------------------------ *)
(* mpn_dc_sqrtrem                                                                              *)

(* mpn_dc_sqrtrem (sp, np, n), N = {np, 2n}; result (returned limb, {sp, n}, {np, n}).
   Lines 250-279:
     if (n == 1)
       c = mpn_sqrtrem2 (sp, np, np);
     else
       {
         l = n / 2;
         h = n - l;
         q = mpn_dc_sqrtrem (sp + l, np + 2 * l, h);
         if (q != 0)
           mpn_sub_n (np + 2 * l, np + 2 * l, sp + l, h);
         q += mpn_intdivrem (sp, 0, np + l, n, sp + l, h);
         c = sp[0] & 1;
         mpn_half (sp, l);
         sp[l - 1] |= (q << (GMP_NUMB_BITS - 1)) & GMP_NUMB_MASK;
         q >>= 1;
         if (c != 0)
           c = mpn_add_n (np + l, np + l, sp + l, h);
         mpn_sqr (np + n, sp, l);
         b = q + mpn_sub_n (np, np, np + n, 2 * l);
         c -= (l == h) ? b : mpn_sub_1 (np + 2 * l, np + 2 * l, 1, (mp_limb_t) b);
         q = mpn_add_1 (sp + l, sp + l, h, q);
         if (c < 0)
           {
             c += mpn_addmul_1 (np, sp, n, CNST_LIMB(2)) + 2 * q;
             c -= mpn_sub_1 (np, np, n, CNST_LIMB(1));
             q -= mpn_sub_1 (sp, sp, n, CNST_LIMB(1));
           }
       }
     return c; *)
Fixpoint dc_sqrtrem (fuel : nat) (n N : Z) : option (Z * Z * Z) :=
  match fuel with
  | O => None
  | S f =>
    if n =? 1 then
      match sqrtrem2 (N / B) (N mod B) with
      | None => None
      | Some (cc, s, r) => let c := sint cc in Some (wrap c, s, r)
      end
    else
      let l := n / 2 in
      let h := n - l in
      let A0 := N mod Bk l in                              (* np[0 .. l) *)
      let A1 := (N / Bk l) mod Bk l in                     (* np[l .. 2l) *)
      let HI := N / Bk (2 * l) in                          (* np[2l .. 2n) *)
      match dc_sqrtrem f h HI with
      | None => None
      | Some (q, S1, R1) =>                                (* {sp + l, h}, {np + 2l, h} *)
          let R1 := if negb (q =? 0) then snd (v_sub_n h R1 S1) else R1 in
          (* {np + l, n} = A1 below the h limbs at np + 2l *)
          let '(qd, Ql, Rd) := v_intdivrem n h (A1 + Bk l * R1) S1 in
          let q := wrap (q + qd) in
          let c := sint (Z.land (Ql mod B) 1) in
          let Ql := v_rshift l Ql 1 in                     (* mpn_half (sp, l) *)
          let Ql := Ql mod Bk (l - 1)
                    + Bk (l - 1) * Z.lor (Ql / Bk (l - 1)) (Z.land (shl q (64 - 1)) (B - 1)) in
          let q := shr q 1 in
          (* {np + l, h} = Rd *)
          let '(c, Rd) := if negb (c =? 0)
                          then let '(cy, Rd') := v_add_n h Rd S1 in (sint cy, Rd')
                          else (c, Rd) in
          let P := v_sqr l Ql in                           (* {np + n, 2l} *)
          (* {np, 2l} = A0 below the low l limbs of Rd *)
          let '(bw, W) := v_sub_n (2 * l) (A0 + Bk l * (Rd mod Bk l)) P in
          let b := sint (wrap (q + bw)) in
          let '(c, Rn) :=                                  (* c, {np, n} *)
            if l =? h then (sint (wrap (wrap c - wrap b)), W)
            else
              (* np[2l] is the top limb of Rd (h = l + 1) *)
              let '(bw1, T) := v_sub_1 1 (Rd / Bk l) (wrap b) in
              (sint (wrap (wrap c - bw1)), W + Bk (2 * l) * T) in
          let '(q, S1) := v_add_1 h S1 q in
          let Sn := Ql + Bk l * S1 in                      (* {sp, n} *)
          let '(c, Sn, Rn) :=
            if c <? 0 then
              let '(cy, Rn) := v_addmul_1 n Rn Sn 2 in
              let c := sint (wrap (wrap c + wrap (cy + wrap (2 * q)))) in
              let '(bw2, Rn) := v_sub_1 n Rn 1 in
              let c := sint (wrap (wrap c - bw2)) in
              let '(bw3, Sn) := v_sub_1 n Sn 1 in
              let q := wrap (q - bw3) in
              (c, Sn, Rn)
            else (c, Sn, Rn) in
          Some (wrap c, Sn, Rn)
      end
  end.

(* ------------------------------------------------------------------------------------------ *)
(* mpn_sqrtrem                                                                                 *)

(* MPN_NORMALIZE (rp, rn): while (rn > 0) { if (rp[rn - 1] != 0) break; rn--; } *)
Fixpoint normalize (rn : nat) (v : Z) : Z :=
  match rn with
  | O => 0
  | S k => if (v / Bk (Z.of_nat k)) mod B =? 0 then normalize k v else Z.of_nat (S k)
  end.

(* mpn_sqrtrem (sp, rp, np, nn), N = {np, nn}; result ({sp, (nn+1)/2}, {rp, rn}, rn) where rn
   is the returned size.  When rp == NULL the same limbs are written to the temporary tp (or
   not at all in mpn_sqrtrem1) and the returned size is the same.  Lines 295-359:
     if (nn == 0) return 0;
     high = np[nn - 1];
     if (nn == 1 && (high & GMP_NUMB_HIGHBIT)) return mpn_sqrtrem1 (sp, rp, np);
     count_leading_zeros (c, high);
     c -= GMP_NAIL_BITS;
     c = c / 2;
     tn = (nn + 1) / 2;
     if (nn % 2 != 0 || c > 0)
       {
         tp = TMP_ALLOC_LIMBS (2 * tn);
         tp[0] = 0;
         if (c != 0) mpn_lshift (tp + 2 * tn - nn, np, nn, 2 * c);
         else MPN_COPY (tp + 2 * tn - nn, np, nn);
         rl = mpn_dc_sqrtrem (sp, tp, tn);
         c += (nn % 2) * GMP_NUMB_BITS / 2;
         s0[0] = sp[0] & (((mp_limb_t) 1 << c) - 1);
         rl += mpn_addmul_1 (tp, sp, tn, 2 * s0[0]);
         cc = mpn_submul_1 (tp, s0, 1, s0[0]);
         rl -= (tn > 1) ? mpn_sub_1 (tp + 1, tp + 1, tn - 1, cc) : cc;
         mpn_rshift (sp, sp, tn, c);
         tp[tn] = rl;
         if (rp == NULL) rp = tp;
         c = c << 1;
         if (c < GMP_NUMB_BITS) tn++;
         else { tp++; c -= GMP_NUMB_BITS; }
         if (c != 0) mpn_rshift (rp, tp, tn, c);
         else MPN_COPY_INCR (rp, tp, tn);
         rn = tn;
       }
     else
       {
         if (rp == NULL) rp = TMP_ALLOC_LIMBS (nn);
         if (rp != np) MPN_COPY (rp, np, nn);
         rn = tn + (rp[tn] = mpn_dc_sqrtrem (sp, rp, tn));
       }
     MPN_NORMALIZE (rp, rn);
     return rn; *)
Definition mpn_sqrtrem (nn N : Z) : option (Z * Z * Z) :=
  if nn =? 0 then Some (0, 0, 0)
  else
    let high := (N / Bk (nn - 1)) mod B in
    if (nn =? 1) && negb (Z.land high (2 ^ 63) =? 0) then sqrtrem1 N
    else
      let c := clz high in
      let c := c / 2 in
      let tn := (nn + 1) / 2 in
      if negb (nn mod 2 =? 0) || (0 <? c) then
        (* tp[0] = 0, then the operand is stored from limb 2 tn - nn (0 or 1) upwards *)
        let T := 0 + Bk (2 * tn - nn)
                     * (if negb (c =? 0) then snd (v_lshift nn N (2 * c)) else N) in
        match dc_sqrtrem (Z.to_nat tn) tn T with
        | None => None
        | Some (rl, Sv, R) =>                               (* {sp, tn}, {tp, tn} *)
            let c := c + (nn mod 2) * 64 / 2 in
            let s0 := Z.land (Sv mod B) (wrap (shl 1 c - 1)) in
            let '(cy, R) := v_addmul_1 tn R Sv (wrap (2 * s0)) in
            let rl := wrap (rl + cy) in
            let '(cc, t0) := v_submul_1 1 (R mod B) s0 s0 in
            let '(rl, R) :=
              if 1 <? tn then
                let '(bw, Rh) := v_sub_1 (tn - 1) (R / B) cc in
                (wrap (rl - bw), t0 + B * Rh)
              else (wrap (rl - cc), t0) in
            let Sv := v_rshift tn Sv c in
            let W := R + Bk tn * rl in                      (* {tp, tn + 1} after tp[tn] = rl *)
            let c := c * 2 in
            let '(tn, W, c) := if c <? 64 then (tn + 1, W, c)
                               else (tn, (W / B) mod Bk tn, c - 64) in
            let Rv := if negb (c =? 0) then v_rshift tn W c else W in
            let rn := normalize (Z.to_nat tn) Rv in
            Some (Sv, Rv mod Bk rn, rn)
        end
      else
        match dc_sqrtrem (Z.to_nat tn) tn N with
        | None => None
        | Some (cr, Sv, R) =>
            (* rp[0 .. tn) = R, rp[tn] = cr; limbs above are stale copies of np and are
               only inside {rp, rn} if cr > 1, which the theorems exclude *)
            let rn := tn + cr in
            let Rv := (R + Bk tn * cr) mod Bk rn in
            let rn := normalize (Z.to_nat rn) Rv in
            Some (Sv, Rv mod Bk rn, rn)
        end.

(* ------------------------------------------------------------------------------------------ *)
(* limb-list interface (for an extraction driver)                                              *)

(* the k low limbs of v, least significant first *)
Fixpoint to_limbs (k : nat) (v : Z) : list Z :=
  match k with
  | O => []
  | S k' => v mod B :: to_limbs k' (v / B)
  end.

(* np: the operand, least significant limb first, top limb non-zero.  Result: the limbs
   {sp, (nn+1)/2} of the root and the rn limbs {rp, rn} of the remainder (length = returned rn). *)
Definition mpn_sqrtrem_limbs (np : list Z) : option (list Z * list Z) :=
  let nn := len np in
  match mpn_sqrtrem nn (eval np) with
  | None => None
  | Some (Sv, Rv, rn) => Some (to_limbs (Z.to_nat ((nn + 1) / 2)) Sv, to_limbs (Z.to_nat rn) Rv)
  end.
