(* ApiGcd.v — correspondence entry points for C07.  Definitions only. *)
From Coq Require Import ZArith List Bool.
From Mpir Require Import Word MpzDefs DivDefs GcdDefs ApiBasic ApiDiv.
Import ListNotations.
Local Open Scope Z_scope.

Definition api_mpz_gcd : api := fun a => out_zval (mpz_gcd (argz a 0) (argz a 1)).
(* mpz_gcd_ui: result variable gets the gcd; the return value is the gcd if it fits (it is 0 when v = 0 and |a| does not fit... the C code returns the gcd when v <> 0, and for v = 0 the low limb of |a| if |a| fits one limb else 0) *)
Definition api_mpz_gcd_ui : api := fun a =>
  let x := argz a 0 in let v := argz a 1 in
  let g := Z.gcd x v in
  out_zval g ++ [TZ (if v =? 0 then (if Z.abs x <? B then Z.abs x else 0) else g)].
Definition api_mpz_gcdext : api := fun a =>
  let '(g, s, t) := gcdext (argz a 0) (argz a 1) in
  let mode := argz a 2 in
  out_zval g ++ (if mode =? 2 then [] else out_zval s) ++ (if (mode =? 1) || (mode =? 2) then [] else out_zval t).
Definition api_mpz_lcm : api := fun a => out_zval (mpz_lcm (argz a 0) (argz a 1)).
Definition api_mpz_lcm_ui : api := api_mpz_lcm.
Definition api_mpz_invert : api := fun a =>
  match mpz_invert (argz a 0) (argz a 1) with Some r => [TZ 1; TZ r] | None => [TZ 0] end.
Definition api_mpn_gcd_1 : api := fun a => [TZ (gcd_1 (argz a 1) (argz a 2))].
Definition api_mpn_gcd : api := fun a => [TZ (Z.gcd (argz a 1) (argz a 3))].
Definition api_mpz_kronecker : api := fun a =>
  let k := kronecker (argz a 0) (argz a 1) in [TZ k; TZ (if Z.odd (argz a 1) then k else 0)].
Definition api_mpz_kronecker_si : api := fun a =>
  [TZ (kronecker (argz a 0) (argz a 1)); TZ (kronecker (argz a 1) (argz a 0))].
Definition api_mpz_kronecker_ui : api := api_mpz_kronecker_si.
(* certificate for large operands: A B G S T -> 1 iff G > 0 divides A and B, A S + B T = G (checked
   exactly) and the manual's bounds on the cofactors hold *)
Definition api_gcdcheck : api := fun a =>
  let x := argz a 0 in let y := argz a 1 in let g := argz a 2 in let s := argz a 3 in let t := argz a 4 in
  let ok := (0 <? g) && (x mod g =? 0) && (y mod g =? 0) && (x * s + y * t =? g)
            && ((Z.abs x =? Z.abs y) || (2 * g * Z.abs s <=? Z.abs y))
            && ((Z.abs x =? Z.abs y) || (2 * g * Z.abs t <=? Z.abs x) || (Z.abs t =? 1)) in
  [TZ (b2z ok)].
