(* SetStrCDefs.v -- model AS CODED of mpn/generic/set_str.c: mpn_bc_set_str, mpn_set_str_compute_powtab,
   mpn_dc_set_str and the top-level mpn_set_str.  Definitions only; the proofs are in SetStrCProofs.v.

   Conventions
   -----------
   * B = 2^64 (Word.B), GMP_NUMB_BITS = GMP_LIMB_BITS = 64, no nails.  Limb blocks are lists of limbs, least
     significant first (Limbs.eval is their value).  A C pair (pointer, size) -- {rp, size}, {powtab->p,
     powtab->n}, {tp, hn}, ... -- is the list of exactly `size` limbs; the size variable of the C code is the
     length of the list (and is also carried explicitly where the C code stores it: powtab->n).
   * The digit string {str, str_len} is the list of its str_len bytes (values, most significant first);
     `*str++` is hd0 / tl0 of RadixDefs.v; str + k is skipn k.
   * Scalar limb variables (res_digit, big_base, cy_limb) are reduced mod 2^64 (Word.wrap) wherever the C
     arithmetic on mp_limb_t could wrap around.  String positions (size_t i, str_len, len_lo, len_hi) and
     limb counts (mp_size_t) are exact integers: they are bounded by the size of objects in memory.
   * mpn_mul_1, mpn_add_1, mpn_add_n, mpn_mul, mpn_sqr, mpn_divexact_1, mpn_incr_u are taken at value level:
     the stored block is the value of the exact result reduced to the block length, the carry out is returned.
   * The fields chars_per_limb / big_base of mp_bases[base] are passed as the arguments cpl / bigb to the
     internal routines; the top-level mpn_set_str looks them up in the regenerated table Gen_Consts.bases64.
   * Results are `option`: None is "the C code left the modelled area" (loop fuel exhausted, the always-on
     ASSERT_ALWAYS of compute_powtab failed, a read beyond the computed power table entries or beyond a limb
     block, a carry running off the end of rp).  The theorems show None never happens under the
     preconditions. *)
From Coq Require Import ZArith List Bool.
From Mpir Require Import Word Limbs RadixDefs.
From MpirGen Require Import Gen_Consts Gen_Tables.
Import ListNotations.
Local Open Scope Z_scope.

(* ------------------------------------------------------------------ *)
(* value-level primitives                                               *)
(* ------------------------------------------------------------------ *)

(* the n-limb block holding v mod B^n *)
Fixpoint limbs_of (n : nat) (v : Z) : list Z :=
  match n with O => [] | S k => v mod B :: limbs_of k (v / B) end.

Definition Bn (n : nat) : Z := B ^ Z.of_nat n.
Definition nthl (l : list Z) (i : Z) : Z := nth (Z.to_nat i) l 0.           (* p[i] *)

(* number of limbs of v >= 0 (0 for v = 0): the normalised size *)
Definition nlimbs (v : Z) : Z := if v <=? 0 then 0 else Z.log2 v / 64 + 1.

(* cy = mpn_mul_1 (rp, up, n, vl):  {rp,n} + cy B^n = {up,n} * vl *)
Definition mpn_mul_1 (up : list Z) (vl : Z) : list Z * Z :=
  let x := eval up * vl in (limbs_of (length up) x, x / Bn (length up)).
(* cy = mpn_add_1 (rp, up, n, vl):  {rp,n} + cy B^n = {up,n} + vl *)
Definition mpn_add_1 (up : list Z) (vl : Z) : list Z * Z :=
  let x := eval up + vl in (limbs_of (length up) x, x / Bn (length up)).
(* cy = mpn_add_n (rp, up, vp, n) *)
Definition mpn_add_n (up vp : list Z) : list Z * Z :=
  let x := eval up + eval vp in (limbs_of (length up) x, x / Bn (length up)).
(* mpn_incr_u (p, incr) on the block p of known extent: the second component is the carry that would run
   past the end of the block *)
Definition mpn_incr_u (up : list Z) (incr : Z) : list Z * Z :=
  let x := eval up + incr in (limbs_of (length up) x, x / Bn (length up)).
(* mpn_mul (rp, up, un, vp, vn): un + vn limbs are written *)
Definition mpn_mul (up vp : list Z) : list Z := limbs_of (length up + length vp) (eval up * eval vp).
(* mpn_sqr (rp, up, n): 2 n limbs are written *)
Definition mpn_sqr (up : list Z) : list Z := limbs_of (length up + length up) (eval up * eval up).
(* mpn_divexact_1 (rp, up, n, d): the quotient, defined when d divides {up,n} *)
Definition mpn_divexact_1 (up : list Z) (d : Z) : list Z := limbs_of (length up) (eval up / d).

Definition MP_SIZE_T_MAX : Z := 2 ^ 63 - 1.
(* gmp-impl.h: #define ABOVE_THRESHOLD(size,thresh) ((thresh) == 0 || ((thresh) != MP_SIZE_T_MAX && (size) >= (thresh)))
               #define BELOW_THRESHOLD(size,thresh)  (! ABOVE_THRESHOLD (size, thresh)) *)
Definition BELOW_THRESHOLD (size thresh : Z) : bool :=
  negb ((thresh =? 0) || (negb (thresh =? MP_SIZE_T_MAX) && (thresh <=? size))).

(* ------------------------------------------------------------------ *)
(* mpn_bc_set_str  (set_str.c lines 268-364)                            *)
(* ------------------------------------------------------------------ *)

(* lines 294-295 / 299-300 (after `res_digit = *str++`):
     for (j = cnt; j != 0; j--) res_digit = res_digit * mul + *str++;
   mul is the literal 10 in the base-10 copy of the loop and `base` otherwise *)
Fixpoint gather (cnt : nat) (mul res_digit : Z) (str : list Z) : Z * list Z :=
  match cnt with
  | O => (res_digit, str)
  | S k => gather k mul (wrap (res_digit * mul + hd0 str)) (tl0 str)
  end.

(* lines 329-333 / 337-341:
     for (j = cnt; j > 0; j--) { res_digit = res_digit * mul + *str++; big_base *= mul; } *)
Fixpoint gather_last (cnt : nat) (mul res_digit big_base : Z) (str : list Z) : Z * Z :=
  match cnt with
  | O => (res_digit, big_base)
  | S k => gather_last k mul (wrap (res_digit * mul + hd0 str)) (wrap (big_base * mul)) (tl0 str)
  end.

(* lines 303-321 and 344-362 (the same statements; HAVE_NATIVE_mpn_mul_1c is not defined in this build):
     if (size == 0) { if (res_digit != 0) { rp[0] = res_digit; size = 1; } }
     else { cy_limb = mpn_mul_1 (rp, rp, size, big_base);
            cy_limb += mpn_add_1 (rp, rp, size, res_digit);
            if (cy_limb != 0) rp[size++] = cy_limb; }                                  *)
Definition bc_accum (rp : list Z) (big_base res_digit : Z) : list Z :=
  match rp with
  | [] => if res_digit =? 0 then [] else [res_digit]
  | _ :: _ =>
      let '(rp1, cy1) := mpn_mul_1 rp big_base in
      let '(rp2, cy2) := mpn_add_1 rp1 res_digit in
      let cy_limb := wrap (cy1 + cy2) in
      if cy_limb =? 0 then rp2 else rp2 ++ [cy_limb]
  end.

Definition MP_BASES_CHARS_PER_LIMB_10 : Z := 19.

(* lines 288-322:  for (i = chars_per_limb; i < str_len; i += chars_per_limb) { res_digit = *str++; ... }
   one unit of fuel per iteration; the result is (i, str, {rp,size}) at loop exit *)
Fixpoint bc_loop (fuel : nat) (base cpl bigb str_len i : Z) (str rp : list Z)
  : option (Z * list Z * list Z) :=
  match fuel with
  | O => None
  | S f =>
      if i <? str_len then
        let '(res_digit, str') :=
          if base =? 10
          then gather (Z.to_nat (MP_BASES_CHARS_PER_LIMB_10 - 1)) 10 (hd0 str) (tl0 str)
          else gather (Z.to_nat (cpl - 1)) base (hd0 str) (tl0 str) in
        bc_loop f base cpl bigb str_len (i + cpl) str' (bc_accum rp bigb res_digit)
      else Some (i, str, rp)
  end.

(* mp_size_t mpn_bc_set_str (mp_ptr rp, const unsigned char *str, size_t str_len, int base)
   cpl = mp_bases[base].chars_per_limb, bigb = mp_bases[base].big_base (lines 284-285).
   Result: the limbs {rp, size}, size = the returned value = the length of the list.
   (j = chars_per_limb - 1 with `j != 0` never terminates for chars_per_limb < 1: None.) *)
Definition mpn_bc_set_str (str : list Z) (base cpl bigb : Z) : option (list Z) :=
  let str_len := len str in
  if cpl <? 1 then None
  else
    match bc_loop (S (length str)) base cpl bigb str_len cpl str [] with
    | None => None
    | Some (i, str1, rp) =>
        (* lines 324-342: big_base = base; res_digit = *str++; last, shorter chunk *)
        let '(res_digit, big_base) :=
          if base =? 10
          then gather_last (Z.to_nat (str_len - (i - MP_BASES_CHARS_PER_LIMB_10) - 1)) 10 (hd0 str1) base (tl0 str1)
          else gather_last (Z.to_nat (str_len - (i - cpl) - 1)) base (hd0 str1) base (tl0 str1) in
        Some (bc_accum rp big_base res_digit)
    end.

(* ------------------------------------------------------------------ *)
(* mpn_set_str_compute_powtab  (lines 127-210)                          *)
(* ------------------------------------------------------------------ *)

(* gmp-impl.h struct powers { mp_ptr p; mp_size_t n; mp_size_t shift; size_t digits_in_base; int base; } *)
Record powers : Type := mkpow {
  pw_p : list Z;               (* {p, n} *)
  pw_n : Z;
  pw_digits_in_base : Z;
  pw_base : Z;
  pw_shift : Z }.

(* #define mpn_dc_set_str_powtab_alloc(n) ((n) + GMP_LIMB_BITS) *)
Definition mpn_dc_set_str_powtab_alloc (n : Z) : Z := n + 64.

(* lines 197-202:  while (t[0] == 0 && (t[1] & ((big_base & -big_base) - 1)) == 0) { t++; n--; shift++; }
   mask = (big_base & -big_base) - 1.  Reading t[1] beyond the n limbs of t: None. *)
Fixpoint strip_low (t : list Z) (n shift mask : Z) {struct t} : option (list Z * Z * Z) :=
  match t with
  | [] => None
  | t0 :: rest =>
      if t0 =? 0 then
        match rest with
        | [] => None
        | t1 :: _ => if Z.land t1 mask =? 0 then strip_low rest (n - 1) (shift + 1) mask
                     else Some (t, n, shift)
        end
      else Some (t, n, shift)
  end.

(* lines 165-209: for (pi = i - 1; pi >= 0; pi--) { ... }; the counter k is pi + 1.
   memptr = powtab_mem_ptr - powtab_mem.  The new entry is consed in front: the list is
   powtab[pi], powtab[pi+1], ..., powtab[i]. *)
Fixpoint powtab_loop (k : nat) (un base cpl bigb : Z) (p : list Z) (n digits_in_base shift memptr : Z)
                     (tab : list powers) {struct k} : option (list powers) :=
  match k with
  | O => Some tab
  | S k' =>
      let pi := Z.of_nat k' in
      (* t = powtab_mem_ptr;  powtab_mem_ptr += 2 * n; *)
      let memptr := memptr + 2 * n in
      (* ASSERT_ALWAYS (powtab_mem_ptr < powtab_mem + mpn_dc_set_str_powtab_alloc (un)); *)
      if negb (memptr <? mpn_dc_set_str_powtab_alloc un) then None
      else
        (* mpn_sqr (t, p, n); *)
        let t := mpn_sqr p in
        (* n = 2 * n - 1; n += t[n] != 0; *)
        let n := 2 * n - 1 in
        let n := n + b2z (negb (nthl t n =? 0)) in
        let t := firstn (Z.to_nat n) t in
        (* digits_in_base *= 2; *)
        let digits_in_base := digits_in_base * 2 in
        (* if ((((un - 1) >> pi) & 2) == 0)
             { mpn_divexact_1 (t, t, n, big_base); n -= t[n - 1] == 0; digits_in_base -= chars_per_limb; } *)
        let '(t, n, digits_in_base) :=
          if Z.land (Z.shiftr (un - 1) pi) 2 =? 0 then
            let t := mpn_divexact_1 t bigb in
            let n := n - b2z (nthl t (n - 1) =? 0) in
            (firstn (Z.to_nat n) t, n, digits_in_base - cpl)
          else (t, n, digits_in_base) in
        (* shift *= 2; *)
        let shift := shift * 2 in
        (* while (t[0] == 0 && (t[1] & ((big_base & -big_base) - 1)) == 0) { t++; n--; shift++; } *)
        match strip_low t n shift (Z.land bigb (wrap (- bigb)) - 1) with
        | None => None
        | Some (t, n, shift) =>
            (* p = t; powtab[pi].p = p; .n = n; .digits_in_base = digits_in_base; .base = base; .shift = shift; *)
            powtab_loop k' un base cpl bigb t n digits_in_base shift memptr
                        (mkpow t n digits_in_base base shift :: tab)
        end
  end.

(* void mpn_set_str_compute_powtab (powers_t *powtab, mp_ptr powtab_mem, mp_size_t un, int base)
   Result: the entries powtab[0], ..., powtab[i] (i = floor (log2 (un - 1))), powtab[0] the largest power.
   (normalization_steps and big_base_inverted are computed by the C code and never used.)
   count_leading_zeros (i, un - 1) is undefined for un - 1 = 0: None. *)
Definition mpn_set_str_compute_powtab (un base cpl bigb : Z) : option (list powers) :=
  if un - 1 <=? 0 then None
  else
    (* p[0] = big_base; n = 1; digits_in_base = chars_per_limb;  powtab_mem_ptr += 1 *)
    (* count_leading_zeros (i, un - 1); i = GMP_LIMB_BITS - 1 - i; *)
    let i := 64 - 1 - clz (un - 1) in
    (* powtab[i].p = p; .n = n; .digits_in_base = digits_in_base; .base = base; .shift = 0; shift = 0; *)
    powtab_loop (Z.to_nat i) un base cpl bigb [bigb] 1 cpl 0 1 [mkpow [bigb] 1 cpl base 0].

(* ------------------------------------------------------------------ *)
(* mpn_dc_set_str  (lines 212-266)                                      *)
(* ------------------------------------------------------------------ *)

(* mp_size_t mpn_dc_set_str (mp_ptr rp, const unsigned char *str, size_t str_len, const powers_t *powtab, mp_ptr tp)
   powtab is the list of the entries from the current one on (powtab + 1 = the tail); dc_thr is
   SET_STR_DC_THRESHOLD; cpl / bigb are the fields of mp_bases[powtab->base].
   Result: {rp, returned size}. *)
Fixpoint mpn_dc_set_str (dc_thr cpl bigb : Z) (str : list Z) (powtab : list powers) {struct powtab}
  : option (list Z) :=
  match powtab with
  | [] => None
  | pw :: powtab1 =>
      let str_len := len str in
      (* len_lo = powtab->digits_in_base; *)
      let len_lo := pw_digits_in_base pw in
      (* if (str_len <= len_lo) { if (BELOW_THRESHOLD (str_len, SET_STR_DC_THRESHOLD)) return mpn_bc_set_str (...);
                                  else return mpn_dc_set_str (rp, str, str_len, powtab + 1, tp); } *)
      if str_len <=? len_lo then
        if BELOW_THRESHOLD str_len dc_thr then mpn_bc_set_str str (pw_base pw) cpl bigb
        else mpn_dc_set_str dc_thr cpl bigb str powtab1
      else
        (* len_hi = str_len - len_lo; *)
        let len_hi := str_len - len_lo in
        (* hn = (BELOW_THRESHOLD (len_hi, ...)) ? mpn_bc_set_str (tp, str, len_hi, powtab->base)
                                                : mpn_dc_set_str (tp, str, len_hi, powtab + 1, rp); *)
        let str_hi := firstn (Z.to_nat len_hi) str in
        match (if BELOW_THRESHOLD len_hi dc_thr then mpn_bc_set_str str_hi (pw_base pw) cpl bigb
               else mpn_dc_set_str dc_thr cpl bigb str_hi powtab1) with
        | None => None
        | Some tp_hi =>
            let hn := len tp_hi in
            (* sn = powtab->shift; *)
            let sn := pw_shift pw in
            (* if (hn == 0) MPN_ZERO (rp, powtab->n + sn);
               else { if (powtab->n > hn) mpn_mul (rp + sn, powtab->p, powtab->n, tp, hn);
                      else mpn_mul (rp + sn, tp, hn, powtab->p, powtab->n);
                      MPN_ZERO (rp, sn); } *)
            let rp :=
              if hn =? 0 then repeat 0 (Z.to_nat (pw_n pw + sn))
              else repeat 0 (Z.to_nat sn) ++
                   (if hn <? pw_n pw then mpn_mul (pw_p pw) tp_hi else mpn_mul tp_hi (pw_p pw)) in
            (* str = str + str_len - len_lo;
               ln = (BELOW_THRESHOLD (len_lo, ...)) ? mpn_bc_set_str (tp, str, len_lo, powtab->base)
                                                    : mpn_dc_set_str (tp, str, len_lo, powtab + 1, tp + powtab->n + sn + 1); *)
            let str_lo := skipn (Z.to_nat (str_len - len_lo)) str in
            match (if BELOW_THRESHOLD len_lo dc_thr then mpn_bc_set_str str_lo (pw_base pw) cpl bigb
                   else mpn_dc_set_str dc_thr cpl bigb str_lo powtab1) with
            | None => None
            | Some tp_lo =>
                let ln := len tp_lo in
                (* if (ln != 0) { cy = mpn_add_n (rp, rp, tp, ln); mpn_incr_u (rp + ln, cy); } *)
                let rp' :=
                  if ln =? 0 then Some rp
                  else if len rp <? ln then None
                  else
                    let '(lo, cy) := mpn_add_n (firstn (Z.to_nat ln) rp) tp_lo in
                    let '(hi, cyout) := mpn_incr_u (skipn (Z.to_nat ln) rp) cy in
                    if cyout =? 0 then Some (lo ++ hi) else None in
                match rp' with
                | None => None
                | Some rp =>
                    (* n = hn + powtab->n + sn;  return n - (rp[n - 1] == 0); *)
                    let n := hn + pw_n pw + sn in
                    Some (firstn (Z.to_nat (n - b2z (nthl rp (n - 1) =? 0))) rp)
                end
            end
        end
  end.

(* ------------------------------------------------------------------ *)
(* mpn_set_str  (lines 60-125)                                          *)
(* ------------------------------------------------------------------ *)

(* lines 78-90, one iteration of  for (s = str + str_len - 1; s >= str; s--)  with inp_digit = *s:
     res_digit |= ((mp_limb_t) inp_digit << next_bitpos) & GMP_NUMB_MASK;
     next_bitpos += bits_per_indigit;
     if (next_bitpos >= GMP_NUMB_BITS)
       { rp[size++] = res_digit; next_bitpos -= GMP_NUMB_BITS;
         res_digit = inp_digit >> (bits_per_indigit - next_bitpos); }
   state: (res_digit, next_bitpos, {rp, size}) *)
Definition pow2_step (bits_per_indigit : Z) (st : Z * Z * list Z) (inp_digit : Z) : Z * Z * list Z :=
  let '(res_digit, next_bitpos, rp) := st in
  let res_digit := Z.lor res_digit (wrap (Z.shiftl inp_digit next_bitpos)) in
  let next_bitpos := next_bitpos + bits_per_indigit in
  if 64 <=? next_bitpos then
    let next_bitpos := next_bitpos - 64 in
    (Z.shiftr inp_digit (bits_per_indigit - next_bitpos), next_bitpos, rp ++ [res_digit])
  else (res_digit, next_bitpos, rp).

(* lines 63-95: the string is read from its last byte to its first *)
Definition set_str_pow2 (str : list Z) (bits_per_indigit : Z) : list Z :=
  let '(res_digit, _, rp) := fold_left (pow2_step bits_per_indigit) (rev str) (0, 0, []) in
  (* if (res_digit != 0) rp[size++] = res_digit;  return size; *)
  if res_digit =? 0 then rp else rp ++ [res_digit].

(* #define POW2_P(n)  (((n) & ((n) - 1)) == 0) *)
Definition POW2_P (n : Z) : bool := Z.land n (n - 1) =? 0.

(* mp_bases[base]: (chars_per_limb, big_base) of the regenerated table *)
Definition mp_bases (base : Z) : Z * Z :=
  match find (fun e => fst e =? base) bases64 with
  | Some (_, (cpl, _, bigb, _)) => (cpl, bigb)
  | None => (0, 0)
  end.

(* the non power of two part, lines 97-124, with the thresholds and table fields as parameters *)
Definition set_str_other (pre_thr dc_thr : Z) (str : list Z) (base cpl bigb : Z) : option (list Z) :=
  let str_len := len str in
  (* if (BELOW_THRESHOLD (str_len, SET_STR_PRECOMPUTE_THRESHOLD)) return mpn_bc_set_str (rp, str, str_len, base); *)
  if BELOW_THRESHOLD str_len pre_thr then mpn_bc_set_str str base cpl bigb
  else
    (* un = str_len / chars_per_limb + 1; *)
    let un := str_len / cpl + 1 in
    (* mpn_set_str_compute_powtab (powtab, powtab_mem, un, base);
       size = mpn_dc_set_str (rp, str, str_len, powtab, tp); *)
    match mpn_set_str_compute_powtab un base cpl bigb with
    | None => None
    | Some powtab => mpn_dc_set_str dc_thr cpl bigb str powtab
    end.

(* mp_size_t mpn_set_str (mp_ptr rp, const unsigned char *str, size_t str_len, int base):
   {rp, returned size}; thresholds from the regenerated gmp-mparam.h (Gen_Tables) *)
Definition mpn_set_str (str : list Z) (base : Z) : option (list Z) :=
  let '(cpl, bigb) := mp_bases base in
  if POW2_P base then
    (* int bits_per_indigit = mp_bases[base].big_base; *)
    Some (set_str_pow2 str bigb)
  else set_str_other thr_SET_STR_PRECOMPUTE_THRESHOLD thr_SET_STR_DC_THRESHOLD str base cpl bigb.
