(* SbDivProofs.v -- mpn_sb_div_qr (model in SbDivDefs.v) returns the exact quotient and
   remainder for every nn-limb numerator and every normalised dn-limb divisor, dn >= 3,
   nn >= dn; this discharges the base-case hypothesis of the divide-and-conquer theorem of
   DcDivProofs.v.  Standard library plus this project's lemmas. *)
From Coq Require Import ZArith Lia Bool.
From Mpir Require Import DcDivDefs DcDivProofs Word DivDefs DivWord2Proofs SbDivDefs.
Local Open Scope Z_scope.

(* ------------------------------------------------------------------ *)
(* powers of the limb base                                              *)
(* ------------------------------------------------------------------ *)

Lemma Bp_1 : Bp 1 = B.
Proof. rewrite B_val. reflexivity. Qed.

Lemma Bp_succ k : 0 <= k -> Bp (k + 1) = B * Bp k.
Proof. intros H. rewrite Bp_add by lia. rewrite Bp_1. ring. Qed.

Lemma B_ge_2 : 2 <= B.
Proof. rewrite B_val. lia. Qed.

Local Opaque Bp.

(* ------------------------------------------------------------------ *)
(* the primitives                                                       *)
(* ------------------------------------------------------------------ *)

Lemma submul_1_spec k a d q :
  0 <= k -> 0 <= a < Bp k -> 0 <= d < Bp k -> 0 <= q < B ->
  let '(cy, r) := mpn_submul_1 k a d q in
  a - q * d = r - cy * Bp k /\ 0 <= r < Bp k /\ 0 <= cy < B.
Proof.
  intros Hk Ha Hd Hq. unfold mpn_submul_1.
  pose proof (Bp_pos k Hk) as Hb. set (b := Bp k) in *.
  set (v := a - q * d).
  pose proof (Z.div_mod v b ltac:(lia)) as Hdm.
  pose proof (Z.mod_pos_bound v b Hb) as Hmb.
  assert (Hqd : 0 <= q * d) by (apply Z.mul_nonneg_nonneg; lia).
  assert (Hqd2 : q * d <= (B - 1) * (b - 1)) by (apply Z.mul_le_mono_nonneg; lia).
  assert (Hc : 0 <= - (v / b) < B).
  { split.
    - assert (v / b < 1) by (apply Z.div_lt_upper_bound; lia). lia.
    - assert (- B < v / b); [ | lia ].
      assert (- B + 1 <= v / b); [ | lia ].
      apply Z.div_le_lower_bound; [ lia | ]. unfold v. nia. }
  rewrite wrap_small by exact Hc. repeat split; try lia.
Qed.

Lemma three_split v : 0 <= v < B * B * B ->
  v = (v / (B * B)) * B * B + ((v / B) mod B) * B + v mod B
  /\ 0 <= v / (B * B) < B /\ 0 <= (v / B) mod B < B /\ 0 <= v mod B < B.
Proof.
  intros Hv. pose proof B_pos as HB.
  pose proof (Z.div_mod v B ltac:(lia)) as H1.
  pose proof (Z.mod_pos_bound v B HB) as H2.
  pose proof (Z.div_mod (v / B) B ltac:(lia)) as H3.
  pose proof (Z.mod_pos_bound (v / B) B HB) as H4.
  rewrite Z.div_div in H3 by lia.
  assert (HBB : 0 < B * B) by (apply Z.mul_pos_pos; lia).
  assert (H5 : 0 <= v / (B * B)) by (apply Z.div_pos; lia).
  assert (H6 : v / (B * B) < B) by (apply Z.div_lt_upper_bound; lia).
  repeat split; lia.
Qed.

(* sub_333 (cy, n1, n0, 0, r1, r0, 0, 0, cy2): cy != 0 exactly when <r1,r0> < cy2 *)
Lemma sub_333_spec r1 r0 cy2 : limb r1 -> limb r0 -> limb cy2 ->
  let '(cy, m, l) := sub_333 0 r1 r0 0 0 cy2 in
  limb m /\ limb l /\
  (cy2 <= r1 * B + r0 -> cy = 0 /\ m * B + l = r1 * B + r0 - cy2) /\
  (r1 * B + r0 < cy2 -> cy <> 0 /\ m * B + l = B * B + (r1 * B + r0 - cy2)).
Proof.
  unfold limb. intros Hr1 Hr0 Hc. pose proof B_pos as HB. unfold sub_333.
  replace (0 * B * B + r1 * B + r0 - (0 * B * B + 0 * B + cy2)) with (r1 * B + r0 - cy2) by ring.
  set (S := r1 * B + r0 - cy2).
  assert (HS : - B < S < B * B) by (unfold S; nia).
  assert (HBB : 0 < B * B) by (apply Z.mul_pos_pos; lia).
  assert (HB3 : B * B * B = B * (B * B)) by ring.
  pose proof (Z.mod_pos_bound S (B * B * B) ltac:(nia)) as Hv.
  pose proof (three_split (S mod (B * B * B)) Hv) as (Ev & Hc2 & Hm & Hl).
  set (v := S mod (B * B * B)) in *.
  set (c := v / (B * B)) in *. set (m := (v / B) mod B) in *. set (l := v mod B) in *.
  split; [ exact Hm | ]. split; [ exact Hl | ]. split.
  - intros Hge. assert (Evs : v = S) by (unfold v; apply Z.mod_small; nia).
    assert (Ec : c = 0).
    { assert (~ (1 <= c)); [ | lia ]. intros H1.
      assert (1 * (B * B) <= c * (B * B)) by (apply Z.mul_le_mono_nonneg_r; lia). nia. }
    rewrite Ec in Ev. lia.
  - intros Hlt. assert (Evs : v = S + B * B * B).
    { unfold v. symmetry. apply Z.mod_unique with (-1); nia. }
    assert (Ec : c = B - 1).
    { assert (~ (c <= B - 2)); [ | lia ]. intros H1.
      assert (c * (B * B) <= (B - 2) * (B * B)) by (apply Z.mul_le_mono_nonneg_r; lia). nia. }
    rewrite Ec in Ev. split; [ lia | ]. nia.
Qed.

(* ------------------------------------------------------------------ *)
(* the quotient-limb estimate                                           *)
(* ------------------------------------------------------------------ *)

(* Dh = <d1,d0> the two top divisor limbs, D = Dh b + Dl, Pw = top3 b + Wl the partial
   remainder with the new limb shifted in, q = top3 / Dh the exact 3-by-2 quotient,
   r = top3 mod Dh.  q never under-estimates Pw / D ... *)
Lemma est_upper b Dh Dl q r Wl :
  0 < b -> 0 <= Dl < b -> 0 <= Wl < b -> 0 <= q -> 0 <= r < Dh ->
  (q * Dh + r) * b + Wl - q * (Dh * b + Dl) < Dh * b + Dl.
Proof.
  intros Hb HDl HWl Hq Hr.
  assert (0 <= q * Dl) by (apply Z.mul_nonneg_nonneg; lia).
  assert ((r + 1) * b <= Dh * b) by (apply Z.mul_le_mono_nonneg_r; lia).
  lia.
Qed.

(* ... and over-estimates it by at most one: the subtraction q * D can only underflow by
   less than D.  (Only Dh >= B is needed here, the normalisation is needed by the 3-by-2
   step itself.) *)
Lemma est_lower b Dh Dl q r Wl :
  0 < b -> 0 <= Dl < b -> 0 <= Wl < b -> 0 <= q < B -> 0 <= r -> B <= Dh ->
  - (Dh * b + Dl) < (q * Dh + r) * b + Wl - q * (Dh * b + Dl).
Proof.
  intros Hb HDl HWl Hq Hr HDh.
  assert (q * Dl <= (B - 1) * b) by (apply Z.mul_le_mono_nonneg; lia).
  assert (B * b <= Dh * b) by (apply Z.mul_le_mono_nonneg_r; lia).
  assert (0 <= r * b) by (apply Z.mul_nonneg_nonneg; lia).
  lia.
Qed.

(* the case <n1, np[1]> = <d1, d0>: q = B - 1 is the exact quotient limb *)
Lemma special_arith b Dh Dl a0 Wl :
  0 < b -> B <= Dh -> 0 <= Dl < b -> 0 <= a0 -> 0 <= Wl ->
  (Dh * B + a0) * b + Wl < (Dh * b + Dl) * B ->
  0 <= (Dh * B + a0) * b + Wl - (B - 1) * (Dh * b + Dl) < Dh * b + Dl.
Proof.
  intros Hb HDh HDl Ha0 HWl Hlt. pose proof B_ge_2 as HB.
  assert ((B - 1) * Dl <= (B - 1) * b) by (apply Z.mul_le_mono_nonneg_l; lia).
  assert (B * b <= Dh * b) by (apply Z.mul_le_mono_nonneg_r; lia).
  assert (0 <= a0 * b) by (apply Z.mul_nonneg_nonneg; lia).
  lia.
Qed.

(* ------------------------------------------------------------------ *)
(* one loop iteration                                                   *)
(* ------------------------------------------------------------------ *)

(* The else-branch after udiv_qr_3by2, given the specification of its results
   (k = dn - 2, b = B^k). *)
Lemma generic_step k d1 d0 Dl q r1 r0 Wl :
  0 <= k -> 1 <= d1 < B -> limb d0 -> 0 <= Dl < Bp k -> 0 <= q < B ->
  limb r1 -> limb r0 -> 0 <= Wl < Bp k -> r1 * B + r0 < d1 * B + d0 ->
  let b := Bp k in
  let Dh := d1 * B + d0 in
  let D := Dh * b + Dl in
  let Pw := (q * Dh + (r1 * B + r0)) * b + Wl in
  let '(cy2, Wl') := mpn_submul_1 k Wl Dl q in
  let '(cy, n1', n0') := sub_333 0 r1 r0 0 0 cy2 in
  let M := n0' * b + Wl' in
  let '(qf, n1f, Tf) :=
    if negb (cy =? 0) then
      let '(c, M') := mpn_add_n (k + 1) M (d0 * b + Dl) in
      (wrap (q - 1), wrap (n1' + wrap (d1 + c)), M')
    else (q, n1', M) in
  0 <= qf < B /\ 0 <= n1f /\ 0 <= Tf < B * b /\ n1f * (B * b) + Tf < D
  /\ Pw = qf * D + (n1f * (B * b) + Tf).
Proof.
  intros Hk Hd1 Hd0 HDl Hq Hr1 Hr0 HWl Hr b Dh D Pw.
  pose proof B_ge_2 as HB. pose proof (Bp_pos k Hk) as Hb.
  pose proof (Bp_succ k Hk) as Ek1. fold b in Hb, HDl, HWl, Ek1.
  unfold limb in Hd0, Hr1, Hr0.
  assert (Hrn : 0 <= r1 * B + r0).
  { assert (0 <= r1 * B) by (apply Z.mul_nonneg_nonneg; lia). lia. }
  assert (HDh : B <= Dh).
  { unfold Dh. assert (1 * B <= d1 * B) by (apply Z.mul_le_mono_nonneg_r; lia). lia. }
  pose proof (est_upper b Dh Dl q (r1 * B + r0) Wl Hb HDl HWl ltac:(lia) ltac:(fold Dh in Hr; lia)) as Hup.
  pose proof (est_lower b Dh Dl q (r1 * B + r0) Wl Hb HDl HWl Hq Hrn HDh) as Hlo.
  fold D in Hup, Hlo. fold Pw in Hup, Hlo.
  pose proof (submul_1_spec k Wl Dl q Hk HWl HDl Hq) as Hsm.
  destruct (mpn_submul_1 k Wl Dl q) as [cy2 Wl']. fold b in Hsm.
  destruct Hsm as (Esm & HWl' & Hcy2).
  pose proof (sub_333_spec r1 r0 cy2 Hr1 Hr0 Hcy2) as H3.
  destruct (sub_333 0 r1 r0 0 0 cy2) as [[cy n1'] n0']. unfold limb in H3.
  destruct H3 as (Hn1' & Hn0' & Hge & Hlt).
  (* Pw - q D in terms of the computed pieces *)
  assert (EP : Pw - q * D = (r1 * B + r0 - cy2) * b + Wl').
  { unfold Pw, D. replace (q * (Dh * b + Dl)) with (q * Dh * b + q * Dl) by ring.
    replace ((r1 * B + r0 - cy2) * b + Wl') with ((r1 * B + r0) * b + (Wl' - cy2 * b)) by ring.
    rewrite <- Esm. ring. }
  assert (HM : 0 <= n0' * b + Wl' < B * b).
  { assert (0 <= n0' * b) by (apply Z.mul_nonneg_nonneg; lia).
    assert ((n0' + 1) * b <= B * b) by (apply Z.mul_le_mono_nonneg_r; lia). lia. }
  destruct (Z.le_gt_cases cy2 (r1 * B + r0)) as [Hcase | Hcase].
  - (* no borrow *)
    destruct (Hge Hcase) as (Ecy & Emn). subst cy. cbn [Z.eqb negb].
    assert (ER : n1' * (B * b) + (n0' * b + Wl') = Pw - q * D).
    { rewrite EP. rewrite <- Emn. ring. }
    assert (0 <= (r1 * B + r0 - cy2) * b) by (apply Z.mul_nonneg_nonneg; lia).
    repeat split; try lia.
  - (* borrow: add back *)
    destruct (Hlt Hcase) as (Ecy & Emn).
    destruct (Z.eqb_spec cy 0) as [E0 | _]; [ contradiction | ]. cbn [negb].
    assert (Hneg : Pw - q * D < 0).
    { rewrite EP. assert ((r1 * B + r0 - cy2) * b <= (-1) * b)
        by (apply Z.mul_le_mono_nonneg_r; lia). lia. }
    assert (Hq1 : 1 <= q).
    { assert (~ (q = 0)); [ | lia ]. intros E. subst q.
      assert (0 <= Pw); [ | lia ]. unfold Pw.
      assert (0 <= (r1 * B + r0) * b) by (apply Z.mul_nonneg_nonneg; lia). lia. }
    assert (Hd0b : 0 <= d0 * b + Dl < B * b).
    { assert (0 <= d0 * b) by (apply Z.mul_nonneg_nonneg; lia).
      assert ((d0 + 1) * b <= B * b) by (apply Z.mul_le_mono_nonneg_r; lia). lia. }
    rewrite <- Ek1 in HM, Hd0b.
    pose proof (add_n_spec (k + 1) (n0' * b + Wl') (d0 * b + Dl) HM Hd0b) as Had.
    destruct (mpn_add_n (k + 1) (n0' * b + Wl') (d0 * b + Dl)) as [c M'].
    rewrite Ek1 in Had. destruct Had as (Ead & HM' & Hc).
    (* R = Pw - (q - 1) D, the restored remainder *)
    set (R := Pw - (q - 1) * D).
    assert (HR : 0 <= R < D) by (unfold R; lia).
    assert (HDlt : D < B * (B * b)).
    { unfold D. assert (d1 * B <= (B - 1) * B) by (apply Z.mul_le_mono_nonneg_r; lia).
      assert (Dh + 1 <= B * B) by (unfold Dh; lia).
      assert ((Dh + 1) * b <= B * B * b) by (apply Z.mul_le_mono_nonneg_r; lia). lia. }
    assert (Esum : (n1' + d1 + c - B) * (B * b) + M' = R).
    { unfold R. replace (Pw - (q - 1) * D) with (Pw - q * D + D) by ring. rewrite EP.
      unfold D, Dh.
      replace (r1 * B + r0 - cy2) with (n1' * B + n0' - B * B) by lia.
      replace M' with (n0' * b + Wl' + (d0 * b + Dl) - c * (B * b)) by lia. ring. }
    set (t := n1' + d1 + c - B) in *.
    assert (Ht : 0 <= t < B).
    { split.
      - assert (~ (t <= -1)); [ | lia ]. intros Hn.
        assert (t * (B * b) <= (-1) * (B * b)) by (apply Z.mul_le_mono_nonneg_r; lia). lia.
      - assert (~ (B <= t)); [ | lia ]. intros Hn.
        assert (B * (B * b) <= t * (B * b)) by (apply Z.mul_le_mono_nonneg_r; lia). lia. }
    assert (Ew : wrap (n1' + wrap (d1 + c)) = t).
    { unfold wrap. rewrite Zplus_mod_idemp_r.
      symmetry. apply Z.mod_unique with 1; [ lia | unfold t; ring ]. }
    rewrite Ew. rewrite wrap_small by lia.
    split; [ lia | ]. split; [ lia | ]. split; [ lia | ].
    split; [ lia | ]. rewrite Esum. unfold R. ring.
Qed.

(* np[1], np[0] and the dn - 2 limbs below them, after the new limb x has entered *)
Lemma window_split k T x : 1 <= k -> 0 <= T < B * Bp k -> 0 <= x < B ->
  exists Wl, 0 <= Wl < Bp k
    /\ T * B + x = (T / Bp k * B + (T / Bp (k - 1)) mod B) * Bp k + Wl
    /\ limb (T / Bp k) /\ limb ((T / Bp (k - 1)) mod B)
    /\ T / Bp k * Bp k <= T.
Proof.
  intros Hk HT Hx. pose proof B_pos as HB.
  pose proof (Bp_pos (k - 1) ltac:(lia)) as Hb3.
  pose proof (Bp_succ (k - 1) ltac:(lia)) as Eb. replace (k - 1 + 1) with k in Eb by lia.
  set (b3 := Bp (k - 1)) in *. rewrite Eb in *.
  pose proof (Z.div_mod T b3 ltac:(lia)) as H1.
  pose proof (Z.mod_pos_bound T b3 Hb3) as H2.
  pose proof (Z.div_mod (T / b3) B ltac:(lia)) as H3.
  pose proof (Z.mod_pos_bound (T / b3) B HB) as H4.
  rewrite Z.div_div in H3 by lia. rewrite (Z.mul_comm b3 B) in H3.
  assert (H5 : 0 <= T / (B * b3)) by (apply Z.div_pos; nia).
  assert (H6 : T / (B * b3) < B) by (apply Z.div_lt_upper_bound; nia).
  set (np1 := T / (B * b3)) in *. set (np0 := (T / b3) mod B) in *.
  set (t3 := T mod b3) in *.
  exists (t3 * B + x). unfold limb.
  assert ((t3 + 1) * B <= b3 * B) by (apply Z.mul_le_mono_nonneg_r; lia).
  assert (0 <= t3 * B) by (apply Z.mul_nonneg_nonneg; lia).
  assert (0 <= np0 * b3) by (apply Z.mul_nonneg_nonneg; lia).
  assert (ET : T = np1 * (B * b3) + np0 * b3 + t3).
  { rewrite H1 at 1. rewrite H3 at 1. ring. }
  repeat split; lia.
Qed.

(* the divisor limbs d1, d0 and the dn - 2 limbs below them *)
Lemma divisor_split k D : 0 <= k -> B * (B * Bp k) <= 2 * D -> D < B * (B * Bp k) ->
  let d1 := D / (B * Bp k) in
  let d0 := (D / Bp k) mod B in
  let Dl := D mod Bp k in
  D = (d1 * B + d0) * Bp k + Dl /\ B / 2 <= d1 < B /\ limb d0 /\ 0 <= Dl < Bp k
  /\ D mod (B * Bp k) = d0 * Bp k + Dl.
Proof.
  intros Hk Hn1 Hn2 d1 d0 Dl. pose proof B_pos as HB.
  pose proof (Bp_pos k Hk) as Hb. set (b := Bp k) in *.
  assert (HBb : 0 < B * b) by (apply Z.mul_pos_pos; lia).
  assert (HD0 : 0 <= D) by nia.
  pose proof (Z.div_mod D b ltac:(lia)) as H1.
  pose proof (Z.mod_pos_bound D b Hb) as H2.
  pose proof (Z.div_mod (D / b) B ltac:(lia)) as H3.
  pose proof (Z.mod_pos_bound (D / b) B HB) as H4.
  rewrite Z.div_div in H3 by lia. rewrite (Z.mul_comm b B) in H3.
  fold d1 in H3. fold d0 in H3, H4. fold Dl in H1, H2.
  assert (ED : D = (d1 * B + d0) * b + Dl).
  { rewrite H1 at 1. rewrite H3 at 1. ring. }
  assert (Hd1u : d1 < B) by (apply Z.div_lt_upper_bound; lia).
  assert (Hd1l : B / 2 <= d1).
  { apply Z.div_le_lower_bound; [ lia | ].
    assert (EB : B = 2 * (B / 2)) by (rewrite B_val; reflexivity).
    rewrite EB in Hn1 at 1. lia. }
  split; [ exact ED | ]. split; [ lia | ]. split; [ exact H4 | ]. split; [ exact H2 | ].
  symmetry. apply Z.mod_unique with d1.
  - assert (0 <= d0 * b) by (apply Z.mul_nonneg_nonneg; lia).
    assert ((d0 + 1) * b <= B * b) by (apply Z.mul_le_mono_nonneg_r; lia). lia.
  - rewrite ED at 1. ring.
Qed.

Lemma mod_add_mul q b r : 0 <= r < b -> (q * b + r) mod b = r.
Proof. intros H. symmetry. apply Z.mod_unique with q; lia. Qed.

Lemma two_limb_lt b n1 a1 d1 d0 X Y :
  0 < b -> limb a1 -> limb d0 -> (n1 * B + a1) * b <= X -> X < Y ->
  Y < (d1 * B + d0 + 1) * b -> n1 * B + a1 <= d1 * B + d0.
Proof.
  intros Hb Ha1 Hd0 H1 H2 H3.
  assert (~ (d1 * B + d0 + 1 <= n1 * B + a1)); [ | lia ]. intros Hn.
  assert ((d1 * B + d0 + 1) * b <= (n1 * B + a1) * b)
    by (apply Z.mul_le_mono_nonneg_r; lia). lia.
Qed.

Lemma two_limb_eq n1 a1 d1 d0 :
  limb n1 -> limb a1 -> limb d1 -> limb d0 ->
  n1 * B + a1 = d1 * B + d0 -> n1 = d1 /\ a1 = d0.
Proof.
  unfold limb. intros Hn1 Ha1 Hd1 Hd0 E.
  assert (n1 = d1); [ | split; [ assumption | subst n1; lia ] ].
  destruct (Z.lt_trichotomy n1 d1) as [Hlt | [Heq | Hgt]]; [ exfalso | exact Heq | exfalso ].
  - assert ((n1 + 1) * B <= d1 * B) by (apply Z.mul_le_mono_nonneg_r; lia). lia.
  - assert ((d1 + 1) * B <= n1 * B) by (apply Z.mul_le_mono_nonneg_r; lia). lia.
Qed.

(* One iteration: with P = n1 B^(dn-1) + T < D the partial remainder and x the next
   numerator limb, the body computes the exact quotient limb q of P B + x by D and leaves
   the exact remainder in (n1, T). *)
Lemma sb_step_correct dn D x n1 T :
  3 <= dn -> Bp dn <= 2 * D -> D < Bp dn -> 0 <= x < B -> 0 <= n1 ->
  0 <= T < Bp (dn - 1) -> n1 * Bp (dn - 1) + T < D ->
  let d1 := D / Bp (dn - 1) in
  let d0 := (D / Bp (dn - 2)) mod B in
  let '(q, n1', T') := sb_step dn d1 d0 (invert_pi1 d1 d0) D x n1 T in
  0 <= q < B /\ 0 <= n1' /\ 0 <= T' < Bp (dn - 1) /\ n1' * Bp (dn - 1) + T' < D
  /\ (n1 * Bp (dn - 1) + T) * B + x = q * D + (n1' * Bp (dn - 1) + T').
Proof.
  intros Hdn HDn1 HDn2 Hx Hn1 HT HP. pose proof B_ge_2 as HB.
  unfold sb_step.
  replace (dn - 3) with (dn - 2 - 1) by lia.
  pose proof (Bp_succ (dn - 2) ltac:(lia)) as E1.
  replace (dn - 2 + 1) with (dn - 1) in E1 by lia.
  pose proof (Bp_succ (dn - 1) ltac:(lia)) as E2.
  replace (dn - 1 + 1) with dn in E2 by lia. rewrite E1 in E2.
  rewrite E2 in HDn1, HDn2. rewrite E1 in *.
  set (k := dn - 2) in *. assert (Hk : 1 <= k) by (unfold k; lia).
  pose proof (Bp_pos k ltac:(lia)) as Hb.
  destruct (divisor_split k D ltac:(lia) HDn1 HDn2) as (ED & Hd1 & Hd0 & HDl & EDm).
  destruct (window_split k T x Hk HT Hx) as (Wl & HWl & EW & Hnp1 & Hnp0 & HTge).
  rewrite EDm.
  set (d1 := D / (B * Bp k)) in *. set (d0 := (D / Bp k) mod B) in *.
  set (Dl := D mod Bp k) in *.
  set (np1 := T / Bp k) in *. set (np0 := (T / Bp (k - 1)) mod B) in *.
  set (b := Bp k) in *. cbv zeta.
  assert (HBb : 0 < B * b) by (apply Z.mul_pos_pos; lia).
  assert (Hd1' : 1 <= d1 < B).
  { assert (1 <= B / 2) by (apply Z.div_le_lower_bound; lia). lia. }
  assert (Hd1l : limb d1) by (unfold limb; lia).
  assert (Hn1l : limb n1).
  { unfold limb. split; [ lia | ].
    assert (~ (B <= n1)); [ | lia ]. intros Hn.
    assert (B * (B * b) <= n1 * (B * b)) by (apply Z.mul_le_mono_nonneg_r; lia). lia. }
  assert (Hle : n1 * B + np1 <= d1 * B + d0).
  { apply (two_limb_lt b n1 np1 d1 d0 (n1 * (B * b) + T) D Hb Hnp1 Hd0); [ | lia | ].
    - replace ((n1 * B + np1) * b) with (n1 * (B * b) + np1 * b) by ring. lia.
    - rewrite ED at 1. lia. }
  (* the shifted partial remainder *)
  assert (EPw : (n1 * (B * b) + T) * B + x = ((n1 * B + np1) * B + np0) * b + Wl).
  { replace ((n1 * (B * b) + T) * B + x) with (n1 * B * B * b + (T * B + x)) by ring.
    rewrite EW. ring. }
  destruct ((n1 =? d1) && (np1 =? d0)) eqn:Etest.
  - (* n1 == d1 && np[1] == d0 *)
    apply andb_true_iff in Etest. destruct Etest as [En1 Enp1].
    apply Z.eqb_eq in En1. apply Z.eqb_eq in Enp1.
    unfold mpn_submul_1. rewrite E2. rewrite EPw.
    assert (HDh : B <= d1 * B + d0).
    { assert (1 * B <= d1 * B) by (apply Z.mul_le_mono_nonneg_r; lia). unfold limb in Hd0. lia. }
    assert (Hlt : ((d1 * B + d0) * B + np0) * b + Wl < ((d1 * B + d0) * b + Dl) * B).
    { rewrite <- ED. rewrite <- Enp1, <- En1, <- EPw.
      assert ((n1 * (B * b) + T + 1) * B <= D * B) by (apply Z.mul_le_mono_nonneg_r; lia).
      lia. }
    pose proof (special_arith b (d1 * B + d0) Dl np0 Wl Hb HDh HDl
                  ltac:(unfold limb in Hnp0; lia) ltac:(lia) Hlt) as HR.
    rewrite <- ED in HR. rewrite En1, Enp1.
    set (R := ((d1 * B + d0) * B + np0) * b + Wl - (B - 1) * D) in *.
    assert (EW' : (T * B + x - (B - 1) * D) mod (B * (B * b)) = R).
    { symmetry. apply Z.mod_unique with (- d1); [ lia | ].
      unfold R. rewrite EW. rewrite Enp1. ring. }
    rewrite EW'.
    destruct (split_spec R (B * b) HBb ltac:(lia)) as (ER & HRm & HRd).
    repeat split; try lia.
  - (* otherwise <n1, np[1]> < <d1, d0>: the precondition of udiv_qr_3by2 *)
    assert (Hlt : n1 * B + np1 < d1 * B + d0).
    { assert (n1 * B + np1 <> d1 * B + d0); [ | lia ]. intros E.
      destruct (two_limb_eq n1 np1 d1 d0 Hn1l Hnp1 Hd1l Hd0 E) as [E1' E2'].
      rewrite E1', E2', !Z.eqb_refl in Etest. discriminate. }
    pose proof (udiv_qr_3by2_spec n1 np1 np0 d1 d0 Hd1 Hd0 Hn1l Hnp1 Hnp0 Hlt) as H3.
    destruct (udiv_qr_3by2 n1 np1 np0 d1 d0 (invert_pi1 d1 d0)) as [[q r1] r0].
    destruct H3 as (Eq & Er & Hq & Hr1 & Hr0).
    assert (HDhp : 0 < d1 * B + d0).
    { assert (1 * B <= d1 * B) by (apply Z.mul_le_mono_nonneg_r; lia). unfold limb in Hd0. lia. }
    pose proof (Z.div_mod (n1 * B * B + np1 * B + np0) (d1 * B + d0) ltac:(lia)) as Hdm.
    pose proof (Z.mod_pos_bound (n1 * B * B + np1 * B + np0) (d1 * B + d0) HDhp) as Hmb.
    rewrite <- Eq, <- Er in Hdm. rewrite <- Er in Hmb.
    rewrite EW. fold np1. rewrite mod_add_mul by exact HWl.
    pose proof (generic_step k d1 d0 Dl q r1 r0 Wl ltac:(lia) Hd1' Hd0 HDl Hq Hr1 Hr0 HWl
                  ltac:(lia)) as HG.
    cbv zeta in HG. fold b in HG. replace (k + 1) with (dn - 1) in HG by (unfold k; lia).
    destruct (mpn_submul_1 k Wl Dl q) as [cy2 Wl'].
    destruct (sub_333 0 r1 r0 0 0 cy2) as [[cy n1'] n0'].
    destruct (if negb (cy =? 0)
              then let '(c, M') := mpn_add_n (dn - 1) (n0' * b + Wl') (d0 * b + Dl) in
                   (wrap (q - 1), wrap (n1' + wrap (d1 + c)), M')
              else (q, n1', n0' * b + Wl')) as [[qf n1f] Tf].
    destruct HG as (HG1 & HG2 & HG3 & HG4 & HG5).
    rewrite <- ED in HG4, HG5.
    split; [ exact HG1 | ]. split; [ exact HG2 | ]. split; [ exact HG3 | ].
    split; [ exact HG4 | ]. rewrite <- HG5. rewrite EPw.
    replace (q * (d1 * B + d0) + (r1 * B + r0)) with (n1 * B * B + np1 * B + np0) by lia. ring.
Qed.

(* ------------------------------------------------------------------ *)
(* the loop                                                             *)
(* ------------------------------------------------------------------ *)

(* low limbs of the numerator: peeling off limb number i *)
Lemma low_limbs_succ N i : 0 <= i ->
  N mod Bp (i + 1) = ((N / Bp i) mod B) * Bp i + N mod Bp i.
Proof.
  intros Hi. pose proof (Bp_pos i Hi) as Hb. pose proof B_pos as HB.
  rewrite Bp_succ by lia. rewrite (Z.mul_comm B (Bp i)).
  rewrite Z.rem_mul_r by lia. ring.
Qed.

(* `it` iterations starting from the partial remainder P = n1 B^(dn-1) + T < D consume the
   `it` low limbs of N: they produce the `it`-limb quotient ql (added to Q at the right
   place) and the remainder of P B^it + (N mod B^it) by D. *)
Lemma sb_loop_correct dn D N : 3 <= dn -> Bp dn <= 2 * D -> D < Bp dn ->
  let d1 := D / Bp (dn - 1) in
  let d0 := (D / Bp (dn - 2)) mod B in
  forall it n1 T Q, 0 <= n1 -> 0 <= T < Bp (dn - 1) -> n1 * Bp (dn - 1) + T < D ->
  let '(n1', T', Q') := sb_loop it dn d1 d0 (invert_pi1 d1 d0) D N n1 T Q in
  0 <= n1' /\ 0 <= T' < Bp (dn - 1) /\ n1' * Bp (dn - 1) + T' < D /\
  exists ql, Q' = Q + ql /\ 0 <= ql < Bp (Z.of_nat it) /\
    (n1 * Bp (dn - 1) + T) * Bp (Z.of_nat it) + N mod Bp (Z.of_nat it)
    = ql * D + (n1' * Bp (dn - 1) + T').
Proof.
  intros Hdn HD1 HD2 d1 d0. induction it as [| it IH]; intros n1 T Q Hn1 HT HP.
  - cbn [sb_loop]. split; [ exact Hn1 | ]. split; [ exact HT | ]. split; [ exact HP | ].
    exists 0. change (Z.of_nat 0) with 0.
    assert (E0 : Bp 0 = 1) by reflexivity. rewrite E0, Z.mod_1_r. lia.
  - cbn [sb_loop]. pose proof B_pos as HB.
    set (i := Z.of_nat it). assert (Hi : 0 <= i) by (unfold i; lia).
    replace (Z.of_nat (S it)) with (i + 1) by (unfold i; lia).
    set (x := (N / Bp i) mod B).
    assert (Hx : 0 <= x < B) by (unfold x; apply Z.mod_pos_bound; exact HB).
    pose proof (sb_step_correct dn D x n1 T Hdn HD1 HD2 Hx Hn1 HT HP) as Hs.
    cbv zeta in Hs. fold d1 d0 in Hs.
    destruct (sb_step dn d1 d0 (invert_pi1 d1 d0) D x n1 T) as [[q n1a] Ta].
    destruct Hs as (Hq & Hn1a & HTa & HPa & Es).
    specialize (IH n1a Ta (Q + q * Bp i) Hn1a HTa HPa).
    destruct (sb_loop it dn d1 d0 (invert_pi1 d1 d0) D N n1a Ta (Q + q * Bp i))
      as [[n1' T'] Q'].
    destruct IH as (Hn1' & HT' & HP' & ql & EQ & Hql & Eloop). fold i in Hql, Eloop.
    split; [ exact Hn1' | ]. split; [ exact HT' | ]. split; [ exact HP' | ].
    pose proof (Bp_pos i Hi) as Hbi.
    exists (q * Bp i + ql). split; [ lia | ]. split.
    + rewrite Bp_succ by lia.
      assert (0 <= q * Bp i) by (apply Z.mul_nonneg_nonneg; lia).
      assert ((q + 1) * Bp i <= B * Bp i) by (apply Z.mul_le_mono_nonneg_r; lia). lia.
    + rewrite low_limbs_succ by lia. fold x. rewrite Bp_succ by lia.
      set (P := n1 * Bp (dn - 1) + T) in *. set (bi := Bp i) in *.
      replace (P * (B * bi) + (x * bi + N mod bi)) with ((P * B + x) * bi + N mod bi) by ring.
      rewrite Es.
      replace ((q * bi + ql) * D + (n1' * Bp (dn - 1) + T'))
        with (q * D * bi + (ql * D + (n1' * Bp (dn - 1) + T'))) by ring.
      rewrite <- Eloop. ring.
Qed.

(* ------------------------------------------------------------------ *)
(* the function                                                         *)
(* ------------------------------------------------------------------ *)

Lemma norm_of_half k D : 1 <= k -> Bp k / 2 <= D -> Bp k <= 2 * D.
Proof.
  intros Hk HD. destruct (Bp_even k Hk) as (c & Hc & Ec). rewrite Ec in *.
  rewrite Z.mul_comm, Z.div_mul in HD by lia. lia.
Qed.

Theorem sb_div_qr_correct nn dn N D :
  3 <= dn -> dn <= nn -> 0 <= N < Bp nn -> Bp dn / 2 <= D < Bp dn ->
  let '(qh, Q, R) := sb_div_qr nn dn N D in
  N = (qh * Bp (nn - dn) + Q) * D + R /\ 0 <= R < D /\ 0 <= Q < Bp (nn - dn)
  /\ (qh = 0 \/ qh = 1).
Proof.
  intros Hdn Hnn HN [HD1 HD2]. apply norm_of_half in HD1; [ | lia ].
  unfold sb_div_qr, sb_div_qr_pi.
  set (d1 := D / Bp (dn - 1)). set (d0 := (D / Bp (dn - 2)) mod B).
  pose proof (Bp_pos (nn - dn) ltac:(lia)) as Hbq.
  pose proof (Bp_pos (dn - 1) ltac:(lia)) as Hb1.
  assert (Enn : Bp nn = Bp dn * Bp (nn - dn)).
  { rewrite <- Bp_add by lia. f_equal. lia. }
  destruct (split_spec N (Bp (nn - dn)) Hbq ltac:(lia)) as (EN & HNm & HNd).
  set (top := N / Bp (nn - dn)) in *.
  assert (Htop : top < Bp dn).
  { apply Z.div_lt_upper_bound; [ lia | ]. rewrite Z.mul_comm, <- Enn. lia. }
  (* the initial compare and subtract *)
  set (qh := if D <=? top then 1 else 0).
  set (P0 := if qh =? 0 then top else snd (mpn_sub_n dn top D)).
  assert (H0 : top = qh * D + P0 /\ 0 <= P0 < D /\ (qh = 0 \/ qh = 1)).
  { unfold P0, qh. destruct (Z.leb_spec D top) as [Hge | Hlt]; cbn [Z.eqb].
    - unfold mpn_sub_n, snd. rewrite Z.mod_small by lia. lia.
    - lia. }
  destruct H0 as (Etop & HP0 & Hqh).
  destruct (split_spec P0 (Bp (dn - 1)) Hb1 ltac:(lia)) as (EP0 & HP0m & HP0d).
  pose proof (sb_loop_correct dn D N Hdn HD1 HD2 (Z.to_nat (nn - dn))
                (P0 / Bp (dn - 1)) (P0 mod Bp (dn - 1)) 0 HP0d HP0m ltac:(lia)) as HL.
  cbv zeta in HL. fold d1 d0 in HL.
  destruct (sb_loop (Z.to_nat (nn - dn)) dn d1 d0 (invert_pi1 d1 d0) D N
              (P0 / Bp (dn - 1)) (P0 mod Bp (dn - 1)) 0) as [[n1' T'] Q'].
  destruct HL as (Hn1' & HT' & HP' & ql & EQ & Hql & Eloop).
  rewrite Z2Nat.id in Hql, Eloop by lia. rewrite <- EP0 in Eloop.
  assert (0 <= n1' * Bp (dn - 1)) by (apply Z.mul_nonneg_nonneg; lia).
  split; [ | split; [ lia | split; [ lia | exact Hqh ] ] ].
  rewrite EN at 1. rewrite Etop.
  replace ((qh * D + P0) * Bp (nn - dn) + N mod Bp (nn - dn))
    with (qh * Bp (nn - dn) * D + (P0 * Bp (nn - dn) + N mod Bp (nn - dn))) by ring.
  rewrite Eloop. rewrite EQ. ring.
Qed.

(* consequently qh B^(nn-dn) + Q = N / D and R = N mod D *)
Corollary sb_div_qr_div_mod nn dn N D :
  3 <= dn -> dn <= nn -> 0 <= N < Bp nn -> Bp dn / 2 <= D < Bp dn ->
  let '(qh, Q, R) := sb_div_qr nn dn N D in
  qh * Bp (nn - dn) + Q = N / D /\ R = N mod D.
Proof.
  intros Hdn Hnn HN HD.
  pose proof (sb_div_qr_correct nn dn N D Hdn Hnn HN HD) as H.
  destruct (sb_div_qr nn dn N D) as [[qh Q] R]. destruct H as (EN & HR & _).
  split.
  - apply Z.div_unique with R; [ lia | ]. rewrite EN. ring.
  - apply Z.mod_unique with (qh * Bp (nn - dn) + Q); [ lia | ]. rewrite EN. ring.
Qed.

(* ------------------------------------------------------------------ *)
(* the base case of mpn_dc_div_qr_n                                     *)
(* ------------------------------------------------------------------ *)

(* mpn_sb_div_qr with nn = 2 m, dn = m is exact for every normalised divisor of m >= 3 limbs
   (ASSERT (dn > 2)): the hypothesis base_exact of DcDivProofs.v, with mmin = 3, for every
   threshold. *)
Theorem sb_base_exact thr : base_exact sb_basediv 3 thr.
Proof.
  intros m Nn Dd Hm HNn HD1 HD2. unfold sb_basediv.
  assert (HDh : Bp m / 2 <= Dd) by (apply Z.div_le_upper_bound; lia).
  pose proof (sb_div_qr_correct (2 * m) m Nn Dd ltac:(lia) ltac:(lia) HNn (conj HDh HD2)) as H.
  replace (2 * m - m) with m in H by lia.
  destruct (sb_div_qr (2 * m) m Nn Dd) as [[qh q] r].
  destruct H as (EN & Hr & _). split; assumption.
Qed.

(* mpn_dc_div_qr_n with mpn_sb_div_qr below the threshold: no hypothesis about the base
   case is left.  thr = DC_DIV_QR_THRESHOLD >= 6, n >= 6 (so that every block that reaches
   the schoolbook routine has at least 3 limbs), fuel bounds the recursion depth, lfuel >= 4
   the iterations of the correction loops. *)
Theorem dc_with_sb_correct thr fuel lfuel n N D :
  6 <= thr -> (4 <= lfuel)%nat -> 6 <= n -> n <= 2 ^ Z.of_nat fuel ->
  0 <= N < Bp (2 * n) -> Bp n / 2 <= D < Bp n ->
  let '(qh, Q, R) := dc_div_qr_n sb_basediv fuel lfuel thr n N D in
  N = (qh * Bp n + Q) * D + R /\ 0 <= R < D /\ 0 <= Q < Bp n /\ (qh = 0 \/ qh = 1).
Proof.
  intros Hthr Hlf Hn Hfuel HN HD.
  apply (dc_div_qr_n_correct sb_basediv 3 thr fuel lfuel n N D); try assumption; try lia.
  apply sb_base_exact.
Qed.

Corollary dc_with_sb_div_mod thr fuel lfuel n N D :
  6 <= thr -> (4 <= lfuel)%nat -> 6 <= n -> n <= 2 ^ Z.of_nat fuel ->
  0 <= N < Bp (2 * n) -> Bp n / 2 <= D < Bp n ->
  let '(qh, Q, R) := dc_div_qr_n sb_basediv fuel lfuel thr n N D in
  qh * Bp n + Q = N / D /\ R = N mod D.
Proof.
  intros Hthr Hlf Hn Hfuel HN HD.
  apply (dc_div_qr_n_div_mod sb_basediv 3 thr fuel lfuel n N D); try assumption; try lia.
  apply sb_base_exact.
Qed.

(* ------------------------------------------------------------------ *)
(* examples                                                             *)
(* ------------------------------------------------------------------ *)

Local Transparent Bp.

(* limbs, most significant first *)
Definition limbs3 (a b c : Z) : Z := (a * B + b) * B + c.
Definition limbs4 (a b c d : Z) : Z := limbs3 a b c * B + d.

Definition sb_expected (nn dn N D : Z) : Z * Z * Z :=
  (N / D / Bp (nn - dn), (N / D) mod Bp (nn - dn), N mod D).

(* dn = 3, nn = 6, ordinary path; the top three numerator limbs exceed D, so qh = 1 *)
Definition exD2 : Z := limbs3 (2 ^ 63 + 5) 77 12345.
Example ex_sb_generic :
  let N := limbs3 (2 ^ 63 + 5) 77 12346 * Bp 3 + limbs3 (B - 1) (B - 3) 9 in
  sb_div_qr 6 3 N exD2 = sb_expected 6 3 N exD2 /\ fst (fst (sb_div_qr 6 3 N exD2)) = 1.
Proof. vm_compute. split; reflexivity. Qed.

(* dn = 3, nn = 6: the first iteration starts with n1 = d1 and np[1] = d0 (the partial
   remainder is D - 1), so it takes the branch q = B - 1 *)
Example ex_sb_special :
  let N := limbs3 (2 ^ 63 + 5) 77 12344 * Bp 3 + limbs3 (B - 1) (B - 3) 9 in
  let d1 := 2 ^ 63 + 5 in let d0 := 77 in
  sb_div_qr 6 3 N exD2 = sb_expected 6 3 N exD2
  /\ exD2 / Bp 2 = d1 /\ (exD2 / Bp 1) mod B = d0
  /\ N / Bp 3 / Bp 2 = d1 /\ (N / Bp 3) mod Bp 2 / Bp 1 = d0            (* n1 = d1, np[1] = d0 *)
  /\ fst (fst (sb_step 3 d1 d0 (invert_pi1 d1 d0) exD2 (B - 1) d1 ((N / Bp 3) mod Bp 2)))
     = B - 1
  /\ (fst (fst (sb_div_qr 6 3 N exD2)), snd (fst (sb_div_qr 6 3 N exD2)) / Bp 2) = (0, B - 1).
Proof. vm_compute. repeat split; reflexivity. Qed.

(* dn = 3, nn = 6: D = <2^63, 0, B-1>, numerator top limbs <1, 0, 0 | 5>.  The 3-by-2 step
   gives q = 2 with remainder 0, the subtraction of q * (B - 1) from the low limb 5 borrows,
   sub_333 underflows (cy != 0), and the fix-up adds D back: the stored limb is 1. *)
Definition exD1 : Z := limbs3 (2 ^ 63) 0 (B - 1).
Example ex_sb_addback :
  let N := limbs3 1 0 0 * Bp 3 + limbs3 5 7 9 in
  let dinv := invert_pi1 (2 ^ 63) 0 in
  sb_div_qr 6 3 N exD1 = sb_expected 6 3 N exD1
  /\ udiv_qr_3by2 1 0 0 (2 ^ 63) 0 dinv = (2, 0, 0)
  /\ fst (fst (sb_step 3 (2 ^ 63) 0 dinv exD1 5 1 0)) = 1
  /\ snd (fst (sb_div_qr 6 3 N exD1)) / Bp 2 = 1.
Proof. vm_compute. repeat split; reflexivity. Qed.

(* dn = 4, nn = 5, D = B^4 - 1, N = D B - 1: one iteration, taking the q = B - 1 branch *)
Definition exD4 : Z := limbs4 (B - 1) (B - 1) (B - 1) (B - 1).
Example ex_sb_special_4 :
  let N := exD4 * B - 1 in
  sb_div_qr 5 4 N exD4 = sb_expected 5 4 N exD4
  /\ sb_div_qr 5 4 N exD4 = (0, B - 1, exD4 - 1)
  /\ sb_step 4 (B - 1) (B - 1) (invert_pi1 (B - 1) (B - 1)) exD4 (B - 1)
       (B - 1) (limbs3 (B - 1) (B - 1) (B - 2)) = (B - 1, B - 1, limbs3 (B - 1) (B - 1) (B - 2)).
Proof. vm_compute. repeat split; reflexivity. Qed.

(* dn = 4, nn = 5, the add-back path: D = <2^63, 0, B-1, B-1>, N = <1, 0, 0, 0, 5>;
   estimate 2, stored quotient limb 1 *)
Definition exD5 : Z := limbs4 (2 ^ 63) 0 (B - 1) (B - 1).
Example ex_sb_addback_4 :
  let N := limbs4 1 0 0 0 * B + 5 in
  sb_div_qr 5 4 N exD5 = sb_expected 5 4 N exD5
  /\ udiv_qr_3by2 1 0 0 (2 ^ 63) 0 (invert_pi1 (2 ^ 63) 0) = (2, 0, 0)
  /\ snd (fst (sb_div_qr 5 4 N exD5)) = 1.
Proof. vm_compute. repeat split; reflexivity. Qed.

(* dn = 4, nn = 5 and nn = dn: numerator all ones, qh = 1 *)
Example ex_sb_qh :
  sb_div_qr 5 4 (Bp 5 - 1) exD4 = sb_expected 5 4 (Bp 5 - 1) exD4
  /\ sb_div_qr 4 4 (Bp 4 - 2) exD4 = (0, 0, Bp 4 - 2)
  /\ sb_div_qr 4 4 (Bp 4 - 1) exD4 = (1, 0, 0).
Proof. vm_compute. repeat split; reflexivity. Qed.

(* the divide-and-conquer routine on top of the schoolbook model: n = 6, threshold 6, so
   both halves (3-limb divisors, 6-limb numerators) go to sb_div_qr *)
Example ex_dc_sb :
  let N := Bp 12 - 12345678901234567890123 in
  let D := Bp 6 - 2 ^ 300 - 2 ^ 100 - 1 in
  dc_div_qr_n sb_basediv 3 4 6 6 N D = (N / D / Bp 6, (N / D) mod Bp 6, N mod D).
Proof. vm_compute. reflexivity. Qed.

Print Assumptions sb_div_qr_correct.
Print Assumptions sb_base_exact.
Print Assumptions dc_with_sb_correct.
