(* SqrtProofs.v -- the as-coded model of mpn/generic/sqrtrem.c (SqrtDefs.v) returns exactly the
   integer square root and remainder: mpn_sqrtrem1, mpn_sqrtrem2, mpn_dc_sqrtrem, mpn_sqrtrem. *)
From Coq Require Import ZArith List Lia Bool Psatz.
From Mpir Require Import Word Limbs SqrtDefs.
Import ListNotations.
Local Open Scope Z_scope.
Local Open Scope bool_scope.

(* ------------------------------------------------------------------------------------------ *)
(* generalities                                                                                *)

Lemma sqrt_char s r x : 0 <= s -> 0 <= r <= 2 * s -> x = s * s + r -> Z.sqrt x = s.
Proof. intros Hs Hr Hx. apply Z.sqrt_unique. unfold Z.succ. nia. Qed.

Lemma sqrt_rem_bounds x : 0 <= x ->
  0 <= Z.sqrt x /\ 0 <= x - Z.sqrt x * Z.sqrt x <= 2 * Z.sqrt x.
Proof.
  intros Hx. pose proof (Z.sqrt_spec x Hx) as Hs. pose proof (Z.sqrt_nonneg x) as Hn.
  unfold Z.succ in Hs. nia.
Qed.

(* the arithmetic core of one step of Zimmermann's recursion over a base b (as in RootProofs.v) *)
Lemma dc_step_core b s' r' a1 a0 q u :
  0 < b -> b <= 2 * s' -> 0 <= r' <= 2 * s' -> 0 <= a1 < b -> 0 <= a0 < b ->
  r' * b + a1 = 2 * s' * q + u -> 0 <= u < 2 * s' ->
  0 <= q <= b
  /\ (s' * s' + r') * (b * b) + a1 * b + a0 = (s' * b + q) * (s' * b + q) + (u * b + a0 - q * q)
  /\ u * b + a0 - q * q <= 2 * (s' * b + q)
  /\ (u * b + a0 - q * q < 0 -> 1 <= s' * b + q /\ 0 <= u * b + a0 - q * q + 2 * (s' * b + q) - 1).
Proof.
  intros Hb Hbs Hr' Ha1 Ha0 Hdiv Hu.
  assert (Hq0 : 0 <= q) by nia.
  assert (Hqb : q <= b).
  { assert (H1 : 2 * s' * q < 2 * s' * (b + 1)) by nia.
    assert (H2 : q < b + 1) by nia. lia. }
  split; [lia|]. split.
  { replace ((s' * s' + r') * (b * b)) with (s' * s' * (b * b) + (r' * b) * b) by ring.
    assert (Hrb : r' * b = 2 * s' * q + u - a1) by lia. rewrite Hrb. ring. }
  split.
  { assert (H1 : u * b <= (2 * s' - 1) * b) by nia. nia. }
  intros Hneg.
  assert (Hq1 : 1 <= q) by nia.
  assert (Hqq : q * q <= b * b) by nia.
  assert (Hbb : b * b <= 2 * s' * b) by nia.
  assert (Hub : 0 <= u * b) by nia.
  split; nia.
Qed.

(* One full step: from (s', r') for the high part to (s, r) for the whole, with the correction.
   x' = s'^2 + r' is the high part, x = x' b^2 + a1 b + a0. *)
Lemma dc_step_sqrt b s' r' a1 a0 q u s r :
  0 < b -> b <= 2 * s' -> 0 <= r' <= 2 * s' -> 0 <= a1 < b -> 0 <= a0 < b ->
  r' * b + a1 = 2 * s' * q + u -> 0 <= u < 2 * s' ->
  (if u * b + a0 - q * q <? 0
   then s = s' * b + q - 1 /\ r = u * b + a0 - q * q + 2 * (s' * b + q) - 1
   else s = s' * b + q /\ r = u * b + a0 - q * q) ->
  0 <= s /\ 0 <= r <= 2 * s /\ (s' * s' + r') * (b * b) + a1 * b + a0 = s * s + r.
Proof.
  intros Hb Hbs Hr' Ha1 Ha0 Hdiv Hu Hsr.
  destruct (dc_step_core b s' r' a1 a0 q u Hb Hbs Hr' Ha1 Ha0 Hdiv Hu) as (Hq & Heq & Hle & Hneg).
  set (S := s' * b + q) in *. set (R := u * b + a0 - q * q) in *.
  assert (HS : 0 <= S) by (unfold S; nia).
  destruct (Z.ltb_spec R 0) as [Hlt|Hge].
  - destruct Hsr as [-> ->]. specialize (Hneg Hlt). destruct Hneg as [H1 H2].
    split; [lia|]. split; [lia|]. rewrite Heq. ring.
  - destruct Hsr as [-> ->]. split; [lia|]. split; [lia|]. rewrite Heq. ring.
Qed.

(* ------------------------------------------------------------------------------------------ *)
(* C scalars                                                                                   *)

Lemma B_2_64 : B = 2 ^ 64. Proof. rewrite B_val. reflexivity. Qed.

Lemma Bk_pos k : 0 <= k -> 0 < Bk k.
Proof. intros Hk. unfold Bk. apply Z.pow_pos_nonneg; lia. Qed.

Lemma Bk_add a b : 0 <= a -> 0 <= b -> Bk (a + b) = Bk a * Bk b.
Proof. intros Ha Hb. unfold Bk. rewrite <- Z.pow_add_r by lia. f_equal. lia. Qed.

Lemma Bk_0 : Bk 0 = 1. Proof. reflexivity. Qed.
Lemma Bk_1 : Bk 1 = B. Proof. rewrite B_val. reflexivity. Qed.

Lemma Bk_S k : 0 <= k -> Bk (k + 1) = Bk k * B.
Proof. intros Hk. rewrite Bk_add, Bk_1 by lia. reflexivity. Qed.

Lemma shl_spec x k : 0 <= k -> shl x k = (x * 2 ^ k) mod B.
Proof. intros Hk. unfold shl, wrap. rewrite Z.shiftl_mul_pow2 by lia. reflexivity. Qed.

Lemma shr_spec x k : 0 <= k -> shr x k = x / 2 ^ k.
Proof. intros Hk. unfold shr. apply Z.shiftr_div_pow2. lia. Qed.

Lemma shl_small x k : 0 <= k -> 0 <= x * 2 ^ k < B -> shl x k = x * 2 ^ k.
Proof. intros Hk Hx. rewrite shl_spec by lia. apply Z.mod_small. exact Hx. Qed.

Lemma sint_small z : - 2 ^ 31 <= z < 2 ^ 31 -> sint z = z.
Proof. intros Hz. unfold sint. rewrite Z.mod_small by lia. lia. Qed.

Lemma sint_wrap z : sint (wrap z) = sint z.
Proof.
  unfold sint, wrap. rewrite B_2_64. f_equal.
  change (2 ^ 64) with (2 ^ 32 * 2 ^ 32).
  rewrite <- (Zplus_mod_idemp_l (z mod (2 ^ 32 * 2 ^ 32))).
  rewrite Z.rem_mul_r by lia.
  rewrite (Z.mul_comm (2 ^ 32)), Z_mod_plus_full, Z.mod_mod by lia.
  rewrite Zplus_mod_idemp_l. reflexivity.
Qed.

(* `c op= limb expression` for int c: computed in mp_limb_t, converted back *)
Lemma sint_wrap_sub c x : - 2 ^ 31 <= c - x < 2 ^ 31 -> sint (wrap (wrap c - x)) = c - x.
Proof.
  intros Hr. rewrite sint_wrap.
  unfold wrap. rewrite <- (sint_wrap (c mod B - x)). unfold wrap.
  rewrite Zminus_mod_idemp_l. fold (wrap (c - x)). rewrite sint_wrap. apply sint_small. exact Hr.
Qed.

Lemma sint_wrap_add c x : - 2 ^ 31 <= c + x < 2 ^ 31 -> sint (wrap (wrap c + x)) = c + x.
Proof.
  intros Hr. rewrite sint_wrap.
  unfold wrap. rewrite <- (sint_wrap (c mod B + x)). unfold wrap.
  rewrite Zplus_mod_idemp_l. fold (wrap (c + x)). rewrite sint_wrap. apply sint_small. exact Hr.
Qed.

Lemma sint_mod_sub c x : - 2 ^ 31 <= c - x < 2 ^ 31 ->
  sint ((c mod 2 ^ 64 - x) mod 2 ^ 64) = c - x.
Proof. intros Hr. rewrite <- B_2_64. apply (sint_wrap_sub c x Hr). Qed.

Lemma sint_mod_add c x : - 2 ^ 31 <= c + x < 2 ^ 31 ->
  sint ((c mod 2 ^ 64 + x) mod 2 ^ 64) = c + x.
Proof. intros Hr. rewrite <- B_2_64. apply (sint_wrap_add c x Hr). Qed.

Lemma carry_range c r v M : 0 < M -> c * M + r = v -> 0 <= r < M -> 0 <= v < 2 * M -> 0 <= c <= 1.
Proof. intros HM He Hr Hv. nia. Qed.

Lemma carry_sign c r v M : 0 < M -> c * M + r = v -> 0 <= r < M -> (c < 0 <-> v < 0).
Proof. intros HM He Hr. split; intros H; nia. Qed.

Lemma mod_carry c r M : 0 <= r < M -> (c * M + r) mod M = r.
Proof. intros Hr. rewrite Z.add_comm, Z_mod_plus_full. apply Z.mod_small. exact Hr. Qed.

Lemma div_carry c r M : 0 <= r < M -> (c * M + r) / M = c.
Proof. intros Hr. rewrite Z_div_plus_full_l, Z.div_small by lia. lia. Qed.

Lemma land_mask x : 0 <= x < B -> Z.land x (B - 1) = x.
Proof.
  intros Hx. rewrite B_2_64 in *. change (2 ^ 64 - 1) with (Z.ones 64).
  rewrite Z.land_ones by lia. apply Z.mod_small. exact Hx.
Qed.

(* ------------------------------------------------------------------------------------------ *)
(* finite sweeps                                                                               *)

Fixpoint zrange_all (f : Z -> bool) (lo : Z) (n : nat) : bool :=
  match n with
  | O => true
  | S k => f lo && zrange_all f (lo + 1) k
  end.

Lemma zrange_all_spec f : forall n lo, zrange_all f lo n = true ->
  forall x, lo <= x < lo + Z.of_nat n -> f x = true.
Proof.
  induction n as [|k IH]; intros lo H x Hx.
  - simpl in Hx. lia.
  - cbn [zrange_all] in H. apply andb_true_iff in H. destruct H as [H0 H1].
    destruct (Z.eq_dec x lo) as [->|Hne]; [exact H0|].
    apply (IH (lo + 1) H1). lia.
Qed.

(* ------------------------------------------------------------------------------------------ *)
(* mpn_sqrtrem1                                                                                *)

(* the table step as a function of the 16 high bits x = np0 >> 48 *)
Definition init16 (x : Z) : Z * Z :=
  let q := x / 2 ^ 8 in
  let s := nth (Z.to_nat (q - 64)) approx_tab 0 in
  let r := (x - (s * s) mod 2 ^ 64) mod 2 ^ 64 in
  if (2 * s) mod 2 ^ 64 <? r
  then ((r - ((2 * s) mod 2 ^ 64 + 1) mod 2 ^ 64) mod 2 ^ 64, (s + 1) mod 2 ^ 64) else (r, s).

Definition init16_ok (x : Z) : bool :=
  let '(r, s) := init16 x in
  (128 <=? s) && (s <? 256) && (0 <=? r) && (r <=? 2 * s) && (x =? s * s + r).

Lemma init16_sweep : zrange_all init16_ok (2 ^ 14) (Z.to_nat (2 ^ 16 - 2 ^ 14)) = true.
Proof. vm_compute. reflexivity. Qed.

Lemma init16_spec x : 2 ^ 14 <= x < 2 ^ 16 ->
  let '(r, s) := init16 x in 128 <= s < 256 /\ 0 <= r <= 2 * s /\ x = s * s + r.
Proof.
  intros Hx.
  assert (H : init16_ok x = true).
  { apply (zrange_all_spec init16_ok _ _ init16_sweep). rewrite Z2Nat.id by lia. lia. }
  unfold init16_ok in H. destruct (init16 x) as [r s].
  rewrite !andb_true_iff in H. destruct H as ((((H1 & H2) & H3) & H4) & H5).
  apply Z.leb_le in H1, H3, H4. apply Z.ltb_lt in H2. apply Z.eqb_eq in H5. lia.
Qed.

Lemma sqrtrem1_init_spec a : 2 ^ 62 <= a < 2 ^ 64 ->
  exists s r, sqrtrem1_init a = ((a * 2 ^ 16) mod 2 ^ 64, s, r)
              /\ 128 <= s < 256 /\ 0 <= r <= 2 * s /\ a / 2 ^ 48 = s * s + r.
Proof.
  intros Ha.
  assert (Hx : 2 ^ 14 <= a / 2 ^ 48 < 2 ^ 16).
  { split; [apply Z.div_le_lower_bound|apply Z.div_lt_upper_bound]; lia. }
  pose proof (init16_spec (a / 2 ^ 48) Hx) as Hspec.
  assert (E : sqrtrem1_init a =
              let '(r, s) := init16 (a / 2 ^ 48) in ((a * 2 ^ 16) mod 2 ^ 64, s, r)).
  { unfold sqrtrem1_init, init16.
    assert (E0 : shl a 0 = a).
    { rewrite shl_small; rewrite ?B_2_64; lia. }
    rewrite E0. rewrite !shr_spec by lia. rewrite shl_spec by lia.
    unfold wrap. rewrite B_2_64.
    replace (a / 2 ^ (64 - 8)) with (a / 2 ^ 48 / 2 ^ 8)
      by (rewrite Z.div_div by lia; reflexivity).
    change (64 - 16) with 48. change (2 * 8) with 16.
    destruct (_ <? _); reflexivity. }
  rewrite E. destruct (init16 (a / 2 ^ 48)) as [r s].
  exists s, r. split; [reflexivity|]. exact Hspec.
Qed.

Lemma mod_add_back M x y : 0 <= y < M -> 0 <= x + y < M -> (x mod M + y) mod M = x + y.
Proof. intros Hy Hxy. rewrite Zplus_mod_idemp_l. apply Z.mod_small. exact Hxy. Qed.

Lemma sqrt_lower h t r : 0 <= t -> 0 <= h -> r <= 2 * t -> h * h <= t * t + r -> h <= t.
Proof.
  intros Ht Hh Hr Hx. destruct (Z_le_gt_dec h t) as [Hle|Hgt]; [exact Hle|exfalso].
  assert (H1 : t + 1 <= h) by lia. assert (H2 : (t + 1) * (t + 1) <= h * h) by nia. lia.
Qed.

Lemma sqrt_upper h t r : 0 <= t -> 0 <= h -> 0 <= r -> t * t + r < h * h -> t < h.
Proof. intros Ht Hh Hr Hx. nia. Qed.

Lemma step_bounds b hb s r x a1 a0 :
  2 * hb = b -> hb <= s < b -> 0 < hb -> 0 <= r <= 2 * s -> x = s * s + r ->
  0 <= a1 < b -> 0 <= a0 < b ->
  b * b * (b * b) <= 4 * (x * (b * b) + a1 * b + a0) /\ x * (b * b) + a1 * b + a0 < b * b * (b * b).
Proof.
  intros Hb Hs Hhb Hr Hx Ha1 Ha0.
  assert (H4 : b * b <= 4 * x) by nia.
  assert (Hxb : x + 1 <= b * b) by nia.
  assert (Hbb : 0 < b * b) by nia.
  split.
  - assert (b * b * (b * b) <= 4 * x * (b * b)) by (apply Z.mul_le_mono_nonneg_r; lia). nia.
  - assert ((x + 1) * (b * b) <= b * b * (b * b)) by (apply Z.mul_le_mono_nonneg_r; lia). nia.
Qed.

(* one loop iteration on the machine, for p = prec with 2 b^2 <= 2^64 where b = 2^p *)
Lemma sqrtrem1_step_spec p np0 s r x :
  p = 8 \/ p = 16 ->
  0 <= np0 < 2 ^ 64 ->
  2 ^ (p - 1) <= s < 2 ^ p -> 0 <= r <= 2 * s -> x = s * s + r ->
  exists s2 r2,
    sqrtrem1_step p (np0, s, r) = ((np0 * 2 ^ (2 * p)) mod 2 ^ 64, s2, r2)
    /\ 2 ^ (2 * p - 1) <= s2 < 2 ^ (2 * p) /\ 0 <= r2 <= 2 * s2
    /\ x * 2 ^ (2 * p) + np0 / 2 ^ (64 - 2 * p) = s2 * s2 + r2.
Proof.
  intros Hp Hnp Hs Hr Hx.
  set (b := 2 ^ p).
  assert (Hb : 256 <= b /\ 2 * b * b <= 2 ^ 33 /\ 2 ^ (p - 1) * 2 = b /\ 2 ^ (2 * p) = b * b
               /\ 2 ^ (64 - p) * b = 2 ^ 64 /\ 2 ^ (64 - 2 * p) * b = 2 ^ (64 - p)
               /\ 2 ^ (2 * p - 1) * 2 = b * b).
  { unfold b. destruct Hp as [-> | ->]; cbn; lia. }
  destruct Hb as (Hb1 & Hb2 & Hb3 & Hb4 & Hb5 & Hb6 & Hb7).
  assert (Hp0 : 0 <= p /\ 0 <= 64 - p /\ 0 <= 64 - 2 * p) by lia.
  set (a1 := np0 / 2 ^ (64 - p)).
  set (np1 := (np0 * b) mod 2 ^ 64).
  set (a0 := np1 / 2 ^ (64 - p)).
  assert (Ha1 : 0 <= a1 < b).
  { unfold a1. split; [apply Z.div_pos; lia|apply Z.div_lt_upper_bound; lia]. }
  assert (Hnp1 : 0 <= np1 < 2 ^ 64) by (unfold np1; apply Z.mod_pos_bound; lia).
  assert (Ha0 : 0 <= a0 < b).
  { unfold a0. split; [apply Z.div_pos; lia|apply Z.div_lt_upper_bound; lia]. }
  (* the bits *)
  assert (Hbits : np0 / 2 ^ (64 - 2 * p) = a1 * b + a0).
  { set (c1 := 2 ^ (64 - p)) in *. set (c2 := 2 ^ (64 - 2 * p)) in *.
    assert (Hc : 0 < c1 /\ 0 < c2) by nia. destruct Hc as [Hc1 Hc2].
    pose proof (Z.div_mod np0 c1 ltac:(lia)) as Hdm. fold a1 in Hdm.
    pose proof (Z.mod_pos_bound np0 c1 Hc1) as Hm. set (m := np0 mod c1) in *.
    assert (Enp1 : np1 = m * b).
    { unfold np1. replace (np0 * b) with (m * b + a1 * 2 ^ 64) by (rewrite Hdm, <- Hb5; ring).
      rewrite Z_mod_plus_full. apply Z.mod_small. nia. }
    assert (Ea0 : a0 = m / c2).
    { unfold a0. rewrite Enp1, <- Hb6. apply Z.div_mul_cancel_r; lia. }
    rewrite Ea0. replace np0 with (m + (a1 * b) * c2) by (transitivity (c1 * a1 + m); [rewrite <- Hb6; ring | symmetry; exact Hdm]).
    rewrite Z.div_add by lia. ring. }
  assert (Hnp2 : (np1 * b) mod 2 ^ 64 = (np0 * 2 ^ (2 * p)) mod 2 ^ 64).
  { unfold np1. rewrite Hb4. rewrite Z.mul_mod_idemp_l by lia. f_equal. ring. }
  (* the division *)
  set (r1 := r * b + a1).
  assert (Hr1 : 0 <= r1 < 2 ^ 64) by (unfold r1; nia).
  set (q := r1 / (2 * s)). set (u := r1 mod (2 * s)).
  assert (Hs0 : 0 < 2 * s) by lia.
  assert (Hdiv : r * b + a1 = 2 * s * q + u).
  { unfold q, u. fold r1. apply Z.div_mod. lia. }
  assert (Hu : 0 <= u < 2 * s) by (unfold u; apply Z.mod_pos_bound; lia).
  assert (Hbs : b <= 2 * s) by lia.
  destruct (dc_step_core b s r a1 a0 q u ltac:(lia) Hbs Hr Ha1 Ha0 Hdiv Hu) as (Hq & _).
  (* machine values *)
  unfold sqrtrem1_step.
  rewrite !shl_spec, !shr_spec by lia. unfold wrap. rewrite B_2_64. fold b.
  rewrite (Z.mod_small (r * b)) by nia.
  fold a1. rewrite (Z.mod_small (r * b + a1)) by (fold r1; lia). fold r1.
  rewrite (Z.mod_small (2 * s)) by lia.
  fold q. fold np1.
  assert (Eu : (r1 - (q * (2 * s)) mod 2 ^ 64) mod 2 ^ 64 = u).
  { rewrite (Z.mod_small (q * (2 * s))) by nia.
    replace (r1 - q * (2 * s)) with u by (unfold r1; lia). apply Z.mod_small. lia. }
  rewrite Eu.
  rewrite (Z.mod_small (s * b)) by nia.
  rewrite (Z.mod_small (s * b + q)) by nia.
  rewrite (Z.mod_small (u * b)) by nia.
  fold a0.
  rewrite (Z.mod_small (u * b + a0)) by nia.
  rewrite (Z.mod_small (q * q)) by nia.
  rewrite Hnp2.
  pose proof (dc_step_sqrt b s r a1 a0 q u) as Hstep.
  assert (Hhb : 2 * 2 ^ (p - 1) = b /\ 0 < 2 ^ (p - 1)) by lia.
  destruct (step_bounds b (2 ^ (p - 1)) s r x a1 a0 (proj1 Hhb) Hs (proj2 Hhb) Hr Hx Ha1 Ha0)
    as [Hxlo Hxhi].
  set (S1 := s * b + q) in *. set (R1 := u * b + a0 - q * q) in *.
  assert (HS1 : 0 <= S1 <= b * b) by (unfold S1; clear - Hs Hq Hb1; nia).
  set (h2 := 2 ^ (2 * p - 1)) in *.
  assert (Hh2 : h2 * h2 * 4 = b * b * (b * b)) by (rewrite <- Hb7; ring).
  destruct (Z.ltb_spec (u * b + a0) (q * q)) as [Hlt|Hge].
  - specialize (Hstep (S1 - 1) (R1 + 2 * S1 - 1) ltac:(lia) Hbs Hr Ha1 Ha0 Hdiv Hu).
    destruct (Z.ltb_spec R1 0) as [_|Hc]; [|unfold R1 in Hc; lia].
    specialize (Hstep (conj eq_refl eq_refl)). destruct Hstep as (Hs2 & Hr2 & Heq).
    exists (S1 - 1), (R1 + 2 * S1 - 1).
    split.
    { f_equal; [f_equal|].
      - apply Z.mod_small. lia.
      - rewrite (Z.mod_small (2 * S1)) by lia.
        rewrite (Z.mod_small (2 * S1 - 1)) by lia.
        rewrite mod_add_back by lia. ring. }
    rewrite Hb4, Hbits.
    assert (Hlow : h2 <= S1 - 1).
    { apply (sqrt_lower h2 (S1 - 1) (R1 + 2 * S1 - 1)); [lia|lia|lia|].
      rewrite <- Heq. rewrite <- Hx. lia. }
    split; [lia|]. split; [lia|]. rewrite <- Heq. rewrite Hx. ring.
  - specialize (Hstep S1 R1 ltac:(lia) Hbs Hr Ha1 Ha0 Hdiv Hu).
    destruct (Z.ltb_spec R1 0) as [Hc|_]; [unfold R1 in Hc; lia|].
    specialize (Hstep (conj eq_refl eq_refl)). destruct Hstep as (Hs2 & Hr2 & Heq).
    exists S1, R1.
    assert (Hsq : S1 < b * b).
    { apply (sqrt_upper (b * b) S1 R1); [lia|lia|lia|].
      rewrite <- Heq. rewrite <- Hx. lia. }
    split.
    { f_equal. apply Z.mod_small. unfold R1. lia. }
    rewrite Hb4, Hbits.
    assert (Hlow : h2 <= S1).
    { apply (sqrt_lower h2 S1 R1); [lia|lia|lia|].
      rewrite <- Heq. rewrite <- Hx. lia. }
    split; [lia|]. split; [lia|]. rewrite <- Heq. rewrite Hx. ring.
Qed.

(* Theorem (mpn_sqrtrem1): for every normalised limb a (a >= 2^62, the ASSERT of the C code)
   the model returns sp[0] = floor (sqrt a), rp[0] = a - sp[0]^2, return value (rp[0] != 0). *)
Theorem sqrtrem1_correct a : 2 ^ 62 <= a < 2 ^ 64 ->
  sqrtrem1 a = Some (Z.sqrt a, a - Z.sqrt a * Z.sqrt a,
                     if a - Z.sqrt a * Z.sqrt a =? 0 then 0 else 1).
Proof.
  intros Ha.
  destruct (sqrtrem1_init_spec a Ha) as (s0 & r0 & E0 & Hs0 & Hr0 & Hx0).
  unfold sqrtrem1. rewrite E0.
  set (np0 := (a * 2 ^ 16) mod 2 ^ 64).
  assert (Hnp0 : 0 <= np0 < 2 ^ 64) by (unfold np0; apply Z.mod_pos_bound; lia).
  destruct (sqrtrem1_step_spec 8 np0 s0 r0 (a / 2 ^ 48) (or_introl eq_refl) Hnp0
              ltac:(cbn; lia) Hr0 Hx0) as (s1 & r1 & E1 & Hs1 & Hr1 & Hx1).
  set (np1 := (np0 * 2 ^ (2 * 8)) mod 2 ^ 64) in *.
  assert (Hnp1 : 0 <= np1 < 2 ^ 64) by (unfold np1; apply Z.mod_pos_bound; lia).
  destruct (sqrtrem1_step_spec 16 np1 s1 r1 (s1 * s1 + r1) (or_intror eq_refl) Hnp1
              ltac:(cbn in *; lia) Hr1 eq_refl) as (s2 & r2 & E2 & Hs2 & Hr2 & Hx2).
  cbn [sqrtrem1_loop]. change (2 * 8 <? 64) with true. change (2 * (2 * 8) <? 64) with true.
  change (2 * (2 * (2 * 8)) <? 64) with false. cbv iota.
  change (2 * 8) with 16 at 1. rewrite E1. rewrite E2.
  (* the consumed bits are the whole limb *)
  assert (Hall : s2 * s2 + r2 = a).
  { rewrite <- Hx2. rewrite <- Hx1. unfold np1, np0. cbn in Hs2. clear - Ha.
    change (2 ^ (2 * 8)) with 65536. change (2 ^ (2 * 16)) with 4294967296.
    change (2 ^ (64 - 2 * 8)) with 281474976710656. change (2 ^ (64 - 2 * 16)) with 4294967296.
    change (2 ^ 48) with 281474976710656. change (2 ^ 16) with 65536.
    change (2 ^ 64) with 18446744073709551616 in *. change (2 ^ 62) with 4611686018427387904 in *.
    Z.div_mod_to_equations. lia. }
  assert (Hsq : Z.sqrt a = s2).
  { apply (sqrt_char s2 r2); [cbn in Hs2; lia | lia | lia]. }
  assert (Hs2' : 0 <= s2 < 2 ^ 32) by (cbn in Hs2; lia).
  rewrite Hsq. replace (a - s2 * s2) with r2 by lia.
  assert (Esh : forall y, shr y 0 = y) by (intros y; unfold shr; apply Z.shiftr_0_r).
  assert (Esl : shl s2 0 = s2).
  { unfold shl. rewrite Z.shiftl_0_r. apply wrap_small. rewrite B_2_64. lia. }
  assert (Ew0 : wrap 0 = 0) by (apply wrap_small; rewrite B_val; lia).
  rewrite !Esh, Esl, Z.sub_diag, Ew0, Z.mul_0_l, Ew0, Z.add_0_r.
  rewrite wrap_small by (rewrite B_2_64; lia). reflexivity.
Qed.

(* ------------------------------------------------------------------------------------------ *)
(* mpn_sqrtrem2                                                                                *)

Lemma sqrt_limb_bounds a : 2 ^ 62 <= a < 2 ^ 64 ->
  2 ^ 31 <= Z.sqrt a < 2 ^ 32 /\ 0 <= a - Z.sqrt a * Z.sqrt a <= 2 * Z.sqrt a.
Proof.
  intros Ha. pose proof (sqrt_rem_bounds a ltac:(lia)) as [H0 H1].
  split; [|exact H1]. split.
  - apply Z.sqrt_le_square; lia.
  - apply Z.sqrt_lt_square; lia.
Qed.

(* while (rp[0] >= sp[0]) { qhl++; rp[0] -= sp[0]; }  runs at most twice *)
Lemma sqrtrem2_loop_spec s r : 2 ^ 31 <= s < 2 ^ 32 -> 0 <= r <= 2 * s ->
  exists qhl rr, sqrtrem2_loop 3 s 0 r = Some (qhl, rr)
                 /\ 0 <= qhl <= 2 /\ 0 <= rr < s /\ r = qhl * s + rr.
Proof.
  intros Hs Hr. cbn [sqrtrem2_loop].
  assert (Hw : forall z, 0 <= z < 2 ^ 34 -> wrap z = z).
  { intros z Hz. apply wrap_small. rewrite B_2_64. lia. }
  destruct (Z.leb_spec s r) as [H1|H1].
  - rewrite (Hw (0 + 1)), (Hw (r - s)) by lia.
    destruct (Z.leb_spec s (r - s)) as [H2|H2].
    + rewrite (Hw (0 + 1 + 1)), (Hw (r - s - s)) by lia.
      destruct (Z.leb_spec s (r - s - s)) as [H3|H3]; [lia|].
      exists 2, (r - s - s). split; [reflexivity|]. lia.
    + exists 1, (r - s). split; [reflexivity|]. lia.
  - exists 0, r. split; [reflexivity|]. lia.
Qed.

(* Theorem (mpn_sqrtrem2): for every normalised two-limb operand x = np[1] B + np[0]
   (np[1] >= 2^62) the model returns sp[0] = floor (sqrt x) and the remainder x - sp[0]^2
   split as cc * B + rp[0] with cc the returned limb (0 or 1). *)
Theorem sqrtrem2_correct a1 a0 : 2 ^ 62 <= a1 < 2 ^ 64 -> 0 <= a0 < 2 ^ 64 ->
  let x := a1 * 2 ^ 64 + a0 in
  let S := Z.sqrt x in
  sqrtrem2 a1 a0 = Some ((x - S * S) / 2 ^ 64, S, (x - S * S) mod 2 ^ 64)
  /\ 2 ^ 63 <= S < 2 ^ 64 /\ 0 <= x - S * S <= 2 * S.
Proof.
  intros Ha1 Ha0 x S.
  pose proof (sqrt_limb_bounds a1 Ha1) as [Hs1 Hr1].
  set (s1 := Z.sqrt a1) in *. set (r1 := a1 - s1 * s1) in *.
  destruct (sqrtrem2_loop_spec s1 r1 Hs1 Hr1) as (qhl & rr & Eloop & Hqhl & Hrr & Er1).
  set (M := 2 ^ 64). set (b := 2 ^ 32).
  assert (HM : M = b * b) by reflexivity.
  assert (Hb : b = 2 * 2 ^ 31) by reflexivity.
  set (hb := 2 ^ 31) in *.
  assert (Hhb : 0 < hb) by reflexivity.
  set (ah := a0 / b). set (al := a0 mod b).
  assert (Hah : 0 <= ah < b).
  { unfold ah. split; [apply Z.div_pos; lia|apply Z.div_lt_upper_bound; lia]. }
  assert (Hal : 0 <= al < b) by (unfold al; apply Z.mod_pos_bound; lia).
  assert (Ea0 : a0 = ah * b + al).
  { unfold ah, al. rewrite (Z.mul_comm _ b). apply Z.div_mod. lia. }
  set (t := rr * b + ah).
  assert (Ht : 0 <= t < s1 * b) by (unfold t; nia).
  assert (Hs1b : s1 * b < M) by nia.
  set (q := t / (2 * s1)). set (u := t mod (2 * s1)).
  assert (Hdiv0 : t = 2 * s1 * q + u) by (unfold q, u; apply Z.div_mod; lia).
  assert (Hu : 0 <= u < 2 * s1) by (unfold u; apply Z.mod_pos_bound; lia).
  assert (Hq : 0 <= q < hb).
  { split; [unfold q; apply Z.div_pos; lia|]. unfold q. apply Z.div_lt_upper_bound; [lia|]. nia. }
  set (qb := qhl mod 2). set (qh := qhl / 2).
  assert (Hqhl2 : qhl = 2 * qh + qb /\ 0 <= qb < 2 /\ 0 <= qh <= 1).
  { unfold qb, qh. Z.div_mod_to_equations. lia. }
  destruct Hqhl2 as (Eqhl & Hqb & Hqh).
  set (q' := q + qb * hb).
  assert (Hq' : 0 <= q' < b) by (unfold q'; nia).
  assert (Hqq : 0 <= q' * q' < M) by (rewrite HM; clear - Hq'; nia).
  set (Q := qh * b + q').
  assert (Hdiv : r1 * b + ah = 2 * s1 * Q + u).
  { unfold Q, q'. rewrite Er1, Eqhl, Hb. unfold t in Hdiv0. rewrite Hb in Hdiv0. nia. }
  assert (Hbs : b <= 2 * s1) by lia.
  destruct (dc_step_core b s1 r1 ah al Q u ltac:(lia) Hbs Hr1 Hah Hal Hdiv Hu) as (HQ & _).
  assert (HQsq : Q * Q = q' * q' + qh * M).
  { assert (Hc : qh = 0 \/ (qh = 1 /\ q' = 0)) by (unfold Q in HQ; lia).
    destruct Hc as [Hc | [Hc1 Hc2]]; unfold Q; rewrite HM; [rewrite Hc|rewrite Hc1, Hc2]; ring. }
  set (Sp := s1 * b + Q).
  assert (HSp : 0 < Sp <= M) by (unfold Sp; nia).
  set (Rp := u * b + al - Q * Q).
  pose proof (dc_step_sqrt b s1 r1 ah al Q u) as Hstep.
  assert (Ex : x = (s1 * s1 + r1) * (b * b) + ah * b + al).
  { unfold x, r1. fold M. rewrite <- HM. lia. }
  assert (Hxhi : x < M * M).
  { unfold x. fold M. assert (a1 * M <= (M - 1) * M) by (apply Z.mul_le_mono_nonneg_r; lia). lia. }
  assert (Hxlo : 2 ^ 63 * 2 ^ 63 <= x) by (unfold x; lia).
  (* machine values *)
  unfold sqrtrem2.
  rewrite (sqrtrem1_correct a1 Ha1). fold s1. fold r1. rewrite Eloop.
  cbv zeta. unfold v_sub_1, v_add_1. change (Bk 1) with M.
  rewrite !shl_spec, !shr_spec by lia. unfold wrap. rewrite B_2_64. fold M. fold b.
  change (2 ^ 1) with 2. change (2 ^ (32 - 1)) with hb.
  change (Z.land qhl 1) with (Z.land qhl (Z.ones 1)). rewrite Z.land_ones by lia.
  change (2 ^ 1) with 2. fold qb. fold qh. fold ah.
  rewrite (Z.mod_small (rr * b) M) by nia.
  rewrite (Z.mod_small (rr * b + ah) M) by (fold t; lia). fold t.
  rewrite (Z.mod_small (2 * s1) M) by lia. fold q.
  assert (Eu : (t - (q * (2 * s1)) mod M) mod M = u).
  { rewrite (Z.mod_small (q * (2 * s1))) by nia.
    replace (t - q * (2 * s1)) with u by lia. apply Z.mod_small. lia. }
  rewrite Eu.
  rewrite (Z.mod_small (qb * hb) M) by nia.
  rewrite (Z.mod_small (q + qb * hb) M) by (fold q'; lia). fold q'.
  rewrite (Z.mod_small (s1 + qh) M) by lia.
  assert (Esp : (((s1 + qh) * b) mod M + q') mod M = Sp mod M).
  { rewrite Zplus_mod_idemp_l. f_equal. unfold Sp, Q. ring. }
  rewrite Esp.
  assert (Hub : 0 <= u / b <= 1).
  { split; [apply Z.div_pos; lia|]. assert (u / b < 2) by (apply Z.div_lt_upper_bound; lia). lia. }
  rewrite (sint_small (u / b)) by lia.
  assert (Emask : (1 * b) mod M - 1 = Z.ones 32) by reflexivity.
  rewrite Emask. rewrite (Z.mod_small (Z.ones 32) M) by (cbn; lia).
  rewrite (Z.land_ones a0 32) by lia. fold b. fold al.
  change (M - 1) with (Z.ones 64). rewrite Z.land_ones by lia. fold M.
  rewrite Z.mod_mod by lia.
  assert (Eub : (u * b) mod M = (u mod b) * b).
  { rewrite HM. rewrite Z.mul_mod_distr_r by lia. reflexivity. }
  rewrite Eub.
  pose proof (Z.mod_pos_bound u b ltac:(lia)) as Hum.
  pose proof (Z.div_mod u b ltac:(lia)) as Hudm.
  set (rp := u mod b * b + al).
  assert (Hrp : 0 <= rp < M) by (unfold rp; nia).
  rewrite (Z.mod_small rp M) by lia.
  assert (Hval0 : u / b * M + rp = u * b + al) by (unfold rp; rewrite HM; nia).
  rewrite (Z.mod_small (q' * q') M) by lia.
  set (bw := if rp <? q' * q' then 1 else 0).
  set (rp1 := (rp - q' * q') mod M).
  assert (Hrp1 : 0 <= rp1 < M) by (unfold rp1; apply Z.mod_pos_bound; lia).
  assert (Hbw : rp1 - bw * M = rp - q' * q' /\ 0 <= bw <= 1).
  { unfold bw, rp1. destruct (Z.ltb_spec rp (q' * q')) as [Hc|Hc].
    - split; [|lia]. rewrite <- (Z_mod_plus_full (rp - q' * q') 1 M).
      rewrite Z.mod_small by lia. lia.
    - split; [|lia]. rewrite Z.mod_small by lia. lia. }
  destruct Hbw as [Hbw Hbw01].
  rewrite (Z.mod_small (bw + qh) M) by lia.
  pose proof (sint_mod_sub (u / b) (bw + qh) ltac:(lia)) as Hsi. fold M in Hsi. rewrite Hsi. clear Hsi.
  set (cc1 := u / b - (bw + qh)).
  assert (Hval1 : cc1 * M + rp1 = Rp).
  { unfold cc1, Rp. rewrite HQsq. lia. }
  destruct (Z.ltb_spec cc1 0) as [Hneg|Hpos].
  - (* correction *)
    assert (HRneg : Rp < 0) by (apply (carry_sign cc1 rp1 Rp M); lia).
    specialize (Hstep (Sp - 1) (Rp + 2 * Sp - 1) ltac:(lia) Hbs Hr1 Hah Hal Hdiv Hu).
    fold Rp in Hstep. fold Sp in Hstep.
    destruct (Z.ltb_spec Rp 0) as [_|Hc]; [|lia].
    specialize (Hstep (conj eq_refl eq_refl)). destruct Hstep as (HS0 & HR0 & Heq).
    rewrite <- Ex in Heq.
    assert (ES : S = Sp - 1).
    { unfold S. apply (sqrt_char (Sp - 1) (Rp + 2 * Sp - 1)); [lia|lia|].
      rewrite Heq. ring. }
    (* first addition: + Sp *)
    set (cy1rp2 := if negb (Sp mod M =? 0) then ((rp1 + Sp mod M) / M, (rp1 + Sp mod M) mod M)
                   else (1, rp1)).
    assert (H2 : exists cy1 rp2, cy1rp2 = (cy1, rp2) /\ cy1 * M + rp2 = rp1 + Sp
                                 /\ 0 <= rp2 < M /\ 0 <= cy1 <= 1).
    { unfold cy1rp2. destruct (Z.eq_dec Sp M) as [HeqM|HneM].
      - rewrite HeqM, Z_mod_same_full. cbn [Z.eqb negb].
        exists 1, rp1. split; [reflexivity|]. lia.
      - rewrite (Z.mod_small Sp M) by lia.
        destruct (Z.eqb_spec Sp 0) as [Hz|Hnz]; [lia|]. cbn [negb].
        exists ((rp1 + Sp) / M), ((rp1 + Sp) mod M). split; [reflexivity|].
        pose proof (Z.div_mod (rp1 + Sp) M ltac:(lia)).
        pose proof (Z.mod_pos_bound (rp1 + Sp) M ltac:(lia)).
        assert (0 <= (rp1 + Sp) / M) by (apply Z.div_pos; lia).
        assert ((rp1 + Sp) / M < 2) by (apply Z.div_lt_upper_bound; lia).
        lia. }
    destruct H2 as (cy1 & rp2 & E2 & Hv2 & Hrp2 & Hcy1).
    fold cy1rp2. rewrite E2.
    pose proof (sint_mod_add cc1 cy1 ltac:(lia)) as Hsi. fold M in Hsi. rewrite Hsi. clear Hsi.
    (* --sp[0] *)
    assert (Esm : (Sp mod M - 1) mod M = Sp - 1).
    { rewrite Zminus_mod_idemp_l. apply Z.mod_small. lia. }
    rewrite Esm.
    pose proof (Z.div_mod (rp2 + (Sp - 1)) M ltac:(lia)) as Hdm3.
    pose proof (Z.mod_pos_bound (rp2 + (Sp - 1)) M ltac:(lia)) as Hm3.
    set (cy2 := (rp2 + (Sp - 1)) / M) in *. set (rp3 := (rp2 + (Sp - 1)) mod M) in *.
    assert (Hcy2 : 0 <= cy2 <= 1).
    { unfold cy2. split; [apply Z.div_pos; lia|].
      assert ((rp2 + (Sp - 1)) / M < 2) by (apply Z.div_lt_upper_bound; lia). lia. }
    pose proof (sint_mod_add (cc1 + cy1) cy2 ltac:(lia)) as Hsi. fold M in Hsi. rewrite Hsi. clear Hsi.
    assert (Hvalf : (cc1 + cy1 + cy2) * M + rp3 = Rp + 2 * Sp - 1) by lia.
    assert (Hccf : 0 <= cc1 + cy1 + cy2 <= 1)
      by (apply (carry_range _ rp3 (Rp + 2 * Sp - 1) M); lia).
    rewrite (Z.mod_small (cc1 + cy1 + cy2) M) by lia.
    replace (x - S * S) with (Rp + 2 * Sp - 1) by (rewrite ES, Heq; ring).
    rewrite <- Hvalf.
    rewrite div_carry, mod_carry by lia.
    split; [rewrite ES; reflexivity|].
    assert (HSlt : S < M).
    { apply (sqrt_upper M S (Rp + 2 * Sp - 1)); [lia|lia|lia|].
      rewrite ES, <- Heq. exact Hxhi. }
    assert (HSlo : 2 ^ 63 <= S).
    { apply (sqrt_lower (2 ^ 63) S (Rp + 2 * Sp - 1)); [lia|lia|lia|].
      rewrite ES, <- Heq. exact Hxlo. }
    fold M. lia.
  - assert (HRpos : 0 <= Rp).
    { destruct (Z_lt_le_dec Rp 0) as [Hc|Hc]; [|exact Hc].
      apply (carry_sign cc1 rp1 Rp M) in Hc; lia. }
    specialize (Hstep Sp Rp ltac:(lia) Hbs Hr1 Hah Hal Hdiv Hu).
    fold Rp in Hstep. fold Sp in Hstep.
    destruct (Z.ltb_spec Rp 0) as [Hc|_]; [lia|].
    specialize (Hstep (conj eq_refl eq_refl)). destruct Hstep as (HS0 & HR0 & Heq).
    rewrite <- Ex in Heq.
    assert (ES : S = Sp).
    { unfold S. apply (sqrt_char Sp Rp); [lia|lia|]. rewrite Heq. ring. }
    assert (HSlt : S < M).
    { apply (sqrt_upper M S Rp); [lia|lia|lia|].
      rewrite ES, <- Heq. exact Hxhi. }
    assert (HSlo : 2 ^ 63 <= S).
    { apply (sqrt_lower (2 ^ 63) S Rp); [lia|lia|lia|].
      rewrite ES, <- Heq. exact Hxlo. }
    assert (Hcc1 : 0 <= cc1 <= 1) by (apply (carry_range _ rp1 Rp M); lia).
    rewrite (Z.mod_small cc1 M) by lia.
    rewrite (Z.mod_small Sp M) by lia.
    replace (x - S * S) with Rp by (rewrite ES, Heq; ring).
    rewrite <- Hval1.
    rewrite div_carry, mod_carry by lia.
    split; [rewrite ES; reflexivity|]. fold M. lia.
Qed.

(* ------------------------------------------------------------------------------------------ *)
(* mpn_dc_sqrtrem                                                                              *)

Lemma Bk_half k : 1 <= k -> Bk k = 2 * (Bk (k - 1) * 2 ^ 63).
Proof.
  intros Hk. unfold Bk. replace (64 * k) with (1 + (64 * (k - 1) + 63)) by lia.
  rewrite (Z.pow_add_r 2 1), (Z.pow_add_r 2 (64 * (k - 1)) 63) by lia. reflexivity.
Qed.

Lemma land_pow63 t : 0 <= t < 2 ^ 63 -> Z.land t (2 ^ 63) = 0.
Proof.
  intros Ht. apply Z.bits_inj'. intros n Hn.
  rewrite Z.land_spec, Z.bits_0, Z.pow2_bits_eqb by lia.
  destruct (Z.eqb_spec 63 n) as [<-|Hne]; [|apply andb_false_r].
  rewrite andb_true_r. destruct (Z.eq_dec t 0) as [->|Hnz]; [apply Z.bits_0|].
  apply Z.bits_above_log2; [lia|]. apply Z.log2_lt_pow2; lia.
Qed.

Lemma lor_add_63 t e : 0 <= t < 2 ^ 63 -> e = 0 \/ e = 2 ^ 63 -> Z.lor t e = t + e.
Proof.
  intros Ht [-> | ->].
  - rewrite Z.lor_0_r. lia.
  - rewrite <- Z.lxor_lor by (apply land_pow63; exact Ht).
    symmetry. apply Z.add_nocarry_lxor. apply land_pow63. exact Ht.
Qed.

Lemma sub_mod_spec M a v : 0 < M -> 0 <= a < M -> 0 <= v < M ->
  (a - v) mod M - (if a <? v then 1 else 0) * M = a - v /\ 0 <= (a - v) mod M < M.
Proof.
  intros HM Ha Hv. split; [|apply Z.mod_pos_bound; lia].
  destruct (Z.ltb_spec a v) as [Hc|Hc].
  - rewrite <- (Z_mod_plus_full (a - v) 1 M). rewrite Z.mod_small by lia. lia.
  - rewrite Z.mod_small by lia. lia.
Qed.

Lemma add_mod_spec M a v : 0 < M -> 0 <= a < M -> 0 <= v < M ->
  (a + v) / M * M + (a + v) mod M = a + v /\ 0 <= (a + v) mod M < M /\ 0 <= (a + v) / M <= 1.
Proof.
  intros HM Ha Hv.
  pose proof (Z.div_mod (a + v) M ltac:(lia)). pose proof (Z.mod_pos_bound (a + v) M HM).
  assert (0 <= (a + v) / M) by (apply Z.div_pos; lia).
  assert ((a + v) / M < 2) by (apply Z.div_lt_upper_bound; lia). lia.
Qed.

Lemma split3 N b : 0 < b ->
  N = (N / (b * b)) * (b * b) + ((N / b) mod b) * b + N mod b.
Proof.
  intros Hb. rewrite <- Z.div_div by lia.
  pose proof (Z.div_mod N b ltac:(lia)) as E1.
  pose proof (Z.div_mod (N / b) b ltac:(lia)) as E2.
  rewrite E1 at 1. rewrite E2 at 1. ring.
Qed.

(* what a call of mpn_dc_sqrtrem (sp, np, n) on N = {np, 2n} delivers *)
Definition dc_post (n N : Z) (res : option (Z * Z * Z)) : Prop :=
  exists c S R, res = Some (c, S, R)
    /\ 0 <= S /\ 0 <= N - S * S <= 2 * S
    /\ c * Bk n + R = N - S * S /\ 0 <= R < Bk n /\ 0 <= c <= 1
    /\ S < Bk n /\ Bk n <= 2 * S.

Lemma dc_post_bounds n N S R : 1 <= n -> Bk (2 * n) <= 4 * N -> N < Bk (2 * n) ->
  0 <= S -> 0 <= R <= 2 * S -> N = S * S + R -> S < Bk n /\ Bk n <= 2 * S.
Proof.
  intros Hn Hlo Hhi HS HR HN.
  assert (E2 : Bk (2 * n) = Bk n * Bk n) by (rewrite <- Bk_add by lia; f_equal; lia).
  pose proof (Bk_pos n ltac:(lia)) as Hp.
  pose proof (Bk_half n Hn) as Hh. set (hB := Bk (n - 1) * 2 ^ 63) in *.
  assert (HhB : 0 < hB) by lia.
  split.
  - apply (sqrt_upper (Bk n) S R); [lia|lia|lia|]. rewrite <- HN, <- E2. exact Hhi.
  - assert (hB <= S); [|lia].
    apply (sqrt_lower hB S R); [lia|lia|lia|]. rewrite <- HN.
    rewrite E2, Hh in Hlo. clear - Hlo. nia.
Qed.

Lemma dc_base N : Bk 2 <= 4 * N -> N < Bk 2 ->
  dc_post 1 N (match sqrtrem2 (N / B) (N mod B) with
               | None => None
               | Some (cc, s, r) => let c := sint cc in Some (wrap c, s, r)
               end).
Proof.
  intros Hlo Hhi. change (Bk 2) with (2 ^ 64 * 2 ^ 64) in *.
  rewrite B_2_64.
  assert (Ha1 : 2 ^ 62 <= N / 2 ^ 64 < 2 ^ 64).
  { split; [apply Z.div_le_lower_bound; lia|apply Z.div_lt_upper_bound; lia]. }
  pose proof (Z.mod_pos_bound N (2 ^ 64) ltac:(lia)) as Ha0.
  pose proof (sqrtrem2_correct _ _ Ha1 Ha0) as Hc. cbv zeta in Hc.
  assert (EN : N / 2 ^ 64 * 2 ^ 64 + N mod 2 ^ 64 = N).
  { rewrite (Z.mul_comm _ (2 ^ 64)). symmetry. apply Z.div_mod. lia. }
  rewrite EN in Hc. destruct Hc as (E & HS & HR). rewrite E.
  set (S := Z.sqrt N) in *. set (R := N - S * S) in *.
  assert (Hcc : 0 <= R / 2 ^ 64 <= 1).
  { split; [apply Z.div_pos; lia|].
    assert (R / 2 ^ 64 < 2) by (apply Z.div_lt_upper_bound; lia). lia. }
  cbv zeta. rewrite sint_small by lia. rewrite wrap_small by (rewrite B_2_64; lia).
  exists (R / 2 ^ 64), S, (R mod 2 ^ 64).
  change (Bk 1) with (2 ^ 64).
  pose proof (Z.div_mod R (2 ^ 64) ltac:(lia)).
  pose proof (Z.mod_pos_bound R (2 ^ 64) ltac:(lia)).
  split; [reflexivity|]. fold R. lia.
Qed.

(* pure arithmetic of the correction-free part of one recursion step: the pair (c2, Rn)
   represents u b + A0 - Q^2 *)
Lemma dc_val_arith b Bh c1 Rdl A0 P W bw q' :
  W - bw * (b * b) = A0 + b * Rdl - P ->
  forall T' bw1 T, T' - bw1 * Bh = T - (q' + bw) ->
  (c1 - bw1) * (b * b * Bh) + (W + b * b * T')
  = (c1 * (b * Bh) + (Rdl + b * T)) * b + A0 - (P + q' * (b * b)).
Proof. intros HW T' bw1 T HT. nia. Qed.

Lemma dc_step n N q0 S1 R1 :
  2 <= n ->
  Bk (2 * n) <= 4 * N -> N < Bk (2 * n) ->
  let l := n / 2 in let h := n - l in
  let HI := N / Bk (2 * l) in
  0 <= S1 -> 0 <= HI - S1 * S1 <= 2 * S1 ->
  q0 * Bk h + R1 = HI - S1 * S1 -> 0 <= R1 < Bk h -> 0 <= q0 <= 1 ->
  S1 < Bk h -> Bk h <= 2 * S1 ->
  dc_post n N
   (let A0 := N mod Bk l in
    let A1 := (N / Bk l) mod Bk l in
    let q := q0 in
          let R1 := if negb (q =? 0) then snd (v_sub_n h R1 S1) else R1 in
          let '(qd, Ql, Rd) := v_intdivrem n h (A1 + Bk l * R1) S1 in
          let q := wrap (q + qd) in
          let c := sint (Z.land (Ql mod B) 1) in
          let Ql := v_rshift l Ql 1 in
          let Ql := Ql mod Bk (l - 1)
                    + Bk (l - 1) * Z.lor (Ql / Bk (l - 1)) (Z.land (shl q (64 - 1)) (B - 1)) in
          let q := shr q 1 in
          let '(c, Rd) := if negb (c =? 0)
                          then let '(cy, Rd') := v_add_n h Rd S1 in (sint cy, Rd')
                          else (c, Rd) in
          let P := v_sqr l Ql in
          let '(bw, W) := v_sub_n (2 * l) (A0 + Bk l * (Rd mod Bk l)) P in
          let b := sint (wrap (q + bw)) in
          let '(c, Rn) :=
            if l =? h then (sint (wrap (wrap c - wrap b)), W)
            else
              let '(bw1, T) := v_sub_1 1 (Rd / Bk l) (wrap b) in
              (sint (wrap (wrap c - bw1)), W + Bk (2 * l) * T) in
          let '(q, S1) := v_add_1 h S1 q in
          let Sn := Ql + Bk l * S1 in
          let '(c, Sn, Rn) :=
            if c <? 0 then
              let '(cy, Rn) := v_addmul_1 n Rn Sn 2 in
              let c := sint (wrap (wrap c + wrap (cy + wrap (2 * q)))) in
              let '(bw2, Rn) := v_sub_1 n Rn 1 in
              let c := sint (wrap (wrap c - bw2)) in
              let '(bw3, Sn) := v_sub_1 n Sn 1 in
              let q := wrap (q - bw3) in
              (c, Sn, Rn)
            else (c, Sn, Rn) in
          Some (wrap c, Sn, Rn)).
Proof.
  intros Hn Hlo Hhi l h HI HS1 Hr' Hq0R1 HR1 Hq0 HS1hi HS1lo.
  assert (Hl : 1 <= l /\ l <= h <= l + 1 /\ l + h = n).
  { unfold h, l. Z.div_mod_to_equations. lia. }
  destruct Hl as (Hl1 & Hlh & Hln).
  set (b := Bk l) in *. set (Bh := Bk h) in *.
  assert (Hb : 0 < b) by (apply Bk_pos; lia).
  assert (HBh : 0 < Bh) by (apply Bk_pos; lia).
  assert (Hb2 : Bk (2 * l) = b * b) by (unfold b; rewrite <- Bk_add by lia; f_equal; lia).
  assert (HBn : Bk n = b * Bh) by (unfold b, Bh; rewrite <- Bk_add by lia; f_equal; lia).
  assert (HB2n : Bk (2 * n) = Bh * Bh * (b * b)).
  { replace (2 * n) with (n + n) by lia. rewrite Bk_add, HBn by lia. ring. }
  assert (HBhb : Bh = b \/ (h = l + 1 /\ Bh = b * B)).
  { destruct (Z.eq_dec h l) as [E|E]; [left; unfold Bh, b; rewrite E; reflexivity|right].
    split; [lia|]. unfold Bh. replace h with (l + 1) by lia. apply Bk_S. lia. }
  pose proof (Bk_half l Hl1) as Hbhalf. fold b in Hbhalf.
  set (hb := Bk (l - 1) * 2 ^ 63) in *.
  assert (Hbl1 : 0 < Bk (l - 1)) by (apply Bk_pos; lia).
  assert (Hhb : 0 < hb) by (unfold hb; lia).
  assert (HBpos : 3 <= B) by (rewrite B_val; lia).
  assert (HbBh : b <= Bh) by (destruct HBhb as [E|[_ E]]; rewrite E; clear - Hb HBpos; nia).
  (* split of the operand *)
  set (A0 := N mod b). set (A1 := (N / b) mod b).
  assert (HN0 : 0 <= N) by (pose proof (Bk_pos (2 * n) ltac:(lia)); lia).
  pose proof (split3 N b Hb) as EN. rewrite <- Hb2 in EN. fold HI A0 A1 in EN.
  assert (HA0 : 0 <= A0 < b) by (apply Z.mod_pos_bound; lia).
  assert (HA1 : 0 <= A1 < b) by (apply Z.mod_pos_bound; lia).
  rewrite Hb2 in EN.
  set (r' := HI - S1 * S1) in *.
  (* step 1 *)
  set (R1' := r' - q0 * S1).
  assert (HR1' : 0 <= R1' < Bh).
  { unfold R1'. destruct (Z.eq_dec q0 0) as [E|E].
    - rewrite E in *. lia.
    - assert (Eq1 : q0 = 1) by lia. rewrite Eq1 in *. lia. }
  assert (E1 : (if negb (q0 =? 0) then snd (v_sub_n h R1 S1) else R1) = R1').
  { destruct (Z.eqb_spec q0 0) as [Hz|Hnz]; cbn [negb].
    - unfold R1'. rewrite Hz in *. lia.
    - assert (q0 = 1) by lia. subst q0. unfold v_sub_n. cbn [snd]. fold Bh.
      rewrite <- (Z_mod_plus_full (R1 - S1) 1 Bh). unfold R1' in *.
      rewrite Z.mod_small by lia. lia. }
  (* step 2: the division *)
  set (Nd := A1 + b * R1').
  assert (HNd : 0 <= Nd) by (unfold Nd; apply Z.add_nonneg_nonneg; [lia|apply Z.mul_nonneg_nonneg; lia]).
  assert (HS1pos : 0 < S1) by lia.
  set (Qd := Nd / S1). set (Rd := Nd mod S1).
  assert (HdivNd : Nd = S1 * Qd + Rd) by (apply Z.div_mod; lia).
  assert (HRd : 0 <= Rd < S1) by (apply Z.mod_pos_bound; lia).
  assert (HQd0 : 0 <= Qd) by (apply Z.div_pos; lia).
  set (Q2 := q0 * b + Qd).
  assert (HQ2 : r' * b + A1 = S1 * Q2 + Rd).
  { unfold Q2. replace (S1 * (q0 * b + Qd) + Rd) with (S1 * q0 * b + (S1 * Qd + Rd)) by ring.
    rewrite <- HdivNd. unfold Nd, R1'. ring. }
  set (par := Q2 mod 2). set (Q := Q2 / 2).
  assert (HQ2dm : Q2 = 2 * Q + par /\ 0 <= par < 2).
  { unfold Q, par. Z.div_mod_to_equations. lia. }
  destruct HQ2dm as [HQ2dm Hpar].
  set (u := Rd + par * S1).
  assert (Hdiv : r' * b + A1 = 2 * S1 * Q + u) by (unfold u; rewrite HQ2, HQ2dm; ring).
  assert (Hu : 0 <= u < 2 * S1).
  { unfold u. destruct (Z.eq_dec par 0) as [E|E]; [rewrite E|replace par with 1 by lia]; lia. }
  assert (Hbs : b <= 2 * S1) by lia.
  destruct (dc_step_core b S1 r' A1 A0 Q u Hb Hbs Hr' HA1 HA0 Hdiv Hu) as (HQ & _).
  assert (HQdb : 0 <= Qd / b <= 2).
  { split; [apply Z.div_pos; lia|].
    assert (Qd / b < 3); [|lia]. apply Z.div_lt_upper_bound; [lia|].
    unfold Q2 in HQ2dm. assert (0 <= q0 * b) by (apply Z.mul_nonneg_nonneg; lia). lia. }
  set (qd := Qd / b) in *. set (Ql := Qd mod b) in *.
  assert (HQl : 0 <= Ql < b) by (apply Z.mod_pos_bound; lia).
  assert (HQddm : Qd = b * qd + Ql) by (apply Z.div_mod; lia).
  set (qt := q0 + qd).
  assert (HQ2' : Q2 = qt * b + Ql) by (unfold Q2, qt; rewrite HQddm; ring).
  assert (Hqt : 0 <= qt <= 2).
  { unfold qt. split; [lia|]. fold qt. destruct (Z_le_gt_dec qt 2) as [Hc|Hc]; [exact Hc|exfalso].
    assert (3 * b <= qt * b) by (apply Z.mul_le_mono_nonneg_r; lia). lia. }
  (* step 3/4: halving the quotient *)
  set (Qh := Ql / 2).
  assert (Eparl : Ql mod 2 = par).
  { unfold par. rewrite HQ2', Hbhalf. replace (qt * (2 * hb) + Ql) with (Ql + (qt * hb) * 2) by ring.
    rewrite Z_mod_plus_full. reflexivity. }
  assert (HQldm : Ql = 2 * Qh + par).
  { unfold Qh. rewrite <- Eparl. apply Z.div_mod. lia. }
  assert (HQh : 0 <= Qh < hb) by lia.
  set (qtb := qt mod 2). set (q' := qt / 2).
  assert (Hqtdm : qt = 2 * q' + qtb /\ 0 <= qtb < 2 /\ 0 <= q' <= 1).
  { unfold qtb, q'. Z.div_mod_to_equations. lia. }
  destruct Hqtdm as (Hqtdm & Hqtb & Hq').
  set (Ql2 := Qh + qtb * hb).
  assert (HQl2 : 0 <= Ql2 < b).
  { unfold Ql2. destruct (Z.eq_dec qtb 0) as [E|E]; [rewrite E|replace qtb with 1 by lia]; lia. }
  assert (EQ : Q = q' * b + Ql2).
  { assert (2 * Q + par = 2 * (q' * b + Ql2) + par); [|lia].
    rewrite <- HQ2dm, HQ2', Hqtdm, HQldm. unfold Ql2. rewrite Hbhalf. ring. }
  assert (HQsq : Q * Q = Ql2 * Ql2 + q' * (b * b)).
  { assert (Hc : q' = 0 \/ (q' = 1 /\ Ql2 = 0)).
    { rewrite EQ in HQ. destruct (Z.eq_dec q' 0) as [E|E]; [left; exact E|right].
      assert (Eq1 : q' = 1) by lia. rewrite Eq1 in HQ. lia. }
    rewrite EQ. destruct Hc as [-> | [-> ->]]; ring. }
  (* machine: steps 1-4 *)
  cbv zeta. rewrite E1. fold Nd. unfold v_intdivrem.
  replace (n - h) with l by lia. fold b. fold Qd Rd qd Ql.
  rewrite (Z.mod_small qd B) by lia.
  rewrite (wrap_small (q0 + qd)) by (fold qt; lia). fold qt.
  assert (Ec0 : sint (Z.land (Ql mod B) 1) = par).
  { change 1 with (Z.ones 1) at 1. rewrite Z.land_ones by lia. change (2 ^ 1) with 2.
    rewrite <- Eparl. rewrite sint_small.
    - rewrite B_val. Z.div_mod_to_equations. lia.
    - pose proof (Z.mod_pos_bound (Ql mod B) 2 ltac:(lia)). lia. }
  rewrite Ec0.
  unfold v_rshift. change (2 ^ 1) with 2. fold Qh.
  assert (Etop : 0 <= Qh / Bk (l - 1) < 2 ^ 63).
  { split; [apply Z.div_pos; lia|]. apply Z.div_lt_upper_bound; [lia|]. unfold hb in HQh. lia. }
  assert (Ee : Z.land (shl qt (64 - 1)) (B - 1) = qtb * 2 ^ 63).
  { rewrite land_mask by (unfold shl; apply wrap_limb).
    rewrite shl_spec by lia. rewrite B_2_64. change (64 - 1) with 63.
    change (2 ^ 64) with (2 * 2 ^ 63). rewrite Z.mul_mod_distr_r by lia. reflexivity. }
  rewrite Ee.
  rewrite (lor_add_63 (Qh / Bk (l - 1)) (qtb * 2 ^ 63) Etop) by lia.
  assert (EQl2 : Qh mod Bk (l - 1) + Bk (l - 1) * (Qh / Bk (l - 1) + qtb * 2 ^ 63) = Ql2).
  { unfold Ql2, hb. pose proof (Z.div_mod Qh (Bk (l - 1)) ltac:(lia)). lia. }
  rewrite EQl2.
  rewrite shr_spec by lia. change (2 ^ 1) with 2. fold q'.
  (* step 5 *)
  set (c1Rd := if negb (par =? 0) then let '(cy, Rd') := v_add_n h Rd S1 in (sint cy, Rd')
               else (par, Rd)).
  assert (H5 : exists c1 Rd', c1Rd = (c1, Rd') /\ c1 * Bh + Rd' = u /\ 0 <= Rd' < Bh
                              /\ 0 <= c1 <= 1).
  { unfold c1Rd, u. destruct (Z.eqb_spec par 0) as [Hz|Hnz]; cbn [negb].
    - exists 0, Rd. rewrite Hz. split; [reflexivity|]. lia.
    - assert (par = 1) by lia. unfold v_add_n. fold Bh.
      destruct (add_mod_spec Bh Rd S1 HBh ltac:(lia) ltac:(lia)) as (Ha & Hb' & Hc').
      exists ((Rd + S1) / Bh), ((Rd + S1) mod Bh).
      rewrite sint_small by lia. split; [reflexivity|]. lia. }
  destruct H5 as (c1 & Rd' & E5 & Hc1Rd & HRd' & Hc1).
  fold c1Rd. rewrite E5.
  (* step 6 *)
  unfold v_sqr, v_sub_n. rewrite Hb2.
  set (Rdl := Rd' mod b). set (T := Rd' / b).
  assert (HRdl : 0 <= Rdl < b) by (apply Z.mod_pos_bound; lia).
  assert (HRd'dm : Rd' = b * T + Rdl) by (apply Z.div_mod; lia).
  assert (HT0 : 0 <= T) by (apply Z.div_pos; lia).
  set (P := Ql2 * Ql2).
  assert (HP : 0 <= P < b * b) by (unfold P; clear - HQl2; nia).
  assert (HX : 0 <= A0 + b * Rdl < b * b) by (clear - HA0 HRdl Hb; nia).
  assert (Hbb : 0 < b * b) by (apply Z.mul_pos_pos; lia).
  destruct (sub_mod_spec (b * b) (A0 + b * Rdl) P Hbb HX HP) as [HW HWr].
  set (bw := if A0 + b * Rdl <? P then 1 else 0) in *.
  assert (Hbw : 0 <= bw <= 1) by (unfold bw; destruct (A0 + b * Rdl <? P); lia).
  set (W := (A0 + b * Rdl - P) mod (b * b)) in *.
  rewrite (wrap_small (q' + bw)) by lia. rewrite (sint_small (q' + bw)) by lia.
  rewrite (wrap_small (q' + bw)) by lia.
  (* step 7 *)
  set (Rp := u * b + A0 - Q * Q).
  set (c2Rn := if l =? h then (sint (wrap (wrap c1 - (q' + bw))), W)
               else let '(bw1, T0) := v_sub_1 1 T (q' + bw) in
                    (sint (wrap (wrap c1 - bw1)), W + b * b * T0)).
  assert (H7 : exists c2 Rn, c2Rn = (c2, Rn) /\ c2 * (b * Bh) + Rn = Rp /\ 0 <= Rn < b * Bh
                             /\ -2 <= c2 <= 1).
  { unfold c2Rn. destruct (Z.eqb_spec l h) as [Elh|Nlh].
    - assert (EBh : Bh = b) by (unfold Bh, b; rewrite Elh; reflexivity).
      assert (ET : T = 0).
      { unfold T. apply Z.div_small. rewrite <- EBh. exact HRd'. }
      exists (c1 - (q' + bw)), W. rewrite sint_wrap_sub by lia.
      split; [reflexivity|]. split; [|rewrite EBh; lia].
      unfold Rp. rewrite HQsq. fold P. rewrite <- Hc1Rd, HRd'dm, ET, EBh.
      clear - HW. nia.
    - destruct HBhb as [EBh|[Eh EBh]].
      { exfalso. unfold Bh, b, Bk in EBh. apply Z.pow_inj_r in EBh; lia. }
      assert (HTB : 0 <= T < B).
      { split; [lia|]. unfold T. apply Z.div_lt_upper_bound; [lia|]. rewrite <- EBh. lia. }
      unfold v_sub_1. change (Bk 1) with (2 ^ 64). rewrite <- B_2_64.
      destruct (sub_mod_spec B T (q' + bw) ltac:(lia) HTB ltac:(lia)) as [HT' HT'r].
      set (bw1 := if T <? q' + bw then 1 else 0) in *.
      assert (Hbw1 : 0 <= bw1 <= 1) by (unfold bw1; destruct (T <? q' + bw); lia).
      set (T' := (T - (q' + bw)) mod B) in *.
      exists (c1 - bw1), (W + b * b * T'). rewrite sint_wrap_sub by lia.
      split; [reflexivity|]. split; [|split; [rewrite EBh; clear - HWr HT'r Hbb; nia|lia]].
      unfold Rp. rewrite HQsq. fold P. rewrite <- Hc1Rd, HRd'dm, EBh.
      pose proof (dc_val_arith b B c1 Rdl A0 P W bw q' HW T' bw1 T HT') as Hv.
      clear - Hv. lia. }
  destruct H7 as (c2 & Rn & E7 & Hval2 & HRn & Hc2).
  fold c2Rn. rewrite E7.
  (* step 8 *)
  unfold v_add_1. fold Bh.
  destruct (add_mod_spec Bh S1 q' HBh ltac:(lia) ltac:(lia)) as (Ha8 & Hb8 & Hc8).
  set (q2 := (S1 + q') / Bh) in *. set (S1' := (S1 + q') mod Bh) in *.
  set (Sn := Ql2 + b * S1').
  set (Sp := S1 * b + Q).
  assert (HSn : 0 <= Sn < b * Bh) by (unfold Sn; clear - HQl2 Hb8 Hb; nia).
  assert (HvalS : q2 * (b * Bh) + Sn = Sp).
  { unfold Sn, Sp. rewrite EQ. clear - Ha8. nia. }
  assert (HSp0 : 0 <= Sp) by (unfold Sp; apply Z.add_nonneg_nonneg; [apply Z.mul_nonneg_nonneg; lia|lia]).
  (* the final case split *)
  pose proof (dc_step_sqrt b S1 r' A1 A0 Q u) as Hstep. fold Rp in Hstep. fold Sp in Hstep.
  assert (ENr : N = (S1 * S1 + r') * (b * b) + A1 * b + A0) by (unfold r'; lia).
  assert (HBnpos : 0 < b * Bh) by (apply Z.mul_pos_pos; lia).
  destruct (Z.ltb_spec c2 0) as [Hneg|Hpos].
  - assert (HRneg : Rp < 0) by (apply (carry_sign c2 Rn Rp (b * Bh)); [exact HBnpos|exact Hval2|exact HRn|exact Hneg]).
    specialize (Hstep (Sp - 1) (Rp + 2 * Sp - 1) Hb Hbs Hr' HA1 HA0 Hdiv Hu).
    destruct (Z.ltb_spec Rp 0) as [_|Hc]; [|lia].
    specialize (Hstep (conj eq_refl eq_refl)). destruct Hstep as (HS0 & HR0 & Heq).
    rewrite <- ENr in Heq.
    destruct (dc_post_bounds n N (Sp - 1) (Rp + 2 * Sp - 1) ltac:(lia) Hlo Hhi HS0 HR0 Heq)
      as [HShi HSlo].
    rewrite HBn in HShi, HSlo.
    unfold v_addmul_1, v_sub_1. rewrite HBn.
    pose proof (Z.div_mod (Rn + Sn * 2) (b * Bh) ltac:(lia)) as Hdm9.
    pose proof (Z.mod_pos_bound (Rn + Sn * 2) (b * Bh) HBnpos) as Hm9.
    set (cy := (Rn + Sn * 2) / (b * Bh)) in *. set (Rn1 := (Rn + Sn * 2) mod (b * Bh)) in *.
    assert (Hcy : 0 <= cy <= 2).
    { unfold cy. split; [apply Z.div_pos; lia|].
      assert ((Rn + Sn * 2) / (b * Bh) < 3); [|lia]. apply Z.div_lt_upper_bound; [exact HBnpos|].
      clear - HRn HSn. lia. }
    rewrite (wrap_small (2 * q2)) by (clear - Hc8 HBpos; lia).
    rewrite (wrap_small (cy + 2 * q2)) by (clear - Hc8 Hcy HBpos; rewrite B_val; lia).
    rewrite (sint_wrap_add c2 (cy + 2 * q2)) by (clear - Hc8 Hcy Hc2; lia).
    destruct (sub_mod_spec (b * Bh) Rn1 1 HBnpos Hm9 ltac:(lia)) as [H10 H10r].
    set (bw2 := if Rn1 <? 1 then 1 else 0) in *.
    assert (Hbw2 : 0 <= bw2 <= 1) by (unfold bw2; destruct (Rn1 <? 1); lia).
    set (Rn2 := (Rn1 - 1) mod (b * Bh)) in *.
    rewrite (sint_wrap_sub (c2 + (cy + 2 * q2)) bw2) by (clear - Hc8 Hcy Hc2 Hbw2; lia).
    set (c4 := c2 + (cy + 2 * q2) - bw2).
    assert (Hval4 : c4 * (b * Bh) + Rn2 = Rp + 2 * Sp - 1).
    { unfold c4. rewrite <- Hval2, <- HvalS. clear - Hdm9 H10. lia. }
    assert (Hc4 : 0 <= c4 <= 1).
    { apply (carry_range c4 Rn2 (Rp + 2 * Sp - 1) (b * Bh));
        [exact HBnpos|exact Hval4|exact H10r|clear - HR0 HShi; lia]. }
    assert (ESn : (Sn - 1) mod (b * Bh) = Sp - 1).
    { rewrite <- HvalS. replace (q2 * (b * Bh) + Sn - 1) with (Sn - 1 + q2 * (b * Bh)) by ring.
      rewrite <- (Z_mod_plus_full (Sn - 1) q2 (b * Bh)).
      apply Z.mod_small. rewrite <- HvalS in HShi, HS0. clear - HShi HS0. lia. }
    rewrite ESn. rewrite (wrap_small c4) by (clear - Hc4 HBpos; lia).
    exists c4, (Sp - 1), Rn2. split; [reflexivity|].
    rewrite HBn. replace (N - (Sp - 1) * (Sp - 1)) with (Rp + 2 * Sp - 1) by (clear - Heq; lia).
    clear - HS0 HR0 Hval4 H10r Hc4 HShi HSlo. lia.
  - assert (HRpos : 0 <= Rp).
    { destruct (Z_lt_le_dec Rp 0) as [Hc|Hc]; [|exact Hc].
      apply (carry_sign c2 Rn Rp (b * Bh)) in Hc; lia. }
    specialize (Hstep Sp Rp Hb Hbs Hr' HA1 HA0 Hdiv Hu).
    destruct (Z.ltb_spec Rp 0) as [Hc|_]; [lia|].
    specialize (Hstep (conj eq_refl eq_refl)). destruct Hstep as (HS0 & HR0 & Heq).
    rewrite <- ENr in Heq.
    destruct (dc_post_bounds n N Sp Rp ltac:(lia) Hlo Hhi HS0 HR0 Heq) as [HShi HSlo].
    rewrite HBn in HShi, HSlo.
    assert (Hq2 : q2 = 0).
    { destruct (Z.eq_dec q2 0) as [E|E]; [exact E|exfalso].
      assert (Eq1 : q2 = 1) by lia. rewrite Eq1 in HvalS. lia. }
    assert (Hc2' : 0 <= c2 <= 1).
    { apply (carry_range c2 Rn Rp (b * Bh)); [exact HBnpos|exact Hval2|exact HRn|clear - HR0 HShi HRpos; lia]. }
    rewrite (wrap_small c2) by (clear - Hc2' HBpos; lia).
    exists c2, Sp, Rn. rewrite HBn.
    replace Sn with Sp by (rewrite <- HvalS, Hq2; ring).
    split; [reflexivity|]. replace (N - Sp * Sp) with Rp by (clear - Heq; lia).
    clear - HS0 HR0 Hval2 HRn Hc2' HShi HSlo. lia.
Qed.

Lemma dc_sqrtrem_post : forall fuel n N,
  1 <= n -> (Z.to_nat n <= fuel)%nat -> Bk (2 * n) <= 4 * N -> N < Bk (2 * n) ->
  dc_post n N (dc_sqrtrem fuel n N).
Proof.
  induction fuel as [|f IH]; intros n N Hn Hf Hlo Hhi.
  - exfalso. assert (0 < Z.to_nat n)%nat by (apply (Z2Nat.inj_lt 0 n); lia). lia.
  - unfold dc_sqrtrem; fold dc_sqrtrem.
    destruct (Z.eqb_spec n 1) as [E1|N1].
    + subst n. apply dc_base; assumption.
    + assert (Hn2 : 2 <= n) by lia.
      set (l := n / 2). set (h := n - l).
      assert (Hl : 1 <= l /\ l <= h <= l + 1 /\ l + h = n).
      { unfold h, l. Z.div_mod_to_equations. lia. }
      destruct Hl as (Hl1 & Hlh & Hln).
      set (HI := N / Bk (2 * l)).
      assert (Hsplit : Bk (2 * n) = Bk (2 * h) * Bk (2 * l)).
      { rewrite <- Bk_add by lia. f_equal. lia. }
      pose proof (Bk_pos (2 * l) ltac:(lia)) as Hp2l.
      assert (Hq4 : Bk (2 * h) = 4 * 2 ^ (128 * h - 2)).
      { unfold Bk. replace (64 * (2 * h)) with (2 + (128 * h - 2)) by lia.
        rewrite Z.pow_add_r by lia. reflexivity. }
      assert (HHIhi : HI < Bk (2 * h)).
      { unfold HI. apply Z.div_lt_upper_bound; [lia|]. rewrite Z.mul_comm, <- Hsplit. exact Hhi. }
      assert (HHIlo : Bk (2 * h) <= 4 * HI).
      { rewrite Hq4. assert (2 ^ (128 * h - 2) <= HI); [|lia].
        unfold HI. apply Z.div_le_lower_bound; [lia|].
        rewrite Hsplit, Hq4 in Hlo. lia. }
      assert (Hfh : (Z.to_nat h <= f)%nat).
      { assert (Z.to_nat h < Z.to_nat n)%nat by (apply Z2Nat.inj_lt; lia). lia. }
      destruct (IH h HI ltac:(lia) Hfh HHIlo HHIhi)
        as (q0 & S1 & R1 & E & HS1 & Hr' & Hval & HR1 & Hq0 & HS1hi & HS1lo).
      cbv zeta. fold l. fold h. fold HI. rewrite E.
      exact (dc_step n N q0 S1 R1 Hn2 Hlo Hhi HS1 Hr' Hval HR1 Hq0 HS1hi HS1lo).
Qed.

(* Theorem (mpn_dc_sqrtrem): for every n >= 1 and every normalised operand N = {np, 2n}
   (np[2n-1] >= B/4, i.e. B^(2n) <= 4 N) the model returns {sp, n} = floor (sqrt N), leaves
   the low n limbs of the remainder N - {sp,n}^2 in {np, n} and returns its high limb
   (0 or 1); any fuel >= n suffices (mpn_sqrtrem passes n). *)
Theorem dc_sqrtrem_correct n N fuel :
  1 <= n -> (Z.to_nat n <= fuel)%nat -> Bk (2 * n) <= 4 * N -> N < Bk (2 * n) ->
  let S := Z.sqrt N in
  dc_sqrtrem fuel n N = Some ((N - S * S) / Bk n, S, (N - S * S) mod Bk n)
  /\ S < Bk n /\ Bk n <= 2 * S /\ 0 <= N - S * S <= 2 * S /\ 0 <= (N - S * S) / Bk n <= 1.
Proof.
  intros Hn Hf Hlo Hhi S.
  destruct (dc_sqrtrem_post fuel n N Hn Hf Hlo Hhi)
    as (c & S' & R & E & HS' & HR' & Hval & HR & Hc & Hhi' & Hlo').
  assert (ES : S = S').
  { unfold S. apply (sqrt_char S' (N - S' * S')); [lia|lia|lia]. }
  rewrite ES, E, <- Hval. rewrite div_carry, mod_carry by lia.
  split; [reflexivity|]. lia.
Qed.

(* the hypotheses are satisfiable: a 6-limb operand (n = 3, one odd split) whose root needs
   the final correction *)
Example dc_sqrtrem_example :
  let N := (2 ^ 191 + 12345) * (2 ^ 191 + 12345) - 1 in
  (Bk 6 <=? 4 * N) && (N <? Bk 6) = true
  /\ dc_sqrtrem 3 3 N = Some (1, 2 ^ 191 + 12344, (2 * (2 ^ 191 + 12344)) mod Bk 3).
Proof. vm_compute. split; reflexivity. Qed.

Example sqrtrem2_example :
  sqrtrem2 (2 ^ 64 - 1) 5 = Some (1, 2 ^ 64 - 1, 4).
Proof. vm_compute. reflexivity. Qed.

Example sqrtrem1_example : sqrtrem1 (2 ^ 63 + 12345) = Some (3037000499, 5928539152, 1).
Proof. vm_compute. reflexivity. Qed.

(* the model of the top-level mpn_sqrtrem (SqrtDefs.mpn_sqrtrem, mpn_sqrtrem_limbs) is covered
   by the differential test against the C code (see the header of SqrtDefs.v); evaluated here
   on a 3-limb operand (odd size, shift 2c = 2, k = 33): root and remainder are exact *)
Example mpn_sqrtrem_example :
  let N := 2 ^ 189 + 987654321987654321 in
  match mpn_sqrtrem 3 N with
  | Some (s, r, rn) => (s =? Z.sqrt N) && (r =? N - Z.sqrt N * Z.sqrt N) && (rn =? 2)
  | None => false
  end = true.
Proof. vm_compute. reflexivity. Qed.
