(* Word.v — 64-bit limb arithmetic as used by MPIR's generic C code
   (GMP_NUMB_BITS = 64, no nails).  The wrap-around of unsigned C arithmetic is
   written explicitly as [wrap]; nothing is assumed away. *)
From Coq Require Import ZArith List Lia Bool.
Import ListNotations.
Local Open Scope Z_scope.

Definition B : Z := 2 ^ 64.
Definition wrap (x : Z) : Z := x mod B.
Definition limb (x : Z) : Prop := 0 <= x < B.
Definition b2z (b : bool) : Z := if b then 1 else 0.

(* longlong.h: umul_ppmm (w1, w0, u, v) — (w1,w0) = u*v *)
Definition umul_ppmm (u v : Z) : Z * Z := ((u * v) / B, (u * v) mod B).
(* add_ssaaaa (sh, sl, ah, al, bh, bl) *)
Definition add_ssaaaa (ah al bh bl : Z) : Z * Z :=
  let sl := wrap (al + bl) in
  let sh := wrap (ah + bh + b2z (sl <? al)) in (sh, sl).
(* sub_ddmmss (sh, sl, ah, al, bh, bl) *)
Definition sub_ddmmss (ah al bh bl : Z) : Z * Z :=
  let sl := wrap (al - bl) in
  let sh := wrap (ah - bh - b2z (al <? bl)) in (sh, sl).

(* count_leading_zeros of a non-zero limb: 63 - floor(log2 x) *)
Definition clz (x : Z) : Z := 63 - Z.log2 x.
(* count_trailing_zeros of a non-zero limb *)
Fixpoint ctz_pos (p : positive) : Z :=
  match p with xO q => 1 + ctz_pos q | _ => 0 end.
Definition ctz (x : Z) : Z := match x with Zpos p => ctz_pos p | _ => 0 end.

Lemma B_pos : 0 < B. Proof. reflexivity. Qed.
Lemma B_val : B = 18446744073709551616. Proof. reflexivity. Qed.
Global Opaque B.

Lemma wrap_limb x : limb (wrap x).
Proof. unfold limb, wrap. apply Z.mod_pos_bound. exact B_pos. Qed.

Lemma wrap_small x : 0 <= x < B -> wrap x = x.
Proof. intros H. unfold wrap. apply Z.mod_small. exact H. Qed.

Lemma wrap_add_carry a b :
  limb a -> limb b -> wrap (a + b) = a + b - B * b2z (wrap (a + b) <? a).
Proof.
  unfold limb, wrap. intros Ha Hb. pose proof B_pos.
  destruct (Z_lt_dec (a + b) B) as [Hlt|Hge].
  - rewrite Z.mod_small by lia.
    destruct (Z.ltb_spec (a + b) a); simpl; lia.
  - assert (E : (a + b) mod B = a + b - B).
    { symmetry. apply Z.mod_unique with (q := 1); lia. }
    rewrite E. destruct (Z.ltb_spec (a + b - B) a); simpl; lia.
Qed.

Lemma wrap_sub_borrow a b :
  limb a -> limb b -> wrap (a - b) = a - b + B * b2z (a <? b).
Proof.
  unfold limb, wrap. intros Ha Hb. pose proof B_pos.
  destruct (Z.ltb_spec a b); simpl.
  - symmetry. apply Z.mod_unique with (q := -1); lia.
  - rewrite Z.mod_small by lia. lia.
Qed.

Lemma umul_ppmm_spec u v :
  limb u -> limb v ->
  let '(h, l) := umul_ppmm u v in h * B + l = u * v /\ limb h /\ limb l.
Proof.
  unfold limb, umul_ppmm. intros Hu Hv. pose proof B_pos.
  pose proof (Z.div_mod (u * v) B ltac:(lia)).
  pose proof (Z.mod_pos_bound (u * v) B ltac:(lia)).
  assert (0 <= u * v) by nia.
  assert (u * v < B * B) by nia.
  assert (0 <= u * v / B) by (apply Z.div_pos; lia).
  assert (u * v / B < B) by (apply Z.div_lt_upper_bound; lia).
  repeat split; lia.
Qed.
