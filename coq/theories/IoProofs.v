(* IoProofs.v — proofs behind C17: mpz_export / mpz_import round trip, word count, nail bits,
   raw stream format, truncated streams. *)
From Coq Require Import ZArith List Bool Lia.
From Mpir Require Import Word IoDefs.
Import ListNotations.
Local Open Scope Z_scope.

(* ---------- digits_le / val_le ---------- *)

Lemma digits_le_S n k x : digits_le (S n) k x = x mod 2 ^ k :: digits_le n k (x / 2 ^ k).
Proof. reflexivity. Qed.

Lemma val_le_nil k : val_le k [] = 0.
Proof. reflexivity. Qed.

Lemma val_le_cons k d l : val_le k (d :: l) = d + 2 ^ k * val_le k l.
Proof. reflexivity. Qed.

Lemma digits_le_length n k x : length (digits_le n k x) = n.
Proof.
  revert x; induction n as [|n IH]; intros x.
  - reflexivity.
  - rewrite digits_le_S. cbn [length]. now rewrite IH.
Qed.

Lemma digits_le_bound n k x : 0 <= k -> Forall (fun d => 0 <= d < 2 ^ k) (digits_le n k x).
Proof.
  intros Hk. revert x; induction n as [|n IH]; intros x.
  - constructor.
  - rewrite digits_le_S. constructor.
    + apply Z.mod_pos_bound. apply Z.pow_pos_nonneg; lia.
    + apply IH.
Qed.

Lemma val_le_digits n k x : 0 < k -> val_le k (digits_le n k x) = x mod 2 ^ (k * Z.of_nat n).
Proof.
  intros Hk. revert x; induction n as [|n IH]; intros x.
  - cbn [digits_le]. rewrite val_le_nil.
    replace (k * Z.of_nat 0) with 0 by lia. rewrite Z.pow_0_r. now rewrite Z.mod_1_r.
  - rewrite digits_le_S, val_le_cons, IH.
    replace (k * Z.of_nat (S n)) with (k + k * Z.of_nat n) by lia.
    rewrite Z.pow_add_r by lia.
    assert (H1 : 0 < 2 ^ k) by (apply Z.pow_pos_nonneg; lia).
    assert (H2 : 0 < 2 ^ (k * Z.of_nat n)) by (apply Z.pow_pos_nonneg; lia).
    rewrite Z.rem_mul_r by lia. reflexivity.
Qed.

Lemma val_le_bound k l : 0 <= k -> Forall (fun d => 0 <= d < 2 ^ k) l ->
  0 <= val_le k l < 2 ^ (k * Z.of_nat (length l)).
Proof.
  intros Hk HF. induction HF as [|d l Hd HF IH].
  - rewrite val_le_nil. cbn [length]. replace (k * Z.of_nat 0) with 0 by lia.
    rewrite Z.pow_0_r. lia.
  - rewrite val_le_cons. cbn [length].
    replace (k * Z.of_nat (S (length l))) with (k + k * Z.of_nat (length l)) by lia.
    rewrite Z.pow_add_r by lia.
    assert (H1 : 0 < 2 ^ k) by (apply Z.pow_pos_nonneg; lia).
    set (P := 2 ^ k) in *. set (Q := 2 ^ (k * Z.of_nat (length l))) in *.
    set (v := val_le k l) in *. nia.
Qed.

Lemma digits_le_snoc n k x : 0 < k ->
  digits_le (S n) k x = digits_le n k x ++ [(x / 2 ^ (k * Z.of_nat n)) mod 2 ^ k].
Proof.
  intros Hk. revert x; induction n as [|n IH]; intros x.
  - rewrite digits_le_S. cbn [digits_le app].
    replace (k * Z.of_nat 0) with 0 by lia. rewrite Z.pow_0_r, Z.div_1_r. reflexivity.
  - rewrite digits_le_S. rewrite IH. rewrite (digits_le_S n k x).
    cbn [app]. f_equal. f_equal. f_equal. f_equal.
    replace (k * Z.of_nat (S n)) with (k + k * Z.of_nat n) by lia.
    rewrite Z.pow_add_r by lia.
    assert (H1 : 0 < 2 ^ k) by (apply Z.pow_pos_nonneg; lia).
    assert (H2 : 0 < 2 ^ (k * Z.of_nat n)) by (apply Z.pow_pos_nonneg; lia).
    rewrite Z.div_div by lia. reflexivity.
Qed.

(* ---------- list helpers ---------- *)

Lemma firstn_app_exact {A} (n : nat) (l1 l2 : list A) : length l1 = n -> firstn n (l1 ++ l2) = l1.
Proof.
  intros <-. rewrite firstn_app, Nat.sub_diag, firstn_all. cbn [firstn]. apply app_nil_r.
Qed.

Lemma skipn_app_exact {A} (n : nat) (l1 l2 : list A) : length l1 = n -> skipn n (l1 ++ l2) = l2.
Proof.
  intros <-. rewrite skipn_app, Nat.sub_diag, skipn_all. reflexivity.
Qed.

Lemma chunks_S_app fuel n l1 l2 : (0 < n)%nat -> length l1 = n ->
  chunks (S fuel) n (l1 ++ l2) = l1 :: chunks fuel n l2.
Proof.
  intros Hn Hl.
  destruct l1 as [|z l1]; [cbn [length] in Hl; lia|].
  cbn [chunks app]. change (z :: l1 ++ l2) with ((z :: l1) ++ l2).
  rewrite firstn_app_exact by exact Hl. rewrite skipn_app_exact by exact Hl. reflexivity.
Qed.

Lemma chunks_flat_map (f : Z -> list Z) n ws : (0 < n)%nat -> (forall w, length (f w) = n) ->
  chunks (length ws) n (flat_map f ws) = map f ws.
Proof.
  intros Hn Hf. induction ws as [|w ws IH].
  - reflexivity.
  - cbn [length flat_map map]. rewrite chunks_S_app by auto. now rewrite IH.
Qed.

Lemma flat_map_length_const (f : Z -> list Z) n ws : (forall w, length (f w) = n) ->
  length (flat_map f ws) = (length ws * n)%nat.
Proof.
  intros Hf. induction ws as [|w ws IH].
  - reflexivity.
  - cbn [flat_map length]. rewrite app_length, Hf, IH. lia.
Qed.

Lemma chunks_length_le fuel n l : (length (chunks fuel n l) <= fuel)%nat.
Proof.
  revert l; induction fuel as [|fuel IH]; intros l.
  - cbn. lia.
  - destruct l as [|z l]; cbn [chunks length]; [lia|].
    specialize (IH (skipn n (z :: l))). lia.
Qed.

Lemma Forall_rev' {A} (P : A -> Prop) l : Forall P l -> Forall P (rev l).
Proof.
  intros H. apply Forall_forall. intros a Ha. apply in_rev in Ha.
  rewrite Forall_forall in H. auto.
Qed.

Lemma Forall_firstn' {A} (P : A -> Prop) n l : Forall P l -> Forall P (firstn n l).
Proof.
  intros H. revert n. induction H as [|a l Ha H IH]; intros [|n]; cbn [firstn]; constructor; auto.
Qed.

Lemma Forall_skipn' {A} (P : A -> Prop) n l : Forall P l -> Forall P (skipn n l).
Proof.
  intros H. revert n. induction H as [|a l Ha H IH]; intros [|n]; cbn [skipn]; auto.
Qed.

(* ---------- export / import ---------- *)

Lemma word_bytes_length size e w : 0 <= size -> length (word_bytes size e w) = Z.to_nat size.
Proof.
  intros Hs. unfold word_bytes. cbv zeta.
  destruct (0 <? e); [rewrite rev_length|]; apply digits_le_length.
Qed.

Lemma word_bytes_bytes size e w : Forall (fun b => 0 <= b < 256) (word_bytes size e w).
Proof.
  unfold word_bytes. cbv zeta. change 256 with (2 ^ 8).
  destruct (0 <? e); [apply Forall_rev'|]; apply digits_le_bound; lia.
Qed.

Lemma bytes_word_word_bytes size e w : 0 <= size ->
  bytes_word e (word_bytes size e w) = w mod 2 ^ (8 * size).
Proof.
  intros Hs. unfold bytes_word, word_bytes. cbv zeta.
  destruct (0 <? e); [rewrite rev_involutive|];
    rewrite val_le_digits by lia; rewrite Z2Nat.id by lia; reflexivity.
Qed.

Lemma export_count_zero size nails : export_count 0 size nails = 0.
Proof. reflexivity. Qed.

Lemma export_count_bounds x size nails : x <> 0 -> 1 <= 8 * size - nails ->
  (export_count x size nails - 1) * (8 * size - nails) <= Z.log2 (Z.abs x)
    < export_count x size nails * (8 * size - nails).
Proof.
  intros Hx Hnb. unfold export_count.
  destruct (Z.eqb_spec x 0) as [E|_]; [contradiction|].
  set (nb := 8 * size - nails) in *. set (L := Z.log2 (Z.abs x)).
  pose proof (Z.div_mod (L + 1 + nb - 1) nb ltac:(lia)) as Hdm.
  pose proof (Z.mod_pos_bound (L + 1 + nb - 1) nb ltac:(lia)) as Hmb.
  set (q := (L + 1 + nb - 1) / nb) in *. set (r := (L + 1 + nb - 1) mod nb) in *.
  nia.
Qed.

Lemma export_count_nonneg x size nails : 1 <= 8 * size - nails -> 0 <= export_count x size nails.
Proof.
  intros Hnb. destruct (Z.eq_dec x 0) as [->|Hx].
  - rewrite export_count_zero. lia.
  - pose proof (export_count_bounds x size nails Hx Hnb) as [_ H].
    pose proof (Z.log2_nonneg (Z.abs x)). nia.
Qed.

Lemma abs_lt_pow_count x size nails : 1 <= 8 * size - nails ->
  Z.abs x < 2 ^ ((8 * size - nails) * export_count x size nails).
Proof.
  intros Hnb. destruct (Z.eq_dec x 0) as [->|Hx].
  - rewrite export_count_zero. replace ((8 * size - nails) * 0) with 0 by lia. cbn. lia.
  - pose proof (export_count_bounds x size nails Hx Hnb) as [_ H].
    assert (Ha : 0 < Z.abs x) by lia.
    pose proof (Z.log2_spec (Z.abs x) Ha) as [_ Hl].
    eapply Z.lt_le_trans; [exact Hl|].
    apply Z.pow_le_mono_r; lia.
Qed.

Lemma endian_norm endian : (endian = 1 \/ endian = 0 \/ endian = -1) ->
  (if endian =? 0 then -1 else endian) = 1 \/ (if endian =? 0 then -1 else endian) = -1.
Proof. intros [ -> | [ -> | -> ] ]; cbv; auto. Qed.

Lemma mpz_export_eq x size order endian nails :
  mpz_export x size order endian nails =
  (flat_map (word_bytes size (if endian =? 0 then -1 else endian))
     (if 0 <? order then rev (digits_le (Z.to_nat (export_count x size nails)) (8 * size - nails) (Z.abs x))
      else digits_le (Z.to_nat (export_count x size nails)) (8 * size - nails) (Z.abs x)),
   export_count x size nails).
Proof. reflexivity. Qed.

(* the exported words, in stream order *)
Definition export_words (x size order nails : Z) : list Z :=
  if 0 <? order then rev (digits_le (Z.to_nat (export_count x size nails)) (8 * size - nails) (Z.abs x))
  else digits_le (Z.to_nat (export_count x size nails)) (8 * size - nails) (Z.abs x).

Lemma export_words_length x size order nails :
  length (export_words x size order nails) = Z.to_nat (export_count x size nails).
Proof.
  unfold export_words. destruct (0 <? order); [rewrite rev_length|]; apply digits_le_length.
Qed.

Lemma export_words_bound x size order nails : 1 <= 8 * size - nails ->
  Forall (fun w => 0 <= w < 2 ^ (8 * size - nails)) (export_words x size order nails).
Proof.
  intros Hnb. unfold export_words.
  destruct (0 <? order); [apply Forall_rev'|]; apply digits_le_bound; lia.
Qed.

Lemma export_bytes_length ws size e : 0 <= size ->
  length (flat_map (word_bytes size e) ws) = (length ws * Z.to_nat size)%nat.
Proof.
  intros Hs. apply flat_map_length_const. intros w. apply word_bytes_length. exact Hs.
Qed.

Lemma export_chunks ws size e : 1 <= size ->
  chunks (length ws) (Z.to_nat size) (flat_map (word_bytes size e) ws) = map (word_bytes size e) ws.
Proof.
  intros Hs. apply chunks_flat_map.
  - lia.
  - intros w. apply word_bytes_length. lia.
Qed.

Lemma word_small size nails w : 1 <= size -> 0 <= nails < 8 * size ->
  0 <= w < 2 ^ (8 * size - nails) -> 0 <= w < 2 ^ (8 * size).
Proof.
  intros Hs Hn Hw. split; [lia|].
  eapply Z.lt_le_trans; [apply Hw|]. apply Z.pow_le_mono_r; lia.
Qed.

Lemma import_words ws size e nails :
  1 <= size -> 0 <= nails < 8 * size ->
  Forall (fun w => 0 <= w < 2 ^ (8 * size - nails)) ws ->
  map (fun c => bytes_word e c mod 2 ^ (8 * size - nails)) (map (word_bytes size e) ws) = ws.
Proof.
  intros Hs Hn HF. rewrite map_map.
  induction HF as [|w ws Hw HF IH].
  - reflexivity.
  - cbn [map]. rewrite IH. f_equal.
    rewrite bytes_word_word_bytes by lia.
    rewrite (Z.mod_small w (2 ^ (8 * size))) by (eapply word_small; eauto).
    apply Z.mod_small. exact Hw.
Qed.

Lemma import_export : forall x size order endian nails,
  1 <= size -> 0 <= nails < 8 * size -> (order = 1 \/ order = -1) -> (endian = 1 \/ endian = 0 \/ endian = -1) ->
  let '(bytes, count) := mpz_export x size order endian nails in
  mpz_import bytes count size order endian nails = Z.abs x.
Proof.
  intros x size order endian nails Hs Hn Ho He.
  rewrite mpz_export_eq.
  fold (export_words x size order nails).
  set (e := if endian =? 0 then -1 else endian).
  set (cnt := export_count x size nails).
  set (ws := export_words x size order nails).
  assert (Hnb : 1 <= 8 * size - nails) by lia.
  assert (Hcnt : 0 <= cnt) by (apply export_count_nonneg; exact Hnb).
  assert (Hlen : length ws = Z.to_nat cnt) by apply export_words_length.
  unfold mpz_import. cbv zeta. fold e.
  rewrite firstn_all2.
  2:{ rewrite export_bytes_length by lia. rewrite Hlen. rewrite Z2Nat.inj_mul by lia. lia. }
  rewrite <- Hlen. rewrite export_chunks by exact Hs.
  rewrite import_words; [|exact Hs|exact Hn|apply export_words_bound; exact Hnb].
  assert (Hws : (if 0 <? order then rev ws else ws)
                = digits_le (Z.to_nat cnt) (8 * size - nails) (Z.abs x)).
  { unfold ws, export_words. fold cnt. destruct (0 <? order); [apply rev_involutive|reflexivity]. }
  rewrite Hws. rewrite val_le_digits by lia. rewrite Z2Nat.id by exact Hcnt.
  apply Z.mod_small. split; [lia|]. apply abs_lt_pow_count. exact Hnb.
Qed.

Lemma export_count_spec : forall x size order endian nails,
  1 <= size -> 0 <= nails < 8 * size ->
  let '(bytes, count) := mpz_export x size order endian nails in
  Z.of_nat (length bytes) = count * size
  /\ Forall (fun b => 0 <= b < 256) bytes
  /\ (x = 0 -> count = 0)
  /\ (x <> 0 -> (count - 1) * (8 * size - nails) <= Z.log2 (Z.abs x) < count * (8 * size - nails)).
Proof.
  intros x size order endian nails Hs Hn.
  rewrite mpz_export_eq.
  fold (export_words x size order nails).
  set (e := if endian =? 0 then -1 else endian).
  set (cnt := export_count x size nails).
  set (ws := export_words x size order nails).
  assert (Hnb : 1 <= 8 * size - nails) by lia.
  assert (Hcnt : 0 <= cnt) by (apply export_count_nonneg; exact Hnb).
  assert (Hlen : length ws = Z.to_nat cnt) by apply export_words_length.
  split; [|split; [|split]].
  - rewrite export_bytes_length by lia. rewrite Hlen.
    rewrite Nat2Z.inj_mul. rewrite !Z2Nat.id by lia. reflexivity.
  - apply Forall_forall. intros b Hb. apply in_flat_map in Hb. destruct Hb as [w [_ Hb]].
    pose proof (word_bytes_bytes size e w) as HF. rewrite Forall_forall in HF. apply HF. exact Hb.
  - intros ->. apply export_count_zero.
  - intros Hx. apply export_count_bounds; assumption.
Qed.

Lemma export_nails_zero : forall x size order endian nails,
  1 <= size -> 0 <= nails < 8 * size -> (endian = 1 \/ endian = 0 \/ endian = -1) ->
  let '(bytes, count) := mpz_export x size order endian nails in
  Forall (fun w => 0 <= bytes_word (if endian =? 0 then -1 else endian) w < 2 ^ (8 * size - nails))
         (chunks (Z.to_nat count) (Z.to_nat size) bytes).
Proof.
  intros x size order endian nails Hs Hn He.
  rewrite mpz_export_eq.
  fold (export_words x size order nails).
  set (e := if endian =? 0 then -1 else endian).
  set (cnt := export_count x size nails).
  set (ws := export_words x size order nails).
  assert (Hnb : 1 <= 8 * size - nails) by lia.
  assert (Hlen : length ws = Z.to_nat cnt) by apply export_words_length.
  rewrite <- Hlen. rewrite export_chunks by exact Hs.
  pose proof (export_words_bound x size order nails Hnb) as HF. fold ws in HF.
  apply Forall_forall. intros c Hc. apply in_map_iff in Hc. destruct Hc as [w [<- Hw]].
  rewrite Forall_forall in HF. specialize (HF w Hw).
  rewrite bytes_word_word_bytes by lia.
  rewrite Z.mod_small by (eapply word_small; eauto). exact HF.
Qed.

Lemma import_range : forall bytes count size order endian nails,
  1 <= size -> 0 <= nails < 8 * size -> 0 <= count ->
  0 <= mpz_import bytes count size order endian nails < 2 ^ (count * (8 * size - nails)).
Proof.
  intros bytes count size order endian nails Hs Hn Hc.
  unfold mpz_import. cbv zeta.
  set (e := if endian =? 0 then -1 else endian).
  set (nb := 8 * size - nails).
  assert (Hnb : 1 <= nb) by (unfold nb; lia).
  set (cs := chunks (Z.to_nat count) (Z.to_nat size) (firstn (Z.to_nat (count * size)) bytes)).
  set (ws := map (fun c => bytes_word e c mod 2 ^ nb) cs).
  assert (HF : Forall (fun w => 0 <= w < 2 ^ nb) ws).
  { apply Forall_forall. intros w Hw. apply in_map_iff in Hw. destruct Hw as [c [<- _]].
    apply Z.mod_pos_bound. apply Z.pow_pos_nonneg; lia. }
  assert (Hl : (length ws <= Z.to_nat count)%nat).
  { unfold ws. rewrite map_length. apply chunks_length_le. }
  set (ws' := if 0 <? order then rev ws else ws).
  assert (HF' : Forall (fun w => 0 <= w < 2 ^ nb) ws').
  { unfold ws'. destruct (0 <? order); [apply Forall_rev'|]; exact HF. }
  assert (Hl' : (length ws' <= Z.to_nat count)%nat).
  { unfold ws'. destruct (0 <? order); [rewrite rev_length|]; exact Hl. }
  pose proof (val_le_bound nb ws' ltac:(lia) HF') as [H0 H1].
  split; [exact H0|].
  eapply Z.lt_le_trans; [exact H1|].
  apply Z.pow_le_mono_r; [lia|]. nia.
Qed.

(* ---------- raw format ---------- *)

Lemma be_bytes_length n x : length (be_bytes n x) = n.
Proof. unfold be_bytes. rewrite rev_length. apply digits_le_length. Qed.

Lemma be_bytes_bytes n x : Forall (fun b => 0 <= b < 256) (be_bytes n x).
Proof.
  unfold be_bytes. change 256 with (2 ^ 8). apply Forall_rev'. apply digits_le_bound. lia.
Qed.

Lemma val_be_bytes n x : val_le 8 (rev (be_bytes n x)) = x mod 2 ^ (8 * Z.of_nat n).
Proof. unfold be_bytes. rewrite rev_involutive. apply val_le_digits. lia. Qed.

Lemma nbytes_nonneg x : 0 <= nbytes x.
Proof.
  unfold nbytes. destruct (x =? 0); [lia|].
  pose proof (Z.log2_nonneg (Z.abs x)) as HL.
  pose proof (Z.div_pos (Z.log2 (Z.abs x)) 8 HL ltac:(lia)). lia.
Qed.

Lemma nbytes_zero : nbytes 0 = 0.
Proof. reflexivity. Qed.

Lemma nbytes_pos x : x <> 0 -> 1 <= nbytes x.
Proof.
  intros Hx. unfold nbytes. destruct (Z.eqb_spec x 0) as [E|_]; [contradiction|].
  pose proof (Z.log2_nonneg (Z.abs x)) as HL.
  pose proof (Z.div_pos (Z.log2 (Z.abs x)) 8 HL ltac:(lia)). lia.
Qed.

Lemma nbytes_bounds x : x <> 0 ->
  2 ^ (8 * (nbytes x - 1)) <= Z.abs x < 2 ^ (8 * nbytes x).
Proof.
  intros Hx. unfold nbytes. destruct (Z.eqb_spec x 0) as [E|_]; [contradiction|].
  assert (Ha : 0 < Z.abs x) by lia.
  pose proof (Z.log2_spec (Z.abs x) Ha) as [Hl1 Hl2].
  pose proof (Z.log2_nonneg (Z.abs x)) as HL.
  set (L := Z.log2 (Z.abs x)) in *.
  pose proof (Z.div_mod L 8 ltac:(lia)) as Hdm.
  pose proof (Z.mod_pos_bound L 8 ltac:(lia)) as Hmb.
  set (q := L / 8) in *. set (r := L mod 8) in *.
  assert (Hq : 0 <= q) by lia.
  split.
  - eapply Z.le_trans; [|exact Hl1]. apply Z.pow_le_mono_r; lia.
  - eapply Z.lt_le_trans; [exact Hl2|]. apply Z.pow_le_mono_r; lia.
Qed.

Lemma abs_lt_nbytes x : Z.abs x < 2 ^ (8 * nbytes x).
Proof.
  destruct (Z.eq_dec x 0) as [->|Hx].
  - rewrite nbytes_zero. cbn. lia.
  - apply nbytes_bounds. exact Hx.
Qed.

Lemma nbytes_small_gen x M : 0 < M -> Z.abs x < 2 ^ (8 * M) -> nbytes x <= M.
Proof.
  intros HM H. unfold nbytes. destruct (Z.eqb_spec x 0) as [E|Hx]; [lia|].
  assert (HL : Z.log2 (Z.abs x) < 8 * M) by (apply Z.log2_lt_pow2; lia).
  assert (Hq : Z.log2 (Z.abs x) / 8 < M) by (apply Z.div_lt_upper_bound; lia).
  lia.
Qed.

Lemma nbytes_small x : Z.abs x < 2 ^ (8 * (2 ^ 31 - 1)) -> nbytes x <= 2147483647.
Proof.
  intros H. exact (nbytes_small_gen x (2 ^ 31 - 1) eq_refl H).
Qed.

Definition hdr (x : Z) : Z := (if x <? 0 then - nbytes x else nbytes x) mod 2 ^ 32.

Lemma out_raw_eq x :
  out_raw x = be_bytes 4 (hdr x) ++ be_bytes (Z.to_nat (nbytes x)) (Z.abs x).
Proof. reflexivity. Qed.

Lemma hdr_range x : 0 <= hdr x < 2 ^ 32.
Proof. unfold hdr. apply Z.mod_pos_bound. reflexivity. Qed.

Lemma hdr_decode x : nbytes x <= 2147483647 ->
  (if hdr x <? 2 ^ 31 then hdr x else hdr x - 2 ^ 32) = (if x <? 0 then - nbytes x else nbytes x).
Proof.
  intros Hn. unfold hdr.
  pose proof (nbytes_nonneg x) as H0.
  change (2 ^ 32) with 4294967296. change (2 ^ 31) with 2147483648.
  destruct (Z.ltb_spec x 0) as [Hx|Hx].
  - pose proof (nbytes_pos x ltac:(lia)) as H1.
    assert (E : (- nbytes x) mod 4294967296 = 4294967296 - nbytes x).
    { symmetry. apply (Z.mod_unique _ _ (-1)); lia. }
    rewrite E. destruct (Z.ltb_spec (4294967296 - nbytes x) 2147483648); lia.
  - rewrite Z.mod_small by lia.
    destruct (Z.ltb_spec (nbytes x) 2147483648); lia.
Qed.

Lemma out_raw_length x : length (out_raw x) = (4 + Z.to_nat (nbytes x))%nat.
Proof. rewrite out_raw_eq, app_length, !be_bytes_length. reflexivity. Qed.

Lemma val_hdr_bytes x : val_le 8 (rev (be_bytes 4 (hdr x))) = hdr x.
Proof.
  rewrite val_be_bytes. change (8 * Z.of_nat 4) with 32.
  apply Z.mod_small. apply hdr_range.
Qed.

(* reading a stream whose first four bytes are the header of x *)
Lemma inp_raw_hdr x s : nbytes x <= 2147483647 ->
  (4 <= length s)%nat -> firstn 4 s = be_bytes 4 (hdr x) ->
  inp_raw s =
    if Z.of_nat (length (firstn (Z.to_nat (nbytes x)) (skipn 4 s))) <? nbytes x then (0, 0)
    else (4 + nbytes x,
          if x <? 0 then - val_le 8 (rev (firstn (Z.to_nat (nbytes x)) (skipn 4 s)))
          else val_le 8 (rev (firstn (Z.to_nat (nbytes x)) (skipn 4 s)))).
Proof.
  intros Hn Hlen Hf. unfold inp_raw.
  destruct (Nat.ltb_spec (length s) 4) as [Hc|_]; [lia|].
  cbv zeta. rewrite Hf, val_hdr_bytes, (hdr_decode x Hn).
  pose proof (nbytes_nonneg x) as H0.
  assert (Ea : Z.abs (if x <? 0 then - nbytes x else nbytes x) = nbytes x)
    by (destruct (x <? 0); lia).
  rewrite Ea.
  assert (Es : ((if x <? 0 then - nbytes x else nbytes x) <? 0) = (x <? 0)).
  { destruct (Z.ltb_spec x 0) as [Hx|Hx].
    - pose proof (nbytes_pos x ltac:(lia)). apply Z.ltb_lt. lia.
    - apply Z.ltb_ge. lia. }
  rewrite Es. reflexivity.
Qed.

Lemma top_byte_pos x : x <> 0 -> 0 < nth 0 (be_bytes (Z.to_nat (nbytes x)) (Z.abs x)) 0.
Proof.
  intros Hx. pose proof (nbytes_pos x Hx) as H1. pose proof (nbytes_bounds x Hx) as [Hlo Hhi].
  set (nb := nbytes x) in *.
  assert (En : Z.to_nat nb = S (Z.to_nat (nb - 1))).
  { rewrite <- Z2Nat.inj_succ by lia. f_equal. lia. }
  rewrite En. unfold be_bytes. rewrite digits_le_snoc by lia.
  rewrite rev_app_distr. cbn [rev app nth].
  rewrite Z2Nat.id by lia.
  set (P := 2 ^ (8 * (nb - 1))) in *.
  assert (HP : 0 < P) by (apply Z.pow_pos_nonneg; lia).
  assert (HQ : 2 ^ (8 * nb) = P * 2 ^ 8).
  { unfold P. rewrite <- Z.pow_add_r by lia. f_equal. lia. }
  assert (Hd1 : 1 <= Z.abs x / P).
  { apply Z.div_le_lower_bound; lia. }
  assert (Hd2 : Z.abs x / P < 2 ^ 8).
  { apply Z.div_lt_upper_bound; [lia|]. rewrite <- HQ. exact Hhi. }
  rewrite Z.mod_small by lia. lia.
Qed.

Lemma out_raw_format : forall x, Z.abs x < 2 ^ (8 * (2 ^ 31 - 1)) ->
  let s := out_raw x in
  Z.of_nat (length s) = 4 + nbytes x
  /\ val_le 8 (rev (firstn 4 s)) = (if x <? 0 then 2 ^ 32 - nbytes x else nbytes x) mod 2 ^ 32
  /\ val_le 8 (rev (skipn 4 s)) = Z.abs x
  /\ (x <> 0 -> 0 < nth 4 s 0)
  /\ Forall (fun b => 0 <= b < 256) s.
Proof.
  intros x H. pose proof (nbytes_small x H) as Hn. clear H.
  pose proof (nbytes_nonneg x) as H0.
  cbv zeta. split; [|split; [|split; [|split]]].
  - rewrite out_raw_length. rewrite Nat2Z.inj_add. rewrite Z2Nat.id by lia. reflexivity.
  - rewrite out_raw_eq. rewrite firstn_app_exact by apply be_bytes_length.
    rewrite val_hdr_bytes. unfold hdr.
    destruct (x <? 0); [|reflexivity].
    change (2 ^ 32) with 4294967296.
    replace (4294967296 - nbytes x) with (- nbytes x + 1 * 4294967296) by lia.
    rewrite Z.mod_add by lia. reflexivity.
  - rewrite out_raw_eq. rewrite skipn_app_exact by apply be_bytes_length.
    rewrite val_be_bytes. rewrite Z2Nat.id by lia.
    apply Z.mod_small. split; [lia|]. apply abs_lt_nbytes.
  - intros Hx. rewrite out_raw_eq.
    rewrite app_nth2 by (rewrite be_bytes_length; lia).
    rewrite be_bytes_length. change (4 - 4)%nat with 0%nat.
    apply top_byte_pos. exact Hx.
  - rewrite out_raw_eq. apply Forall_app. split; apply be_bytes_bytes.
Qed.

Lemma raw_roundtrip : forall x rest, Z.abs x < 2 ^ (8 * (2 ^ 31 - 1)) ->
  inp_raw (out_raw x ++ rest) = (Z.of_nat (length (out_raw x)), x).
Proof.
  intros x rest H. pose proof (nbytes_small x H) as Hn. clear H.
  pose proof (nbytes_nonneg x) as H0.
  rewrite out_raw_length. rewrite out_raw_eq. rewrite <- app_assoc.
  rewrite (inp_raw_hdr x).
  - rewrite skipn_app_exact by apply be_bytes_length.
    rewrite firstn_app_exact by apply be_bytes_length.
    rewrite be_bytes_length. rewrite Z2Nat.id by lia. rewrite Z.ltb_irrefl.
    rewrite val_be_bytes. rewrite Z2Nat.id by lia.
    rewrite Z.mod_small by (split; [lia|apply abs_lt_nbytes]).
    rewrite Nat2Z.inj_add. rewrite Z2Nat.id by lia.
    f_equal. destruct (Z.ltb_spec x 0); lia.
  - exact Hn.
  - rewrite app_length, be_bytes_length. lia.
  - apply firstn_app_exact. apply be_bytes_length.
Qed.

Lemma raw_truncated : forall x (k : nat), Z.abs x < 2 ^ (8 * (2 ^ 31 - 1)) ->
  (k < length (out_raw x))%nat -> fst (inp_raw (firstn k (out_raw x))) = 0.
Proof.
  intros x k H Hk. pose proof (nbytes_small x H) as Hn. clear H.
  pose proof (nbytes_nonneg x) as H0.
  pose proof (out_raw_length x) as Hlen.
  assert (Hkl : length (firstn k (out_raw x)) = k).
  { rewrite firstn_length. lia. }
  destruct (Nat.lt_ge_cases k 4) as [Hk4|Hk4].
  - unfold inp_raw. rewrite Hkl.
    destruct (Nat.ltb_spec k 4) as [_|Hc]; [reflexivity|lia].
  - rewrite (inp_raw_hdr x).
    + set (data := firstn (Z.to_nat (nbytes x)) (skipn 4 (firstn k (out_raw x)))).
      assert (Hd : (length data <= k - 4)%nat).
      { unfold data. rewrite firstn_length, skipn_length, Hkl. lia. }
      destruct (Z.ltb_spec (Z.of_nat (length data)) (nbytes x)) as [_|Hc]; [reflexivity|].
      exfalso. lia.
    + exact Hn.
    + lia.
    + rewrite firstn_firstn. replace (Init.Nat.min 4 k) with 4%nat by lia.
      rewrite out_raw_eq. apply firstn_app_exact. apply be_bytes_length.
Qed.

Lemma raw_total : forall s, Forall (fun b => 0 <= b < 256) s ->
  let '(n, v) := inp_raw s in
  n = 0 \/ (4 <= n <= Z.of_nat (length s) /\ Z.abs v < 2 ^ (8 * (n - 4))).
Proof.
  intros s HF. unfold inp_raw.
  destruct (Nat.ltb_spec (length s) 4) as [Hc|Hlen]; [left; reflexivity|].
  cbv zeta.
  set (c := val_le 8 (rev (firstn 4 s))).
  set (csize := if c <? 2 ^ 31 then c else c - 2 ^ 32).
  set (n := Z.abs csize).
  set (data := firstn (Z.to_nat n) (skipn 4 s)).
  assert (Hn : 0 <= n) by (unfold n; lia).
  destruct (Z.ltb_spec (Z.of_nat (length data)) n) as [Hs|Hs]; [left; reflexivity|].
  right.
  assert (Hd1 : (length data <= Z.to_nat n)%nat) by (unfold data; apply firstn_le_length).
  assert (Hd2 : (length data <= length s - 4)%nat).
  { unfold data. rewrite firstn_length, skipn_length. lia. }
  assert (Hd : Z.of_nat (length data) = n) by lia.
  assert (HFd : Forall (fun b => 0 <= b < 2 ^ 8) (rev data)).
  { change (2 ^ 8) with 256. apply Forall_rev'. unfold data.
    apply Forall_firstn'. apply Forall_skipn'. exact HF. }
  pose proof (val_le_bound 8 (rev data) ltac:(lia) HFd) as Hm.
  rewrite rev_length, Hd in Hm.
  set (m := val_le 8 (rev data)) in *.
  split; [lia|].
  replace (4 + n - 4) with n by lia.
  destruct (csize <? 0); lia.
Qed.

Lemma C17_example :
  mpz_export (2 ^ 64 + 258) 2 1 1 0 = ([0; 1; 0; 0; 0; 0; 0; 0; 1; 2], 5)
  /\ mpz_export 0x123456 3 (-1) (-1) 4 = ([86; 52; 2; 1; 0; 0], 2)
  /\ mpz_import [86; 52; 242; 1; 0; 240] 2 3 (-1) (-1) 4 = 0x123456
  /\ out_raw (-258) = [255; 255; 255; 254; 1; 2]
  /\ inp_raw [0; 0; 0; 2; 0; 7; 9] = (6, 7) /\ inp_raw [0; 0; 0; 3; 1; 2] = (0, 0).
Proof.
  split; [vm_compute; reflexivity|].
  split; [vm_compute; reflexivity|].
  split; [vm_compute; reflexivity|].
  split; [vm_compute; reflexivity|].
  split; vm_compute; reflexivity.
Qed.
