(* MpfAddProofs.v — proofs about the bit-exact model of mpf_add (same-sign path) of MpfAddDefs.v.
   Main results, for operands of any length and every precision prec >= 1: mpf_add_wf,
   mpf_add_accurate (truncation only, relative error below 2^(2-p), exact when both operands lie in
   the kept window), mpf_add_accurate_sharp (bound 2^(1-p), exact whenever all limbs that are cut
   off are zero), mpf_add_sign; Examples for every layout.  The model is also compared with the C
   function on generated vectors in gen/MpfAddVectors.v. *)
From Coq Require Import ZArith List Lia Bool Psatz.
From Mpir Require Import Word DivDefs MpfDefs MpfProofs MpfAddDefs.
Import ListNotations.
Local Open Scope Z_scope.

(* ---------- powers of B ---------- *)

Lemma Bpow_le a b : 0 <= a <= b -> B ^ a <= B ^ b.
Proof. intros H. pose proof B_pos as HB0. apply Z.pow_le_mono_r; lia. Qed.

Lemma Bpow_split a b c : 0 <= b -> 0 <= c -> a = b + c -> B ^ a = B ^ b * B ^ c.
Proof. intros Hb Hc ->. apply Bpow_add; assumption. Qed.

Lemma Bpow_succ a : 0 <= a -> B ^ (a + 1) = B ^ a * B.
Proof. intros Ha. rewrite Bpow_add by lia. rewrite Z.pow_1_r. reflexivity. Qed.

(* 2^(p-1) * 2 <= B^(prec-1); equality for prec >= 2, and 2^(p-1) = 0 for prec = 1 *)
Lemma Q2le prec : 1 <= prec ->
  0 <= 2 ^ (bits_of_prec prec - 1) /\ 2 ^ (bits_of_prec prec - 1) * 2 <= B ^ (prec - 1).
Proof.
  intros Hp. pose proof B_pos as HB0.
  destruct (Z_lt_le_dec prec 2) as [H1|H2].
  - assert (prec = 1) by lia. subst prec. vm_compute. split; discriminate.
  - rewrite <- (Q4 prec H2).
    assert (Hb : 0 <= bits_of_prec prec - 2) by (unfold bits_of_prec; lia).
    replace (bits_of_prec prec - 1) with (Z.succ (bits_of_prec prec - 2)) by lia.
    rewrite Z.pow_succ_r by exact Hb.
    pose proof (Z.pow_nonneg 2 (bits_of_prec prec - 2) ltac:(lia)). lia.
Qed.

(* the bound 2^(1-p) proved below implies the bound 2^(2-p) of the certificate *)
Lemma acc_ok_weaken p en ed rn rd :
  acc_ok (p + 1) en ed rn rd = true -> acc_ok p en ed rn rd = true.
Proof.
  unfold acc_ok. destruct (en =? 0); [exact (fun H => H)|].
  rewrite !Z.ltb_lt. intros H.
  apply Z.le_lt_trans with (2 := H).
  apply Z.mul_le_mono_nonneg_l; [apply Z.abs_nonneg|].
  replace (p + 1 - 2) with (p - 1) by lia.
  destruct (Z_lt_le_dec (p - 2) 0) as [Hn|Hn].
  - rewrite (Z.pow_neg_r 2 (p - 2)) by exact Hn. apply Z.pow_nonneg. lia.
  - apply Z.pow_le_mono_r; lia.
Qed.

(* ---------- the arithmetic core of the error bound ---------- *)

(* E = Mu G + Mv Bn is the exact sum, R = a G + b Bn the computed one (a, b the truncated operands) *)
Lemma add_err_core Mu Mv a b G Bn Bn1 PV K Q :
  0 < Mu -> 0 <= Mv -> 0 < G -> 0 < Bn -> 0 <= Q -> Q * 2 <= K ->
  a <= Mu -> (Mu - a) * K < Mu ->
  b <= Mv -> (Mv - b) * K < PV ->
  PV * Bn = Bn1 * G -> Bn1 <= Mu ->
  a * G + b * Bn <= Mu * G + Mv * Bn
  /\ (Mu * G + Mv * Bn - (a * G + b * Bn)) * Q < Mu * G + Mv * Bn.
Proof.
  intros HMu HMv HG HBn HQ HK Ha Hau Hb Hbv HPV HB1.
  assert (T1 : (Mu - a) * K * G < Mu * G) by (apply Z.mul_lt_mono_pos_r; assumption).
  assert (T2 : (Mv - b) * K * Bn < PV * Bn) by (apply Z.mul_lt_mono_pos_r; assumption).
  assert (T3 : Bn1 * G <= Mu * G) by (apply Z.mul_le_mono_nonneg_r; lia).
  assert (T4 : a * G <= Mu * G) by (apply Z.mul_le_mono_nonneg_r; lia).
  assert (T5 : b * Bn <= Mv * Bn) by (apply Z.mul_le_mono_nonneg_r; lia).
  assert (T6 : 0 <= Mv * Bn) by (apply Z.mul_nonneg_nonneg; lia).
  assert (T7 : 0 < Mu * G) by (apply Z.mul_pos_pos; lia).
  split; [lia|].
  set (t := Mu * G + Mv * Bn - (a * G + b * Bn)).
  assert (Ht : 0 <= t) by (unfold t; lia).
  assert (EK : t * K = (Mu - a) * K * G + (Mv - b) * K * Bn) by (unfold t; ring).
  assert (T8 : t * (Q * 2) <= t * K) by (apply Z.mul_le_mono_nonneg_l; assumption).
  replace (t * (Q * 2)) with (t * Q * 2) in T8 by ring.
  set (X := t * Q) in *. lia.
Qed.

(* ---------- carry handling ---------- *)

(* tp = low limbs, then the limbs of hi below W; cy = the carry out of hi *)
Lemma carry_recombine low hi W S :
  0 < W -> 0 < S -> 0 <= low < S -> 0 <= hi ->
  low + (hi mod W) * S + (hi / W) * (W * S) = low + hi * S
  /\ 0 <= hi / W
  /\ (hi / W) * (W * S) <= low + hi * S < (hi / W + 1) * (W * S).
Proof.
  intros HW HS Hlow Hhi.
  pose proof (Z.div_mod hi W ltac:(lia)) as Hdm.
  pose proof (Z.mod_pos_bound hi W HW) as Hmb.
  assert (Hq : 0 <= hi / W) by (apply Z.div_pos; lia).
  set (q := hi / W) in *. set (r := hi mod W) in *.
  assert (E : hi * S = q * (W * S) + r * S) by (rewrite Hdm; ring).
  assert (R1 : 0 <= r * S) by (apply Z.mul_nonneg_nonneg; lia).
  assert (R2 : (r + 1) * S <= W * S) by (apply Z.mul_le_mono_nonneg_r; lia).
  split; [lia|]. split; [exact Hq|].
  set (qP := q * (W * S)) in *. set (rS := r * S) in *. set (P := W * S) in *. lia.
Qed.

(* from cy P <= M < (cy+1) P and P/B <= M < 2 P: cy is 0 or 1 and M has rsize + cy limbs *)
Lemma carry_limbs M cy rs :
  1 <= rs -> 0 <= cy -> B ^ (rs - 1) <= M < 2 * B ^ rs ->
  cy * B ^ rs <= M < (cy + 1) * B ^ rs ->
  (cy = 0 \/ cy = 1) /\ B ^ (rs + cy - 1) <= M < B ^ (rs + cy).
Proof.
  intros Hrs Hcy [Hlo Hhi] [Clo Chi].
  pose proof B_ge2 as HB2.
  assert (HP : 0 < B ^ rs) by (apply Bpow_pos; lia).
  pose proof (Bpow_succ rs ltac:(lia)) as HS.
  set (P := B ^ rs) in *.
  assert (Hc2 : cy < 2).
  { destruct (Z_lt_le_dec cy 2) as [H|H]; [exact H|]. exfalso.
    assert (2 * P <= cy * P) by (apply Z.mul_le_mono_nonneg_r; lia). lia. }
  assert (Hc : cy = 0 \/ cy = 1) by lia.
  split; [exact Hc|].
  destruct Hc as [-> | ->].
  - replace (rs + 0 - 1) with (rs - 1) by lia. replace (rs + 0) with rs by lia. fold P. lia.
  - replace (rs + 1 - 1) with rs by lia. fold P. rewrite HS.
    assert (P * 2 <= P * B) by (apply Z.mul_le_mono_nonneg_l; lia). lia.
Qed.

(* ---------- the three layouts ---------- *)

(* size of the sum um B^su + vm B^sv, where rs = max (un, vn + d) limbs hold both operands *)
Lemma layout_sum_bounds um un vm vn d rs :
  1 <= un -> B ^ (un - 1) <= um < B ^ un -> 1 <= vn -> 0 <= vm < B ^ vn -> 0 <= d ->
  rs = Z.max un (vn + d) ->
  B ^ (rs - 1) <= um * B ^ (rs - un) + vm * B ^ (rs - d - vn) < 2 * B ^ rs
  /\ (un <= d -> um * B ^ (rs - un) + vm * B ^ (rs - d - vn) < B ^ rs).
Proof.
  intros Hun [Hulo Huhi] Hvn [Hvlo Hvhi] Hd Hrs.
  pose proof B_pos as HB0.
  assert (Hsu : 0 <= rs - un) by lia. assert (Hsv : 0 <= rs - d - vn) by lia.
  pose proof (Bpow_pos _ Hsu) as Psu. pose proof (Bpow_pos _ Hsv) as Psv.
  assert (E1 : B ^ (rs - 1) = B ^ (un - 1) * B ^ (rs - un)) by (apply Bpow_split; lia).
  assert (E2 : B ^ rs = B ^ un * B ^ (rs - un)) by (apply Bpow_split; lia).
  assert (E3 : B ^ (rs - d) = B ^ vn * B ^ (rs - d - vn)) by (apply Bpow_split; lia).
  assert (E4 : B ^ (rs - d) <= B ^ rs) by (apply Bpow_le; lia).
  assert (T1 : B ^ (un - 1) * B ^ (rs - un) <= um * B ^ (rs - un))
    by (apply Z.mul_le_mono_nonneg_r; lia).
  assert (T2 : (um + 1) * B ^ (rs - un) <= B ^ un * B ^ (rs - un))
    by (apply Z.mul_le_mono_nonneg_r; lia).
  assert (T3 : vm * B ^ (rs - d - vn) < B ^ vn * B ^ (rs - d - vn))
    by (apply Z.mul_lt_mono_pos_r; lia).
  assert (T4 : 0 <= vm * B ^ (rs - d - vn)) by (apply Z.mul_nonneg_nonneg; lia).
  replace ((um + 1) * B ^ (rs - un)) with (um * B ^ (rs - un) + B ^ (rs - un)) in T2 by ring.
  split.
  - set (X := um * B ^ (rs - un)) in *. set (Y := vm * B ^ (rs - d - vn)) in *.
    set (P := B ^ rs) in *. lia.
  - intros Hud.
    assert (Hsv0 : rs - d - vn = 0) by lia.
    assert (E5 : B ^ vn <= B ^ (rs - un)) by (apply Bpow_le; lia).
    rewrite Hsv0 in *. change (B ^ 0) with 1 in *. rewrite Z.mul_1_r in *.
    set (X := um * B ^ (rs - un)) in *. set (P := B ^ rs) in *. lia.
Qed.

Lemma add_layout_spec um un vm vn d tp cy rs :
  1 <= un -> B ^ (un - 1) <= um < B ^ un -> 1 <= vn -> 0 <= vm < B ^ vn -> 0 <= d ->
  add_layout um un vm vn d = (tp, cy, rs) ->
  rs = Z.max un (vn + d) /\ (cy = 0 \/ cy = 1)
  /\ B ^ (rs + cy - 1) <= tp + cy * B ^ rs < B ^ (rs + cy)
  /\ tp + cy * B ^ rs = um * B ^ (rs - un) + vm * B ^ (rs - d - vn).
Proof.
  intros Hun Hu Hvn Hv Hd HL.
  pose proof B_pos as HB0.
  unfold add_layout in HL.
  destruct (Z.ltb_spec d un) as [Hdu|Hdu].
  - destruct (Z.leb_spec (vn + d) un) as [Hin|Hout].
    + (* v inside u *)
      injection HL as Htp Hcy Hrs. subst rs.
      assert (Hmax : un = Z.max un (vn + d)) by lia.
      destruct (layout_sum_bounds um un vm vn d un Hun Hu Hvn Hv Hd Hmax) as [Hb _].
      set (size := un - d - vn) in *.
      assert (Hsz : 0 <= size) by (unfold size; lia).
      replace (un - un) with 0 in Hb |- * by lia.
      change (B ^ 0) with 1 in Hb |- *. rewrite Z.mul_1_r in Hb |- *.
      pose proof (Bpow_pos size Hsz) as PS.
      assert (PW : 0 < B ^ (un - size)) by (apply Bpow_pos; unfold size; lia).
      assert (EP : B ^ un = B ^ (un - size) * B ^ size) by (apply Bpow_split; unfold size; lia).
      pose proof (Z.div_mod um (B ^ size) ltac:(lia)) as Hdm.
      pose proof (Z.mod_pos_bound um (B ^ size) PS) as Hmb.
      assert (Hq : 0 <= um / B ^ size) by (apply Z.div_pos; lia).
      destruct (carry_recombine (um mod B ^ size) (um / B ^ size + vm) (B ^ (un - size)) (B ^ size)
                  PW PS Hmb ltac:(lia)) as (R1 & R2 & R3).
      rewrite Htp, Hcy, <- EP in R1. rewrite Hcy, <- EP in R3. rewrite Hcy in R2.
      assert (ES : um mod B ^ size + (um / B ^ size + vm) * B ^ size = um + vm * B ^ size).
      { rewrite Hdm at 3. ring. }
      rewrite ES in R1, R3.
      destruct (carry_limbs (um + vm * B ^ size) cy un Hun R2 Hb R3) as [Hc Hl].
      split; [exact Hmax|]. split; [exact Hc|]. rewrite R1. split; [exact Hl | reflexivity].
    + (* v extends below u *)
      injection HL as Htp Hcy Hrs. subst rs.
      assert (Hmax : vn + d = Z.max un (vn + d)) by lia.
      destruct (layout_sum_bounds um un vm vn d (vn + d) Hun Hu Hvn Hv Hd Hmax) as [Hb _].
      set (size := vn + d - un) in *.
      assert (Hsz : 0 <= size) by (unfold size; lia).
      replace (vn + d - d - vn) with 0 in Hb |- * by lia.
      change (B ^ 0) with 1 in Hb |- *. rewrite Z.mul_1_r in Hb |- *.
      pose proof (Bpow_pos size Hsz) as PS.
      assert (PW : 0 < B ^ un) by (apply Bpow_pos; lia).
      assert (EP : B ^ (vn + d) = B ^ un * B ^ size) by (apply Bpow_split; unfold size; lia).
      pose proof (Z.div_mod vm (B ^ size) ltac:(lia)) as Hdm.
      pose proof (Z.mod_pos_bound vm (B ^ size) PS) as Hmb.
      assert (Hq : 0 <= vm / B ^ size) by (apply Z.div_pos; lia).
      assert (Hum0 : 0 <= um).
      { assert (0 < B ^ (un - 1)) by (apply Bpow_pos; lia). lia. }
      destruct (carry_recombine (vm mod B ^ size) (um + vm / B ^ size) (B ^ un) (B ^ size)
                  PW PS Hmb ltac:(lia)) as (R1 & R2 & R3).
      rewrite Htp, Hcy, <- EP in R1. rewrite Hcy, <- EP in R3. rewrite Hcy in R2.
      assert (ES : vm mod B ^ size + (um + vm / B ^ size) * B ^ size = um * B ^ size + vm).
      { rewrite Hdm at 3. ring. }
      rewrite ES in R1, R3.
      assert (Hrs1 : 1 <= vn + d) by lia.
      destruct (carry_limbs (um * B ^ size + vm) cy (vn + d) Hrs1 R2 Hb R3) as [Hc Hl].
      split; [exact Hmax|]. split; [exact Hc|]. rewrite R1. split; [exact Hl | reflexivity].
  - (* disjoint, gap of d - un zero limbs *)
    injection HL as Htp Hcy Hrs. subst cy.
    assert (Hmax : rs = Z.max un (vn + d)) by lia.
    destruct (layout_sum_bounds um un vm vn d rs Hun Hu Hvn Hv Hd Hmax) as [[Hlo _] Hhi].
    specialize (Hhi Hdu).
    replace (rs - d - vn) with 0 in Hlo, Hhi |- * by lia.
    replace (vn + d - un) with (rs - un) in Htp by lia.
    change (B ^ 0) with 1 in Hlo, Hhi |- *. rewrite Z.mul_1_r in Hlo, Hhi |- *.
    assert (Et : tp + 0 * B ^ rs = um * B ^ (rs - un) + vm) by (rewrite <- Htp; ring).
    split; [exact Hmax|]. split; [left; reflexivity|].
    rewrite Et. replace (rs + 0 - 1) with (rs - 1) by lia. replace (rs + 0) with rs by lia.
    split; [split; assumption | reflexivity].
Qed.

(* ---------- truncation of v at the bottom of the kept window ---------- *)

Lemma v_trunc_spec prec d M n vm vn :
  1 <= prec -> 0 <= d -> 1 <= n -> B ^ (n - 1) <= M < B ^ n ->
  v_trunc prec d M n = (vm, vn) ->
  vn <= n /\ vn + d <= prec /\ 0 <= vm
  /\ (d < prec -> 1 <= vn /\ vm < B ^ vn)
  /\ hide (vm * B ^ (n - vn) <= M /\ (M - vm * B ^ (n - vn)) * B ^ (prec - 1) < B ^ (n + d - 1))
  /\ (n + d <= prec -> vm = M /\ vn = n).
Proof.
  intros Hp Hd Hn [Hlo Hhi] HT. unfold v_trunc in HT.
  pose proof B_pos as HB0.
  assert (PM : 0 < B ^ (n - 1)) by (apply Bpow_pos; lia).
  assert (PK : 0 < B ^ (prec - 1)) by (apply Bpow_pos; lia).
  destruct (Z.ltb_spec prec (n + d)) as [Hcut|Hfit].
  - injection HT as Hvm Hvn. subst vn.
    set (k := n + d - prec) in *.
    assert (Hk : 0 < k) by (unfold k; lia).
    replace (n - (prec - d)) with k by (unfold k; lia).
    assert (PF : 0 < B ^ k) by (apply Bpow_pos; lia).
    pose proof (Z.div_mod M (B ^ k) ltac:(lia)) as Hdm.
    pose proof (Z.mod_pos_bound M (B ^ k) PF) as Hmb.
    rewrite Hvm in Hdm.
    assert (Hvm0 : 0 <= vm) by (rewrite <- Hvm; apply Z.div_pos; lia).
    assert (EK : B ^ (n + d - 1) = B ^ k * B ^ (prec - 1)) by (apply Bpow_split; unfold k; lia).
    split; [lia|]. split; [lia|]. split; [exact Hvm0|].
    split.
    { intros Hdp. split; [lia|].
      assert (EN : B ^ n = B ^ k * B ^ (prec - d)) by (apply Bpow_split; unfold k; lia).
      rewrite <- Hvm. apply Z.div_lt_upper_bound; [exact PF|]. rewrite <- EN. exact Hhi. }
    split.
    { apply hide_intro. rewrite EK.
      assert (T : (M mod B ^ k) * B ^ (prec - 1) < B ^ k * B ^ (prec - 1))
        by (apply Z.mul_lt_mono_pos_r; lia).
      replace (M - vm * B ^ k) with (M mod B ^ k) by lia.
      split; [|exact T]. set (r := M mod B ^ k) in *. set (F := B ^ k) in *. lia. }
    intros Hc. lia.
  - injection HT as Hvm Hvn. subst vm vn.
    replace (n - n) with 0 by lia. change (B ^ 0) with 1.
    split; [lia|]. split; [lia|]. split; [lia|].
    split; [intros _; split; [lia | exact Hhi]|].
    split; [|intros _; split; reflexivity].
    apply hide_intro. split; [lia|].
    replace (M - M * 1) with 0 by ring. rewrite Z.mul_0_l. apply Bpow_pos. lia.
Qed.

(* a truncation that cuts off zero limbs only loses nothing *)
Lemma top_limbs_exact M n k M' n' :
  top_limbs M n k = (M', n') -> (n <= k \/ M mod B ^ (n - k) = 0) -> M' * B ^ (n - n') = M.
Proof.
  intros HT Hz. unfold top_limbs in HT. pose proof B_pos as HB0.
  destruct (Z.ltb_spec k n) as [Hlt|Hge].
  - injection HT as HM' Hn'. subst n'.
    destruct Hz as [Hz|Hz]; [lia|].
    assert (PF : 0 < B ^ (n - k)) by (apply Bpow_pos; lia).
    pose proof (Z.div_mod M (B ^ (n - k)) ltac:(lia)) as Hdm.
    rewrite Hz, HM' in Hdm. lia.
  - injection HT as HM' Hn'. subst M' n'.
    replace (n - n) with 0 by lia. change (B ^ 0) with 1. ring.
Qed.

Lemma v_trunc_exact prec d M n vm vn :
  v_trunc prec d M n = (vm, vn) -> (n + d <= prec \/ M mod B ^ (n + d - prec) = 0) ->
  vm * B ^ (n - vn) = M.
Proof.
  intros HT Hz. unfold v_trunc in HT. pose proof B_pos as HB0.
  destruct (Z.ltb_spec prec (n + d)) as [Hlt|Hge].
  - injection HT as Hvm Hvn. subst vn.
    destruct Hz as [Hz|Hz]; [lia|].
    replace (n - (prec - d)) with (n + d - prec) by lia.
    assert (PF : 0 < B ^ (n + d - prec)) by (apply Bpow_pos; lia).
    pose proof (Z.div_mod M (B ^ (n + d - prec)) ltac:(lia)) as Hdm.
    rewrite Hz, Hvm in Hdm. lia.
  - injection HT as Hvm Hvn. subst vm vn.
    replace (n - n) with 0 by lia. change (B ^ 0) with 1. ring.
Qed.

(* ---------- mpf_add on non-zero operands, larger exponent first ---------- *)

Lemma layout_scale um vm rs un vn d nu nv :
  0 <= rs - un -> 0 <= rs - d - vn -> 0 <= nu + nv + d - rs -> 0 <= nu - un -> 0 <= nv - vn ->
  0 <= d + nv -> 0 <= nu ->
  (um * B ^ (rs - un) + vm * B ^ (rs - d - vn)) * B ^ (nu + nv + d - rs)
  = um * B ^ (nu - un) * B ^ (d + nv) + vm * B ^ (nv - vn) * B ^ nu.
Proof.
  intros H1 H2 H3 H4 H5 H6 H7.
  rewrite Z.mul_add_distr_r. rewrite <- !Z.mul_assoc. rewrite <- !Bpow_add by assumption.
  f_equal; f_equal; f_equal; lia.
Qed.

(* Scaled by B^(fn u + fn v - fexp v) the operands are the integers fM u * B^(d + fn v) and
   fM v * B^(fn u), d = fexp u - fexp v, and the result is Mr * B^D. *)
Lemma mpf_add_ordered_core prec u v :
  1 <= prec ->
  0 < fM u -> fn u = nlimbs (fM u) -> 0 < fM v -> fn v = nlimbs (fM v) -> fexp v <= fexp u ->
  exists Mr nr cy,
    mpf_add_ordered prec u v = mkf (fneg u) Mr nr (fexp u + cy)
    /\ (cy = 0 \/ cy = 1)
    /\ 0 < Mr /\ nr = nlimbs Mr /\ nr <= prec + 1
    /\ 0 <= fn u + fn v + (fexp u - fexp v) + cy - nr
    /\ Mr * B ^ (fn u + fn v + (fexp u - fexp v) + cy - nr)
         <= fM u * B ^ (fexp u - fexp v + fn v) + fM v * B ^ (fn u)
    /\ (fM u * B ^ (fexp u - fexp v + fn v) + fM v * B ^ (fn u)
          - Mr * B ^ (fn u + fn v + (fexp u - fexp v) + cy - nr)) * 2 ^ (bits_of_prec prec - 1)
         < fM u * B ^ (fexp u - fexp v + fn v) + fM v * B ^ (fn u)
    /\ ((fn u <= prec \/ fM u mod B ^ (fn u - prec) = 0) ->
        (fn v + (fexp u - fexp v) <= prec \/ fM v mod B ^ (fn v + (fexp u - fexp v) - prec) = 0) ->
        Mr * B ^ (fn u + fn v + (fexp u - fexp v) + cy - nr)
          = fM u * B ^ (fexp u - fexp v + fn v) + fM v * B ^ (fn u)).
Proof.
  intros Hp HMu Hnu HMv Hnv Hexp.
  pose proof B_pos as HB0.
  pose proof (nlimbs_spec (fM u) HMu) as HuB. rewrite <- Hnu in HuB.
  pose proof (nlimbs_spec (fM v) HMv) as HvB. rewrite <- Hnv in HvB.
  pose proof (nlimbs_pos (fM u) HMu) as Hnu1. rewrite <- Hnu in Hnu1.
  pose proof (nlimbs_pos (fM v) HMv) as Hnv1. rewrite <- Hnv in Hnv1.
  unfold mpf_add_ordered.
  set (d := fexp u - fexp v) in *.
  assert (Hd : 0 <= d) by (unfold d; lia).
  set (Mu := fM u) in *. set (Mv := fM v) in *. set (nu := fn u) in *. set (nv := fn v) in *.
  destruct (top_limbs Mu nu prec) as [um un] eqn:Eu.
  destruct (v_trunc prec d Mv nv) as [vm vn] eqn:Ev.
  destruct (top_limbs_spec _ _ _ _ _ Hp Hnu1 HuB Eu)
    as (Hun1 & Hunk & Hunn & [Humlo Humhi] & HuH & Huex).
  destruct (v_trunc_spec _ _ _ _ _ _ Hp Hd Hnv1 HvB Ev)
    as (Hvnn & Hvnd & Hvm0 & Hvin & HvH & Hvex).
  assert (Pum : 0 < B ^ (un - 1)) by (apply Bpow_pos; lia).
  assert (Hum0 : 0 < um) by lia.
  destruct (Q2le prec Hp) as [HQ0 HQ2].
  set (Q := 2 ^ (bits_of_prec prec - 1)) in *.
  (* the common scale *)
  assert (PG : 0 < B ^ (d + nv)) by (apply Bpow_pos; lia).
  assert (PBn : 0 < B ^ nu) by (apply Bpow_pos; lia).
  assert (PFu : 0 < B ^ (nu - un)) by (apply Bpow_pos; lia).
  assert (EPV : B ^ (nv + d - 1) * B ^ nu = B ^ (nu - 1) * B ^ (d + nv)).
  { rewrite <- !Bpow_add by lia. f_equal. lia. }
  destruct HuB as [HuBlo HuBhi]. destruct HvB as [HvBlo HvBhi].
  destruct (Z.leb_spec prec d) as [Hcan|Hov].
  - (* v completely cancelled *)
    exists um, un, 0.
    replace (fexp u + 0) with (fexp u) by lia.
    split; [reflexivity|]. split; [left; reflexivity|]. split; [exact Hum0|].
    split; [symmetry; apply nlimbs_unique; [exact Hum0 | split; assumption]|].
    split; [lia|]. split; [lia|].
    replace (nu + nv + d + 0 - un) with ((nu - un) + (d + nv)) by lia.
    rewrite Bpow_add by lia.
    apply hide_elim in HuH. destruct HuH as [Hule Huerr].
    assert (HvK : (Mv - 0) * B ^ (prec - 1) < B ^ (nv + d - 1)).
    { assert (PK : 0 < B ^ (prec - 1)) by (apply Bpow_pos; lia).
      assert (EL : B ^ nv * B ^ (prec - 1) <= B ^ (nv + d - 1)).
      { rewrite <- Bpow_add by lia. apply Bpow_le. lia. }
      assert (T : Mv * B ^ (prec - 1) < B ^ nv * B ^ (prec - 1))
        by (apply Z.mul_lt_mono_pos_r; assumption).
      replace (Mv - 0) with Mv by lia. lia. }
    destruct (add_err_core Mu Mv (um * B ^ (nu - un)) 0 (B ^ (d + nv)) (B ^ nu) (B ^ (nu - 1))
                (B ^ (nv + d - 1)) (B ^ (prec - 1)) Q
                HMu ltac:(lia) PG PBn HQ0 HQ2 Hule Huerr ltac:(lia) HvK EPV HuBlo) as [A1 A2].
    rewrite Z.mul_0_l, Z.add_0_r in A1, A2. rewrite Z.mul_assoc.
    split; [exact A1|]. split; [exact A2|].
    intros _ [Hc|Hc]; [lia|]. exfalso.
    assert (EL : B ^ nv <= B ^ (nv + d - prec)) by (apply Bpow_le; lia).
    rewrite Z.mod_small in Hc by lia. lia.
  - (* the three layouts *)
    destruct (Hvin Hov) as [Hvn1 Hvmhi].
    destruct (add_layout um un vm vn d) as [[tp cy] rs] eqn:EL.
    destruct (add_layout_spec _ _ _ _ _ _ _ _ Hun1 (conj Humlo Humhi) Hvn1 (conj Hvm0 Hvmhi) Hd EL)
      as (Hrs & Hcy & [HMlo HMhi] & HMr).
    exists (tp + cy * B ^ rs), (rs + cy), cy.
    assert (PMr : 0 < B ^ (rs + cy - 1)) by (apply Bpow_pos; lia).
    assert (HMr0 : 0 < tp + cy * B ^ rs) by lia.
    split; [reflexivity|]. split; [exact Hcy|]. split; [exact HMr0|].
    split; [symmetry; apply nlimbs_unique; [exact HMr0 | split; assumption]|].
    split; [lia|]. split; [lia|].
    rewrite HMr.
    replace (nu + nv + d + cy - (rs + cy)) with (nu + nv + d - rs) by lia.
    assert (PFv : 0 < B ^ (nv - vn)) by (apply Bpow_pos; lia).
    assert (ER : (um * B ^ (rs - un) + vm * B ^ (rs - d - vn)) * B ^ (nu + nv + d - rs)
                 = um * B ^ (nu - un) * B ^ (d + nv) + vm * B ^ (nv - vn) * B ^ nu).
    { apply layout_scale; clear - Hrs Hunn Hvnn Hvnd Hd Hnu1 Hnv1 Hun1 Hvn1 Hunk; lia. }
    rewrite ER.
    apply hide_elim in HuH. destruct HuH as [Hule Huerr].
    apply hide_elim in HvH. destruct HvH as [Hvle Hverr].
    destruct (add_err_core Mu Mv (um * B ^ (nu - un)) (vm * B ^ (nv - vn)) (B ^ (d + nv)) (B ^ nu)
                (B ^ (nu - 1)) (B ^ (nv + d - 1)) (B ^ (prec - 1)) Q
                HMu ltac:(lia) PG PBn HQ0 HQ2 Hule Huerr Hvle Hverr EPV HuBlo) as [A1 A2].
    split; [exact A1|]. split; [exact A2|].
    intros Hfu Hfv.
    rewrite (top_limbs_exact _ _ _ _ _ Eu Hfu), (v_trunc_exact _ _ _ _ _ _ Ev Hfv). reflexivity.
Qed.

(* ---------- values as scaled integers ---------- *)

Lemma sum_cross nu nv rn du dv rd s Mu Mv Mr Au Av Ar P W :
  nu * W = s * Mu * (P * Au) * du -> nv * W = s * Mv * (P * Av) * dv ->
  rn * W = s * Mr * (P * Ar) * rd ->
  (rn * (du * dv) - (nu * dv + nv * du) * rd) * W
    = s * (du * dv * rd * P) * (Mr * Ar - (Mu * Au + Mv * Av))
  /\ (nu * dv + nv * du) * rd * W = s * (du * dv * rd * P) * (Mu * Au + Mv * Av).
Proof.
  intros H1 H2 H3. split.
  - transitivity ((rn * W) * (du * dv) - ((nu * W) * dv + (nv * W) * du) * rd); [ring|].
    rewrite H1, H2, H3. ring.
  - transitivity (((nu * W) * dv + (nv * W) * du) * rd); [ring|].
    rewrite H1, H2. ring.
Qed.

(* r against the exact sum of u and v, everything scaled to integers above the position lo *)
Lemma sum_reduce u v r s lo :
  (s = 1 \/ s = -1) ->
  sg (fneg u) * fM u = s * fM u -> sg (fneg v) * fM v = s * fM v -> sg (fneg r) * fM r = s * fM r ->
  lo <= fexp u - fn u -> lo <= fexp v - fn v -> lo <= fexp r - fn r ->
  exists C W, 0 < C /\ 0 < W
    /\ (fnum r * add_den u v - add_num u v * fden r) * W
         = s * C * (fM r * B ^ (fexp r - fn r - lo)
                    - (fM u * B ^ (fexp u - fn u - lo) + fM v * B ^ (fexp v - fn v - lo)))
    /\ add_num u v * fden r * W
         = s * C * (fM u * B ^ (fexp u - fn u - lo) + fM v * B ^ (fexp v - fn v - lo)).
Proof.
  intros Hs Hsu Hsv Hsr Hlu Hlv Hlr.
  pose proof B_pos as HB0.
  set (au := fexp u - fn u) in *. set (av := fexp v - fn v) in *. set (ar := fexp r - fn r) in *.
  set (K := Z.abs au + Z.abs av + Z.abs ar + Z.abs lo).
  assert (HK : 0 <= K) by (unfold K; lia).
  assert (HKl : 0 <= K + lo) by (unfold K; lia).
  assert (Hau : 0 <= K + au) by (unfold K; lia).
  assert (Hav : 0 <= K + av) by (unfold K; lia).
  assert (Har : 0 <= K + ar) by (unfold K; lia).
  pose proof (fnum_scaled u K HK Hau) as Eu.
  pose proof (fnum_scaled v K HK Hav) as Ev.
  pose proof (fnum_scaled r K HK Har) as Er.
  fold au in Eu. fold av in Ev. fold ar in Er.
  rewrite Hsu in Eu. rewrite Hsv in Ev. rewrite Hsr in Er.
  rewrite (Bpow_split (K + au) (K + lo) (au - lo)) in Eu by lia.
  rewrite (Bpow_split (K + av) (K + lo) (av - lo)) in Ev by lia.
  rewrite (Bpow_split (K + ar) (K + lo) (ar - lo)) in Er by lia.
  destruct (sum_cross _ _ _ _ _ _ _ _ _ _ _ _ _ _ _ Eu Ev Er) as [R1 R2].
  pose proof (fden_pos u) as Pu. pose proof (fden_pos v) as Pv. pose proof (fden_pos r) as Pr.
  exists (fden u * fden v * fden r * B ^ (K + lo)), (B ^ K).
  split; [repeat apply Z.mul_pos_pos; try assumption; apply Bpow_pos; exact HKl|].
  split; [apply Bpow_pos; exact HK|].
  unfold add_num, add_den. split; [exact R1 | exact R2].
Qed.

Lemma abs_le_from_reduce a b W C s R E :
  0 < W -> 0 < C -> (s = 1 \/ s = -1) -> 0 <= R <= E ->
  a * W = s * C * R -> b * W = s * C * E -> Z.abs a <= Z.abs b.
Proof.
  intros HW HC Hs [HR HRE] Ha Hb.
  apply (Z.mul_le_mono_pos_r _ _ W HW).
  replace (Z.abs a * W) with (Z.abs (a * W)) by (rewrite Z.abs_mul, (Z.abs_eq W) by lia; ring).
  replace (Z.abs b * W) with (Z.abs (b * W)) by (rewrite Z.abs_mul, (Z.abs_eq W) by lia; ring).
  rewrite Ha, Hb, !Z.abs_mul.
  assert (Hs1 : Z.abs s = 1) by lia.
  rewrite Hs1, (Z.abs_eq C), (Z.abs_eq R), (Z.abs_eq E) by lia.
  rewrite !Z.mul_1_l. apply Z.mul_le_mono_nonneg_l; lia.
Qed.

Lemma mpf_add_ordered_accurate prec u v :
  1 <= prec ->
  0 < fM u -> fn u = nlimbs (fM u) -> 0 < fM v -> fn v = nlimbs (fM v) ->
  fneg u = fneg v -> fexp v <= fexp u ->
  mpf_wf prec (mpf_add_ordered prec u v)
  /\ fM (mpf_add_ordered prec u v) <> 0
  /\ Z.abs (fnum (mpf_add_ordered prec u v) * add_den u v)
       <= Z.abs (add_num u v * fden (mpf_add_ordered prec u v))
  /\ acc_ok (bits_of_prec prec + 1) (add_num u v) (add_den u v)
            (fnum (mpf_add_ordered prec u v)) (fden (mpf_add_ordered prec u v)) = true
  /\ ((fn u <= prec \/ fM u mod B ^ (fn u - prec) = 0) ->
      (fn v + (fexp u - fexp v) <= prec \/ fM v mod B ^ (fn v + (fexp u - fexp v) - prec) = 0) ->
      fnum (mpf_add_ordered prec u v) * add_den u v
        = add_num u v * fden (mpf_add_ordered prec u v)).
Proof.
  intros Hp HMu Hnu HMv Hnv Hneg Hexp.
  pose proof B_pos as HB0.
  destruct (mpf_add_ordered_core prec u v Hp HMu Hnu HMv Hnv Hexp)
    as (Mr & nr & cy & Hr & _ & HMr0 & Hnr & Hnrk & HD & Hle & Herr & Hex).
  set (r := mpf_add_ordered prec u v) in *.
  assert (HfM : fM r = Mr) by (rewrite Hr; reflexivity).
  assert (Hfn : fn r = nr) by (rewrite Hr; reflexivity).
  assert (Hfe : fexp r = fexp u + cy) by (rewrite Hr; reflexivity).
  assert (Hfs : fneg r = fneg u) by (rewrite Hr; reflexivity).
  pose proof (nlimbs_pos (fM u) HMu) as Hnu1. rewrite <- Hnu in Hnu1.
  pose proof (nlimbs_pos (fM v) HMv) as Hnv1. rewrite <- Hnv in Hnv1.
  set (lo := fexp v - fn v - fn u).
  assert (Eau : fexp u - fn u - lo = fexp u - fexp v + fn v) by (unfold lo; lia).
  assert (Eav : fexp v - fn v - lo = fn u) by (unfold lo; lia).
  assert (Ear : fexp r - fn r - lo = fn u + fn v + (fexp u - fexp v) + cy - nr)
    by (unfold lo; rewrite Hfe, Hfn; lia).
  assert (Hsr : sg (fneg r) * fM r = sg (fneg u) * fM r) by (rewrite Hfs; reflexivity).
  assert (Hsv : sg (fneg v) * fM v = sg (fneg u) * fM v) by (rewrite Hneg; reflexivity).
  destruct (sum_reduce u v r (sg (fneg u)) lo (sg_cases _) eq_refl Hsv Hsr
              ltac:(unfold lo; lia) ltac:(unfold lo; lia) ltac:(rewrite Hfe, Hfn; unfold lo; lia))
    as (C & W & HC & HW & R1 & R2).
  rewrite Eau, Eav, Ear, HfM in R1. rewrite Eau, Eav in R2.
  set (E := fM u * B ^ (fexp u - fexp v + fn v) + fM v * B ^ fn u) in *.
  set (Rs := Mr * B ^ (fn u + fn v + (fexp u - fexp v) + cy - nr)) in *.
  assert (HE : 0 < E).
  { unfold E.
    assert (0 < fM u * B ^ (fexp u - fexp v + fn v))
      by (apply Z.mul_pos_pos; [exact HMu | apply Bpow_pos; lia]).
    assert (0 < fM v * B ^ fn u) by (apply Z.mul_pos_pos; [exact HMv | apply Bpow_pos; lia]).
    lia. }
  assert (HRs : 0 <= Rs).
  { unfold Rs. apply Z.mul_nonneg_nonneg; [lia|]. apply Z.lt_le_incl, Bpow_pos. exact HD. }
  pose proof (fden_pos r) as Prd.
  split.
  { unfold mpf_wf. rewrite HfM, Hfn. split; [lia|]. split; [|exact Hnrk].
    intros _. split; [exact Hnr | exact HMr0]. }
  split; [rewrite HfM; lia|].
  split.
  { apply (abs_le_from_reduce _ _ W C (sg (fneg u)) Rs E HW HC (sg_cases _) (conj HRs Hle));
      [|exact R2].
    transitivity ((fnum r * add_den u v - add_num u v * fden r) * W + add_num u v * fden r * W);
      [ring|].
    rewrite R1, R2. ring. }
  split.
  { unfold acc_ok.
    destruct (Z.eqb_spec (add_num u v) 0) as [Hc|_].
    { exfalso. rewrite Hc in R2. rewrite !Z.mul_0_l in R2.
      symmetry in R2. apply Z.mul_eq_0 in R2. destruct R2 as [R2|R2]; [|lia].
      apply Z.mul_eq_0 in R2. destruct (sg_cases (fneg u)); lia. }
    apply Z.ltb_lt. replace (bits_of_prec prec + 1 - 2) with (bits_of_prec prec - 1) by lia.
    apply (acc_from_reduce _ _ _ W C (sg (fneg u)) (Rs - E) E); try assumption;
      [apply sg_cases | lia |].
    replace (Z.abs (Rs - E)) with (E - Rs) by lia. exact Herr. }
  intros Hfu Hfv.
  pose proof (Hex Hfu Hfv) as Heq. fold Rs in Heq. rewrite Heq in R1.
  assert (HX0 : (fnum r * add_den u v - add_num u v * fden r) * W = 0) by (rewrite R1; ring).
  apply Z.mul_eq_0 in HX0. destruct HX0 as [HX0|HX0]; [clear - HX0; lia | clear - HX0 HW; lia].
Qed.

(* ---------- a zero operand: mpf_set ---------- *)

Lemma add_num_comm u v : add_num u v = add_num v u.
Proof. unfold add_num. ring. Qed.

Lemma add_den_comm u v : add_den u v = add_den v u.
Proof. unfold add_den. ring. Qed.

Lemma mpf_set_core prec x :
  1 <= prec -> 0 < fM x -> fn x = nlimbs (fM x) ->
  exists Mr nr,
    mpf_set prec x = mkf (fneg x) Mr nr (fexp x)
    /\ 0 < Mr /\ nr = nlimbs Mr /\ nr <= prec + 1 /\ nr <= fn x
    /\ Mr * B ^ (fn x - nr) <= fM x
    /\ (fM x - Mr * B ^ (fn x - nr)) * 2 ^ (bits_of_prec prec - 1) < fM x
    /\ ((fn x <= prec + 1 \/ fM x mod B ^ (fn x - (prec + 1)) = 0) -> Mr * B ^ (fn x - nr) = fM x).
Proof.
  intros Hp HM Hn.
  pose proof B_pos as HB0.
  pose proof (nlimbs_spec (fM x) HM) as HB. rewrite <- Hn in HB.
  pose proof (nlimbs_pos (fM x) HM) as Hn1. rewrite <- Hn in Hn1.
  unfold mpf_set.
  destruct (top_limbs (fM x) (fn x) (prec + 1)) as [m n] eqn:Et.
  assert (Hp1 : 1 <= prec + 1) by lia.
  destruct (top_limbs_spec _ _ _ _ _ Hp1 Hn1 HB Et)
    as (Hn'1 & Hnk & Hnn & [Hmlo Hmhi] & HH & Hex).
  exists m, n.
  assert (Pm : 0 < B ^ (n - 1)) by (apply Bpow_pos; lia).
  assert (Hm0 : 0 < m) by lia.
  split; [reflexivity|]. split; [exact Hm0|].
  split; [symmetry; apply nlimbs_unique; [exact Hm0 | split; assumption]|].
  split; [exact Hnk|]. split; [exact Hnn|].
  apply hide_elim in HH. destruct HH as [Hle Herr].
  destruct (Q2le prec Hp) as [HQ0 HQ2].
  replace (prec + 1 - 1) with ((prec - 1) + 1) in Herr by lia.
  rewrite (Bpow_succ (prec - 1)) in Herr by lia.
  assert (PK : 0 < B ^ (prec - 1)) by (apply Bpow_pos; lia).
  split; [exact Hle|].
  split.
  { set (t := fM x - m * B ^ (fn x - n)) in *. set (Q := 2 ^ (bits_of_prec prec - 1)) in *.
    set (K := B ^ (prec - 1)) in *.
    assert (Ht : 0 <= t) by (unfold t; lia).
    assert (T1 : t * (Q * 2) <= t * K) by (apply Z.mul_le_mono_nonneg_l; assumption).
    assert (T2 : t * K * 1 <= t * K * B).
    { apply Z.mul_le_mono_nonneg_l; [apply Z.mul_nonneg_nonneg; lia | lia]. }
    replace (t * (K * B)) with (t * K * B) in Herr by ring.
    replace (t * (Q * 2)) with (t * Q * 2) in T1 by ring.
    set (X := t * Q) in *. set (Y := t * K) in *. set (Z := Y * B) in *. lia. }
  intros Hf. exact (top_limbs_exact _ _ _ _ _ Et Hf).
Qed.

(* z = 0: the sum z + x is computed as mpf_set x *)
Lemma mpf_add_zero_accurate prec z x :
  1 <= prec -> fM z = 0 ->
  (fM x = 0 -> fn x = 0 /\ fexp x = 0) -> (fM x <> 0 -> fn x = nlimbs (fM x) /\ 0 < fM x) ->
  mpf_wf prec (mpf_set prec x)
  /\ Z.abs (fnum (mpf_set prec x) * add_den z x) <= Z.abs (add_num z x * fden (mpf_set prec x))
  /\ acc_ok (bits_of_prec prec + 1) (add_num z x) (add_den z x)
            (fnum (mpf_set prec x)) (fden (mpf_set prec x)) = true
  /\ ((fn x <= prec + 1 \/ fM x mod B ^ (fn x - (prec + 1)) = 0) ->
      fnum (mpf_set prec x) * add_den z x = add_num z x * fden (mpf_set prec x)).
Proof.
  intros Hp Hz Hx0 Hx1.
  pose proof B_pos as HB0.
  destruct (Z.eq_dec (fM x) 0) as [Zx|NZx].
  - destruct (Hx0 Zx) as [Hn He].
    assert (Hr : mpf_set prec x = mkf (fneg x) 0 0 0).
    { unfold mpf_set, top_limbs. rewrite Zx, Hn, He.
      destruct (Z.ltb_spec (prec + 1) 0) as [H|H]; [lia | reflexivity]. }
    assert (Hen : add_num z x = 0).
    { unfold add_num. rewrite (fnum_zero z Hz), (fnum_zero x Zx). ring. }
    assert (Hrn : fnum (mpf_set prec x) = 0) by (apply fnum_zero; rewrite Hr; reflexivity).
    rewrite Hen, Hrn.
    split.
    { rewrite Hr. unfold mpf_wf. cbn [fM fn fexp]. repeat split; lia. }
    split; [reflexivity|]. split; [reflexivity|]. intros _. reflexivity.
  - destruct (Hx1 NZx) as [Hn HM].
    destruct (mpf_set_core prec x Hp HM Hn)
      as (Mr & nr & Hr & HMr0 & Hnr & Hnrk & Hnrn & Hle & Herr & Hex).
    set (r := mpf_set prec x) in *.
    assert (HfM : fM r = Mr) by (rewrite Hr; reflexivity).
    assert (Hfn : fn r = nr) by (rewrite Hr; reflexivity).
    assert (Hfe : fexp r = fexp x) by (rewrite Hr; reflexivity).
    assert (Hfs : fneg r = fneg x) by (rewrite Hr; reflexivity).
    set (lo := Z.min (fexp z - fn z) (fexp x - fn x)).
    assert (Hsz : sg (fneg z) * fM z = sg (fneg x) * fM z) by (rewrite Hz; ring).
    assert (Hsr : sg (fneg r) * fM r = sg (fneg x) * fM r) by (rewrite Hfs; reflexivity).
    destruct (sum_reduce z x r (sg (fneg x)) lo (sg_cases _) Hsz eq_refl Hsr
                ltac:(unfold lo; lia) ltac:(unfold lo; lia)
                ltac:(rewrite Hfe, Hfn; unfold lo; lia))
      as (C & W & HC & HW & R1 & R2).
    rewrite Hz, HfM, Z.mul_0_l, Z.add_0_l in R1. rewrite Hz, Z.mul_0_l, Z.add_0_l in R2.
    assert (Hg : 0 <= fexp x - fn x - lo) by (unfold lo; lia).
    assert (Ear : fexp r - fn r - lo = (fn x - nr) + (fexp x - fn x - lo))
      by (rewrite Hfe, Hfn; lia).
    rewrite Ear, Bpow_add, Z.mul_assoc in R1 by lia.
    pose proof (Bpow_pos _ Hg) as PG.
    set (G := B ^ (fexp x - fn x - lo)) in *.
    set (a := Mr * B ^ (fn x - nr)) in *.
    assert (Ha0 : 0 <= a).
    { unfold a. apply Z.mul_nonneg_nonneg; [lia|]. apply Z.lt_le_incl, Bpow_pos. lia. }
    assert (HE : 0 < fM x * G) by (apply Z.mul_pos_pos; assumption).
    assert (HRs : 0 <= a * G <= fM x * G).
    { split; [apply Z.mul_nonneg_nonneg; lia | apply Z.mul_le_mono_nonneg_r; lia]. }
    pose proof (fden_pos r) as Prd.
    split.
    { unfold mpf_wf. rewrite HfM, Hfn. split; [lia|]. split; [|exact Hnrk].
      intros _. split; [exact Hnr | exact HMr0]. }
    split.
    { apply (abs_le_from_reduce _ _ W C (sg (fneg x)) (a * G) (fM x * G) HW HC (sg_cases _) HRs);
        [|exact R2].
      transitivity ((fnum r * add_den z x - add_num z x * fden r) * W + add_num z x * fden r * W);
        [ring|].
      rewrite R1, R2. ring. }
    split.
    { unfold acc_ok.
      destruct (Z.eqb_spec (add_num z x) 0) as [Hc|_].
      { exfalso. rewrite Hc in R2. rewrite !Z.mul_0_l in R2.
        symmetry in R2. apply Z.mul_eq_0 in R2. destruct R2 as [R2|R2]; [|lia].
        apply Z.mul_eq_0 in R2. destruct (sg_cases (fneg x)); lia. }
      apply Z.ltb_lt. replace (bits_of_prec prec + 1 - 2) with (bits_of_prec prec - 1) by lia.
      apply (acc_from_reduce _ _ _ W C (sg (fneg x)) (a * G - fM x * G) (fM x * G));
        try assumption; [apply sg_cases | lia |].
      replace (Z.abs (a * G - fM x * G)) with (fM x * G - a * G) by lia.
      replace ((fM x * G - a * G) * 2 ^ (bits_of_prec prec - 1))
        with ((fM x - a) * 2 ^ (bits_of_prec prec - 1) * G) by ring.
      apply Z.mul_lt_mono_pos_r; assumption. }
    intros Hf.
    pose proof (Hex Hf) as Heq. fold a in Heq. rewrite Heq in R1.
    assert (HX0 : (fnum r * add_den z x - add_num z x * fden r) * W = 0) by (rewrite R1; ring).
    apply Z.mul_eq_0 in HX0. destruct HX0 as [HX0|HX0]; [clear - HX0; lia | clear - HX0 HW; lia].
Qed.

(* ---------- main theorems ---------- *)

Lemma low_zero_elim x c k :
  k = c - (fexp x - fn x) -> low_zero x c -> k <= 0 \/ fM x mod B ^ k = 0.
Proof. intros -> [H|H]; [left; lia | right; exact H]. Qed.

Lemma add_window_nothing_lost prec u v : add_window prec u v -> add_nothing_lost prec u v.
Proof.
  intros (Hu & Hv & Hw). unfold add_nothing_lost, low_zero.
  split; [intros _; left; lia|]. split; [intros _; left; lia|].
  intros NZu NZv. specialize (Hw NZu NZv). split; left; lia.
Qed.

(* mpf_add on well-formed operands (of ANY lengths) that do not have opposite signs, for every
   destination precision prec >= 1 limbs, p = mpf_get_prec = 64 (prec - 1):
   - the result is well formed for prec (at most prec + 1 limbs, top limb non-zero);
   - truncation only: |r| <= |u + v|;
   - |r - (u + v)| < 2^(2-p) |u + v|;
   - r = u + v exactly when every limb that is cut off is zero (add_nothing_lost).
   The error bound proved is 2^(1-p): one bit better than the certificate asks for. *)
Theorem mpf_add_accurate_sharp : forall prec u v pu pv,
  1 <= prec -> mpf_wf pu u -> mpf_wf pv v -> same_sign u v ->
  mpf_wf prec (mpf_add prec u v)
  /\ Z.abs (fnum (mpf_add prec u v) * add_den u v) <= Z.abs (add_num u v * fden (mpf_add prec u v))
  /\ acc_ok (bits_of_prec prec + 1) (add_num u v) (add_den u v)
            (fnum (mpf_add prec u v)) (fden (mpf_add prec u v)) = true
  /\ (add_nothing_lost prec u v ->
      fnum (mpf_add prec u v) * add_den u v = add_num u v * fden (mpf_add prec u v)).
Proof.
  intros prec u v pu pv Hp (Hu0 & Hu1 & _) (Hv0 & Hv1 & _) Hss.
  pose proof B_pos as HB0.
  unfold mpf_add.
  destruct (Z.eq_dec (fM u) 0) as [Zu|NZu].
  { destruct (Hu0 Zu) as [Hn _]. rewrite Hn. cbn [Z.eqb].
    destruct (mpf_add_zero_accurate prec u v Hp Zu Hv0 Hv1) as (A1 & A2 & A3 & A4).
    split; [exact A1|]. split; [exact A2|]. split; [exact A3|].
    intros (Hw & _ & _). apply A4.
    destruct (low_zero_elim v (fexp v - (prec + 1)) (fn v - (prec + 1)) ltac:(lia) (Hw Zu)) as [H|H];
      [left; lia | right; exact H]. }
  destruct (Hu1 NZu) as [Hnu HMu].
  pose proof (nlimbs_pos (fM u) HMu) as Hnu1. rewrite <- Hnu in Hnu1.
  destruct (Z.eqb_spec (fn u) 0) as [Hc|_]; [lia|].
  destruct (Z.eq_dec (fM v) 0) as [Zv|NZv].
  { destruct (Hv0 Zv) as [Hn _]. rewrite Hn. cbn [Z.eqb].
    destruct (mpf_add_zero_accurate prec v u Hp Zv Hu0 Hu1) as (A1 & A2 & A3 & A4).
    rewrite (add_num_comm u v), (add_den_comm u v).
    split; [exact A1|]. split; [exact A2|]. split; [exact A3|].
    intros (_ & Hw & _). apply A4.
    destruct (low_zero_elim u (fexp u - (prec + 1)) (fn u - (prec + 1)) ltac:(lia) (Hw Zv)) as [H|H];
      [left; lia | right; exact H]. }
  destruct (Hv1 NZv) as [Hnv HMv].
  pose proof (nlimbs_pos (fM v) HMv) as Hnv1. rewrite <- Hnv in Hnv1.
  destruct (Z.eqb_spec (fn v) 0) as [Hc|_]; [lia|].
  pose proof (Hss NZu NZv) as Hneg.
  rewrite Hneg, eqb_reflx. cbn [negb].
  destruct (Z.ltb_spec (fexp u) (fexp v)) as [Hsw|Hns].
  - destruct (mpf_add_ordered_accurate prec v u Hp HMv Hnv HMu Hnu (eq_sym Hneg) ltac:(lia))
      as (A1 & _ & A2 & A3 & A4).
    rewrite (add_num_comm u v), (add_den_comm u v).
    split; [exact A1|]. split; [exact A2|]. split; [exact A3|].
    intros (_ & _ & Hw). destruct (Hw NZu NZv) as [Hwu Hwv].
    rewrite Z.max_r in Hwu, Hwv by lia.
    apply A4.
    + destruct (low_zero_elim v (fexp v - prec) (fn v - prec) ltac:(lia) Hwv) as [H|H];
        [left; lia | right; exact H].
    + destruct (low_zero_elim u (fexp v - prec) (fn u + (fexp v - fexp u) - prec) ltac:(lia) Hwu) as [H|H];
        [left; lia | right; exact H].
  - destruct (mpf_add_ordered_accurate prec u v Hp HMu Hnu HMv Hnv Hneg Hns)
      as (A1 & _ & A2 & A3 & A4).
    split; [exact A1|]. split; [exact A2|]. split; [exact A3|].
    intros (_ & _ & Hw). destruct (Hw NZu NZv) as [Hwu Hwv].
    rewrite Z.max_l in Hwu, Hwv by lia.
    apply A4.
    + destruct (low_zero_elim u (fexp u - prec) (fn u - prec) ltac:(lia) Hwu) as [H|H];
        [left; lia | right; exact H].
    + destruct (low_zero_elim v (fexp u - prec) (fn v + (fexp u - fexp v) - prec) ltac:(lia) Hwv) as [H|H];
        [left; lia | right; exact H].
Qed.

Theorem mpf_add_accurate : forall prec u v pu pv,
  1 <= prec -> mpf_wf pu u -> mpf_wf pv v -> same_sign u v ->
  mpf_wf prec (mpf_add prec u v)
  /\ Z.abs (fnum (mpf_add prec u v) * add_den u v) <= Z.abs (add_num u v * fden (mpf_add prec u v))
  /\ acc_ok (bits_of_prec prec) (add_num u v) (add_den u v)
            (fnum (mpf_add prec u v)) (fden (mpf_add prec u v)) = true
  /\ (add_window prec u v ->
      fnum (mpf_add prec u v) * add_den u v = add_num u v * fden (mpf_add prec u v)).
Proof.
  intros prec u v pu pv Hp Hu Hv Hss.
  destruct (mpf_add_accurate_sharp prec u v pu pv Hp Hu Hv Hss) as (A1 & A2 & A3 & A4).
  split; [exact A1|]. split; [exact A2|]. split; [apply acc_ok_weaken; exact A3|].
  intros Hw. apply A4, add_window_nothing_lost, Hw.
Qed.

Theorem mpf_add_wf : forall prec u v pu pv,
  1 <= prec -> mpf_wf pu u -> mpf_wf pv v -> same_sign u v -> mpf_wf prec (mpf_add prec u v).
Proof.
  intros prec u v pu pv Hp Hu Hv Hss.
  exact (proj1 (mpf_add_accurate prec u v pu pv Hp Hu Hv Hss)).
Qed.

(* the sum of two non-zero operands of the same sign is non-zero and has that sign; a carry makes
   the result one limb longer than the window *)
Theorem mpf_add_sign : forall prec u v pu pv,
  1 <= prec -> mpf_wf pu u -> mpf_wf pv v -> fM u <> 0 -> fM v <> 0 -> fneg u = fneg v ->
  fM (mpf_add prec u v) <> 0 /\ fneg (mpf_add prec u v) = fneg u
  /\ Z.max (fexp u) (fexp v) <= fexp (mpf_add prec u v) <= Z.max (fexp u) (fexp v) + 1.
Proof.
  intros prec u v pu pv Hp (_ & Hu1 & _) (_ & Hv1 & _) NZu NZv Hneg.
  destruct (Hu1 NZu) as [Hnu HMu]. destruct (Hv1 NZv) as [Hnv HMv].
  pose proof (nlimbs_pos (fM u) HMu) as Hnu1. rewrite <- Hnu in Hnu1.
  pose proof (nlimbs_pos (fM v) HMv) as Hnv1. rewrite <- Hnv in Hnv1.
  unfold mpf_add.
  destruct (Z.eqb_spec (fn u) 0) as [Hc|_]; [lia|].
  destruct (Z.eqb_spec (fn v) 0) as [Hc|_]; [lia|].
  rewrite Hneg, eqb_reflx. cbn [negb].
  destruct (Z.ltb_spec (fexp u) (fexp v)) as [Hsw|Hns].
  - destruct (mpf_add_ordered_core prec v u Hp HMv Hnv HMu Hnu ltac:(lia))
      as (Mr & nr & cy & Hr & Hcy & HMr0 & Hnr & Hnrk & HD & _).
    rewrite Hr. cbn [fM fneg fexp]. split; [lia|]. split; [reflexivity|].
    pose proof (nlimbs_pos Mr HMr0). lia.
  - destruct (mpf_add_ordered_core prec u v Hp HMu Hnu HMv Hnv Hns)
      as (Mr & nr & cy & Hr & Hcy & HMr0 & Hnr & Hnrk & HD & _).
    rewrite Hr. cbn [fM fneg fexp]. split; [lia|]. split; [exact Hneg|].
    pose proof (nlimbs_pos Mr HMr0). lia.
Qed.

(* ---------- the four layouts on concrete operands ---------- *)

(* v inside u:  u = [7 5 3] at exponent 3, v = [9] at exponent 2 *)
Example mpf_add_ex_inside :
  mpf_add 3 (mkf false (7 * B ^ 2 + 5 * B + 3) 3 3) (mkf false 9 1 2)
    = mkf false (7 * B ^ 2 + 14 * B + 3) 3 3.
Proof. vm_compute. reflexivity. Qed.

(* v inside u with a carry out: rsize = prec + 1, exponent + 1, the low zero limbs stay *)
Example mpf_add_ex_inside_carry :
  mpf_add 2 (mkf true (B ^ 2 - 1) 2 2) (mkf true 1 1 1) = mkf true (B ^ 2) 3 3.
Proof. vm_compute. reflexivity. Qed.

(* v extends below u, and below the window of prec = 3 limbs: its lowest limb 5 is dropped *)
Example mpf_add_ex_below :
  mpf_add 3 (mkf false (B + 2) 2 2) (mkf false (3 * B ^ 2 + 4 * B + 5) 3 1)
    = mkf false (B ^ 2 + 5 * B + 4) 3 2.
Proof. vm_compute. reflexivity. Qed.

(* v extends below u, carry out of the top limb *)
Example mpf_add_ex_below_carry :
  mpf_add 3 (mkf false (B ^ 2 - 1) 2 2) (mkf false (B ^ 2 + 6) 3 2)
    = mkf false (B ^ 3 + B ^ 2 - B + 6) 4 3.
Proof. vm_compute. reflexivity. Qed.

(* disjoint: u = [7] at exponent 5, v = [9] at exponent 2, two zero limbs in between;
   the operands are given in the other order, so the swap is exercised too *)
Example mpf_add_ex_gap :
  mpf_add 4 (mkf false 9 1 2) (mkf false 7 1 5) = mkf false (7 * B ^ 3 + 9) 4 5.
Proof. vm_compute. reflexivity. Qed.

(* v completely cancelled: the same operands with prec = 3 (ediff = 3 >= prec) *)
Example mpf_add_ex_cancelled :
  mpf_add 3 (mkf false 7 1 5) (mkf false 9 1 2) = mkf false 7 1 5.
Proof. vm_compute. reflexivity. Qed.

(* u longer than prec is cut to prec limbs first; a zero operand goes through mpf_set (prec + 1
   limbs); opposite signs are not modelled *)
Example mpf_add_ex_misc :
  mpf_add 2 (mkf false (7 * B ^ 2 + 5 * B + 3) 3 3) (mkf false 9 1 2) = mkf false (7 * B + 14) 2 3
  /\ mpf_add 2 (mkf false 0 0 0) (mkf true (B ^ 3 + 2 * B ^ 2 + 3 * B + 4) 4 1)
       = mkf true (B ^ 2 + 2 * B + 3) 3 1
  /\ mpf_add 2 (mkf false 5 1 1) (mkf true 5 1 1) = mkf false 0 0 0.
Proof. vm_compute. repeat split; reflexivity. Qed.

(* the certificate on the truncating example above: accepted at p = 128 and p + 1, not exact *)
Example mpf_add_ex_cert :
  let u := mkf false (B + 2) 2 2 in let v := mkf false (3 * B ^ 2 + 4 * B + 5) 3 1 in
  let r := mpf_add 3 u v in
  bits_of_prec 3 = 128
  /\ acc_ok 128 (add_num u v) (add_den u v) (fnum r) (fden r) = true
  /\ acc_ok 129 (add_num u v) (add_den u v) (fnum r) (fden r) = true
  /\ (fnum r * add_den u v =? add_num u v * fden r) = false
  /\ (Z.abs (fnum r * add_den u v) <? Z.abs (add_num u v * fden r)) = true.
Proof. vm_compute. repeat split; reflexivity. Qed.

(* the error bound 2^(1-p) cannot be improved by another bit: prec = 2 (p = 64), u = [1 0 B-1] is
   cut to [1 0] and v = [B-1], two limbs below the top of u, is cancelled: the certificate holds
   at p + 1 = 65 and fails at p + 2 = 66 *)
Example mpf_add_ex_tight :
  let u := mkf false (B ^ 2 + (B - 1)) 3 3 in let v := mkf false (B - 1) 1 1 in
  let r := mpf_add 2 u v in
  r = mkf false B 2 3 /\ bits_of_prec 2 = 64
  /\ acc_ok 65 (add_num u v) (add_den u v) (fnum r) (fden r) = true
  /\ acc_ok 66 (add_num u v) (add_den u v) (fnum r) (fden r) = false.
Proof. vm_compute. repeat split; reflexivity. Qed.
