(* PowmWProofs.v — the as-coded models of PowmWDefs.v (mpn_powm: win_size, getbit, getbits,
   table of odd powers, sliding-window loop, final reduction; mpz_powm wrapper) return the
   value-level specification.  No axioms. *)
From Coq Require Import ZArith Znumtheory List Lia Bool.
From Mpir Require Import Word Limbs MpnBasicDefs MpnBasicProofs MpzDefs MpzProofs DivDefs GcdDefs GcdProofs
  PowDefs PowProofs PowmWDefs.
Import ListNotations.
Local Open Scope Z_scope.

(* ------------------------------------------------------------------------------------ *)
(* powers of two and of B                                                               *)
(* ------------------------------------------------------------------------------------ *)

Lemma pow2_pos k : 0 <= k -> 0 < 2 ^ k.
Proof. intros. apply Z.pow_pos_nonneg; lia. Qed.

Lemma pow2_split j k : 0 <= k <= j -> 2 ^ j = 2 ^ k * 2 ^ (j - k).
Proof. intros H. rewrite <- Z.pow_add_r by lia. f_equal. lia. Qed.

Lemma Bpow_2 i : 0 <= i -> B ^ i = 2 ^ (64 * i).
Proof. intros Hi. rewrite B_pow2, <- Z.pow_mul_r by lia. reflexivity. Qed.

Lemma Bpow_pos_Z i : 0 <= i -> 0 < B ^ i.
Proof. intros. apply Z.pow_pos_nonneg; [exact B_pos|assumption]. Qed.

Lemma mod_pow2_add_mul a c j k : 0 <= k <= j -> (a + 2 ^ j * c) mod 2 ^ k = a mod 2 ^ k.
Proof.
  intros H. rewrite (pow2_split j k H).
  replace (a + 2 ^ k * 2 ^ (j - k) * c) with (a + (2 ^ (j - k) * c) * 2 ^ k) by ring.
  apply Z_mod_plus_full.
Qed.

Lemma mod_B_mod_pow2 x k : 0 <= k <= 64 -> (x mod B) mod 2 ^ k = x mod 2 ^ k.
Proof.
  intros Hk. pose proof B_pos as HB.
  rewrite (Z.div_mod x B) at 2 by lia.
  rewrite B_pow2 at 2. rewrite Z.add_comm. symmetry. apply mod_pow2_add_mul. exact Hk.
Qed.

Lemma div_div_pow2 a j k : 0 <= j -> 0 <= k -> a / 2 ^ j / 2 ^ k = a / 2 ^ (j + k).
Proof.
  intros Hj Hk. pose proof (pow2_pos j Hj). pose proof (pow2_pos k Hk). rewrite Z.div_div by lia.
  rewrite <- Z.pow_add_r by lia. reflexivity.
Qed.

Lemma ones_mask k : 0 <= k <= 63 -> wrap (wrap (Z.shiftl 1 k) - 1) = Z.ones k.
Proof.
  intros Hk. rewrite Z.shiftl_1_l.
  assert (H1 : 0 < 2 ^ k) by (apply pow2_pos; lia).
  assert (H2 : 2 ^ k < B).
  { rewrite B_pow2. apply Z.pow_lt_mono_r; lia. }
  rewrite (wrap_small (2 ^ k)) by lia. rewrite wrap_small by lia.
  rewrite Z.ones_equiv. lia.
Qed.

(* ------------------------------------------------------------------------------------ *)
(* limbs of a list and bits of its value                                                *)
(* ------------------------------------------------------------------------------------ *)

Lemma wf_nth l : wf l -> forall i, limb (nth i l 0).
Proof.
  induction l as [|x r IH]; intros H i.
  - destruct i; apply limb_0.
  - apply wf_inv in H. destruct H as [Hx Hr]. destruct i as [|i]; [exact Hx|apply IH; exact Hr].
Qed.

Lemma lat_limb l i : wf l -> limb (lat l i).
Proof. intros H. apply wf_nth. exact H. Qed.

Lemma eval_skipn_step : forall i l, eval (skipn i l) = nth i l 0 + B * eval (skipn (S i) l).
Proof.
  induction i as [|i IH]; intros l.
  - destruct l as [|x r]; cbn [skipn nth eval]; lia.
  - destruct l as [|x r].
    + cbn [skipn nth eval]. lia.
    + change (skipn (S i) (x :: r)) with (skipn i r).
      change (skipn (S (S i)) (x :: r)) with (skipn (S i) r). cbn [nth]. apply IH.
Qed.

Lemma eval_skipn_div : forall i l, wf l -> eval l / B ^ Z.of_nat i = eval (skipn i l).
Proof.
  induction i as [|i IH]; intros l Hl.
  - cbn [skipn Z.of_nat]. rewrite Z.pow_0_r. apply Z.div_1_r.
  - destruct l as [|x r].
    + cbn [skipn eval]. apply Z.div_0_l. pose proof (Bpow_pos (S i)). lia.
    + apply wf_inv in Hl. destruct Hl as [Hx Hr]. cbn [skipn eval].
      rewrite Bpow_succ. pose proof B_pos as HB. pose proof (Bpow_pos i) as HP.
      rewrite <- Z.div_div by lia.
      replace (x + B * eval r) with (x + eval r * B) by ring.
      rewrite Z.div_add by lia. unfold limb in Hx. rewrite (Z.div_small x B) by lia.
      cbn [Z.add]. apply IH. exact Hr.
Qed.

(* E i = lat l i + B * E (i+1) where E i = eval l / B^i *)
Lemma eval_div_step l i : wf l -> 0 <= i ->
  eval l / B ^ i = lat l i + B * (eval l / B ^ (i + 1)).
Proof.
  intros Hl Hi. unfold lat.
  rewrite <- (Z2Nat.id i) at 1 by exact Hi.
  replace (i + 1) with (Z.of_nat (S (Z.to_nat i))) by lia.
  rewrite !eval_skipn_div by exact Hl. apply eval_skipn_step.
Qed.

Lemma eval_div_nonneg l k : wf l -> 0 <= k -> 0 <= eval l / k.
Proof.
  intros Hl Hk. destruct (Z.eq_dec k 0) as [->|N]; [rewrite Zdiv_0_r; lia|].
  apply Z.div_pos; [apply eval_nonneg; exact Hl|lia].
Qed.

(* the bits of e from position p on, in terms of the two limbs involved *)
Lemma eval_div_pow2 l p : wf l -> 0 <= p ->
  eval l / 2 ^ p =
  lat l (p / 64) / 2 ^ (p mod 64)
  + 2 ^ (64 - p mod 64) * (lat l (p / 64 + 1) + B * (eval l / B ^ (p / 64 + 2))).
Proof.
  intros Hl Hp.
  pose proof (Z.div_mod p 64 ltac:(lia)) as Ep.
  pose proof (Z.mod_pos_bound p 64 ltac:(lia)) as Hs.
  assert (Hi : 0 <= p / 64) by (apply Z.div_pos; lia).
  set (i := p / 64) in *. set (s := p mod 64) in *.
  rewrite Ep at 1. rewrite <- div_div_pow2 by lia. rewrite <- Bpow_2 by lia.
  rewrite (eval_div_step l i Hl Hi).
  rewrite (eval_div_step l (i + 1) Hl ltac:(lia)).
  replace (i + 1 + 1) with (i + 2) by lia.
  set (K := lat l (i + 1) + B * (eval l / B ^ (i + 2))).
  assert (EB : B = 2 ^ (64 - s) * 2 ^ s).
  { rewrite B_pow2, <- Z.pow_add_r by lia. f_equal. lia. }
  rewrite EB at 1.
  replace (lat l i + 2 ^ (64 - s) * 2 ^ s * K) with (lat l i + (2 ^ (64 - s) * K) * 2 ^ s) by ring.
  rewrite Z.div_add by (pose proof (pow2_pos s); lia). reflexivity.
Qed.

(* ------------------------------------------------------------------------------------ *)
(* getbit, getbits                                                                      *)
(* ------------------------------------------------------------------------------------ *)

Lemma land_1 x : Z.land x 1 = x mod 2.
Proof. change 1 with (Z.ones 1). rewrite Z.land_ones by lia. reflexivity. Qed.

(* getbit (p, bi) is bit bi-1 of the exponent *)
Theorem getbit_spec : forall p bi, wf p -> 1 <= bi ->
  getbit p bi = (eval p / 2 ^ (bi - 1)) mod 2.
Proof.
  intros p bi Hp Hbi. unfold getbit.
  pose proof (Z.mod_pos_bound (bi - 1) 64 ltac:(lia)) as Hs.
  rewrite land_1.
  rewrite Z.shiftr_div_pow2 by lia.
  rewrite (eval_div_pow2 p (bi - 1) Hp ltac:(lia)).
  pose proof (mod_pow2_add_mul (lat p ((bi - 1) / 64) / 2 ^ ((bi - 1) mod 64))
    (lat p ((bi - 1) / 64 + 1) + B * (eval p / B ^ ((bi - 1) / 64 + 2)))
    (64 - (bi - 1) mod 64) 1 ltac:(lia)) as E.
  change (2 ^ 1) with 2 in E. symmetry. exact E.
Qed.

(* getbits (p, bi, nbits) is exactly bits [bi - nbits, bi) of the exponent — also when the
   window straddles a limb boundary — and bits [0, bi) when bi < nbits *)
Theorem getbits_spec : forall p bi nbits, wf p -> 0 <= bi -> 1 <= nbits <= 63 ->
  getbits p bi nbits =
  if bi <? nbits then eval p mod 2 ^ bi else (eval p / 2 ^ (bi - nbits)) mod 2 ^ nbits.
Proof.
  intros p bi nbits Hp Hbi Hnb. unfold getbits.
  destruct (Z.ltb_spec bi nbits) as [Hlt|Hge].
  - rewrite ones_mask by lia. rewrite Z.land_ones by lia.
    pose proof (eval_div_step p 0 Hp ltac:(lia)) as E0.
    rewrite Z.pow_0_r, Z.div_1_r in E0. rewrite E0.
    rewrite B_pow2. symmetry. apply mod_pow2_add_mul. lia.
  - cbv zeta. rewrite ones_mask by lia. rewrite Z.land_ones by lia.
    set (q := bi - nbits).
    pose proof (Z.mod_pos_bound q 64 ltac:(lia)) as Hs.
    rewrite (eval_div_pow2 p q Hp ltac:(lia)).
    set (i := q / 64). set (s := q mod 64) in *.
    rewrite Z.shiftr_div_pow2 by lia.
    destruct (Z.ltb_spec (64 - s) nbits) as [Hstr|Hin].
    + (* the window straddles limbs i and i+1 *)
      rewrite Z.shiftl_mul_pow2 by lia.
      unfold wrap. rewrite mod_B_mod_pow2 by lia.
      rewrite Z.add_mod by (pose proof (pow2_pos nbits); lia).
      rewrite mod_B_mod_pow2 by lia.
      rewrite <- Z.add_mod by (pose proof (pow2_pos nbits); lia).
      rewrite Z.mul_add_distr_l, Z.add_assoc.
      rewrite (Z.mul_comm (lat p (i + 1))).
      replace (2 ^ (64 - s) * (B * (eval p / B ^ (i + 2))))
        with (2 ^ (128 - s) * (eval p / B ^ (i + 2))).
      2:{ rewrite B_pow2. rewrite Z.mul_assoc, <- Z.pow_add_r by lia. do 2 f_equal. lia. }
      symmetry. apply mod_pow2_add_mul. lia.
    + symmetry. apply mod_pow2_add_mul. lia.
Qed.

(* ------------------------------------------------------------------------------------ *)
(* win_size                                                                             *)
(* ------------------------------------------------------------------------------------ *)

Lemma win_tab_last : lat win_tab 10 = B - 1.
Proof. vm_compute. reflexivity. Qed.

Lemma win_size_loop_range eb : eb <= B - 1 -> forall fuel k, 1 <= k <= 10 ->
  11 <= Z.of_nat fuel + k -> k <= win_size_loop fuel eb k <= 10.
Proof.
  intros Heb. induction fuel as [|f IH]; intros k Hk Hf.
  - cbn [Z.of_nat] in Hf. lia.
  - cbn [win_size_loop]. destruct (Z.ltb_spec (lat win_tab k) eb) as [Hlt|Hge]; [|lia].
    assert (k <> 10) by (intros ->; rewrite win_tab_last in Hlt; lia).
    specialize (IH (k + 1) ltac:(lia) ltac:(lia)). lia.
Qed.

Theorem win_size_range : forall eb, 0 <= eb < B -> 1 <= win_size eb <= 10.
Proof.
  intros eb Heb. unfold win_size.
  apply (win_size_loop_range eb ltac:(lia) 11%nat 1); cbn; lia.
Qed.

(* the thresholds of the table *)
Example win_size_thresholds :
  map win_size [1; 7; 8; 25; 26; 81; 82; 241; 242; 673; 674; 1793; 1794; 4609; 4610; 11521; 11522; 28161; 28162; B - 1]
  = [1; 1; 2; 2; 3; 3; 4; 4; 5; 5; 6; 6; 7; 7; 8; 8; 9; 9; 10; 10].
Proof. vm_compute. reflexivity. Qed.

(* ------------------------------------------------------------------------------------ *)
(* Montgomery representation                                                            *)
(* ------------------------------------------------------------------------------------ *)

Lemma mod_cancel a b c m : 0 < m -> Z.gcd m c = 1 -> (a * c) mod m = (b * c) mod m ->
  a mod m = b mod m.
Proof.
  intros Hm Hg E.
  pose proof (Z.div_mod (a * c) m ltac:(lia)) as Ea.
  pose proof (Z.div_mod (b * c) m ltac:(lia)) as Eb.
  assert (D : (m | c * (a - b))).
  { exists ((a * c) / m - (b * c) / m). rewrite E in Ea. lia. }
  apply Z.gauss in D; [|exact Hg].
  destruct D as (k & Ek).
  replace a with (b + k * m) by lia. apply Z_mod_plus_full.
Qed.

Lemma odd_lat0 l : wf l -> Z.odd (eval l) = Z.odd (lat l 0).
Proof.
  intros Hl. pose proof (eval_div_step l 0 Hl ltac:(lia)) as E.
  rewrite Z.pow_0_r, Z.div_1_r in E.
  set (X := eval l / B ^ (0 + 1)) in E. clearbody X. rewrite E.
  replace (lat l 0 + B * X) with (lat l 0 + 2 * (2 ^ 63 * X)).
  - apply Z.odd_add_mul_2.
  - rewrite B_pow2. change (2 ^ 64) with (2 * 2 ^ 63). ring.
Qed.

Section Mont.
  Variables (m : Z) (n : nat) (invm : Z).
  Let P := B ^ Z.of_nat n.
  Hypothesis Hm : 0 < m < P.
  Hypothesis Hodd : Z.odd m = true.
  Hypothesis Hinv : (m * invm) mod B = B - 1.
  Hypothesis Hi : 0 <= invm < B.

  Definition mont (x r : Z) : Prop := 0 <= r < P /\ r mod m = (x * P) mod m.
  Let redc (t : Z) := redc_1 t m n invm.

  Lemma gcd_m_P : Z.gcd m P = 1.
  Proof.
    unfold P. rewrite Bpow_2 by lia. rewrite Z.gcd_comm. apply gcd_pow2_odd; [lia|exact Hodd].
  Qed.

  Lemma mont_mul x y r s : mont x r -> mont y s -> mont (x * y) (redc (r * s)).
  Proof.
    intros [Hr Er] [Hs Es]. unfold redc.
    destruct (redc_1_spec (r * s) m n invm Hm Hinv Hi) as [Hb Eb]; [fold P; nia|].
    fold P in Hb, Eb. split; [exact Hb|].
    apply (mod_cancel _ _ P m ltac:(lia) gcd_m_P).
    rewrite Eb. rewrite Zmult_mod, Er, Es, <- Zmult_mod. f_equal. ring.
  Qed.

  Lemma mont_ext x y r : x = y -> mont x r -> mont y r.
  Proof. intros ->. auto. Qed.

  Lemma redcify_mont u : mont u (redcify u m n).
  Proof.
    unfold redcify. fold P.
    pose proof (Z.mod_pos_bound (P * u) m ltac:(lia)) as Hb.
    split; [lia|]. rewrite Z.mod_mod by lia. f_equal. ring.
  Qed.

  (* conversion out of Montgomery form: T = rp < B^n gives a result <= m *)
  Lemma redc_out x r : mont x r ->
    0 <= redc r <= m /\ (redc r) mod m = x mod m.
  Proof.
    intros [Hr Er].
    destruct (redc_loop_inv m invm Hinv ltac:(lia) n r ltac:(lia)) as (Q & HQ & EQ).
    fold P in HQ, EQ.
    unfold redc, redc_1. fold P. set (rl := redc_loop n r m invm) in *.
    assert (Hlo : 0 <= rl) by nia.
    assert (Hhi : rl <= m) by nia.
    destruct (Z.leb_spec P rl) as [Hge|Hlt]; [lia|].
    split; [lia|].
    apply (mod_cancel _ _ P m ltac:(lia) gcd_m_P).
    rewrite EQ, Z_mod_plus_full. exact Er.
  Qed.

  (* the table of odd powers *)
  Lemma precomp_spec b b2 : mont (b * b) b2 -> forall i j this_pp,
    mont (b ^ (2 * Z.of_nat j + 1)) this_pp ->
    length (precomp i this_pp b2 m n invm) = i /\
    forall k, (k < i)%nat ->
      mont (b ^ (2 * (Z.of_nat j + 1 + Z.of_nat k) + 1)) (nth k (precomp i this_pp b2 m n invm) (-1)).
  Proof.
    intros Hb2. induction i as [|i IH]; intros j this_pp Hp.
    - split; [reflexivity|]. intros k Hk. lia.
    - cbn [precomp]. set (nx := redc_1 (this_pp * b2) m n invm).
      assert (Hnx : mont (b ^ (2 * Z.of_nat (S j) + 1)) nx).
      { apply (mont_ext (b ^ (2 * Z.of_nat j + 1) * (b * b))); [|apply mont_mul; assumption].
        replace (2 * Z.of_nat (S j) + 1) with (2 * Z.of_nat j + 1 + 2) by lia.
        rewrite (Z.pow_add_r b (2 * Z.of_nat j + 1) 2) by lia. f_equal. ring. }
      destruct (IH (S j) nx Hnx) as [Hlen Hk]. split; [cbn [length]; lia|].
      intros [|k] Hlt; cbn [nth].
      + replace (2 * (Z.of_nat j + 1 + Z.of_nat 0) + 1) with (2 * Z.of_nat (S j) + 1) by lia. exact Hnx.
      + replace (2 * (Z.of_nat j + 1 + Z.of_nat (S k)) + 1)
          with (2 * (Z.of_nat (S j) + 1 + Z.of_nat k) + 1) by lia.
        apply Hk. lia.
  Qed.

  Definition table_ok (b : Z) (pp : list Z) (w : Z) : Prop :=
    forall j, 0 <= j < 2 ^ (w - 1) -> mont (b ^ (2 * j + 1)) (nth (Z.to_nat j) pp (-1)).

  Lemma table_spec b w : 1 <= w ->
    let pp0 := redcify b m n in
    let b2 := redc (pp0 * pp0) in
    table_ok b (pp0 :: precomp (Z.to_nat (Z.shiftl 1 (w - 1) - 1)) pp0 b2 m n invm) w.
  Proof.
    intros Hw pp0 b2 j Hj.
    assert (H0 : mont b pp0) by apply redcify_mont.
    assert (H2 : mont (b * b) b2) by (apply mont_mul; assumption).
    rewrite Z.shiftl_1_l.
    destruct (precomp_spec b b2 H2 (Z.to_nat (2 ^ (w - 1) - 1)) 0 pp0) as [_ Hk].
    { cbn [Z.of_nat]. rewrite Z.mul_0_r, Z.add_0_l, Z.pow_1_r. exact H0. }
    destruct (Z.eq_dec j 0) as [->|Nj].
    - cbn [Z.to_nat nth]. rewrite Z.mul_0_r, Z.add_0_l, Z.pow_1_r. exact H0.
    - replace (Z.to_nat j) with (S (Z.to_nat (j - 1))) by lia. cbn [nth].
      specialize (Hk (Z.to_nat (j - 1)) ltac:(lia)).
      replace (2 * (Z.of_nat 0 + 1 + Z.of_nat (Z.to_nat (j - 1))) + 1) with (2 * j + 1) in Hk by lia.
      exact Hk.
  Qed.

  (* do { square } while (--this_windowsize != 0) *)
  Lemma sqr_dowhile_spec : forall fuel x rp tw, mont x rp -> 1 <= tw <= Z.of_nat fuel ->
    exists rp', sqr_dowhile fuel m n invm rp tw = Some rp' /\ mont (x ^ (2 ^ tw)) rp'.
  Proof.
    induction fuel as [|f IH]; intros x rp tw Hx Htw; [cbn [Z.of_nat] in Htw; lia|].
    cbn [sqr_dowhile].
    assert (H2 : mont (x * x) (redc_1 (rp * rp) m n invm)) by (apply mont_mul; assumption).
    destruct (Z.eqb_spec (tw - 1) 0) as [E|N].
    - eexists. split; [reflexivity|]. replace tw with 1 by lia.
      apply (mont_ext (x * x)); [|exact H2]. change (2 ^ 1) with 2. rewrite Z.pow_2_r. reflexivity.
    - destruct (IH (x * x) _ (tw - 1) H2 ltac:(lia)) as (rp' & E' & H').
      exists rp'. split; [exact E'|].
      apply (mont_ext ((x * x) ^ 2 ^ (tw - 1))); [|exact H'].
      rewrite <- Z.pow_2_r, <- Z.pow_mul_r by (try apply Z.pow_nonneg; lia).
      f_equal. replace tw with (1 + (tw - 1)) at 2 by lia.
      rewrite Z.pow_add_r by lia. reflexivity.
  Qed.

  Variables (b : Z) (ep : list Z).
  Hypothesis Hep : wf ep.
  Let e := eval ep.

  Lemma e_nonneg : 0 <= e.
  Proof. apply eval_nonneg. exact Hep. Qed.

  Lemma e_shift_half ebi : 1 <= ebi -> e / 2 ^ (ebi - 1) = 2 * (e / 2 ^ ebi) + getbit ep ebi.
  Proof.
    intros H. rewrite getbit_spec by (assumption || lia).
    replace ebi with ((ebi - 1) + 1) at 2 by lia.
    rewrite <- div_div_pow2 by lia. change (2 ^ 1) with 2.
    apply Z.div_mod. lia.
  Qed.

  (* while (getbit (ep, ebi) == 0) { square; ebi--; if (ebi == 0) goto done; } *)
  Lemma skip0_spec : forall fuel rp ebi, mont (b ^ (e / 2 ^ ebi)) rp -> 1 <= ebi <= Z.of_nat fuel ->
    exists rp' ebi' dn, skip0 fuel ep m n invm rp ebi = Some (rp', ebi', dn)
      /\ mont (b ^ (e / 2 ^ ebi')) rp' /\ 0 <= ebi' <= ebi
      /\ (if dn then ebi' = 0 else 1 <= ebi' /\ getbit ep ebi' = 1).
  Proof.
    induction fuel as [|f IH]; intros rp ebi Hx Hebi; [cbn [Z.of_nat] in Hebi; lia|].
    cbn [skip0]. pose proof (e_shift_half ebi ltac:(lia)) as Eh.
    assert (Hgb : 0 <= getbit ep ebi < 2).
    { rewrite getbit_spec by (assumption || lia). apply Z.mod_pos_bound. lia. }
    destruct (Z.eqb_spec (getbit ep ebi) 0) as [E0|N0].
    - assert (H2 : mont (b ^ (e / 2 ^ (ebi - 1))) (redc_1 (rp * rp) m n invm)).
      { apply (mont_ext (b ^ (e / 2 ^ ebi) * b ^ (e / 2 ^ ebi))); [|apply mont_mul; assumption].
        rewrite Eh, E0, Z.add_0_r. rewrite <- Z.pow_add_r.
        - f_equal. lia.
        - apply Z.div_pos; [apply e_nonneg|apply pow2_pos; lia].
        - apply Z.div_pos; [apply e_nonneg|apply pow2_pos; lia]. }
      destruct (Z.eqb_spec (ebi - 1) 0) as [Ez|Nz].
      + do 3 eexists. split; [reflexivity|]. split; [exact H2|]. split; [lia|exact Ez].
      + destruct (IH _ (ebi - 1) H2 ltac:(lia)) as (rp' & ebi' & dn & E' & H' & Hb' & Hd').
        exists rp', ebi', dn. split; [exact E'|]. split; [exact H'|]. split; [lia|exact Hd'].
    - exists rp, ebi, false. split; [reflexivity|]. split; [exact Hx|]. split; [lia|]. split; lia.
  Qed.

  (* the arithmetic of one window: k bits below position ebi, top one set *)
  Lemma window_arith ebi k : 1 <= k <= ebi -> (e / 2 ^ (ebi - 1)) mod 2 = 1 ->
    let expbits := (e / 2 ^ (ebi - k)) mod 2 ^ k in
    let cnt := ctz expbits in
    let o := Z.shiftr expbits cnt in
    0 <= cnt < k /\ o = 2 * Z.shiftr o 1 + 1 /\ 0 <= Z.shiftr o 1 < 2 ^ (k - cnt - 1)
    /\ e / 2 ^ (ebi - k + cnt) = (e / 2 ^ ebi) * 2 ^ (k - cnt) + o.
  Proof.
    intros Hk Htop expbits cnt o.
    pose proof (pow2_pos k ltac:(lia)) as Hpk.
    pose proof (Z.mod_pos_bound (e / 2 ^ (ebi - k)) (2 ^ k) Hpk) as Hx. fold expbits in Hx.
    pose proof (Z.div_mod (e / 2 ^ (ebi - k)) (2 ^ k) ltac:(lia)) as Ed. fold expbits in Ed.
    rewrite div_div_pow2 in Ed by lia. replace (ebi - k + k) with ebi in Ed by lia.
    assert (Hnz : expbits <> 0).
    { intros Ez. rewrite Ez, Z.add_0_r in Ed.
      replace (ebi - 1) with ((ebi - k) + (k - 1)) in Htop by lia.
      rewrite <- div_div_pow2 in Htop by lia. rewrite Ed in Htop.
      rewrite (pow2_split k (k - 1)) in Htop by lia.
      replace (k - (k - 1)) with 1 in Htop by lia. change (2 ^ 1) with 2 in Htop.
      replace (2 ^ (k - 1) * 2 * (e / 2 ^ ebi)) with ((2 * (e / 2 ^ ebi)) * 2 ^ (k - 1)) in Htop by ring.
      rewrite Z.div_mul in Htop by (pose proof (pow2_pos (k - 1)); lia).
      rewrite Z.mul_comm, Z_mod_mult in Htop. discriminate. }
    destruct (strip2_spec expbits ltac:(lia)) as (Ps & Os & Es & _).
    pose proof (ctz_nonneg expbits) as Hc. fold cnt in Es, Hc.
    assert (Eo : o = strip2 expbits).
    { unfold o, strip2. fold cnt. apply Z.shiftr_div_pow2. exact Hc. }
    rewrite <- Eo in Ps, Os, Es.
    pose proof (pow2_pos cnt Hc) as Hpc.
    assert (Hck : cnt < k).
    { destruct (Z_lt_dec cnt k) as [|Hge]; [assumption|exfalso].
      assert (2 ^ k <= 2 ^ cnt) by (apply Z.pow_le_mono_r; lia). nia. }
    assert (Eo2 : o = 2 * Z.shiftr o 1 + 1).
    { rewrite Z.shiftr_div_pow2 by lia. change (2 ^ 1) with 2.
      pose proof (Z.div_mod o 2 ltac:(lia)) as E2. rewrite Zmod_odd, Os in E2. exact E2. }
    split; [lia|]. split; [exact Eo2|]. split.
    - assert (Ho : o < 2 ^ (k - cnt)).
      { rewrite (pow2_split k cnt) in Hx by lia. nia. }
      rewrite (pow2_split (k - cnt) 1) in Ho by lia. change (2 ^ 1) with 2 in Ho.
      replace (k - cnt - 1) with (k - cnt - 1) by lia. lia.
    - rewrite <- div_div_pow2 by lia. rewrite Ed, Es.
      rewrite (pow2_split k cnt) by lia.
      replace (2 ^ cnt * 2 ^ (k - cnt) * (e / 2 ^ ebi) + 2 ^ cnt * o)
        with ((e / 2 ^ ebi * 2 ^ (k - cnt) + o) * 2 ^ cnt) by ring.
      apply Z.div_mul. lia.
  Qed.

  Variables (pp : list Z) (w : Z).
  Hypothesis Hw : 1 <= w <= 63.
  Hypothesis Hpp : table_ok b pp w.

  (* what getbits / the ebi update / ctz compute for one window, as in the C text *)
  Lemma window_step ebi x rp0 : 1 <= ebi -> getbit ep ebi = 1 ->
    x = e / 2 ^ ebi -> mont (b ^ x) rp0 \/ (x = 0) ->
    let expbits := getbits ep ebi w in
    let this_w := if ebi <? w then w - (w - ebi) else w in
    let ebi1 := if ebi <? w then 0 else ebi - w in
    let cnt := ctz expbits in
    let o := Z.shiftr expbits cnt in
    1 <= this_w - cnt <= w /\ 0 <= ebi1 + cnt < ebi
    /\ mont (b ^ o) (nth (Z.to_nat (Z.shiftr o 1)) pp (-1))
    /\ e / 2 ^ (ebi1 + cnt) = x * 2 ^ (this_w - cnt) + o.
  Proof.
    intros Hebi Hbit Ex _ expbits this_w ebi1 cnt o.
    rewrite getbit_spec in Hbit by (assumption || lia).
    set (k := if ebi <? w then ebi else w).
    assert (Hk : 1 <= k <= ebi /\ k <= w) by (unfold k; destruct (Z.ltb_spec ebi w); lia).
    assert (Eb : expbits = (e / 2 ^ (ebi - k)) mod 2 ^ k).
    { unfold expbits. rewrite getbits_spec by (assumption || lia). unfold k.
      destruct (Z.ltb_spec ebi w); [|reflexivity].
      rewrite Z.sub_diag, Z.pow_0_r, Z.div_1_r. reflexivity. }
    assert (Et : this_w = k) by (unfold this_w, k; destruct (Z.ltb_spec ebi w); lia).
    assert (E1 : ebi1 = ebi - k) by (unfold ebi1, k; destruct (Z.ltb_spec ebi w); lia).
    destruct (window_arith ebi k ltac:(lia) Hbit) as (Hc & Eo & Ho & Ee).
    rewrite <- Eb in Hc, Eo, Ho, Ee. fold cnt in Hc, Eo, Ho, Ee. fold o in Eo, Ho, Ee.
    rewrite Et, E1, Ex. split; [lia|]. split; [lia|]. split; [|exact Ee].
    rewrite Eo at 1. apply Hpp.
    assert (2 ^ (k - cnt - 1) <= 2 ^ (w - 1)) by (apply Z.pow_le_mono_r; lia). lia.
  Qed.

  (* INNERLOOP *)
  Lemma powm_loop_spec : forall fuel rp ebi, mont (b ^ (e / 2 ^ ebi)) rp ->
    0 <= ebi < Z.of_nat fuel ->
    exists rp', powm_loop fuel ep pp w m n invm rp ebi = Some rp' /\ mont (b ^ e) rp'.
  Proof.
    induction fuel as [|f IH]; intros rp ebi Hx Hebi; [cbn [Z.of_nat] in Hebi; lia|].
    cbn [powm_loop].
    destruct (Z.eqb_spec ebi 0) as [E0|N0].
    { exists rp. split; [reflexivity|]. subst ebi. rewrite Z.pow_0_r, Z.div_1_r in Hx. exact Hx. }
    destruct (skip0_spec (Z.to_nat ebi) rp ebi Hx ltac:(lia)) as (rp1 & ebi1 & dn & E1 & H1 & Hb1 & Hd1).
    rewrite E1. destruct dn.
    { exists rp1. split; [reflexivity|]. subst ebi1. rewrite Z.pow_0_r, Z.div_1_r in H1. exact H1. }
    destruct Hd1 as [Hge1 Hbit1].
    destruct (window_step ebi1 (e / 2 ^ ebi1) rp1 Hge1 Hbit1 eq_refl (or_introl H1))
      as (Htw & Hnew & Htab & Ee).
    cbv zeta in Htw, Hnew, Htab, Ee.
    set (expbits := getbits ep ebi1 w) in *.
    assert (Epair : (let '(this_w, ebi0) :=
                if ebi1 <? w then (w - (w - ebi1), 0) else (w, ebi1 - w) in
              match sqr_dowhile (Z.to_nat w) m n invm rp1 (this_w - ctz expbits) with
              | Some rp0 =>
                  powm_loop f ep pp w m n invm
                    (redc_1 (rp0 * nth (Z.to_nat (Z.shiftr (Z.shiftr expbits (ctz expbits)) 1)) pp (-1)) m n invm)
                    (ebi0 + ctz expbits)
              | None => None
              end) =
             match sqr_dowhile (Z.to_nat w) m n invm rp1
                     ((if ebi1 <? w then w - (w - ebi1) else w) - ctz expbits) with
              | Some rp0 =>
                  powm_loop f ep pp w m n invm
                    (redc_1 (rp0 * nth (Z.to_nat (Z.shiftr (Z.shiftr expbits (ctz expbits)) 1)) pp (-1)) m n invm)
                    ((if ebi1 <? w then 0 else ebi1 - w) + ctz expbits)
              | None => None
              end).
    { destruct (ebi1 <? w); reflexivity. }
    cbv zeta. rewrite Epair. clear Epair.
    set (tw := (if ebi1 <? w then w - (w - ebi1) else w) - ctz expbits) in *.
    set (ebi2 := (if ebi1 <? w then 0 else ebi1 - w) + ctz expbits) in *.
    destruct (sqr_dowhile_spec (Z.to_nat w) _ rp1 tw H1 ltac:(lia)) as (rp2 & E2 & H2).
    rewrite E2.
    apply IH; [|lia].
    rewrite Ee. rewrite Z.pow_add_r.
    - rewrite Z.pow_mul_r.
      + apply mont_mul; assumption.
      + apply Z.div_pos; [apply e_nonneg|apply pow2_pos; lia].
      + apply Z.pow_nonneg; lia.
    - apply Z.mul_nonneg_nonneg; [apply Z.div_pos; [apply e_nonneg|apply pow2_pos; lia]|apply Z.pow_nonneg; lia].
    - apply Z.shiftr_nonneg. unfold expbits.
      rewrite getbits_spec by (assumption || lia).
      destruct (ebi1 <? w); apply Z.mod_pos_bound; apply pow2_pos; lia.
  Qed.
End Mont.

(* ------------------------------------------------------------------------------------ *)
(* n-limb areas                                                                         *)
(* ------------------------------------------------------------------------------------ *)

Lemma to_limbs_length : forall n v, length (to_limbs n v) = n.
Proof. induction n as [|n IH]; intros v; cbn [to_limbs length]; [reflexivity|]. rewrite IH. reflexivity. Qed.

Lemma to_limbs_wf : forall n v, wf (to_limbs n v).
Proof.
  induction n as [|n IH]; intros v; cbn [to_limbs]; [apply wf_nil|].
  apply wf_cons; [apply Z.mod_pos_bound; exact B_pos|apply IH].
Qed.

Lemma to_limbs_eval : forall n v, eval (to_limbs n v) = v mod B ^ Z.of_nat n.
Proof.
  induction n as [|n IH]; intros v; cbn [to_limbs eval].
  - cbn [Z.of_nat]. rewrite Z.pow_0_r, Z.mod_1_r. reflexivity.
  - rewrite IH, Bpow_succ. pose proof B_pos. pose proof (Bpow_pos n).
    rewrite Z.rem_mul_r by lia. reflexivity.
Qed.

Lemma to_limbs_eval_small n v : 0 <= v < B ^ Z.of_nat n -> eval (to_limbs n v) = v.
Proof. intros H. rewrite to_limbs_eval. apply Z.mod_small. exact H. Qed.

(* ------------------------------------------------------------------------------------ *)
(* MPN_SIZEINBASE_2EXP                                                                  *)
(* ------------------------------------------------------------------------------------ *)

Lemma len_nonneg l : 0 <= len l.
Proof. unfold len. lia. Qed.

Lemma len_pos l : l <> [] -> 1 <= len l.
Proof. destruct l; [congruence|]. unfold len. cbn [length]. lia. Qed.

Lemma sizeinbase_spec el : wf el -> el <> [] -> lat el (len el - 1) <> 0 ->
  let ebi := sizeinbase_2exp el in
  1 <= ebi <= 64 * len el /\ 2 ^ (ebi - 1) <= eval el < 2 ^ ebi.
Proof.
  intros Hel Hne Htop. cbv zeta.
  pose proof (len_pos el Hne) as HL. set (L := len el) in *.
  pose proof (lat_limb el (L - 1) Hel) as Hlimb. unfold limb in Hlimb.
  set (top := lat el (L - 1)) in *.
  assert (Ht : 0 < top) by lia.
  pose proof (Z.log2_spec top Ht) as Hlg. pose proof (Z.log2_nonneg top) as Hlg0.
  assert (Hlg1 : Z.log2 top < 64).
  { apply Z.log2_lt_pow2; [lia|]. rewrite <- B_pow2. lia. }
  set (lg := Z.log2 top) in *.
  assert (Eebi : sizeinbase_2exp el = 64 * (L - 1) + lg + 1).
  { unfold sizeinbase_2exp. fold L. fold top. unfold clz. fold lg.
    rewrite Z.div_1_r. lia. }
  rewrite Eebi.
  pose proof (eval_div_step el (L - 1) Hel ltac:(lia)) as Ed. fold top in Ed.
  replace (L - 1 + 1) with L in Ed by lia.
  pose proof (eval_lt el Hel) as Hlt. fold L in Hlt.
  pose proof (eval_nonneg el Hel) as Hnn.
  rewrite (Z.div_small (eval el) (B ^ L)) in Ed by lia. rewrite Z.mul_0_r, Z.add_0_r in Ed.
  pose proof (Bpow_pos_Z (L - 1) ltac:(lia)) as HP.
  pose proof (Z.div_mod (eval el) (B ^ (L - 1)) ltac:(lia)) as Em. rewrite Ed in Em.
  pose proof (Z.mod_pos_bound (eval el) (B ^ (L - 1)) HP) as Hr.
  split; [lia|].
  replace (64 * (L - 1) + lg + 1 - 1) with (64 * (L - 1) + lg) by lia.
  replace (64 * (L - 1) + lg + 1) with (64 * (L - 1) + (lg + 1)) by lia.
  rewrite !Z.pow_add_r by lia. rewrite <- !Bpow_2 by lia.
  replace (Z.succ lg) with (lg + 1) in Hlg by lia.
  set (Pw := B ^ (L - 1)) in *. set (rr := eval el mod Pw) in *.
  assert (A1 : Pw * 2 ^ lg <= Pw * top) by (apply Z.mul_le_mono_nonneg_l; lia).
  assert (A2 : Pw * (top + 1) <= Pw * 2 ^ (lg + 1)) by (apply Z.mul_le_mono_nonneg_l; lia).
  assert (A3 : Pw * (top + 1) = Pw * top + Pw) by ring.
  rewrite (Z.pow_add_r 2 lg 1) in A2 by lia.
  split; lia.
Qed.

(* modlimb_invert (mip[0], mp[0]); mip[0] = -mip[0]; *)
Lemma invm_aux m0 X i : (m0 * i) mod B = 1 -> ((m0 + B * X) * wrap (- i)) mod B = B - 1.
Proof.
  intros Ei. pose proof B_pos as HB. pose proof B_gt_1 as HB1.
  unfold wrap. rewrite Zmult_mod_idemp_r.
  replace ((m0 + B * X) * - i) with (- (m0 * i) + (- X * i) * B) by ring.
  rewrite Z_mod_plus_full.
  rewrite Z.mod_opp_l_nz by lia. lia.
Qed.

Lemma invm_spec ml : wf ml -> Z.odd (lat ml 0) = true ->
  let invm := wrap (- binvert_limb (lat ml 0)) in
  (eval ml * invm) mod B = B - 1 /\ 0 <= invm < B.
Proof.
  intros Hml Hodd. cbv zeta. pose proof B_pos as HB.
  pose proof (lat_limb ml 0 Hml) as Hl. unfold limb in Hl.
  assert (H0 : 0 < lat ml 0 < B).
  { destruct (Z.eq_dec (lat ml 0) 0) as [E|N]; [rewrite E in Hodd; discriminate|lia]. }
  pose proof (binvert_limb_spec (lat ml 0) H0 Hodd) as Ei.
  split; [|apply Z.mod_pos_bound; lia].
  pose proof (eval_div_step ml 0 Hml ltac:(lia)) as E.
  rewrite Z.pow_0_r, Z.div_1_r in E. rewrite E.
  apply invm_aux. exact Ei.
Qed.

(* ------------------------------------------------------------------------------------ *)
(* mpn_powm                                                                             *)
(* ------------------------------------------------------------------------------------ *)

(* MAIN THEOREM (mpn_powm): for every odd modulus, every base and every exponent >= 1 (top
   limb non-zero) the as-coded routine returns the n limbs of b^e mod m, in [0, m). *)
Theorem mpn_powm_c_spec : forall bl el ml,
  wf bl -> wf el -> wf ml ->
  el <> [] -> lat el (len el - 1) <> 0 -> 64 * len el < B ->
  Z.odd (lat ml 0) = true ->
  mpn_powm_c bl el ml = to_limbs (length ml) (eval bl ^ eval el mod eval ml).
Proof.
  intros bl el ml Hbl Hel Hml Hne Htop Hsz Hodd.
  pose proof B_pos as HB.
  set (n := length ml). set (m := eval ml). set (b := eval bl). set (e := eval el).
  assert (Hoddm : Z.odd m = true) by (unfold m; rewrite odd_lat0 by exact Hml; exact Hodd).
  assert (Hm : 0 < m < B ^ Z.of_nat n).
  { pose proof (eval_nonneg ml Hml) as Hnn. pose proof (eval_lt ml Hml) as Hlt. fold m in Hnn, Hlt.
    unfold len in Hlt. fold n in Hlt.
    destruct (Z.eq_dec m 0) as [E|N]; [rewrite E in Hoddm; discriminate|lia]. }
  destruct (invm_spec ml Hml Hodd) as [Hinv Hi]. fold m in Hinv.
  destruct (sizeinbase_spec el Hel Hne Htop) as [Hebi He]. fold e in He.
  unfold mpn_powm_c. fold n. fold m. fold b.
  set (invm := wrap (- binvert_limb (lat ml 0))) in *.
  set (ebi0 := sizeinbase_2exp el) in *.
  pose proof (win_size_range ebi0 ltac:(lia)) as Hw.
  set (w := win_size ebi0) in *.
  set (pp0 := redcify b m n).
  set (pp := pp0 :: precomp (Z.to_nat (Z.shiftl 1 (w - 1) - 1)) pp0 (redc_1 (pp0 * pp0) m n invm) m n invm).
  assert (Hpp : table_ok m n b pp w).
  { apply (table_spec m n invm Hm Hoddm Hinv Hi b w). lia. }
  assert (Hbit : getbit el ebi0 = 1).
  { rewrite getbit_spec by (assumption || lia). fold e.
    assert (E1 : e / 2 ^ (ebi0 - 1) = 1).
    { pose proof (pow2_pos (ebi0 - 1) ltac:(lia)) as Hp.
      assert (Hp2 : 2 ^ ebi0 = 2 * 2 ^ (ebi0 - 1)).
      { rewrite <- Z.pow_succ_r by lia. f_equal. lia. }
      symmetry. apply (Z.div_unique e (2 ^ (ebi0 - 1)) 1 (e - 2 ^ (ebi0 - 1))); lia. }
    rewrite E1. reflexivity. }
  assert (Ex0 : 0 = e / 2 ^ ebi0).
  { symmetry. apply Z.div_small. lia. }
  destruct (window_step m n invm Hinv Hi b el Hel pp w ltac:(lia) Hpp ebi0 0 0 ltac:(lia) Hbit Ex0 (or_intror eq_refl))
    as (Htw & Hnew & Htab & Ee).
  cbv zeta in Htw, Hnew, Htab, Ee. fold e in Ee.
  set (expbits := getbits el ebi0 w) in *.
  set (ebi2 := (if ebi0 <? w then 0 else ebi0 - w) + ctz expbits) in *.
  set (o := Z.shiftr expbits (ctz expbits)) in *.
  set (rp0 := nth (Z.to_nat (Z.shiftr o 1)) pp (-1)) in *.
  rewrite Z.mul_0_l, Z.add_0_l in Ee.
  assert (H0 : mont m n (b ^ (e / 2 ^ ebi2)) rp0) by (rewrite Ee; exact Htab).
  destruct (powm_loop_spec m n invm Hm Hoddm Hinv Hi b el Hel pp w ltac:(lia) Hpp
              (S (Z.to_nat ebi2)) rp0 ebi2 H0 ltac:(lia)) as (rp' & El & Hl).
  fold e in Hl. rewrite El.
  destruct (redc_out m n invm Hm Hoddm Hinv Hi (b ^ e) rp' Hl) as [Hr Er].
  set (r := redc_1 rp' m n invm) in *.
  set (rl := to_limbs n r).
  assert (Hrl : wf rl) by apply to_limbs_wf.
  assert (Lrl : length rl = n) by apply to_limbs_length.
  assert (Erl : eval rl = r) by (apply to_limbs_eval_small; lia).
  rewrite cmp_spec by (try assumption; rewrite Lrl; reflexivity).
  rewrite Erl. fold m.
  pose proof (Z.mod_pos_bound (b ^ e) m ltac:(lia)) as Hres.
  destruct (Z.leb_spec 0 (Z.sgn (r - m))) as [Hge|Hlt].
  - (* rp >= m, i.e. rp = m: mpn_sub_n *)
    assert (Erm : r = m) by lia.
    destruct (sub_n_spec rl ml Hrl Hml ltac:(rewrite Lrl; reflexivity)) as (Es & Ws & Ls & Cs).
    rewrite Erl in Es. fold m in Es. unfold len in Es. rewrite Lrl in Es.
    pose proof (eval_nonneg _ Ws) as Hs0. pose proof (eval_lt _ Ws) as Hs1.
    unfold len in Hs1. rewrite Ls, Lrl in Hs1.
    apply eval_inj; [exact Ws|apply to_limbs_wf|rewrite Ls, Lrl, to_limbs_length; reflexivity|].
    rewrite to_limbs_eval_small by lia.
    rewrite <- Er, Erm, Z_mod_same_full.
    destruct Cs as [C|C]; rewrite C in Es; nia.
  - assert (Hrm : r < m) by lia.
    unfold rl. f_equal. rewrite <- Er. symmetry. apply Z.mod_small. lia.
Qed.

(* the same statement on values *)
Corollary mpn_powm_c_value : forall bl el ml,
  wf bl -> wf el -> wf ml ->
  el <> [] -> lat el (len el - 1) <> 0 -> 64 * len el < B ->
  Z.odd (lat ml 0) = true ->
  length (mpn_powm_c bl el ml) = length ml /\ wf (mpn_powm_c bl el ml)
  /\ eval (mpn_powm_c bl el ml) = eval bl ^ eval el mod eval ml
  /\ 0 <= eval (mpn_powm_c bl el ml) < eval ml.
Proof.
  intros bl el ml Hbl Hel Hml Hne Htop Hsz Hodd.
  rewrite mpn_powm_c_spec by assumption.
  assert (Hm : 0 < eval ml < B ^ Z.of_nat (length ml)).
  { pose proof (eval_nonneg ml Hml). pose proof (eval_lt ml Hml) as Hlt. unfold len in Hlt.
    assert (Ho : Z.odd (eval ml) = true) by (rewrite odd_lat0 by exact Hml; exact Hodd).
    destruct (Z.eq_dec (eval ml) 0) as [E|N]; [rewrite E in Ho; discriminate|lia]. }
  pose proof (Z.mod_pos_bound (eval bl ^ eval el) (eval ml) ltac:(lia)) as Hres.
  split; [apply to_limbs_length|]. split; [apply to_limbs_wf|].
  rewrite to_limbs_eval_small by lia. split; [reflexivity|exact Hres].
Qed.

Example mpn_powm_c_example :
  let bl := [5; 7; 9] in let el := [12345678901234567890; 77] in let ml := [18446744073709551557; 3] in
  wfb bl = true /\ wfb el = true /\ wfb ml = true /\ Z.odd (lat ml 0) = true
  /\ negb (lat el (len el - 1) =? 0) = true
  /\ mpn_powm_c bl el ml = [16043941178559748794; 2]
  /\ eval [16043941178559748794; 2] = powm_bin (eval bl) (eval el) (eval ml).
Proof. vm_compute. repeat split; reflexivity. Qed.

(* ------------------------------------------------------------------------------------ *)
(* mpz_powm: normalisation and sign handling                                            *)
(* ------------------------------------------------------------------------------------ *)

Lemma strip_prefix : forall l, firstn (length (strip l)) l = strip l.
Proof.
  induction l as [|x r IH]; [reflexivity|].
  cbn [strip]. destruct (strip r) as [|y s] eqn:Es.
  - destruct (x =? 0); [reflexivity|]. cbn [length firstn]. reflexivity.
  - change (firstn (length (x :: y :: s)) (x :: r)) with (x :: firstn (length (y :: s)) r).
    rewrite IH. reflexivity.
Qed.

(* MPN_NORMALIZE then SIZ(r) = rn; MPN_COPY (PTR(r), rp, rn) *)
Lemma ret_norm rp : ret (norm_len rp) rp = Ok (mk_norm false rp).
Proof.
  unfold ret, norm_len, mk_norm, len. rewrite Nat2Z.id, strip_prefix. reflexivity.
Qed.

Lemma norm_len_zero rp : wf rp -> (norm_len rp = 0 <-> eval rp = 0).
Proof.
  intros Hw. unfold norm_len, len. rewrite <- (strip_eval rp).
  pose proof (strip_normalized rp) as Hn. pose proof (strip_wf rp Hw) as Hs.
  destruct (strip rp) as [|y s] eqn:Es.
  - cbn. tauto.
  - split; [cbn [length]; lia|]. intros E0. exfalso.
    destruct Hn as [Hn|Hn]; [discriminate|].
    (* a normalized non-empty list has a positive value *)
    assert (Hall : forall l, wf l -> eval l = 0 -> forall k, nth k l 0 = 0).
    { induction l as [|a l IH]; intros Hl El k; [destruct k; reflexivity|].
      apply wf_inv in Hl. destruct Hl as [Ha Hl]. unfold limb in Ha. cbn [eval] in El.
      pose proof (eval_nonneg l Hl). pose proof B_pos.
      assert (a = 0 /\ eval l = 0) as [E1 E2] by nia.
      destruct k; [exact E1|]. cbn [nth]. apply IH; assumption. }
    assert (Hlast : forall l, (forall k, nth k l 0 = 0) -> last l 0 = 0).
    { induction l as [|a l IH]; intros H; [reflexivity|].
      destruct l as [|c l']; [exact (H 0%nat)|].
      change (last (a :: c :: l') 0) with (last (c :: l') 0). apply IH. intros k. exact (H (S k)). }
    apply Hn. apply Hlast. apply Hall; assumption.
Qed.

Lemma eval0_last0 l : wf l -> eval l = 0 -> last l 0 = 0.
Proof.
  intros Hw E0.
  assert (Hall : forall l, wf l -> eval l = 0 -> forall k, nth k l 0 = 0).
  { clear. induction l as [|a l IH]; intros Hl El k; [destruct k; reflexivity|].
    apply wf_inv in Hl. destruct Hl as [Ha Hl]. unfold limb in Ha. cbn [eval] in El.
    pose proof (eval_nonneg l Hl). pose proof B_pos.
    assert (a = 0 /\ eval l = 0) as [E1 E2] by nia.
    destruct k; [exact E1|]. cbn [nth]. apply IH; assumption. }
  assert (Hlast : forall l, (forall k, nth k l 0 = 0) -> last l 0 = 0).
  { clear. induction l as [|a l IH]; intros H; [reflexivity|].
    destruct l as [|c l']; [exact (H 0%nat)|].
    change (last (a :: c :: l') 0) with (last (c :: l') 0). apply IH. intros k. exact (H (S k)). }
  apply Hlast. apply Hall; assumption.
Qed.

Lemma lat_last l : l <> [] -> lat l (len l - 1) = last l 0.
Proof.
  unfold lat. induction l as [|a l IH]; [congruence|]. intros _.
  destruct l as [|c l']; [reflexivity|].
  replace (Z.to_nat (len (a :: c :: l') - 1)) with (S (Z.to_nat (len (c :: l') - 1)))
    by (unfold len; cbn [length]; lia).
  cbn [nth]. change (last (a :: c :: l') 0) with (last (c :: l') 0). apply IH. discriminate.
Qed.

Lemma wf_d_nonempty z : mpz_wf z -> sz z <> 0 -> d z <> [].
Proof. intros (Hs & _ & _) Hz E. rewrite E in Hs. cbn in Hs. lia. Qed.

Lemma wf_eval_pos z : mpz_wf z -> sz z <> 0 -> 0 < eval (d z).
Proof.
  intros Hz Hs. pose proof (wf_d_nonempty z Hz Hs) as Hne. destruct Hz as (_ & Hw & Hn).
  pose proof (eval_nonneg _ Hw). destruct (Z.eq_dec (eval (d z)) 0) as [E|N]; [|lia].
  exfalso. destruct Hn as [Hn|Hn]; [contradiction|]. apply Hn. apply eval0_last0; assumption.
Qed.

Lemma wf_value_abs z : mpz_wf z -> Z.abs (value z) = eval (d z).
Proof.
  intros Hz. destruct (Z.eq_dec (sz z) 0) as [E|N].
  - destruct Hz as (Hs & _ & _). rewrite E in Hs. unfold value. rewrite E.
    destruct (d z); [reflexivity|unfold len in Hs; cbn [length] in Hs; lia].
  - pose proof (wf_eval_pos z Hz N). unfold value.
    destruct (sz z); [congruence| |]; cbn [Z.sgn]; lia.
Qed.

Lemma wf_value_neg z : mpz_wf z -> (sz z <? 0) = (value z <? 0).
Proof.
  intros Hz. destruct (Z.eq_dec (sz z) 0) as [E|N].
  - unfold value. rewrite E. reflexivity.
  - pose proof (wf_eval_pos z Hz N). unfold value.
    destruct (sz z) eqn:Es; try congruence.
    + cbn [Z.sgn]. destruct (Z.ltb_spec (1 * eval (d z)) 0); [lia|reflexivity].
    + cbn [Z.sgn]. destruct (Z.ltb_spec (-1 * eval (d z)) 0); [reflexivity|lia].
Qed.

Lemma wf_value_zero z : mpz_wf z -> (sz z = 0 <-> value z = 0).
Proof.
  intros Hz. split; intros E.
  - unfold value. rewrite E. reflexivity.
  - destruct (Z.eq_dec (sz z) 0) as [|N]; [assumption|exfalso].
    pose proof (wf_eval_pos z Hz N). pose proof (wf_value_abs z Hz). lia.
Qed.

(* the tail of mpz_powm: normalize, complement for a negative base, normalize again *)
Lemma finish_value mp r (neg : bool) : wf mp -> 0 <= r < eval mp ->
  let rp := to_limbs (length mp) r in
  let rn := norm_len rp in
  exists z,
    (if neg && negb (rn =? 0)
     then let rp' := fst (sub mp (firstn (Z.to_nat rn) rp)) in ret (norm_len rp') rp'
     else ret rn rp) = Ok z
    /\ value z = (if neg && negb (r =? 0) then eval mp - r else r) /\ mpz_wf z.
Proof.
  intros Hmp Hr rp rn.
  pose proof (eval_lt mp Hmp) as Hlt. unfold len in Hlt.
  assert (Wrp : wf rp) by apply to_limbs_wf.
  assert (Erp : eval rp = r) by (apply to_limbs_eval_small; lia).
  assert (Lrp : length rp = length mp) by apply to_limbs_length.
  assert (Eb : (rn =? 0) = (r =? 0)).
  { pose proof (norm_len_zero rp Wrp) as Hz. fold rn in Hz. rewrite Erp in Hz.
    destruct (Z.eqb_spec rn 0), (Z.eqb_spec r 0); tauto || reflexivity. }
  rewrite Eb. destruct (neg && negb (r =? 0)) eqn:Ec.
  - cbv zeta. rewrite ret_norm.
    assert (Ef : firstn (Z.to_nat rn) rp = strip rp).
    { unfold rn, norm_len, len. rewrite Nat2Z.id. apply strip_prefix. }
    rewrite Ef.
    pose proof (strip_wf rp Wrp) as Ws. pose proof (strip_length_le rp) as Ls.
    destruct (sub_spec mp (strip rp) Hmp Ws ltac:(lia)) as (Es & Wr & Lr & Cs).
    rewrite strip_eval, Erp in Es.
    pose proof (eval_nonneg _ Wr) as H0. pose proof (eval_lt _ Wr) as H1. unfold len in H1, Es.
    rewrite Lr in H1.
    assert (Ev : eval (fst (sub mp (strip rp))) = eval mp - r).
    { destruct Cs as [C|C]; rewrite C in Es; nia. }
    destruct (mk_norm_spec false _ Wr) as [V W]. eexists. split; [reflexivity|].
    split; [rewrite V; exact Ev|exact W].
  - change (ret rn rp) with (ret (norm_len rp) rp). rewrite ret_norm. destruct (mk_norm_spec false _ Wrp) as [V W]. eexists. split; [reflexivity|].
    split; [rewrite V; exact Erp|exact W].
Qed.

Lemma neg_fix bv e M : 0 < M ->
  let r := Z.abs bv ^ e mod M in
  (if Z.odd e && (bv <? 0) && negb (r =? 0) then M - r else r) = bv ^ e mod M.
Proof.
  intros HM r. unfold r. set (A := Z.abs bv ^ e).
  destruct (Z.odd e) eqn:Oe; cbn [andb].
  - destruct (Z.ltb_spec bv 0) as [Hlt|Hge]; cbn [andb].
    + assert (Eb : bv ^ e = - A).
      { unfold A. rewrite <- Z.pow_opp_odd by (apply Z.odd_spec; exact Oe). f_equal. lia. }
      rewrite Eb.
      destruct (Z.eqb_spec (A mod M) 0) as [Ez|Nz]; cbn [negb].
      * rewrite Z.mod_opp_l_z by lia. exact Ez.
      * rewrite Z.mod_opp_l_nz by lia. reflexivity.
    + unfold A. rewrite Z.abs_eq by lia. reflexivity.
  - unfold A. destruct (Z.abs_spec bv) as [[_ Ea]|[_ Ea]]; rewrite Ea; [reflexivity|].
    rewrite Z.pow_opp_even; [reflexivity|].
    apply Z.even_spec. rewrite <- Z.negb_odd, Oe. reflexivity.
Qed.

Lemma odd_land1 el : wf el -> negb (Z.land (lat el 0) 1 =? 0) = Z.odd (eval el).
Proof.
  intros Hel. rewrite land_1, odd_lat0 by exact Hel. rewrite Zmod_odd.
  destruct (Z.odd (lat el 0)); reflexivity.
Qed.

(* the general case for an odd modulus: mpn_powm alone *)
Lemma powm_general_odd_spec b el m :
  mpz_wf b -> wf el -> el <> [] -> lat el (len el - 1) <> 0 -> 64 * len el < B ->
  mpz_wf m -> Z.odd (lat (d m) 0) = true ->
  exists z, powm_general b (mkz (len el) el) m = Ok z
    /\ value z = value b ^ eval el mod Z.abs (value m) /\ mpz_wf z.
Proof.
  intros Hb Hel Hne Htop Hsz Hm Hodd.
  pose proof (wf_value_abs m Hm) as EM. destruct Hm as (Hms & Hmw & Hmn).
  destruct (d m) as [|x r] eqn:Edm; [discriminate Hodd|].
  assert (Ex : lat (x :: r) 0 = x) by reflexivity. rewrite Ex in Hodd.
  assert (Hx0 : (x =? 0) = false) by (destruct (Z.eqb_spec x 0) as [->|]; [discriminate|reflexivity]).
  assert (Hx2 : (x mod 2 =? 0) = false) by (rewrite Zmod_odd, Hodd; reflexivity).
  unfold powm_general. cbn [sz d]. rewrite Edm. cbn [strip_low]. rewrite Hx0. rewrite Ex, Hx2.
  cbv beta iota zeta.
  destruct Hb as (Hbs & Hbw & Hbn).
  rewrite mpn_powm_c_spec by (try assumption; rewrite Ex; exact Hodd).
  rewrite to_limbs_length. cbn [length Nat.eqb]. change (negb (0 =? 0)) with false. cbv iota.
  assert (HM : 0 < eval (x :: r)).
  { pose proof (eval_nonneg _ Hmw) as Hnn.
    assert (Ho : Z.odd (eval (x :: r)) = true) by (rewrite odd_lat0 by exact Hmw; exact Hodd).
    destruct (Z.eq_dec (eval (x :: r)) 0) as [E|N]; [rewrite E in Ho; discriminate|lia]. }
  pose proof (eval_lt _ Hmw) as HMlt. unfold len in HMlt.
  pose proof (Z.mod_pos_bound (eval (d b) ^ eval el) (eval (x :: r)) HM) as Hres.
  rewrite to_limbs_eval_small by (cbn [length] in HMlt |- *; lia).
  assert (En : Z.to_nat (Z.abs (sz m)) = length (x :: r)).
  { rewrite Hms. unfold len. apply Nat2Z.id. }
  rewrite En.
  rewrite odd_land1 by exact Hel.
  destruct (finish_value (x :: r) (eval (d b) ^ eval el mod eval (x :: r))
              (Z.odd (eval el) && (sz b <? 0)) Hmw Hres) as (z & Ez & Vz & Wz).
  cbv zeta in Ez. exists z. split; [exact Ez|]. split; [|exact Wz].
  rewrite Vz. rewrite (wf_value_neg b) by (repeat split; assumption).
  rewrite <- (wf_value_abs b) by (repeat split; assumption).
  rewrite EM. apply neg_fix. exact HM.
Qed.

Lemma value_one : value (mkz 1 [1]) = 1.
Proof. unfold value. cbn [sz d Z.sgn eval]. lia. Qed.

(* everything after the sign of the exponent has been dealt with; odd modulus, |e| <> 1 *)
Lemma powm_pos_odd_spec b e m :
  mpz_wf b -> mpz_wf e -> sz e <> 0 -> 64 * len (d e) < B ->
  mpz_wf m -> Z.odd (lat (d m) 0) = true -> eval (d e) <> 1 ->
  exists z, powm_pos b e m = Ok z
    /\ value z = value b ^ eval (d e) mod Z.abs (value m) /\ mpz_wf z.
Proof.
  intros Hb He Hes Hsz Hm Hodd He1.
  pose proof (wf_eval_pos e He Hes) as Hepos.
  pose proof (wf_d_nonempty e He Hes) as Hene.
  unfold powm_pos.
  destruct (Z.eqb_spec (Z.abs (sz b)) 0) as [Eb|Nb].
  - exists (mkz 0 []). split; [reflexivity|].
    assert (Ev : value b = 0) by (apply (wf_value_zero b Hb); lia).
    rewrite Ev, Z.pow_0_l by lia. rewrite Zmod_0_l.
    split; [reflexivity|]. repeat split; [apply wf_nil|left; reflexivity].
  - assert (Ec : (Z.abs (sz e) =? 1) && (lat (d e) 0 =? 1) = false).
    { destruct (Z.eqb_spec (Z.abs (sz e)) 1) as [E1|]; [|reflexivity].
      destruct (Z.eqb_spec (lat (d e) 0) 1) as [E2|]; [|reflexivity]. exfalso.
      destruct He as (Hs & _ & _). rewrite E1 in Hs. unfold len in Hs.
      destruct (d e) as [|x [|y r]]; cbn [length] in Hs; try lia.
      apply He1. unfold lat in E2. cbn in E2. rewrite E2. cbn [eval]. lia. }
    rewrite Ec.
    destruct He as (Hs & Hw & Hn). rewrite Hs.
    apply powm_general_odd_spec; try assumption.
    rewrite lat_last by exact Hene. destruct Hn as [Hn|Hn]; [contradiction|exact Hn].
Qed.

(* MAIN THEOREM (mpz_powm, odd modulus): the as-coded wrapper agrees with the value-level
   mpz_powm of PowDefs.v for every base, every exponent (negative ones through mpz_invert)
   with |e| <> 1, and every modulus whose low limb is odd. *)
Theorem mpz_powm_c_odd_spec : forall b e m,
  mpz_wf b -> mpz_wf e -> mpz_wf m -> 64 * len (d e) < B ->
  Z.odd (lat (d m) 0) = true -> Z.abs (value e) <> 1 ->
  match mpz_powm (value b) (value e) (value m) with
  | Ok v => exists z, mpz_powm_c b e m = Ok z /\ value z = v /\ mpz_wf z
  | DivByZero => mpz_powm_c b e m = DivByZero
  end.
Proof.
  intros b e m Hb He Hm Hsz Hodd He1.
  assert (Hmne : d m <> []) by (intros E; rewrite E in Hodd; discriminate Hodd).
  assert (Hms : sz m <> 0).
  { intros E. destruct Hm as (Hs & _ & _). rewrite E in Hs. unfold len in Hs.
    destruct (d m); [congruence|cbn [length] in Hs; lia]. }
  assert (Hmv : value m <> 0) by (intros E; apply (wf_value_zero m Hm) in E; contradiction).
  pose proof (wf_value_abs e He) as Eabs.
  unfold mpz_powm_c.
  destruct (Z.eqb_spec (Z.abs (sz m)) 0) as [E0|_]; [lia|].
  destruct (mpz_powm_spec (value b) (value e) (value m)) as (_ & Hnonneg & _).
  destruct (Z.leb_spec (sz e) 0) as [Hle|Hgt].
  - destruct (Z.eqb_spec (sz e) 0) as [Ez|Nz].
    + (* e = 0 *)
      assert (Ev : value e = 0) by (apply (wf_value_zero e He); exact Ez).
      rewrite Ev in *. rewrite (Hnonneg Hmv ltac:(lia)). rewrite Z.pow_0_r.
      rewrite (wf_value_abs m Hm).
      destruct Hm as (Hs & Hw & Hn).
      destruct (d m) as [|x r] eqn:Edm; [congruence|].
      assert (Ex : lat (x :: r) 0 = x) by reflexivity. rewrite Ex in *.
      apply wf_inv in Hw. destruct Hw as [Hx Hr]. unfold limb in Hx.
      pose proof (eval_nonneg r Hr) as Hr0. pose proof B_gt_1 as HB1.
      destruct r as [|y r'].
      * rewrite Hs. unfold len. cbn [length Z.of_nat Pos.of_succ_nat]. cbn [eval]. rewrite Z.mul_0_r, Z.add_0_r.
        change (1 =? 1) with true. cbn [negb orb].
        destruct (Z.eqb_spec x 1) as [->|N1]; cbn [negb b2z].
        -- exists (mkz 0 []). split; [reflexivity|]. split; [reflexivity|].
           repeat split; [apply wf_nil|left; reflexivity].
        -- exists (mkz 1 [1]). split; [reflexivity|].
           assert (x <> 0) by (intros ->; discriminate Hodd).
           split; [rewrite value_one; symmetry; apply Z.mod_small; lia|].
           repeat split; [apply wf_cons; [apply limb_1|apply wf_nil]|right; cbn; lia].
      * assert (Hrpos : 0 < eval (y :: r')).
        { destruct (Z.eq_dec (eval (y :: r')) 0) as [E|N]; [|lia]. exfalso.
          destruct Hn as [Hn|Hn]; [discriminate|]. apply Hn.
          change (last (x :: y :: r') 0) with (last (y :: r') 0). apply eval0_last0; assumption. }
        assert (Hn1 : (Z.abs (sz m) =? 1) = false).
        { rewrite Hs. unfold len. cbn [length]. destruct (Z.eqb_spec (Z.of_nat (S (S (length r')))) 1); [lia|reflexivity]. }
        rewrite Hn1. cbn [negb orb b2z].
        exists (mkz 1 [1]). split; [reflexivity|].
        split; [rewrite value_one; symmetry; apply Z.mod_small; cbn [eval] in Hrpos |- *; nia|].
        repeat split; [apply wf_cons; [apply limb_1|apply wf_nil]|right; cbn; lia].
    + (* e < 0: through the inverse *)
      assert (Hneg : value e < 0).
      { pose proof (wf_value_neg e He) as Hn. destruct (Z.ltb_spec (sz e) 0); [|lia].
        destruct (Z.ltb_spec (value e) 0); [assumption|discriminate]. }
      rewrite mpz_powm_unfold.
      destruct (Z.eqb_spec (value m) 0) as [|_]; [contradiction|].
      destruct (Z.eqb_spec (value e) 0) as [|_]; [lia|].
      destruct (Z.ltb_spec (value e) 0) as [_|]; [|lia].
      destruct (mpz_invert (value b) (value m)) as [v|]; [|reflexivity].
      rewrite powm_go_spec by lia.
      destruct (mpz_of_Z_spec v) as [Vv Wv].
      destruct (powm_pos_odd_spec (mpz_of_Z v) e m Wv He Nz Hsz Hm Hodd ltac:(lia)) as (z & Ez & Vz & Wz).
      exists z. split; [exact Ez|]. split; [|exact Wz].
      rewrite Vz, Vv. f_equal. f_equal. lia.
  - (* e > 0 *)
    assert (Hpos : 0 < value e).
    { pose proof (wf_value_neg e He) as Hn. destruct (Z.ltb_spec (sz e) 0); [lia|].
      destruct (Z.ltb_spec (value e) 0); [discriminate|].
      assert (value e <> 0) by (intros E; apply (wf_value_zero e He) in E; lia). lia. }
    rewrite (Hnonneg Hmv ltac:(lia)).
    destruct (powm_pos_odd_spec b e m Hb He ltac:(lia) Hsz Hm Hodd ltac:(lia)) as (z & Ez & Vz & Wz).
    exists z. split; [exact Ez|]. split; [|exact Wz].
    rewrite Vz. f_equal. f_equal. lia.
Qed.

(* the hypotheses are satisfiable: a negative 2-limb base, a 2-limb exponent, an odd 2-limb modulus *)
Example mpz_powm_c_example :
  let b := mkz (-2) [5; 7] in let e := mkz 2 [3; 1] in let m := mkz 2 [18446744073709551557; 3] in
  wfb (d b) = true /\ wfb (d e) = true /\ wfb (d m) = true
  /\ Z.odd (lat (d m) 0) = true /\ negb (Z.abs (value e) =? 1) = true
  /\ match mpz_powm_c b e m, mpz_powm (value b) (value e) (value m) with
     | Ok z, Ok v => (value z =? v) && (0 <=? v) && (v <? Z.abs (value m)) && negb (v =? 0)
     | _, _ => false
     end = true.
Proof. vm_compute. repeat split; reflexivity. Qed.

(* evaluated instances of the paths that the general theorem above does not cover: an even
   modulus (m = 5 * 2^68: low zero limb, shift, recombination), and e = 1 *)
Example mpz_powm_c_even_instances :
  forallb (fun '(b, e, m) =>
    match mpz_powm_c b e m, mpz_powm (value b) (value e) (value m) with
    | Ok z, Ok v => (value z =? v) && (Z.abs (sz z) =? len (d z))
    | DivByZero, DivByZero => true
    | _, _ => false
    end)
  [ (mkz (-2) [5; 7], mkz 2 [3; 1], mkz 2 [0; 80]);
    (mkz 1 [6], mkz 1 [22], mkz 2 [0; 3]);
    (mkz 1 [7], mkz (-1) [3], mkz 2 [0; 80]);
    (mkz 1 [12], mkz 1 [1], mkz 1 [40]);
    (mkz (-1) [12], mkz 1 [1], mkz 1 [40]);
    (mkz (-2) [1; 1], mkz 1 [1], mkz 1 [40]);
    (mkz 1 [2], mkz (-1) [1], mkz 1 [40]) ] = true.
Proof. vm_compute. reflexivity. Qed.

(* mpz/powm.c:138-143 (e = 1, b < 0, bn < n) after the repair 3b23d14 in /repo (MPN_NORMALIZE; before it, `rn -= (rp[rn - 1] == 0)`
   stripped one zero limb only and m = 2^128, b = -(2^128 - 1) returned 1 with SIZ = 2, limbs {1, 0}): the result is normalized *)
Example mpz_powm_e1_normalized :
  mpz_powm_c (mkz (-2) [18446744073709551615; 18446744073709551615]) (mkz 1 [1]) (mkz 3 [0; 0; 1])
  = Ok (mkz 1 [1]).
Proof. vm_compute. reflexivity. Qed.

Goal True.
  idtac "getbit_spec:". Print Assumptions getbit_spec.
  idtac "getbits_spec:". Print Assumptions getbits_spec.
  idtac "win_size_range:". Print Assumptions win_size_range.
  idtac "mpn_powm_c_spec:". Print Assumptions mpn_powm_c_spec.
  idtac "mpn_powm_c_value:". Print Assumptions mpn_powm_c_value.
  idtac "mpz_powm_c_odd_spec:". Print Assumptions mpz_powm_c_odd_spec.
  exact I.
Qed.
