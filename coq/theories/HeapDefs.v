(* HeapDefs.v — a heap-level model of mpz_add / mpz_sub as coded in mpz/aors.h (C05 at
   the level of pointers).

   An mpz variable is a record (_mp_alloc, _mp_size, _mp_d) whose _mp_d is the identifier of a
   block in a heap.  A block is either live (Some l, l being exactly its `alloc` limbs) or
   invalid (None: never allocated, or freed).  Every access goes through a block identifier
   that was loaded from a variable record at some moment; an access to an invalid block or
   past the end of a live block is an error (None in the option monad), so "the call is
   memory-safe" is "the call returns Some".

   _mpz_realloc (mpz/realloc.c) allocates a fresh block, copies the limbs that fit,
   INVALIDATES the old block and stores the new block identifier in the variable record.  A
   block identifier loaded from the record before the reallocation is therefore dangling
   afterwards.  The model always moves the block (the C realloc may also extend it in place;
   moving is the case in which the order of the loads matters).

   The same variable index may be passed for w, u and v in any combination: aliasing is
   "the same variable twice", exactly as with mpz_t arguments in C.

   Only definitions here; the proofs are in HeapProofs.v. *)
From Coq Require Import ZArith List Bool.
From Mpir Require Import Word Limbs MpnBasicDefs MpzDefs.
Import ListNotations.
Local Open Scope Z_scope.

(* ------------------------------------------------------------------ *)
(* variables, heap, state                                               *)

(* __mpz_struct: _mp_alloc, _mp_size, _mp_d (a block identifier) *)
Record var := mkvar { v_alloc : Z; v_size : Z; v_ptr : nat }.

(* None = invalid block (never allocated or freed) *)
Definition heap := nat -> option (list Z).
Definition hupd (h : heap) (k : nat) (b : option (list Z)) : heap :=
  fun p => if Nat.eqb p k then b else h p.

Definition vstore := nat -> var.
Definition vupd (vs : vstore) (k : nat) (r : var) : vstore :=
  fun x => if Nat.eqb x k then r else vs x.

(* st_next: the next fresh block identifier.  st_junk: the contents of uninitialised
   memory (limb i of a newly allocated block that is not copied from the old block holds
   st_junk i); all results are proved for every such content. *)
Record state := mkst {
  st_heap : heap; st_next : nat; st_vars : vstore; st_junk : nat -> Z }.

Definition bind {X Y : Type} (o : option X) (f : X -> option Y) : option Y :=
  match o with Some a => f a | None => None end.

(* ------------------------------------------------------------------ *)
(* memory accesses through a block identifier                           *)

(* read limbs [0, n) of block p *)
Definition load (h : heap) (p : nat) (n : nat) : option (list Z) :=
  match h p with
  | Some l => if (n <=? length l)%nat then Some (firstn n l) else None
  | None => None
  end.

(* read limb i of block p *)
Definition load1 (h : heap) (p : nat) (i : nat) : option Z :=
  match h p with Some l => nth_error l i | None => None end.

(* write the limbs r to positions [0, length r) of block p; the other limbs of the
   block keep their contents *)
Definition store (h : heap) (p : nat) (r : list Z) : option heap :=
  match h p with
  | Some l => if (length r <=? length l)%nat
              then Some (hupd h p (Some (r ++ skipn (length r) l))) else None
  | None => None
  end.

(* write limb i of block p *)
Definition store1 (h : heap) (p : nat) (i : nat) (x : Z) : option heap :=
  match h p with
  | Some l => if (i <? length l)%nat
              then Some (hupd h p (Some (firstn i l ++ x :: skipn (S i) l))) else None
  | None => None
  end.

(* ------------------------------------------------------------------ *)
(* the mpn calls made by aors.h, on the heap                            *)

(* The mpn functions permit the destination to coincide exactly with a source (rp == up or
   rp == vp; ASSERT (MPN_SAME_OR_SEPARATE_P ...) in mpn/generic/add_n.c, sub_n.c): limb i
   of the result is written after limb i of the sources has been read, and nothing is read
   at a lower index afterwards.  (MemDefs.v / C03_add_n_overlap prove, on a flat memory with
   the actual loops, that in this placement the result equals the list-level function of
   the limbs read before the call.)  Here the two source limb vectors are read from the heap
   first, the list-level function of MpnBasicDefs.v is applied, and the result replaces the
   low limbs of the destination block; when wp is the same block as up or vp this is the
   exact-overlap case.  Blocks with different identifiers are disjoint. *)

(* mpn_add (wp, up, un, vp, vn); gmp-h.in __GMPN_AORS: ASSERT (xsize >= ysize) *)
Definition mpn_add_h (h : heap) (wp up : nat) (un : nat) (vp : nat) (vn : nat)
  : option (heap * Z) :=
  if (vn <=? un)%nat then
    bind (load h up un) (fun ul =>
    bind (load h vp vn) (fun vl =>
    let rc := add ul vl in
    bind (store h wp (fst rc)) (fun h' => Some (h', snd rc))))
  else None.

(* mpn_sub (wp, up, un, vp, vn) *)
Definition mpn_sub_h (h : heap) (wp up : nat) (un : nat) (vp : nat) (vn : nat)
  : option (heap * Z) :=
  if (vn <=? un)%nat then
    bind (load h up un) (fun ul =>
    bind (load h vp vn) (fun vl =>
    let rc := sub ul vl in
    bind (store h wp (fst rc)) (fun h' => Some (h', snd rc))))
  else None.

(* mpn_sub_n (wp, up, vp, n); mpn/generic/sub_n.c: ASSERT (n >= 1) *)
Definition mpn_sub_n_h (h : heap) (wp up vp : nat) (n : nat) : option (heap * Z) :=
  if (1 <=? n)%nat then
    bind (load h up n) (fun ul =>
    bind (load h vp n) (fun vl =>
    let rc := sub_n ul vl in
    bind (store h wp (fst rc)) (fun h' => Some (h', snd rc))))
  else None.

(* mpn_cmp (up, vp, n) *)
Definition mpn_cmp_h (h : heap) (up vp : nat) (n : nat) : option Z :=
  bind (load h up n) (fun ul =>
  bind (load h vp n) (fun vl => Some (cmp ul vl))).

(* MPN_NORMALIZE (wp, n): while (n > 0) { if (wp[n-1] != 0) break; n--; } *)
Fixpoint normalize_h (h : heap) (wp : nat) (n : nat) : option nat :=
  match n with
  | O => Some O
  | S m => bind (load1 h wp m) (fun x => if x =? 0 then normalize_h h wp m else Some (S m))
  end.

(* ------------------------------------------------------------------ *)
(* _mpz_realloc (mpz/realloc.c)                                         *)

Definition junk_fill (st : state) (from cnt : nat) : list Z := map (st_junk st) (seq from cnt).

(*  new_alloc = MAX (new_alloc, 1);
    mp = __GMP_REALLOCATE_FUNC_LIMBS (PTR(m), ALLOC(m), new_alloc);
    PTR(m) = mp;  ALLOC(m) = new_alloc;
    if (ABSIZ(m) > new_alloc) SIZ(m) = 0;
   Reallocating through an invalid pointer is an error.  The new block is fresh, holds the
   first min(old, new) limbs of the old block and junk above; the old block becomes invalid. *)
Definition mpz_realloc (st : state) (m : nat) (new_alloc : Z) : option state :=
  let new_alloc := Z.max new_alloc 1 in
  let r := st_vars st m in
  match st_heap st (v_ptr r) with
  | None => None
  | Some l =>
      let n := Z.to_nat new_alloc in
      let keep := firstn n l in
      let blk := keep ++ junk_fill st (length keep) (n - length keep) in
      let p := st_next st in
      let h := hupd (hupd (st_heap st) (v_ptr r) None) p (Some blk) in
      let sz' := if new_alloc <? Z.abs (v_size r) then 0 else v_size r in
      Some (mkst h (S p) (vupd (st_vars st) m (mkvar new_alloc sz' p)) (st_junk st))
  end.

(* ------------------------------------------------------------------ *)
(* mpz/aors.h                                                           *)

Definition with_heap (st : state) (h : heap) : state :=
  mkst h (st_next st) (st_vars st) (st_junk st).

(* w->_mp_size = wsize *)
Definition set_size (st : state) (w : nat) (wsize : Z) : state :=
  let r := st_vars st w in
  mkst (st_heap st) (st_next st)
       (vupd (st_vars st) w (mkvar (v_alloc r) wsize (v_ptr r))) (st_junk st).

(* The part of the function after the three pointer loads: the sign test, the four
   arithmetic cases and the final store of the size.  up, vp, wp are the block identifiers
   held in the C locals of the same names. *)
Definition aors_core (st : state) (w : nat) (up vp wp : nat)
  (usize vsize abs_usize abs_vsize : Z) : option state :=
  let h := st_heap st in
  let un := Z.to_nat abs_usize in
  let vn := Z.to_nat abs_vsize in
  if xorb (usize <? 0) (vsize <? 0) then           (* (usize ^ vsize) < 0 *)
    if negb (abs_usize =? abs_vsize) then
      bind (mpn_sub_h h wp up un vp vn) (fun hc =>
      bind (normalize_h (fst hc) wp un) (fun wn =>   (* wsize = abs_usize; MPN_NORMALIZE *)
      let wsize := Z.of_nat wn in
      let wsize := if usize <? 0 then - wsize else wsize in
      Some (set_size (with_heap st (fst hc)) w wsize)))
    else
      bind (mpn_cmp_h h up vp un) (fun c =>
      if c <? 0 then
        bind (mpn_sub_n_h h wp vp up un) (fun hc =>
        bind (normalize_h (fst hc) wp un) (fun wn =>
        let wsize := Z.of_nat wn in
        let wsize := if 0 <=? usize then - wsize else wsize in
        Some (set_size (with_heap st (fst hc)) w wsize)))
      else
        bind (mpn_sub_n_h h wp up vp un) (fun hc =>
        bind (normalize_h (fst hc) wp un) (fun wn =>
        let wsize := Z.of_nat wn in
        let wsize := if usize <? 0 then - wsize else wsize in
        Some (set_size (with_heap st (fst hc)) w wsize))))
  else
    bind (mpn_add_h h wp up un vp vn) (fun hc =>      (* cy_limb = mpn_add (...) *)
    let cy_limb := snd hc in
    bind (store1 (fst hc) wp un cy_limb) (fun h2 =>   (* wp[abs_usize] = cy_limb *)
    let wsize := abs_usize + cy_limb in
    let wsize := if usize <? 0 then - wsize else wsize in
    Some (set_size (with_heap st h2) w wsize))).

(* the sizes, the swap (MPZ_SRCPTR_SWAP swaps the variable pointers u, v themselves) *)
Definition aors_sizes (sub : bool) (st : state) (u v : nat) : nat * nat * Z * Z :=
  let usize := v_size (st_vars st u) in
  let vsize := if sub then - v_size (st_vars st v) else v_size (st_vars st v) in
  if Z.abs usize <? Z.abs vsize then (v, u, vsize, usize) else (u, v, usize, vsize).

(* if (w->_mp_alloc < wsize) _mpz_realloc (w, wsize); *)
Definition aors_realloc (st : state) (w : nat) (wsize : Z) : option state :=
  if v_alloc (st_vars st w) <? wsize then mpz_realloc st w wsize else Some st.

(* mpz_add (sub = false) / mpz_sub (sub = true), in the order of the C statements *)
Definition mpz_aors (sub : bool) (st : state) (w u v : nat) : option state :=
  let '(u, v, usize, vsize) := aors_sizes sub st u v in
  let abs_usize := Z.abs usize in
  let abs_vsize := Z.abs vsize in
  let wsize := abs_usize + 1 in
  bind (aors_realloc st w wsize) (fun st1 =>
  (* These must be after realloc (u or v may be the same as w). *)
  let up := v_ptr (st_vars st1 u) in
  let vp := v_ptr (st_vars st1 v) in
  let wp := v_ptr (st_vars st1 w) in
  aors_core st1 w up vp wp usize vsize abs_usize abs_vsize).

(* the variant that loads the three pointers BEFORE the reallocation *)
Definition mpz_aors_stale (sub : bool) (st : state) (w u v : nat) : option state :=
  let '(u, v, usize, vsize) := aors_sizes sub st u v in
  let abs_usize := Z.abs usize in
  let abs_vsize := Z.abs vsize in
  let wsize := abs_usize + 1 in
  let up := v_ptr (st_vars st u) in
  let vp := v_ptr (st_vars st v) in
  let wp := v_ptr (st_vars st w) in
  bind (aors_realloc st w wsize) (fun st1 =>
  aors_core st1 w up vp wp usize vsize abs_usize abs_vsize).

(* the variant that loads only the SOURCE pointers before the reallocation (wp after):
   this one is wrong only when w is the same variable as u or v *)
Definition mpz_aors_stale_src (sub : bool) (st : state) (w u v : nat) : option state :=
  let '(u, v, usize, vsize) := aors_sizes sub st u v in
  let abs_usize := Z.abs usize in
  let abs_vsize := Z.abs vsize in
  let wsize := abs_usize + 1 in
  let up := v_ptr (st_vars st u) in
  let vp := v_ptr (st_vars st v) in
  bind (aors_realloc st w wsize) (fun st1 =>
  let wp := v_ptr (st_vars st1 w) in
  aors_core st1 w up vp wp usize vsize abs_usize abs_vsize).

(* ------------------------------------------------------------------ *)
(* observation of a state                                               *)

(* the significant limbs of variable x, read through its current pointer *)
Definition mag (st : state) (x : nat) : list Z :=
  let r := st_vars st x in
  match st_heap st (v_ptr r) with
  | Some l => firstn (Z.to_nat (Z.abs (v_size r))) l
  | None => []
  end.

(* the mpz object (size field, significant limbs) held by variable x *)
Definition zview (st : state) (x : nat) : mpz := mkz (v_size (st_vars st x)) (mag st x).

(* the integer held by variable x *)
Definition value_of (st : state) (x : nat) : Z := value (zview st x).

(* the same, but failing on an invalid or too short block *)
Definition value_opt (st : state) (x : nat) : option Z :=
  let r := st_vars st x in
  bind (load (st_heap st) (v_ptr r) (Z.to_nat (Z.abs (v_size r)))) (fun l =>
  Some (Z.sgn (v_size r) * eval l)).

(* ------------------------------------------------------------------ *)
(* well-formed states                                                   *)

(* variable x points to a live block of exactly alloc >= 1 limbs, all in [0, B), with
   |size| <= alloc and a non-zero top limb when size <> 0 *)
Definition var_ok (st : state) (x : nat) : Prop :=
  let r := st_vars st x in
  exists l, st_heap st (v_ptr r) = Some l
    /\ len l = v_alloc r /\ 1 <= v_alloc r /\ Z.abs (v_size r) <= v_alloc r
    /\ wf l /\ normalized (firstn (Z.to_nat (Z.abs (v_size r))) l)
    /\ (v_ptr r < st_next st)%nat.

(* every variable of dom is ok, distinct variables own distinct blocks, identifiers from
   st_next on are unused, uninitialised memory holds limbs *)
Definition st_wf (dom : list nat) (st : state) : Prop :=
  (forall x, In x dom -> var_ok st x)
  /\ (forall x y, In x dom -> In y dom -> x <> y ->
        v_ptr (st_vars st x) <> v_ptr (st_vars st y))
  /\ (forall p, (st_next st <= p)%nat -> st_heap st p = None)
  /\ (forall i, limb (st_junk st i)).

(* boolean versions of the first two clauses, for concrete states *)
Definition normb (l : list Z) : bool :=
  match l with [] => true | _ => negb (last l 0 =? 0) end.

Definition var_okb (st : state) (x : nat) : bool :=
  let r := st_vars st x in
  match st_heap st (v_ptr r) with
  | Some l => (len l =? v_alloc r) && (1 <=? v_alloc r) && (Z.abs (v_size r) <=? v_alloc r)
              && wfb l && normb (firstn (Z.to_nat (Z.abs (v_size r))) l)
              && (v_ptr r <? st_next st)%nat
  | None => false
  end.

Definition distinctb (st : state) (dom : list nat) : bool :=
  forallb (fun x => forallb (fun y =>
    Nat.eqb x y || negb (Nat.eqb (v_ptr (st_vars st x)) (v_ptr (st_vars st y)))) dom) dom.

Definition st_wfb (dom : list nat) (st : state) : bool :=
  forallb (var_okb st) dom && distinctb st dom.

(* ------------------------------------------------------------------ *)
(* concrete states for the examples: three variables 0, 1, 2 owning blocks 0, 1, 2 *)

Definition heap3 (b0 b1 b2 : list Z) : heap :=
  fun p => match p with 0%nat => Some b0 | 1%nat => Some b1 | 2%nat => Some b2 | _ => None end.
Definition vars3 (r0 r1 r2 : var) : vstore :=
  fun x => match x with 0%nat => r0 | 1%nat => r1 | _ => r2 end.
Definition state3 (s0 : Z) (b0 : list Z) (s1 : Z) (b1 : list Z) (s2 : Z) (b2 : list Z) : state :=
  mkst (heap3 b0 b1 b2) 3
       (vars3 (mkvar (len b0) s0 0) (mkvar (len b1) s1 1) (mkvar (len b2) s2 2))
       (fun i => wrap (1000 + Z.of_nat i)).

(* what the examples look at: the integers held by the three variables *)
Definition obs (st : state) : list Z := map (value_of st) [0; 1; 2]%nat.
