(* MpfDivDefs.v — bit-exact models of mpf_div (mpf/div.c), mpf_mul_ui (mpf/mul_ui.c) and
   mpf_div_ui (mpf/div_ui.c), AS CODED.
   Conventions of MpfDefs.v / MpfAddDefs.v / MpfSubDefs.v: an mpf value is
   sign * fM * B^(fexp - fn), fM an fn-limb integer whose top limb is non-zero; zero is fM = 0,
   fn = 0, fexp = 0.  The limb vector {p, n} of the C code is the integer sum p[i] B^i;
   "p += k; n -= k" (drop the k low limbs) is M / B^k; MPN_ZERO (tp, z); MPN_COPY (tp + z, up, n)
   is M * B^z; p[i] is limb_at M i and p[n - 1] is top_limb M n (MpfSubDefs.v).
   mpn_tdiv_qr (qp, rp, 0, np, nn, dp, dn) stores the nn - dn + 1 limbs of the truncating quotient
   N / D of two non-negative integers (the remainder is not used); mpn_divmod_1 (qp, np, nn, d)
   stores the nn limbs of N / d; mpn_mul_1 (rp, up, n, v) stores the n low limbs of U v and returns
   the high limb; __GMPN_ADD_1 (cout, rp, rp, n, c) adds the limb c into {rp, n} and sets cout to
   the carry out; umul_ppmm (hi, lo, a, b) is hi = a b / B, lo = a b mod B; ADDC_LIMB (c, s, a, b)
   is s = (a + b) mod B, c = (a + b) / B.
   Build facts used (config.h, mpir.h of /repo): GMP_NAIL_BITS = 0 (so vl_shifted = vl and
   "lo >>= GMP_NAIL_BITS" does nothing), BITS_PER_UI = GMP_NUMB_BITS = 64 (so the branches
   "v > GMP_NUMB_MAX" of mul_ui.c and div_ui.c are compiled out and an mpir_ui argument is an
   integer 0 <= k < B), HAVE_NATIVE_mpn_mul_1c undefined (so mul_ui.c runs mpn_mul_1, __GMPN_ADD_1
   and "cy_limb += cbit").
   [prec] is r->_mp_prec.  DIVIDE_BY_ZERO (a trap: the function does not return) is None.
   The copies made for overlapping operands (copy_u, rp == vp) do not change any value and are not
   modelled.
   Definitions only. *)
From Coq Require Import ZArith List Bool.
From Mpir Require Import Word DivDefs MpfDefs MpfAddDefs MpfSubDefs.
Import ListNotations.
Local Open Scope Z_scope.

(* ---------- mpf/div.c ---------- *)

Definition mpf_div (prec : Z) (u v : mpf) : option mpf :=
  let usize := fn u in                                   (* usize = ABS (u->_mp_size) *)
  let vsize := fn v in                                   (* vsize = ABS (v->_mp_size) *)
  let sign_quotient := xorb (fneg u) (fneg v) in         (* sign_quotient = usize ^ vsize *)
  if vsize =? 0 then None                                (* if (vsize == 0) DIVIDE_BY_ZERO; *)
  else if usize =? 0 then Some (mkf false 0 0 0)         (* r->_mp_size = 0; r->_mp_exp = 0; return; *)
  else
    let rexp := fexp u - fexp v + 1 in
    let prospective_rsize := usize - vsize + 1 in        (* quot from using given u,v sizes *)
    let rsize := prec + 1 in                             (* desired quot *)
    let zeros := rsize - prospective_rsize in            (* padding u to give rsize *)
    let chop := Z.max (- zeros) 0 in                     (* negative zeros means shorten u *)
    let up := fM u / B ^ chop in                         (* up += chop; *)
    let usize := usize - chop in                         (* usize -= chop; *)
    let zeros := zeros + chop in                         (* now zeros >= 0 *)
    let tsize := usize + zeros in
    (* MPN_ZERO (tp, zeros); MPN_COPY (tp+zeros, up, usize); up = tp; usize = tsize;
       (without copy_u, zeros = 0 and up is used as it is: the same integer) *)
    let up := up * B ^ zeros in
    let usize := tsize in
    (* ASSERT (usize-vsize+1 == rsize); mpn_tdiv_qr (rp, remp, 0, up, usize, vp, vsize); *)
    let rp := up / fM v in
    let high_zero := if top_limb rp rsize =? 0 then 1 else 0 in      (* rp[rsize-1] == 0 *)
    let rsize := rsize - high_zero in
    let rexp := rexp - high_zero in
    Some (mkf sign_quotient rp rsize rexp).

(* ---------- mpf/mul_ui.c ---------- *)

(* the loop "for (;;) { i--; if (i < 0) break; umul_ppmm (hi, next_lo, up[i], vl);
   ADDC_LIMB (cbit, sum, hi, lo); cin += cbit; lo = next_lo; if (sum != GMP_NUMB_MAX) break; }";
   the state is (i, lo, cin), the value is the final cin; at most i iterations *)
Fixpoint mul_ui_carry (fuel : nat) (um k i lo cin : Z) : Z :=
  match fuel with
  | O => cin
  | S f =>
      let i := i - 1 in
      if i <? 0 then cin
      else
        let p := limb_at um i * k in
        let hi := p / B in
        let next_lo := p mod B in
        let cbit := (hi + lo) / B in
        let sum := (hi + lo) mod B in
        let cin := (cin + cbit) mod B in                 (* limb arithmetic *)
        if negb (sum =? B - 1) then cin
        else mul_ui_carry f um k i next_lo cin
  end.

(* the block "if (excess > 0) { ... }": the carry-in from the excess low limbs of u that are
   dropped.  i = excess - 1; umul_ppmm (cin, lo, up[i], vl); then the loop *)
Definition mul_ui_cin (um k excess : Z) : Z :=
  let i := excess - 1 in
  let p := limb_at um i * k in
  mul_ui_carry (Z.to_nat excess) um k i (p mod B) (p / B).

Definition mpf_mul_ui (prec : Z) (u : mpf) (k : Z) : mpf :=
  if (k =? 0) || (fn u =? 0) then mkf false 0 0 0        (* r->_mp_size = 0; r->_mp_exp = 0; *)
  else
    let size := fn u in                                  (* size = ABS (usize) *)
    let excess := size - prec in
    (* cin = 0; if (excess > 0) { ...; up += excess; size = prec; } *)
    let '(cin, up, size) :=
      if 0 <? excess then (mul_ui_cin (fM u) k excess, fM u / B ^ excess, prec)
      else (0, fM u, size) in
    (* cy_limb = mpn_mul_1 (rp, up, size, vl); *)
    let rp := (up * k) mod B ^ size in
    let cy_limb := (up * k) / B ^ size in
    (* __GMPN_ADD_1 (cbit, rp, rp, size, cin); cy_limb += cbit; *)
    let cbit := (rp + cin) / B ^ size in
    let rp := (rp + cin) mod B ^ size in
    let cy_limb := (cy_limb + cbit) mod B in
    (* rp[size] = cy_limb; cy_limb = cy_limb != 0; exp = u->_mp_exp + cy_limb; size += cy_limb; *)
    let rp := rp + cy_limb * B ^ size in
    let cy := if cy_limb =? 0 then 0 else 1 in
    mkf (fneg u) rp (size + cy) (fexp u + cy).

(* ---------- mpf/div_ui.c ---------- *)

Definition mpf_div_ui (prec : Z) (u : mpf) (k : Z) : option mpf :=
  let usize := fn u in                                   (* usize = ABS (u->_mp_size) *)
  if k =? 0 then None                                    (* if (v == 0) DIVIDE_BY_ZERO; *)
  else if usize =? 0 then Some (mkf false 0 0 0)
  else
    let tsize := 1 + prec in
    (* if (usize > tsize) { up += usize - tsize; usize = tsize; rtp = tp; }
       else { MPN_ZERO (tp, tsize - usize); rtp = tp + (tsize - usize); }
       MPN_COPY (rtp, up, usize); *)
    let tp := if tsize <? usize then fM u / B ^ (usize - tsize)
              else fM u * B ^ (tsize - usize) in
    (* mpn_divmod_1 (rp, tp, tsize, (mp_limb_t) v); q_limb = rp[tsize - 1]; *)
    let rp := tp / k in
    let q_zero := if top_limb rp tsize =? 0 then 1 else 0 in         (* q_limb == 0 *)
    let rsize := tsize - q_zero in
    let rexp := fexp u - q_zero in
    Some (mkf (fneg u) rp rsize rexp).

(* ---------- exact results and the conditions of exactness ---------- *)

(* exact rational quotient u / v as num / den with den > 0 (v <> 0) *)
Definition div_num (u v : mpf) : Z := fnum u * fden v * Z.sgn (fnum v).
Definition div_den (u v : mpf) : Z := fden u * Z.abs (fnum v).

(* The quotient delivered is made of the prec + 1 limbs of weights
   B^(fexp u - fexp v) ... B^(fexp u - fexp v - prec).  Nothing is lost exactly when u / v is an
   integer multiple of the lowest weight, that is when  fM u * B^z  is a multiple of
   fM v * B^c  with  z - c = prec - fn u + fn v  (z = 0 or c = 0).  *)
Definition div_nothing_lost (prec : Z) (u v : mpf) : Prop :=
  (fM u * B ^ (Z.max 0 (prec - fn u + fn v))) mod (fM v * B ^ (Z.max 0 (fn u - fn v - prec))) = 0.

(* mul_ui: the product of u (cut to nothing: all its limbs are used through the carry-in) by k is
   cut to the prec (+1 with a carry limb) top limbs: nothing is lost exactly when the limbs of
   fM u * k below the cut are zero *)
Definition mul_ui_nothing_lost (prec : Z) (u : mpf) (k : Z) : Prop :=
  (fM u * k) mod B ^ (Z.max 0 (fn u - prec)) = 0.

(* div_ui: mpf_div with the one-limb divisor k *)
Definition div_ui_nothing_lost (prec : Z) (u : mpf) (k : Z) : Prop :=
  (fM u * B ^ (Z.max 0 (prec - fn u + 1))) mod (k * B ^ (Z.max 0 (fn u - 1 - prec))) = 0.
