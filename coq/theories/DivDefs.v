(* DivDefs.v — models behind C02.
   Word level (gmp-impl.h macros): invert_limb, udiv_qrnnd_preinv1, mpir_invert_pi1,
   udiv_qr_3by2, transcribed statement by statement with explicit wrap-around.
   Limb level: the schoolbook recurrence of mpn_divrem_1 / mpn_mod_1.
   mpz level: the truncating division on magnitudes plus the sign and adjustment rules of
   tdiv/fdiv/cdiv (q, r, qr, _ui, _2exp), mod, divexact, divisible_p, congruent_p.
   Definitions only. *)
From Coq Require Import ZArith List Bool.
From Mpir Require Import Word Limbs MpnBasicDefs MpzDefs.
Import ListNotations.
Local Open Scope Z_scope.

(* ---- word level ---- *)
(* udiv_qrnnd (q, r, nh, nl, d): hardware two-by-one division, nh < d *)
Definition udiv_qrnnd (nh nl d : Z) : Z * Z := ((nh * B + nl) / d, (nh * B + nl) mod d).
(* invert_limb: udiv_qrnnd (inv, dummy, ~d, ~0, d) *)
Definition invert_limb (d : Z) : Z := fst (udiv_qrnnd (B - 1 - d) (B - 1) d).

(* udiv_qrnnd_preinv1 (q, r, nh, nl, d, di) *)
Definition udiv_qrnnd_preinv1 (nh nl d di : Z) : Z * Z :=
  let '(q0, ql) := umul_ppmm nh di in
  let q := wrap (q0 + nh) in
  let '(xh0, xl) := umul_ppmm q d in
  let '(xh, r) := sub_ddmmss nh nl xh0 xl in
  let '(q, r, xh) :=
    if negb (xh =? 0) then
      let '(xh1, r1) := sub_ddmmss xh r 0 d in
      let q1 := wrap (q + 1) in
      if negb (xh1 =? 0) then (wrap (q1 + 1), wrap (r1 - d), xh1) else (q1, r1, xh1)
    else (q, r, xh) in
  if d <=? r then (wrap (q + 1), wrap (r - d)) else (q, r).

(* mpir_invert_pi1 (dinv, d1, d0) *)
Definition invert_pi1 (d1 d0 : Z) : Z :=
  let v := invert_limb d1 in
  let p := wrap (wrap (d1 * v) + d0) in
  let '(v, p) :=
    if p <? d0 then
      let v1 := wrap (v - 1) in
      let mask := if d1 <=? p then B - 1 else 0 in
      let p1 := wrap (p - d1) in
      (wrap (v1 + mask), wrap (p1 - Z.land mask d1))
    else (v, p) in
  let '(t1, t0) := umul_ppmm d0 v in
  let p2 := wrap (p + t1) in
  if p2 <? t1 then
    let v2 := wrap (v - 1) in
    if d1 <=? p2 then
      if (d1 <? p2) || (d0 <=? t0) then wrap (v2 - 1) else v2
    else v2
  else v.

(* udiv_qr_3by2 (q, r1, r0, n2, n1, n0, d1, d0, dinv) *)
Definition udiv_qr_3by2 (n2 n1 n0 d1 d0 dinv : Z) : Z * Z * Z :=
  let '(qa, q0a) := umul_ppmm n2 dinv in
  let '(q, q0) := add_ssaaaa qa q0a n2 n1 in
  let r1 := wrap (n1 - wrap (d1 * q)) in
  let '(r1, r0) := sub_ddmmss r1 n0 d1 d0 in
  let '(t1, t0) := umul_ppmm d0 q in
  let '(r1, r0) := sub_ddmmss r1 r0 t1 t0 in
  let q := wrap (q + 1) in
  let '(q, r1, r0) :=
    if q0 <=? r1 then
      let '(a1, a0) := add_ssaaaa r1 r0 d1 d0 in (wrap (q - 1), a1, a0)
    else (q, r1, r0) in
  if d1 <=? r1 then
    if (d1 <? r1) || (d0 <=? r0) then
      let '(s1, s0) := sub_ddmmss r1 r0 d1 d0 in (wrap (q + 1), s1, s0)
    else (q, r1, r0)
  else (q, r1, r0).

(* ---- limb level: divide {np,n} by one limb d, most significant limb first ---- *)
Fixpoint divrem_1_rev (n_rev : list Z) (d r : Z) : list Z * Z :=   (* returns quotient limbs msb first *)
  match n_rev with
  | [] => ([], r)
  | x :: rest =>
      let '(q, r') := udiv_qrnnd r x d in
      let '(qs, rf) := divrem_1_rev rest d r' in (q :: qs, rf)
  end.
Definition divrem_1 (n : list Z) (d : Z) : list Z * Z :=
  let '(q_rev, r) := divrem_1_rev (rev n) d 0 in (rev q_rev, r).
Definition mod_1 (n : list Z) (d : Z) : Z := snd (divrem_1 n d).

(* ---- mpz level ---- *)
Inductive res (A : Type) := Ok (a : A) | DivByZero.
Arguments Ok {A} a. Arguments DivByZero {A}.

(* mpz_tdiv_qr: mpn_tdiv_qr on the magnitudes; quotient sign = sign(n) xor sign(d),
   remainder sign = sign(n) *)
Definition tdiv_qr (n d : Z) : res (Z * Z) :=
  if d =? 0 then DivByZero
  else
    let qm := Z.abs n / Z.abs d in
    let rm := Z.abs n mod Z.abs d in
    Ok ((if xorb (n <? 0) (d <? 0) then - qm else qm), (if n <? 0 then - rm else rm)).
(* mpz_fdiv_qr: tdiv_qr, then if signs differ and r <> 0: q -= 1, r += d *)
Definition fdiv_qr (n d : Z) : res (Z * Z) :=
  match tdiv_qr n d with
  | DivByZero => DivByZero
  | Ok (q, r) => if xorb (n <? 0) (d <? 0) && negb (r =? 0) then Ok (q - 1, r + d) else Ok (q, r)
  end.
(* mpz_cdiv_qr: tdiv_qr, then if signs agree and r <> 0: q += 1, r -= d *)
Definition cdiv_qr (n d : Z) : res (Z * Z) :=
  match tdiv_qr n d with
  | DivByZero => DivByZero
  | Ok (q, r) => if negb (xorb (n <? 0) (d <? 0)) && negb (r =? 0) then Ok (q + 1, r - d) else Ok (q, r)
  end.

(* the _ui forms: divisor d > 0 is an unsigned long; return value is |r| *)
Definition tdiv_qr_ui (n d : Z) : res (Z * Z * Z) :=
  match tdiv_qr n d with DivByZero => DivByZero | Ok (q, r) => Ok (q, r, Z.abs r) end.
(* mpz_fdiv_qr_ui: rl = |n| mod d; if rl <> 0 and n < 0: |q| += 1, rl = d - rl; r = rl *)
Definition fdiv_qr_ui (n d : Z) : res (Z * Z * Z) :=
  if d =? 0 then DivByZero
  else
    let qm := Z.abs n / d in let rl := Z.abs n mod d in
    if negb (rl =? 0) && (n <? 0) then Ok (- (qm + 1), d - rl, d - rl)
    else Ok ((if n <? 0 then - qm else qm), rl, rl).
(* mpz_cdiv_qr_ui: if rl <> 0 and n >= 0: |q| += 1, rl = d - rl; r = -rl *)
Definition cdiv_qr_ui (n d : Z) : res (Z * Z * Z) :=
  if d =? 0 then DivByZero
  else
    let qm := Z.abs n / d in let rl := Z.abs n mod d in
    if negb (rl =? 0) && (0 <=? n) then Ok (qm + 1, - (d - rl), d - rl)
    else Ok ((if n <? 0 then - qm else qm), - rl, rl).

(* mpz/cfdiv_q_2exp.c: shift the magnitude right; round away from zero when the sign
   matches the rounding direction and a non-zero bit was shifted out.
   dir = 1 for cdiv, -1 for fdiv *)
Definition cfdiv_q_2exp (n cnt dir : Z) : Z :=
  let qm := Z.abs n / 2 ^ cnt in
  let lost := negb (Z.abs n mod 2 ^ cnt =? 0) in
  let round := lost && (if 0 <=? dir then 0 <=? n else n <? 0) && negb (n =? 0) in
  let qm' := if round then qm + 1 else qm in
  if n <? 0 then - qm' else qm'.
Definition tdiv_q_2exp (n cnt : Z) : Z :=
  let qm := Z.abs n / 2 ^ cnt in if n <? 0 then - qm else qm.
(* mpz/cfdiv_r_2exp.c: low cnt bits of the magnitude if the sign rounds toward zero,
   else the two's complement of them with the opposite sign *)
Definition cfdiv_r_2exp (n cnt dir : Z) : Z :=
  let rm := Z.abs n mod 2 ^ cnt in
  if (if 0 <=? dir then n <? 0 else 0 <=? n) || (rm =? 0) then (if n <? 0 then - rm else rm)
  else (if 0 <=? dir then - (2 ^ cnt - rm) else 2 ^ cnt - rm).
Definition tdiv_r_2exp (n cnt : Z) : Z :=
  let rm := Z.abs n mod 2 ^ cnt in if n <? 0 then - rm else rm.

(* mpz_mod: fdiv_r by |d| *)
Definition mpz_mod (n d : Z) : res Z :=
  match fdiv_qr n (Z.abs d) with DivByZero => DivByZero | Ok (_, r) => Ok r end.
(* mpz_divexact (n, d) for d | n: the quotient *)
Definition divexact (n d : Z) : res Z :=
  match tdiv_qr n d with DivByZero => DivByZero | Ok (q, _) => Ok q end.
(* mpz_divisible_p: d = 0 -> n = 0 *)
Definition divisible_p (n d : Z) : bool :=
  if d =? 0 then n =? 0 else Z.abs n mod Z.abs d =? 0.
Definition divisible_2exp_p (n cnt : Z) : bool := Z.abs n mod 2 ^ cnt =? 0.
(* mpz_congruent_p (a, c, d): d = 0 -> a = c *)
Definition congruent_p (a c d : Z) : bool :=
  if d =? 0 then a =? c else Z.abs (a - c) mod Z.abs d =? 0.
Definition congruent_2exp_p (a c cnt : Z) : bool := Z.abs (a - c) mod 2 ^ cnt =? 0.

(* residue oracle for very large divisions: n = q d + r checked modulo the four moduli *)
Definition res_moduli : list Z :=
  [2305843009213693951; 18446744073709551557; 18446744073709551533; 4611686018427387847].
Definition divcheck_residues (n d q r : Z) : bool :=
  forallb (fun p => (n mod p) =? (((q mod p) * (d mod p)) + r mod p) mod p) res_moduli.
