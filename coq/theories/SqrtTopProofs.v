(* SqrtTopProofs.v -- the top-level function of mpn/generic/sqrtrem.c as modelled in SqrtDefs.v
   (mpn_sqrtrem, mpn_sqrtrem_limbs): normalisation by an even shift count, odd/even number of
   limbs, un-normalisation of the root, recomputation of the remainder and the returned size.
   Builds on sqrtrem1_correct / dc_sqrtrem_correct of SqrtProofs.v. *)
From Coq Require Import ZArith List Lia Bool Psatz Znumtheory.
From Mpir Require Import Word Limbs SqrtDefs SqrtProofs.
Import ListNotations.
Local Open Scope Z_scope.
Local Open Scope bool_scope.

(* ------------------------------------------------------------------------------------------ *)
(* the number of limbs of a non-negative integer (0 for 0)                                     *)

Definition limb_count (v : Z) : Z := if v =? 0 then 0 else Z.log2 v / 64 + 1.

Lemma limb_count_0 : limb_count 0 = 0. Proof. reflexivity. Qed.

Lemma limb_count_unique v r : 0 < v -> Bk (r - 1) <= v < Bk r -> limb_count v = r.
Proof.
  intros Hv [Hlo Hhi]. unfold limb_count. destruct (Z.eqb_spec v 0) as [E|_]; [lia|].
  unfold Bk in *.
  assert (H1 : 64 * (r - 1) <= Z.log2 v) by (apply Z.log2_le_pow2; [lia|exact Hlo]).
  assert (H2 : Z.log2 v < 64 * r) by (apply Z.log2_lt_pow2; [lia|exact Hhi]).
  Z.div_mod_to_equations. lia.
Qed.

Lemma limb_count_spec v : 0 < v ->
  1 <= limb_count v /\ Bk (limb_count v - 1) <= v < Bk (limb_count v).
Proof.
  intros Hv. unfold limb_count. destruct (Z.eqb_spec v 0) as [E|_]; [lia|].
  pose proof (Z.log2_spec v Hv) as [Hlo Hhi]. pose proof (Z.log2_nonneg v) as He.
  set (e := Z.log2 v) in *. set (k := e / 64).
  assert (Hk : 64 * k <= e < 64 * k + 64) by (unfold k; Z.div_mod_to_equations; lia).
  replace (k + 1 - 1) with k by lia. unfold Bk. split; [lia|]. split.
  - apply Z.le_trans with (2 ^ e); [apply Z.pow_le_mono_r; lia|exact Hlo].
  - apply Z.lt_le_trans with (2 ^ Z.succ e); [exact Hhi|apply Z.pow_le_mono_r; lia].
Qed.

Lemma limb_count_nonneg v : 0 <= v -> 0 <= limb_count v.
Proof.
  intros Hv. destruct (Z.eq_dec v 0) as [->|Hne]; [rewrite limb_count_0; lia|].
  pose proof (limb_count_spec v ltac:(lia)). lia.
Qed.

Lemma limb_count_bound v : 0 <= v -> v < Bk (limb_count v).
Proof.
  intros Hv. destruct (Z.eq_dec v 0) as [->|Hne]; [reflexivity|].
  pose proof (limb_count_spec v ltac:(lia)). lia.
Qed.

Lemma limb_count_le v k : 0 <= k -> 0 <= v < Bk k -> limb_count v <= k.
Proof.
  intros Hk Hv. destruct (Z.eq_dec v 0) as [->|Hne]; [rewrite limb_count_0; lia|].
  destruct (limb_count_spec v ltac:(lia)) as (H1 & H2 & H3).
  destruct (Z_le_gt_dec (limb_count v) k) as [Hc|Hc]; [exact Hc|exfalso].
  assert (Bk k <= Bk (limb_count v - 1)) by (unfold Bk; apply Z.pow_le_mono_r; lia). lia.
Qed.

Lemma mod_limb_count v : 0 <= v -> v mod Bk (limb_count v) = v.
Proof. intros Hv. apply Z.mod_small. split; [exact Hv|apply limb_count_bound; exact Hv]. Qed.

(* MPN_NORMALIZE returns the limb count *)
Lemma normalize_spec : forall k v, 0 <= v < Bk (Z.of_nat k) -> normalize k v = limb_count v.
Proof.
  induction k as [|k IH]; intros v Hv.
  - change (Bk (Z.of_nat 0)) with 1 in Hv. assert (E : v = 0) by lia. rewrite E. reflexivity.
  - unfold normalize; fold normalize.
    rewrite Nat2Z.inj_succ in *. unfold Z.succ in *.
    rewrite Bk_S in Hv by lia.
    pose proof (Bk_pos (Z.of_nat k) ltac:(lia)) as Hp.
    set (M := Bk (Z.of_nat k)) in *.
    pose proof (Z.div_mod v M ltac:(lia)) as Hdm. pose proof (Z.mod_pos_bound v M Hp) as Hm.
    assert (Hq : 0 <= v / M < B).
    { split; [apply Z.div_pos; lia|apply Z.div_lt_upper_bound; lia]. }
    rewrite (Z.mod_small (v / M) B) by exact Hq.
    destruct (Z.eqb_spec (v / M) 0) as [Ez|Enz].
    + apply IH. rewrite Ez in Hdm. fold M. lia.
    + symmetry. apply limb_count_unique.
      * assert (M * 1 <= M * (v / M)) by (apply Z.mul_le_mono_nonneg_l; lia). lia.
      * replace (Z.of_nat k + 1 - 1) with (Z.of_nat k) by lia. fold M.
        rewrite Bk_S by lia. fold M.
        assert (M * 1 <= M * (v / M)) by (apply Z.mul_le_mono_nonneg_l; lia). lia.
Qed.

(* ------------------------------------------------------------------------------------------ *)
(* the arithmetic of un-normalising                                                           *)

(* T = N p^2 (p = 2^c), S0 = floor (sqrt T):  floor (sqrt N) = S0 / p, and the remainder of N
   is (R0 + 2 S0 s0 - s0^2) / p^2 with s0 = S0 mod p, the division being exact *)
Lemma unnorm_arith N p S0 R0 :
  0 <= N -> 0 < p -> 0 <= S0 -> 0 <= R0 <= 2 * S0 -> N * (p * p) = S0 * S0 + R0 ->
  let S := S0 / p in let s0 := S0 mod p in
  Z.sqrt N = S /\ 0 <= N - S * S <= 2 * S
  /\ R0 + 2 * S0 * s0 - s0 * s0 = (N - S * S) * (p * p).
Proof.
  intros HN Hp HS0 HR0 HT S s0.
  pose proof (Z.div_mod S0 p ltac:(lia)) as Hdm. fold S s0 in Hdm.
  pose proof (Z.mod_pos_bound S0 p Hp) as Hs0. fold s0 in Hs0.
  assert (HS : 0 <= S) by (apply Z.div_pos; lia).
  assert (Hval : R0 + 2 * S0 * s0 - s0 * s0 = (N - S * S) * (p * p)).
  { replace ((N - S * S) * (p * p)) with (N * (p * p) - (p * S) * (p * S)) by ring.
    rewrite HT. replace (p * S) with (S0 - s0) by lia. ring. }
  assert (Hpp : 0 < p * p) by (apply Z.mul_pos_pos; lia).
  assert (Hlo : S * S <= N).
  { assert (H1 : (p * S) * (p * S) <= S0 * S0) by (apply Z.square_le_mono_nonneg; nia).
    assert (H2 : (S * S) * (p * p) <= N * (p * p)) by (rewrite HT; lia).
    apply Z.mul_le_mono_pos_r in H2; [exact H2|exact Hpp]. }
  assert (Hhi : N < (S + 1) * (S + 1)).
  { assert (H0 : S0 + 1 <= p * (S + 1)) by lia.
    assert (H1 : (S0 + 1) * (S0 + 1) <= (p * (S + 1)) * (p * (S + 1)))
      by (apply Z.square_le_mono_nonneg; lia).
    assert (H2 : N * (p * p) < ((S + 1) * (S + 1)) * (p * p)) by (rewrite HT; lia).
    apply Z.mul_lt_mono_pos_r in H2; [exact H2|exact Hpp]. }
  split; [|split; [lia|exact Hval]].
  apply (sqrt_char S (N - S * S)); lia.
Qed.

(* ------------------------------------------------------------------------------------------ *)
(* bit-level facts about the high limb                                                        *)

Lemma land_high_test h : 0 <= h < 2 ^ 64 -> (Z.land h (2 ^ 63) =? 0) = (h <? 2 ^ 63).
Proof.
  intros Hh. destruct (Z.ltb_spec h (2 ^ 63)) as [Hlt|Hge].
  - rewrite land_pow63 by lia. reflexivity.
  - destruct (Z.eqb_spec (Z.land h (2 ^ 63)) 0) as [E|_]; [exfalso|reflexivity].
    assert (Hb : Z.testbit (Z.land h (2 ^ 63)) 63 = true).
    { rewrite Z.land_spec, Z.pow2_bits_true by lia. rewrite andb_true_r.
      apply Z.testbit_true; [lia|].
      assert (E1 : h / 2 ^ 63 = 1).
      { symmetry. apply (Z.div_unique h (2 ^ 63) 1 (h - 2 ^ 63)); lia. }
      rewrite E1. reflexivity. }
    rewrite E in Hb. rewrite Z.bits_0 in Hb. discriminate Hb.
Qed.

(* c = count_leading_zeros (high) / 2: the shift 2c normalises high to [2^62, 2^64) *)
Lemma clz_half_spec h : 1 <= h < 2 ^ 64 ->
  0 <= clz h / 2 <= 31 /\ 2 ^ 62 <= h * 2 ^ (2 * (clz h / 2)) < 2 ^ 64.
Proof.
  intros Hh. unfold clz.
  pose proof (Z.log2_spec h ltac:(lia)) as [Hlo Hhi]. pose proof (Z.log2_nonneg h) as He.
  assert (He2 : Z.log2 h < 64) by (apply Z.log2_lt_pow2; lia).
  set (e := Z.log2 h) in *. set (c := (63 - e) / 2).
  assert (Hc : 62 - e <= 2 * c <= 63 - e) by (unfold c; Z.div_mod_to_equations; lia).
  split; [lia|].
  assert (Hpc : 0 < 2 ^ (2 * c)) by (apply Z.pow_pos_nonneg; lia).
  split.
  - apply Z.le_trans with (2 ^ e * 2 ^ (2 * c)).
    + rewrite <- Z.pow_add_r by lia. apply Z.pow_le_mono_r; lia.
    + apply Z.mul_le_mono_nonneg_r; lia.
  - apply Z.lt_le_trans with (2 ^ Z.succ e * 2 ^ (2 * c)).
    + apply Z.mul_lt_mono_pos_r; lia.
    + rewrite <- Z.pow_add_r by lia. apply Z.pow_le_mono_r; lia.
Qed.

Lemma land_low_mask x c : 0 <= c <= 63 ->
  Z.land (x mod B) (wrap (shl 1 c - 1)) = x mod 2 ^ c.
Proof.
  intros Hc.
  assert (Hpc : 0 < 2 ^ c) by (apply Z.pow_pos_nonneg; lia).
  assert (HpB : 2 ^ c * 2 ^ (64 - c) = B).
  { rewrite <- Z.pow_add_r by lia. rewrite B_2_64. f_equal. lia. }
  assert (Hp2 : 0 < 2 ^ (64 - c)) by (apply Z.pow_pos_nonneg; lia).
  assert (HpltB : 2 ^ c < B) by (assert (2 <= 2 ^ (64 - c)) by (change 2 with (2 ^ 1) at 1; apply Z.pow_le_mono_r; lia); nia).
  rewrite shl_small by lia. rewrite Z.mul_1_l.
  rewrite wrap_small by lia.
  replace (2 ^ c - 1) with (Z.ones c) by (rewrite Z.ones_equiv; lia).
  rewrite Z.land_ones by lia.
  symmetry. apply Zmod_div_mod; [lia|rewrite <- HpB; lia|].
  exists (2 ^ (64 - c)). rewrite <- HpB. ring.
Qed.

(* ------------------------------------------------------------------------------------------ *)
(* the un-normalising tail of mpn_sqrtrem (lines 354-367 and MPN_NORMALIZE)                    *)

Lemma unnorm_tail tn c S0 R0 rl R Nv :
  1 <= tn -> 1 <= c <= 63 -> 0 <= Nv ->
  0 <= S0 < Bk tn -> 0 <= R0 <= 2 * S0 -> Nv * (2 ^ c * 2 ^ c) = S0 * S0 + R0 ->
  rl * Bk tn + R = R0 -> 0 <= R < Bk tn -> 0 <= rl <= 1 ->
  (let s0 := Z.land (S0 mod B) (wrap (shl 1 c - 1)) in
   let '(cy, R) := v_addmul_1 tn R S0 (wrap (2 * s0)) in
   let rl := wrap (rl + cy) in
   let '(cc, t0) := v_submul_1 1 (R mod B) s0 s0 in
   let '(rl, R) :=
     if 1 <? tn then
       let '(bw, Rh) := v_sub_1 (tn - 1) (R / B) cc in
       (wrap (rl - bw), t0 + B * Rh)
     else (wrap (rl - cc), t0) in
   let Sv := v_rshift tn S0 c in
   let W := R + Bk tn * rl in
   let c := c * 2 in
   let '(tn, W, c) := if c <? 64 then (tn + 1, W, c)
                      else (tn, (W / B) mod Bk tn, c - 64) in
   let Rv := if negb (c =? 0) then v_rshift tn W c else W in
   let rn := normalize (Z.to_nat tn) Rv in
   Some (Sv, Rv mod Bk rn, rn))
  = Some (Z.sqrt Nv, Nv - Z.sqrt Nv * Z.sqrt Nv,
          limb_count (Nv - Z.sqrt Nv * Z.sqrt Nv)).
Proof.
  intros Htn Hc HNv HS0 HR0 HT Hval0 HR Hrl.
  set (p := 2 ^ c) in *.
  assert (Hp : 2 <= p <= 2 ^ 63).
  { unfold p. split; [change 2 with (2 ^ 1) at 1|]; apply Z.pow_le_mono_r; lia. }
  destruct (unnorm_arith Nv p S0 R0 HNv ltac:(lia) ltac:(lia) HR0 HT) as (Hsq & HRt & HV).
  rewrite Hsq. set (S := S0 / p) in *. set (s0 := S0 mod p) in *.
  set (Rt := Nv - S * S) in *.
  pose proof (Z.mod_pos_bound S0 p ltac:(lia)) as Hs0. fold s0 in Hs0.
  pose proof (Z.div_mod S0 p ltac:(lia)) as HS0dm. fold S s0 in HS0dm.
  assert (HS : 0 <= S) by (apply Z.div_pos; lia).
  rewrite (land_low_mask S0 c ltac:(lia)). fold p. fold s0.
  set (M := Bk tn) in *.
  assert (HM : 0 < M) by (apply Bk_pos; lia).
  assert (HB : B = 2 ^ 64) by exact B_2_64.
  assert (HBM : B <= M).
  { unfold M. rewrite <- Bk_1. unfold Bk. apply Z.pow_le_mono_r; lia. }
  cbv zeta. unfold v_addmul_1, v_submul_1, v_sub_1, v_rshift. fold M. fold p. fold S.
  rewrite (wrap_small (2 * s0)) by lia.
  (* mpn_addmul_1 *)
  set (X := R + S0 * (2 * s0)).
  pose proof (Z.div_mod X M ltac:(lia)) as HXdm. pose proof (Z.mod_pos_bound X M HM) as HXm.
  set (cy := X / M) in *. set (R' := X mod M) in *.
  assert (HX0 : 0 <= X) by (unfold X; nia).
  assert (Hcy : 0 <= cy <= 2 * s0).
  { unfold cy. split; [apply Z.div_pos; lia|].
    assert (X / M < 2 * s0 + 1); [|lia]. apply Z.div_lt_upper_bound; [lia|]. unfold X. nia. }
  rewrite (wrap_small (rl + cy)) by lia.
  (* mpn_submul_1 on the low limb *)
  change (Bk 1) with (2 ^ 64). rewrite <- HB.
  set (r0 := R' mod B). set (Rh0 := R' / B).
  pose proof (Z.div_mod R' B ltac:(lia)) as HR'dm. fold r0 Rh0 in HR'dm.
  pose proof (Z.mod_pos_bound R' B ltac:(lia)) as Hr0. fold r0 in Hr0.
  set (Y := r0 - s0 * s0).
  pose proof (Z.div_mod Y B ltac:(lia)) as HYdm. pose proof (Z.mod_pos_bound Y B ltac:(lia)) as Ht0.
  set (t0 := Y mod B) in *.
  assert (Hss : 0 <= s0 * s0 <= 2 ^ 63 * 2 ^ 63) by (clear - Hs0 Hp; nia).
  assert (Hcc : 0 <= - (Y / B) <= 2 ^ 62).
  { assert (Y / B < 1) by (apply Z.div_lt_upper_bound; unfold Y; lia).
    assert (- 2 ^ 62 <= Y / B) by (apply Z.div_le_lower_bound; [lia|unfold Y; rewrite HB; lia]).
    lia. }
  set (cc := - (Y / B)) in *.
  (* the value after both updates *)
  set (V := R0 + 2 * S0 * s0 - s0 * s0) in *.
  assert (HV0 : 0 <= V) by (rewrite HV; apply Z.mul_nonneg_nonneg; nia).
  assert (HVhi : V < B * M).
  { assert (H1 : Rt * p <= 2 * S * p) by (apply Z.mul_le_mono_nonneg_r; lia).
    assert (H2 : Rt * p * p <= 2 * S0 * p) by (apply Z.mul_le_mono_nonneg_r; nia).
    assert (H3 : 2 * S0 * p <= 2 * S0 * 2 ^ 63) by (apply Z.mul_le_mono_nonneg_l; lia).
    assert (H4 : 2 * S0 * 2 ^ 63 < 2 * M * 2 ^ 63) by lia.
    rewrite HV. rewrite HB. lia. }
  set (res := if 1 <? tn
              then (wrap (rl + cy - (if Rh0 <? cc then 1 else 0)),
                    t0 + B * ((Rh0 - cc) mod Bk (tn - 1)))
              else (wrap (rl + cy - cc), t0)).
  assert (Hres : exists rl2 R2, res = (rl2, R2) /\ R2 + M * rl2 = V).
  { unfold res. destruct (Z.ltb_spec 1 tn) as [H1|H1].
    - assert (HMB : M = B * Bk (tn - 1)).
      { unfold M. replace tn with (tn - 1 + 1) at 1 by lia. rewrite Bk_S by lia. ring. }
      pose proof (Bk_pos (tn - 1) ltac:(lia)) as HM1.
      assert (HBM1 : B <= Bk (tn - 1)).
      { rewrite <- Bk_1. unfold Bk. apply Z.pow_le_mono_r; lia. }
      set (M1 := Bk (tn - 1)) in *.
      assert (HRh0 : 0 <= Rh0 < M1).
      { unfold Rh0. split; [apply Z.div_pos; lia|apply Z.div_lt_upper_bound; lia]. }
      destruct (sub_mod_spec M1 Rh0 cc HM1 HRh0 ltac:(lia)) as [Hsb Hsbr].
      set (bw := if Rh0 <? cc then 1 else 0) in *.
      assert (Hbw : 0 <= bw <= 1) by (unfold bw; destruct (Rh0 <? cc); lia).
      set (Rh := (Rh0 - cc) mod M1) in *.
      assert (E1 : t0 = r0 - s0 * s0 + B * cc) by (unfold cc, Y in *; clear - HYdm; lia).
      assert (E2 : B * Rh = B * Rh0 - B * cc + bw * M).
      { rewrite HMB. replace Rh with (Rh0 - cc + bw * M1) by (clear - Hsb; lia). ring. }
      assert (Hval : (rl + cy - bw) * M + (t0 + B * Rh) = V).
      { unfold V. rewrite <- Hval0. unfold X in HXdm. clear - E1 E2 HXdm HR'dm. lia. }
      assert (Hr2 : 0 <= t0 + B * Rh < M).
      { rewrite HMB.
        assert (B * Rh <= B * (M1 - 1)) by (apply Z.mul_le_mono_nonneg_l; lia).
        assert (0 <= B * Rh) by (apply Z.mul_nonneg_nonneg; lia). lia. }
      assert (Hge : 0 <= rl + cy - bw).
      { destruct (Z_lt_le_dec (rl + cy - bw) 0) as [Hneg|Hok]; [|exact Hok]. exfalso.
        apply (carry_sign (rl + cy - bw) (t0 + B * Rh) V M HM Hval Hr2) in Hneg. lia. }
      rewrite wrap_small by lia.
      eexists; eexists; split; [reflexivity|]. lia.
    - assert (Etn : tn = 1) by lia.
      assert (HMB : M = B) by (unfold M; rewrite Etn; apply Bk_1).
      assert (Er0 : r0 = R') by (unfold r0; apply Z.mod_small; lia).
      assert (E1 : t0 = R' - s0 * s0 + M * cc).
      { rewrite HMB, <- Er0. unfold cc, Y in *. clear - HYdm. lia. }
      assert (Hval : (rl + cy - cc) * M + t0 = V).
      { unfold V. rewrite <- Hval0. unfold X in HXdm. clear - E1 HXdm. lia. }
      assert (Hge : 0 <= rl + cy - cc).
      { destruct (Z_lt_le_dec (rl + cy - cc) 0) as [Hneg|Hok]; [|exact Hok]. exfalso.
        apply (carry_sign (rl + cy - cc) t0 V M HM Hval ltac:(lia)) in Hneg. lia. }
      rewrite wrap_small by lia.
      eexists; eexists; split; [reflexivity|]. lia. }
  destruct Hres as (rl2 & R2 & Eres & HW).
  fold res. rewrite Eres. rewrite HW.
  assert (Hpp : 0 < p * p) by nia.
  assert (HVdiv : V / (p * p) = Rt) by (rewrite HV; apply Z.div_mul; lia).
  assert (HRt0 : 0 <= Rt) by lia.
  assert (Epp : 2 ^ (c * 2) = p * p).
  { replace (c * 2) with (c + c) by lia. rewrite Z.pow_add_r by lia. reflexivity. }
  destruct (Z.ltb_spec (c * 2) 64) as [Hlt|Hge].
  - destruct (Z.eqb_spec (c * 2) 0) as [Ez|_]; [lia|]. cbn [negb].
    rewrite Epp, HVdiv.
    rewrite normalize_spec.
    + rewrite mod_limb_count by exact HRt0. reflexivity.
    + rewrite Z2Nat.id by lia. rewrite Bk_S by lia. fold M.
      assert (S <= S0) by (clear - HS0dm Hs0 Hp HS; nia). lia.
  - assert (HVB : 0 <= V / B < M).
    { split; [apply Z.div_pos; lia|apply Z.div_lt_upper_bound; lia]. }
    rewrite (Z.mod_small (V / B) M) by exact HVB.
    assert (Ecs : B * 2 ^ (c * 2 - 64) = p * p).
    { rewrite <- Epp, HB, <- Z.pow_add_r by lia. f_equal. lia. }
    assert (ERv : (if negb (c * 2 - 64 =? 0) then V / B / 2 ^ (c * 2 - 64) else V / B) = Rt).
    { destruct (Z.eqb_spec (c * 2 - 64) 0) as [Ez|Enz]; cbn [negb].
      - rewrite Ez in Ecs. change (2 ^ 0) with 1 in Ecs. rewrite <- HVdiv, <- Ecs. f_equal; ring.
      - rewrite Z.div_div by (try apply Z.pow_pos_nonneg; lia). rewrite Ecs. exact HVdiv. }
    rewrite ERv.
    rewrite normalize_spec.
    + rewrite mod_limb_count by exact HRt0. reflexivity.
    + rewrite Z2Nat.id by lia. fold M.
      assert (H32 : 2 ^ 32 <= p) by (unfold p; apply Z.pow_le_mono_r; lia).
      assert (S * 2 ^ 32 <= S0) by (clear - HS0dm Hs0 H32 HS; nia). lia.
Qed.

(* ------------------------------------------------------------------------------------------ *)
(* mpn_sqrtrem                                                                                 *)

(* Theorem (mpn_sqrtrem): for every nn >= 1 and every operand N = {np, nn} with a non-zero top
   limb the model returns the root floor (sqrt N) in {sp, (nn+1)/2}, the remainder N - root^2 in
   {rp, rn}, and rn = the number of limbs of the remainder (0 if N is a perfect square). *)
Theorem mpn_sqrtrem_correct nn N :
  1 <= nn -> Bk (nn - 1) <= N < Bk nn ->
  let S := Z.sqrt N in
  let R := N - S * S in
  mpn_sqrtrem nn N = Some (S, R, limb_count R)
  /\ 0 <= S < Bk ((nn + 1) / 2) /\ 0 <= R <= 2 * S.
Proof.
  intros Hnn [HNlo HNhi] S R.
  pose proof (Bk_pos (nn - 1) ltac:(lia)) as HB1.
  assert (HBnn : Bk nn = Bk (nn - 1) * B).
  { replace nn with (nn - 1 + 1) at 1 by lia. apply Bk_S. lia. }
  assert (HB : B = 2 ^ 64) by exact B_2_64.
  assert (HN0 : 0 <= N) by lia.
  destruct (sqrt_rem_bounds N HN0) as [HS0 HR0]. fold S in HS0, HR0. fold R in HR0.
  set (h := N / Bk (nn - 1)).
  assert (Hh : 1 <= h < B).
  { unfold h. split; [apply Z.div_le_lower_bound; lia|apply Z.div_lt_upper_bound; lia]. }
  pose proof (Z.div_mod N (Bk (nn - 1)) ltac:(lia)) as HNdm. fold h in HNdm.
  pose proof (Z.mod_pos_bound N (Bk (nn - 1)) HB1) as HNm.
  unfold mpn_sqrtrem.
  destruct (Z.eqb_spec nn 0) as [Ez|_]; [lia|].
  fold h. rewrite (Z.mod_small h B) by lia.
  rewrite land_high_test by (rewrite <- HB; lia).
  destruct ((nn =? 1) && negb (h <? 2 ^ 63)) eqn:Econd.
  - (* one normalised limb: mpn_sqrtrem1 *)
    apply andb_true_iff in Econd. destruct Econd as [E1 E2].
    apply Z.eqb_eq in E1. apply negb_true_iff in E2. apply Z.ltb_ge in E2.
    assert (Eh : h = N) by (unfold h; rewrite E1; change (Bk (1 - 1)) with 1; apply Z.div_1_r).
    rewrite Eh in *. rewrite E1. change ((1 + 1) / 2) with 1. change (Bk 1) with (2 ^ 64).
    assert (HSlt : S < 2 ^ 32) by (unfold S; apply Z.sqrt_lt_square; lia).
    rewrite sqrtrem1_correct by lia. fold S. fold R.
    split; [|lia]. f_equal. f_equal.
    destruct (Z.eqb_spec R 0) as [Ez|Enz]; [rewrite Ez; reflexivity|].
    symmetry. apply limb_count_unique; [lia|].
    change (Bk (1 - 1)) with 1. change (Bk 1) with (2 ^ 64). lia.
  - clear Econd.
    destruct (clz_half_spec h ltac:(lia)) as [Hc0 Hsh].
    cbv zeta.
    set (c0 := clz h / 2) in *. set (tn := (nn + 1) / 2). set (d := nn mod 2).
    assert (Hd : 0 <= d <= 1 /\ nn + d = 2 * tn /\ 1 <= tn).
    { unfold d, tn. Z.div_mod_to_equations. lia. }
    destruct Hd as (Hd & Hdtn & Htn).
    set (q := 2 ^ (2 * c0)) in *.
    assert (Hq : 0 < q) by (unfold q; apply Z.pow_pos_nonneg; lia).
    (* the shifted operand fills the nn limbs *)
    assert (HNq : Bk (nn - 1) * 2 ^ 62 <= N * q < Bk (nn - 1) * B).
    { split.
      - apply Z.le_trans with (Bk (nn - 1) * (h * q)).
        + apply Z.mul_le_mono_nonneg_l; lia.
        + replace (Bk (nn - 1) * (h * q)) with (Bk (nn - 1) * h * q) by ring.
          apply Z.mul_le_mono_nonneg_r; lia.
      - assert (H1 : N * q < (h + 1) * Bk (nn - 1) * q) by (apply Z.mul_lt_mono_pos_r; lia).
        assert (H2 : (h + 1) * Bk (nn - 1) * q = Bk (nn - 1) * (h * q + q)) by ring.
        assert (H3 : Bk (nn - 1) * (h * q + q) <= Bk (nn - 1) * B).
        { apply Z.mul_le_mono_nonneg_l; [lia|].
          assert (Hqd : (q | 2 ^ 64)).
          { exists (2 ^ (64 - 2 * c0)). unfold q. rewrite <- Z.pow_add_r by lia. f_equal. lia. }
          destruct Hqd as [w Hw]. rewrite HB, Hw.
          assert (Hhw : h < w).
          { apply (Z.mul_lt_mono_pos_r q); [exact Hq|]. rewrite <- Hw. lia. }
          assert ((h + 1) * q <= w * q) by (apply Z.mul_le_mono_nonneg_r; lia). lia. }
        lia. }
    destruct (negb (d =? 0) || (0 <? c0)) eqn:Ebr.
    + (* odd size or a shift: temporary, un-normalise *)
      assert (Hc1 : 1 <= c0 + 32 * d <= 63).
      { apply orb_true_iff in Ebr. destruct Ebr as [Ebr|Ebr].
        - destruct (Z.eqb_spec d 0) as [Ed|Ed]; [discriminate Ebr|]. lia.
        - apply Z.ltb_lt in Ebr. lia. }
      assert (Ec : c0 + d * 64 / 2 = c0 + 32 * d).
      { f_equal. Z.div_mod_to_equations. lia. }
      rewrite Ec. set (c := c0 + 32 * d) in *.
      assert (Esh : (if negb (c0 =? 0) then snd (v_lshift nn N (2 * c0)) else N) = N * q).
      { destruct (Z.eqb_spec c0 0) as [E0|E0]; cbn [negb].
        - unfold q. rewrite E0. change (2 ^ (2 * 0)) with 1. lia.
        - unfold v_lshift. cbn [snd]. fold q. apply Z.mod_small. rewrite HBnn. split; [nia|lia]. }
      rewrite Esh. replace (2 * tn - nn) with d by lia.
      assert (Epp : Bk d * q = 2 ^ c * 2 ^ c).
      { unfold Bk, q, c. rewrite <- !Z.pow_add_r by lia. f_equal. lia. }
      assert (ET : 0 + Bk d * (N * q) = N * (2 ^ c * 2 ^ c)) by (rewrite <- Epp; ring).
      rewrite ET. set (T := N * (2 ^ c * 2 ^ c)) in *.
      assert (HBd : 0 < Bk d) by (apply Bk_pos; lia).
      assert (HB2 : Bk (2 * tn) = Bk d * (Bk (nn - 1) * B)).
      { rewrite <- HBnn, <- Bk_add by lia. f_equal. lia. }
      assert (HTlo : Bk (2 * tn) <= 4 * T).
      { rewrite HB2. rewrite <- ET. rewrite HB.
        assert (Bk d * (Bk (nn - 1) * 2 ^ 62) <= Bk d * (N * q))
          by (apply Z.mul_le_mono_nonneg_l; lia). lia. }
      assert (HThi : T < Bk (2 * tn)).
      { rewrite HB2. rewrite <- ET. rewrite Z.add_0_l. apply Z.mul_lt_mono_pos_l; [exact HBd|lia]. }
      destruct (dc_sqrtrem_correct tn T (Z.to_nat tn) Htn ltac:(lia) HTlo HThi)
        as (E & HS0hi & HS0lo & HR0' & Hrl).
      set (S0 := Z.sqrt T) in *. rewrite E.
      assert (HM : 0 < Bk tn) by (apply Bk_pos; lia).
      pose proof (Z.div_mod (T - S0 * S0) (Bk tn) ltac:(lia)) as Hdm.
      pose proof (Z.mod_pos_bound (T - S0 * S0) (Bk tn) HM) as Hm.
      split.
      * exact (unnorm_tail tn c S0 (T - S0 * S0) ((T - S0 * S0) / Bk tn)
                 ((T - S0 * S0) mod Bk tn) N Htn Hc1 HN0 ltac:(lia) HR0' ltac:(unfold T; lia)
                 ltac:(lia) Hm Hrl).
      * split; [|exact HR0]. split; [exact HS0|].
        apply Z.le_lt_trans with S0; [|exact HS0hi].
        unfold S, S0. apply Z.sqrt_le_mono. unfold T.
        assert (0 < 2 ^ c) by (apply Z.pow_pos_nonneg; lia). nia.
    + (* even size, top limb >= 2^62: in place *)
      apply orb_false_iff in Ebr. destruct Ebr as [Ebr1 Ebr2].
      apply negb_false_iff, Z.eqb_eq in Ebr1. apply Z.ltb_ge in Ebr2.
      assert (Ec0 : c0 = 0) by lia.
      assert (Eq1 : q = 1) by (unfold q; rewrite Ec0; reflexivity).
      rewrite Eq1, Z.mul_1_r in HNq.
      assert (HB2 : Bk (2 * tn) = Bk (nn - 1) * B) by (rewrite <- HBnn; f_equal; lia).
      destruct (dc_sqrtrem_correct tn N (Z.to_nat tn) Htn ltac:(lia)
                  ltac:(rewrite HB2, HB; lia) ltac:(rewrite HB2; lia))
        as (E & HShi & HSlo & _ & Hrl).
      fold S in E, HShi, HSlo, Hrl. fold R in E, Hrl. rewrite E.
      assert (HM : 0 < Bk tn) by (apply Bk_pos; lia).
      pose proof (Z.div_mod R (Bk tn) ltac:(lia)) as Hdm.
      pose proof (Z.mod_pos_bound R (Bk tn) HM) as Hm.
      set (cr := R / Bk tn) in *. set (Rl := R mod Bk tn) in *.
      assert (HRv : (Rl + Bk tn * cr) mod Bk (tn + cr) = R /\ 0 <= R < Bk (tn + cr)).
      { replace (Rl + Bk tn * cr) with R by lia.
        assert (Hb : 0 <= R < Bk (tn + cr)).
        { destruct (Z.eq_dec cr 0) as [E0|E0].
          - rewrite E0 in *. rewrite Z.add_0_r. lia.
          - assert (E1 : cr = 1) by lia. rewrite E1 in *. rewrite Bk_S by lia.
            assert (3 <= B) by (rewrite HB; lia). nia. }
        split; [apply Z.mod_small; exact Hb|exact Hb]. }
      destruct HRv as [HRv HRb]. rewrite HRv.
      rewrite normalize_spec by (rewrite Z2Nat.id by lia; exact HRb).
      rewrite mod_limb_count by lia.
      split; [reflexivity|]. split; [lia|exact HR0].
Qed.

(* ------------------------------------------------------------------------------------------ *)
(* the limb-list interface                                                                     *)

Lemma Bk_Bpow n : Bk (Z.of_nat n) = B ^ Z.of_nat n.
Proof. unfold Bk. rewrite B_2_64, <- Z.pow_mul_r by lia. reflexivity. Qed.

Lemma len_cons x l : len (x :: l) = len l + 1.
Proof. unfold len. cbn [length]. lia. Qed.

Lemma len_nonneg l : 0 <= len l. Proof. unfold len. lia. Qed.

Lemma length_to_limbs : forall k v, length (to_limbs k v) = k.
Proof. induction k as [|k IH]; intros v; cbn [to_limbs length]; [reflexivity|rewrite IH; reflexivity]. Qed.

Lemma wf_to_limbs : forall k v, wf (to_limbs k v).
Proof.
  induction k as [|k IH]; intros v; cbn [to_limbs]; [apply wf_nil|].
  apply wf_cons; [|apply IH]. unfold limb. apply Z.mod_pos_bound. exact B_pos.
Qed.

Lemma eval_to_limbs : forall k v, eval (to_limbs k v) = v mod Bk (Z.of_nat k).
Proof.
  induction k as [|k IH]; intros v.
  - cbn [to_limbs eval]. change (Bk (Z.of_nat 0)) with 1. rewrite Z.mod_1_r. reflexivity.
  - cbn [to_limbs eval]. rewrite IH. rewrite Nat2Z.inj_succ. unfold Z.succ.
    rewrite Bk_S by lia. rewrite (Z.mul_comm (Bk (Z.of_nat k)) B).
    pose proof (Bk_pos (Z.of_nat k) ltac:(lia)). pose proof B_pos.
    rewrite Z.rem_mul_r by lia. reflexivity.
Qed.

Lemma eval_to_limbs_small k v : 0 <= k -> 0 <= v < Bk k -> eval (to_limbs (Z.to_nat k) v) = v.
Proof.
  intros Hk Hv. rewrite eval_to_limbs, Z2Nat.id by lia. apply Z.mod_small. exact Hv.
Qed.

Lemma eval_upper l : wf l -> 0 <= eval l < Bk (len l).
Proof. intros H. unfold len. rewrite Bk_Bpow. apply eval_bounds. exact H. Qed.

(* top limb non-zero <-> the value fills all limbs *)
Lemma eval_lower : forall l, wf l -> l <> [] -> last l 0 <> 0 -> Bk (len l - 1) <= eval l.
Proof.
  induction l as [|x r IH]; intros Hwf Hne Hlast; [congruence|].
  apply wf_inv in Hwf. destruct Hwf as [Hx Hr]. unfold limb in Hx.
  rewrite len_cons. replace (len r + 1 - 1) with (len r) by lia.
  destruct r as [|y r'].
  - cbn [last] in Hlast. cbn [eval]. change (Bk (len [])) with 1. lia.
  - assert (Hl : last (x :: y :: r') 0 = last (y :: r') 0) by reflexivity.
    rewrite Hl in Hlast. specialize (IH Hr ltac:(discriminate) Hlast).
    set (r := y :: r') in *. cbn [eval].
    pose proof (len_nonneg r') as Hlen. assert (Hlr : len r = len r' + 1) by apply len_cons.
    replace (len r) with (len r - 1 + 1) at 1 by lia. rewrite Bk_S by lia.
    assert (B * Bk (len r - 1) <= B * eval r) by (apply Z.mul_le_mono_nonneg_l; [pose proof B_pos; lia|exact IH]).
    lia.
Qed.

Lemma last_nonzero : forall l, wf l -> l <> [] -> Bk (len l - 1) <= eval l -> last l 0 <> 0.
Proof.
  induction l as [|x r IH]; intros Hwf Hne Hlo; [congruence|].
  apply wf_inv in Hwf. destruct Hwf as [Hx Hr]. unfold limb in Hx.
  rewrite len_cons in Hlo. replace (len r + 1 - 1) with (len r) in Hlo by lia.
  destruct r as [|y r'].
  - cbn [last]. cbn [eval] in Hlo. change (Bk (len [])) with 1 in Hlo. lia.
  - assert (Hl : last (x :: y :: r') 0 = last (y :: r') 0) by reflexivity.
    rewrite Hl. set (r := y :: r') in *. cbn [eval] in Hlo.
    pose proof (len_nonneg r') as Hlen. assert (Hlr : len r = len r' + 1) by apply len_cons.
    apply (IH Hr); [discriminate|].
    replace (len r) with (len r - 1 + 1) in Hlo at 1 by lia. rewrite Bk_S in Hlo by lia.
    pose proof B_pos as HBp.
    destruct (Z_le_gt_dec (Bk (len r - 1)) (eval r)) as [Hc|Hc]; [exact Hc|exfalso].
    assert (B * eval r <= B * (Bk (len r - 1) - 1)) by (apply Z.mul_le_mono_nonneg_l; lia).
    lia.
Qed.

(* Corollary (mpn_sqrtrem on limb vectors, least significant limb first, top limb non-zero):
   the root limbs {sp, (nn+1)/2} evaluate to floor (sqrt (eval np)), the returned remainder
   limbs {rp, rn} to eval np - root^2, and the remainder vector is normalised (its length is
   the returned size: empty for a perfect square, else its top limb is non-zero). *)
Theorem mpn_sqrtrem_limbs_correct np :
  wf np -> np <> [] -> last np 0 <> 0 ->
  exists sl rl,
    mpn_sqrtrem_limbs np = Some (sl, rl)
    /\ wf sl /\ wf rl
    /\ eval sl = Z.sqrt (eval np)
    /\ eval rl = eval np - Z.sqrt (eval np) * Z.sqrt (eval np)
    /\ len sl = (len np + 1) / 2
    /\ len rl = limb_count (eval np - Z.sqrt (eval np) * Z.sqrt (eval np))
    /\ normalized rl.
Proof.
  intros Hwf Hne Hlast.
  pose proof (eval_upper np Hwf) as Hup. pose proof (eval_lower np Hwf Hne Hlast) as Hlo.
  assert (Hnn : 1 <= len np).
  { destruct np as [|x r]; [congruence|]. rewrite len_cons. pose proof (len_nonneg r). lia. }
  destruct (mpn_sqrtrem_correct (len np) (eval np) Hnn ltac:(lia)) as (E & HS & HR).
  set (N := eval np) in *. set (S := Z.sqrt N) in *. set (R := N - S * S) in *.
  set (tn := (len np + 1) / 2) in *.
  assert (Htn : 0 <= tn) by (unfold tn; Z.div_mod_to_equations; lia).
  pose proof (limb_count_nonneg R ltac:(lia)) as Hrn.
  pose proof (limb_count_bound R ltac:(lia)) as HRb.
  unfold mpn_sqrtrem_limbs. fold N. rewrite E. fold tn.
  exists (to_limbs (Z.to_nat tn) S), (to_limbs (Z.to_nat (limb_count R)) R).
  split; [reflexivity|].
  split; [apply wf_to_limbs|]. split; [apply wf_to_limbs|].
  split; [apply eval_to_limbs_small; lia|].
  split; [apply eval_to_limbs_small; lia|].
  split; [unfold len; rewrite length_to_limbs; apply Z2Nat.id; exact Htn|].
  assert (Hlen : len (to_limbs (Z.to_nat (limb_count R)) R) = limb_count R).
  { unfold len. rewrite length_to_limbs. apply Z2Nat.id. exact Hrn. }
  split; [exact Hlen|].
  unfold normalized.
  destruct (Z.eq_dec R 0) as [Ez|Enz].
  - left. rewrite Ez. reflexivity.
  - right. destruct (limb_count_spec R ltac:(lia)) as (H1 & H2 & H3).
    apply last_nonzero.
    + apply wf_to_limbs.
    + intros Hnil. rewrite Hnil in Hlen. unfold len in Hlen. cbn [length] in Hlen. lia.
    + rewrite Hlen. rewrite eval_to_limbs_small by lia. exact H2.
Qed.

(* the hypotheses are satisfiable and the statements are not vacuous: evaluated instances *)
Example mpn_sqrtrem_limbs_example :
  mpn_sqrtrem_limbs [5; 0; 2 ^ 61] = Some ([Z.sqrt (5 + 2 ^ 189) mod B; Z.sqrt (5 + 2 ^ 189) / B],
                                           to_limbs 2 (5 + 2 ^ 189 - Z.sqrt (5 + 2 ^ 189) * Z.sqrt (5 + 2 ^ 189))).
Proof. vm_compute. reflexivity. Qed.

Print Assumptions mpn_sqrtrem_correct.
Print Assumptions mpn_sqrtrem_limbs_correct.
Print Assumptions unnorm_tail.
Print Assumptions normalize_spec.
