(* AllocDefs.v — C04: the allocation behaviour of mpz objects as a state machine.
   A variable is (alloc in limbs, value); an operation yields the new pool and the allocator
   events the C code issues, in order, with the byte counts it passes:
     mpz_init / init2 / clear / realloc2 / _mpz_realloc (MPZ_REALLOC), mpz_set, set_ui, neg, abs,
     swap, add, sub, add_ui, sub_ui, mul_2exp (allocation request abs_usize+1, ...), and mpz_mul
     with its free-then-allocate / allocate-then-free (aliased) paths.
   Definitions only. *)
From Coq Require Import ZArith List Bool.
Import ListNotations.
Local Open Scope Z_scope.

Record zobj := mkobj { zalloc : Z; zval : Z }.
(* number of limbs of |v| *)
Definition nl (v : Z) : Z := if v =? 0 then 0 else Z.log2 (Z.abs v) / 64 + 1.

Inductive event := EAlloc (bytes : Z) | ERealloc (old new : Z) | EFree (bytes : Z).
Definition pool := list (option zobj).

Definition getv (p : pool) (i : nat) : option zobj := nth i p None.
Fixpoint setv (p : pool) (i : nat) (o : option zobj) : pool :=
  match p, i with
  | [], _ => []
  | _ :: r, O => o :: r
  | x :: r, S j => x :: setv r j o
  end.

(* _mpz_realloc (m, new_alloc): never zero space; a value that no longer fits becomes 0 *)
Definition do_realloc (o : zobj) (new_alloc : Z) : zobj * list event :=
  let na := Z.max new_alloc 1 in
  (mkobj na (if na <? nl (zval o) then 0 else zval o), [ERealloc (8 * zalloc o) (8 * na)]).
(* MPZ_REALLOC (w, n): only when the current allocation is too small *)
Definition ensure (o : zobj) (need : Z) : zobj * list event :=
  if zalloc o <? need then do_realloc o need else (o, []).

Inductive op :=
| OInit (i : nat) | OInit2 (i : nat) (bits : Z) | OClear (i : nat) | ORealloc2 (i : nat) (bits : Z)
| OSet (w u : nat) | OSetUi (w : nat) (v : Z) | ONeg (w u : nat) | OAbs (w u : nat) | OSwap (a b : nat)
| OAdd (w u v : nat) | OSub (w u v : nat) | OAddUi (w u : nat) (v : Z) | OSubUi (w u : nat) (v : Z)
| OMul2exp (w u : nat) (cnt : Z) | OMul (w u v : nat).

Definition KARA : Z := 17.   (* MUL_KARATSUBA_THRESHOLD of the pinned table, see ApiAlloc *)

(* result written into w after making room for [need] limbs; u, v read before (values) *)
Definition write (p : pool) (w : nat) (need : Z) (val : Z) : pool * list event :=
  match getv p w with
  | None => (p, [])
  | Some ow => let '(ow', ev) := ensure ow need in (setv p w (Some (mkobj (zalloc ow') val)), ev)
  end.

Definition step (kara : Z) (p : pool) (o : op) : pool * list event :=
  match o with
  | OInit i => match getv p i with None => (setv p i (Some (mkobj 1 0)), [EAlloc 8]) | Some _ => (p, []) end
  | OInit2 i bits =>
      match getv p i with
      | None => let l := Z.max ((bits + 63) / 64) 1 in (setv p i (Some (mkobj l 0)), [EAlloc (8 * l)])
      | Some _ => (p, [])
      end
  | OClear i => match getv p i with Some ob => (setv p i None, [EFree (8 * zalloc ob)]) | None => (p, []) end
  | ORealloc2 i bits =>
      match getv p i with
      | Some ob => let '(ob', ev) := do_realloc ob ((bits + 63) / 64) in (setv p i (Some ob'), ev)
      | None => (p, [])
      end
  | OSet w u =>
      match getv p w, getv p u with
      | Some _, Some ou => write p w (nl (zval ou)) (zval ou)
      | _, _ => (p, [])
      end
  | OSetUi w v => match getv p w with Some _ => write p w 0 v | None => (p, []) end
  | ONeg w u =>
      match getv p w, getv p u with
      | Some _, Some ou => if Nat.eqb w u then write p w 0 (- zval ou) else write p w (nl (zval ou)) (- zval ou)
      | _, _ => (p, [])
      end
  | OAbs w u =>
      match getv p w, getv p u with
      | Some _, Some ou => if Nat.eqb w u then write p w 0 (Z.abs (zval ou)) else write p w (nl (zval ou)) (Z.abs (zval ou))
      | _, _ => (p, [])
      end
  | OSwap a b =>
      match getv p a, getv p b with
      | Some oa, Some ob => (setv (setv p a (Some ob)) b (Some oa), [])
      | _, _ => (p, [])
      end
  | OAdd w u v =>
      match getv p w, getv p u, getv p v with
      | Some _, Some ou, Some ov => write p w (Z.max (nl (zval ou)) (nl (zval ov)) + 1) (zval ou + zval ov)
      | _, _, _ => (p, [])
      end
  | OSub w u v =>
      match getv p w, getv p u, getv p v with
      | Some _, Some ou, Some ov => write p w (Z.max (nl (zval ou)) (nl (zval ov)) + 1) (zval ou - zval ov)
      | _, _, _ => (p, [])
      end
  | OAddUi w u v =>
      match getv p w, getv p u with
      | Some _, Some ou => write p w (nl (zval ou) + 1) (zval ou + v)
      | _, _ => (p, [])
      end
  | OSubUi w u v =>
      match getv p w, getv p u with
      | Some _, Some ou => write p w (nl (zval ou) + 1) (zval ou - v)
      | _, _ => (p, [])
      end
  | OMul2exp w u cnt =>
      match getv p w, getv p u with
      | Some _, Some ou =>
          if zval ou =? 0 then write p w 0 0
          else write p w (nl (zval ou) + cnt / 64 + 1) (zval ou * 2 ^ cnt)
      | _, _ => (p, [])
      end
  | OMul w u v =>
      match getv p w, getv p u, getv p v with
      | Some ow, Some ou, Some ov =>
          let un := nl (zval ou) in let vn := nl (zval ov) in
          let prod := zval ou * zval ov in
          if (un =? 0) || (vn =? 0) then write p w 0 0
          else if vn =? 1 then write p w (un + 1) prod                     (* mpn_mul_1 path *)
          else if (un + vn <=? kara) && negb (Nat.eqb w u) && negb (Nat.eqb w v)
          then write p w (un + vn) prod                                    (* basecase shortcut *)
          else
            let wsize := un + vn in
            if zalloc ow <? wsize then
              if Nat.eqb w u || Nat.eqb w v
              then (setv p w (Some (mkobj wsize prod)), [EAlloc (8 * wsize); EFree (8 * zalloc ow)])
              else (setv p w (Some (mkobj wsize prod)), [EFree (8 * zalloc ow); EAlloc (8 * wsize)])
            else (setv p w (Some (mkobj (zalloc ow) prod)), [])
      | _, _, _ => (p, [])
      end
  end.

Fixpoint run (kara : Z) (p : pool) (ops : list op) : pool * list event :=
  match ops with
  | [] => (p, [])
  | o :: r => let '(p1, e1) := step kara p o in let '(p2, e2) := run kara p1 r in (p2, e1 ++ e2)
  end.

(* ---- side conditions of an operation ---- *)
(* scalar arguments are C unsigned longs (mpir_ui) *)
Definition op_ok (o : op) : Prop :=
  match o with
  | OSetUi _ v | OAddUi _ _ v | OSubUi _ _ v => 0 <= v < 2 ^ 64
  | _ => True
  end.
(* mpz_init / mpz_init2 name a variable slot of the pool *)
Definition op_inb (n : nat) (o : op) : Prop :=
  match o with
  | OInit i | OInit2 i _ => (i < n)%nat
  | _ => True
  end.


(* ---- invariants ---- *)
(* every live variable satisfies the format rules: at least one limb, value fits the allocation *)
Definition obj_ok (o : zobj) : Prop := 1 <= zalloc o /\ nl (zval o) <= zalloc o.
Definition pool_ok (p : pool) : Prop := Forall (fun x => match x with Some o => obj_ok o | None => True end) p.
(* bytes held by the pool *)
Definition held (p : pool) : Z :=
  fold_right (fun x s => match x with Some o => 8 * zalloc o + s | None => s end) 0 p.
(* net bytes of an event trace *)
Definition net (ev : list event) : Z :=
  fold_right (fun e s => match e with EAlloc b => b + s | ERealloc o n => n - o + s | EFree b => s - b end) 0 ev.
(* the plain-integer view of the pool: what the API user sees *)
Definition vals (p : pool) : list (option Z) := map (fun x => match x with Some o => Some (zval o) | None => None end) p.
Definition clear_all (n : nat) : list op := map OClear (seq 0 n).
