(* ScanProofs.v — the limb-level mpz_scan1 / mpz_scan0 of ScanDefs.v (the C control flow on
   sign-magnitude limbs) return exactly the value-level answers Zscan1 / Zscan0 of BitDefs.v:
   the least bit index at or above the start whose bit, in the infinite two's complement
   expansion of the signed value (Coq's Z.testbit), is 1 (resp. 0), or BITCNT_MAX when no such
   bit exists. *)
From Coq Require Import ZArith List Lia Bool.
From Mpir Require Import Word Limbs MpnBasicDefs MpnBasicProofs MpzDefs MpzProofs
  BitDefs BitProofs ScanDefs.
Import ListNotations.
Local Open Scope Z_scope.

(* ------------------------------------------------------------------ *)
(* the result of a scan for the bit value b in a bit sequence T         *)

Definition scan_res (T : Z -> bool) (b : bool) (start r : Z) : Prop :=
  (r = BITCNT_MAX /\ forall k, start <= k -> T k = negb b)
  \/ (start <= r /\ T r = b /\ forall k, start <= k < r -> T k = negb b).

Lemma scan_res_ext T T' b s r : (forall k, s <= k -> T' k = T k) ->
  scan_res T b s r -> scan_res T' b s r.
Proof.
  intros E [[R A]|(R & A1 & A2)]; [left|right].
  - split; [exact R|]. intros k Hk. rewrite E by lia. apply A. exact Hk.
  - split; [exact R|]. split; [rewrite E by lia; exact A1|].
    intros k Hk. rewrite E by lia. apply A2. exact Hk.
Qed.

Lemma scan_res_neg T T' b s r : (forall k, s <= k -> T' k = negb (T k)) ->
  scan_res T b s r -> scan_res T' (negb b) s r.
Proof.
  intros E [[R A]|(R & A1 & A2)]; [left|right].
  - split; [exact R|]. intros k Hk. rewrite E by lia. rewrite A by exact Hk. reflexivity.
  - split; [exact R|]. split; [rewrite E by lia; rewrite A1; reflexivity|].
    intros k Hk. rewrite E by lia. rewrite A2 by exact Hk. reflexivity.
Qed.

(* the answer is determined by the bit sequence *)
Lemma scan_res_unique T b s r r' : scan_res T b s r -> scan_res T b s r' -> r = r'.
Proof.
  assert (Hb : negb b <> b) by (destruct b; discriminate).
  intros [[R A]|(R & A1 & A2)] [[R' A']|(R' & A1' & A2')].
  - congruence.
  - exfalso. apply Hb. transitivity (T r'); [symmetry; apply A; exact R'|exact A1'].
  - exfalso. apply Hb. transitivity (T r); [symmetry; apply A'; exact R|exact A1].
  - destruct (Z.lt_trichotomy r r') as [L|[L|L]]; [|exact L|].
    + exfalso. apply Hb. transitivity (T r); [symmetry; apply A2'; lia|exact A1].
    + exfalso. apply Hb. transitivity (T r'); [symmetry; apply A2; lia|exact A1'].
Qed.

(* ------------------------------------------------------------------ *)
(* bits of single limbs                                                 *)

Lemma split64 k : exists q j, k = 64 * q + j /\ 0 <= j < 64.
Proof.
  exists (k / 64), (k mod 64). split; [apply Z.div_mod; lia|apply Z.mod_pos_bound; lia].
Qed.

Lemma div64 q j : 0 <= j < 64 -> (64 * q + j) / 64 = q.
Proof. intros Hj. symmetry. apply (Z.div_unique (64 * q + j) 64 q j); lia. Qed.

Lemma mod64 q j : 0 <= j < 64 -> (64 * q + j) mod 64 = j.
Proof. intros Hj. symmetry. apply (Z.mod_unique (64 * q + j) 64 q j); lia. Qed.

Lemma ctz_limb x : limb x -> x <> 0 ->
  0 <= ctz x < 64 /\ Z.testbit x (ctz x) = true /\ forall j, 0 <= j < ctz x -> Z.testbit x j = false.
Proof.
  intros [H0 H1] Hx. destruct (ctz_abs_nz x Hx) as (C1 & C2 & C3).
  rewrite Z.abs_eq in C1, C2, C3 by lia.
  split; [|split; [exact C2|exact C3]]. split; [exact C1|].
  destruct (Z_lt_dec (ctz x) 64) as [L|L]; [exact L|].
  rewrite (testbit_small x 64 (ctz x)) in C2; [discriminate| |lia].
  rewrite <- B_pow2. lia.
Qed.

Lemma limb_max_bits j : 0 <= j < 64 -> Z.testbit LIMB_MAX j = true.
Proof.
  intros Hj. replace LIMB_MAX with (Z.ones 64) by reflexivity. apply Z.ones_spec_low. exact Hj.
Qed.

Lemma limb_LIMB_MAX : limb LIMB_MAX.
Proof. unfold limb, LIMB_MAX. pose proof B_pos. lia. Qed.

Lemma limb_0 : limb 0.
Proof. unfold limb. pose proof B_pos. lia. Qed.

Lemma mask_hi_bits s j : 0 <= s < 64 -> 0 <= j < 64 ->
  Z.testbit (wrap (Z.shiftl LIMB_MAX s)) j = (s <=? j).
Proof.
  intros Hs Hj. unfold wrap. rewrite B_pow2, Z.mod_pow2_bits_low by lia.
  rewrite Z.shiftl_spec by lia. destruct (Z.leb_spec s j) as [L|L].
  - apply limb_max_bits. lia.
  - apply Z.testbit_neg_r. lia.
Qed.

Lemma mask_lo_eq s : 0 <= s -> Z.shiftl 1 s - 1 = Z.ones s.
Proof. intros Hs. rewrite Z.shiftl_1_l, Z.ones_equiv. lia. Qed.

Lemma mask_lo_bits s j : 0 <= s -> 0 <= j -> Z.testbit (Z.shiftl 1 s - 1) j = (j <? s).
Proof.
  intros Hs Hj. rewrite mask_lo_eq by exact Hs. destruct (Z.ltb_spec j s) as [L|L].
  - apply Z.ones_spec_low. lia.
  - apply Z.ones_spec_high. lia.
Qed.

Lemma mask_lo_limb s : 0 <= s < 64 -> limb (Z.shiftl 1 s - 1).
Proof.
  intros Hs. rewrite Z.shiftl_1_l. unfold limb. rewrite B_pow2.
  assert (0 < 2 ^ s) by (apply Z.pow_pos_nonneg; lia).
  assert (2 ^ s <= 2 ^ 64) by (apply Z.pow_le_mono_r; lia). lia.
Qed.

Lemma lnotl_limb x : limb x -> limb (lnotl x).
Proof. unfold limb, lnotl. lia. Qed.

Lemma lnotl_bits x j : limb x -> 0 <= j < 64 -> Z.testbit (lnotl x) j = negb (Z.testbit x j).
Proof.
  intros Hx Hj. unfold limb in Hx.
  replace (lnotl x) with ((Z.lnot x) mod 2 ^ 64).
  - rewrite Z.mod_pow2_bits_low by lia. apply Z.lnot_spec. lia.
  - symmetry. apply Z.mod_unique with (q := -1); unfold Z.lnot, lnotl; rewrite <- ?B_pow2; lia.
Qed.

Lemma lnotl_nonzero x : limb x -> x <> LIMB_MAX -> lnotl x <> 0.
Proof. unfold limb, lnotl, LIMB_MAX. lia. Qed.

Lemma land_limb a b : limb a -> limb b -> limb (Z.land a b).
Proof. apply (bitop_limb Z.land andb a b bitop_land). Qed.

Lemma lor_limb a b : limb a -> limb b -> limb (Z.lor a b).
Proof. apply (bitop_limb Z.lor orb a b bitop_lor). Qed.

(* ------------------------------------------------------------------ *)
(* limb access                                                          *)

Lemma nthl_limb l i : wf l -> limb (nthl l i).
Proof.
  intros W. unfold nthl. destruct (Nat.lt_ge_cases (Z.to_nat i) (length l)) as [L|L].
  - unfold wf in W. rewrite Forall_forall in W. apply W. apply nth_In. exact L.
  - rewrite nth_overflow by exact L. apply limb_0.
Qed.

Lemma nthl_overflow l i : len l <= i -> nthl l i = 0.
Proof. intros H. unfold nthl. apply nth_overflow. unfold len in H. lia. Qed.

Lemma nthl_last l : l <> [] -> nthl l (len l - 1) = last l 0.
Proof.
  intros Hl. unfold nthl, len.
  replace (Z.to_nat (Z.of_nat (length l) - 1)) with (length l - 1)%nat by lia.
  destruct (exists_last Hl) as (l' & a & ->). rewrite last_last, app_length. cbn [length].
  rewrite app_nth2 by lia. replace (length l' + 1 - 1 - length l')%nat with O by lia. reflexivity.
Qed.

(* a sequence of limbs read as a sequence of bits *)
Definition lbit (g : Z -> Z) (k : Z) : bool := Z.testbit (g (k / 64)) (k mod 64).

Lemma lbit_qj g q j : 0 <= j < 64 -> lbit g (64 * q + j) = Z.testbit (g q) j.
Proof. intros Hj. unfold lbit. rewrite div64, mod64 by exact Hj. reflexivity. Qed.

(* the limbs of l with limb p replaced by the working value of the C variable `limb` *)
Definition gl (l : list Z) (p limb0 i : Z) : Z := if i =? p then limb0 else nthl l i.

Lemma gl_same l p x : gl l p x p = x.
Proof. unfold gl. rewrite Z.eqb_refl. reflexivity. Qed.

Lemma gl_other l p x i : i <> p -> gl l p x i = nthl l i.
Proof. intros H. unfold gl. destruct (Z.eqb_spec i p); [contradiction|reflexivity]. Qed.

Lemma gl_id l p i : gl l p (nthl l p) i = nthl l i.
Proof. unfold gl. destruct (Z.eqb_spec i p); [subst; reflexivity|reflexivity]. Qed.

(* ------------------------------------------------------------------ *)
(* the upward walks                                                     *)

Lemma walk_nonzero_spec l : forall fuel p t, p <= t -> t - p < Z.of_nat fuel -> nthl l t <> 0 ->
  exists p', walk_nonzero fuel l p = (p', nthl l p') /\ p <= p' <= t /\ nthl l p' <> 0
             /\ forall i, p <= i < p' -> nthl l i = 0.
Proof.
  induction fuel as [|f IH]; intros p t Hpt Hf Ht; [lia|].
  cbn [walk_nonzero]. cbv zeta. destruct (Z.eqb_spec (nthl l p) 0) as [E|E].
  - assert (Hp : p <> t) by congruence.
    destruct (IH (p + 1) t ltac:(lia) ltac:(lia) Ht) as (p' & W & R & N & Zr).
    exists p'. split; [exact W|]. split; [lia|]. split; [exact N|].
    intros i Hi. destruct (Z.eq_dec i p) as [->|Hip]; [exact E|apply Zr; lia].
  - exists p. split; [reflexivity|]. split; [lia|]. split; [exact E|]. intros i Hi. lia.
Qed.

Section Seek.
Variables (n : Z) (l : list Z).
Hypothesis W : wf l.
Hypothesis Hn : len l = n.

Lemma walk_allones_spec : forall fuel p c, 0 <= p < n -> n - p <= Z.of_nat fuel -> limb c ->
  let r := walk_allones fuel n l p c in
  64 * p <= r /\ lbit (gl l p c) r = false
  /\ forall k, 64 * p <= k < r -> lbit (gl l p c) k = true.
Proof.
  induction fuel as [|f IH]; intros p c Hp Hf Hc; [lia|].
  cbn [walk_allones]. cbv zeta. destruct (Z.eqb_spec c LIMB_MAX) as [E|E].
  - assert (Hlow : forall k, 64 * p <= k < 64 * (p + 1) -> lbit (gl l p c) k = true).
    { intros k Hk. destruct (split64 k) as (q & j & -> & Hj). assert (q = p) by lia. subst q.
      rewrite lbit_qj, gl_same by exact Hj. rewrite E. apply limb_max_bits. exact Hj. }
    destruct (Z.eqb_spec (p + 1) n) as [En|En].
    + split; [lia|]. split.
      * replace (n * 64) with (64 * n + 0) by lia. rewrite lbit_qj by lia.
        rewrite gl_other by lia. rewrite nthl_overflow by lia. apply Z.bits_0.
      * intros k Hk. apply Hlow. lia.
    + destruct (IH (p + 1) (nthl l (p + 1)) ltac:(lia) ltac:(lia) (nthl_limb l _ W)) as (R1 & R2 & R3).
      set (r := walk_allones f n l (p + 1) (nthl l (p + 1))) in *.
      assert (Ehi : forall k, 64 * (p + 1) <= k ->
                lbit (gl l p c) k = lbit (gl l (p + 1) (nthl l (p + 1))) k).
      { intros k Hk. destruct (split64 k) as (q & j & -> & Hj).
        rewrite !lbit_qj by exact Hj. rewrite gl_id, gl_other by lia. reflexivity. }
      split; [lia|]. split; [rewrite Ehi by lia; exact R2|].
      intros k Hk. destruct (Z_lt_dec k (64 * (p + 1))) as [L|L]; [apply Hlow; lia|].
      rewrite Ehi by lia. apply R3. lia.
  - destruct (ctz_limb (lnotl c) (lnotl_limb c Hc) (lnotl_nonzero c Hc E)) as (C1 & C2 & C3).
    unfold got_limb. set (z := ctz (lnotl c)) in *.
    rewrite lnotl_bits in C2 by (exact Hc || lia).
    split; [lia|]. split.
    + replace (p * 64 + z) with (64 * p + z) by lia. rewrite lbit_qj, gl_same by lia.
      destruct (Z.testbit c z); [discriminate C2|reflexivity].
    + intros k Hk. destruct (split64 k) as (q & j & -> & Hj). assert (q = p) by lia. subst q.
      rewrite lbit_qj, gl_same by exact Hj. specialize (C3 j ltac:(lia)).
      rewrite lnotl_bits in C3 by (exact Hc || lia).
      destruct (Z.testbit c j); [reflexivity|discriminate C3].
Qed.

(* seeking a 0 bit: always found, at the latest just above the data *)
Lemma seek0_spec start p c : 0 <= start -> p = start / 64 -> p < n -> limb c ->
  scan_res (lbit (gl l p c)) false start (seek0 n l start p c).
Proof.
  intros Hs Hp Hpn Hc. right.
  pose proof (Z.div_mod start 64 ltac:(lia)) as D. pose proof (Z.mod_pos_bound start 64 ltac:(lia)) as M.
  rewrite <- Hp in D. set (s := start mod 64) in *.
  assert (Hp0 : 0 <= p) by (subst p; apply Z.div_pos; lia).
  unfold seek0. cbv zeta. fold s. set (m := Z.lor c (Z.shiftl 1 s - 1)).
  assert (Hm : limb m) by (apply lor_limb; [exact Hc|apply mask_lo_limb; lia]).
  assert (Bm : forall j, 0 <= j < 64 -> Z.testbit m j = Z.testbit c j || (j <? s)).
  { intros j Hj. unfold m. rewrite Z.lor_spec, mask_lo_bits by lia. reflexivity. }
  assert (Hfuel : n - p <= Z.of_nat (length l)) by (unfold len in Hn; lia).
  destruct (walk_allones_spec (length l) p m ltac:(lia) Hfuel Hm) as (R1 & R2 & R3).
  set (r := walk_allones (length l) n l p m) in *.
  assert (Hsr : start <= r).
  { destruct (Z_le_dec start r) as [L|L]; [exact L|exfalso].
    destruct (split64 r) as (q & j & Er & Hj). assert (q = p) by lia. subst q.
    rewrite Er, lbit_qj, gl_same, Bm in R2 by exact Hj.
    destruct (Z.ltb_spec j s) as [L'|L']; [|lia]. rewrite orb_true_r in R2. discriminate R2. }
  split; [exact Hsr|]. split.
  - destruct (split64 r) as (q & j & Er & Hj). rewrite Er in R2 |- *.
    rewrite lbit_qj in R2 |- * by exact Hj. destruct (Z.eq_dec q p) as [->|Hq].
    + rewrite gl_same in R2 |- *. rewrite Bm in R2 by exact Hj.
      apply orb_false_iff in R2. apply R2.
    + rewrite gl_other in R2 |- * by exact Hq. exact R2.
  - intros k Hk. specialize (R3 k ltac:(lia)).
    destruct (split64 k) as (q & j & -> & Hj). rewrite lbit_qj in R3 |- * by exact Hj.
    destruct (Z.eq_dec q p) as [->|Hq].
    + rewrite gl_same in R3 |- *. rewrite Bm in R3 by exact Hj.
      destruct (Z.ltb_spec j s) as [L'|L']; [lia|]. rewrite orb_false_r in R3. exact R3.
    + rewrite gl_other in R3 |- * by exact Hq. exact R3.
Qed.

Hypothesis Htop : nthl l (n - 1) <> 0.

(* seeking a 1 bit: found, or the top limb has been passed and there is none *)
Lemma seek1_spec start p c : 0 <= start -> p = start / 64 -> p < n -> limb c ->
  scan_res (lbit (gl l p c)) true start (seek1 n l start p c).
Proof.
  intros Hs Hp Hpn Hc.
  pose proof (Z.div_mod start 64 ltac:(lia)) as D. pose proof (Z.mod_pos_bound start 64 ltac:(lia)) as M.
  rewrite <- Hp in D. set (s := start mod 64) in *.
  assert (Hp0 : 0 <= p) by (subst p; apply Z.div_pos; lia).
  unfold seek1. cbv zeta. fold s. set (m := Z.land c (wrap (Z.shiftl LIMB_MAX s))).
  assert (Hm : limb m) by (apply land_limb; [exact Hc|apply wrap_limb]).
  assert (Bm : forall j, 0 <= j < 64 -> Z.testbit m j = Z.testbit c j && (s <=? j)).
  { intros j Hj. unfold m. rewrite Z.land_spec, mask_hi_bits by lia. reflexivity. }
  destruct (Z.eqb_spec m 0) as [E|E].
  - assert (Hc0 : forall j, s <= j < 64 -> Z.testbit c j = false).
    { intros j Hj. specialize (Bm j ltac:(lia)). rewrite E, Z.bits_0 in Bm.
      destruct (Z.leb_spec s j) as [L|L]; [|lia]. rewrite andb_true_r in Bm. congruence. }
    assert (Hlow : forall k, start <= k < 64 * (p + 1) -> lbit (gl l p c) k = false).
    { intros k Hk. destruct (split64 k) as (q & j & -> & Hj). assert (q = p) by lia. subst q.
      rewrite lbit_qj, gl_same by exact Hj. apply Hc0. lia. }
    destruct (Z.eqb_spec (p + 1) n) as [En|En].
    + left. split; [reflexivity|]. intros k Hk.
      destruct (Z_lt_dec k (64 * (p + 1))) as [L|L]; [apply Hlow; lia|].
      destruct (split64 k) as (q & j & -> & Hj). rewrite lbit_qj by exact Hj.
      rewrite gl_other by lia. rewrite nthl_overflow by lia. apply Z.bits_0.
    + right.
      destruct (walk_nonzero_spec l (length l) (p + 1) (n - 1) ltac:(lia)
                  ltac:(unfold len in Hn; lia) Htop) as (p' & Ew & R & N & Zr).
      rewrite Ew. unfold got_limb.
      destruct (ctz_limb (nthl l p') (nthl_limb l p' W) N) as (C1 & C2 & C3).
      set (z := ctz (nthl l p')) in *.
      split; [lia|]. split.
      * replace (p' * 64 + z) with (64 * p' + z) by lia. rewrite lbit_qj by lia.
        rewrite gl_other by lia. exact C2.
      * intros k Hk. destruct (Z_lt_dec k (64 * (p + 1))) as [L|L]; [apply Hlow; lia|].
        destruct (split64 k) as (q & j & -> & Hj). rewrite lbit_qj by exact Hj.
        rewrite gl_other by lia. destruct (Z.eq_dec q p') as [->|Hq].
        -- apply C3. lia.
        -- rewrite Zr by lia. apply Z.bits_0.
  - right. destruct (ctz_limb m Hm E) as (C1 & C2 & C3). unfold got_limb.
    set (z := ctz m) in *.
    rewrite Bm in C2 by lia. apply andb_true_iff in C2. destruct C2 as [C2 C2'].
    apply Z.leb_le in C2'.
    split; [lia|]. split.
    + replace (p * 64 + z) with (64 * p + z) by lia. rewrite lbit_qj, gl_same by lia. exact C2.
    + intros k Hk. destruct (split64 k) as (q & j & -> & Hj). assert (q = p) by lia. subst q.
      rewrite lbit_qj, gl_same by exact Hj. specialize (C3 j ltac:(lia)).
      rewrite Bm in C3 by exact Hj. destruct (Z.leb_spec s j) as [L|L]; [|lia].
      rewrite andb_true_r in C3. exact C3.
Qed.

End Seek.

(* ------------------------------------------------------------------ *)
(* the downward search for a non-zero lower limb                        *)

Lemma lower_nonzero_false l : forall q,
  lower_nonzero l q = false <-> forall i, (i < q)%nat -> nth i l 0 = 0.
Proof.
  induction q as [|q IH]; cbn [lower_nonzero].
  - split; [intros _ i Hi; lia|reflexivity].
  - destruct (Z.eqb_spec (nth q l 0) 0) as [E|E].
    + rewrite IH. split; intros H i Hi.
      * destruct (Nat.eq_dec i q) as [->|Hq]; [exact E|apply H; lia].
      * apply H. lia.
    + split; [discriminate|]. intros H. exfalso. apply E. apply H. lia.
Qed.

Lemma lower_nonzero_falseZ l q : 0 <= q ->
  (lower_nonzero l (Z.to_nat q) = false <-> forall i, 0 <= i < q -> nthl l i = 0).
Proof.
  intros Hq. rewrite lower_nonzero_false. unfold nthl. split; intros H i Hi.
  - apply H. lia.
  - specialize (H (Z.of_nat i) ltac:(lia)). rewrite Nat2Z.id in H. exact H.
Qed.

Lemma lower_nonzero_trueZ l q i : 0 <= i < q -> nthl l i <> 0 ->
  lower_nonzero l (Z.to_nat q) = true.
Proof.
  intros Hi Hnz. destruct (lower_nonzero l (Z.to_nat q)) eqn:E; [reflexivity|].
  exfalso. apply Hnz. apply (proj1 (lower_nonzero_falseZ l q ltac:(lia)) E). exact Hi.
Qed.

Lemma lower_nonzero_mono l p q : 0 <= p <= q ->
  lower_nonzero l (Z.to_nat p) = true -> lower_nonzero l (Z.to_nat q) = true.
Proof.
  intros Hpq Hp. destruct (lower_nonzero l (Z.to_nat q)) eqn:E; [reflexivity|].
  rewrite lower_nonzero_falseZ in E by lia.
  assert (F : lower_nonzero l (Z.to_nat p) = false).
  { apply lower_nonzero_falseZ; [lia|]. intros i Hi. apply E. lia. }
  congruence.
Qed.

Lemma zero_p_firstn l : forall q, (q <= length l)%nat ->
  (zero_p (firstn q l) = true <-> forall i, (i < q)%nat -> nth i l 0 = 0).
Proof.
  induction l as [|a l IH]; intros q Hq.
  - cbn [length] in Hq. assert (q = 0)%nat by lia. subst q. cbn.
    split; [intros _ i Hi; lia|reflexivity].
  - destruct q as [|q].
    + cbn. split; [intros _ i Hi; lia|reflexivity].
    + cbn [length] in Hq. unfold zero_p. cbn [firstn forallb]. rewrite andb_true_iff.
      fold (zero_p (firstn q l)). rewrite IH by lia. split.
      * intros [Ha H] [|i] Hi; cbn [nth]; [apply Z.eqb_eq; exact Ha|apply H; lia].
      * intros H. split; [apply Z.eqb_eq; apply (H 0%nat); lia|].
        intros i Hi. apply (H (S i)). lia.
Qed.

Lemma zero_p_lower_nonzero l q : (q <= length l)%nat ->
  zero_p (firstn q l) = negb (lower_nonzero l q).
Proof.
  intros Hq. destruct (lower_nonzero l q) eqn:E; cbn [negb].
  - destruct (zero_p (firstn q l)) eqn:F; [|reflexivity].
    rewrite zero_p_firstn in F by exact Hq. rewrite <- lower_nonzero_false in F. congruence.
  - rewrite lower_nonzero_false in E. apply zero_p_firstn; assumption.
Qed.

(* ------------------------------------------------------------------ *)
(* the limbs of the infinite two's complement expansion                 *)

Lemma wrap_neg_nz a : limb a -> a <> 0 -> wrap (- a) = B - a.
Proof.
  unfold limb, wrap. intros Ha Hnz. symmetry. apply Z.mod_unique with (q := -1); lia.
Qed.

Lemma wrap_neg_m1 a : limb a -> wrap (wrap (- a) - 1) = lnotl a.
Proof.
  unfold limb, wrap, lnotl. intros Ha. rewrite Zminus_mod_idemp_l.
  symmetry. apply Z.mod_unique with (q := -1); lia.
Qed.

Lemma b2z_inj a b : b2z a = b2z b -> a = b.
Proof. destruct a, b; cbn; intros H; congruence. Qed.

(* limb q of sgn(size) * eval l: the magnitude limb itself for size >= 0; for size < 0 the
   ones complement above the lowest non-zero limb, the twos complement at and below it *)
Definition tcl (size : Z) (l : list Z) (q : Z) : Z :=
  if size <? 0 then
    if lower_nonzero l (Z.to_nat q) then lnotl (nthl l q) else wrap (- nthl l q)
  else nthl l q.

Lemma wf_facts size l : mpz_wf (mkz size l) ->
  Z.abs size = len l /\ wf l /\ (0 < len l -> nthl l (len l - 1) <> 0).
Proof.
  intros (A & W & N). cbn [sz d] in *. split; [exact A|]. split; [exact W|].
  intros Hl. destruct N as [->|N]; [cbn in Hl; lia|].
  rewrite nthl_last; [exact N|]. intros ->. cbn in Hl. lia.
Qed.

Lemma testbit_tcl size l k : mpz_wf (mkz size l) -> 0 <= k ->
  Z.testbit (Z.sgn size * eval l) k = Z.testbit (tcl size l (k / 64)) (k mod 64).
Proof.
  intros Hu Hk. pose proof (mpz_tstbit_spec (mkz size l) k Hu Hk) as S.
  change (value (mkz size l)) with (Z.sgn size * eval l) in S.
  destruct (wf_facts size l Hu) as (A & W & Top).
  pose proof (Z.mod_pos_bound k 64 ltac:(lia)) as M.
  assert (Hq : 0 <= k / 64) by (apply Z.div_pos; lia).
  unfold mpz_tstbit in S. cbv zeta in S. cbn [sz d] in S.
  set (q := k / 64) in *. set (j := k mod 64) in *. unfold tcl.
  destruct (Nat.leb_spec (length l) (Z.to_nat q)) as [L|L].
  - assert (Lq : len l <= q) by (unfold len; lia).
    rewrite (nthl_overflow l q Lq). destruct (Z.ltb_spec size 0) as [Sn|Sn].
    + assert (Hl : 0 < len l) by lia.
      rewrite (lower_nonzero_trueZ l q (len l - 1)) by (lia || apply Top; exact Hl).
      replace (lnotl 0) with LIMB_MAX by reflexivity. rewrite limb_max_bits by exact M.
      apply b2z_inj. symmetry. exact S.
    + rewrite Z.bits_0. apply b2z_inj. symmetry. exact S.
  - rewrite land1_shiftr_testbit in S by lia. apply b2z_inj in S. rewrite <- S.
    fold (nthl l q). destruct (size <? 0); [|reflexivity].
    rewrite zero_p_lower_nonzero by lia. destruct (lower_nonzero l (Z.to_nat q)); cbn [negb].
    + rewrite wrap_neg_m1 by (apply nthl_limb; exact W). reflexivity.
    + reflexivity.
Qed.

Section Main.
Variables (size : Z) (l : list Z).
Hypothesis Hu : mpz_wf (mkz size l).

Let T := Z.testbit (Z.sgn size * eval l).

Lemma T_qj q j : 0 <= q -> 0 <= j < 64 -> T (64 * q + j) = Z.testbit (tcl size l q) j.
Proof.
  intros Hq Hj. unfold T. rewrite (testbit_tcl size l (64 * q + j) Hu) by lia.
  rewrite div64, mod64 by exact Hj. reflexivity.
Qed.

Lemma tcl_nonneg q : 0 <= size -> tcl size l q = nthl l q.
Proof. intros H. unfold tcl. destruct (Z.ltb_spec size 0); [lia|reflexivity]. Qed.

Lemma tcl_ones q : size < 0 -> lower_nonzero l (Z.to_nat q) = true ->
  tcl size l q = lnotl (nthl l q).
Proof. intros H E. unfold tcl. rewrite E. destruct (Z.ltb_spec size 0); [reflexivity|lia]. Qed.

Lemma tcl_twos q : size < 0 -> lower_nonzero l (Z.to_nat q) = false ->
  tcl size l q = wrap (- nthl l q).
Proof. intros H E. unfold tcl. rewrite E. destruct (Z.ltb_spec size 0); [reflexivity|lia]. Qed.

(* u >= 0: the bits are those of the limbs *)
Lemma bits_nonneg p k : 0 <= size -> 0 <= k -> T k = lbit (gl l p (nthl l p)) k.
Proof.
  intros Hsz Hk. destruct (split64 k) as (q & j & -> & Hj).
  rewrite T_qj, lbit_qj, gl_id, tcl_nonneg by lia. reflexivity.
Qed.

(* u < 0, a lower limb is non-zero: ones complement from limb p on *)
Lemma bits_ones_region p k : size < 0 -> 0 <= p -> lower_nonzero l (Z.to_nat p) = true ->
  64 * p <= k -> T k = negb (lbit (gl l p (nthl l p)) k).
Proof.
  intros Hsz Hp Lp Hk. destruct (wf_facts size l Hu) as (_ & W & _).
  destruct (split64 k) as (q & j & -> & Hj).
  rewrite T_qj, lbit_qj, gl_id by lia.
  rewrite tcl_ones; [|exact Hsz|apply (lower_nonzero_mono l p q); [lia|exact Lp]].
  apply lnotl_bits; [apply nthl_limb; exact W|exact Hj].
Qed.

(* u < 0, limb p is the lowest non-zero limb: after limb-- the search is again a ones
   complement search from limb p on *)
Lemma bits_first_nonzero p k : size < 0 -> 0 <= p -> lower_nonzero l (Z.to_nat p) = false ->
  nthl l p <> 0 -> 64 * p <= k -> T k = negb (lbit (gl l p (wrap (nthl l p - 1))) k).
Proof.
  intros Hsz Hp Lp Nz Hk. destruct (wf_facts size l Hu) as (_ & W & _).
  pose proof (nthl_limb l p W) as La. set (a := nthl l p) in *.
  assert (Ea : wrap (a - 1) = a - 1) by (apply wrap_small; unfold limb in La; lia).
  destruct (split64 k) as (q & j & -> & Hj). rewrite T_qj, lbit_qj by lia.
  destruct (Z.eq_dec q p) as [->|Hq].
  - rewrite gl_same, Ea, tcl_twos by assumption. fold a. rewrite wrap_neg_nz by assumption.
    rewrite <- lnotl_bits by (unfold limb in *; lia). f_equal. unfold lnotl. lia.
  - rewrite gl_other by exact Hq.
    rewrite tcl_ones; [|exact Hsz|apply (lower_nonzero_trueZ l q p); [lia|exact Nz]].
    apply lnotl_bits; [apply nthl_limb; exact W|exact Hj].
Qed.

(* u < 0, limbs 0 .. q-1 all zero: limb q of the expansion is -limb *)
Lemma bits_twos q j : size < 0 -> 0 <= q -> 0 <= j < 64 ->
  (forall i, 0 <= i < q -> nthl l i = 0) -> T (64 * q + j) = Z.testbit (wrap (- nthl l q)) j.
Proof.
  intros Hsz Hq Hj Hz. rewrite T_qj by lia. rewrite tcl_twos; [reflexivity|exact Hsz|].
  apply lower_nonzero_falseZ; assumption.
Qed.

(* beyond the end of the data *)
Lemma bits_beyond k : len l <= k / 64 -> 0 <= k -> T k = (size <? 0).
Proof.
  intros Hl Hk. destruct (wf_facts size l Hu) as (A & W & Top).
  destruct (split64 k) as (q & j & -> & Hj). rewrite div64 in Hl by exact Hj.
  pose proof (len_nonneg l) as Hlen.
  rewrite T_qj by lia. destruct (Z.ltb_spec size 0) as [Sn|Sn].
  - rewrite tcl_ones; [|exact Sn|apply (lower_nonzero_trueZ l q (len l - 1)); [lia|apply Top; lia]].
    rewrite nthl_overflow by exact Hl. apply (limb_max_bits j Hj).
  - rewrite tcl_nonneg, nthl_overflow by assumption. apply Z.bits_0.
Qed.

Theorem mpz_scan1_limbs_res start : 0 <= start ->
  scan_res T true start (mpz_scan1_limbs size l start).
Proof.
  intros Hs. destruct (wf_facts size l Hu) as (A & W & Top).
  pose proof (Z.div_mod start 64 ltac:(lia)) as D. pose proof (Z.mod_pos_bound start 64 ltac:(lia)) as M.
  assert (Hp0 : 0 <= start / 64) by (apply Z.div_pos; lia).
  unfold mpz_scan1_limbs. cbv zeta. rewrite A. set (n := len l) in *. set (p := start / 64) in *.
  destruct (Z.leb_spec n p) as [Hnp|Hnp].
  - (* past the end *)
    destruct (Z.leb_spec 0 size) as [Sz|Sz].
    + left. split; [reflexivity|]. intros k Hk. rewrite bits_beyond.
      * destruct (Z.ltb_spec size 0); [lia|reflexivity].
      * assert (start / 64 <= k / 64) by (apply Z.div_le_mono; lia). fold p in H. lia.
      * lia.
    + right. split; [lia|]. split; [|intros k Hk; lia].
      rewrite bits_beyond by (fold p; lia). destruct (Z.ltb_spec size 0); [reflexivity|lia].
  - assert (Htop : nthl l (n - 1) <> 0) by (apply Top; lia).
    assert (Lp : limb (nthl l p)) by (apply nthl_limb; exact W).
    destruct (Z.leb_spec 0 size) as [Sz|Sz].
    + (* u >= 0 *)
      apply scan_res_ext with (T := lbit (gl l p (nthl l p))).
      * intros k Hk. apply bits_nonneg; lia.
      * apply seek1_spec; (assumption || reflexivity).
    + destruct (lower_nonzero l (Z.to_nat p)) eqn:Low.
      * (* ones complement region *)
        change true with (negb false).
        apply scan_res_neg with (T := lbit (gl l p (nthl l p))).
        -- intros k Hk. apply bits_ones_region; (assumption || lia).
        -- apply seek0_spec; (assumption || reflexivity).
      * pose proof (proj1 (lower_nonzero_falseZ l p Hp0) Low) as Zlow.
        destruct (Z.eqb_spec (nthl l p) 0) as [E0|E0].
        -- (* limb p is below the lowest non-zero limb: walk up to it *)
           assert (Hpn : p <> n - 1) by congruence.
           destruct (walk_nonzero_spec l (length l) (p + 1) (n - 1) ltac:(lia)
                       ltac:(unfold n, len; lia) Htop) as (p' & Ew & R & N & Zr).
           rewrite Ew. unfold got_limb.
           pose proof (nthl_limb l p' W) as La. set (a := nthl l p') in *.
           assert (Ea : wrap (- a) = B - a) by (apply wrap_neg_nz; assumption).
           assert (Zall : forall i, 0 <= i < p' -> nthl l i = 0).
           { intros i Hi. destruct (Z_lt_dec i p) as [L1|L1]; [apply Zlow; lia|].
             destruct (Z.eq_dec i p) as [->|L2]; [exact E0|apply Zr; lia]. }
           destruct (ctz_limb (wrap (- a)) (wrap_limb _) ltac:(unfold limb in La; lia))
             as (C1 & C2 & C3).
           set (z := ctz (wrap (- a))) in *.
           right. split; [lia|]. split.
           ++ replace (p' * 64 + z) with (64 * p' + z) by lia.
              rewrite bits_twos by (assumption || lia). exact C2.
           ++ intros k Hk. destruct (split64 k) as (q & j & -> & Hj).
              rewrite bits_twos; [|exact Sz|lia|exact Hj|intros i Hi; apply Zall; lia].
              destruct (Z.eq_dec q p') as [->|Hq]; [apply C3; lia|].
              rewrite Zall by lia. apply Z.bits_0.
        -- (* limb p is the lowest non-zero limb *)
           change true with (negb false).
           apply scan_res_neg with (T := lbit (gl l p (wrap (nthl l p - 1)))).
           ++ intros k Hk. apply bits_first_nonzero; (assumption || lia).
           ++ apply seek0_spec; (assumption || reflexivity || apply wrap_limb).
Qed.

Theorem mpz_scan0_limbs_res start : 0 <= start ->
  scan_res T false start (mpz_scan0_limbs size l start).
Proof.
  intros Hs. destruct (wf_facts size l Hu) as (A & W & Top).
  pose proof (Z.div_mod start 64 ltac:(lia)) as D. pose proof (Z.mod_pos_bound start 64 ltac:(lia)) as M.
  assert (Hp0 : 0 <= start / 64) by (apply Z.div_pos; lia).
  unfold mpz_scan0_limbs. cbv zeta. rewrite A. set (n := len l) in *. set (p := start / 64) in *.
  destruct (Z.leb_spec n p) as [Hnp|Hnp].
  - (* past the end *)
    destruct (Z.leb_spec 0 size) as [Sz|Sz].
    + right. split; [lia|]. split; [|intros k Hk; lia].
      rewrite bits_beyond by (fold p; lia). destruct (Z.ltb_spec size 0); [lia|reflexivity].
    + left. split; [reflexivity|]. intros k Hk. rewrite bits_beyond.
      * destruct (Z.ltb_spec size 0); [reflexivity|lia].
      * assert (start / 64 <= k / 64) by (apply Z.div_le_mono; lia). fold p in H. lia.
      * lia.
  - assert (Htop : nthl l (n - 1) <> 0) by (apply Top; lia).
    assert (Lp : limb (nthl l p)) by (apply nthl_limb; exact W).
    destruct (Z.leb_spec 0 size) as [Sz|Sz].
    + (* u >= 0 *)
      apply scan_res_ext with (T := lbit (gl l p (nthl l p))).
      * intros k Hk. apply bits_nonneg; lia.
      * apply seek0_spec; (assumption || reflexivity).
    + destruct (lower_nonzero l (Z.to_nat p)) eqn:Low.
      * (* ones complement region *)
        change false with (negb true).
        apply scan_res_neg with (T := lbit (gl l p (nthl l p))).
        -- intros k Hk. apply bits_ones_region; (assumption || lia).
        -- apply seek1_spec; (assumption || reflexivity).
      * pose proof (proj1 (lower_nonzero_falseZ l p Hp0) Low) as Zlow.
        destruct (Z.eq_dec (nthl l p) 0) as [E0|E0].
        -- (* limb p is zero, below the lowest non-zero limb: limb-- gives all ones and the
              answer is the start itself *)
           rewrite E0. replace (wrap (0 - 1)) with LIMB_MAX by reflexivity.
           pose proof (seek1_spec n l W eq_refl Htop start p LIMB_MAX Hs eq_refl Hnp limb_LIMB_MAX) as S1.
           set (r := seek1 n l start p LIMB_MAX) in *.
           assert (Gs : lbit (gl l p LIMB_MAX) start = true).
           { rewrite D. fold p. rewrite lbit_qj, gl_same by exact M. apply limb_max_bits. exact M. }
           assert (Er : r = start).
           { destruct S1 as [[_ S1]|(S1 & _ & S2)].
             - rewrite S1 in Gs by lia. discriminate Gs.
             - destruct (Z.eq_dec r start) as [e|ne]; [exact e|].
               rewrite S2 in Gs by lia. discriminate Gs. }
           rewrite Er. right. split; [lia|]. split; [|intros k Hk; lia].
           rewrite D. fold p. rewrite bits_twos by (assumption || lia).
           rewrite E0. replace (wrap (- 0)) with 0 by reflexivity. apply Z.bits_0.
        -- (* limb p is the lowest non-zero limb *)
           change false with (negb true).
           apply scan_res_neg with (T := lbit (gl l p (wrap (nthl l p - 1)))).
           ++ intros k Hk. apply bits_first_nonzero; (assumption || lia).
           ++ apply seek1_spec; (assumption || reflexivity || apply wrap_limb).
Qed.

End Main.

(* ------------------------------------------------------------------ *)
(* the statements                                                       *)

Lemma mpz_wf_of_parts size l : wf l -> len l = Z.abs size -> (size <> 0 -> last l 0 <> 0) ->
  mpz_wf (mkz size l).
Proof.
  intros W L Top. split; [cbn [sz d]; lia|]. split; [exact W|]. cbn [d].
  destruct (Z.eq_dec size 0) as [->|Hs]; [|right; apply Top; exact Hs].
  left. destruct l; [reflexivity|]. unfold len in L. cbn [length] in L. lia.
Qed.

(* mpz_scan1 as coded: the least index i >= start with bit i of v = sgn(size) * eval l set, in
   infinite two's complement; or BITCNT_MAX, and then no bit at or above start is set *)
Theorem mpz_scan1_limbs_spec size l start :
  wf l -> len l = Z.abs size -> (size <> 0 -> last l 0 <> 0) -> 0 <= start ->
  let v := Z.sgn size * eval l in
  let r := mpz_scan1_limbs size l start in
  (r = BITCNT_MAX /\ forall k, start <= k -> Z.testbit v k = false)
  \/ (start <= r /\ Z.testbit v r = true /\ forall k, start <= k < r -> Z.testbit v k = false).
Proof.
  intros W L Top Hs. exact (mpz_scan1_limbs_res size l (mpz_wf_of_parts size l W L Top) start Hs).
Qed.

(* mpz_scan0 as coded: the least index i >= start with bit i of v clear; or BITCNT_MAX, and
   then every bit at or above start is set *)
Theorem mpz_scan0_limbs_spec size l start :
  wf l -> len l = Z.abs size -> (size <> 0 -> last l 0 <> 0) -> 0 <= start ->
  let v := Z.sgn size * eval l in
  let r := mpz_scan0_limbs size l start in
  (r = BITCNT_MAX /\ forall k, start <= k -> Z.testbit v k = true)
  \/ (start <= r /\ Z.testbit v r = false /\ forall k, start <= k < r -> Z.testbit v k = true).
Proof.
  intros W L Top Hs. exact (mpz_scan0_limbs_res size l (mpz_wf_of_parts size l W L Top) start Hs).
Qed.

(* agreement with the value-level definitions of BitDefs.v, so that C10_scan1 / C10_scan0
   (stated for Zscan1 / Zscan0) speak about the limb-level functions *)
Theorem mpz_scan1_limbs_Zscan1 size l start : mpz_wf (mkz size l) -> 0 <= start ->
  mpz_scan1_limbs size l start = Zscan1 (Z.sgn size * eval l) start.
Proof.
  intros Hu Hs. apply (scan_res_unique (Z.testbit (Z.sgn size * eval l)) true start).
  - apply mpz_scan1_limbs_res; assumption.
  - exact (scan1_spec (Z.sgn size * eval l) start Hs).
Qed.

Theorem mpz_scan0_limbs_Zscan0 size l start : mpz_wf (mkz size l) -> 0 <= start ->
  mpz_scan0_limbs size l start = Zscan0 (Z.sgn size * eval l) start.
Proof.
  intros Hu Hs. apply (scan_res_unique (Z.testbit (Z.sgn size * eval l)) false start).
  - apply mpz_scan0_limbs_res; assumption.
  - exact (scan0_spec (Z.sgn size * eval l) start Hs).
Qed.

Theorem mpz_scan1_c_correct u start : mpz_wf u -> 0 <= start ->
  mpz_scan1_c u start = mpz_scan1 u start.
Proof. destruct u as [size l]. intros Hu Hs. apply mpz_scan1_limbs_Zscan1; assumption. Qed.

Theorem mpz_scan0_c_correct u start : mpz_wf u -> 0 <= start ->
  mpz_scan0_c u start = mpz_scan0 u start.
Proof. destruct u as [size l]. intros Hu Hs. apply mpz_scan0_limbs_Zscan0; assumption. Qed.

(* "no such bit" happens only on the expected side of zero *)
Lemma no_one_bit_nonneg v s : (forall k, s <= k -> Z.testbit v k = false) -> 0 <= v.
Proof. intros H. apply Z.bits_iff_nonneg_ex. exists s. intros m Hm. apply H. lia. Qed.

Lemma no_zero_bit_neg v s : (forall k, s <= k -> Z.testbit v k = true) -> v < 0.
Proof. intros H. apply Z.bits_iff_neg_ex. exists s. intros m Hm. apply H. lia. Qed.

(* when bit indices stay below BITCNT_MAX (the start is a proper bit count and the data is
   shorter than 2^64 - 1 bits, as in C), BITCNT_MAX is returned exactly when there is no such
   bit *)
Theorem mpz_scan1_limbs_max_iff size l start : mpz_wf (mkz size l) ->
  0 <= start < BITCNT_MAX -> 64 * len l < BITCNT_MAX ->
  let v := Z.sgn size * eval l in
  (mpz_scan1_limbs size l start = BITCNT_MAX
   <-> 0 <= v /\ forall k, start <= k -> Z.testbit v k = false).
Proof.
  intros Hu Hs Hl. cbv zeta. destruct (wf_facts size l Hu) as (A & W & _).
  pose proof (len_nonneg l) as Hlen.
  destruct (mpz_scan1_limbs_res size l Hu start ltac:(lia)) as [[R F]|(R & R1 & R2)].
  - split; [intros _; split; [exact (no_one_bit_nonneg _ start F)|exact F]|intros _; exact R].
  - set (r := mpz_scan1_limbs size l start) in *. split.
    + intros E. exfalso. set (t := Z.max start (64 * len l)).
      assert (Ht : len l <= t / 64).
      { replace (len l) with (64 * len l / 64) by (rewrite Z.mul_comm; apply Z.div_mul; lia).
        apply Z.div_le_mono; lia. }
      destruct (Z.ltb_spec size 0) as [Sn|Sn].
      * pose proof (bits_beyond size l Hu t Ht ltac:(lia)) as Bt. cbv zeta in Bt.
        destruct (Z.ltb_spec size 0); [|lia]. rewrite R2 in Bt by lia. discriminate Bt.
      * assert (Hr : len l <= r / 64).
        { apply Z.le_trans with (t / 64); [exact Ht|apply Z.div_le_mono; lia]. }
        pose proof (bits_beyond size l Hu r Hr ltac:(lia)) as Br. cbv zeta in Br.
        destruct (Z.ltb_spec size 0); [lia|]. congruence.
    + intros [_ F]. rewrite F in R1 by exact R. discriminate R1.
Qed.

Theorem mpz_scan0_limbs_max_iff size l start : mpz_wf (mkz size l) ->
  0 <= start < BITCNT_MAX -> 64 * len l < BITCNT_MAX ->
  let v := Z.sgn size * eval l in
  (mpz_scan0_limbs size l start = BITCNT_MAX
   <-> v < 0 /\ forall k, start <= k -> Z.testbit v k = true).
Proof.
  intros Hu Hs Hl. cbv zeta. destruct (wf_facts size l Hu) as (A & W & _).
  pose proof (len_nonneg l) as Hlen.
  destruct (mpz_scan0_limbs_res size l Hu start ltac:(lia)) as [[R F]|(R & R1 & R2)].
  - split; [intros _; split; [exact (no_zero_bit_neg _ start F)|exact F]|intros _; exact R].
  - set (r := mpz_scan0_limbs size l start) in *. split.
    + intros E. exfalso. set (t := Z.max start (64 * len l)).
      assert (Ht : len l <= t / 64).
      { replace (len l) with (64 * len l / 64) by (rewrite Z.mul_comm; apply Z.div_mul; lia).
        apply Z.div_le_mono; lia. }
      destruct (Z.ltb_spec size 0) as [Sn|Sn].
      * assert (Hr : len l <= r / 64).
        { apply Z.le_trans with (t / 64); [exact Ht|apply Z.div_le_mono; lia]. }
        pose proof (bits_beyond size l Hu r Hr ltac:(lia)) as Br. cbv zeta in Br.
        destruct (Z.ltb_spec size 0); [|lia]. congruence.
      * pose proof (bits_beyond size l Hu t Ht ltac:(lia)) as Bt. cbv zeta in Bt.
        destruct (Z.ltb_spec size 0); [lia|]. rewrite R2 in Bt by lia. discriminate Bt.
    + intros [_ F]. rewrite F in R1 by exact R. discriminate R1.
Qed.

(* ------------------------------------------------------------------ *)
(* examples (vm_compute), each also compared with the value-level definition *)

Local Notation M := 18446744073709551615 (only parsing).       (* 2^64 - 1 *)

Definition ex_both1 (size : Z) (l : list Z) (start r : Z) : bool :=
  (mpz_scan1_limbs size l start =? r) && (Zscan1 (Z.sgn size * eval l) start =? r).
Definition ex_both0 (size : Z) (l : list Z) (start r : Z) : bool :=
  (mpz_scan0_limbs size l start =? r) && (Zscan0 (Z.sgn size * eval l) start =? r).

(* start beyond the end, both signs; zero *)
Example scan_ex_beyond :
  ex_both1 2 [5; 1] 128 BITCNT_MAX && ex_both1 (-2) [5; 1] 130 130
  && ex_both0 2 [5; 1] 131 131 && ex_both0 (-2) [5; 1] 128 BITCNT_MAX
  && ex_both1 0 [] 7 BITCNT_MAX && ex_both0 0 [] 7 7 = true.
Proof. vm_compute. reflexivity. Qed.

(* non-negative: mask, walk up over zero limbs, nothing above the top limb;
   scan0 running off the end of all-ones data *)
Example scan_ex_nonneg :
  ex_both1 4 [6; 0; 0; 8] 0 1 && ex_both1 4 [6; 0; 0; 8] 3 195
  && ex_both1 4 [6; 0; 0; 8] 195 195 && ex_both1 4 [6; 0; 0; 8] 196 BITCNT_MAX
  && ex_both0 2 [M; M] 5 128 && ex_both0 2 [M; 7] 0 67 && ex_both0 1 [M] 63 64 = true.
Proof. vm_compute. reflexivity. Qed.

(* u = -(12 * 2^128 + 5 * 2^192): two low zero limbs; limb 2 of the two's complement is
   -12 = ...110100, limb 3 is ~5 = ...111010.  Start below / at / inside the first non-zero
   limb, and above it in the ones complement region *)
Example scan_ex_neg_low_zero_limbs :
  ex_both1 (-4) [0; 0; 12; 5] 3 130 && ex_both1 (-4) [0; 0; 12; 5] 64 130
  && ex_both1 (-4) [0; 0; 12; 5] 128 130 && ex_both1 (-4) [0; 0; 12; 5] 131 132
  && ex_both1 (-4) [0; 0; 12; 5] 192 193 && ex_both1 (-4) [0; 0; 12; 5] 194 195
  && ex_both0 (-4) [0; 0; 12; 5] 3 3 && ex_both0 (-4) [0; 0; 12; 5] 127 127
  && ex_both0 (-4) [0; 0; 12; 5] 130 131 && ex_both0 (-4) [0; 0; 12; 5] 132 192
  && ex_both0 (-4) [0; 0; 12; 5] 193 194 && ex_both0 (-4) [0; 0; 12; 5] 195 BITCNT_MAX = true.
Proof. vm_compute. reflexivity. Qed.

(* all-ones magnitudes above a non-zero limb: the inverted search of scan1 runs off the end
   and answers the position just above the data, also when it starts in the lowest non-zero
   limb after limb-- (-(2^128 - 1) = ...0001 with the next 1 at bit 128); 2^64;
   scan0 of -1 and of -2^128 above bit 128 finds nothing *)
Example scan_ex_inverted_end :
  ex_both1 (-3) [5; M; M] 64 192 && ex_both1 (-3) [5; M; M] 100 192
  && ex_both1 (-3) [5; M; M] 2 3 && ex_both1 (-2) [M; M] 1 128
  && ex_both1 (-2) [0; 1] 0 64 && ex_both1 (-2) [0; 1] 65 65
  && ex_both0 (-1) [1] 0 BITCNT_MAX && ex_both0 (-3) [0; 0; 1] 129 BITCNT_MAX
  && ex_both0 (-3) [0; 0; 1] 100 100 && ex_both0 (-3) [5; M; M] 64 64
  && ex_both0 (-3) [5; 0; M] 64 128 = true.
Proof. vm_compute. reflexivity. Qed.

(* exhaustive agreement with the value-level definitions on all lists of at most 2 limbs drawn
   from corner values (plus the same with a third limb on top for a subset), both signs, both
   functions, starts around every limb boundary and beyond the end *)
Definition ex_cands : list Z := [0; 1; 2; 2 ^ 63; M; M - 1; 2 ^ 63 + 1; 6].
Definition ex_tops : list Z := [1; 2; 2 ^ 63; M; M - 1; 6].
Definition ex_lists1 : list (list Z) := map (fun t => [t]) ex_tops.
Definition ex_lists2 : list (list Z) := flat_map (fun r => map (fun c => c :: r) ex_cands) ex_lists1.
Definition ex_lists3 : list (list Z) := flat_map (fun r => map (fun c => c :: r) [0; 1; M]) ex_lists2.
Definition ex_starts (n : Z) : list Z :=
  flat_map (fun i => [64 * i; 64 * i + 1; 64 * i + 2; 64 * i + 62; 64 * i + 63])
           (map Z.of_nat (seq 0 (Z.to_nat n + 2))).
Definition ex_check (l : list Z) : bool :=
  let n := len l in
  forallb (fun s => (mpz_scan1_limbs n l s =? Zscan1 (eval l) s)
                    && (mpz_scan1_limbs (- n) l s =? Zscan1 (- eval l) s)
                    && (mpz_scan0_limbs n l s =? Zscan0 (eval l) s)
                    && (mpz_scan0_limbs (- n) l s =? Zscan0 (- eval l) s)) (ex_starts n).
Example scan_ex_sweep : forallb ex_check (ex_lists1 ++ ex_lists2 ++ ex_lists3) = true.
Proof. vm_compute. reflexivity. Qed.
