(* GetDDefs.v — bit-level models, AS CODED, of the conversions between limb vectors and C doubles:
     mpn/generic/get_d.c   mpn_get_d           (the IEEE "union" path, ONE_LIMB variant)
     mpz/get_d.c           mpz_get_d
     mpz/get_d_2exp.c      mpz_get_2exp_d / mpz_get_d_2exp
     extract-dbl.c         __gmp_extract_double (the IEEE path, BITS_PER_PART == 64, LIMBS_PER_DOUBLE == 2)
     mpz/set_d.c           mpz_set_d
     mpq/get_d.c           mpq_get_d
   Build modelled: x86-64 Linux, GMP_LIMB_BITS = GMP_NUMB_BITS = 64, GMP_NAIL_BITS = 0,
   long = mp_size_t = 64 bits, HAVE_DOUBLE_IEEE_LITTLE_ENDIAN (so _GMP_IEEE_FLOATS = 1 and
   union ieee_double_extract = { manl:32; manh:20; exp:11; sig:1 } from the low bit up),
   WANT_ASSERT and WANT_TMP_DEBUG undefined.  In mpn_get_d  ONE_LIMB = (64 == 64 && 128 >= 53) = 1,
   TWO_LIMBS = 0: the `if (ONE_LIMB || TWO_LIMBS)` block with the `if (ONE_LIMB)` arms is what is
   compiled; the generic bit-at-a-time code is dead.
   A double is its 64 IEEE bits as a Z (ConvDefs.v).  Limb lists are least significant first.
   The value-level specifications are in ConvDefs.v; GetDProofs.v shows that the functions below
   return exactly those values.  Definitions only. *)
From Coq Require Import ZArith List Bool.
From Mpir Require Import Word Limbs MpzDefs ConvDefs.
Import ListNotations.
Local Open Scope Z_scope.

(* ------------------------------------------------------------------ *)
(* C operators on 64-bit words                                          *)

Definition LONG_MAX : Z := 2 ^ 63 - 1.
Definition MP_LIMB_T_MAX : Z := B - 1.                                   
Definition LIMB_HIGHBIT : Z := 2 ^ 63.                              (* GMP_LIMB_HIGHBIT *)
Definition ptr_at (l : list Z) (i : Z) : Z := nth (Z.to_nat i) l 0.          (* ptr[i] *)

(* x << n and x >> n on mp_limb_t.  A count of 64 is undefined in C; the x86-64 instructions
   use the count mod 64, and that is what is modelled, so that the `rmask` of mpn_get_d is seen
   to be what makes the result independent of it. *)
Definition lsl64 (x n : Z) : Z := wrap (Z.shiftl x (n mod 64)).
Definition lsr64 (x n : Z) : Z := Z.shiftr x (n mod 64).

(* union ieee_double_extract, little endian: the store of the four bit-fields (each assignment
   truncates to the width of the field) followed by the read of u.d *)
Definition ieee_pack (manh manl exp sig : Z) : Z :=
  (manl mod 2 ^ 32) + (manh mod 2 ^ 20) * 2 ^ 32 + (exp mod 2 ^ 11) * 2 ^ 52 + (sig mod 2) * 2 ^ 63.
(* x.d = d; then the reads x.s.manl, x.s.manh, x.s.exp, x.s.sig *)
Definition ieee_manl (bits : Z) : Z := Z.land bits (2 ^ 32 - 1).
Definition ieee_manh (bits : Z) : Z := Z.land (Z.shiftr bits 32) (2 ^ 20 - 1).
Definition ieee_exp (bits : Z) : Z := Z.land (Z.shiftr bits 52) (2 ^ 11 - 1).
Definition ieee_sig (bits : Z) : Z := Z.land (Z.shiftr bits 63) 1.

(* ------------------------------------------------------------------ *)
(* mpn/generic/get_d.c  lines 94-218 (the IEEE block 124-218):
     double mpn_get_d (mp_srcptr ptr, mp_size_t size, mp_size_t sign, long exp)
   l = {ptr,size}; size, sign, exp as the C arguments (exp a long). *)

(* lines 202-217:  u.s.manh = m0 >> 32;  u.s.manl = m0;  u.s.exp = exp + 1023;
                   u.s.sig = (sign < 0);  return u.d; *)
Definition get_d_store (m0 exp sign : Z) : Z :=
  ieee_pack (Z.shiftr m0 32) m0 (exp + 1023) (b2z (sign <? 0)).

Definition mpn_get_d_c (l : list Z) (size sign exp : Z) : Z :=
  (* if (size == 0) return 0.0; *)
  if size =? 0 then 0
  (* if (UNLIKELY ((mpir_ui) (GMP_NUMB_BITS * size) > (mpir_ui) (LONG_MAX - exp)))
       goto ieee_infinity;                 [ieee_infinity: m0 = 0; m1 = 0; exp = 1024;] *)
  else if wrap (LONG_MAX - exp) <? wrap (64 * size) then get_d_store 0 1024 sign
  else
    (* else exp += GMP_NUMB_BITS * size; *)
    let exp := exp + 64 * size in
    (* m0 = ptr[size-1];  m1 = (size >= 2 ? ptr[size-2] : 0);  count_leading_zeros (lshift, m0); *)
    let m0 := ptr_at l (size - 1) in
    let m1 := if 2 <=? size then ptr_at l (size - 2) else 0 in
    let lshift := clz m0 in
    (* exp -= (lshift - GMP_NAIL_BITS) + 1; *)
    let exp := exp - (lshift + 1) in
    (* rshift = GMP_LIMB_BITS - lshift;  m1 <<= GMP_NAIL_BITS;
       rmask = GMP_NAIL_BITS == 0 && lshift == 0 ? 0 : MP_LIMB_T_MAX;
       m0 = (m0 << lshift) | ((m1 >> rshift) & rmask); *)
    let rshift := 64 - lshift in
    let rmask := if lshift =? 0 then 0 else MP_LIMB_T_MAX in
    let m0 := Z.lor (lsl64 m0 lshift) (Z.land (lsr64 m1 rshift) rmask) in
    (* m0 >>= 11; *)
    let m0 := lsr64 m0 11 in
    (* if (UNLIKELY (exp >= CONST_1024)) { ieee_infinity: m0 = 0; m1 = 0; exp = 1024; } *)
    if 1024 <=? exp then get_d_store 0 1024 sign
    (* else if (UNLIKELY (exp <= CONST_NEG_1023)) *)
    else if exp <=? -1023 then
      (* if (LIKELY (exp <= CONST_NEG_1022_SUB_53)) return 0.0; *)
      if exp <=? -1022 - 53 then 0
      else
        (* rshift = -1022 - exp;  m0 >>= rshift;  exp = -1023; *)
        let rshift := -1022 - exp in
        let m0 := lsr64 m0 rshift in
        get_d_store m0 (-1023) sign
    else get_d_store m0 exp sign.

(* ------------------------------------------------------------------ *)
(* mpz/get_d.c  lines 25-35 (mpz_get_d):
     size = SIZ (z);  if (UNLIKELY (size == 0)) return 0.0;
     return mpn_get_d (PTR (z), ABS (size), size, 0L); *)
Definition mpz_get_d_c (z : mpz) : Z :=
  let size := sz z in
  if size =? 0 then 0
  else mpn_get_d_c (d z) (Z.abs size) size 0.

(* mpz/get_d_2exp.c  lines 29-58 (mpz_get_2exp_d, and mpz_get_d_2exp which stores its result
   through exp2):  the pair (returned double, *exp2).
     size = SIZ(src);  if (UNLIKELY (size == 0)) { *r = 0.0; return 0; }
     ptr = PTR(src);  abs_size = ABS(size);
     count_leading_zeros (cnt, ptr[abs_size - 1]);
     exp = abs_size * GMP_NUMB_BITS - (cnt - GMP_NAIL_BITS);
     *r = mpn_get_d (ptr, abs_size, size, -exp);  return exp; *)
Definition mpz_get_d_2exp_c (z : mpz) : Z * Z :=
  let size := sz z in
  if size =? 0 then (0, 0)
  else
    let ptr := d z in
    let abs_size := Z.abs size in
    let cnt := clz (ptr_at ptr (abs_size - 1)) in
    let exp := abs_size * 64 - cnt in
    (mpn_get_d_c ptr abs_size size (- exp), exp).

(* ------------------------------------------------------------------ *)
(* extract-dbl.c  lines 29-267:  int __gmp_extract_double (mp_ptr rp, double d), d >= 0.
   Result: ({rp, LIMBS_PER_DOUBLE = 2}, returned exponent). *)

(* lines 66-77: the denormal loop
     do { manl = manl << 1;  exp--; } while ((manl & GMP_LIMB_HIGHBIT) == 0);
   At most 64 turns can be needed; when the fuel runs out (manl = 0, excluded because d != 0)
   the mantissa 0 is returned, which the theorems exclude (they show its high bit is set). *)
Fixpoint denorm_loop (fuel : nat) (manl exp : Z) : Z * Z :=
  match fuel with
  | O => (0, exp)
  | S f =>
      let manl := lsl64 manl 1 in
      let exp := exp - 1 in
      if Z.land manl LIMB_HIGHBIT =? 0 then denorm_loop f manl exp else (manl, exp)
  end.

(* lines 148-166, the split of manl into LIMBS_PER_DOUBLE == 2 limbs (GMP_NAIL_BITS == 0);
   exp is the unbiased exponent (after `exp -= 1022;`) *)
Definition extract_limbs (manl exp : Z) : list Z * Z :=
  (* sc = (unsigned) (exp + 64 * GMP_NUMB_BITS) % GMP_NUMB_BITS; *)
  let sc := ((exp + 64 * 64) mod 2 ^ 32) mod 64 in
  (* exp = (exp + 64 * GMP_NUMB_BITS) / GMP_NUMB_BITS - 64 * GMP_NUMB_BITS / GMP_NUMB_BITS + 1;
     [C division truncates toward zero] *)
  let exp := Z.quot (exp + 64 * 64) 64 - 64 * 64 / 64 + 1 in
  (* if (sc != 0) { rp[1] = manl >> (GMP_LIMB_BITS - sc);  rp[0] = manl << sc; }
     else { rp[1] = manl;  rp[0] = 0;  exp--; }      return exp; *)
  if negb (sc =? 0) then ([lsl64 manl sc; lsr64 manl (64 - sc)], exp)
  else ([0; manl], exp - 1).

Definition extract_double_c (bits : Z) : list Z * Z :=
  (* if (d == 0.0) { MPN_ZERO (rp, LIMBS_PER_DOUBLE); return 0; }   [+0.0 and -0.0 compare equal] *)
  if Z.land bits (2 ^ 63 - 1) =? 0 then ([0; 0], 0)
  else
    (* x.d = d;  exp = x.s.exp;
       manl = (((mp_limb_t) 1 << 63) | ((mp_limb_t) x.s.manh << 43) | ((mp_limb_t) x.s.manl << 11)); *)
    let exp := ieee_exp bits in
    let manl := Z.lor (Z.lor (lsl64 1 63) (lsl64 (ieee_manh bits) 43)) (lsl64 (ieee_manl bits) 11) in
    (* if (exp == 0) { exp = 1; do ... while (...); } *)
    let '(manl, exp) := if exp =? 0 then denorm_loop 64 manl 1 else (manl, exp) in
    (* exp -= 1022;   then the split into limbs *)
    extract_limbs manl (exp - 1022).

(* ------------------------------------------------------------------ *)
(* mpz/set_d.c  lines 39-108:  void mpz_set_d (mpz_ptr r, double d)
   Result: Invalid when __gmp_invalid_operation () is called, else the mpz written
   (SIZ (r) and the limbs {PTR (r), ABS (SIZ (r))}). *)
Definition mpz_set_d_c (bits : Z) : cres mpz :=
  (* DOUBLE_NAN_INF_ACTION (d, __gmp_invalid_operation (), __gmp_invalid_operation ());
     [gmp-impl.h 3437-3450: u.d = (x); if (u.s.exp == 0x7FF) { a_inf or a_nan }] *)
  if ieee_exp bits =? 2047 then Invalid
  else
    (* negative = d < 0;  d = ABS (d);     [-0.0 < 0 is false] *)
    let negative := negb (ieee_sig bits =? 0) && negb (Z.land bits (2 ^ 63 - 1) =? 0) in
    let dabs := if negative then Z.land bits (2 ^ 63 - 1) else bits in
    (* rn = __gmp_extract_double (tp, d); *)
    let '(tp, rn) := extract_double_c dabs in
    (* if (ALLOC(r) < rn) _mpz_realloc (r, rn);   if (rn <= 0) rn = 0;   rp = PTR (r); *)
    let rn := if rn <=? 0 then 0 else rn in
    (* switch (rn) {
         default: MPN_ZERO (rp, rn - LIMBS_PER_DOUBLE);  rp += rn - LIMBS_PER_DOUBLE;  [fall through]
         case 2:  rp[1] = tp[1], rp[0] = tp[0];  break;
         case 1:  rp[0] = tp[1];  break;
         case 0:  break; } *)
    let rp :=
      if rn =? 0 then []
      else if rn =? 1 then [ptr_at tp 1]
      else if rn =? 2 then [ptr_at tp 0; ptr_at tp 1]
      else repeat 0 (Z.to_nat (rn - 2)) ++ [ptr_at tp 0; ptr_at tp 1] in
    (* SIZ(r) = negative ? -rn : rn; *)
    COk (mkz (if negative then - rn else rn) rp).

(* ------------------------------------------------------------------ *)
(* mpq/get_d.c  lines 95-167:  double mpq_get_d (mpq_srcptr src)
   num, den: the two mpz fields of src (den with positive size).
   N_QLIMBS = 1 + (sizeof (double) + BYTES_PER_MP_LIMB-1) / BYTES_PER_MP_LIMB = 2. *)
Definition N_QLIMBS : Z := 1 + (8 + 8 - 1) / 8.

(* the n least significant limbs of x *)
Fixpoint limbs_n (n : nat) (x : Z) : list Z :=
  match n with
  | O => []
  | S k => (x mod B) :: limbs_n k (x / B)
  end.

(* mpn_tdiv_qr (qp, remp, 0, np, nsize, dp, dsize) by its contract: the nsize - dsize + 1 limbs of
   the quotient floor({np,nsize} / {dp,dsize}) (the remainder is not used by mpq_get_d).  The
   division routines themselves are modelled as coded in SbDivDefs.v / DcDivDefs.v. *)
Definition tdiv_q_limbs (np : list Z) (nsize : Z) (dp : list Z) (dsize : Z) : list Z :=
  limbs_n (Z.to_nat (nsize - dsize + 1)) (eval np / eval dp).

Definition mpq_get_d_c (num den : mpz) : Z :=
  (* mp_size_t nsize = src->_mp_num._mp_size;  dsize = src->_mp_den._mp_size;
     mp_size_t sign_quotient = nsize; *)
  let nsize := sz num in
  let dsize := sz den in
  let sign_quotient := nsize in
  (* if (UNLIKELY (nsize == 0)) return 0.0; *)
  if nsize =? 0 then 0
  else
    (* nsize = ABS (nsize);  dsize = ABS (dsize);  np = num limbs;  dp = den limbs; *)
    let nsize := Z.abs nsize in
    let dsize := Z.abs dsize in
    let np := d num in
    let dp := d den in
    (* prospective_qsize = nsize - dsize + 1;  qsize = N_QLIMBS + 1;
       zeros = qsize - prospective_qsize;  exp = (long) -zeros * GMP_NUMB_BITS; *)
    let prospective_qsize := nsize - dsize + 1 in
    let qsize := N_QLIMBS + 1 in
    let zeros := qsize - prospective_qsize in
    let exp := - zeros * 64 in
    (* chop = MAX (-zeros, 0);  np += chop;  nsize -= chop;  zeros += chop; *)
    let chop := Z.max (- zeros) 0 in
    let np := skipn (Z.to_nat chop) np in
    let nsize := nsize - chop in
    let zeros := zeros + chop in
    (* tsize = nsize + zeros; *)
    let tsize := nsize + zeros in
    (* if (zeros > 0) { MPN_ZERO (tp, zeros);  MPN_COPY (tp+zeros, np, nsize);  np = tp;  nsize = tsize; } *)
    let '(np, nsize) := if 0 <? zeros then (repeat 0 (Z.to_nat zeros) ++ np, tsize) else (np, nsize) in
    (* mpn_tdiv_qr (qp, remp, (mp_size_t) 0, np, nsize, dp, dsize); *)
    let qp := tdiv_q_limbs np nsize dp dsize in
    (* qsize -= (qp[qsize-1] == 0); *)
    let qsize := qsize - b2z (ptr_at qp (qsize - 1) =? 0) in
    (* res = mpn_get_d (qp, qsize, sign_quotient, exp); *)
    mpn_get_d_c qp qsize sign_quotient exp.

(* ------------------------------------------------------------------ *)
(* value-level helper used in the statements of GetDProofs.v:  floor (N / D * 2^a), D > 0 *)
Definition qfl (N D a : Z) : Z := if 0 <=? a then (N * 2 ^ a) / D else N / (D * 2 ^ (- a)).
