(* DcDivProofs.v -- mpn_dc_div_qr_n (model in DcDivDefs.v) returns the exact quotient and
   remainder for every 2n-limb numerator and every normalised n-limb divisor, and its two
   correction loops run at most 4 and at most 2 times.  Standard library only. *)
From Coq Require Import ZArith Lia Bool.
From Mpir Require Import DcDivDefs.
Local Open Scope Z_scope.

(* ------------------------------------------------------------------ *)
(* powers of the limb base                                              *)
(* ------------------------------------------------------------------ *)

Lemma Bp_pos k : 0 <= k -> 0 < Bp k.
Proof. intros H. unfold Bp. apply Z.pow_pos_nonneg; lia. Qed.

Lemma Bp_add a b : 0 <= a -> 0 <= b -> Bp (a + b) = Bp a * Bp b.
Proof.
  intros Ha Hb. unfold Bp. rewrite Z.mul_add_distr_l, Z.pow_add_r by lia. reflexivity.
Qed.

Lemma Bp_even k : 1 <= k -> exists c, 0 < c /\ Bp k = 2 * c.
Proof.
  intros H. exists (2 ^ (64 * k - 1)). split.
  - apply Z.pow_pos_nonneg; lia.
  - unfold Bp. replace (64 * k) with (1 + (64 * k - 1)) at 1 by lia.
    rewrite Z.pow_add_r by lia. reflexivity.
Qed.

Lemma Bp_ge_limb k : 1 <= k -> 2 ^ 64 <= Bp k.
Proof. intros H. unfold Bp. apply Z.pow_le_mono_r; lia. Qed.

Lemma limb_small x : 0 <= x < 2 ^ 64 -> limb x = x.
Proof. intros H. unfold limb. apply Z.mod_small. exact H. Qed.

(* ------------------------------------------------------------------ *)
(* the mpn primitives                                                   *)
(* ------------------------------------------------------------------ *)

Lemma mod_sub_lt a b m : 0 <= a < m -> 0 <= b < m -> a < b -> (a - b) mod m = a - b + m.
Proof. intros Ha Hb Hab. symmetry. apply Z.mod_unique with (-1); lia. Qed.

Lemma sub_n_spec k a b : 0 <= a < Bp k -> 0 <= b < Bp k ->
  let '(c, r) := mpn_sub_n k a b in
  r - c * Bp k = a - b /\ 0 <= r < Bp k /\ (c = 0 \/ c = 1).
Proof.
  intros Ha Hb. unfold mpn_sub_n. destruct (Z.ltb_spec a b) as [Hlt | Hge].
  - rewrite mod_sub_lt by lia. lia.
  - rewrite Z.mod_small by lia. lia.
Qed.

Lemma add_n_spec k a b : 0 <= a < Bp k -> 0 <= b < Bp k ->
  let '(c, r) := mpn_add_n k a b in
  r + c * Bp k = a + b /\ 0 <= r < Bp k /\ (c = 0 \/ c = 1).
Proof.
  intros Ha Hb. unfold mpn_add_n.
  pose proof (Z.div_mod (a + b) (Bp k) ltac:(lia)) as Hdm.
  pose proof (Z.mod_pos_bound (a + b) (Bp k) ltac:(lia)) as Hmb.
  assert (Hc : 0 <= (a + b) / Bp k < 2).
  { split. apply Z.div_pos; lia. apply Z.div_lt_upper_bound; lia. }
  lia.
Qed.

(* splitting a value at a limb boundary *)
Lemma split_spec x b : 0 < b -> 0 <= x ->
  x = (x / b) * b + x mod b /\ 0 <= x mod b < b /\ 0 <= x / b.
Proof.
  intros Hb Hx. pose proof (Z.div_mod x b ltac:(lia)).
  pose proof (Z.mod_pos_bound x b Hb). pose proof (Z.div_pos x b Hx Hb). lia.
Qed.

(* the top part of a normalised value is normalised *)
Lemma norm_top bl bh D D1 D0 : 0 < bl -> (exists c, 0 < c /\ bh = 2 * c) ->
  D = D1 * bl + D0 -> 0 <= D0 < bl -> bl * bh <= 2 * D -> D < bl * bh ->
  bh <= 2 * D1 /\ D1 < bh.
Proof.
  intros Hbl [c [Hc Hbh]] HD HD0 Hn1 Hn2. subst bh. split.
  - assert (~ (D1 <= c - 1)); [ | lia ].
    intros Hle. assert (D1 * bl <= (c - 1) * bl) by (apply Z.mul_le_mono_nonneg_r; lia). nia.
  - assert (~ (2 * c <= D1)); [ | lia ].
    intros Hle. assert (2 * c * bl <= D1 * bl) by (apply Z.mul_le_mono_nonneg_r; lia). nia.
Qed.

Local Opaque Bp.

(* ------------------------------------------------------------------ *)
(* first correction loop                                                *)
(* ------------------------------------------------------------------ *)

(* Loop invariant.  A is the value being divided in this half (the top n + hi limbs of N),
   qh * B^hi + q the current quotient estimate; the exact (possibly negative) partial
   remainder A - (qh B^hi + q) D is represented as P - cy B^n with 0 <= P < B^n: cy counts
   the borrows that went out of the n-limb block.  k bounds the remaining iterations. *)
Definition inv_hi (n hi D A k cy qh q P : Z) : Prop :=
  0 <= P < Bp n /\ 0 <= cy < 2 ^ 64 /\ (qh = 0 \/ qh = 1) /\ 0 <= q < Bp hi /\
  P - cy * Bp n = A - (qh * Bp hi + q) * D /\
  A - (qh * Bp hi + q) * D < D /\
  - k * D <= A - (qh * Bp hi + q) * D.

Lemma corr_hi_step n hi D A k cy qh q P :
  1 <= hi -> 0 <= n -> 0 < D < Bp n -> 0 <= A -> 0 <= k ->
  inv_hi n hi D A (k + 1) cy qh q P -> cy <> 0 ->
  let '(b, q') := mpn_sub_1 hi q in
  let '(c, P') := mpn_add_n n P D in
  inv_hi n hi D A k (limb (cy - c)) (limb (qh - b)) q' P'.
Proof.
  intros Hhi Hn HD HA Hk (HP & Hcy & Hqh & Hq & Heq & Hup & Hlow) Hnz.
  pose proof (Bp_pos n Hn) as Hbn. pose proof (Bp_pos hi ltac:(lia)) as Hbh.
  pose proof (Bp_ge_limb hi Hhi) as Hbh64.
  pose proof (add_n_spec n P D HP ltac:(lia)) as Hadd.
  unfold mpn_sub_1. destruct (mpn_add_n n P D) as [c P'].
  destruct Hadd as (Hsum & HP' & Hc).
  set (bn := Bp n) in *. set (bh := Bp hi) in *.
  set (Q := qh * bh + q) in *.
  assert (HW : A - Q * D < 0) by nia.
  assert (HQ : 1 <= Q) by nia.
  assert (Hcy' : 0 <= cy - c < 2 ^ 64) by nia.
  (* the decremented quotient *)
  assert (Hdec : exists qh' q', limb (qh - (if q <? 1 then 1 else 0)) = qh' /\
                   (q - 1) mod bh = q' /\ (qh' = 0 \/ qh' = 1) /\ 0 <= q' < bh /\
                   qh' * bh + q' = Q - 1).
  { destruct (Z.ltb_spec q 1) as [Hq0 | Hq1].
    - assert (q = 0) by lia. subst q. assert (qh = 1) by (unfold Q in HQ; nia). subst qh.
      exists 0, (bh - 1). replace (1 - 1) with 0 by lia. rewrite limb_small by lia.
      replace (0 - 1) with (0 - 1 - 0) by lia.
      assert (Hm : (0 - 1) mod bh = bh - 1).
      { symmetry. apply Z.mod_unique with (-1); lia. }
      replace (0 - 1 - 0) with (0 - 1) by lia. rewrite Hm. unfold Q. lia.
    - exists qh, (q - 1). rewrite Z.sub_0_r, limb_small by lia.
      rewrite Z.mod_small by lia. unfold Q. lia. }
  destruct Hdec as (qh' & q' & E1 & E2 & Hqh' & Hq' & HQ').
  rewrite E1, E2, (limb_small (cy - c)) by lia.
  unfold inv_hi. fold bn bh. rewrite HQ'.
  repeat split; try lia; nia.
Qed.

Lemma corr_hi_spec lf : forall n hi D A cy qh q P,
  1 <= hi -> 0 <= n -> 0 < D < Bp n -> 0 <= A ->
  inv_hi n hi D A (Z.of_nat lf) cy qh q P ->
  let '(cy', qh', q', P') := corr_hi lf n hi D cy qh q P in
  cy' = 0 /\ A = (qh' * Bp hi + q') * D + P' /\ 0 <= P' < D /\
  (qh' = 0 \/ qh' = 1) /\ 0 <= q' < Bp hi.
Proof.
  induction lf as [| f IH]; intros n hi D A cy qh q P Hhi Hn HD HA Hinv.
  - cbn [corr_hi]. destruct (Z.eqb_spec cy 0) as [Hz | Hnz].
    + destruct Hinv as (HP & Hcy & Hqh & Hq & Heq & Hup & Hlow). subst cy.
      repeat split; try lia.
    + exfalso. destruct Hinv as (HP & Hcy & Hqh & Hq & Heq & Hup & Hlow).
      pose proof (Bp_pos n Hn). change (Z.of_nat 0) with 0 in Hlow. nia.
  - cbn [corr_hi]. destruct (Z.eqb_spec cy 0) as [Hz | Hnz].
    + destruct Hinv as (HP & Hcy & Hqh & Hq & Heq & Hup & Hlow). subst cy.
      repeat split; try lia.
    + rewrite Nat2Z.inj_succ in Hinv. unfold Z.succ in Hinv.
      pose proof (corr_hi_step n hi D A (Z.of_nat f) cy qh q P Hhi Hn HD HA
                    ltac:(lia) Hinv Hnz) as Hstep.
      destruct (mpn_sub_1 hi q) as [b q']. destruct (mpn_add_n n P D) as [c P'].
      apply IH; assumption.
Qed.

(* ------------------------------------------------------------------ *)
(* second correction loop                                               *)
(* ------------------------------------------------------------------ *)

(* Here the code neither updates ql nor looks at the borrow of the quotient decrement, so
   the invariant carries the exact quotient estimate Qc as a ghost value and only says that
   the lo limbs at qp hold Qc mod B^lo.  X is the value being divided in this half. *)
Definition inv_lo (n lo D X k cy Qc q P : Z) : Prop :=
  0 <= P < Bp n /\ 0 <= cy < 2 ^ 64 /\ q = Qc mod Bp lo /\
  P - cy * Bp n = X - Qc * D /\
  X - Qc * D < D /\
  - k * D <= X - Qc * D.

Lemma corr_lo_step n lo D X k cy Qc q P :
  0 <= lo -> 0 <= n -> 0 < D < Bp n -> 0 <= k ->
  inv_lo n lo D X (k + 1) cy Qc q P -> cy <> 0 ->
  let '(_, q') := mpn_sub_1 lo q in
  let '(c, P') := mpn_add_n n P D in
  inv_lo n lo D X k (limb (cy - c)) (Qc - 1) q' P'.
Proof.
  intros Hlo Hn HD Hk (HP & Hcy & Hq & Heq & Hup & Hlow) Hnz.
  pose proof (Bp_pos n Hn) as Hbn. pose proof (Bp_pos lo Hlo) as Hbl.
  pose proof (add_n_spec n P D HP ltac:(lia)) as Hadd.
  unfold mpn_sub_1. destruct (mpn_add_n n P D) as [c P'].
  destruct Hadd as (Hsum & HP' & Hc).
  set (bn := Bp n) in *. set (bl := Bp lo) in *.
  assert (HW : X - Qc * D < 0) by nia.
  assert (Hcy' : 0 <= cy - c < 2 ^ 64) by nia.
  rewrite (limb_small (cy - c)) by lia.
  unfold inv_lo. fold bn bl.
  repeat split; try lia; try nia.
  subst q. apply Zminus_mod_idemp_l.
Qed.

Lemma corr_lo_spec lf : forall n lo D X cy Qc q P,
  0 <= lo -> 0 <= n -> 0 < D < Bp n -> 0 <= X < D * Bp lo ->
  inv_lo n lo D X (Z.of_nat lf) cy Qc q P ->
  let '(cy', q', P') := corr_lo lf n lo D cy q P in
  cy' = 0 /\ X = q' * D + P' /\ 0 <= P' < D /\ 0 <= q' < Bp lo.
Proof.
  assert (Hfin : forall n lo D X k Qc q P, 0 <= lo -> 0 <= n -> 0 < D < Bp n ->
            0 <= X < D * Bp lo -> inv_lo n lo D X k 0 Qc q P ->
            0 = 0 /\ X = q * D + P /\ 0 <= P < D /\ 0 <= q < Bp lo).
  { intros n lo D X k Qc q P Hlo Hn HD HX (HP & Hcy & Hq & Heq & Hup & Hlow).
    pose proof (Bp_pos lo Hlo) as Hbl. set (bl := Bp lo) in *.
    assert (HQ : 0 <= Qc < bl) by nia.
    rewrite Z.mod_small in Hq by lia. subst q. repeat split; lia. }
  induction lf as [| f IH]; intros n lo D X cy Qc q P Hlo Hn HD HX Hinv.
  - cbn [corr_lo]. destruct (Z.eqb_spec cy 0) as [Hz | Hnz].
    + subst cy. eapply Hfin; eassumption.
    + exfalso. destruct Hinv as (HP & Hcy & Hq & Heq & Hup & Hlow).
      pose proof (Bp_pos n Hn). change (Z.of_nat 0) with 0 in Hlow. nia.
  - cbn [corr_lo]. destruct (Z.eqb_spec cy 0) as [Hz | Hnz].
    + subst cy. eapply Hfin; eassumption.
    + rewrite Nat2Z.inj_succ in Hinv. unfold Z.succ in Hinv.
      pose proof (corr_lo_step n lo D X (Z.of_nat f) cy Qc q P Hlo Hn HD
                    ltac:(lia) Hinv Hnz) as Hstep.
      destruct (mpn_sub_1 lo q) as [b q']. destruct (mpn_add_n n P D) as [c P'].
      eapply IH; eassumption.
Qed.

(* ------------------------------------------------------------------ *)
(* sizes and the contract of a sub-division                             *)
(* ------------------------------------------------------------------ *)

Lemma halves n : 2 <= n -> 1 <= n / 2 /\ n / 2 <= n - n / 2 <= n / 2 + 1.
Proof. intros H. Z.div_mod_to_equations. lia. Qed.

(* divide m is an exact division of 2m-limb numerators by normalised m-limb divisors:
   (ok, qh, q, r) with Nn = (qh B^m + q) Dd + r *)
Definition div_ok (divide : Z -> Z -> Z -> bool * Z * Z * Z) (m : Z) : Prop :=
  forall Nn Dd, 0 <= Nn < Bp (2 * m) -> Bp m <= 2 * Dd -> Dd < Bp m ->
  let '(ok, qh, q, r) := divide m Nn Dd in
  ok = true /\ Nn = (qh * Bp m + q) * Dd + r /\ 0 <= r < Dd /\ 0 <= q < Bp m /\
  (qh = 0 \/ qh = 1).

(* ------------------------------------------------------------------ *)
(* first half                                                           *)
(* ------------------------------------------------------------------ *)

Lemma div_bound x b c : 0 < b -> 0 <= x < c * b -> 0 <= x / b < c.
Proof.
  intros Hb Hx. split. apply Z.div_pos; lia. apply Z.div_lt_upper_bound; lia.
Qed.

(* the conditional second subtraction: the block Pa = Ph b + Pl has its top part Ph
   replaced by Ph' = Ph - D0 + c2 c *)
Lemma top_sub_arith b c Pa Ph Pl Ph' c2 D0 :
  0 < b -> 0 < c -> Pa = Ph * b + Pl -> 0 <= Pl < b -> 0 <= Ph' < c ->
  Ph' - c2 * c = Ph - D0 ->
  0 <= Ph' * b + Pl < c * b /\
  Ph' * b + Pl - c2 * (c * b) = Pa - b * D0.
Proof.
  intros Hb Hc EPa HPl HPh' Es.
  assert (Ph' * b <= (c - 1) * b) by (apply Z.mul_le_mono_nonneg_r; lia).
  assert (0 <= Ph' * b) by (apply Z.mul_nonneg_nonneg; lia).
  assert (Ph' = Ph - D0 + c2 * c) by lia. split; [ lia | ]. subst Ph' Pa. ring.
Qed.

(* The arithmetic of the first half.  D = D1 bl + D0, the sub-division gave
   Ntop = Q D1 + r1 with Q = qh bh + q1; P0 = r1 bl + Nmid is the block {np + lo, n}.
   The exact partial remainder after subtracting Q D0 is P0 - Q D0; it is < D and
   >= -(2 + 2 qh) D. *)
Lemma high_arith bl bh D1 D0 qh q1 r1 Nmid :
  0 < bl -> 0 < bh -> bh <= 2 * D1 -> D1 < bh -> 0 <= D0 < bl -> 0 <= r1 < D1 ->
  0 <= q1 < bh -> (qh = 0 \/ qh = 1) -> 0 <= Nmid < bl ->
  0 <= r1 * bl + Nmid < bl * bh /\
  0 <= q1 * D0 < bl * bh /\
  r1 * bl + Nmid - (qh * bh + q1) * D0 < D1 * bl + D0 /\
  - (2 + 2 * qh) * (D1 * bl + D0) <= r1 * bl + Nmid - (qh * bh + q1) * D0 /\
  (((qh * bh + q1) * D1 + r1) * bl + Nmid) - (qh * bh + q1) * (D1 * bl + D0)
    = r1 * bl + Nmid - (qh * bh + q1) * D0.
Proof.
  intros Hbl Hbh Hn1 Hn2 HD0 Hr1 Hq1 Hqh HNmid.
  assert (H1 : r1 * bl <= (D1 - 1) * bl) by (apply Z.mul_le_mono_nonneg_r; lia).
  assert (H2 : D1 * bl <= (bh - 1) * bl) by (apply Z.mul_le_mono_nonneg_r; lia).
  assert (H3 : 0 <= q1 * D0) by (apply Z.mul_nonneg_nonneg; lia).
  assert (H4 : q1 * D0 <= (bh - 1) * D0) by (apply Z.mul_le_mono_nonneg_r; lia).
  assert (H5 : (bh - 1) * D0 <= (bh - 1) * (bl - 1)) by (apply Z.mul_le_mono_nonneg_l; lia).
  assert (H6 : 0 <= r1 * bl) by (apply Z.mul_nonneg_nonneg; lia).
  assert (H7 : bh * D0 <= bh * (bl - 1)) by (apply Z.mul_le_mono_nonneg_l; lia).
  assert (H8 : bh * bl <= 2 * D1 * bl) by (apply Z.mul_le_mono_nonneg_r; lia).
  repeat split; try nia.
Qed.

(* The loop budget: 4 iterations always suffice; 2 suffice when the first sub-division
   cannot return qh = 1, i.e. when Ntop < D1 B^hi. *)
Lemma dc_high_correct divide lf1 n N D :
  2 <= n ->
  ((4 <= lf1)%nat \/
   ((2 <= lf1)%nat /\ N / Bp (2 * (n / 2)) < D / Bp (n / 2) * Bp (n - n / 2))) ->
  div_ok divide (n - n / 2) ->
  0 <= N < Bp (2 * n) -> Bp n <= 2 * D -> D < Bp n ->
  let '(ok1, cy1, qh, q1, P) := dc_high divide lf1 n N D in
  ok1 = true /\ cy1 = 0 /\
  N / Bp (n / 2) = (qh * Bp (n - n / 2) + q1) * D + P /\ 0 <= P < D /\
  (qh = 0 \/ qh = 1) /\ 0 <= q1 < Bp (n - n / 2).
Proof.
  intros Hn Hlf Hdiv HN HD1 HD2. unfold dc_high.
  destruct (halves n Hn) as (Hlo & Hhi).
  set (lo := n / 2) in *. set (hi := n - lo) in *.
  pose proof (Bp_pos lo ltac:(lia)) as Hbl. pose proof (Bp_pos hi ltac:(lia)) as Hbh.
  assert (Ebn : Bp n = Bp lo * Bp hi).
  { rewrite <- Bp_add by lia. f_equal. lia. }
  assert (Ebll : Bp (2 * lo) = Bp lo * Bp lo).
  { rewrite <- Bp_add by lia. f_equal. lia. }
  assert (Ebhh : Bp (2 * hi) = Bp hi * Bp hi).
  { rewrite <- Bp_add by lia. f_equal. lia. }
  assert (Ebnn : Bp (2 * n) = Bp n * Bp n).
  { rewrite <- Bp_add by lia. f_equal. lia. }
  pose proof (Bp_even hi ltac:(lia)) as Hev.
  rewrite Ebll. rewrite <- Z.div_div by lia.
  rewrite Ebll in Hlf. rewrite <- Z.div_div in Hlf by lia.
  rewrite Ebnn, Ebn in HN. rewrite Ebn in HD1, HD2.
  set (A := N / Bp lo) in *.
  destruct (split_spec N (Bp lo) Hbl ltac:(lia)) as (EN & HN0 & HA0). fold A in EN, HA0.
  destruct (split_spec A (Bp lo) Hbl HA0) as (EA & HNmid & HNtop0).
  destruct (split_spec D (Bp lo) Hbl ltac:(lia)) as (ED & HD0 & HD10).
  set (Ntop := A / Bp lo) in *. set (Nmid := A mod Bp lo) in *.
  set (D1 := D / Bp lo) in *. set (D0 := D mod Bp lo) in *.
  set (N0 := N mod Bp lo) in *.
  set (bl := Bp lo) in *. set (bh := Bp hi) in *.
  destruct (norm_top bl bh D D1 D0 Hbl Hev ED HD0 HD1 HD2) as (Hn1 & Hn2).
  assert (HNtop : 0 <= Ntop < Bp (2 * hi)).
  { rewrite Ebhh. fold bh. split; [ lia | ]. nia. }
  specialize (Hdiv Ntop D1 HNtop Hn1 Hn2). fold bh in Hdiv.
  destruct (divide hi Ntop D1) as [[[ok1 qh] q1] r1].
  destruct Hdiv as (Hok1 & ENtop & Hr1 & Hq1 & Hqh).
  destruct (high_arith bl bh D1 D0 qh q1 r1 Nmid Hbl Hbh Hn1 Hn2 HD0 Hr1 Hq1 Hqh HNmid)
    as (HP0 & Htp & Hup & Hlow & Ering).
  pose proof (sub_n_spec n (r1 * bl + Nmid) (q1 * D0)) as Hs1.
  rewrite Ebn in Hs1. fold bl bh in Hs1. specialize (Hs1 HP0 Htp).
  destruct (mpn_sub_n n (r1 * bl + Nmid) (q1 * D0)) as [c1 Pa].
  destruct Hs1 as (Es1 & HPa & Hc1).
  assert (Hinv : exists cy P,
            (if qh =? 0 then (c1, Pa)
             else let '(c, Ph) := mpn_sub_n lo (Pa / bh) D0 in
                  (limb (c1 + c), Ph * bh + Pa mod bh)) = (cy, P) /\
            inv_hi n hi D A (Z.of_nat lf1) cy qh q1 P).
  { assert (Hk : (2 + 2 * qh) * D <= Z.of_nat lf1 * D).
    { apply Z.mul_le_mono_nonneg_r; [ lia | ].
      destruct Hlf as [Hlf | [Hlf Hsmall]]; [ lia | ].
      assert (qh = 0); [ | lia ].
      destruct Hqh as [Hz | Ho]; [ exact Hz | exfalso; subst qh ].
      assert (0 <= q1 * D1) by (apply Z.mul_nonneg_nonneg; lia).
      clear - ENtop Hsmall Hr1 H. lia. }
    assert (HA : A - (qh * bh + q1) * D = r1 * bl + Nmid - (qh * bh + q1) * D0).
    { rewrite <- Ering. rewrite EA, ENtop, ED. reflexivity. }
    rewrite <- ED in Hup, Hlow.
    destruct (Z.eqb_spec qh 0) as [Hz | Hnz].
    - exists c1, Pa. split; [ reflexivity | ]. unfold inv_hi. rewrite Ebn. fold bl bh.
      rewrite HA. subst qh. clear - Hk HPa Hc1 Hq1 Es1 Hup Hlow.
      repeat split; lia.
    - assert (qh = 1) by lia. subst qh.
      destruct (split_spec Pa bh Hbh ltac:(lia)) as (EPa & HPl & HPh0).
      pose proof (div_bound Pa bh bl Hbh HPa) as HPh.
      pose proof (sub_n_spec lo (Pa / bh) D0 HPh HD0) as Hs2.
      destruct (mpn_sub_n lo (Pa / bh) D0) as [c2 Ph']. fold bl in Hs2.
      destruct Hs2 as (Es2 & HPh' & Hc2).
      exists (limb (c1 + c2)), (Ph' * bh + Pa mod bh). split; [ reflexivity | ].
      rewrite limb_small by lia.
      destruct (top_sub_arith bh bl Pa (Pa / bh) (Pa mod bh) Ph' c2 D0 Hbh Hbl EPa HPl
                  HPh' Es2) as (HPb & EPb).
      unfold inv_hi. rewrite Ebn. fold bl bh. rewrite HA.
      clear - Hk HPb EPb Hc1 Hc2 Hq1 Es1 Hup Hlow.
      repeat split; lia. }
  destruct Hinv as (cy & P & Eif & Hinv). rewrite Eif.
  pose proof (corr_hi_spec lf1 n hi D A cy qh q1 P ltac:(lia) ltac:(lia)) as Hloop.
  rewrite Ebn in Hloop. fold bl bh in Hloop.
  specialize (Hloop ltac:(lia) HA0 Hinv).
  destruct (corr_hi lf1 n hi D cy qh q1 P) as [[[cy1 qh'] q1'] P'].
  destruct Hloop as (Hcy1 & EAf & HP' & Hqh' & Hq1').
  repeat split; try assumption; lia.
Qed.

(* ------------------------------------------------------------------ *)
(* second half                                                          *)
(* ------------------------------------------------------------------ *)

(* The arithmetic of the second half.  D = Dh bh + Dl, X = T bh + L < D bl, the
   sub-division gave T = Qe Dh + r0 with Qe = ql bl + q0; {np, n} = r0 bh + L.
   Because X < D bl the estimate Qe is at most bl + 1, and the exact partial remainder
   r0 bh + L - Qe Dl is < D and >= -2 D. *)
Lemma low_arith bl bh Dh Dl ql q0 r0 L :
  0 < bl -> 0 < bh -> bl <= 2 * Dh -> Dh < bl -> 0 <= Dl < bh -> 0 <= r0 < Dh ->
  0 <= q0 < bl -> (ql = 0 \/ ql = 1) -> 0 <= L < bh ->
  ((ql * bl + q0) * Dh + r0) * bh + L < (Dh * bh + Dl) * bl ->
  0 <= r0 * bh + L < bh * bl /\
  0 <= Dl * q0 < bh * bl /\
  r0 * bh + L - (ql * bl + q0) * Dl < Dh * bh + Dl /\
  - 2 * (Dh * bh + Dl) <= r0 * bh + L - (ql * bl + q0) * Dl /\
  (((ql * bl + q0) * Dh + r0) * bh + L) - (ql * bl + q0) * (Dh * bh + Dl)
    = r0 * bh + L - (ql * bl + q0) * Dl.
Proof.
  intros Hbl Hbh Hn1 Hn2 HDl Hr0 Hq0 Hql HL HX.
  set (Qe := ql * bl + q0) in *.
  assert (HQe0 : 0 <= Qe) by (unfold Qe; nia).
  assert (H1 : r0 * bh <= (Dh - 1) * bh) by (apply Z.mul_le_mono_nonneg_r; lia).
  assert (H2 : Dh * bh <= (bl - 1) * bh) by (apply Z.mul_le_mono_nonneg_r; lia).
  assert (H3 : 0 <= Dl * q0) by (apply Z.mul_nonneg_nonneg; lia).
  assert (H4 : Dl * q0 <= (bh - 1) * q0) by (apply Z.mul_le_mono_nonneg_r; lia).
  assert (H5 : (bh - 1) * q0 <= (bh - 1) * (bl - 1)) by (apply Z.mul_le_mono_nonneg_l; lia).
  assert (H6 : 0 <= r0 * bh) by (apply Z.mul_nonneg_nonneg; lia).
  assert (H7 : 0 <= Qe * Dl) by (apply Z.mul_nonneg_nonneg; lia).
  (* Qe <= bl + 1 *)
  assert (HQe : Qe <= bl + 1).
  { assert (~ (bl + 2 <= Qe)); [ | lia ]. intros Hge.
    assert (Ha : (bl + 2) * Dh <= Qe * Dh) by (apply Z.mul_le_mono_nonneg_r; lia).
    assert (Hb : (bl + 2) * Dh * bh <= Qe * Dh * bh) by (apply Z.mul_le_mono_nonneg_r; lia).
    assert (Hc : Dl * bl <= (bh - 1) * bl) by (apply Z.mul_le_mono_nonneg_r; lia).
    assert (Hd : bl * bh <= 2 * Dh * bh) by (apply Z.mul_le_mono_nonneg_r; lia).
    clear - Hb Hc Hd HX H6 HL Hbl. lia. }
  assert (H8 : Qe * Dl <= 2 * (Dh * bh + Dl)).
  { assert (Ha : Qe * Dl <= (bl + 1) * Dl) by (apply Z.mul_le_mono_nonneg_r; lia).
    assert (Hb : (bl - 1) * Dl <= (bl - 1) * bh) by (apply Z.mul_le_mono_nonneg_l; lia).
    assert (Hc : bl * bh <= 2 * Dh * bh) by (apply Z.mul_le_mono_nonneg_r; lia).
    lia. }
  repeat split; lia.
Qed.

Lemma mod_mul_add q b r : 0 <= r < b -> (q * b + r) mod b = r.
Proof.
  intros Hr. rewrite Z.add_comm, Z_mod_plus_full. apply Z.mod_small. exact Hr.
Qed.

Lemma dc_low_correct divide lf2 n X D :
  2 <= n -> (2 <= lf2)%nat -> div_ok divide (n / 2) ->
  0 <= X < D * Bp (n / 2) -> Bp n <= 2 * D -> D < Bp n ->
  let '(ok2, cy2, q0, P2) := dc_low divide lf2 n X D in
  ok2 = true /\ cy2 = 0 /\ X = q0 * D + P2 /\ 0 <= P2 < D /\ 0 <= q0 < Bp (n / 2).
Proof.
  intros Hn Hlf Hdiv HX HD1 HD2. unfold dc_low.
  destruct (halves n Hn) as (Hlo & Hhi).
  set (lo := n / 2) in *. set (hi := n - lo) in *.
  pose proof (Bp_pos lo ltac:(lia)) as Hbl. pose proof (Bp_pos hi ltac:(lia)) as Hbh.
  assert (Ebn : Bp n = Bp hi * Bp lo).
  { rewrite <- Bp_add by lia. f_equal. lia. }
  assert (Ebll : Bp (2 * lo) = Bp lo * Bp lo).
  { rewrite <- Bp_add by lia. f_equal. lia. }
  pose proof (Bp_even lo ltac:(lia)) as Hev.
  rewrite Ebn in HD1, HD2.
  destruct (split_spec X (Bp hi) Hbh ltac:(lia)) as (EX & HL & HT0).
  destruct (split_spec D (Bp hi) Hbh ltac:(lia)) as (ED & HDl & HDh0).
  set (T := X / Bp hi) in *. set (L := X mod Bp hi) in *.
  set (Dh := D / Bp hi) in *. set (Dl := D mod Bp hi) in *.
  set (bl := Bp lo) in *. set (bh := Bp hi) in *.
  destruct (norm_top bh bl D Dh Dl Hbh Hev ED HDl HD1 HD2) as (Hn1 & Hn2).
  assert (HT : 0 <= T < Bp (2 * lo)).
  { rewrite Ebll. fold bl. split; [ lia | ].
    assert (~ (bl * bl <= T)); [ | lia ]. intros Hge.
    assert (bl * bl * bh <= T * bh) by (apply Z.mul_le_mono_nonneg_r; lia).
    assert (D * bl <= (bh * bl - 1) * bl) by (apply Z.mul_le_mono_nonneg_r; lia).
    clear - H H0 HX EX HL Hbl. nia. }
  specialize (Hdiv T Dh HT Hn1 Hn2). fold bl in Hdiv.
  destruct (divide lo T Dh) as [[[ok2 ql] q0] r0].
  destruct Hdiv as (Hok2 & ET & Hr0 & Hq0 & Hql).
  assert (HXlt : ((ql * bl + q0) * Dh + r0) * bh + L < (Dh * bh + Dl) * bl).
  { rewrite <- ET, <- EX, <- ED. lia. }
  destruct (low_arith bl bh Dh Dl ql q0 r0 L Hbl Hbh Hn1 Hn2 HDl Hr0 Hq0 Hql HL HXlt)
    as (HP0 & Htp & Hup & Hlow & Ering).
  pose proof (sub_n_spec n (r0 * bh + L) (Dl * q0)) as Hs1.
  rewrite Ebn in Hs1. fold bl bh in Hs1. specialize (Hs1 HP0 Htp).
  destruct (mpn_sub_n n (r0 * bh + L) (Dl * q0)) as [c1 Pa].
  destruct Hs1 as (Es1 & HPa & Hc1).
  assert (Hinv : exists cy P,
            (if ql =? 0 then (c1, Pa)
             else let '(c, Ph) := mpn_sub_n hi (Pa / bl) Dl in
                  (limb (c1 + c), Ph * bl + Pa mod bl)) = (cy, P) /\
            inv_lo n lo D X (Z.of_nat lf2) cy (ql * bl + q0) q0 P).
  { assert (Hk : 2 * D <= Z.of_nat lf2 * D) by (apply Z.mul_le_mono_nonneg_r; lia).
    assert (HA : X - (ql * bl + q0) * D = r0 * bh + L - (ql * bl + q0) * Dl).
    { rewrite <- Ering. rewrite EX, ET, ED. reflexivity. }
    assert (Hmod : q0 = (ql * bl + q0) mod bl) by (symmetry; apply mod_mul_add; lia).
    rewrite <- ED in Hup, Hlow.
    destruct (Z.eqb_spec ql 0) as [Hz | Hnz].
    - exists c1, Pa. split; [ reflexivity | ]. unfold inv_lo. rewrite Ebn. fold bl bh.
      rewrite HA. split; [ lia | ]. split; [ lia | ]. split; [ exact Hmod | ].
      subst ql. clear - Hk HPa Hc1 Hq0 Es1 Hup Hlow.
      repeat split; lia.
    - assert (ql = 1) by lia. subst ql.
      destruct (split_spec Pa bl Hbl ltac:(lia)) as (EPa & HPl & HPh0).
      pose proof (div_bound Pa bl bh Hbl HPa) as HPh.
      pose proof (sub_n_spec hi (Pa / bl) Dl HPh HDl) as Hs2.
      destruct (mpn_sub_n hi (Pa / bl) Dl) as [c2 Ph']. fold bh in Hs2.
      destruct Hs2 as (Es2 & HPh' & Hc2).
      exists (limb (c1 + c2)), (Ph' * bl + Pa mod bl). split; [ reflexivity | ].
      rewrite limb_small by lia.
      destruct (top_sub_arith bl bh Pa (Pa / bl) (Pa mod bl) Ph' c2 Dl Hbl Hbh EPa HPl
                  HPh' Es2) as (HPb & EPb).
      unfold inv_lo. rewrite Ebn. fold bl bh. rewrite HA.
      split; [ lia | ]. split; [ lia | ]. split; [ exact Hmod | ].
      clear - Hk HPb EPb Hc1 Hc2 Hq0 Es1 Hup Hlow.
      repeat split; lia. }
  destruct Hinv as (cy & P & Eif & Hinv). rewrite Eif.
  pose proof (corr_lo_spec lf2 n lo D X cy (ql * bl + q0) q0 P ltac:(lia) ltac:(lia)) as Hloop.
  rewrite Ebn in Hloop. fold bl bh in Hloop.
  specialize (Hloop ltac:(lia) HX Hinv).
  destruct (corr_lo lf2 n lo D cy q0 P) as [[cy2 q0'] P'].
  destruct Hloop as (Hcy2 & EXf & HP' & Hq0').
  repeat split; try assumption; lia.
Qed.

(* ------------------------------------------------------------------ *)
(* one level of the function                                            *)
(* ------------------------------------------------------------------ *)

Lemma dc_step_correct divide lf1 lf2 n N D :
  2 <= n -> (4 <= lf1)%nat -> (2 <= lf2)%nat ->
  div_ok divide (n - n / 2) -> div_ok divide (n / 2) ->
  0 <= N < Bp (2 * n) -> Bp n <= 2 * D -> D < Bp n ->
  let '(ok, qh, Q, R) := dc_step divide lf1 lf2 n N D in
  ok = true /\ N = (qh * Bp n + Q) * D + R /\ 0 <= R < D /\ 0 <= Q < Bp n /\
  (qh = 0 \/ qh = 1).
Proof.
  intros Hn Hlf1 Hlf2 Hdhi Hdlo HN HD1 HD2. unfold dc_step.
  destruct (halves n Hn) as (Hlo & Hhi).
  pose proof (dc_high_correct divide lf1 n N D Hn (or_introl Hlf1) Hdhi HN HD1 HD2) as Hh.
  destruct (dc_high divide lf1 n N D) as [[[[ok1 cy1] qh] q1] P].
  destruct Hh as (Hok1 & Hcy1 & EA & HP & Hqh & Hq1).
  set (lo := n / 2) in *. set (hi := n - lo) in *.
  pose proof (Bp_pos lo ltac:(lia)) as Hbl. pose proof (Bp_pos hi ltac:(lia)) as Hbh.
  assert (Ebn : Bp n = Bp hi * Bp lo).
  { rewrite <- Bp_add by lia. f_equal. lia. }
  destruct (split_spec N (Bp lo) Hbl ltac:(lia)) as (EN & HN0 & HA0).
  set (N0 := N mod Bp lo) in *. set (bl := Bp lo) in *. set (bh := Bp hi) in *.
  assert (HX : 0 <= P * bl + N0 < D * bl).
  { assert (P * bl <= (D - 1) * bl) by (apply Z.mul_le_mono_nonneg_r; lia).
    assert (0 <= P * bl) by (apply Z.mul_nonneg_nonneg; lia). lia. }
  pose proof (dc_low_correct divide lf2 n (P * bl + N0) D Hn Hlf2 Hdlo HX HD1 HD2) as Hl.
  destruct (dc_low divide lf2 n (P * bl + N0) D) as [[[ok2 cy2] q0] P2].
  destruct Hl as (Hok2 & Hcy2 & EX & HP2 & Hq0). fold lo bl in Hq0.
  subst ok1 ok2 cy1 cy2. rewrite Ebn.
  assert (q1 * bl <= (bh - 1) * bl) by (apply Z.mul_le_mono_nonneg_r; lia).
  assert (0 <= q1 * bl) by (apply Z.mul_nonneg_nonneg; lia).
  repeat split; lia.
Qed.

(* ------------------------------------------------------------------ *)
(* the recursion                                                        *)
(* ------------------------------------------------------------------ *)

Section Correct.

Variable basediv : Z -> Z -> Z -> Z * Z.
Variable mmin thr : Z.

(* The base case is exact for normalised divisors of mmin <= m < thr limbs.
   mpn_sb_div_qr: mmin = 3 (ASSERT (dn > 2)). *)
Definition base_exact : Prop :=
  forall m Nn Dd, mmin <= m < thr -> 0 <= Nn < Bp (2 * m) -> Bp m <= 2 * Dd -> Dd < Bp m ->
  let '(q, r) := basediv m Nn Dd in Nn = q * Dd + r /\ 0 <= r < Dd.

Lemma base_div_ok m : base_exact -> 1 <= mmin -> mmin <= m < thr ->
  div_ok (base_div_qr basediv) m.
Proof.
  intros Hbase Hmmin Hm Nn Dd HNn HDd1 HDd2. unfold base_div_qr.
  specialize (Hbase m Nn Dd Hm HNn HDd1 HDd2).
  destruct (basediv m Nn Dd) as [q r]. destruct Hbase as (ENn & Hr).
  pose proof (Bp_pos m ltac:(lia)) as Hbm.
  assert (Ebmm : Bp (2 * m) = Bp m * Bp m).
  { rewrite <- Bp_add by lia. f_equal. lia. }
  rewrite Ebmm in HNn. set (bm := Bp m) in *.
  assert (Hq0 : 0 <= q) by nia.
  assert (Hq1 : q < 2 * bm).
  { assert (~ (2 * bm <= q)); [ | lia ]. intros Hge.
    assert (2 * bm * Dd <= q * Dd) by (apply Z.mul_le_mono_nonneg_r; lia).
    assert (bm * bm <= 2 * Dd * bm) by (apply Z.mul_le_mono_nonneg_r; lia). lia. }
  destruct (split_spec q bm Hbm Hq0) as (Eq & Hqm & Hqd).
  assert (Hqh : q / bm < 2) by (apply Z.div_lt_upper_bound; lia).
  split; [ reflexivity | ]. split; [ rewrite <- Eq; exact ENn | ].
  repeat split; lia.
Qed.

Lemma half_le_pow n f : n <= 2 ^ Z.of_nat (S f) -> n - n / 2 <= 2 ^ Z.of_nat f.
Proof.
  rewrite Nat2Z.inj_succ, Z.pow_succ_r by lia. intros H.
  set (p := 2 ^ Z.of_nat f) in *. Z.div_mod_to_equations. lia.
Qed.

(* Every level of the recursion divides exactly, every sub-division is flagged ok (the
   recursion fuel did not run out) and every correction loop has ended (cy = 0) within
   lf1 >= 4 resp. lf2 >= 2 iterations. *)
Theorem dc_div_qr_n_ok_correct fuel lf1 lf2 :
  base_exact -> 1 <= mmin -> 2 * mmin <= thr -> (4 <= lf1)%nat -> (2 <= lf2)%nat ->
  forall n, 2 * mmin <= n -> n <= 2 ^ Z.of_nat fuel ->
  div_ok (dc_div_qr_n_ok basediv fuel lf1 lf2 thr) n.
Proof.
  intros Hbase Hmmin Hthr Hlf1 Hlf2.
  induction fuel as [| f IH]; intros n Hn Hfuel.
  - exfalso. change (2 ^ Z.of_nat 0) with 1 in Hfuel. lia.
  - assert (Hsub : forall m, mmin <= m -> m <= 2 ^ Z.of_nat f ->
              div_ok (fun m Nn Dd => if m <? thr then base_div_qr basediv m Nn Dd
                                     else dc_div_qr_n_ok basediv f lf1 lf2 thr m Nn Dd) m).
    { intros m Hm1 Hm2 Nn Dd HNn HDd1 HDd2. cbv beta.
      destruct (Z.ltb_spec m thr) as [Hlt | Hge].
      - apply base_div_ok; try assumption; lia.
      - apply IH; try assumption; lia. }
    intros Nn Dd HNn HDd1 HDd2. cbn [dc_div_qr_n_ok].
    destruct (halves n ltac:(lia)) as (Hlo & Hhi).
    pose proof (half_le_pow n f Hfuel) as Hhf.
    assert (Hlo2 : mmin <= n / 2) by (Z.div_mod_to_equations; lia).
    apply dc_step_correct; try assumption; try lia.
    + apply Hsub; lia.
    + apply Hsub; lia.
Qed.

(* The statement for the function as called: 2n-limb numerator N, normalised n-limb
   divisor D.  Nothing is assumed about N beyond N < B^(2n); the returned qh is 1 exactly
   when the quotient does not fit n limbs (i.e. when the top n limbs of N are >= D). *)
Theorem dc_div_qr_n_correct fuel lfuel n N D :
  base_exact -> 1 <= mmin -> 2 * mmin <= thr -> (4 <= lfuel)%nat ->
  2 * mmin <= n -> n <= 2 ^ Z.of_nat fuel ->
  0 <= N < Bp (2 * n) -> Bp n / 2 <= D < Bp n ->
  let '(qh, Q, R) := dc_div_qr_n basediv fuel lfuel thr n N D in
  N = (qh * Bp n + Q) * D + R /\ 0 <= R < D /\ 0 <= Q < Bp n /\ (qh = 0 \/ qh = 1).
Proof.
  intros Hbase Hmmin Hthr Hlf Hn Hfuel HN HD. unfold dc_div_qr_n.
  destruct (Bp_even n ltac:(lia)) as (c & Hc & Ec).
  assert (HD1 : Bp n <= 2 * D).
  { destruct HD as [HD _]. rewrite Ec in *. rewrite Z.mul_comm, Z.div_mul in HD by lia. lia. }
  pose proof (dc_div_qr_n_ok_correct fuel lfuel lfuel Hbase Hmmin Hthr Hlf ltac:(lia)
                n Hn Hfuel N D HN HD1 ltac:(lia)) as H.
  destruct (dc_div_qr_n_ok basediv fuel lfuel lfuel thr n N D) as [[[ok qh] Q] R].
  destruct H as (_ & H). exact H.
Qed.

(* consequently qh B^n + Q = N / D and R = N mod D *)
Corollary dc_div_qr_n_div_mod fuel lfuel n N D :
  base_exact -> 1 <= mmin -> 2 * mmin <= thr -> (4 <= lfuel)%nat ->
  2 * mmin <= n -> n <= 2 ^ Z.of_nat fuel ->
  0 <= N < Bp (2 * n) -> Bp n / 2 <= D < Bp n ->
  let '(qh, Q, R) := dc_div_qr_n basediv fuel lfuel thr n N D in
  qh * Bp n + Q = N / D /\ R = N mod D.
Proof.
  intros Hbase Hmmin Hthr Hlf Hn Hfuel HN HD.
  pose proof (dc_div_qr_n_correct fuel lfuel n N D Hbase Hmmin Hthr Hlf Hn Hfuel HN HD) as H.
  destruct (dc_div_qr_n basediv fuel lfuel thr n N D) as [[qh Q] R].
  destruct H as (EN & HR & _).
  split.
  - apply Z.div_unique with R; [ lia | ]. rewrite EN. ring.
  - apply Z.mod_unique with (qh * Bp n + Q); [ lia | ]. rewrite EN. ring.
Qed.

End Correct.

(* ------------------------------------------------------------------ *)
(* the quotient estimates behind the loop bounds                        *)
(* ------------------------------------------------------------------ *)

(* First half.  Dividing the top 2 hi limbs Ntop by the top hi limbs D1 of D never
   under-estimates the quotient Q of the top n + hi limbs by D, and over-estimates it by at
   most 4; by at most 2 when Ntop < D1 B^hi (the case qh = 0 of the sub-division, which is
   the situation of the Burnikel-Ziegler estimate).  Each iteration of the first loop lowers
   the estimate by one, so this is what bounds it: A - Qe D >= (Q - Qe) D, and corr_hi_spec
   needs a budget k with - k D <= A - Qe D. *)
Lemma quotient_estimate_hi bl bh D1 D0 Ntop Nmid :
  0 < bl -> 0 < bh -> bh <= 2 * D1 -> D1 < bh -> 0 <= D0 < bl ->
  0 <= Ntop < bh * bh -> 0 <= Nmid < bl ->
  let Qe := Ntop / D1 in
  let Q := (Ntop * bl + Nmid) / (D1 * bl + D0) in
  Q <= Qe <= Q + 4 /\ (Ntop < D1 * bh -> Qe <= Q + 2).
Proof.
  intros Hbl Hbh Hn1 Hn2 HD0 HNtop HNmid Qe Q.
  assert (HD1 : 0 < D1) by lia.
  assert (HDl : D1 * bl <= D1 * bl + D0) by lia.
  assert (HDpos : 0 < D1 * bl + D0).
  { assert (0 < D1 * bl) by (apply Z.mul_pos_pos; lia). lia. }
  assert (HA0 : 0 <= Ntop * bl + Nmid).
  { assert (0 <= Ntop * bl) by (apply Z.mul_nonneg_nonneg; lia). lia. }
  destruct (split_spec Ntop D1 HD1 ltac:(lia)) as (ENtop & Hr1 & HQe0).
  destruct (split_spec (Ntop * bl + Nmid) (D1 * bl + D0) HDpos HA0) as (EA & HR & HQ0).
  fold Qe in ENtop, HQe0. fold Q in EA, HQ0.
  set (r1 := Ntop mod D1) in *. set (R := (Ntop * bl + Nmid) mod (D1 * bl + D0)) in *.
  set (D := D1 * bl + D0) in *.
  (* A - Qe D = r1 bl + Nmid - Qe D0 *)
  assert (EW : Ntop * bl + Nmid - Qe * D = r1 * bl + Nmid - Qe * D0).
  { unfold D. rewrite ENtop at 1. ring. }
  assert (Hr1bl : 0 <= r1 * bl <= (D1 - 1) * bl).
  { split. apply Z.mul_nonneg_nonneg; lia. apply Z.mul_le_mono_nonneg_r; lia. }
  assert (HQeD0 : 0 <= Qe * D0 <= Qe * (bl - 1)).
  { split. apply Z.mul_nonneg_nonneg; lia. apply Z.mul_le_mono_nonneg_l; lia. }
  (* an estimate Qe < k bh gives Qe <= Q + 2 k *)
  assert (Hgen : forall k, 0 <= k -> Qe < k * bh -> Qe <= Q + 2 * k).
  { intros k Hk HQe.
    assert (~ (Q + 2 * k + 1 <= Qe)); [ | lia ]. intros Hge.
    assert (H1 : (Q + 2 * k + 1) * D <= Qe * D) by (apply Z.mul_le_mono_nonneg_r; lia).
    assert (H2 : Qe * (bl - 1) <= (k * bh) * (bl - 1)) by (apply Z.mul_le_mono_nonneg_r; lia).
    assert (H3 : k * (bh * bl) <= k * (2 * D1 * bl)).
    { apply Z.mul_le_mono_nonneg_l; [ lia | ]. apply Z.mul_le_mono_nonneg_r; lia. }
    assert (H4 : 0 <= k * bh) by (apply Z.mul_nonneg_nonneg; lia).
    assert (H5 : k * (2 * D1 * bl) <= k * (2 * D)).
    { apply Z.mul_le_mono_nonneg_l; lia. }
    clear - EW EA HR H1 H2 H3 H4 H5 Hr1bl HQeD0 HNmid. lia. }
  split; [ split | ].
  - (* never an under-estimate *)
    assert (~ (Qe + 1 <= Q)); [ | lia ]. intros Hge.
    assert (H1 : (Qe + 1) * D <= Q * D) by (apply Z.mul_le_mono_nonneg_r; lia).
    assert (H2 : 0 <= (Qe + 1) * D0) by (apply Z.mul_nonneg_nonneg; lia).
    unfold D in H1 at 1. clear - EW EA HR H1 H2 Hr1bl HNmid. unfold D in *. lia.
  - assert (HQe : Qe < 2 * bh).
    { assert (~ (2 * bh <= Qe)); [ | lia ]. intros Hge.
      assert (2 * bh * D1 <= Qe * D1) by (apply Z.mul_le_mono_nonneg_r; lia).
      assert (bh * bh <= 2 * D1 * bh) by (apply Z.mul_le_mono_nonneg_r; lia). lia. }
    specialize (Hgen 2 ltac:(lia) HQe). lia.
  - intros Hsmall.
    assert (HQe : Qe < 1 * bh).
    { assert (~ (bh <= Qe)); [ | lia ]. intros Hge.
      assert (bh * D1 <= Qe * D1) by (apply Z.mul_le_mono_nonneg_r; lia). lia. }
    specialize (Hgen 1 ltac:(lia) HQe). lia.
Qed.

(* Second half.  There X = T B^hi + L < D B^lo (the partial remainder of the first half is
   < D), and the quotient of the top 2 lo limbs T by the top lo limbs Dh of D
   over-estimates X / D by at most 2 (same remark, with corr_lo_spec). *)
Lemma quotient_estimate_lo bl bh Dh Dl T L :
  0 < bl -> 0 < bh -> bl <= 2 * Dh -> Dh < bl -> 0 <= Dl < bh ->
  0 <= T -> 0 <= L < bh -> T * bh + L < (Dh * bh + Dl) * bl ->
  let Qe := T / Dh in
  let Q := (T * bh + L) / (Dh * bh + Dl) in
  Q <= Qe <= Q + 2.
Proof.
  intros Hbl Hbh Hn1 Hn2 HDl HT HL HX Qe Q.
  assert (HDh : 0 < Dh) by lia.
  assert (HDpos : 0 < Dh * bh + Dl).
  { assert (0 < Dh * bh) by (apply Z.mul_pos_pos; lia). lia. }
  assert (HX0 : 0 <= T * bh + L).
  { assert (0 <= T * bh) by (apply Z.mul_nonneg_nonneg; lia). lia. }
  destruct (split_spec T Dh HDh HT) as (ET & Hr0 & HQe0).
  destruct (split_spec (T * bh + L) (Dh * bh + Dl) HDpos HX0) as (EX & HR & HQ0).
  fold Qe in ET, HQe0. fold Q in EX, HQ0.
  set (r0 := T mod Dh) in *. set (R := (T * bh + L) mod (Dh * bh + Dl)) in *.
  set (D := Dh * bh + Dl) in *.
  assert (EW : T * bh + L - Qe * D = r0 * bh + L - Qe * Dl).
  { unfold D. rewrite ET at 1. ring. }
  assert (Hr0bh : 0 <= r0 * bh <= (Dh - 1) * bh).
  { split. apply Z.mul_nonneg_nonneg; lia. apply Z.mul_le_mono_nonneg_r; lia. }
  assert (HQeDl : 0 <= Qe * Dl) by (apply Z.mul_nonneg_nonneg; lia).
  split.
  - assert (~ (Qe + 1 <= Q)); [ | lia ]. intros Hge.
    assert (H1 : (Qe + 1) * D <= Q * D) by (apply Z.mul_le_mono_nonneg_r; lia).
    unfold D in H1 at 1. clear - EW EX HR H1 HQeDl Hr0bh HL HDl. unfold D in *. lia.
  - (* Qe <= bl + 1 *)
    assert (HQe : Qe <= bl + 1).
    { assert (~ (bl + 2 <= Qe)); [ | lia ]. intros Hge.
      assert (Ha : (bl + 2) * Dh <= Qe * Dh) by (apply Z.mul_le_mono_nonneg_r; lia).
      assert (Hb : (bl + 2) * Dh * bh <= Qe * Dh * bh)
        by (apply Z.mul_le_mono_nonneg_r; lia).
      assert (Hc : Dl * bl <= (bh - 1) * bl) by (apply Z.mul_le_mono_nonneg_r; lia).
      assert (Hd : bl * bh <= 2 * Dh * bh) by (apply Z.mul_le_mono_nonneg_r; lia).
      rewrite ET in HX. unfold D in HX. clear - Hb Hc Hd HX Hr0bh HL Hbl. lia. }
    assert (H8 : Qe * Dl <= 2 * D).
    { assert (Ha : Qe * Dl <= (bl + 1) * Dl) by (apply Z.mul_le_mono_nonneg_r; lia).
      assert (Hb : (bl - 1) * Dl <= (bl - 1) * bh) by (apply Z.mul_le_mono_nonneg_l; lia).
      assert (Hc : bl * bh <= 2 * Dh * bh) by (apply Z.mul_le_mono_nonneg_r; lia).
      unfold D. lia. }
    assert (~ (Q + 3 <= Qe)); [ | lia ]. intros Hge.
    assert (H1 : (Q + 3) * D <= Qe * D) by (apply Z.mul_le_mono_nonneg_r; lia).
    clear - EW EX HR H1 H8 Hr0bh HL. lia.
Qed.

(* ------------------------------------------------------------------ *)
(* a closed instance and examples                                       *)
(* ------------------------------------------------------------------ *)

Local Transparent Bp.

Lemma exact_basediv_exact mmin thr : base_exact exact_basediv mmin thr.
Proof.
  intros m Nn Dd Hm HNn HD1 HD2. unfold exact_basediv.
  pose proof (Bp_pos m) as Hbm.
  assert (0 < Dd).
  { destruct (Z.le_gt_cases 0 m) as [H0 | H0]; [ specialize (Hbm H0); lia | ].
    exfalso. revert HNn. unfold Bp.
    rewrite Z.pow_neg_r by lia. lia. }
  pose proof (Z.div_mod Nn Dd ltac:(lia)). pose proof (Z.mod_pos_bound Nn Dd ltac:(lia)).
  lia.
Qed.

(* with exact division as base case and threshold 2 (the recursion goes all the way down
   to 1-limb pieces) the model is exact for every n >= 2 *)
Corollary dc_div_qr_n_exact_base fuel n N D :
  2 <= n -> n <= 2 ^ Z.of_nat fuel -> 0 <= N < Bp (2 * n) -> Bp n / 2 <= D < Bp n ->
  let '(qh, Q, R) := dc_div_qr_n exact_basediv fuel 4 2 n N D in
  qh * Bp n + Q = N / D /\ R = N mod D.
Proof.
  intros Hn Hfuel HN HD.
  apply (dc_div_qr_n_div_mod exact_basediv 1 2 fuel 4%nat n N D); try assumption; try lia.
  apply exact_basediv_exact.
Qed.


(* n = 2, threshold 2: both halves use the base case.  N = 2^256 - 12345, D = 2^127 + 2^64 - 1;
   the top two limbs of N exceed D, so qh = 1. *)
Example ex_n2 :
  let N := 2 ^ 256 - 12345 in
  let D := 2 ^ 127 + 2 ^ 64 - 1 in
  dc_div_qr_n exact_basediv 2 4 2 2 N D = (N / D / Bp 2, (N / D) mod Bp 2, N mod D).
Proof. vm_compute. reflexivity. Qed.

(* n = 3 (lo = 1, hi = 2; the high half recurses once), an input on which the first loop
   needs 4 iterations and the second one 2: with budgets (4, 2) everything is ok and the
   result is N / D, N mod D; with (3, 2) or (4, 1) a loop is cut short (ok = false), so the
   bounds 4 and 2 of dc_div_qr_n_ok_correct cannot be lowered. *)
Definition ex3_N : Z :=
  39402006196394479212279040100143613805079739270465446667948293320316153752745331091802865903557755286212861068536634.
Definition ex3_D : Z := 3138550867754527620751725515444459835317131435558952523699.

Example ex_n3 :
  dc_div_qr_n_ok exact_basediv 3 4 2 2 3 ex3_N ex3_D
  = (true, ex3_N / ex3_D / Bp 3, (ex3_N / ex3_D) mod Bp 3, ex3_N mod ex3_D).
Proof. vm_compute. reflexivity. Qed.

Example ex_n3_first_loop_needs_4 :
  fst (fst (fst (dc_div_qr_n_ok exact_basediv 3 3 2 2 3 ex3_N ex3_D))) = false.
Proof. vm_compute. reflexivity. Qed.

Example ex_n3_second_loop_needs_2 :
  fst (fst (fst (dc_div_qr_n_ok exact_basediv 3 4 1 2 3 ex3_N ex3_D))) = false.
Proof. vm_compute. reflexivity. Qed.

(* on the same input: the estimate of the first half is 4 too large *)
Example ex_n3_estimate :
  let lo := 1 in
  let Ntop := ex3_N / Bp (2 * lo) in
  let D1 := ex3_D / Bp lo in
  Ntop / D1 - (ex3_N / Bp lo) / ex3_D = 4.
Proof. vm_compute. reflexivity. Qed.

(* n = 5 with threshold 2: recursion depth 3 (5 -> 3, 2 -> 2, 1 -> 1) *)
Example ex_n5 :
  let N := 2 ^ 640 - 3 ^ 200 in
  let D := 2 ^ 319 + 7 ^ 100 in
  dc_div_qr_n exact_basediv 3 4 2 5 N D = (N / D / Bp 5, (N / D) mod Bp 5, N mod D).
Proof. vm_compute. reflexivity. Qed.
