(* Toom3Proofs.v — the Toom-3 model of Toom3Defs.v returns the exact product; the C
   code's ASSERT bounds hold; the divisions by 3 and by 2 are exact.  Standard library
   only. *)
From Coq Require Import ZArith Lia.
From Mpir Require Import Toom3Defs.
Local Open Scope Z_scope.

(* ---- powers of B ------------------------------------------------------------------ *)

Lemma Bpow_pos : forall k, 0 <= k -> 0 < Bpow k.
Proof. intros k Hk. unfold Bpow. apply Z.pow_pos_nonneg; lia. Qed.

Lemma Bpow_add : forall i j, 0 <= i -> 0 <= j -> Bpow (i + j) = Bpow i * Bpow j.
Proof.
  intros i j Hi Hj. unfold Bpow.
  replace (64 * (i + j)) with (64 * i + 64 * j) by ring.
  apply Z.pow_add_r; lia.
Qed.

Lemma Bpow_double : forall k, 0 <= k -> Bpow (2 * k) = Bpow k * Bpow k.
Proof. intros k Hk. replace (2 * k) with (k + k) by ring. apply Bpow_add; lia. Qed.

Lemma Bpow_le : forall i j, 0 <= i <= j -> Bpow i <= Bpow j.
Proof. intros i j H. unfold Bpow. apply Z.pow_le_mono_r; lia. Qed.

(* ---- splitting ---------------------------------------------------------------------- *)

Lemma toom3_split_eq : forall k x, 0 <= k ->
  x = toom3_lo k x + toom3_mid k x * Bpow k + toom3_hi k x * Bpow (2 * k).
Proof.
  intros k x Hk. unfold toom3_lo, toom3_mid, toom3_hi.
  pose proof (Bpow_pos k Hk) as Hp.
  rewrite (Bpow_double k Hk).
  rewrite <- (Z.div_div x (Bpow k) (Bpow k)) by lia.
  pose proof (Z.div_mod x (Bpow k)) as H1.
  pose proof (Z.div_mod (x / Bpow k) (Bpow k)) as H2.
  set (q := x / Bpow k) in *.
  set (t := Bpow k) in *.
  set (q2 := q / t) in *.
  assert (E1 : x = t * q + x mod t) by (apply H1; lia).
  assert (E2 : q = t * q2 + q mod t) by (apply H2; lia).
  rewrite E1 at 1. rewrite E2 at 1. ring.
Qed.

Lemma toom3_split_bounds : forall k x, 0 <= k -> 0 <= x ->
  0 <= toom3_lo k x < Bpow k /\ 0 <= toom3_mid k x < Bpow k /\ 0 <= toom3_hi k x.
Proof.
  intros k x Hk Hx. unfold toom3_lo, toom3_mid, toom3_hi.
  pose proof (Bpow_pos k Hk) as Hp.
  assert (0 <= 2 * k) as H2k by lia.
  pose proof (Bpow_pos (2 * k) H2k) as Hp2.
  repeat split.
  - apply Z.mod_pos_bound; lia.
  - apply Z.mod_pos_bound; lia.
  - apply Z.mod_pos_bound; lia.
  - apply Z.mod_pos_bound; lia.
  - apply Z.div_pos; lia.
Qed.

(* An n-limb operand (n = 2k + r) has a top chunk of r limbs. *)
Lemma toom3_hi_bound : forall k r x, 0 <= k -> 0 <= r -> 0 <= x < Bpow (2 * k + r) ->
  0 <= toom3_hi k x < Bpow r.
Proof.
  intros k r x Hk Hr Hx. unfold toom3_hi.
  assert (0 <= 2 * k) as H2k by lia.
  pose proof (Bpow_pos (2 * k) H2k) as Hp2.
  rewrite (Bpow_add (2 * k) r) in Hx by lia.
  split.
  - apply Z.div_pos; lia.
  - apply Z.div_lt_upper_bound; lia.
Qed.

(* ---- sign and magnitude of the point at -1 ----------------------------------------- *)

Lemma toom3_sign_absdiff : forall x y,
  let s := toom3_sign x y in
  let d := toom3_absdiff s x y in
  s * d = x - y /\ 0 <= d /\ d = Z.abs (x - y) /\
  (s = -1 \/ (s = 0 /\ d = 0) \/ s = 1).
Proof.
  intros x y. unfold toom3_sign, toom3_absdiff.
  destruct (Z.compare_spec x y) as [E | L | G]; cbv beta iota zeta.
  - change (0 <=? 0) with true. cbv iota. repeat split; lia.
  - change (0 <=? -1) with false. cbv iota. repeat split; lia.
  - change (0 <=? 1) with true. cbv iota. repeat split; lia.
Qed.

(* ---- the evaluation phase computes P(0), P(1), |P(-1)| and its sign, P(2), P(inf) -- *)

(* The only divisions in toom3_interpolate are of the three dividends of Toom3Defs. *)
Lemma toom3_interpolate_divisions : forall p,
  toom3_interpolate p =
  let q3 := toom3_dividend_by3 p / 3 in
  let h1 := toom3_dividend_half1 p / 2 in
  let h2 := toom3_dividend_half2 p / 2 in
  mk_toom3_coeffs (pt_v0 p) (h1 - h2) (pt_v1 p - pt_v0 p - pt_vinf p - h1) h2 (pt_vinf p).
Proof. reflexivity. Qed.

Ltac toom3_eval_unfold :=
  unfold toom3_eval;
  cbv beta iota zeta delta [pt_v0 pt_v1 pt_vm1 pt_v2 pt_vinf pt_sa].

Section Eval.
  Variable mulrec : Z -> Z -> Z.
  Hypothesis mulrec_spec : forall x y, mulrec x y = x * y.
  Variables a0 a1 a2 b0 b1 b2 : Z.

  Let c0 := toom3_c0 a0 a1 a2 b0 b1 b2.
  Let c1 := toom3_c1 a0 a1 a2 b0 b1 b2.
  Let c2 := toom3_c2 a0 a1 a2 b0 b1 b2.
  Let c3 := toom3_c3 a0 a1 a2 b0 b1 b2.
  Let c4 := toom3_c4 a0 a1 a2 b0 b1 b2.
  Let p := toom3_eval mulrec a0 a1 a2 b0 b1 b2.

  Lemma toom3_eval_v0 : pt_v0 p = c0.
  Proof. unfold p; toom3_eval_unfold. rewrite mulrec_spec. reflexivity. Qed.

  Lemma toom3_eval_vinf : pt_vinf p = c4.
  Proof. unfold p; toom3_eval_unfold. rewrite mulrec_spec. reflexivity. Qed.

  Lemma toom3_eval_v1 : pt_v1 p = c0 + c1 + c2 + c3 + c4.
  Proof.
    unfold p; toom3_eval_unfold. rewrite mulrec_spec.
    unfold c0, c1, c2, c3, c4, toom3_c0, toom3_c1, toom3_c2, toom3_c3, toom3_c4. ring.
  Qed.

  Lemma toom3_eval_v2 : pt_v2 p = c0 + 2 * c1 + 4 * c2 + 8 * c3 + 16 * c4.
  Proof.
    unfold p; toom3_eval_unfold. rewrite mulrec_spec. unfold toom3_eval2; cbv zeta.
    unfold c0, c1, c2, c3, c4, toom3_c0, toom3_c1, toom3_c2, toom3_c3, toom3_c4. ring.
  Qed.

  (* magnitude times sign is the signed value P(-1) *)
  Lemma toom3_eval_vm1 : pt_sa p * pt_vm1 p = c0 - c1 + c2 - c3 + c4.
  Proof.
    unfold p; toom3_eval_unfold. rewrite mulrec_spec.
    destruct (toom3_sign_absdiff (a0 + a2) a1) as [Ea _].
    destruct (toom3_sign_absdiff (b0 + b2) b1) as [Eb _].
    cbv zeta in Ea, Eb.
    set (sa := toom3_sign (a0 + a2) a1) in *.
    set (sb := toom3_sign (b0 + b2) b1) in *.
    set (da := toom3_absdiff sa (a0 + a2) a1) in *.
    set (db := toom3_absdiff sb (b0 + b2) b1) in *.
    replace (sa * sb * (da * db)) with ((sa * da) * (sb * db)) by ring.
    rewrite Ea, Eb.
    unfold c0, c1, c2, c3, c4, toom3_c0, toom3_c1, toom3_c2, toom3_c3, toom3_c4. ring.
  Qed.

  (* the stored vm1 is |a0-a1+a2| * |b0-b1+b2| *)
  Lemma toom3_eval_vm1_abs :
    pt_vm1 p = Z.abs (a0 - a1 + a2) * Z.abs (b0 - b1 + b2).
  Proof.
    unfold p; toom3_eval_unfold. rewrite mulrec_spec.
    destruct (toom3_sign_absdiff (a0 + a2) a1) as [_ [_ [Ea _]]].
    destruct (toom3_sign_absdiff (b0 + b2) b1) as [_ [_ [Eb _]]].
    cbv zeta in Ea, Eb. rewrite Ea, Eb.
    replace (a0 + a2 - a1) with (a0 - a1 + a2) by ring.
    replace (b0 + b2 - b1) with (b0 - b1 + b2) by ring.
    reflexivity.
  Qed.

  Lemma toom3_eval_vm1_nonneg : 0 <= pt_vm1 p.
  Proof. rewrite toom3_eval_vm1_abs. apply Z.mul_nonneg_nonneg; apply Z.abs_nonneg. Qed.

  (* sa is -1, 0 or 1, and the magnitude is 0 whenever sa is 0 *)
  Lemma toom3_eval_sa :
    pt_sa p = -1 \/ (pt_sa p = 0 /\ pt_vm1 p = 0) \/ pt_sa p = 1.
  Proof.
    unfold p; toom3_eval_unfold. rewrite mulrec_spec.
    destruct (toom3_sign_absdiff (a0 + a2) a1) as [_ [_ [_ Sa]]].
    destruct (toom3_sign_absdiff (b0 + b2) b1) as [_ [_ [_ Sb]]].
    cbv zeta in Sa, Sb.
    set (sa := toom3_sign (a0 + a2) a1) in *.
    set (sb := toom3_sign (b0 + b2) b1) in *.
    set (da := toom3_absdiff sa (a0 + a2) a1) in *.
    set (db := toom3_absdiff sb (b0 + b2) b1) in *.
    destruct Sa as [Sa | [[Sa Da] | Sa]]; destruct Sb as [Sb | [[Sb Db] | Sb]];
      rewrite ?Sa, ?Sb, ?Da, ?Db; lia.
  Qed.

  (* the two sign-dependent statements of the interpolation are the signed subtractions *)
  Lemma toom3_step_v2_sub_vm1_eq : forall x,
    toom3_step_v2_sub_vm1 (pt_sa p) x (pt_vm1 p) = x - (c0 - c1 + c2 - c3 + c4).
  Proof.
    intros x. rewrite <- toom3_eval_vm1. unfold toom3_step_v2_sub_vm1.
    destruct toom3_eval_sa as [S | [[S V] | S]]; rewrite S;
      [ change (-1 <? 0) with true
      | change (0 <? 0) with false; rewrite V
      | change (1 <? 0) with false ]; cbv iota; ring.
  Qed.

  Lemma toom3_step_v1_sub_vm1_eq : forall x,
    toom3_step_v1_sub_vm1 (pt_sa p) x (pt_vm1 p) = x - (c0 - c1 + c2 - c3 + c4).
  Proof.
    intros x. rewrite <- toom3_eval_vm1. unfold toom3_step_v1_sub_vm1.
    destruct toom3_eval_sa as [S | [[S V] | S]]; rewrite S;
      [ change (-1 <? 0) with true
      | change (0 <? 0) with false; rewrite V
      | change (1 <? 0) with false ]; cbv iota; ring.
  Qed.

  (* ---- the three divisions ---------------------------------------------------------- *)

  Lemma toom3_dividend_by3_eq :
    toom3_dividend_by3 p = 3 * (c1 + c2 + 3 * c3 + 5 * c4).
  Proof.
    unfold toom3_dividend_by3.
    rewrite toom3_step_v2_sub_vm1_eq, toom3_eval_v2. ring.
  Qed.

  Lemma toom3_dividend_half1_eq : toom3_dividend_half1 p = 2 * (c1 + c3).
  Proof.
    unfold toom3_dividend_half1.
    rewrite toom3_step_v1_sub_vm1_eq, toom3_eval_v1. ring.
  Qed.

  Lemma toom3_dividend_half2_eq : toom3_dividend_half2 p = 2 * c3.
  Proof.
    unfold toom3_dividend_half2.
    rewrite toom3_dividend_by3_eq, Z.mul_comm, Z.div_mul by lia.
    rewrite toom3_eval_v1, toom3_eval_v0, toom3_eval_vinf. ring.
  Qed.

  (* toom3_divisions_exact: v2 - vm1 (signed) is a multiple of 3 where mpn_divexact_by3
     is called; both halved quantities are even. *)
  Theorem toom3_divisions_exact :
    (3 | toom3_dividend_by3 p) /\ (2 | toom3_dividend_half1 p) /\ (2 | toom3_dividend_half2 p).
  Proof.
    repeat split.
    - exists (c1 + c2 + 3 * c3 + 5 * c4). rewrite toom3_dividend_by3_eq. ring.
    - exists (c1 + c3). rewrite toom3_dividend_half1_eq. ring.
    - exists c3. rewrite toom3_dividend_half2_eq. ring.
  Qed.

  (* ---- interpolation ------------------------------------------------------------------ *)

  Lemma toom3_interpolate_eq :
    toom3_interpolate p = mk_toom3_coeffs c0 c1 c2 c3 c4.
  Proof.
    unfold toom3_interpolate; cbv zeta.
    fold (toom3_dividend_by3 p). fold (toom3_dividend_half1 p).
    assert (E3 : toom3_dividend_by3 p / 3 = c1 + c2 + 3 * c3 + 5 * c4).
    { rewrite toom3_dividend_by3_eq, Z.mul_comm, Z.div_mul by lia. reflexivity. }
    assert (E2 : toom3_dividend_half1 p / 2 = c1 + c3).
    { rewrite toom3_dividend_half1_eq, Z.mul_comm, Z.div_mul by lia. reflexivity. }
    assert (E2' : (toom3_dividend_by3 p / 3 - 5 * pt_vinf p
                   - (pt_v1 p - pt_v0 p - pt_vinf p)) / 2 = c3).
    { fold (toom3_dividend_half2 p).
      rewrite toom3_dividend_half2_eq, Z.mul_comm, Z.div_mul by lia. reflexivity. }
    rewrite E2', E2.
    rewrite toom3_eval_v1, toom3_eval_v0, toom3_eval_vinf.
    f_equal; ring.
  Qed.

  (* Every value that an unsigned limb vector holds during the interpolation is >= 0
     (the operands being >= 0), so no mpn_sub_n there wraps at value level.  Listed in
     program order. *)
  Lemma toom3_interpolate_steps_nonneg :
    0 <= a0 -> 0 <= a1 -> 0 <= a2 -> 0 <= b0 -> 0 <= b1 -> 0 <= b2 ->
    let v2a := toom3_dividend_by3 p in                   (* v2 -/+ vm1            *)
    let v2b := v2a / 3 in                              (* divexact_by3          *)
    let vm1a := toom3_dividend_half1 p in                (* v1 -/+ vm1            *)
    let vm1b := vm1a / 2 in                            (* half                  *)
    let v1a := pt_v1 p - pt_v0 p in                    (* v1 - v0               *)
    let v1b := v1a - pt_vinf p in                      (* .. - vinf             *)
    let v2c := v2b - 5 * pt_vinf p in                  (* v2 - 5 vinf           *)
    let v2d := v2c - v1b in                            (* v2 - v1               *)
    let v2e := v2d / 2 in                              (* half                  *)
    let v1c := v1b - vm1b in                           (* v1 - vm1              *)
    let vm1c := vm1b - v2e in                          (* vm1 - v2              *)
    0 <= v2a /\ 0 <= v2b /\ 0 <= vm1a /\ 0 <= vm1b /\ 0 <= v1a /\ 0 <= v1b /\
    0 <= v2c /\ 0 <= v2d /\ 0 <= v2e /\ 0 <= v1c /\ 0 <= vm1c.
  Proof.
    intros Ha0 Ha1 Ha2 Hb0 Hb1 Hb2. cbv zeta.
    assert (0 <= c0) by (unfold c0, toom3_c0; nia).
    assert (0 <= c1) by (unfold c1, toom3_c1; nia).
    assert (0 <= c2) by (unfold c2, toom3_c2; nia).
    assert (0 <= c3) by (unfold c3, toom3_c3; nia).
    assert (0 <= c4) by (unfold c4, toom3_c4; nia).
    assert (E3 : toom3_dividend_by3 p / 3 = c1 + c2 + 3 * c3 + 5 * c4).
    { rewrite toom3_dividend_by3_eq, Z.mul_comm, Z.div_mul by lia. reflexivity. }
    assert (E2 : toom3_dividend_half1 p / 2 = c1 + c3).
    { rewrite toom3_dividend_half1_eq, Z.mul_comm, Z.div_mul by lia. reflexivity. }
    assert (E2' : (toom3_dividend_by3 p / 3 - 5 * pt_vinf p
                   - (pt_v1 p - pt_v0 p - pt_vinf p)) / 2 = c3).
    { fold (toom3_dividend_half2 p).
      rewrite toom3_dividend_half2_eq, Z.mul_comm, Z.div_mul by lia. reflexivity. }
    rewrite E2'.
    assert (E2'' : toom3_dividend_by3 p / 3 - 5 * pt_vinf p
                   - (pt_v1 p - pt_v0 p - pt_vinf p) = 2 * c3).
    { fold (toom3_dividend_half2 p). apply toom3_dividend_half2_eq. }
    rewrite E2''. rewrite E3, E2.
    rewrite toom3_dividend_by3_eq, toom3_dividend_half1_eq.
    rewrite toom3_eval_v1, toom3_eval_v0, toom3_eval_vinf.
    repeat split; lia.
  Qed.

End Eval.

(* toom3_interpolate_correct: the five interpolated coefficients are those of the
   product polynomial, and none is negative. *)
Theorem toom3_interpolate_correct :
  forall mulrec a0 a1 a2 b0 b1 b2,
    (forall x y, mulrec x y = x * y) ->
    0 <= a0 -> 0 <= a1 -> 0 <= a2 -> 0 <= b0 -> 0 <= b1 -> 0 <= b2 ->
    let c := toom3_interpolate (toom3_eval mulrec a0 a1 a2 b0 b1 b2) in
    co_0 c = a0 * b0 /\
    co_1 c = a0 * b1 + a1 * b0 /\
    co_2 c = a0 * b2 + a1 * b1 + a2 * b0 /\
    co_3 c = a1 * b2 + a2 * b1 /\
    co_4 c = a2 * b2 /\
    0 <= co_0 c /\ 0 <= co_1 c /\ 0 <= co_2 c /\ 0 <= co_3 c /\ 0 <= co_4 c.
Proof.
  intros mulrec a0 a1 a2 b0 b1 b2 Hm Ha0 Ha1 Ha2 Hb0 Hb1 Hb2. cbv zeta.
  rewrite (toom3_interpolate_eq mulrec Hm).
  cbv beta iota delta [co_0 co_1 co_2 co_3 co_4].
  unfold toom3_c0, toom3_c1, toom3_c2, toom3_c3, toom3_c4.
  repeat split; nia.
Qed.

(* ---- the ASSERT bounds ---------------------------------------------------------------- *)

(* ASSERT (c2[k+k] < 9), ASSERT (t[k+k] < 4), ASSERT (v2[k+k] < 49): the top limb of a
   (2k+1)-limb value x is x / B^(2k), and x / B^(2k) < m is x < m * B^(2k).  Also the
   k+1-limb evaluation points: ASSERT (t3[1] < 3), ASSERT (c[k] < 2), ASSERT (c[k] < 7). *)
Theorem toom3_bounds :
  forall mulrec k r a0 a1 a2 b0 b1 b2,
    (forall x y, mulrec x y = x * y) ->
    1 <= r <= k ->
    0 <= a0 < Bpow k -> 0 <= a1 < Bpow k -> 0 <= a2 < Bpow r ->
    0 <= b0 < Bpow k -> 0 <= b1 < Bpow k -> 0 <= b2 < Bpow r ->
    let p := toom3_eval mulrec a0 a1 a2 b0 b1 b2 in
    0 <= pt_v1 p < 9 * Bpow (2 * k) /\
    0 <= pt_vm1 p < 4 * Bpow (2 * k) /\
    Z.abs (toom3_vm1_signed p) < 4 * Bpow (2 * k) /\
    0 <= pt_v2 p < 49 * Bpow (2 * k) /\
    0 <= pt_v0 p < Bpow (2 * k) /\
    0 <= pt_vinf p < Bpow (2 * r).
Proof.
  intros mulrec k r a0 a1 a2 b0 b1 b2 Hm Hr Ha0 Ha1 Ha2 Hb0 Hb1 Hb2 p.
  assert (Hk : 0 <= k) by lia.
  assert (Hr0 : 0 <= r) by lia.
  pose proof (Bpow_le r k (conj Hr0 (proj2 Hr))) as Hle.
  rewrite (Bpow_double k Hk), (Bpow_double r Hr0).
  pose proof (Bpow_pos k Hk) as Hp.
  pose proof (toom3_eval_vm1_abs mulrec Hm a0 a1 a2 b0 b1 b2) as Evm1.
  pose proof (toom3_eval_sa mulrec Hm a0 a1 a2 b0 b1 b2) as Esa.
  fold p in Evm1, Esa.
  assert (Hvm1 : 0 <= pt_vm1 p < 4 * (Bpow k * Bpow k)).
  { rewrite Evm1.
    assert (0 <= Z.abs (a0 - a1 + a2) < 2 * Bpow k) by lia.
    assert (0 <= Z.abs (b0 - b1 + b2) < 2 * Bpow k) by lia.
    set (x := Z.abs (a0 - a1 + a2)) in *. set (y := Z.abs (b0 - b1 + b2)) in *.
    set (t := Bpow k) in *. nia. }
  assert (Hsg : Z.abs (toom3_vm1_signed p) < 4 * (Bpow k * Bpow k)).
  { unfold toom3_vm1_signed.
    destruct Esa as [S | [[S V] | S]]; rewrite S; try rewrite V; lia. }
  split; [| split; [exact Hvm1 | split; [exact Hsg |]]].
  - unfold p; toom3_eval_unfold. rewrite Hm.
    set (t := Bpow k) in *. set (u := Bpow r) in *.
    assert (0 <= a0 + a2 + a1 < 3 * t) by lia.
    assert (0 <= b0 + b2 + b1 < 3 * t) by lia.
    set (x := a0 + a2 + a1) in *. set (y := b0 + b2 + b1) in *. nia.
  - unfold p; toom3_eval_unfold. rewrite !Hm. unfold toom3_eval2; cbv zeta.
    set (t := Bpow k) in *. set (u := Bpow r) in *.
    assert (0 <= 2 * (2 * a2 + a1) + a0 < 7 * t) by lia.
    assert (0 <= 2 * (2 * b2 + b1) + b0 < 7 * t) by lia.
    set (x := 2 * (2 * a2 + a1) + a0) in *. set (y := 2 * (2 * b2 + b1) + b0) in *.
    repeat split; nia.
Qed.

(* Every intermediate of the interpolation fits the 2k+1 limbs it is stored in: all are
   in [0, 53 B^(2k)), and 53 < B.  With toom3_interpolate_steps_nonneg this says the
   (2k+1)-limb mpn_add_n / mpn_sub_n calls of mpn_toom3_interpolate neither wrap nor
   carry out at value level. *)
Lemma toom3_interpolate_steps_fit :
  forall mulrec k r a0 a1 a2 b0 b1 b2,
    (forall x y, mulrec x y = x * y) ->
    1 <= r <= k ->
    0 <= a0 < Bpow k -> 0 <= a1 < Bpow k -> 0 <= a2 < Bpow r ->
    0 <= b0 < Bpow k -> 0 <= b1 < Bpow k -> 0 <= b2 < Bpow r ->
    let p := toom3_eval mulrec a0 a1 a2 b0 b1 b2 in
    let T := 53 * Bpow (2 * k) in
    let v2a := toom3_dividend_by3 p in
    let v2b := v2a / 3 in
    let vm1a := toom3_dividend_half1 p in
    let vm1b := vm1a / 2 in
    let v1a := pt_v1 p - pt_v0 p in
    let v1b := v1a - pt_vinf p in
    let v2c := v2b - 5 * pt_vinf p in
    let v2d := v2c - v1b in
    let v2e := v2d / 2 in
    let v1c := v1b - vm1b in
    let vm1c := vm1b - v2e in
    T < Bpow (2 * k + 1) /\
    v2a < T /\ v2b < T /\ vm1a < T /\ vm1b < T /\ v1a < T /\ v1b < T /\
    v2c < T /\ v2d < T /\ v2e < T /\ v1c < T /\ vm1c < T.
Proof.
  intros mulrec k r a0 a1 a2 b0 b1 b2 Hm Hr Ha0 Ha1 Ha2 Hb0 Hb1 Hb2 p T.
  pose proof (toom3_bounds mulrec k r a0 a1 a2 b0 b1 b2 Hm Hr Ha0 Ha1 Ha2 Hb0 Hb1 Hb2)
    as Hbd.
  cbv zeta in Hbd. fold p in Hbd.
  destruct Hbd as [B1 [Bm1 [_ [B2 [B0 Binf]]]]].
  pose proof (toom3_interpolate_steps_nonneg mulrec Hm a0 a1 a2 b0 b1 b2
                (proj1 Ha0) (proj1 Ha1) (proj1 Ha2) (proj1 Hb0) (proj1 Hb1) (proj1 Hb2))
    as Hnn.
  cbv zeta in Hnn. fold p in Hnn.
  destruct Hnn as [N1 [N2 [N3 [N4 [N5 [N6 [N7 [N8 [N9 [N10 N11]]]]]]]]]].
  cbv zeta.
  assert (HT : 53 * Bpow (2 * k) < Bpow (2 * k + 1)).
  { rewrite (Bpow_add (2 * k) 1) by lia.
    assert (0 < Bpow (2 * k)) by (apply Bpow_pos; lia).
    change (Bpow 1) with 18446744073709551616. lia. }
  assert (Ha : toom3_dividend_by3 p < T).
  { unfold toom3_dividend_by3, toom3_step_v2_sub_vm1, T.
    destruct (pt_sa p <? 0); lia. }
  assert (Hb : toom3_dividend_half1 p < T).
  { unfold toom3_dividend_half1, toom3_step_v1_sub_vm1, T.
    destruct (pt_sa p <? 0); lia. }
  set (v2a := toom3_dividend_by3 p) in *.
  set (vm1a := toom3_dividend_half1 p) in *.
  assert (D3 : v2a / 3 <= v2a) by (apply Z.div_le_upper_bound; lia).
  assert (D2 : vm1a / 2 <= vm1a) by (apply Z.div_le_upper_bound; lia).
  set (v2b := v2a / 3) in *.
  set (vm1b := vm1a / 2) in *.
  set (v2d := v2b - 5 * pt_vinf p - (pt_v1 p - pt_v0 p - pt_vinf p)) in *.
  assert (D2' : v2d / 2 <= v2d) by (apply Z.div_le_upper_bound; lia).
  set (v2e := v2d / 2) in *.
  unfold T in *.
  split; [exact HT |].
  repeat split; lia.
Qed.

(* The k+1-limb evaluation points fit as the code asserts:
   ASSERT (c1[0] < 2), ASSERT (t3[1] < 3), ASSERT (c[k] < 2) after the subtraction,
   ASSERT (c[k] < 7). *)
Lemma toom3_eval_point_bounds :
  forall k r x0 x1 x2,
    1 <= r <= k ->
    0 <= x0 < Bpow k -> 0 <= x1 < Bpow k -> 0 <= x2 < Bpow r ->
    0 <= x0 + x2 < 2 * Bpow k /\
    0 <= x0 + x2 + x1 < 3 * Bpow k /\
    0 <= toom3_absdiff (toom3_sign (x0 + x2) x1) (x0 + x2) x1 < 2 * Bpow k /\
    0 <= toom3_eval2 x0 x1 x2 < 7 * Bpow k.
Proof.
  intros k r x0 x1 x2 Hr H0 H1 H2.
  assert (Hle : Bpow r <= Bpow k) by (apply Bpow_le; lia).
  destruct (toom3_sign_absdiff (x0 + x2) x1) as [_ [_ [E _]]]. cbv zeta in E.
  rewrite E. unfold toom3_eval2; cbv zeta. repeat split; lia.
Qed.

(* ---- the whole multiplication ------------------------------------------------------------ *)

Lemma toom3_recompose_eq : forall k a0 a1 a2 b0 b1 b2, 0 <= k ->
  toom3_recompose k
    (mk_toom3_coeffs (toom3_c0 a0 a1 a2 b0 b1 b2) (toom3_c1 a0 a1 a2 b0 b1 b2)
                     (toom3_c2 a0 a1 a2 b0 b1 b2) (toom3_c3 a0 a1 a2 b0 b1 b2)
                     (toom3_c4 a0 a1 a2 b0 b1 b2))
  = (a0 + a1 * Bpow k + a2 * Bpow (2 * k)) * (b0 + b1 * Bpow k + b2 * Bpow (2 * k)).
Proof.
  intros k a0 a1 a2 b0 b1 b2 Hk.
  unfold toom3_recompose; cbv beta iota zeta delta [co_0 co_1 co_2 co_3 co_4].
  rewrite (Bpow_double k Hk).
  unfold toom3_c0, toom3_c1, toom3_c2, toom3_c3, toom3_c4. ring.
Qed.

(* On already split operands; no range condition on the parts is needed for the value. *)
Theorem toom3_mul_parts_correct :
  forall mulrec k a0 a1 a2 b0 b1 b2,
    (forall x y, mulrec x y = x * y) -> 0 <= k ->
    toom3_mul_parts mulrec k a0 a1 a2 b0 b1 b2
    = (a0 + a1 * Bpow k + a2 * Bpow (2 * k)) * (b0 + b1 * Bpow k + b2 * Bpow (2 * k)).
Proof.
  intros mulrec k a0 a1 a2 b0 b1 b2 Hm Hk.
  unfold toom3_mul_parts.
  rewrite (toom3_interpolate_eq mulrec Hm).
  apply toom3_recompose_eq; exact Hk.
Qed.

Theorem toom3_mul_correct :
  forall mulrec k a b,
    (forall x y, mulrec x y = x * y) -> 0 < k -> 0 <= a -> 0 <= b ->
    toom3_mul mulrec k a b = a * b.
Proof.
  intros mulrec k a b Hm Hk Ha Hb.
  unfold toom3_mul.
  rewrite (toom3_mul_parts_correct mulrec k _ _ _ _ _ _ Hm) by lia.
  rewrite <- (toom3_split_eq k a) by lia.
  rewrite <- (toom3_split_eq k b) by lia.
  reflexivity.
Qed.

(* The same with the size bookkeeping of mpn_toom3_mul_n spelled out: operands of
   n = 2k + r limbs, 1 <= r <= k; the parts have the sizes the code reads, the ASSERT
   bounds hold for the evaluation points, and the result is the product, which fits the
   2n limbs of {c, 2n}. *)
Theorem toom3_mul_n_correct :
  forall mulrec k r a b,
    (forall x y, mulrec x y = x * y) ->
    1 <= r <= k ->
    0 <= a < Bpow (2 * k + r) -> 0 <= b < Bpow (2 * k + r) ->
    let p := toom3_eval mulrec (toom3_lo k a) (toom3_mid k a) (toom3_hi k a)
                               (toom3_lo k b) (toom3_mid k b) (toom3_hi k b) in
    toom3_mul mulrec k a b = a * b /\
    0 <= toom3_mul mulrec k a b < Bpow (2 * (2 * k + r)) /\
    pt_v1 p < 9 * Bpow (2 * k) /\
    pt_vm1 p < 4 * Bpow (2 * k) /\
    pt_v2 p < 49 * Bpow (2 * k).
Proof.
  intros mulrec k r a b Hm Hr Ha Hb p.
  assert (Hk : 0 <= k) by lia.
  destruct (toom3_split_bounds k a Hk (proj1 Ha)) as [La [Ma _]].
  destruct (toom3_split_bounds k b Hk (proj1 Hb)) as [Lb [Mb _]].
  assert (Hha : 0 <= toom3_hi k a < Bpow r) by (apply toom3_hi_bound; lia).
  assert (Hhb : 0 <= toom3_hi k b < Bpow r) by (apply toom3_hi_bound; lia).
  pose proof (toom3_bounds mulrec k r _ _ _ _ _ _ Hm Hr La Ma Hha Lb Mb Hhb) as Hbd.
  cbv zeta in Hbd. fold p in Hbd.
  destruct Hbd as [[_ B1] [[_ Bm1] [_ [[_ B2] _]]]].
  assert (E : toom3_mul mulrec k a b = a * b) by (apply toom3_mul_correct; [exact Hm | lia | lia | lia]).
  split; [exact E |]. split; [| auto].
  rewrite E. rewrite (Bpow_double (2 * k + r)) by lia.
  split; [apply Z.mul_nonneg_nonneg; lia | apply Z.mul_lt_mono_nonneg; lia].
Qed.

(* ---- a concrete run ------------------------------------------------------------------------ *)

(* k = 2: two 6-limb operands (all three chunks non-trivial, a0 - a1 + a2 < 0 for a and
   > 0 for b, so sa = -1 and the mpn_add_n branches of the interpolation are taken). *)
Example toom3_example :
  let a := 0x0123456789abcdef_fedcba9876543210_ffffffffffffffff_fffffffffffffffe_0000000000000001_8000000000000000 in
  let b := 0xffffffffffffffff_ffffffffffffffff_0000000000000000_0000000000000003_deadbeefcafebabe_0123456789abcdef in
  toom3_mul Z.mul 2 a b = a * b /\
  pt_sa (toom3_eval Z.mul (toom3_lo 2 a) (toom3_mid 2 a) (toom3_hi 2 a)
                          (toom3_lo 2 b) (toom3_mid 2 b) (toom3_hi 2 b)) = -1.
Proof. vm_compute. split; reflexivity. Qed.

(* k = 1, sa = +1 (both a0 - a1 + a2 and b0 - b1 + b2 negative). *)
Example toom3_example_k1 :
  let a := 5 + (2 ^ 64 - 1) * 2 ^ 64 + 7 * 2 ^ 128 in
  let b := 1 + (2 ^ 64 - 2) * 2 ^ 64 + 11 * 2 ^ 128 in
  toom3_mul Z.mul 1 a b = a * b.
Proof. vm_compute. reflexivity. Qed.

(* The comment blocks in toom3_mul.c (above mpn_toom3_interpolate and above mpn_toom3_mul)
   describe another order of operations,
       t1 <- (3 v0 + 2 vm1 + v2) / 6 - 2 vinf      t2 <- (v1 + vm1) / 2
       c1 <- v1 - t1    c2 <- t2 - v0 - vinf    c3 <- t1 - t2,
   with vm1 signed.  The code does not run it (it halves v1 - vm1, not v1 + vm1), but it
   is an exact interpolation too. *)
Lemma toom3_comment_formulas :
  forall mulrec a0 a1 a2 b0 b1 b2,
    (forall x y, mulrec x y = x * y) ->
    let p := toom3_eval mulrec a0 a1 a2 b0 b1 b2 in
    let vm1 := toom3_vm1_signed p in
    let t1 := (3 * pt_v0 p + 2 * vm1 + pt_v2 p) / 6 - 2 * pt_vinf p in
    let t2 := (pt_v1 p + vm1) / 2 in
    (6 | 3 * pt_v0 p + 2 * vm1 + pt_v2 p) /\ (2 | pt_v1 p + vm1) /\
    pt_v1 p - t1 = toom3_c1 a0 a1 a2 b0 b1 b2 /\
    t2 - pt_v0 p - pt_vinf p = toom3_c2 a0 a1 a2 b0 b1 b2 /\
    t1 - t2 = toom3_c3 a0 a1 a2 b0 b1 b2.
Proof.
  intros mulrec a0 a1 a2 b0 b1 b2 Hm p vm1 t1 t2.
  pose proof (toom3_eval_v0 mulrec Hm a0 a1 a2 b0 b1 b2) as E0.
  pose proof (toom3_eval_v1 mulrec Hm a0 a1 a2 b0 b1 b2) as E1.
  pose proof (toom3_eval_v2 mulrec Hm a0 a1 a2 b0 b1 b2) as E2.
  pose proof (toom3_eval_vm1 mulrec Hm a0 a1 a2 b0 b1 b2) as Em.
  pose proof (toom3_eval_vinf mulrec Hm a0 a1 a2 b0 b1 b2) as Ei.
  fold p in E0, E1, E2, Em, Ei.
  set (c0 := toom3_c0 a0 a1 a2 b0 b1 b2) in *.
  set (c1 := toom3_c1 a0 a1 a2 b0 b1 b2) in *.
  set (c2 := toom3_c2 a0 a1 a2 b0 b1 b2) in *.
  set (c3 := toom3_c3 a0 a1 a2 b0 b1 b2) in *.
  set (c4 := toom3_c4 a0 a1 a2 b0 b1 b2) in *.
  assert (S6 : 3 * pt_v0 p + 2 * vm1 + pt_v2 p = (c0 + c2 + c3 + 3 * c4) * 6).
  { unfold vm1, toom3_vm1_signed. rewrite E0, E2, Em. ring. }
  assert (S2 : pt_v1 p + vm1 = (c0 + c2 + c4) * 2).
  { unfold vm1, toom3_vm1_signed. rewrite E1, Em. ring. }
  unfold t1, t2. rewrite S6, S2, !Z.div_mul by lia.
  rewrite E0, E1, Ei.
  repeat split; try ring.
  - exists (c0 + c2 + c3 + 3 * c4). reflexivity.
  - exists (c0 + c2 + c4). reflexivity.
Qed.

(* When rr2 = 2r <= k + 1 the code adds only the low k + 2r limbs of v2 (which then holds
   c3) at c + 3k: mpn_add_n (c3, c3, v2, k + rr2).  Nothing is dropped: c3 < B^(k + 2r). *)
Lemma toom3_c3_fits :
  forall k r a0 a1 a2 b0 b1 b2,
    1 <= r <= k ->
    0 <= a0 < Bpow k -> 0 <= a1 < Bpow k -> 0 <= a2 < Bpow r ->
    0 <= b0 < Bpow k -> 0 <= b1 < Bpow k -> 0 <= b2 < Bpow r ->
    0 <= toom3_c3 a0 a1 a2 b0 b1 b2 < Bpow (k + 2 * r).
Proof.
  intros k r a0 a1 a2 b0 b1 b2 Hr Ha0 Ha1 Ha2 Hb0 Hb1 Hb2.
  unfold toom3_c3.
  rewrite (Bpow_add k (2 * r)), (Bpow_double r) by lia.
  assert (H2 : 2 <= Bpow r).
  { apply Z.le_trans with (Bpow 1); [vm_compute; discriminate | apply Bpow_le; lia]. }
  assert (Hk : 0 < Bpow k) by (apply Bpow_pos; lia).
  set (t := Bpow k) in *. set (u := Bpow r) in *.
  assert (a1 * b2 <= (t - 1) * (u - 1)) by (apply Z.mul_le_mono_nonneg; lia).
  assert (a2 * b1 <= (u - 1) * (t - 1)) by (apply Z.mul_le_mono_nonneg; lia).
  assert (0 <= a1 * b2) by (apply Z.mul_nonneg_nonneg; lia).
  assert (0 <= a2 * b1) by (apply Z.mul_nonneg_nonneg; lia).
  assert (2 * (t * u) <= t * (u * u)).
  { replace (2 * (t * u)) with ((t * u) * 2) by ring.
    replace (t * (u * u)) with ((t * u) * u) by ring.
    apply Z.mul_le_mono_nonneg_l; [apply Z.mul_nonneg_nonneg; lia | lia]. }
  split; [lia |]. nia.
Qed.
