(* RandDefs.v — models behind C19.
   (1) the Mersenne Twister of randmt.c: buffer recalculation, tempering, bit extraction for 64-bit limbs;
   (2) the linear congruential generator of randlc2x.c: X <- a X + c mod 2^m, the high half of each X
       concatenated for long requests;
   (3) the functions built on a generator (any generator: a section variable): urandomb, urandomm with
       its rejection loop, the _ui variants, mpn_randomb, rrandomb / mpn_rrandom, mpf_urandomb.
   Definitions only. *)
From Coq Require Import ZArith List Bool.
From Mpir Require Import Word.
Import ListNotations.
Local Open Scope Z_scope.

(* ---------------- (1) Mersenne Twister ---------------- *)
Record mt_state := mkmt { mt_buf : list Z; mt_i : Z }.
Definition mt_wf (N : Z) (st : mt_state) : Prop :=
  Z.of_nat (length (mt_buf st)) = N /\ Forall (fun w => 0 <= w < 2 ^ 32) (mt_buf st) /\ 0 <= mt_i st.
Fixpoint upd (l : list Z) (i : nat) (v : Z) : list Z :=
  match l, i with
  | [], _ => []
  | _ :: r, O => v :: r
  | x :: r, S j => x :: upd r j v
  end.
Definition nthz (l : list Z) (i : Z) : Z := nth (Z.to_nat i) l 0.
(* y = (upper bit of a) | (lower 31 bits of b);  m ^ (y >> 1) ^ (y odd ? MATRIX_A : 0) *)
Definition mt_twist (matrix_a a b m : Z) : Z :=
  let y := Z.lor (Z.land a 2147483648) (Z.land b 2147483647) in
  Z.lxor (Z.lxor m (Z.shiftr y 1)) (if Z.odd y then matrix_a else 0).
(* __gmp_mt_recalc_buffer: in place, entry kk from entries kk, kk+1 and kk+M (mod N): the entries at
   kk+M-N and 0 used late in the sweep have already been replaced *)
Definition mt_recalc (N M matrix_a : Z) (mt : list Z) : list Z :=
  fold_left (fun mt k =>
      let kk := Z.of_nat k in
      let src := if kk <? N - M then kk + M else if kk <? N - 1 then kk - (N - M) else M - 1 in
      upd mt k (mt_twist matrix_a (nthz mt kk) (nthz mt ((kk + 1) mod N)) (nthz mt src)))
    (seq 0 (Z.to_nat N)) mt.
Definition mt_temper (mask1 mask2 y : Z) : Z :=
  let y := Z.lxor y (Z.shiftr y 11) in
  let y := Z.lxor y (Z.land (Z.land (Z.shiftl y 7) 4294967295) mask1) in
  let y := Z.lxor y (Z.land (Z.land (Z.shiftl y 15) 4294967295) mask2) in
  Z.lxor y (Z.shiftr y 18).
Section MT.
Variables (N M matrix_a mask1 mask2 : Z).
Definition mt_next (st : mt_state) : Z * mt_state :=
  let st := if N <=? mt_i st then mkmt (mt_recalc N M matrix_a (mt_buf st)) 0 else st in
  (mt_temper mask1 mask2 (nthz (mt_buf st) (mt_i st)), mkmt (mt_buf st) (mt_i st + 1)).
(* k successive 32-bit outputs, least significant first, as one number *)
Fixpoint mt_words (k : nat) (st : mt_state) : Z * mt_state :=
  match k with
  | O => (0, st)
  | S k' => let '(y, st1) := mt_next st in let '(r, st2) := mt_words k' st1 in (y + 2 ^ 32 * r, st2)
  end.
(* __gmp_randget_mt for 64-bit limbs: two outputs per whole limb; for the last rbits bits one output
   (masked if rbits < 32) or two (the second masked to rbits - 32 bits) *)
Definition randget_mt (st : mt_state) (nbits : Z) : Z * mt_state :=
  let nlimbs := nbits / 64 in let rbits := nbits mod 64 in
  let '(lo, st1) := mt_words (Z.to_nat (2 * nlimbs)) st in
  if rbits =? 0 then (lo, st1)
  else if rbits <? 32 then
    let '(y, st2) := mt_next st1 in (lo + 2 ^ (64 * nlimbs) * (y mod 2 ^ rbits), st2)
  else
    let '(y, st2) := mt_next st1 in
    if 32 <? rbits then
      let '(y2, st3) := mt_next st2 in (lo + 2 ^ (64 * nlimbs) * (y + 2 ^ 32 * (y2 mod 2 ^ (rbits - 32))), st3)
    else (lo + 2 ^ (64 * nlimbs) * y, st2).
End MT.

(* ---------------- (2) linear congruential, modulus 2^m ---------------- *)
Record lc_state := mklc { lc_x : Z; lc_a : Z; lc_c : Z; lc_m : Z }.
(* gmp_randinit_lc_2exp: a reduced mod 2^m, seed 1;  randseed_lc: seed mod 2^m *)
Definition lc_init (a c m : Z) : lc_state := mklc 1 (a mod 2 ^ m) c m.
Definition lc_seed (st : lc_state) (seed : Z) : lc_state := mklc (seed mod 2 ^ lc_m st) (lc_a st) (lc_c st) (lc_m st).
(* lc (): next X, and its high part X >> (m / 2): (m + 1) / 2 valid bits *)
Definition lc_step (st : lc_state) : Z * lc_state :=
  let x := (lc_a st * lc_x st + lc_c st) mod 2 ^ lc_m st in
  (x / 2 ^ (lc_m st / 2), mklc x (lc_a st) (lc_c st) (lc_m st)).
Definition lc_chunk (st : lc_state) : Z := (lc_m st + 1) / 2.
(* randget_lc: whole chunks while they fit, then the low bits of one more *)
Fixpoint lc_collect (fuel : nat) (st : lc_state) (pos nbits acc : Z) : Z * lc_state :=
  match fuel with
  | O => (acc, st)
  | S f =>
      if nbits <=? pos then (acc, st)
      else let '(v, st') := lc_step st in
           lc_collect f st' (pos + lc_chunk st) nbits (acc + 2 ^ pos * v)
  end.
Definition randget_lc (st : lc_state) (nbits : Z) : Z * lc_state :=
  let '(r, st') := lc_collect (S (Z.to_nat nbits)) st 0 nbits 0 in (r mod 2 ^ nbits, st').
(* the high parts of the next k values of the recurrence *)
Fixpoint lc_highs (k : nat) (st : lc_state) : list Z :=
  match k with O => [] | S k' => let '(v, st') := lc_step st in v :: lc_highs k' st' end.
(* little-endian digits in base 2^w *)
Definition cat_le (w : Z) (l : list Z) : Z := fold_right (fun d acc => d + 2 ^ w * acc) 0 l.
(* gmp_randinit_lc_2exp_size: the first scheme with m / 2 >= size *)
Definition lc_pick (schemes : list (Z * Z * Z)) (size : Z) : option (Z * Z * Z) :=
  find (fun s => size <=? fst (fst s) / 2) schemes.

(* ---------------- (3) functions over any generator ---------------- *)
Section Over.
Variable St : Type.
Variable get : St -> Z -> Z * St.        (* nbits -> a value below 2^nbits and the next state *)

Definition urandomb (st : St) (nbits : Z) : Z * St := get st nbits.
Definition bitlen (n : Z) : Z := if n =? 0 then 0 else Z.log2 n + 1.
Definition pow2_p (n : Z) : bool := n =? 2 ^ Z.log2 n.
(* the rejection loop; None = fuel exhausted (no bound in mpz_urandomm / mpn_urandomm) *)
Fixpoint reject_loop (fuel : nat) (st : St) (nbits n : Z) : option (Z * St) :=
  match fuel with
  | O => None
  | S f => let '(r, st') := get st nbits in if r <? n then Some (r, st') else reject_loop f st' nbits n
  end.
(* mpz_urandomm: nbits = bit length of n, one less for a power of two; n = 1 draws nothing *)
Definition mpz_urandomm (fuel : nat) (st : St) (n : Z) : option (Z * St) :=
  let n := Z.abs n in
  let nbits := bitlen n - (if pow2_p n then 1 else 0) in
  if nbits =? 0 then Some (0, st) else reject_loop fuel st nbits n.
(* mpn_urandomm: always the full bit length *)
Definition mpn_urandomm (fuel : nat) (st : St) (n : Z) : option (Z * St) := reject_loop fuel st (bitlen n) n.
Definition urandomb_ui (st : St) (bits : Z) : Z * St := get st (Z.min bits 64).
(* gmp_urandomm_ui: at most 80 draws, then the last one minus n *)
Fixpoint urandomm_ui_loop (k : nat) (st : St) (bits n last : Z) : Z * St :=
  match k with
  | O => (last - n, st)
  | S k' => let '(r, st') := get st bits in if r <? n then (r, st') else urandomm_ui_loop k' st' bits n r
  end.
Definition urandomm_ui (st : St) (n : Z) : Z * St :=
  urandomm_ui_loop 80 st (bitlen n - (if pow2_p n then 1 else 0)) n 0.
(* mpn_randomb: n limbs, the top limb redrawn until non-zero *)
Fixpoint redraw_top (fuel : nat) (st : St) (lo : Z) (n : Z) (top : Z) : option (Z * St) :=
  match fuel with
  | O => None
  | S f => if top =? 0 then let '(t, st') := get st 64 in redraw_top f st' lo n t
           else Some (lo + 2 ^ (64 * (n - 1)) * top, st)
  end.
Definition mpn_randomb (fuel : nat) (st : St) (n : Z) : option (Z * St) :=
  let '(r, st') := get st (64 * n) in
  redraw_top fuel st' (r mod 2 ^ (64 * (n - 1))) n (r / 2 ^ (64 * (n - 1))).
(* gmp_rrandomb: start from nbits ones; run lengths 1 + r mod cap; alternately clear (xor) and restore (add) *)
Fixpoint rr_loop (fuel : nat) (st : St) (x bi cap : Z) : Z * St :=
  match fuel with
  | O => (x, st)
  | S f =>
      let '(r, st1) := get st 32 in
      let chunk := 1 + r mod cap in
      let bi := if bi <? chunk then 0 else bi - chunk in
      if bi =? 0 then (x, st1)
      else
        let x := Z.lxor x (2 ^ bi) in
        let '(r2, st2) := get st1 32 in
        let chunk2 := 1 + r2 mod cap in
        let bi := if bi <? chunk2 then 0 else bi - chunk2 in
        let x := x + 2 ^ bi in
        if bi =? 0 then (x, st2) else rr_loop f st2 x bi cap
  end.
Definition rrandomb (st : St) (nbits : Z) : Z * St :=
  if nbits =? 0 then (0, st)
  else
    let '(r, st1) := get st 32 in
    let cap := nbits / (r mod 4 + 1) in
    let cap := if cap =? 0 then 1 else cap in
    rr_loop (S (Z.to_nat nbits)) st1 (2 ^ nbits - 1) nbits cap.
(* mpn_rrandom: a random start position in the top limb *)
Definition mpn_rrandom (st : St) (n : Z) : Z * St :=
  let '(r, st1) := get st 32 in rrandomb st1 (64 * n - r mod 64).
(* mpf_urandomb into a variable of precision prec limbs: (mantissa as an integer of nl limbs, nl, exponent);
   the value is mantissa / 2^(64 nl) * 2^(64 exp') ... see ApiRand *)
Definition mpf_urandomb (st : St) (prec nbits : Z) : Z * Z * St :=
  let nl0 := (nbits + 63) / 64 in
  let '(nl, nbits) := if (prec + 1 <? nl0) || (nl0 =? 0) then (prec + 1, 64 * (prec + 1)) else (nl0, nbits) in
  let '(r, st') := get st nbits in
  let m := if nbits mod 64 =? 0 then r else r * 2 ^ (64 - nbits mod 64) in
  (m, nl, st').
End Over.
