(* SbDivDefs.v -- value-level model of mpn_sb_div_qr (mpn/generic/sb_div_qr.c), MPIR's
   schoolbook division of an nn-limb numerator by a normalised dn-limb divisor with the
   Moeller-Granlund 3-by-2 quotient-limb estimate, transcribed statement by statement.
   Definitions only; the proofs are in SbDivProofs.v.

   Conventions (those of DcDivDefs.v)
   ----------------------------------
   A limb block {p, k} is modelled by its value, an integer in [0, B^k), B = 2^64 = Bp 1,
   B^k = Bp k.  Scalar limb variables of the C function (n1, n0, q, cy, cy2) are integers
   reduced mod 2^64 (Word.wrap) wherever the C code could wrap around.

   The C function   mp_limb_t mpn_sb_div_qr (qp, np, nn, dp, dn, dinv)
     ASSERT (dn > 2); ASSERT (nn >= dn); ASSERT (top bit of dp[dn-1] set);
     np : nn limbs, numerator N; on exit the low dn limbs hold the remainder;
     dp : dn limbs, divisor D;
     qp : nn - dn limbs, receives the quotient; the return value qh (0 or 1) is the next
          quotient limb;
     dinv : the 3/2 inverse of (dp[dn-1], dp[dn-2]), computed by the callers with
          mpir_invert_pi1 (dinv, dp[dn-1], dp[dn-2])  (DivDefs.invert_pi1).

   Addressing.  The code advances np to the end, then keeps np two limbs below the top of the
   current partial remainder and offsets dn by 2 (dn' = dn - 2).  At the head of the loop
   body for the counter value i (i = nn - dn, ..., 1), after `np--`, np points at limb
   j = i + dn - 3 of the numerator area and
       limb j + 2                 is NOT read from memory: it lives in the variable n1;
       np[1]   = limb j + 1 = i + dn - 2
       np[0]   = limb j     = i + dn - 3
       np - dn' = limb i - 1       the limb that enters the window in this iteration; it
                                   still holds the original numerator limb (all earlier
                                   stores were to limbs >= i).
   State of the model between iterations:
       n1 : the C variable n1 (top limb of the partial remainder)
       T  : the dn - 1 limbs of memory below it, {np - dn' + 1, dn - 1} before np--
            = limbs i .. i + dn - 2;  np[1] = T / B^(dn-2),  np[0] = (T / B^(dn-3)) mod B
            (here dn > 2 is used: np[0] is a limb of T)
       Q  : the quotient limbs stored so far (limbs i .. nn - dn - 1 of qp).
   The partial remainder is n1 * B^(dn-1) + T.  After the loop `np[1] = n1` writes n1 to limb
   dn - 1, so {np, dn} = n1 * B^(dn-1) + T is the remainder. *)
From Coq Require Import ZArith Bool.
From Mpir Require Import DcDivDefs Word DivDefs.
Local Open Scope Z_scope.
Local Open Scope bool_scope.

(* cy = mpn_submul_1 (rp, dp, k, q):  {rp,k} - q * {dp,k} = result - cy * B^k, the result is
   stored in {rp,k}, cy (a limb) is returned. *)
Definition mpn_submul_1 (k a d q : Z) : Z * Z :=
  (wrap (- ((a - q * d) / Bp k)), (a - q * d) mod Bp k).

(* sub_333 (sh, sm, sl, ah, am, al, bh, bm, bl): three-limb subtraction with wrap-around
   (longlong.h: subq/sbbq/sbbq, or the generic C macro -- both compute
   <ah,am,al> - <bh,bm,bl> mod B^3). *)
Definition sub_333 (ah am al bh bm bl : Z) : Z * Z * Z :=
  let v := ((ah * B * B + am * B + al) - (bh * B * B + bm * B + bl)) mod (B * B * B) in
  (v / (B * B), (v / B) mod B, v mod B).

(* One execution of the loop body.  x = the numerator limb at np - dn' (limb i - 1).
   Returns (q, n1, T): the quotient limb stored by `*--qp = q` and the new state. *)
Definition sb_step (dn d1 d0 dinv D x n1 T : Z) : Z * Z * Z :=
  let np1 := T / Bp (dn - 2) in                        (* np[1] *)
  let np0 := (T / Bp (dn - 3)) mod B in                (* np[0] *)
  let W := T * B + x in                                (* {np - dn', dn' + 2}: dn limbs *)
  (* if (UNLIKELY (n1 == d1) && np[1] == d0) *)
  if (n1 =? d1) && (np1 =? d0) then
    let q := B - 1 in                                  (* q = GMP_NUMB_MASK; *)
    (* mpn_submul_1 (np - dn, dp, dn + 2, q);   the returned borrow is discarded *)
    let '(_, W') := mpn_submul_1 dn W D q in
    (* n1 = np[1];   the limbs below it are the new T *)
    (q, W' / Bp (dn - 1), W' mod Bp (dn - 1))
  else
    (* udiv_qr_3by2 (q, n1, n0, n1, np[1], np[0], d1, d0, dinv); *)
    let '(q, r1, r0) := udiv_qr_3by2 n1 np1 np0 d1 d0 dinv in
    (* cy2 = mpn_submul_1 (np - dn, dp, dn, q);   the low dn' = dn - 2 limbs *)
    let '(cy2, Wl) := mpn_submul_1 (dn - 2) (W mod Bp (dn - 2)) (D mod Bp (dn - 2)) q in
    (* sub_333 (cy, n1, n0, 0, n1, n0, 0, 0, cy2); *)
    let '(cy, n1', n0') := sub_333 0 r1 r0 0 0 cy2 in
    (* np[0] = n0;   {np - dn', dn' + 1} now reads n0 above the submul result *)
    let M := n0' * Bp (dn - 2) + Wl in
    (* if (UNLIKELY (cy != 0)) *)
    if negb (cy =? 0) then
      (* n1 += d1 + mpn_add_n (np - dn, np - dn, dp, dn + 1);   dn' + 1 = dn - 1 limbs *)
      let '(c, M') := mpn_add_n (dn - 1) M (D mod Bp (dn - 1)) in
      (* q--; *)
      (wrap (q - 1), wrap (n1' + wrap (d1 + c)), M')
    else (q, n1', M).

(* for (i = nn - (dn + 2); i > 0; i--) { np--; body; *--qp = q; }
   `it` is the C counter i; the limb entering the window is limb i - 1 of N and the
   quotient limb is stored at qp[i - 1]. *)
Fixpoint sb_loop (it : nat) (dn d1 d0 dinv D N n1 T Q : Z) {struct it} : Z * Z * Z :=
  match it with
  | O => (n1, T, Q)
  | S it' =>
      let i1 := Z.of_nat it' in                        (* i - 1 *)
      let x := (N / Bp i1) mod B in                    (* np[-dn'] after np-- *)
      let '(q, n1', T') := sb_step dn d1 d0 dinv D x n1 T in
      sb_loop it' dn d1 d0 dinv D N n1' T' (Q + q * Bp i1)
  end.

(* The function with dinv as passed by the caller: (qh, {qp, nn - dn}, {np, dn}). *)
Definition sb_div_qr_pi (nn dn N D dinv : Z) : Z * Z * Z :=
  (* np += nn;  qh = mpn_cmp (np - dn, dp, dn) >= 0; *)
  let top := N / Bp (nn - dn) in                       (* {np - dn, dn} *)
  let qh := if D <=? top then 1 else 0 in
  (* if (qh != 0) mpn_sub_n (np - dn, np - dn, dp, dn); *)
  let top := if qh =? 0 then top else snd (mpn_sub_n dn top D) in
  let d1 := D / Bp (dn - 1) in                         (* d1 = dp[dn - 1]; *)
  (* qp += nn - dn;  dn -= 2; *)
  let d0 := (D / Bp (dn - 2)) mod B in                 (* d0 = dp[dn];  (new dn) *)
  (* np -= 2;  n1 = np[1];   the dn - 1 limbs below are T *)
  let n1 := top / Bp (dn - 1) in
  let T := top mod Bp (dn - 1) in
  let '(n1, T, Q) := sb_loop (Z.to_nat (nn - dn)) dn d1 d0 dinv D N n1 T 0 in
  (* np[1] = n1;  return qh; *)
  (qh, Q, n1 * Bp (dn - 1) + T).

(* ... as called: dinv = mpir_invert_pi1 (dp[dn-1], dp[dn-2]) *)
Definition sb_div_qr (nn dn N D : Z) : Z * Z * Z :=
  sb_div_qr_pi nn dn N D
    (invert_pi1 (D / Bp (dn - 1)) ((D / Bp (dn - 2)) mod B)).

(* the base case of mpn_dc_div_qr_n: nn = 2 m, dn = m; full quotient and remainder *)
Definition sb_basediv (m Nn Dd : Z) : Z * Z :=
  let '(qh, q, r) := sb_div_qr (2 * m) m Nn Dd in (qh * Bp m + q, r).
