(* MpfSubProofs.v — proofs about the bit-exact model of mpf_sub of MpfSubDefs.v.
   Main results, for well-formed operands of ANY lengths and every precision prec >= 1 limbs
   (p = bits_of_prec prec = 64 (prec - 1)):
   - mpf_sub_accurate_sharp (operands not of opposite signs: a true subtraction of magnitudes):
     the result is well formed for prec; |r - (u - v)| < 2^(-p) |u - v| however close u and v are
     (r = 0 iff u = v); r = u - v exactly when every limb below the window of prec + 1 limbs under
     the larger exponent is zero (sub_nothing_lost);
   - corollaries mpf_sub_wf, mpf_sub_exact_when_representable (add_window of MpfAddDefs),
     mpf_sub_accurate (the certificate bound 2^(2-p)), mpf_sub_sign;
   - mpf_sub_full_accurate: the complete function (different signs go to the mpf_add model);
   - Examples for every path; mpf_sub_ex_tight: the bound 2^(-p) is attained up to one bit.
   Structure: every loop of the model has a spec lemma (strip_high_zeros_spec, strip_equal_spec,
   skip_zero_max_spec, strip_max_spec, strip_low_zeros_spec); the three computing paths
   (sub_cancellation_spec, sub_close_spec, sub_general_spec) are specified on values scaled to
   integers by B^(-L) ([vl]); mpf_sub_ordered_spec combines them; diff_reduce relates the scaled
   integers to fnum / fden.  The model is compared with the C function in gen/MpfSubVectors.v. *)
From Coq Require Import ZArith List Lia Bool Psatz.
From Mpir Require Import Word DivDefs MpfDefs MpfProofs MpfAddDefs MpfAddProofs MpfSubDefs.
Import ListNotations.
Local Open Scope Z_scope.

(* ---------- arithmetic helpers ---------- *)

Lemma Bpow_nonneg k : 0 <= B ^ k.
Proof. apply Z.pow_nonneg. pose proof B_pos. lia. Qed.

Lemma Bpow_ge1 k : 0 <= k -> 1 <= B ^ k.
Proof. intros Hk. pose proof (Bpow_pos k Hk). lia. Qed.

Lemma Bpow_lt a b : 0 <= a < b -> B ^ a < B ^ b.
Proof. intros H. pose proof B_ge2. apply Z.pow_lt_mono_r; lia. Qed.

Lemma Bpow_pred a : 1 <= a -> B ^ a = B ^ (a - 1) * B.
Proof. intros Ha. replace a with ((a - 1) + 1) at 1 by lia. apply Bpow_succ. lia. Qed.

(* B * x <= B^a - ... : one limb of head room *)
Lemma Bpow_lt_succ a : 0 <= a -> B ^ a < B ^ (a + 1).
Proof. intros Ha. apply Bpow_lt. lia. Qed.

Lemma div_mod_B M k : 0 <= k ->
  M = (M / B ^ k) * B ^ k + M mod B ^ k /\ 0 <= M mod B ^ k < B ^ k.
Proof.
  intros Hk. pose proof (Bpow_pos k Hk) as HP.
  pose proof B_pos as HB0.
  pose proof (Z.div_mod M (B ^ k) ltac:(lia)). pose proof (Z.mod_pos_bound M (B ^ k) HP). lia.
Qed.

Lemma div_B_bounds M n k : 0 <= k <= n -> 0 <= M < B ^ n -> 0 <= M / B ^ k < B ^ (n - k).
Proof.
  intros Hk [H0 H1]. pose proof (Bpow_pos k ltac:(lia)) as HP.
  pose proof B_pos as HB0.
  split; [apply Z.div_pos; lia|].
  apply Z.div_lt_upper_bound; [exact HP|]. rewrite <- Bpow_add by lia.
  replace (k + (n - k)) with n by lia. exact H1.
Qed.

Lemma mod_le_B M i j : 0 <= i <= j -> M mod B ^ j = 0 -> M mod B ^ i = 0.
Proof.
  intros Hij H. pose proof (Bpow_pos i ltac:(lia)) as Pi.
  pose proof B_pos as HB0.
  assert (PW : 0 < B ^ (j - i)) by (apply Bpow_pos; lia).
  rewrite (Bpow_split j i (j - i)) in H by lia.
  rewrite Z.rem_mul_r in H by lia.
  pose proof (Z.mod_pos_bound M (B ^ i) Pi).
  pose proof (Z.mod_pos_bound (M / B ^ i) (B ^ (j - i)) PW).
  assert (0 <= B ^ i * ((M / B ^ i) mod B ^ (j - i))) by (apply Z.mul_nonneg_nonneg; lia).
  lia.
Qed.

Lemma mod_mod_B M i j : 0 <= i -> 0 <= j -> M mod B ^ j = 0 -> (M mod B ^ i) mod B ^ j = 0.
Proof.
  intros Hi Hj H.
  pose proof B_pos as HB0.
  pose proof (Bpow_pos i Hi) as Pi. pose proof (Bpow_pos j Hj) as Pj.
  destruct (Z_le_gt_dec j i) as [Hle|Hgt].
  - assert (PW : 0 < B ^ (i - j)) by (apply Bpow_pos; lia).
    rewrite (Bpow_split i j (i - j)) by lia.
    rewrite Z.rem_mul_r by lia. rewrite H, Z.add_0_l.
    rewrite Z.mul_comm. apply Z.mod_mul. lia.
  - rewrite (mod_le_B M i j) by (try exact H; lia). apply Z.mod_0_l. lia.
Qed.

(* ---------- the value of a limb vector at a scale ---------- *)

(* {M, n} with its top at exponent e, in units of B^L *)
Definition vl (L M n e : Z) : Z := M * B ^ (e - n - L).

Lemma vl_bound L M n e : 0 <= n -> L <= e - n -> 0 <= M < B ^ n -> 0 <= vl L M n e < B ^ (e - L).
Proof.
  intros Hn HL [H0 H1]. unfold vl.
  pose proof B_pos as HB0.
  pose proof (Bpow_pos (e - n - L) ltac:(lia)) as HS.
  rewrite (Bpow_split (e - L) n (e - n - L)) by lia.
  split; [apply Z.mul_nonneg_nonneg; lia | apply Z.mul_lt_mono_pos_r; assumption].
Qed.

Lemma top_limb_bound M n : 1 <= n -> 0 <= M < B ^ n -> 0 <= top_limb M n < B.
Proof.
  intros Hn HM. unfold top_limb.
  pose proof B_pos as HB0.
  pose proof (div_B_bounds M n (n - 1) ltac:(lia) HM) as H.
  replace (n - (n - 1)) with 1 in H by lia. rewrite Z.pow_1_r in H. exact H.
Qed.

Lemma low_part_bound M n : 1 <= n -> 0 <= low_part M n < B ^ (n - 1).
Proof. intros Hn. unfold low_part. apply Z.mod_pos_bound. apply Bpow_pos. lia. Qed.

Lemma top_low_split M n : 1 <= n -> M = top_limb M n * B ^ (n - 1) + low_part M n.
Proof. intros Hn. unfold top_limb, low_part. apply (div_mod_B M (n - 1)). lia. Qed.

Lemma vl_top L M n e : 1 <= n -> L <= e - n ->
  vl L M n e = top_limb M n * B ^ (e - 1 - L) + vl L (low_part M n) (n - 1) (e - 1).
Proof.
  intros Hn HL. unfold vl.
  pose proof B_pos as HB0.
  rewrite (top_low_split M n Hn) at 1.
  replace (e - 1 - (n - 1) - L) with (e - n - L) by lia.
  rewrite (Bpow_split (e - 1 - L) (n - 1) (e - n - L)) by lia. ring.
Qed.

(* a non-zero top limb *)
Lemma top_limb_pos_lower M n : 1 <= n -> 0 <= M -> 1 <= top_limb M n -> B ^ (n - 1) <= M.
Proof.
  intros Hn HM Ht. pose proof (top_low_split M n Hn) as E.
  pose proof B_pos as HB0.
  pose proof (low_part_bound M n Hn) as Hl.
  pose proof (Bpow_pos (n - 1) ltac:(lia)) as HP.
  assert (1 * B ^ (n - 1) <= top_limb M n * B ^ (n - 1)) by (apply Z.mul_le_mono_nonneg_r; lia).
  lia.
Qed.

Lemma top_limb_of_lower M n : 1 <= n -> B ^ (n - 1) <= M -> 1 <= top_limb M n.
Proof.
  intros Hn HM. unfold top_limb. pose proof (Bpow_pos (n - 1) ltac:(lia)) as HP.
  pose proof B_pos as HB0.
  apply Z.div_le_lower_bound; lia.
Qed.

(* "limbs below position c are zero" for a vector with bottom position b *)
Definition lz (M b c : Z) : Prop := M mod B ^ (Z.max 0 (c - b)) = 0.

Lemma lz_mono M b c c' : c' <= c -> lz M b c -> lz M b c'.
Proof. unfold lz. intros Hc H. apply (mod_le_B M _ (Z.max 0 (c - b))); [lia | exact H]. Qed.

Lemma lz_low M b c i : 0 <= i -> lz M b c -> lz (M mod B ^ i) b c.
Proof. unfold lz. intros Hi H. apply mod_mod_B; [lia | lia | exact H]. Qed.

Lemma lz_below M b c : c <= b -> lz M b c.
Proof. unfold lz. intros H. rewrite Z.max_l by lia. change (B ^ 0) with 1. apply Z.mod_1_r. Qed.

(* ---------- truncation at the bottom ---------- *)

Lemma top_limbs_shape M n K :
  top_limbs M n K = (M / B ^ (Z.max 0 (n - K)), n - Z.max 0 (n - K)).
Proof.
  unfold top_limbs. destruct (Z.ltb_spec K n) as [H|H].
  - rewrite Z.max_r by lia. f_equal. lia.
  - rewrite Z.max_l by lia. change (B ^ 0) with 1. rewrite Z.div_1_r. f_equal. lia.
Qed.

Lemma v_trunc_shape K d M n :
  v_trunc K d M n = (M / B ^ (Z.max 0 (n + d - K)), n - Z.max 0 (n + d - K)).
Proof.
  unfold v_trunc. destruct (Z.ltb_spec K (n + d)) as [H|H].
  - rewrite Z.max_r by lia. f_equal. lia.
  - rewrite Z.max_l by lia. change (B ^ 0) with 1. rewrite Z.div_1_r. f_equal. lia.
Qed.

(* cutting the k low limbs of {M, n}: the value drops by delta, 0 <= delta, delta = 0 when the cut
   limbs are zero, and delta is below one unit of the cut position *)
Lemma vl_cut L M n e k : 0 <= k -> L <= e - n -> 0 <= M ->
  exists delta,
    vl L (M / B ^ k) (n - k) e = vl L M n e - delta
    /\ 0 <= delta
    /\ (M mod B ^ k = 0 -> delta = 0)
    /\ (k = 0 -> delta = 0)
    /\ delta < B ^ (e - n + k - L).
Proof.
  intros Hk HL HM. unfold vl.
  pose proof B_pos as HB0.
  destruct (div_mod_B M k Hk) as [E [R0 R1]].
  pose proof (Bpow_pos (e - n - L) ltac:(lia)) as HS.
  exists ((M mod B ^ k) * B ^ (e - n - L)).
  replace (e - (n - k) - L) with (k + (e - n - L)) by lia.
  rewrite Bpow_add by lia.
  split; [rewrite E at 2; ring|].
  split; [apply Z.mul_nonneg_nonneg; lia|].
  split; [intros ->; ring|].
  split; [intros ->; change (B ^ 0) with 1; rewrite Z.mod_1_r; ring|].
  replace (e - n + k - L) with (k + (e - n - L)) by lia. rewrite Bpow_add by lia.
  apply Z.mul_lt_mono_pos_r; lia.
Qed.

(* ---------- stripping high zero limbs; normalize; done ---------- *)

Lemma top_limb_zero_iff M n : 1 <= n -> 0 <= M < B ^ n -> (top_limb M n = 0 <-> M < B ^ (n - 1)).
Proof.
  intros Hn HM. pose proof (top_low_split M n Hn) as E.
  pose proof B_pos as HB0.
  pose proof (low_part_bound M n Hn) as Hl.
  pose proof (top_limb_bound M n Hn HM) as Ht.
  pose proof (Bpow_pos (n - 1) ltac:(lia)) as HP.
  split.
  - intros Hz. rewrite Hz in E. lia.
  - intros Hlt. destruct (Z.eq_dec (top_limb M n) 0) as [H|H]; [exact H|]. exfalso.
    assert (1 * B ^ (n - 1) <= top_limb M n * B ^ (n - 1)) by (apply Z.mul_le_mono_nonneg_r; lia).
    lia.
Qed.

Lemma nlimbs_zero : nlimbs 0 = 0.
Proof. reflexivity. Qed.

Lemma nlimbs_le M n : 0 <= n -> 0 <= M < B ^ n -> nlimbs M <= n.
Proof.
  intros Hn [H0 H1]. destruct (Z.eq_dec M 0) as [->|NZ]; [rewrite nlimbs_zero; lia|].
  pose proof B_pos as HB0.
  assert (HM : 0 < M) by lia.
  destruct (nlimbs_spec M HM) as [Hlo _].
  destruct (Z_le_gt_dec (nlimbs M) n) as [H|H]; [exact H|]. exfalso.
  assert (B ^ n <= B ^ (nlimbs M - 1)) by (apply Bpow_le; lia). lia.
Qed.

Lemma strip_high_zeros_spec fuel M n e :
  0 <= n -> n <= Z.of_nat fuel -> 0 <= M < B ^ n ->
  strip_high_zeros fuel M n e = (nlimbs M, e - (n - nlimbs M)).
Proof.
  revert n e. induction fuel as [|f IH]; intros n e Hn Hf HM.
  pose proof B_pos as HB0.
  - assert (n = 0) by lia. subst n. change (B ^ 0) with 1 in HM.
    assert (M = 0) by lia. subst M. cbn. f_equal. lia.
  - cbn [strip_high_zeros].
    destruct (Z.eqb_spec n 0) as [Hz|Hnz].
    + subst n. change (B ^ 0) with 1 in HM. assert (M = 0) by lia. subst M.
      cbn [negb andb]. rewrite nlimbs_zero. f_equal. lia.
    + cbn [negb andb].
      assert (Hn1 : 1 <= n) by lia.
      destruct (Z.eqb_spec (top_limb M n) 0) as [Ht|Ht].
      * apply (top_limb_zero_iff M n Hn1 HM) in Ht.
        rewrite IH by lia. f_equal. lia.
      * assert (Hge : B ^ (n - 1) <= M).
        { destruct (Z_lt_le_dec M (B ^ (n - 1))) as [Hlt|Hge]; [|exact Hge].
          apply (top_limb_zero_iff M n Hn1 HM) in Hlt. contradiction. }
        pose proof (Bpow_pos (n - 1) ltac:(lia)) as HP.
        rewrite (nlimbs_unique M n) by lia. f_equal. lia.
Qed.

(* the shape of every non-zero result: sign, mantissa with its limb count, bottom position, value *)
Definition repr (prec L : Z) (neg : bool) (Rv : Z) (r : mpf) : Prop :=
  0 < fM r /\ fn r = nlimbs (fM r) /\ fn r <= prec + 1 /\ fneg r = neg
  /\ L <= fexp r - fn r /\ fM r * B ^ (fexp r - fn r - L) = Rv.

Lemma repr_intro prec L neg Rv m n e :
  0 < m -> n = nlimbs m -> n <= prec + 1 -> L <= e - n -> m * B ^ (e - n - L) = Rv ->
  repr prec L neg Rv (mkf neg m n e).
Proof. intros H1 H2 H3 H4 H5. unfold repr. cbn [fM fn fexp fneg]. repeat split; assumption. Qed.

Lemma sub_normalize_spec prec L neg tp rs e :
  0 <= rs -> rs <= prec + 1 -> L <= e - rs -> 0 < tp < B ^ rs ->
  repr prec L neg (vl L tp rs e) (sub_normalize neg tp rs e).
Proof.
  intros Hrs Hrp HL [H0 H1]. unfold sub_normalize.
  pose proof B_pos as HB0.
  rewrite (strip_high_zeros_spec _ tp rs e Hrs) by lia.
  pose proof (nlimbs_pos tp H0) as Hn1.
  pose proof (nlimbs_le tp rs Hrs ltac:(lia)) as Hn2.
  unfold sub_done. destruct (Z.eqb_spec (nlimbs tp) 0) as [Hc|_]; [lia|].
  apply repr_intro; [exact H0 | reflexivity | lia | lia |].
  unfold vl. f_equal. f_equal. lia.
Qed.

(* ---------- cancellation: the rest {M, n} of one operand is the result ---------- *)

Lemma sub_cancellation_zero prec neg n e :
  1 <= prec -> 0 <= n -> sub_cancellation prec neg 0 n e = mkf false 0 0 0.
Proof.
  intros Hp Hn. unfold sub_cancellation.
  pose proof B_pos as HB0.
  rewrite (strip_high_zeros_spec _ 0 n e Hn) by (pose proof (Bpow_pos n Hn); lia).
  rewrite nlimbs_zero. rewrite top_limbs_shape.
  unfold sub_done. destruct (Z.eqb_spec (0 - Z.max 0 (0 - (prec + 1))) 0) as [_|Hc]; [reflexivity|lia].
Qed.

Lemma sub_cancellation_spec prec L neg M n e :
  1 <= prec -> 0 <= n -> L <= e - n -> 0 < M < B ^ n ->
  exists delta,
    repr prec L neg (vl L M n e - delta) (sub_cancellation prec neg M n e)
    /\ 0 <= delta /\ delta * B ^ (prec - 1) < vl L M n e
    /\ (lz M (e - n) (e - (prec + 1)) -> delta = 0).
Proof.
  intros Hp Hn HL [H0 H1]. unfold sub_cancellation.
  pose proof B_pos as HB0.
  rewrite (strip_high_zeros_spec _ M n e Hn) by lia.
  pose proof (nlimbs_pos M H0) as Hn1.
  pose proof (nlimbs_le M n Hn ltac:(lia)) as Hn2.
  destruct (nlimbs_spec M H0) as [Hlo Hhi].
  set (n1 := nlimbs M) in *. set (e1 := e - (n - n1)).
  rewrite top_limbs_shape.
  set (k := Z.max 0 (n1 - (prec + 1))).
  assert (Hk : 0 <= k) by (unfold k; lia).
  assert (Hkn : k <= n1 - 1) by (unfold k; lia).
  destruct (vl_cut L M n1 e1 k Hk ltac:(unfold e1; lia) ltac:(lia)) as (delta & Ev & D0 & Dz & Dk & Dlt).
  assert (Evl : vl L M n1 e1 = vl L M n e) by (unfold vl, e1; f_equal; f_equal; lia).
  rewrite Evl in Ev.
  exists delta.
  pose proof (div_B_bounds M n1 k ltac:(lia) ltac:(lia)) as [Q0 Q1].
  assert (Qlo : B ^ (n1 - k - 1) <= M / B ^ k).
  { apply Z.div_le_lower_bound; [apply Bpow_pos; lia|].
    rewrite <- Bpow_add by lia. replace (k + (n1 - k - 1)) with (n1 - 1) by lia. exact Hlo. }
  pose proof (Bpow_pos (n1 - k - 1) ltac:(lia)) as PQ.
  unfold sub_done. destruct (Z.eqb_spec (n1 - k) 0) as [Hc|_]; [lia|].
  split.
  { apply repr_intro; [lia | symmetry; apply nlimbs_unique; [lia | split; assumption]
                       | unfold k; lia | unfold e1; lia |].
    rewrite <- Ev. reflexivity. }
  split; [exact D0|].
  split.
  { (* delta < B^(e1 - n1 + k - L); the value is at least B^(n1 - 1) B^(e1 - n1 - L) *)
    destruct (Z.eq_dec k 0) as [Hk0|Hk0].
    - rewrite (Dk Hk0). rewrite Z.mul_0_l. unfold vl.
      apply Z.mul_pos_pos; [lia | apply Bpow_pos; lia].
    - assert (Hkk : k = n1 - (prec + 1)) by (unfold k; lia).
      assert (T1 : delta * B ^ (prec - 1) < B ^ (e1 - n1 + k - L) * B ^ (prec - 1)).
      { apply Z.mul_lt_mono_pos_r; [apply Bpow_pos; lia | exact Dlt]. }
      rewrite <- Bpow_add in T1 by (unfold e1; lia).
      assert (T2 : B ^ (e1 - n1 + k - L + (prec - 1)) <= B ^ (n1 - 1) * B ^ (e - n - L)).
      { rewrite <- Bpow_add by lia. apply Bpow_le. unfold e1. lia. }
      assert (T3 : B ^ (n1 - 1) * B ^ (e - n - L) <= vl L M n e).
      { unfold vl. apply Z.mul_le_mono_nonneg_r; [apply Bpow_nonneg | exact Hlo]. }
      lia. }
  intros Hz. apply Dz. unfold lz in Hz.
  apply (mod_le_B M k (Z.max 0 (e - (prec + 1) - (e - n)))); [unfold k; lia | exact Hz].
Qed.

(* ---------- the near-cancellation path ---------- *)

Lemma mod_mod_small M i j : 0 <= i <= j -> (M mod B ^ j) mod B ^ i = M mod B ^ i.
Proof.
  intros Hij. pose proof B_pos as HB0.
  pose proof (Bpow_pos i ltac:(lia)) as Pi.
  assert (PW : 0 < B ^ (j - i)) by (apply Bpow_pos; lia).
  rewrite (Bpow_split j i (j - i)) by lia.
  rewrite Z.rem_mul_r by lia.
  rewrite Z.mul_comm, Z.mod_add by lia. apply Z.mod_mod. lia.
Qed.

Lemma mod_borrow x W : 0 < W -> - W <= x < W -> x mod W = x + (if x <? 0 then 1 else 0) * W.
Proof.
  intros HW Hx. destruct (Z.ltb_spec x 0) as [Hn|Hn].
  - symmetry. apply (Z.mod_unique_pos x W (-1)); lia.
  - rewrite Z.mod_small by lia. lia.
Qed.

(* 1.u - 0.v in units of B^L: the leading 1 sits at exponent e + 1 *)
Definition Xc (L um un vm vn e : Z) : Z := B ^ (e - L) + vl L um un e - vl L vm vn e.

Lemma vl_zero L n e : vl L 0 n e = 0.
Proof. unfold vl. apply Z.mul_0_l. Qed.

Lemma small_zero M : 0 <= M < B ^ 0 -> M = 0.
Proof. change (B ^ 0) with 1. lia. Qed.

Lemma skip_zero_max_spec L fuel : forall um un vm vn e um1 un1 vm1 vn1 e1,
  0 <= un -> un <= Z.of_nat fuel -> 0 <= vn -> 0 <= um < B ^ un -> 0 <= vm < B ^ vn ->
  L <= e - un -> L <= e - vn ->
  skip_zero_max fuel um un vm vn e = (um1, un1, vm1, vn1, e1) ->
  0 <= un1 <= un /\ 0 <= vn1 <= vn /\ 0 <= um1 < B ^ un1 /\ 0 <= vm1 < B ^ vn1
  /\ e1 - un1 = e - un /\ e1 - vn1 = e - vn /\ e1 <= e
  /\ Xc L um1 un1 vm1 vn1 e1 = Xc L um un vm vn e
  /\ um1 = um mod B ^ un1 /\ vm1 = vm mod B ^ vn1
  /\ (un1 = 0 \/ vn1 = 0 \/ top_limb um1 un1 <> 0 \/ top_limb vm1 vn1 <> B - 1).
Proof.
  pose proof B_pos as HB0.
  induction fuel as [|f IH]; intros um un vm vn e um1 un1 vm1 vn1 e1 Hun Hf Hvn Hum Hvm HLu HLv HS.
  - cbn [skip_zero_max] in HS. injection HS as <- <- <- <- <-.
    assert (un = 0) by lia. subst un.
    repeat split; try lia; try (symmetry; apply Z.mod_small; lia).
  - cbn [skip_zero_max] in HS.
    destruct (negb (vn =? 0) && negb (un =? 0) && (top_limb um un =? 0) && (top_limb vm vn =? B - 1))
      eqn:Ec.
    + apply andb_true_iff in Ec. destruct Ec as [Ec Etv].
      apply andb_true_iff in Ec. destruct Ec as [Ec Etu].
      apply andb_true_iff in Ec. destruct Ec as [Ev Eu].
      apply negb_true_iff, Z.eqb_neq in Ev. apply negb_true_iff, Z.eqb_neq in Eu.
      apply Z.eqb_eq in Etu. apply Z.eqb_eq in Etv.
      assert (Hun1 : 1 <= un) by lia. assert (Hvn1 : 1 <= vn) by lia.
      pose proof (low_part_bound um un Hun1) as Blu.
      pose proof (low_part_bound vm vn Hvn1) as Blv.
      destruct (IH (low_part um un) (un - 1) (low_part vm vn) (vn - 1) (e - 1) um1 un1 vm1 vn1 e1
                  ltac:(lia) ltac:(lia) ltac:(lia) Blu Blv ltac:(lia) ltac:(lia) HS)
        as (A1 & A2 & A3 & A4 & A5 & A6 & A7 & A8 & A9 & A10 & A11).
      split; [lia|]. split; [lia|]. split; [exact A3|]. split; [exact A4|].
      split; [lia|]. split; [lia|]. split; [lia|].
      split.
      { rewrite A8. unfold Xc.
        rewrite (vl_top L um un e Hun1 HLu), (vl_top L vm vn e Hvn1 HLv), Etu, Etv.
        rewrite (Bpow_pred (e - L)) by lia. replace (e - L - 1) with (e - 1 - L) by lia. ring. }
      split; [rewrite A9; unfold low_part; apply mod_mod_small; lia|].
      split; [rewrite A10; unfold low_part; apply mod_mod_small; lia|].
      exact A11.
    + injection HS as <- <- <- <- <-.
      split; [lia|]. split; [lia|]. split; [exact Hum|]. split; [exact Hvm|].
      split; [lia|]. split; [lia|]. split; [lia|]. split; [reflexivity|].
      split; [symmetry; apply Z.mod_small; lia|]. split; [symmetry; apply Z.mod_small; lia|].
      destruct (Z.eqb_spec vn 0) as [Hv|Hv]; [right; left; exact Hv|].
      destruct (Z.eqb_spec un 0) as [Hu|Hu]; [left; exact Hu|].
      cbn [negb andb] in Ec.
      destruct (Z.eqb_spec (top_limb um un) 0) as [Ht|Ht]; [|right; right; left; exact Ht].
      cbn [andb] in Ec. apply Z.eqb_neq in Ec. right; right; right. exact Ec.
Qed.

Lemma strip_max_spec L fuel : forall vm vn e vm1 vn1 e1,
  0 <= vn -> vn <= Z.of_nat fuel -> 0 <= vm < B ^ vn -> L <= e - vn ->
  strip_max fuel vm vn e = (vm1, vn1, e1) ->
  0 <= vn1 <= vn /\ 0 <= vm1 < B ^ vn1 /\ e1 - vn1 = e - vn /\ e1 <= e
  /\ B ^ (e1 - L) - vl L vm1 vn1 e1 = B ^ (e - L) - vl L vm vn e
  /\ vm1 = vm mod B ^ vn1
  /\ (vn1 = 0 \/ top_limb vm1 vn1 <> B - 1).
Proof.
  pose proof B_pos as HB0.
  induction fuel as [|f IH]; intros vm vn e vm1 vn1 e1 Hvn Hf Hvm HLv HS.
  - cbn [strip_max] in HS. injection HS as <- <- <-.
    assert (vn = 0) by lia. subst vn.
    repeat split; try lia; try (symmetry; apply Z.mod_small; lia).
  - cbn [strip_max] in HS.
    destruct (negb (vn =? 0) && (top_limb vm vn =? B - 1)) eqn:Ec.
    + apply andb_true_iff in Ec. destruct Ec as [Ev Etv].
      apply negb_true_iff, Z.eqb_neq in Ev. apply Z.eqb_eq in Etv.
      assert (Hvn1 : 1 <= vn) by lia.
      pose proof (low_part_bound vm vn Hvn1) as Blv.
      destruct (IH (low_part vm vn) (vn - 1) (e - 1) vm1 vn1 e1 ltac:(lia) ltac:(lia) Blv ltac:(lia) HS)
        as (A1 & A2 & A3 & A4 & A5 & A6 & A7).
      split; [lia|]. split; [exact A2|]. split; [lia|]. split; [lia|].
      split.
      { rewrite A5. rewrite (vl_top L vm vn e Hvn1 HLv), Etv.
        rewrite (Bpow_pred (e - L)) by lia. replace (e - L - 1) with (e - 1 - L) by lia. ring. }
      split; [rewrite A6; unfold low_part; apply mod_mod_small; lia|].
      exact A7.
    + injection HS as <- <- <-.
      split; [lia|]. split; [exact Hvm|]. split; [lia|]. split; [lia|]. split; [reflexivity|].
      split; [symmetry; apply Z.mod_small; lia|].
      destruct (Z.eqb_spec vn 0) as [Hv|Hv]; [left; exact Hv|].
      cbn [negb andb] in Ec. apply Z.eqb_neq in Ec. right. exact Ec.
Qed.

(* the value after the 00/ff limbs are gone is more than 1/B of the leading 1 *)
Lemma close_lower L um un vm vn e :
  0 <= un -> 0 <= vn -> 0 <= um < B ^ un -> 0 <= vm < B ^ vn -> L <= e - un -> L <= e - vn ->
  (vn = 0 \/ (un = 0 /\ top_limb vm vn <> B - 1)
   \/ (1 <= un /\ (top_limb um un <> 0 \/ top_limb vm vn <> B - 1))) ->
  B ^ (e - L) < Xc L um un vm vn e * B.
Proof.
  intros Hun Hvn Hum Hvm HLu HLv Hex.
  pose proof B_pos as HB0. pose proof B_ge2 as HB2.
  unfold Xc.
  pose proof (vl_bound L um un e Hun HLu Hum) as [U0 U1].
  pose proof (Bpow_pos (e - L) ltac:(lia)) as PE.
  destruct (Z.eq_dec vn 0) as [Zv|NZv].
  { subst vn. rewrite (small_zero vm Hvm), vl_zero.
    set (E := B ^ (e - L)) in *. set (U := vl L um un e) in *.
    assert ((E + U) * 2 <= (E + U) * B) by (apply Z.mul_le_mono_nonneg_l; lia). lia. }
  assert (Hvn1 : 1 <= vn) by lia.
  assert (Hexit : (un = 0 /\ top_limb vm vn <> B - 1)
                  \/ (1 <= un /\ (top_limb um un <> 0 \/ top_limb vm vn <> B - 1))).
  { destruct Hex as [H|H]; [lia | exact H]. }
  clear Hex.
  pose proof (top_limb_bound vm vn Hvn1 Hvm) as Tv.
  pose proof (low_part_bound vm vn Hvn1) as Blv.
  pose proof (vl_bound L (low_part vm vn) (vn - 1) (e - 1) ltac:(lia) ltac:(lia) Blv) as [V0 V1].
  rewrite (vl_top L vm vn e Hvn1 HLv).
  rewrite (Bpow_pred (e - L)) in * by lia. replace (e - L - 1) with (e - 1 - L) in * by lia.
  replace (e - 1 - L) with (e - 1 - L) in V1 by lia.
  pose proof (Bpow_pos (e - 1 - L) ltac:(lia)) as PG.
  set (G := B ^ (e - 1 - L)) in *.
  set (V' := vl L (low_part vm vn) (vn - 1) (e - 1)) in *.
  set (tv := top_limb vm vn) in *.
  destruct Hexit as [[Zu Htv]|[Hun1 Ht]].
  - subst un. rewrite (small_zero um Hum), vl_zero.
    assert (T : (tv + 1) * G <= (B - 1) * G) by (apply Z.mul_le_mono_nonneg_r; lia).
    assert (T2 : G < G * B - tv * G - V') by (clear - T V1; lia).
    assert (T3 : G * B < (G * B - tv * G - V') * B) by (apply Z.mul_lt_mono_pos_r; lia).
    lia.
  - pose proof (top_limb_bound um un Hun1 Hum) as Tu.
    pose proof (low_part_bound um un Hun1) as Blu.
    pose proof (vl_bound L (low_part um un) (un - 1) (e - 1) ltac:(lia) ltac:(lia) Blu) as [W0 W1].
    rewrite (vl_top L um un e Hun1 HLu). fold G.
    set (U' := vl L (low_part um un) (un - 1) (e - 1)) in *.
    set (tu := top_limb um un) in *.
    assert (T : (tv + 1 - tu) * G <= (B - 1) * G) by (apply Z.mul_le_mono_nonneg_r; lia).
    assert (T2 : G < G * B + (tu * G + U') - (tv * G + V')) by (clear - T V1 W0; lia).
    assert (T3 : G * B < (G * B + (tu * G + U') - (tv * G + V')) * B)
      by (apply Z.mul_lt_mono_pos_r; lia).
    lia.
Qed.

Lemma triple_eq (a a' b b' c c' : Z) : a = a' -> b = b' -> c = c' -> (a, b, c) = (a', b', c').
Proof. intros -> -> ->. reflexivity. Qed.

(* the limb vector of the near-cancellation path: in all four layouts it is the integer
   B^n + u B^(n-un) - v B^(n-vn), stored in n or n + 1 limbs *)
Lemma close_layout_spec um un vm vn :
  0 <= un -> 0 <= vn -> 0 <= um < B ^ un -> 0 <= vm < B ^ vn ->
  exists inc, (inc = 0 \/ inc = 1)
    /\ close_layout um un vm vn
       = (B ^ Z.max un vn + um * B ^ (Z.max un vn - un) - vm * B ^ (Z.max un vn - vn),
          Z.max un vn + inc, inc)
    /\ 0 < B ^ Z.max un vn + um * B ^ (Z.max un vn - un) - vm * B ^ (Z.max un vn - vn)
         < B ^ (Z.max un vn + inc).
Proof.
  intros Hun Hvn Hum Hvm.
  pose proof B_pos as HB0. pose proof B_ge2 as HB2.
  unfold close_layout.
  destruct (Z.eqb_spec vn 0) as [Zv|NZv].
  { subst vn. rewrite (small_zero vm Hvm). exists 1. split; [right; reflexivity|].
    rewrite Z.max_l by lia. replace (un - un) with 0 by lia. change (B ^ 0) with 1.
    pose proof (Bpow_pos un Hun) as PU. rewrite (Bpow_succ un Hun).
    assert (B ^ un * 2 <= B ^ un * B) by (apply Z.mul_le_mono_nonneg_l; lia).
    split; [apply triple_eq; [ring | lia | reflexivity] | lia]. }
  destruct (Z.eqb_spec un 0) as [Zu|NZu].
  { subst un. rewrite (small_zero um Hum).
    rewrite Z.max_r by lia. replace (vn - vn) with 0 by lia. change (B ^ 0) with 1.
    pose proof (Bpow_pos vn Hvn) as PV. pose proof (Bpow_succ vn Hvn) as HS.
    assert (B ^ vn * 2 <= B ^ vn * B) by (apply Z.mul_le_mono_nonneg_l; lia).
    replace (B ^ vn - 1 - vm + 1) with (B ^ vn - vm) by ring.
    destruct (Z.eq_dec vm 0) as [Zm|NZm].
    - subst vm. exists 1. split; [right; reflexivity|].
      replace (B ^ vn - 0) with (B ^ vn) by ring.
      rewrite Z.div_same, Z.mod_same by lia. cbn [Z.sub Z.eqb Z.add Z.opp Z.pos_sub].
      rewrite HS. split; [apply triple_eq; [ring | lia | reflexivity] | lia].
    - exists 0. split; [left; reflexivity|].
      rewrite Z.div_small, Z.mod_small by lia. cbn [Z.sub Z.eqb Z.add Z.opp Z.pos_sub].
      split; [apply triple_eq; [ring | lia | reflexivity] | replace (vn + 0) with vn by lia; lia]. }
  assert (Hun1 : 1 <= un) by lia. assert (Hvn1 : 1 <= vn) by lia.
  destruct (Z.leb_spec vn un) as [Hle|Hgt].
  - (* uuuu / vv *)
    rewrite Z.max_l by lia. replace (un - un) with 0 by lia. change (B ^ 0) with 1.
    set (size := un - vn).
    assert (Hsz : 0 <= size) by (unfold size; lia).
    destruct (div_mod_B um size Hsz) as [Edm [R0 R1]].
    pose proof (div_B_bounds um un size ltac:(unfold size; lia) Hum) as [Q0 Q1].
    replace (un - size) with vn in Q1 by (unfold size; lia).
    pose proof (Bpow_pos size Hsz) as PS. pose proof (Bpow_pos vn Hvn) as PV.
    assert (EU : B ^ un = B ^ vn * B ^ size) by (apply Bpow_split; unfold size; lia).
    pose proof (Bpow_succ un Hun) as HS.
    set (uh := um / B ^ size) in *. set (ul := um mod B ^ size) in *.
    rewrite (mod_borrow (uh - vm) (B ^ vn) PV ltac:(lia)).
    destruct (Z.ltb_spec (uh - vm) 0) as [Hb|Hb].
    + exists 0. split; [left; reflexivity|]. cbn [Z.eqb].
      assert (T : (uh - vm + 1 * B ^ vn + 1) * B ^ size <= B ^ vn * B ^ size)
        by (apply Z.mul_le_mono_nonneg_r; lia).
      assert (T0 : 0 <= (uh - vm + 1 * B ^ vn) * B ^ size) by (apply Z.mul_nonneg_nonneg; lia).
      assert (ET : ul + (uh - vm + 1 * B ^ vn) * B ^ size = B ^ un + um * 1 - vm * B ^ size).
      { rewrite Edm, EU. ring. }
      rewrite ET in *. rewrite Z.add_0_r.
      split; [reflexivity|].
      assert (B ^ vn * B ^ size > 0) by lia.
      assert (Hne : ul <> 0 \/ 0 < (uh - vm + 1 * B ^ vn)) by lia.
      assert (T1 : 0 < (uh - vm + 1 * B ^ vn) * B ^ size \/ 0 < ul).
      { destruct (Z.eq_dec (uh - vm + 1 * B ^ vn) 0) as [Hz|Hz]; [right; lia|].
        left. apply Z.mul_pos_pos; lia. }
      rewrite <- ET. rewrite Z.mul_add_distr_r in T. lia.
    + exists 1. split; [right; reflexivity|]. cbn [Z.eqb].
      assert (T : (uh - vm + 1) * B ^ size <= B ^ vn * B ^ size)
        by (apply Z.mul_le_mono_nonneg_r; lia).
      assert (T0 : 0 <= (uh - vm) * B ^ size) by (apply Z.mul_nonneg_nonneg; lia).
      assert (ET : ul + (uh - vm + 0 * B ^ vn) * B ^ size + 1 * B ^ un
                   = B ^ un + um * 1 - vm * B ^ size).
      { rewrite Edm. ring. }
      rewrite ET.
      split; [reflexivity|].
      rewrite <- ET, HS.
      assert (B ^ un * 2 <= B ^ un * B) by (apply Z.mul_le_mono_nonneg_l; lia).
      replace (uh - vm + 0 * B ^ vn) with (uh - vm) by ring.
      rewrite Z.mul_add_distr_r in T. lia.
  - (* uuuu / vvvvvvv *)
    rewrite Z.max_r by lia. replace (vn - vn) with 0 by lia. change (B ^ 0) with 1.
    set (size := vn - un).
    assert (Hsz : 1 <= size) by (unfold size; lia).
    destruct (div_mod_B vm size ltac:(lia)) as [Edm [R0 R1]].
    pose proof (div_B_bounds vm vn size ltac:(unfold size; lia) Hvm) as [Q0 Q1].
    replace (vn - size) with un in Q1 by (unfold size; lia).
    pose proof (Bpow_pos size ltac:(lia)) as PS. pose proof (Bpow_pos un Hun) as PU.
    pose proof (Bpow_pos vn Hvn) as PV.
    assert (EV : B ^ vn = B ^ un * B ^ size) by (apply Bpow_split; unfold size; lia).
    pose proof (Bpow_succ vn Hvn) as HS.
    set (vh := vm / B ^ size) in *. set (vlo := vm mod B ^ size) in *.
    rewrite (mod_borrow (um - vh) (B ^ un) PU ltac:(lia)).
    set (cy1 := if um - vh <? 0 then 1 else 0).
    assert (Hcy1 : (cy1 = 1 /\ um - vh < 0) \/ (cy1 = 0 /\ 0 <= um - vh)).
    { unfold cy1. destruct (Z.ltb_spec (um - vh) 0); [left | right]; split; lia. }
    set (t1 := um - vh + cy1 * B ^ un).
    assert (Ht1 : 0 <= t1 < B ^ un) by (unfold t1; lia).
    rewrite (mod_borrow (t1 - 1) (B ^ un) PU ltac:(lia)).
    set (cy2 := if t1 - 1 <? 0 then 1 else 0).
    assert (Hcy2 : (cy2 = 1 /\ t1 = 0) \/ (cy2 = 0 /\ 1 <= t1)).
    { unfold cy2. destruct (Z.ltb_spec (t1 - 1) 0); [left | right]; split; lia. }
    set (t2 := t1 - 1 + cy2 * B ^ un).
    assert (Ht2 : 0 <= t2 < B ^ un) by (unfold t2; lia).
    set (s := B ^ size - 1 - vlo + t2 * B ^ size + 1).
    assert (Ts : (t2 + 1) * B ^ size <= B ^ un * B ^ size)
      by (apply Z.mul_le_mono_nonneg_r; lia).
    assert (Ts0 : 0 <= t2 * B ^ size) by (apply Z.mul_nonneg_nonneg; lia).
    assert (Hs : 1 <= s <= B ^ vn) by (unfold s; rewrite EV; lia).
    set (T := B ^ vn + um * B ^ size - vm * 1).
    assert (ET : s = T + (cy1 + cy2 - 1) * B ^ vn).
    { unfold s, T, t2, t1. replace (vm * 1) with (vh * B ^ size + vlo) by lia. rewrite EV. ring. }
    assert (TU : 0 <= um * B ^ size) by (apply Z.mul_nonneg_nonneg; lia).
    assert (TU1 : (um + 1) * B ^ size <= B ^ un * B ^ size)
      by (apply Z.mul_le_mono_nonneg_r; lia).
    assert (HT : 0 < T < 2 * B ^ vn) by (unfold T; rewrite EV; lia).
    assert (HB2V : B ^ vn * 2 <= B ^ vn * B) by (apply Z.mul_le_mono_nonneg_l; lia).
    destruct (Z.eq_dec s (B ^ vn)) as [Hfull|Hnf].
    + (* the final increment carries out: cy3 = 1 *)
      rewrite Hfull. rewrite Z.div_same, Z.mod_same by lia.
      assert (Hc : cy1 + cy2 - 1 = 0 \/ cy1 + cy2 - 1 = 1) by lia.
      destruct Hc as [Hc|Hc]; [|exfalso; rewrite Hc in ET; lia].
      replace (cy1 + cy2 - 1) with 0 by lia. cbn [Z.eqb].
      exists 1. split; [right; reflexivity|].
      rewrite Hc in ET. fold T. rewrite HS.
      split; [apply triple_eq; [lia | lia | reflexivity] | lia].
    + rewrite Z.div_small, Z.mod_small by lia. rewrite Z.sub_0_r.
      assert (Hc : cy1 + cy2 = 0 \/ cy1 + cy2 = 1 \/ cy1 + cy2 = 2) by lia.
      destruct Hc as [Hc|[Hc|Hc]]; rewrite Hc in *.
      * cbn [Z.eqb]. exists 1. split; [right; reflexivity|]. fold T. rewrite HS.
        split; [apply triple_eq; [lia | lia | reflexivity] | lia].
      * cbn [Z.eqb]. exists 0. split; [left; reflexivity|]. fold T.
        rewrite Z.add_0_r. split; [apply triple_eq; [lia | lia | reflexivity] | lia].
      * exfalso. lia.
Qed.

Lemma close_layout_spec' um un vm vn :
  0 <= un -> 0 <= vn -> 0 <= um < B ^ un -> 0 <= vm < B ^ vn ->
  exists inc n T, (inc = 0 \/ inc = 1) /\ n = Z.max un vn
    /\ T = B ^ n + um * B ^ (n - un) - vm * B ^ (n - vn)
    /\ close_layout um un vm vn = (T, n + inc, inc) /\ 0 < T < B ^ (n + inc).
Proof.
  intros Hun Hvn Hum Hvm.
  destruct (close_layout_spec um un vm vn Hun Hvn Hum Hvm) as (inc & Hinc & EL & HT).
  exists inc, (Z.max un vn), (B ^ Z.max un vn + um * B ^ (Z.max un vn - un) - vm * B ^ (Z.max un vn - vn)).
  split; [exact Hinc|]. split; [reflexivity|]. split; [reflexivity|]. split; [exact EL | exact HT].
Qed.

(* cutting {M, n} (top at exponent e) at the position c *)
Lemma vl_cut_at L M n e c k :
  0 <= n -> 0 <= M < B ^ n -> L <= e - n -> k = Z.max 0 (c - (e - n)) ->
  exists d,
    vl L (M / B ^ k) (n - k) e = vl L M n e - d
    /\ 0 <= d /\ (M mod B ^ k = 0 -> d = 0)
    /\ (d = 0 \/ (L <= c /\ d < B ^ (c - L)))
    /\ 0 <= M / B ^ k /\ (k <= n -> M / B ^ k < B ^ (n - k)).
Proof.
  intros Hn HM HL Hk.
  pose proof B_pos as HB0.
  assert (Hk0 : 0 <= k) by lia.
  destruct (vl_cut L M n e k Hk0 HL ltac:(lia)) as (d & E & D0 & Dz & Dk & Dlt).
  exists d. split; [exact E|]. split; [exact D0|]. split; [exact Dz|].
  split.
  { destruct (Z.eq_dec k 0) as [Z0|NZ]; [left; apply Dk; exact Z0|].
    right. assert (Ek : e - n + k - L = c - L) by lia. rewrite Ek in Dlt. split; [lia | exact Dlt]. }
  split; [apply Z.div_pos; [lia | apply Bpow_pos; lia]|].
  intros Hkn. apply (div_B_bounds M n k); [lia | exact HM].
Qed.

Lemma abs_diff_lt a b D : 0 <= a < D -> 0 <= b < D -> Z.abs (b - a) < D.
Proof. lia. Qed.

(* two cuts at the same position c against a value X with  B^(c - L) K <= X *)
Lemma cut_err_bound L c K X du dv :
  0 < X -> 0 <= K -> 0 <= du -> 0 <= dv ->
  (du = 0 \/ (L <= c /\ du < B ^ (c - L))) -> (dv = 0 \/ (L <= c /\ dv < B ^ (c - L))) ->
  (L <= c -> B ^ (c - L) * K <= X) ->
  Z.abs (dv - du) * K < X.
Proof.
  intros HX HK Hu0 Hv0 Hu Hv HD.
  pose proof B_pos as HB0.
  destruct (Z.eq_dec du 0) as [Zu|NZu]; destruct (Z.eq_dec dv 0) as [Zv|NZv].
  - subst du dv. cbn. exact HX.
  - assert (HL : L <= c) by lia. specialize (HD HL).
    pose proof (Bpow_pos (c - L) ltac:(lia)) as PD.
    assert (A : Z.abs (dv - du) < B ^ (c - L)) by (apply abs_diff_lt; lia).
    set (D := B ^ (c - L)) in *.
    assert (Z.abs (dv - du) * K <= (D - 1) * K) by (apply Z.mul_le_mono_nonneg_r; lia).
    destruct (Z.eq_dec K 0) as [->|NK]; [rewrite Z.mul_0_r; exact HX|].
    assert ((D - 1) * K < D * K) by (apply Z.mul_lt_mono_pos_r; lia). lia.
  - assert (HL : L <= c) by lia. specialize (HD HL).
    pose proof (Bpow_pos (c - L) ltac:(lia)) as PD.
    assert (A : Z.abs (dv - du) < B ^ (c - L)) by (apply abs_diff_lt; lia).
    set (D := B ^ (c - L)) in *.
    assert (Z.abs (dv - du) * K <= (D - 1) * K) by (apply Z.mul_le_mono_nonneg_r; lia).
    destruct (Z.eq_dec K 0) as [->|NK]; [rewrite Z.mul_0_r; exact HX|].
    assert ((D - 1) * K < D * K) by (apply Z.mul_lt_mono_pos_r; lia). lia.
  - assert (HL : L <= c) by lia. specialize (HD HL).
    pose proof (Bpow_pos (c - L) ltac:(lia)) as PD.
    assert (A : Z.abs (dv - du) < B ^ (c - L)) by (apply abs_diff_lt; lia).
    set (D := B ^ (c - L)) in *.
    assert (Z.abs (dv - du) * K <= (D - 1) * K) by (apply Z.mul_le_mono_nonneg_r; lia).
    destruct (Z.eq_dec K 0) as [->|NK]; [rewrite Z.mul_0_r; exact HX|].
    assert ((D - 1) * K < D * K) by (apply Z.mul_lt_mono_pos_r; lia). lia.
Qed.

Lemma sub_close_spec prec L neg um un vm vn e :
  1 <= prec -> 0 <= un -> 0 <= vn -> 0 <= um < B ^ un -> 0 <= vm < B ^ vn ->
  L <= e - un -> L <= e - vn ->
  exists Rv,
    repr prec L neg Rv (sub_close prec neg um un vm vn e)
    /\ 0 < Xc L um un vm vn e
    /\ Z.abs (Rv - Xc L um un vm vn e) * B ^ (prec - 1) < Xc L um un vm vn e
    /\ (lz um (e - un) (e - prec) -> lz vm (e - vn) (e - prec) -> Rv = Xc L um un vm vn e).
Proof.
  intros Hp Hun Hvn Hum Hvm HLu HLv.
  pose proof B_pos as HB0. pose proof B_ge2 as HB2.
  unfold sub_close.
  destruct (skip_zero_max (Z.to_nat un) um un vm vn e) as [[[[um1 un1] vm1] vn1] e1] eqn:ES.
  destruct (skip_zero_max_spec L (Z.to_nat un) um un vm vn e um1 un1 vm1 vn1 e1 Hun
              ltac:(rewrite Z2Nat.id; lia) Hvn Hum Hvm HLu HLv ES)
    as (A1 & A2 & A3 & A4 & A5 & A6 & A7 & A8 & A9 & A10 & A11).
  destruct (if un1 =? 0 then strip_max (Z.to_nat vn1) vm1 vn1 e1 else (vm1, vn1, e1))
    as [[vm2 vn2] e2] eqn:ES2.
  assert (F : 0 <= vn2 <= vn1 /\ 0 <= vm2 < B ^ vn2 /\ e2 - vn2 = e - vn /\ e2 <= e1
              /\ Xc L um1 un1 vm2 vn2 e2 = Xc L um un vm vn e
              /\ vm2 = vm mod B ^ vn2
              /\ (vn2 = 0 \/ (un1 = 0 /\ top_limb vm2 vn2 <> B - 1)
                  \/ (1 <= un1 /\ (top_limb um1 un1 <> 0 \/ top_limb vm2 vn2 <> B - 1)))
              /\ L <= e2 - un1 /\ (un1 = 0 \/ e2 - un1 = e - un)).
  { destruct (Z.eqb_spec un1 0) as [Zu|NZu].
    - subst un1.
      destruct (strip_max_spec L (Z.to_nat vn1) vm1 vn1 e1 vm2 vn2 e2 ltac:(lia)
                  ltac:(rewrite Z2Nat.id; lia) A4 ltac:(lia) ES2) as (S1 & S2 & S3 & S4 & S5 & S6 & S7).
      split; [exact S1|]. split; [exact S2|]. split; [lia|]. split; [exact S4|].
      split.
      { rewrite <- A8. unfold Xc. rewrite (small_zero um1 A3), !vl_zero. lia. }
      split; [rewrite S6, A10; apply mod_mod_small; lia|].
      split; [destruct S7 as [S7|S7]; [left; exact S7 | right; left; split; [reflexivity | exact S7]]|].
      split; [lia | left; reflexivity].
    - injection ES2 as <- <- <-.
      split; [lia|]. split; [exact A4|]. split; [lia|]. split; [lia|]. split; [exact A8|].
      split; [exact A10|].
      split; [|split; [lia | right; lia]].
      destruct A11 as [H|[H|H]]; [lia | left; exact H | right; right; split; [lia | exact H]]. }
  destruct F as (F1 & F2 & F3 & F4 & F5 & F6 & F7 & F8 & F9).
  pose proof (close_lower L um1 un1 vm2 vn2 e2 ltac:(lia) ltac:(lia) A3 F2 F8 ltac:(lia) F7) as LB.
  rewrite F5 in LB.
  assert (HLv2 : L <= e2 - vn2) by lia.
  assert (Hun1 : 0 <= un1) by lia. assert (Hvn2 : 0 <= vn2) by lia.
  assert (Hbv : e2 - vn2 = e - vn) by lia.
  assert (Hee : e2 <= e) by lia.
  assert (EX : Xc L um un vm vn e = B ^ (e2 - L) + vl L um1 un1 e2 - vl L vm2 vn2 e2).
  { rewrite <- F5. reflexivity. }
  apply hide_intro in A9. apply hide_intro in F6.
  clear ES ES2 A11 F7 A1 A2 A4 A5 A6 A7 A8 A10 F1 F3 F4 F5 Hum Hvm HLu HLv Hun Hvn vm1 vn1 e1.
  set (X := Xc L um un vm vn e) in *.
  rewrite !top_limbs_shape.
  replace (prec + 1 - 1) with prec by lia.
  set (ku := Z.max 0 (un1 - prec)). set (kv := Z.max 0 (vn2 - prec)).
  assert (Hun3 : 0 <= un1 - ku <= prec /\ un1 - ku <= un1 /\ ku <= un1)
    by (unfold ku; clear - Hun1 Hp; lia).
  assert (Hvn3 : 0 <= vn2 - kv <= prec /\ vn2 - kv <= vn2 /\ kv <= vn2)
    by (unfold kv; clear - Hvn2 Hp; lia).
  pose proof (vl_cut_at L um1 un1 e2 (e2 - prec) ku Hun1 A3 F8 ltac:(unfold ku; clear; lia))
    as (du & Eu & Du0 & Duz & Dult & Bu0 & Bu1).
  pose proof (vl_cut_at L vm2 vn2 e2 (e2 - prec) kv Hvn2 F2 HLv2 ltac:(unfold kv; clear; lia))
    as (dv & Ev & Dv0 & Dvz & Dvlt & Bv0 & Bv1).
  assert (Eku : hide (ku = Z.max 0 (un1 - prec))) by (apply hide_intro; reflexivity).
  assert (Ekv : hide (kv = Z.max 0 (vn2 - prec))) by (apply hide_intro; reflexivity).
  clearbody ku kv.
  specialize (Bu1 ltac:(clear - Hun3; lia)). specialize (Bv1 ltac:(clear - Hvn3; lia)).
  set (um3 := um1 / B ^ ku) in *. set (un3 := un1 - ku) in *.
  set (vm3 := vm2 / B ^ kv) in *. set (vn3 := vn2 - kv) in *.
  clearbody um3 un3 vm3 vn3.
  destruct (close_layout_spec' um3 un3 vm3 vn3 ltac:(clear - Hun3; lia) ltac:(clear - Hvn3; lia)
              (conj Bu0 Bu1) (conj Bv0 Bv1))
    as (inc & n & T & Hinc & Hn & ET & EL & HT).
  assert (HLn : L <= e2 - n /\ 0 <= n <= prec /\ un3 <= n /\ vn3 <= n) by (clear - Hn Hun3 Hvn3 F8 HLv2; lia).
  pose proof (sub_normalize_spec prec L neg T (n + inc) (e2 + inc)
                ltac:(clear - HLn Hinc; lia) ltac:(clear - HLn Hinc; lia)
                ltac:(clear - HLn Hinc; lia) HT) as HR.
  exists (vl L T (n + inc) (e2 + inc)).
  split; [rewrite EL; exact HR|].
  clear EL HR.
  assert (ER : vl L T (n + inc) (e2 + inc) = X + dv - du).
  { rewrite EX.
    replace (vl L um1 un1 e2) with (vl L um3 un3 e2 + du) by (clear - Eu; lia).
    replace (vl L vm2 vn2 e2) with (vl L vm3 vn3 e2 + dv) by (clear - Ev; lia).
    unfold vl. rewrite ET.
    replace (e2 + inc - (n + inc) - L) with (e2 - n - L) by lia.
    rewrite (Bpow_split (e2 - L) n (e2 - n - L)) by (clear - HLn; lia).
    rewrite (Bpow_split (e2 - un3 - L) (n - un3) (e2 - n - L)) by (clear - HLn; lia).
    rewrite (Bpow_split (e2 - vn3 - L) (n - vn3) (e2 - n - L)) by (clear - HLn; lia).
    ring. }
  assert (PE : 0 < B ^ (e2 - L)) by (apply Bpow_pos; clear - F8 Hun1; lia).
  assert (HX : 0 < X).
  { destruct (Z_lt_le_dec 0 X) as [H|H]; [exact H|]. exfalso.
    assert (X * B <= 0 * B) by (apply Z.mul_le_mono_nonneg_r; lia). clear - H0 LB PE. lia. }
  split; [exact HX|].
  split.
  { rewrite ER. replace (X + dv - du - X) with (dv - du) by ring.
    apply (cut_err_bound L (e2 - prec) (B ^ (prec - 1)) X du dv HX (Bpow_nonneg _) Du0 Dv0 Dult Dvlt).
    intros Hc.
    assert (EK : B ^ (e2 - L) = B ^ (e2 - prec - L) * B ^ (prec - 1) * B).
    { rewrite <- Bpow_add by lia. rewrite <- Bpow_succ by lia. f_equal. lia. }
    rewrite EK in LB. set (DK := B ^ (e2 - prec - L) * B ^ (prec - 1)) in *.
    destruct (Z_le_gt_dec DK X) as [H|H]; [exact H|]. exfalso.
    assert (X * B <= DK * B) by (apply Z.mul_le_mono_nonneg_r; lia). clear - H0 LB. lia. }
  intros Hzu Hzv. rewrite ER.
  assert (Zdu : du = 0).
  { apply Duz. apply hide_elim in Eku.
    destruct F9 as [Zu|Eb].
    - replace ku with 0 by (clear - Eku Zu Hp; lia). change (B ^ 0) with 1. apply Z.mod_1_r.
    - rewrite (hide_elim _ A9).
      pose proof (lz_mono (um mod B ^ un1) (e - un) (e - prec) (e2 - prec) ltac:(clear - Hee; lia)
                    (lz_low um (e - un) (e - prec) un1 Hun1 Hzu)) as Hz.
      unfold lz in Hz.
      replace (Z.max 0 (e2 - prec - (e - un))) with ku in Hz by (clear - Eku Eb; lia).
      exact Hz. }
  assert (Zdv : dv = 0).
  { apply Dvz. apply hide_elim in Ekv. rewrite (hide_elim _ F6).
    pose proof (lz_mono (vm mod B ^ vn2) (e - vn) (e - prec) (e2 - prec) ltac:(clear - Hee; lia)
                  (lz_low vm (e - vn) (e - prec) vn2 Hvn2 Hzv)) as Hz.
    unfold lz in Hz.
    replace (Z.max 0 (e2 - prec - (e - vn))) with kv in Hz by (clear - Ekv Hbv; lia).
    exact Hz. }
  clear - Zdu Zdv. lia.
Qed.

(* ---------- the general case ---------- *)

Lemma limb_at_0 M : limb_at M 0 = M mod B.
Proof. unfold limb_at. change (B ^ 0) with 1. rewrite Z.div_1_r. reflexivity. Qed.

(* two's-complement negation of the k low limbs, low limb non-zero *)
Lemma neg_low_spec vm k : 1 <= k -> vm mod B <> 0 -> neg_low vm k = B ^ k - vm mod B ^ k.
Proof.
  intros Hk Hnz. pose proof B_pos as HB0.
  unfold neg_low. rewrite limb_at_0.
  pose proof (Z.mod_pos_bound vm B HB0) as Hl0.
  assert (E0 : (- (vm mod B)) mod B = B - vm mod B).
  { symmetry. apply (Z.mod_unique_pos _ B (-1)); lia. }
  rewrite E0.
  pose proof (mod_mod_small vm 1 k ltac:(lia)) as E1. rewrite Z.pow_1_r in E1.
  pose proof (Z.div_mod (vm mod B ^ k) B ltac:(lia)) as E2. rewrite E1 in E2.
  pose proof (Bpow_pred k Hk) as EP.
  set (q := (vm mod B ^ k) / B) in *. set (l0 := vm mod B) in *.
  rewrite E2, EP. ring.
Qed.

Lemma strip_low_zeros_spec fuel : forall M n M' n',
  0 <= n -> n <= Z.of_nat fuel -> 0 <= M < B ^ n ->
  strip_low_zeros fuel M n = (M', n') ->
  (M = 0 /\ n' = 0)
  \/ (0 < M /\ 1 <= n' <= n /\ M' * B ^ (n - n') = M /\ M' mod B <> 0 /\ 0 < M' < B ^ n').
Proof.
  pose proof B_pos as HB0.
  induction fuel as [|f IH]; intros M n M' n' Hn Hf HM HS.
  - assert (n = 0) by lia. subst n. cbn [strip_low_zeros] in HS. injection HS as <- <-.
    left. split; [apply small_zero; exact HM | reflexivity].
  - cbn [strip_low_zeros] in HS.
    destruct (Z.eqb_spec n 0) as [Zn|NZn].
    { injection HS as <- <-. subst n. left. split; [apply small_zero; exact HM | reflexivity]. }
    rewrite limb_at_0 in HS.
    destruct (Z.eqb_spec (M mod B) 0) as [Zl|NZl]; cbn [negb] in HS.
    + pose proof (Z.div_mod M B ltac:(lia)) as Edm. rewrite Zl, Z.add_0_r in Edm.
      assert (HMB : 0 <= M / B < B ^ (n - 1)).
      { pose proof (div_B_bounds M n 1 ltac:(lia) HM) as H. rewrite Z.pow_1_r in H. exact H. }
      destruct (IH (M / B) (n - 1) M' n' ltac:(lia) ltac:(lia) HMB HS)
        as [[Z0 Zn']|(P0 & Pn & PE & Pm & Pb)].
      * left. split; [rewrite Edm, Z0; ring | exact Zn'].
      * right. split; [lia|]. split; [lia|].
        split.
        { replace (n - n') with ((n - 1 - n') + 1) by lia. rewrite Bpow_succ by lia.
          rewrite Z.mul_assoc, PE. lia. }
        split; [exact Pm | exact Pb].
    + injection HS as <- <-.
      right. pose proof (Z.mod_pos_bound M B HB0).
      assert (0 < M).
      { destruct (Z.eq_dec M 0) as [->|]; [rewrite Z.mod_0_l in NZl by lia; contradiction | lia]. }
      split; [assumption|]. split; [lia|].
      split; [replace (n - n) with 0 by lia; change (B ^ 0) with 1; ring|].
      split; [exact NZl | lia].
Qed.

(* v inside u *)
Lemma layout_inside um vm size w :
  0 <= size -> 0 <= w -> 0 <= um < B ^ (w + size) -> 0 <= vm -> 0 <= um - vm * B ^ size ->
  um mod B ^ size + ((um / B ^ size - vm) mod B ^ w) * B ^ size = um - vm * B ^ size.
Proof.
  intros Hs Hw Hum Hvm HT. pose proof B_pos as HB0.
  destruct (div_mod_B um size Hs) as [E [R0 R1]].
  pose proof (div_B_bounds um (w + size) size ltac:(lia) Hum) as [Q0 Q1].
  replace (w + size - size) with w in Q1 by lia.
  pose proof (Bpow_pos size Hs) as PS.
  set (uh := um / B ^ size) in *. set (ul := um mod B ^ size) in *.
  assert (Hge : 0 <= uh - vm).
  { destruct (Z_le_gt_dec 0 (uh - vm)) as [H|H]; [exact H|]. exfalso.
    assert ((uh - vm + 1) * B ^ size <= 0 * B ^ size) by (apply Z.mul_le_mono_nonneg_r; lia).
    rewrite E in HT. lia. }
  rewrite Z.mod_small by lia. rewrite E at 1. ring.
Qed.

(* v extends below u *)
Lemma layout_below um un vm size :
  1 <= size -> 0 <= un -> 0 <= um < B ^ un -> 0 <= vm -> vm mod B <> 0 ->
  0 <= um * B ^ size - vm ->
  neg_low vm size + (((um - vm / B ^ size) mod B ^ un - 1) mod B ^ un) * B ^ size
    = um * B ^ size - vm.
Proof.
  intros Hs Hun Hum Hvm Hnz HT. pose proof B_pos as HB0.
  rewrite (neg_low_spec vm size Hs Hnz).
  destruct (div_mod_B vm size ltac:(lia)) as [E [R0 R1]].
  pose proof (mod_mod_small vm 1 size ltac:(lia)) as E1. rewrite Z.pow_1_r in E1.
  assert (Q0 : 0 <= vm / B ^ size) by (apply Z.div_pos; [lia | apply Bpow_pos; lia]).
  pose proof (Bpow_pos size ltac:(lia)) as PS.
  set (vh := vm / B ^ size) in *. set (vlo := vm mod B ^ size) in *.
  assert (Hvlo : 0 < vlo).
  { destruct (Z.eq_dec vlo 0) as [Hz|Hz]; [|lia]. rewrite Hz, Z.mod_0_l in E1 by lia.
    symmetry in E1. contradiction. }
  assert (Hge : 1 <= um - vh).
  { destruct (Z_le_gt_dec 1 (um - vh)) as [H|H]; [exact H|]. exfalso.
    assert ((um - vh) * B ^ size <= 0 * B ^ size) by (apply Z.mul_le_mono_nonneg_r; lia).
    rewrite E in HT. lia. }
  rewrite (Z.mod_small (um - vh)) by lia. rewrite Z.mod_small by lia.
  replace (um * B ^ size - vm) with (um * B ^ size - (vh * B ^ size + vlo)) by lia. ring.
Qed.

Lemma pair_eq (a a' b b' : Z) : a = a' -> b = b' -> (a, b) = (a', b').
Proof. intros -> ->. reflexivity. Qed.

Lemma sub_layout_spec um un vm vn d :
  1 <= un -> 1 <= vn -> 0 <= d -> 1 <= um < B ^ un -> 0 <= vm < B ^ vn -> vm mod B <> 0 ->
  0 <= um * B ^ (Z.max un (vn + d) - un) - vm * B ^ (Z.max un (vn + d) - d - vn) ->
  sub_layout um un vm vn d
  = (um * B ^ (Z.max un (vn + d) - un) - vm * B ^ (Z.max un (vn + d) - d - vn), Z.max un (vn + d)).
Proof.
  intros Hun Hvn Hd Hum Hvm Hnz HT. pose proof B_pos as HB0.
  unfold sub_layout.
  destruct (Z.ltb_spec d un) as [Hdu|Hdu].
  - destruct (Z.eqb_spec d 0) as [Zd|NZd].
    + subst d. destruct (Z.leb_spec vn un) as [Hle|Hgt].
      * rewrite Z.max_l in * by lia.
        replace (un - un) with 0 in * by lia. replace (un - 0 - vn) with (un - vn) in * by lia.
        change (B ^ 0) with 1 in *. rewrite Z.mul_1_r in *.
        apply pair_eq; [|reflexivity].
        apply layout_inside; try lia. replace (vn + (un - vn)) with un by lia. lia.
      * rewrite Z.max_r in * by lia.
        replace (vn + 0 - 0 - vn) with 0 in * by lia. replace (vn + 0 - un) with (vn - un) in * by lia.
        change (B ^ 0) with 1 in *. rewrite Z.mul_1_r in *.
        apply pair_eq; [|lia].
        apply layout_below; try lia; assumption.
    + destruct (Z.leb_spec (vn + d) un) as [Hle|Hgt].
      * rewrite Z.max_l in * by lia.
        replace (un - un) with 0 in * by lia.
        change (B ^ 0) with 1 in *. rewrite Z.mul_1_r in *.
        apply pair_eq; [|reflexivity].
        replace (un - (un - d - vn)) with (vn + d) by lia.
        apply layout_inside; try lia. replace (vn + d + (un - d - vn)) with un by lia. lia.
      * rewrite Z.max_r in * by lia.
        replace (vn + d - d - vn) with 0 in * by lia.
        change (B ^ 0) with 1 in *. rewrite Z.mul_1_r in *.
        apply pair_eq; [|reflexivity].
        apply layout_below; try lia; assumption.
  - rewrite Z.max_r in * by lia.
    replace (vn + d - d - vn) with 0 in * by lia.
    change (B ^ 0) with 1 in *. rewrite Z.mul_1_r in *.
    apply pair_eq; [|lia].
    rewrite (neg_low_spec vm vn Hvn Hnz). rewrite (Z.mod_small vm) by lia.
    rewrite (Z.mod_small (um - 1)) by lia.
    replace (vn + d - un - vn) with (d - un) by lia.
    rewrite (Bpow_split (vn + d - un) (d - un) vn) by lia. ring.
Qed.

(* the general case after the two truncations *)
Definition general_tail (prec : Z) (negate : bool) (um1 un1 vm1 vn1 ediff exp : Z) : mpf :=
  if prec + 1 <=? ediff then sub_done negate um1 un1 exp
  else
    let '(vm2, vn2) := strip_low_zeros (Z.to_nat vn1) vm1 vn1 in
    if vn2 =? 0 then sub_done negate um1 un1 exp
    else
      let '(um2, un2) := strip_low_zeros (Z.to_nat un1) um1 un1 in
      if un2 =? 0 then sub_done (negb negate) vm2 vn2 exp
      else
        let '(tp, rsize) := sub_layout um2 un2 vm2 vn2 ediff in
        sub_normalize negate tp rsize exp.

Lemma sub_general_unfold prec neg um un vm vn d e :
  sub_general prec neg um un vm vn d e
  = general_tail prec neg (um / B ^ Z.max 0 (un - (prec + 1))) (un - Z.max 0 (un - (prec + 1)))
      (vm / B ^ Z.max 0 (vn + d - (prec + 1))) (vn - Z.max 0 (vn + d - (prec + 1))) d e.
Proof. unfold sub_general. rewrite top_limbs_shape, v_trunc_shape. reflexivity. Qed.

Lemma sub_done_repr prec L neg m n e :
  0 < m -> n = nlimbs m -> n <= prec + 1 -> L <= e - n ->
  repr prec L neg (vl L m n e) (sub_done neg m n e).
Proof.
  intros Hm Hn Hp HL. pose proof (nlimbs_pos m Hm).
  unfold sub_done. destruct (Z.eqb_spec n 0) as [Hc|_]; [lia|].
  apply repr_intro; try assumption. reflexivity.
Qed.

(* stripping low zero limbs does not change the value *)
Lemma vl_strip L M' n' M n e : 0 <= n - n' -> L <= e - n -> M' * B ^ (n - n') = M ->
  vl L M' n' e = vl L M n e.
Proof.
  intros Hn HL E. unfold vl. rewrite <- E.
  rewrite (Bpow_split (e - n' - L) (n - n') (e - n - L)) by lia. ring.
Qed.

Lemma general_tail_spec prec L neg um1 un1 vm1 vn1 d e :
  1 <= prec -> 1 <= un1 <= prec + 1 -> B ^ (un1 - 1) <= um1 < B ^ un1 -> 0 <= d ->
  L <= e - un1 ->
  (d < prec + 1 -> 1 <= vn1 /\ vn1 + d <= prec + 1 /\ 0 <= vm1 < B ^ vn1 /\ L <= e - d - vn1) ->
  (prec + 1 <= d -> vm1 = 0) ->
  0 < vl L um1 un1 e - vl L vm1 vn1 (e - d) ->
  repr prec L neg (vl L um1 un1 e - vl L vm1 vn1 (e - d))
       (general_tail prec neg um1 un1 vm1 vn1 d e).
Proof.
  intros Hp Hun1 Hum1 Hd HLu Hv Hv0 Hpos.
  pose proof B_pos as HB0.
  assert (Pum1 : 0 < B ^ (un1 - 1)) by (apply Bpow_pos; lia).
  assert (Hn1 : un1 = nlimbs um1) by (symmetry; apply nlimbs_unique; lia).
  unfold general_tail.
  destruct (Z.leb_spec (prec + 1) d) as [Hcan|Hov].
  { rewrite (Hv0 Hcan), vl_zero, Z.sub_0_r. apply sub_done_repr; lia. }
  destruct (Hv Hov) as (Hvn1 & Hvd & Hvm1 & HLv). clear Hv Hv0.
  destruct (strip_low_zeros (Z.to_nat vn1) vm1 vn1) as [vm2 vn2] eqn:ESv.
  destruct (strip_low_zeros_spec (Z.to_nat vn1) vm1 vn1 vm2 vn2 ltac:(lia)
              ltac:(rewrite Z2Nat.id; lia) Hvm1 ESv) as [[Zv Zn]|(Pv & Pvn & PvE & Pvm & Pvb)].
  { subst vm1 vn2. cbn [Z.eqb]. rewrite vl_zero, Z.sub_0_r. apply sub_done_repr; lia. }
  destruct (Z.eqb_spec vn2 0) as [Hc|_]; [lia|].
  destruct (strip_low_zeros (Z.to_nat un1) um1 un1) as [um2 un2] eqn:ESu.
  destruct (strip_low_zeros_spec (Z.to_nat un1) um1 un1 um2 un2 ltac:(lia)
              ltac:(rewrite Z2Nat.id; lia) ltac:(lia) ESu) as [[Zu _]|(Pu & Pun & PuE & Pum & Pub)];
    [lia|].
  destruct (Z.eqb_spec un2 0) as [Hc|_]; [lia|].
  clear ESu ESv.
  rewrite <- (vl_strip L um2 un2 um1 un1 e ltac:(lia) HLu PuE) in *.
  rewrite <- (vl_strip L vm2 vn2 vm1 vn1 (e - d) ltac:(lia) ltac:(lia) PvE) in *.
  set (rs := Z.max un2 (vn2 + d)).
  assert (Hrs : un2 <= rs /\ vn2 + d <= rs /\ rs <= prec + 1 /\ L <= e - rs /\ 1 <= rs)
    by (unfold rs; clear - Pun Pvn Hun1 Hvd HLu HLv Hd; lia).
  assert (EV : vl L um2 un2 e - vl L vm2 vn2 (e - d)
               = vl L (um2 * B ^ (rs - un2) - vm2 * B ^ (rs - d - vn2)) rs e).
  { unfold vl. rewrite Z.mul_sub_distr_r. rewrite <- !Z.mul_assoc.
    rewrite <- !Bpow_add by (clear - Hrs; lia).
    f_equal; f_equal; f_equal; clear; lia. }
  rewrite EV in *.
  set (T := um2 * B ^ (rs - un2) - vm2 * B ^ (rs - d - vn2)) in *.
  assert (PS : 0 < B ^ (e - rs - L)) by (apply Bpow_pos; clear - Hrs; lia).
  assert (HT0 : 0 < T).
  { unfold vl in Hpos. destruct (Z_lt_le_dec 0 T) as [H|H]; [exact H|]. exfalso.
    assert (T * B ^ (e - rs - L) <= 0 * B ^ (e - rs - L)) by (apply Z.mul_le_mono_nonneg_r; lia).
    clear - H0 Hpos. lia. }
  assert (HT1 : T < B ^ rs).
  { unfold T.
    assert (0 <= vm2 * B ^ (rs - d - vn2)) by (apply Z.mul_nonneg_nonneg; [lia | apply Bpow_nonneg]).
    assert ((um2 + 1) * B ^ (rs - un2) <= B ^ un2 * B ^ (rs - un2))
      by (apply Z.mul_le_mono_nonneg_r; [apply Bpow_nonneg | lia]).
    rewrite <- Bpow_add in H0 by (clear - Hrs Pun; lia).
    replace (un2 + (rs - un2)) with rs in H0 by (clear; lia).
    pose proof (Bpow_pos (rs - un2) ltac:(clear - Hrs; lia)).
    clear - H H0 H1. lia. }
  rewrite (sub_layout_spec um2 un2 vm2 vn2 d ltac:(lia) ltac:(lia) Hd ltac:(lia) ltac:(lia) Pvm
             ltac:(fold rs; fold T; lia)).
  fold rs. fold T.
  apply sub_normalize_spec; clear - Hrs HT0 HT1; lia.
Qed.

Lemma sub_general_spec prec L neg um un vm vn d e :
  1 <= prec -> 1 <= un -> 1 <= vn -> 0 <= d -> B ^ (un - 1) <= um < B ^ un -> 0 <= vm < B ^ vn ->
  L <= e - un -> L <= e - d - vn ->
  B ^ (e - L) <= (vl L um un e - vl L vm vn (e - d)) * (B * B) ->
  exists Rv,
    repr prec L neg Rv (sub_general prec neg um un vm vn d e)
    /\ 0 < vl L um un e - vl L vm vn (e - d)
    /\ Z.abs (Rv - (vl L um un e - vl L vm vn (e - d))) * B ^ (prec - 1)
         < vl L um un e - vl L vm vn (e - d)
    /\ (lz um (e - un) (e - (prec + 1)) -> lz vm (e - d - vn) (e - (prec + 1)) ->
        Rv = vl L um un e - vl L vm vn (e - d)).
Proof.
  intros Hp Hun Hvn Hd Hum Hvm HLu HLv HLB.
  pose proof B_pos as HB0. pose proof B_ge2 as HB2.
  assert (HBB : 0 < B * B) by (apply Z.mul_pos_pos; exact HB0).
  rewrite sub_general_unfold.
  set (ku := Z.max 0 (un - (prec + 1))). set (kv := Z.max 0 (vn + d - (prec + 1))).
  assert (Hku : 0 <= ku <= un - 1 /\ 1 <= un - ku <= prec + 1) by (unfold ku; clear - Hp Hun; lia).
  assert (Hkv : 0 <= kv /\ (d < prec + 1 -> kv <= vn - 1 /\ 1 <= vn - kv /\ vn - kv + d <= prec + 1)
                /\ (prec + 1 <= d -> vn <= kv)) by (unfold kv; clear - Hp Hvn Hd; lia).
  pose proof (vl_cut_at L um un e (e - (prec + 1)) ku ltac:(lia) ltac:(clear - Hum Hun; pose proof (Bpow_pos (un - 1) ltac:(lia)); lia)
                HLu ltac:(unfold ku; clear; lia)) as (du & Eu & Du0 & Duz & Dult & Bu0 & Bu1).
  pose proof (vl_cut_at L vm vn (e - d) (e - (prec + 1)) kv ltac:(lia) Hvm ltac:(clear - HLv; lia)
                ltac:(unfold kv; clear; lia)) as (dv & Ev & Dv0 & Dvz & Dvlt & Bv0 & Bv1).
  specialize (Bu1 ltac:(clear - Hku; lia)).
  assert (Bu2 : B ^ (un - ku - 1) <= um / B ^ ku).
  { apply Z.div_le_lower_bound; [apply Bpow_pos; clear - Hku; lia|].
    rewrite <- Bpow_add by (clear - Hku; lia).
    replace (ku + (un - ku - 1)) with (un - 1) by (clear; lia). clear - Hum. lia. }
  assert (Bv2 : prec + 1 <= d -> vm / B ^ kv = 0).
  { intros Hc. apply Z.div_small. split; [clear - Hvm; lia|].
    assert (B ^ vn <= B ^ kv) by (apply Bpow_le; clear - Hkv Hc Hvn; lia). clear - H Hvm. lia. }
  assert (Eku : hide (ku = Z.max 0 (un - (prec + 1)))) by (apply hide_intro; reflexivity).
  assert (Ekv : hide (kv = Z.max 0 (vn + d - (prec + 1)))) by (apply hide_intro; reflexivity).
  clearbody ku kv.
  set (X := vl L um un e - vl L vm vn (e - d)) in *.
  assert (PE : 0 < B ^ (e - L)) by (apply Bpow_pos; clear - HLu Hun; lia).
  assert (HX : 0 < X).
  { destruct (Z_lt_le_dec 0 X) as [H|H]; [exact H|]. exfalso.
    assert (X * (B * B) <= 0 * (B * B)) by (apply Z.mul_le_mono_nonneg_r; [clear - HBB; lia | exact H]). clear - H0 HLB PE. lia. }
  assert (Herr : Z.abs (dv - du) * B ^ (prec - 1) < X).
  { apply (cut_err_bound L (e - (prec + 1)) (B ^ (prec - 1)) X du dv HX (Bpow_nonneg _) Du0 Dv0 Dult Dvlt).
    intros Hc.
    assert (EK : B ^ (e - L) = B ^ (e - (prec + 1) - L) * B ^ (prec - 1) * (B * B)).
    { rewrite <- Bpow_add by (clear - Hc Hp; lia).
      replace (B * B) with (B ^ 2) by (clear; ring).
      rewrite <- Bpow_add by (clear - Hc Hp; lia). f_equal. clear. lia. }
    rewrite EK in HLB. set (DK := B ^ (e - (prec + 1) - L) * B ^ (prec - 1)) in *.
    destruct (Z_le_gt_dec DK X) as [H|H]; [exact H|]. exfalso.
    assert ((X + 1) * (B * B) <= DK * (B * B))
      by (apply Z.mul_le_mono_nonneg_r; [clear - HBB; lia | clear - H; lia]).
    clear - H0 HBB HLB. lia. }
  set (um1 := um / B ^ ku) in *. set (un1 := un - ku) in *.
  set (vm1 := vm / B ^ kv) in *. set (vn1 := vn - kv) in *.
  assert (ER : vl L um1 un1 e - vl L vm1 vn1 (e - d) = X + dv - du) by (clear - Eu Ev; lia).
  assert (Hpos : 0 < vl L um1 un1 e - vl L vm1 vn1 (e - d)).
  { rewrite ER.
    assert (1 * 1 <= B ^ (prec - 1) * 1) by (pose proof (Bpow_ge1 (prec - 1) ltac:(lia)); lia).
    assert (Z.abs (dv - du) * 1 <= Z.abs (dv - du) * B ^ (prec - 1))
      by (apply Z.mul_le_mono_nonneg_l; [apply Z.abs_nonneg | pose proof (Bpow_ge1 (prec - 1) ltac:(lia)); lia]).
    clear - H0 Herr. lia. }
  exists (vl L um1 un1 e - vl L vm1 vn1 (e - d)).
  split.
  { apply general_tail_spec; try assumption.
    - unfold un1. clear - Hku. lia.
    - unfold um1, un1. split; [exact Bu2 | exact Bu1].
    - unfold un1. clear - HLu Hku. lia.
    - intros Hc. destruct Hkv as (K0 & K1 & K2). destruct (K1 Hc) as (K3 & K4 & K5).
      unfold vn1, vm1. split; [exact K4|]. split; [exact K5|].
      split; [split; [exact Bv0 | apply Bv1; clear - K3; lia]|]. clear - HLv K0. lia. }
  split; [exact HX|].
  split.
  { rewrite ER. replace (X + dv - du - X) with (dv - du) by (clear; ring). exact Herr. }
  intros Hzu Hzv. rewrite ER.
  assert (Zdu : du = 0).
  { apply Duz. apply hide_elim in Eku. unfold lz in Hzu.
    replace (Z.max 0 (e - (prec + 1) - (e - un))) with ku in Hzu by (clear - Eku; lia). exact Hzu. }
  assert (Zdv : dv = 0).
  { apply Dvz. apply hide_elim in Ekv. unfold lz in Hzv.
    replace (Z.max 0 (e - (prec + 1) - (e - d - vn))) with kv in Hzv by (clear - Ekv; lia). exact Hzv. }
  clear - Zdu Zdv. lia.
Qed.

(* ---------- ediff = 0: equal leading limbs ---------- *)

Lemma strip_equal_spec L fuel : forall um un vm vn e,
  1 <= un -> un <= Z.of_nat fuel -> 1 <= vn -> 0 <= um < B ^ un -> 0 <= vm < B ^ vn ->
  L <= e - un -> L <= e - vn -> top_limb um un = top_limb vm vn ->
  match strip_equal fuel um un vm vn e with
  | SCancel flip M n e' =>
      0 <= n /\ 0 <= M < B ^ n /\ e' < e
      /\ (if flip
          then n < vn /\ e' - n = e - vn /\ M = vm mod B ^ n
               /\ vl L um un e - vl L vm vn e = - vl L M n e'
          else n < un /\ e' - n = e - un /\ M = um mod B ^ n
               /\ vl L um un e - vl L vm vn e = vl L M n e')
  | SCont um' un' vm' vn' e' =>
      1 <= un' < un /\ 1 <= vn' < vn /\ 0 <= um' < B ^ un' /\ 0 <= vm' < B ^ vn' /\ e' < e
      /\ e' - un' = e - un /\ e' - vn' = e - vn
      /\ um' = um mod B ^ un' /\ vm' = vm mod B ^ vn'
      /\ top_limb um' un' <> top_limb vm' vn'
      /\ vl L um' un' e' - vl L vm' vn' e' = vl L um un e - vl L vm vn e
  end.
Proof.
  pose proof B_pos as HB0.
  induction fuel as [|f IH]; intros um un vm vn e Hun Hf Hvn Hum Hvm HLu HLv Ht; [lia|].
  cbn [strip_equal].
  pose proof (low_part_bound um un Hun) as Blu.
  pose proof (low_part_bound vm vn Hvn) as Blv.
  assert (ED : vl L um un e - vl L vm vn e
               = vl L (low_part um un) (un - 1) (e - 1) - vl L (low_part vm vn) (vn - 1) (e - 1)).
  { rewrite (vl_top L um un e Hun HLu), (vl_top L vm vn e Hvn HLv), Ht. ring. }
  destruct (Z.eqb_spec (un - 1) 0) as [Zu|NZu].
  { split; [lia|]. split; [exact Blv|]. split; [lia|]. split; [lia|]. split; [lia|].
    split; [reflexivity|].
    rewrite ED. rewrite Zu in *. rewrite (small_zero _ Blu), vl_zero. ring. }
  destruct (Z.eqb_spec (vn - 1) 0) as [Zv|NZv].
  { split; [lia|]. split; [exact Blu|]. split; [lia|]. split; [lia|]. split; [lia|].
    split; [reflexivity|].
    rewrite ED. rewrite Zv in *. rewrite (small_zero _ Blv), vl_zero. ring. }
  destruct (Z.eqb_spec (top_limb (low_part um un) (un - 1)) (top_limb (low_part vm vn) (vn - 1)))
    as [Et|Et].
  - specialize (IH (low_part um un) (un - 1) (low_part vm vn) (vn - 1) (e - 1)
                  ltac:(lia) ltac:(lia) ltac:(lia) Blu Blv ltac:(lia) ltac:(lia) Et).
    destruct (strip_equal f (low_part um un) (un - 1) (low_part vm vn) (vn - 1) (e - 1))
      as [flip M n e'|um' un' vm' vn' e'].
    + destruct IH as (I1 & I2 & I3 & I4).
      split; [exact I1|]. split; [exact I2|]. split; [lia|].
      destruct flip.
      * destruct I4 as (J1 & J2 & J3 & J4).
        split; [lia|]. split; [lia|].
        split; [rewrite J3; unfold low_part; apply mod_mod_small; lia|].
        rewrite ED. exact J4.
      * destruct I4 as (J1 & J2 & J3 & J4).
        split; [lia|]. split; [lia|].
        split; [rewrite J3; unfold low_part; apply mod_mod_small; lia|].
        rewrite ED. exact J4.
    + destruct IH as (I1 & I2 & I3 & I4 & I5 & I6 & I7 & I8 & I9 & I10 & I11).
      split; [lia|]. split; [lia|]. split; [exact I3|]. split; [exact I4|]. split; [lia|].
      split; [lia|]. split; [lia|].
      split; [rewrite I8; unfold low_part; apply mod_mod_small; lia|].
      split; [rewrite I9; unfold low_part; apply mod_mod_small; lia|].
      split; [exact I10|]. rewrite ED. exact I11.
  - split; [lia|]. split; [lia|]. split; [exact Blu|]. split; [exact Blv|]. split; [lia|].
    split; [lia|]. split; [lia|]. split; [reflexivity|]. split; [reflexivity|].
    split; [exact Et|]. symmetry. exact ED.
Qed.

(* ---------- ediff = 0: different leading limbs, u has the larger one ---------- *)

Definition after_strip_ord (prec : Z) (negate : bool) (um un vm vn exp : Z) : mpf :=
  if negb (top_limb um un =? top_limb vm vn + 1) then sub_general prec negate um un vm vn 0 exp
  else sub_close prec negate (low_part um un) (un - 1) (low_part vm vn) (vn - 1) (exp - 1).

Lemma sub_after_strip_unfold prec neg um un vm vn e :
  sub_after_strip prec neg um un vm vn e
  = if top_limb um un <? top_limb vm vn then after_strip_ord prec (negb neg) vm vn um un e
    else after_strip_ord prec neg um un vm vn e.
Proof. unfold sub_after_strip, after_strip_ord. destruct (top_limb um un <? top_limb vm vn); reflexivity. Qed.

(* what the three computing paths deliver for a positive exact value X *)
Definition delivers (prec L : Z) (neg : bool) (X : Z) (ex : Prop) (r : mpf) : Prop :=
  exists Rv, repr prec L neg Rv r /\ 0 < X /\ Z.abs (Rv - X) * B ^ (prec - 1) < X /\ (ex -> Rv = X).

Lemma after_strip_ord_spec prec L neg um un vm vn e :
  1 <= prec -> 1 <= un -> 1 <= vn -> 0 <= um < B ^ un -> 0 <= vm < B ^ vn ->
  L <= e - un -> L <= e - vn -> top_limb vm vn < top_limb um un ->
  delivers prec L neg (vl L um un e - vl L vm vn e)
    (lz um (e - un) (e - (prec + 1)) /\ lz vm (e - vn) (e - (prec + 1)))
    (after_strip_ord prec neg um un vm vn e).
Proof.
  intros Hp Hun Hvn Hum Hvm HLu HLv Ht.
  pose proof B_pos as HB0. pose proof B_ge2 as HB2.
  unfold after_strip_ord, delivers.
  pose proof (top_limb_bound um un Hun Hum) as Tu.
  pose proof (top_limb_bound vm vn Hvn Hvm) as Tv.
  pose proof (low_part_bound um un Hun) as Blu.
  pose proof (low_part_bound vm vn Hvn) as Blv.
  pose proof (vl_bound L _ (un - 1) (e - 1) ltac:(lia) ltac:(lia) Blu) as [U0 U1].
  pose proof (vl_bound L _ (vn - 1) (e - 1) ltac:(lia) ltac:(lia) Blv) as [V0 V1].
  pose proof (vl_top L um un e Hun HLu) as EU. pose proof (vl_top L vm vn e Hvn HLv) as EV.
  destruct (Z.eqb_spec (top_limb um un) (top_limb vm vn + 1)) as [E1|N1]; cbn [negb].
  - (* x+1 / x : the near-cancellation path *)
    destruct (sub_close_spec prec L neg (low_part um un) (un - 1) (low_part vm vn) (vn - 1) (e - 1)
                Hp ltac:(lia) ltac:(lia) Blu Blv ltac:(lia) ltac:(lia)) as (Rv & R1 & R2 & R3 & R4).
    assert (EX : Xc L (low_part um un) (un - 1) (low_part vm vn) (vn - 1) (e - 1)
                 = vl L um un e - vl L vm vn e).
    { unfold Xc. rewrite EU, EV, E1. ring. }
    rewrite EX in *.
    exists Rv. split; [exact R1|]. split; [exact R2|]. split; [exact R3|].
    intros [Hzu Hzv]. apply R4.
    + replace (e - 1 - (un - 1)) with (e - un) by lia. replace (e - 1 - prec) with (e - (prec + 1)) by lia.
      unfold low_part. apply lz_low; [lia | exact Hzu].
    + replace (e - 1 - (vn - 1)) with (e - vn) by lia. replace (e - 1 - prec) with (e - (prec + 1)) by lia.
      unfold low_part. apply lz_low; [lia | exact Hzv].
  - pose proof (top_limb_pos_lower um un Hun ltac:(lia) ltac:(lia)) as Hlo.
    assert (HLB : B ^ (e - L) <= (vl L um un e - vl L vm vn (e - 0)) * (B * B)).
    { replace (e - 0) with e by lia. rewrite EU, EV.
      rewrite (Bpow_pred (e - L)) by lia. replace (e - L - 1) with (e - 1 - L) by lia.
      pose proof (Bpow_pos (e - 1 - L) ltac:(lia)) as PG.
      set (G := B ^ (e - 1 - L)) in *.
      set (U' := vl L (low_part um un) (un - 1) (e - 1)) in *.
      set (V' := vl L (low_part vm vn) (vn - 1) (e - 1)) in *.
      set (tu := top_limb um un) in *. set (tv := top_limb vm vn) in *.
      assert (T : 2 * G <= (tu - tv) * G) by (apply Z.mul_le_mono_nonneg_r; lia).
      assert (T2 : G <= tu * G + U' - (tv * G + V')) by (clear - T U0 V1; lia).
      assert (T3 : G * B <= (tu * G + U' - (tv * G + V')) * B)
        by (apply Z.mul_le_mono_nonneg_r; lia).
      assert (T4 : (tu * G + U' - (tv * G + V')) * B * 1 <= (tu * G + U' - (tv * G + V')) * B * B).
      { apply Z.mul_le_mono_nonneg_l; [|lia]. apply Z.mul_nonneg_nonneg; lia. }
      clear - T3 T4. lia. }
    destruct (sub_general_spec prec L neg um un vm vn 0 e Hp Hun Hvn ltac:(lia) ltac:(lia) Hvm
                HLu ltac:(lia) HLB) as (Rv & R1 & R2 & R3 & R4).
    replace (e - 0) with e in * by lia.
    exists Rv. split; [exact R1|]. split; [exact R2|]. split; [exact R3|].
    intros [Hzu Hzv]. apply R4; assumption.
Qed.

(* ---------- lower bounds of the exact difference on the ways into the general case ---------- *)

Lemma limb_at_second M n : 2 <= n -> limb_at M (n - 2) = top_limb (low_part M n) (n - 1).
Proof.
  intros Hn. pose proof B_pos as HB0.
  unfold limb_at, top_limb, low_part.
  replace (n - 1 - 1) with (n - 2) by lia.
  pose proof (Bpow_pos (n - 2) ltac:(lia)) as PG.
  rewrite (Bpow_split (n - 1) (n - 2) 1) by lia. rewrite Z.pow_1_r.
  rewrite Z.rem_mul_r by lia.
  rewrite Z.mul_comm, Z.div_add by lia.
  rewrite (Z.div_small (M mod B ^ (n - 2))) by (apply Z.mod_pos_bound; exact PG).
  reflexivity.
Qed.

Lemma lb_from_G2 L e X : 2 <= e - L -> B ^ (e - 2 - L) <= X -> B ^ (e - L) <= X * (B * B).
Proof.
  intros He HX. pose proof B_pos as HB0.
  assert (HBB : 0 < B * B) by (apply Z.mul_pos_pos; exact HB0).
  replace (B ^ (e - L)) with (B ^ (e - 2 - L) * (B * B)).
  - apply Z.mul_le_mono_nonneg_r; lia.
  - replace (B * B) with (B ^ 2) by ring. rewrite <- Bpow_add by lia. f_equal. lia.
Qed.

Lemma general_lb_far L um un vm vn d e :
  1 <= un -> 1 <= vn -> 2 <= d -> B ^ (un - 1) <= um < B ^ un -> 0 <= vm < B ^ vn ->
  L <= e - un -> L <= e - d - vn ->
  B ^ (e - L) <= (vl L um un e - vl L vm vn (e - d)) * (B * B).
Proof.
  intros Hun Hvn Hd Hum Hvm HLu HLv.
  pose proof B_pos as HB0. pose proof B_ge2 as HB2.
  apply lb_from_G2; [lia|].
  pose proof (vl_bound L vm vn (e - d) ltac:(lia) ltac:(lia) Hvm) as [V0 V1].
  assert (V2 : B ^ (e - d - L) <= B ^ (e - 2 - L)) by (apply Bpow_le; lia).
  assert (U1 : B ^ (e - 2 - L) * B <= vl L um un e).
  { unfold vl. rewrite <- Bpow_succ by lia.
    replace (e - 2 - L + 1) with ((un - 1) + (e - un - L)) by lia. rewrite Bpow_add by lia.
    apply Z.mul_le_mono_nonneg_r; [apply Bpow_nonneg | lia]. }
  pose proof (Bpow_pos (e - 2 - L) ltac:(lia)) as PG.
  set (G := B ^ (e - 2 - L)) in *.
  assert (G * 2 <= G * B) by (apply Z.mul_le_mono_nonneg_l; lia).
  lia.
Qed.

Lemma general_lb_one L um un vm vn e :
  1 <= un -> 1 <= vn -> B ^ (un - 1) <= um < B ^ un -> 0 <= vm < B ^ vn ->
  L <= e - un -> L <= e - 1 - vn ->
  (top_limb um un <> 1 \/ top_limb vm vn <> B - 1 \/ (2 <= un /\ limb_at um (un - 2) <> 0)) ->
  B ^ (e - L) <= (vl L um un e - vl L vm vn (e - 1)) * (B * B).
Proof.
  intros Hun Hvn Hum Hvm HLu HLv Hpat.
  pose proof B_pos as HB0. pose proof B_ge2 as HB2.
  apply lb_from_G2; [lia|].
  pose proof (Bpow_pos (un - 1) ltac:(lia)) as PU.
  pose proof (top_limb_bound um un Hun ltac:(lia)) as Tu.
  pose proof (top_limb_of_lower um un Hun ltac:(lia)) as Tu1.
  pose proof (top_limb_bound vm vn Hvn Hvm) as Tv.
  pose proof (low_part_bound um un Hun) as Blu.
  pose proof (low_part_bound vm vn Hvn) as Blv.
  pose proof (vl_bound L _ (un - 1) (e - 1) ltac:(lia) ltac:(lia) Blu) as [U0 U1].
  pose proof (vl_bound L _ (vn - 1) (e - 1 - 1) ltac:(lia) ltac:(lia) Blv) as [V0 V1].
  pose proof (vl_top L um un e Hun HLu) as EU.
  pose proof (vl_top L vm vn (e - 1) Hvn ltac:(lia)) as EV.
  replace (e - 1 - 1 - L) with (e - 2 - L) in * by lia.
  assert (EG : B ^ (e - 1 - L) = B ^ (e - 2 - L) * B).
  { rewrite <- Bpow_succ by lia. f_equal. lia. }
  rewrite EG in *.
  pose proof (Bpow_pos (e - 2 - L) ltac:(lia)) as PG.
  set (G := B ^ (e - 2 - L)) in *.
  rewrite EU, EV.
  set (U' := vl L (low_part um un) (un - 1) (e - 1)) in *.
  set (V' := vl L (low_part vm vn) (vn - 1) (e - 1 - 1)) in *.
  assert (TV : (top_limb vm vn + 1) * G <= B * G) by (apply Z.mul_le_mono_nonneg_r; lia).
  destruct (Z.eq_dec (top_limb um un) 1) as [E1|N1].
  - rewrite E1.
    destruct (Z.eq_dec (top_limb vm vn) (B - 1)) as [E2|N2].
    + destruct Hpat as [H|[H|[Hun2 Hl]]]; [contradiction | contradiction |].
      rewrite (limb_at_second um un Hun2) in Hl.
      pose proof (top_limb_bound _ (un - 1) ltac:(lia) Blu) as T2.
      pose proof (vl_top L (low_part um un) (un - 1) (e - 1) ltac:(lia) ltac:(lia)) as EU2.
      replace (e - 1 - 1 - L) with (e - 2 - L) in EU2 by lia. fold G in EU2. fold U' in EU2.
      pose proof (low_part_bound (low_part um un) (un - 1) ltac:(lia)) as Bl2.
      pose proof (vl_bound L _ (un - 1 - 1) (e - 1 - 1) ltac:(lia) ltac:(lia) Bl2) as [W0 W1].
      assert (T : 1 * G <= top_limb (low_part um un) (un - 1) * G)
        by (apply Z.mul_le_mono_nonneg_r; lia).
      clear - EU2 W0 T TV V1. lia.
    + assert (T : (top_limb vm vn + 1) * G <= (B - 1) * G) by (apply Z.mul_le_mono_nonneg_r; lia).
      clear - T U0 V1. lia.
  - assert (T : 2 * (G * B) <= top_limb um un * (G * B))
      by (apply Z.mul_le_mono_nonneg_r; [apply Z.mul_nonneg_nonneg; lia | lia]).
    assert (G * 1 <= G * B) by (apply Z.mul_le_mono_nonneg_l; lia).
    clear - T TV U0 V1 H. lia.
Qed.

(* ---------- mpf_sub on non-zero operands, larger exponent first ---------- *)

(* X is the exact difference in units of B^L: it is zero and so is the result, or the result is
   accurate for X with sign neg, or for -X with the opposite sign *)
Definition ordered_post (prec L : Z) (neg : bool) (X : Z) (ex : Prop) (r : mpf) : Prop :=
  (X = 0 /\ r = mkf false 0 0 0)
  \/ delivers prec L neg X ex r
  \/ delivers prec L (negb neg) (- X) ex r.

Lemma delivers_weaken prec L neg X (ex ex' : Prop) r :
  (ex' -> ex) -> delivers prec L neg X ex r -> delivers prec L neg X ex' r.
Proof.
  intros Himp (Rv & R1 & R2 & R3 & R4). exists Rv.
  split; [exact R1|]. split; [exact R2|]. split; [exact R3|]. intros H. apply R4, Himp, H.
Qed.

Lemma after_strip_spec prec L neg um un vm vn e :
  1 <= prec -> 1 <= un -> 1 <= vn -> 0 <= um < B ^ un -> 0 <= vm < B ^ vn ->
  L <= e - un -> L <= e - vn -> top_limb um un <> top_limb vm vn ->
  ordered_post prec L neg (vl L um un e - vl L vm vn e)
    (lz um (e - un) (e - (prec + 1)) /\ lz vm (e - vn) (e - (prec + 1)))
    (sub_after_strip prec neg um un vm vn e).
Proof.
  intros Hp Hun Hvn Hum Hvm HLu HLv Ht.
  rewrite sub_after_strip_unfold. unfold ordered_post.
  destruct (Z.ltb_spec (top_limb um un) (top_limb vm vn)) as [Hlt|Hge].
  - right. right.
    replace (- (vl L um un e - vl L vm vn e)) with (vl L vm vn e - vl L um un e) by ring.
    apply (delivers_weaken _ _ _ _ (lz vm (e - vn) (e - (prec + 1)) /\ lz um (e - un) (e - (prec + 1))));
      [tauto|].
    apply after_strip_ord_spec; assumption.
  - right. left. apply after_strip_ord_spec; try assumption. lia.
Qed.

Lemma mpf_sub_ordered_spec prec L neg um un vm vn d e :
  1 <= prec -> 1 <= un -> 1 <= vn -> 0 <= d ->
  B ^ (un - 1) <= um < B ^ un -> B ^ (vn - 1) <= vm < B ^ vn ->
  L <= e - un -> L <= e - d - vn ->
  ordered_post prec L neg (vl L um un e - vl L vm vn (e - d))
    (lz um (e - un) (e - (prec + 1)) /\ lz vm (e - d - vn) (e - (prec + 1)))
    (mpf_sub_ordered prec neg um un vm vn d e).
Proof.
  intros Hp Hun Hvn Hd Hum Hvm HLu HLv.
  pose proof B_pos as HB0.
  pose proof (Bpow_pos (un - 1) ltac:(lia)) as PU. pose proof (Bpow_pos (vn - 1) ltac:(lia)) as PV.
  assert (Hum0 : 0 <= um < B ^ un) by lia. assert (Hvm0 : 0 <= vm < B ^ vn) by lia.
  unfold mpf_sub_ordered.
  destruct (Z.eqb_spec d 0) as [Zd|NZd].
  { subst d. replace (e - 0) with e in * by lia. replace (e - 0 - vn) with (e - vn) in * by lia.
    destruct (Z.eqb_spec (top_limb um un) (top_limb vm vn)) as [Et|Nt].
    2:{ apply after_strip_spec; assumption. }
    pose proof (strip_equal_spec L (Z.to_nat un) um un vm vn e Hun ltac:(rewrite Z2Nat.id; lia) Hvn
                  Hum0 Hvm0 HLu HLv Et) as HS.
    destruct (strip_equal (Z.to_nat un) um un vm vn e) as [flip M n e'|um' un' vm' vn' e'].
    - destruct HS as (S1 & S2 & S3 & S4).
      destruct (Z.eq_dec M 0) as [ZM|NZM].
      + left. subst M. split; [|apply sub_cancellation_zero; assumption].
        destruct flip; destruct S4 as (_ & _ & _ & S4); rewrite S4, vl_zero; reflexivity.
      + destruct flip; destruct S4 as (J1 & J2 & J3 & J4).
        * right. right. rewrite J4, Z.opp_involutive. rewrite xorb_true_r.
          destruct (sub_cancellation_spec prec L (negb neg) M n e' Hp S1 ltac:(lia) ltac:(lia))
            as (delta & C1 & C2 & C3 & C4).
          exists (vl L M n e' - delta). split; [exact C1|].
          pose proof (Bpow_nonneg (prec - 1)).
          assert (0 <= delta * B ^ (prec - 1)) by (apply Z.mul_nonneg_nonneg; lia).
          split; [lia|].
          split; [replace (vl L M n e' - delta - vl L M n e') with (- delta) by ring;
                  rewrite Z.abs_opp, Z.abs_eq by lia; exact C3|].
          intros [_ Hzv]. rewrite C4; [ring|].
          rewrite J3. replace (e' - n) with (e - vn) by lia.
          apply lz_low; [lia|]. apply (lz_mono _ _ (e - (prec + 1))); [lia | exact Hzv].
        * right. left. rewrite J4. rewrite xorb_false_r.
          destruct (sub_cancellation_spec prec L neg M n e' Hp S1 ltac:(lia) ltac:(lia))
            as (delta & C1 & C2 & C3 & C4).
          exists (vl L M n e' - delta). split; [exact C1|].
          pose proof (Bpow_nonneg (prec - 1)).
          assert (0 <= delta * B ^ (prec - 1)) by (apply Z.mul_nonneg_nonneg; lia).
          split; [lia|].
          split; [replace (vl L M n e' - delta - vl L M n e') with (- delta) by ring;
                  rewrite Z.abs_opp, Z.abs_eq by lia; exact C3|].
          intros [Hzu _]. rewrite C4; [ring|].
          rewrite J3. replace (e' - n) with (e - un) by lia.
          apply lz_low; [lia|]. apply (lz_mono _ _ (e - (prec + 1))); [lia | exact Hzu].
    - destruct HS as (S1 & S2 & S3 & S4 & S5 & S6 & S7 & S8 & S9 & S10 & S11).
      rewrite <- S11.
      pose proof (after_strip_spec prec L neg um' un' vm' vn' e' Hp ltac:(lia) ltac:(lia) S3 S4
                    ltac:(lia) ltac:(lia) S10) as HA.
      assert (Himp : lz um (e - un) (e - (prec + 1)) /\ lz vm (e - vn) (e - (prec + 1)) ->
                     lz um' (e' - un') (e' - (prec + 1)) /\ lz vm' (e' - vn') (e' - (prec + 1))).
      { intros [Hzu Hzv]. rewrite S6, S7, S8, S9. split.
        - apply lz_low; [lia|]. apply (lz_mono _ _ (e - (prec + 1))); [lia | exact Hzu].
        - apply lz_low; [lia|]. apply (lz_mono _ _ (e - (prec + 1))); [lia | exact Hzv]. }
      destruct HA as [[HA1 HA2]|[HA|HA]].
      + left. split; assumption.
      + right. left. apply (delivers_weaken _ _ _ _ _ _ _ Himp HA).
      + right. right. apply (delivers_weaken _ _ _ _ _ _ _ Himp HA). }
  right. left.
  destruct (Z.eqb_spec d 1) as [E1|N1].
  - subst d.
    destruct (negb (top_limb um un =? 1) || negb (top_limb vm vn =? B - 1)
              || (2 <=? un) && negb (limb_at um (un - 2) =? 0)) eqn:Epat.
    + assert (Hpat : top_limb um un <> 1 \/ top_limb vm vn <> B - 1
                     \/ (2 <= un /\ limb_at um (un - 2) <> 0)).
      { apply orb_true_iff in Epat. destruct Epat as [Epat|Epat].
        - apply orb_true_iff in Epat. destruct Epat as [Epat|Epat].
          + left. apply negb_true_iff, Z.eqb_neq in Epat. exact Epat.
          + right. left. apply negb_true_iff, Z.eqb_neq in Epat. exact Epat.
        - right. right. apply andb_true_iff in Epat. destruct Epat as [Ea Eb].
          apply Z.leb_le in Ea. apply negb_true_iff, Z.eqb_neq in Eb. split; assumption. }
      pose proof (general_lb_one L um un vm vn e Hun Hvn Hum Hvm0 HLu ltac:(lia) Hpat) as HLB.
      destruct (sub_general_spec prec L neg um un vm vn 1 e Hp Hun Hvn ltac:(lia) Hum Hvm0
                  HLu HLv HLB) as (Rv & R1 & R2 & R3 & R4).
      exists Rv. split; [exact R1|]. split; [exact R2|]. split; [exact R3|].
      intros [Hzu Hzv]. apply R4; assumption.
    + apply orb_false_iff in Epat. destruct Epat as [Epat _].
      apply orb_false_iff in Epat. destruct Epat as [Ea _].
      apply negb_false_iff, Z.eqb_eq in Ea.
      pose proof (low_part_bound um un Hun) as Blu.
      destruct (sub_close_spec prec L neg (low_part um un) (un - 1) vm vn (e - 1)
                  Hp ltac:(lia) ltac:(lia) Blu Hvm0 ltac:(lia) ltac:(lia)) as (Rv & R1 & R2 & R3 & R4).
      assert (EX : Xc L (low_part um un) (un - 1) vm vn (e - 1)
                   = vl L um un e - vl L vm vn (e - 1)).
      { unfold Xc. rewrite (vl_top L um un e Hun HLu), Ea. ring. }
      rewrite EX in *.
      exists Rv. split; [exact R1|]. split; [exact R2|]. split; [exact R3|].
      intros [Hzu Hzv]. apply R4.
      * replace (e - 1 - (un - 1)) with (e - un) by lia.
        replace (e - 1 - prec) with (e - (prec + 1)) by lia.
        unfold low_part. apply lz_low; [lia | exact Hzu].
      * replace (e - 1 - prec) with (e - (prec + 1)) by lia. exact Hzv.
  - pose proof (general_lb_far L um un vm vn d e Hun Hvn ltac:(lia) Hum Hvm0 HLu HLv) as HLB.
    destruct (sub_general_spec prec L neg um un vm vn d e Hp Hun Hvn Hd Hum Hvm0
                HLu HLv HLB) as (Rv & R1 & R2 & R3 & R4).
    exists Rv. split; [exact R1|]. split; [exact R2|]. split; [exact R3|].
    intros [Hzu Hzv]. apply R4; assumption.
Qed.

(* ---------- values as scaled integers ---------- *)

Lemma pow2_bits prec : 1 <= prec -> 2 ^ (bits_of_prec prec) = B ^ (prec - 1).
Proof.
  intros Hp. unfold bits_of_prec. rewrite B_two. rewrite <- Z.pow_mul_r by lia. f_equal. lia.
Qed.

Lemma diff_cross nu nv rn du dv rd su sv sr Mu Mv Mr Au Av Ar P W :
  nu * W = su * Mu * (P * Au) * du -> nv * W = sv * Mv * (P * Av) * dv ->
  rn * W = sr * Mr * (P * Ar) * rd ->
  (rn * (du * dv) - (nu * dv - nv * du) * rd) * W
    = (du * dv * rd * P) * (sr * Mr * Ar - (su * Mu * Au - sv * Mv * Av))
  /\ (nu * dv - nv * du) * rd * W = (du * dv * rd * P) * (su * Mu * Au - sv * Mv * Av).
Proof.
  intros H1 H2 H3. split.
  - transitivity ((rn * W) * (du * dv) - ((nu * W) * dv - (nv * W) * du) * rd); [ring|].
    rewrite H1, H2, H3. ring.
  - transitivity (((nu * W) * dv - (nv * W) * du) * rd); [ring|].
    rewrite H1, H2. ring.
Qed.

(* r against the exact difference of u and v, everything scaled to integers above the position lo *)
Lemma diff_reduce u v r lo :
  lo <= fexp u - fn u -> lo <= fexp v - fn v -> lo <= fexp r - fn r ->
  exists C W, 0 < C /\ 0 < W
    /\ (fnum r * sub_den u v - sub_num u v * fden r) * W
         = C * (sg (fneg r) * fM r * B ^ (fexp r - fn r - lo)
                - (sg (fneg u) * fM u * B ^ (fexp u - fn u - lo)
                   - sg (fneg v) * fM v * B ^ (fexp v - fn v - lo)))
    /\ sub_num u v * fden r * W
         = C * (sg (fneg u) * fM u * B ^ (fexp u - fn u - lo)
                - sg (fneg v) * fM v * B ^ (fexp v - fn v - lo)).
Proof.
  intros Hlu Hlv Hlr.
  pose proof B_pos as HB0.
  set (au := fexp u - fn u) in *. set (av := fexp v - fn v) in *. set (ar := fexp r - fn r) in *.
  set (K := Z.abs au + Z.abs av + Z.abs ar + Z.abs lo).
  assert (HK : 0 <= K) by (unfold K; lia).
  assert (HKl : 0 <= K + lo) by (unfold K; lia).
  assert (Hau : 0 <= K + au) by (unfold K; lia).
  assert (Hav : 0 <= K + av) by (unfold K; lia).
  assert (Har : 0 <= K + ar) by (unfold K; lia).
  pose proof (fnum_scaled u K HK Hau) as Eu.
  pose proof (fnum_scaled v K HK Hav) as Ev.
  pose proof (fnum_scaled r K HK Har) as Er.
  fold au in Eu. fold av in Ev. fold ar in Er.
  rewrite (Bpow_split (K + au) (K + lo) (au - lo)) in Eu by lia.
  rewrite (Bpow_split (K + av) (K + lo) (av - lo)) in Ev by lia.
  rewrite (Bpow_split (K + ar) (K + lo) (ar - lo)) in Er by lia.
  destruct (diff_cross _ _ _ _ _ _ _ _ _ _ _ _ _ _ _ _ _ Eu Ev Er) as [R1 R2].
  pose proof (fden_pos u) as Pu. pose proof (fden_pos v) as Pv. pose proof (fden_pos r) as Pr.
  exists (fden u * fden v * fden r * B ^ (K + lo)), (B ^ K).
  split; [repeat apply Z.mul_pos_pos; try assumption; apply Bpow_pos; exact HKl|].
  split; [apply Bpow_pos; exact HK|].
  unfold sub_num, sub_den. split; [exact R1 | exact R2].
Qed.

Lemma sg_negb b : sg (negb b) = - sg b.
Proof. destruct b; reflexivity. Qed.

Lemma zero_wf prec : 1 <= prec -> mpf_wf prec (mkf false 0 0 0).
Proof. intros Hp. unfold mpf_wf. cbn [fM fn fexp]. repeat split; lia. Qed.

Lemma repr_wf prec L neg Rv r : repr prec L neg Rv r -> mpf_wf prec r.
Proof.
  intros (H1 & H2 & H3 & _). unfold mpf_wf.
  split; [intros Hc; lia|]. split; [intros _; split; assumption | exact H3].
Qed.

(* a result accurate for t X (t = 1 or -1) carrying the sign s t, against the exact difference s X *)
Lemma delivers_to_theorem prec L neg s t X (ex : Prop) u v r :
  1 <= prec -> (s = 1 \/ s = -1) -> (t = 1 \/ t = -1) -> sg neg = s * t ->
  L <= fexp u - fn u -> L <= fexp v - fn v ->
  sg (fneg u) * fM u * B ^ (fexp u - fn u - L) - sg (fneg v) * fM v * B ^ (fexp v - fn v - L) = s * X ->
  delivers prec L neg (t * X) ex r ->
  mpf_wf prec r
  /\ acc_ok (bits_of_prec prec + 2) (sub_num u v) (sub_den u v) (fnum r) (fden r) = true
  /\ (ex -> fnum r * sub_den u v = sub_num u v * fden r).
Proof.
  intros Hp Hs Ht Hsg HLu HLv HE (Rv & HR & HX & Herr & Hex).
  pose proof B_pos as HB0.
  split; [exact (repr_wf _ _ _ _ _ HR)|].
  destruct HR as (R1 & R2 & R3 & R4 & R5 & R6).
  destruct (diff_reduce u v r L HLu HLv R5) as (C & W & HC & HW & D1 & D2).
  rewrite HE in D1, D2. rewrite R4, Hsg in D1.
  replace (s * t * fM r * B ^ (fexp r - fn r - L)) with (s * t * (fM r * B ^ (fexp r - fn r - L))) in D1 by ring.
  rewrite R6 in D1.
  assert (Htt : t * t = 1) by (destruct Ht; subst t; reflexivity).
  assert (D1' : (fnum r * sub_den u v - sub_num u v * fden r) * W = (s * t) * C * (Rv - t * X)).
  { rewrite D1. transitivity (C * (s * t * Rv - s * (t * t) * X)); [rewrite Htt|]; ring. }
  assert (D2' : sub_num u v * fden r * W = (s * t) * C * (t * X)).
  { rewrite D2. transitivity (C * (s * (t * t) * X)); [rewrite Htt|]; ring. }
  assert (Hst : s * t = 1 \/ s * t = -1) by (destruct Hs, Ht; subst s t; auto).
  pose proof (fden_pos r) as Prd.
  split.
  - unfold acc_ok.
    destruct (Z.eqb_spec (sub_num u v) 0) as [Hc|_].
    { exfalso. rewrite Hc in D2'. rewrite !Z.mul_0_l in D2'. symmetry in D2'.
      apply Z.mul_eq_0 in D2'. destruct D2' as [D2'|D2']; [|lia].
      apply Z.mul_eq_0 in D2'. destruct D2' as [D2'|D2']; lia. }
    apply Z.ltb_lt. replace (bits_of_prec prec + 2 - 2) with (bits_of_prec prec) by lia.
    rewrite (pow2_bits prec Hp).
    apply (acc_from_reduce _ _ _ W C (s * t) (Rv - t * X) (t * X)); try assumption. lia.
  - intros He. rewrite (Hex He) in D1'.
    assert (HX0 : (fnum r * sub_den u v - sub_num u v * fden r) * W = 0) by (rewrite D1'; ring).
    apply Z.mul_eq_0 in HX0. destruct HX0 as [HX0|HX0]; [clear - HX0; lia | clear - HX0 HW; lia].
Qed.

Lemma post_to_theorem prec L neg X (ex : Prop) u v r :
  1 <= prec -> L <= fexp u - fn u -> L <= fexp v - fn v -> L <= 0 ->
  sg (fneg u) * fM u * B ^ (fexp u - fn u - L) - sg (fneg v) * fM v * B ^ (fexp v - fn v - L)
    = sg neg * X ->
  ordered_post prec L neg X ex r ->
  mpf_wf prec r
  /\ acc_ok (bits_of_prec prec + 2) (sub_num u v) (sub_den u v) (fnum r) (fden r) = true
  /\ (ex -> fnum r * sub_den u v = sub_num u v * fden r).
Proof.
  intros Hp HLu HLv HL0 HE [[HX Hr]|[HD|HD]].
  - subst r X. split; [apply zero_wf; exact Hp|].
    destruct (diff_reduce u v (mkf false 0 0 0) L HLu HLv ltac:(cbn [fexp fn]; lia))
      as (C & W & HC & HW & _ & D2).
    rewrite HE, Z.mul_0_r, Z.mul_0_r in D2.
    assert (Hn : sub_num u v = 0).
    { apply Z.mul_eq_0 in D2. destruct D2 as [D2|D2]; [|lia].
      apply Z.mul_eq_0 in D2. destruct D2 as [D2|D2]; [exact D2|].
      pose proof (fden_pos (mkf false 0 0 0)). lia. }
    rewrite Hn. split; [reflexivity|]. intros _. reflexivity.
  - apply (delivers_to_theorem prec L neg (sg neg) 1 X ex u v r); try assumption.
    + apply sg_cases.
    + left; reflexivity.
    + ring.
    + replace (1 * X) with X by ring. exact HD.
  - apply (delivers_to_theorem prec L (negb neg) (sg neg) (-1) X ex u v r); try assumption.
    + apply sg_cases.
    + right; reflexivity.
    + rewrite sg_negb. ring.
Qed.

(* ---------- a zero operand: mpf_neg / mpf_set ---------- *)

Lemma cancellation_delivers prec L neg M n e :
  1 <= prec -> 0 <= n -> L <= e - n -> 0 < M < B ^ n ->
  delivers prec L neg (vl L M n e) (lz M (e - n) (e - (prec + 1))) (sub_cancellation prec neg M n e).
Proof.
  intros Hp Hn HL HM. pose proof B_pos as HB0.
  destruct (sub_cancellation_spec prec L neg M n e Hp Hn HL HM) as (delta & C1 & C2 & C3 & C4).
  exists (vl L M n e - delta). split; [exact C1|].
  pose proof (Bpow_nonneg (prec - 1)).
  assert (0 <= delta * B ^ (prec - 1)) by (apply Z.mul_nonneg_nonneg; lia).
  split; [lia|].
  split; [replace (vl L M n e - delta - vl L M n e) with (- delta) by ring;
          rewrite Z.abs_opp, Z.abs_eq by lia; exact C3|].
  intros Hz. rewrite (C4 Hz). ring.
Qed.

Lemma top_as_cancellation prec neg M n e :
  1 <= prec -> 0 < M -> n = nlimbs M ->
  (let '(m, k) := top_limbs M n (prec + 1) in mkf neg m k e) = sub_cancellation prec neg M n e.
Proof.
  intros Hp HM Hn. pose proof B_pos as HB0.
  pose proof (nlimbs_pos M HM) as Hn1. destruct (nlimbs_spec M HM) as [Hlo Hhi].
  unfold sub_cancellation.
  rewrite (strip_high_zeros_spec (Z.to_nat n) M n e ltac:(lia) ltac:(rewrite Z2Nat.id; lia))
    by (rewrite Hn; pose proof (Bpow_pos (nlimbs M - 1) ltac:(lia)); lia).
  rewrite <- Hn. replace (e - (n - n)) with e by lia.
  rewrite top_limbs_shape. unfold sub_done.
  destruct (Z.eqb_spec (n - Z.max 0 (n - (prec + 1))) 0) as [Hc|_]; [lia | reflexivity].
Qed.

Lemma low_zero_lz x c : low_zero x c -> lz (fM x) (fexp x - fn x) c.
Proof.
  intros [H|H]; [apply lz_below; exact H|].
  unfold lz. destruct (Z_le_gt_dec c (fexp x - fn x)) as [Hle|Hgt].
  - rewrite Z.max_l by lia. change (B ^ 0) with 1. apply Z.mod_1_r.
  - rewrite Z.max_r by lia. exact H.
Qed.

(* ---------- main theorems ---------- *)

Lemma sub_zero_zero prec neg u v :
  1 <= prec -> fM u = 0 -> fM v = 0 ->
  let r := mkf neg 0 0 0 in
  mpf_wf prec r
  /\ acc_ok (bits_of_prec prec + 2) (sub_num u v) (sub_den u v) (fnum r) (fden r) = true
  /\ fnum r * sub_den u v = sub_num u v * fden r.
Proof.
  intros Hp Zu Zv r.
  assert (Hn : sub_num u v = 0) by (unfold sub_num; rewrite (fnum_zero u Zu), (fnum_zero v Zv); ring).
  assert (Hr : fnum r = 0) by (apply fnum_zero; reflexivity).
  rewrite Hn, Hr. split; [unfold mpf_wf, r; cbn [fM fn fexp]; repeat split; lia|].
  split; reflexivity.
Qed.

(* mpf_sub on well-formed operands (of ANY lengths) that do not have opposite signs, for every
   destination precision prec >= 1 limbs, p = mpf_get_prec = 64 (prec - 1):
   - the result is well formed for prec (at most prec + 1 limbs, top limb non-zero, or zero);
   - |r - (u - v)| < 2^(-p) |u - v|  (and r = 0 when u = v): two bits better than the
     certificate asks for, however close u and v are;
   - r = u - v exactly when every limb below the window of prec + 1 limbs under the larger
     exponent is zero (sub_nothing_lost). *)
Theorem mpf_sub_accurate_sharp : forall prec u v pu pv,
  1 <= prec -> mpf_wf pu u -> mpf_wf pv v -> same_sign u v ->
  mpf_wf prec (mpf_sub prec u v)
  /\ acc_ok (bits_of_prec prec + 2) (sub_num u v) (sub_den u v)
            (fnum (mpf_sub prec u v)) (fden (mpf_sub prec u v)) = true
  /\ (sub_nothing_lost prec u v ->
      fnum (mpf_sub prec u v) * sub_den u v = sub_num u v * fden (mpf_sub prec u v)).
Proof.
  intros prec u v pu pv Hp (Hu0 & Hu1 & _) (Hv0 & Hv1 & _) Hss.
  pose proof B_pos as HB0.
  unfold mpf_sub.
  destruct (Z.eq_dec (fM u) 0) as [Zu|NZu].
  { destruct (Hu0 Zu) as [Hnu Heu]. rewrite Hnu. cbn [Z.eqb].
    destruct (Z.eq_dec (fM v) 0) as [Zv|NZv].
    - destruct (Hv0 Zv) as [Hnv Hev].
      unfold mpf_neg. rewrite Zv, Hnv, Hev, top_limbs_shape.
      replace (Z.max 0 (0 - (prec + 1))) with 0 by lia. change (0 / B ^ 0) with 0. change (0 - 0) with 0.
      destruct (sub_zero_zero prec (negb (fneg v)) u v Hp Zu Zv) as (A1 & A2 & A3).
      split; [exact A1|]. split; [exact A2|]. intros _. exact A3.
    - destruct (Hv1 NZv) as [Hnv HMv].
      pose proof (nlimbs_pos _ HMv) as Hnv1. destruct (nlimbs_spec _ HMv) as [Hlo Hhi].
      rewrite <- Hnv in Hnv1, Hlo, Hhi.
      unfold mpf_neg. rewrite (top_as_cancellation prec _ _ _ _ Hp HMv Hnv).
      set (L := Z.min (fexp v - fn v) 0).
      pose proof (cancellation_delivers prec L (negb (fneg v)) (fM v) (fn v) (fexp v) Hp ltac:(lia)
                    ltac:(unfold L; lia) ltac:(lia)) as HD.
      destruct (post_to_theorem prec L (negb (fneg v)) (vl L (fM v) (fn v) (fexp v)) _ u v _ Hp
                  ltac:(unfold L; lia) ltac:(unfold L; lia) ltac:(unfold L; lia)
                  ltac:(rewrite Zu, sg_negb; unfold vl; ring) (or_intror (or_introl HD)))
        as (A1 & A2 & A3).
      split; [exact A1|]. split; [exact A2|].
      intros (Hw & _ & _). apply A3. apply low_zero_lz. exact (Hw Zu). }
  destruct (Hu1 NZu) as [Hnu HMu].
  pose proof (nlimbs_pos _ HMu) as Hnu1. destruct (nlimbs_spec _ HMu) as [Hulo Huhi].
  rewrite <- Hnu in Hnu1, Hulo, Huhi.
  destruct (Z.eqb_spec (fn u) 0) as [Hc|_]; [lia|].
  destruct (Z.eq_dec (fM v) 0) as [Zv|NZv].
  { destruct (Hv0 Zv) as [Hnv Hev]. rewrite Hnv. cbn [Z.eqb].
    unfold mpf_set. rewrite (top_as_cancellation prec _ _ _ _ Hp HMu Hnu).
    set (L := Z.min (fexp u - fn u) 0).
    pose proof (cancellation_delivers prec L (fneg u) (fM u) (fn u) (fexp u) Hp ltac:(lia)
                  ltac:(unfold L; lia) ltac:(lia)) as HD.
    destruct (post_to_theorem prec L (fneg u) (vl L (fM u) (fn u) (fexp u)) _ u v _ Hp
                ltac:(unfold L; lia) ltac:(unfold L; lia) ltac:(unfold L; lia)
                ltac:(rewrite Zv; unfold vl; ring) (or_intror (or_introl HD)))
      as (A1 & A2 & A3).
    split; [exact A1|]. split; [exact A2|].
    intros (_ & Hw & _). apply A3. apply low_zero_lz. exact (Hw Zv). }
  destruct (Hv1 NZv) as [Hnv HMv].
  pose proof (nlimbs_pos _ HMv) as Hnv1. destruct (nlimbs_spec _ HMv) as [Hvlo Hvhi].
  rewrite <- Hnv in Hnv1, Hvlo, Hvhi.
  destruct (Z.eqb_spec (fn v) 0) as [Hc|_]; [lia|].
  pose proof (Hss NZu NZv) as Hneg.
  rewrite Hneg, eqb_reflx. cbn [negb].
  set (L := Z.min (Z.min (fexp u - fn u) (fexp v - fn v)) 0).
  destruct (Z.ltb_spec (fexp u) (fexp v)) as [Hsw|Hns].
  - pose proof (mpf_sub_ordered_spec prec L (negb (fneg v)) (fM v) (fn v) (fM u) (fn u)
                  (fexp v - fexp u) (fexp v) Hp Hnv1 Hnu1 ltac:(lia) (conj Hvlo Hvhi) (conj Hulo Huhi)
                  ltac:(unfold L; lia) ltac:(unfold L; lia)) as HP.
    replace (fexp v - (fexp v - fexp u)) with (fexp u) in HP by lia.
    destruct (post_to_theorem prec L (negb (fneg v))
                (vl L (fM v) (fn v) (fexp v) - vl L (fM u) (fn u) (fexp u)) _ u v _ Hp
                ltac:(unfold L; lia) ltac:(unfold L; lia) ltac:(unfold L; lia)
                ltac:(rewrite Hneg, sg_negb; unfold vl; ring) HP)
      as (A1 & A2 & A3).
    split; [exact A1|]. split; [exact A2|].
    intros (_ & _ & Hw). destruct (Hw NZu NZv) as [Hwu Hwv].
    rewrite Z.max_r in Hwu, Hwv by lia.
    apply A3. split; apply low_zero_lz; assumption.
  - pose proof (mpf_sub_ordered_spec prec L (fneg v) (fM u) (fn u) (fM v) (fn v)
                  (fexp u - fexp v) (fexp u) Hp Hnu1 Hnv1 ltac:(lia) (conj Hulo Huhi) (conj Hvlo Hvhi)
                  ltac:(unfold L; lia) ltac:(unfold L; lia)) as HP.
    replace (fexp u - (fexp u - fexp v)) with (fexp v) in HP by lia.
    destruct (post_to_theorem prec L (fneg v)
                (vl L (fM u) (fn u) (fexp u) - vl L (fM v) (fn v) (fexp v)) _ u v _ Hp
                ltac:(unfold L; lia) ltac:(unfold L; lia) ltac:(unfold L; lia)
                ltac:(rewrite Hneg; unfold vl; ring) HP)
      as (A1 & A2 & A3).
    split; [exact A1|]. split; [exact A2|].
    intros (_ & _ & Hw). destruct (Hw NZu NZv) as [Hwu Hwv].
    rewrite Z.max_l in Hwu, Hwv by lia.
    apply A3. split; apply low_zero_lz; assumption.
Qed.

Lemma add_window_sub_nothing_lost prec u v : add_window prec u v -> sub_nothing_lost prec u v.
Proof.
  intros (Hu & Hv & Hw). unfold sub_nothing_lost, low_zero.
  split; [intros _; left; lia|]. split; [intros _; left; lia|].
  intros NZu NZv. specialize (Hw NZu NZv). split; left; lia.
Qed.

(* (c) the certificate bound 2^(2-p) *)
Theorem mpf_sub_accurate : forall prec u v pu pv,
  1 <= prec -> mpf_wf pu u -> mpf_wf pv v -> same_sign u v ->
  mpf_wf prec (mpf_sub prec u v)
  /\ acc_ok (bits_of_prec prec) (sub_num u v) (sub_den u v)
            (fnum (mpf_sub prec u v)) (fden (mpf_sub prec u v)) = true
  /\ (add_window prec u v ->
      fnum (mpf_sub prec u v) * sub_den u v = sub_num u v * fden (mpf_sub prec u v)).
Proof.
  intros prec u v pu pv Hp Hu Hv Hss.
  destruct (mpf_sub_accurate_sharp prec u v pu pv Hp Hu Hv Hss) as (A1 & A2 & A3).
  split; [exact A1|].
  split; [apply acc_ok_weaken, acc_ok_weaken;
          replace (bits_of_prec prec + 1 + 1) with (bits_of_prec prec + 2) by lia; exact A2|].
  intros Hw. apply A3, add_window_sub_nothing_lost, Hw.
Qed.

(* (a) *)
Theorem mpf_sub_wf : forall prec u v pu pv,
  1 <= prec -> mpf_wf pu u -> mpf_wf pv v -> same_sign u v -> mpf_wf prec (mpf_sub prec u v).
Proof.
  intros prec u v pu pv Hp Hu Hv Hss.
  exact (proj1 (mpf_sub_accurate prec u v pu pv Hp Hu Hv Hss)).
Qed.

(* (b) *)
Theorem mpf_sub_exact_when_representable : forall prec u v pu pv,
  1 <= prec -> mpf_wf pu u -> mpf_wf pv v -> same_sign u v -> add_window prec u v ->
  fnum (mpf_sub prec u v) * sub_den u v = sub_num u v * fden (mpf_sub prec u v).
Proof.
  intros prec u v pu pv Hp Hu Hv Hss Hw.
  exact (proj2 (proj2 (mpf_sub_accurate prec u v pu pv Hp Hu Hv Hss)) Hw).
Qed.

(* the result has the sign of the exact difference (and is zero exactly when u = v) *)
Theorem mpf_sub_sign : forall prec u v pu pv,
  1 <= prec -> mpf_wf pu u -> mpf_wf pv v -> same_sign u v ->
  Z.sgn (fnum (mpf_sub prec u v)) = Z.sgn (sub_num u v).
Proof.
  intros prec u v pu pv Hp Hu Hv Hss.
  destruct (mpf_sub_accurate_sharp prec u v pu pv Hp Hu Hv Hss) as (_ & A2 & _).
  pose proof B_pos as HB0.
  set (r := mpf_sub prec u v) in *.
  unfold acc_ok in A2.
  destruct (Z.eqb_spec (sub_num u v) 0) as [Hz|Hnz].
  { apply Z.eqb_eq in A2. rewrite A2, Hz. reflexivity. }
  apply Z.ltb_lt in A2.
  replace (bits_of_prec prec + 2 - 2) with (bits_of_prec prec) in A2 by lia.
  rewrite (pow2_bits prec Hp) in A2.
  pose proof (fden_pos r) as Prd.
  assert (Ped : 0 < sub_den u v) by (unfold sub_den; apply Z.mul_pos_pos; apply fden_pos).
  pose proof (Bpow_ge1 (prec - 1) ltac:(lia)) as HK.
  set (a := fnum r * sub_den u v) in *. set (b := sub_num u v * fden r).
  assert (Hab : Z.abs (a - b) < Z.abs b).
  { assert (Z.abs (a - b) * 1 <= Z.abs (a - b) * B ^ (prec - 1))
      by (apply Z.mul_le_mono_nonneg_l; [apply Z.abs_nonneg | exact HK]).
    unfold b. rewrite Z.abs_mul, (Z.abs_eq (fden r)) by lia. fold b. lia. }
  assert (Hs : Z.sgn a = Z.sgn b) by lia.
  unfold a, b in Hs. rewrite !Z.sgn_mul in Hs.
  rewrite (Z.sgn_pos (sub_den u v) Ped), (Z.sgn_pos (fden r) Prd) in Hs. lia.
Qed.

(* ---------- operands of different signs: mpf_add on u and -v ---------- *)

Lemma fnum_opp v : fnum (mpf_opp v) = - fnum v.
Proof. unfold fnum, mpf_opp. cbn [fneg fM fn fexp]. destruct (fneg v), (0 <=? fexp v - fn v); cbn [negb]; ring. Qed.

Lemma fden_opp v : fden (mpf_opp v) = fden v.
Proof. reflexivity. Qed.

Lemma add_opp_sub u v : add_num u (mpf_opp v) = sub_num u v /\ add_den u (mpf_opp v) = sub_den u v.
Proof. unfold add_num, sub_num, add_den, sub_den. rewrite fnum_opp, fden_opp. split; ring. Qed.

Lemma sub_full_same prec u v :
  (fn u = 0 \/ fn v = 0 \/ fneg u = fneg v) -> mpf_sub_full prec u v = mpf_sub prec u v.
Proof.
  intros H. unfold mpf_sub_full, mpf_sub.
  destruct (Z.eqb_spec (fn u) 0) as [Zu|NZu]; [reflexivity|].
  destruct (Z.eqb_spec (fn v) 0) as [Zv|NZv]; [reflexivity|].
  destruct H as [H|[H|H]]; [contradiction | contradiction |].
  rewrite H, eqb_reflx. reflexivity.
Qed.

(* the complete mpf_sub, operands of any signs and lengths: well formed, accurate to 2^(1-p)
   (2^(-p) when the signs are equal), exact when both operands lie in the window of prec limbs *)
Theorem mpf_sub_full_accurate : forall prec u v pu pv,
  1 <= prec -> mpf_wf pu u -> mpf_wf pv v ->
  mpf_wf prec (mpf_sub_full prec u v)
  /\ acc_ok (bits_of_prec prec + 1) (sub_num u v) (sub_den u v)
            (fnum (mpf_sub_full prec u v)) (fden (mpf_sub_full prec u v)) = true
  /\ (add_window prec u v ->
      fnum (mpf_sub_full prec u v) * sub_den u v = sub_num u v * fden (mpf_sub_full prec u v)).
Proof.
  intros prec u v pu pv Hp Hu Hv.
  assert (Hsame : (fn u = 0 \/ fn v = 0 \/ fneg u = fneg v) -> same_sign u v ->
    mpf_wf prec (mpf_sub_full prec u v)
    /\ acc_ok (bits_of_prec prec + 1) (sub_num u v) (sub_den u v)
              (fnum (mpf_sub_full prec u v)) (fden (mpf_sub_full prec u v)) = true
    /\ (add_window prec u v ->
        fnum (mpf_sub_full prec u v) * sub_den u v = sub_num u v * fden (mpf_sub_full prec u v))).
  { intros Hc Hss. rewrite (sub_full_same prec u v Hc).
    destruct (mpf_sub_accurate_sharp prec u v pu pv Hp Hu Hv Hss) as (A1 & A2 & A3).
    split; [exact A1|].
    split; [apply acc_ok_weaken; replace (bits_of_prec prec + 1 + 1) with (bits_of_prec prec + 2) by lia;
            exact A2|].
    intros Hw. apply A3, add_window_sub_nothing_lost, Hw. }
  destruct Hu as (Hu0 & Hu1 & Hu2). destruct Hv as (Hv0 & Hv1 & Hv2).
  destruct (Z.eq_dec (fM u) 0) as [Zu|NZu].
  { apply Hsame; [left; exact (proj1 (Hu0 Zu)) | intros H; contradiction]. }
  destruct (Z.eq_dec (fM v) 0) as [Zv|NZv].
  { apply Hsame; [right; left; exact (proj1 (Hv0 Zv)) | intros _ H; contradiction]. }
  destruct (bool_dec (fneg u) (fneg v)) as [Es|Ns].
  { apply Hsame; [right; right; exact Es | intros _ _; exact Es]. }
  clear Hsame.
  destruct (Hu1 NZu) as [Hnu HMu]. destruct (Hv1 NZv) as [Hnv HMv].
  pose proof (nlimbs_pos _ HMu) as Hnu1. pose proof (nlimbs_pos _ HMv) as Hnv1.
  assert (Hfull : mpf_sub_full prec u v = mpf_add prec u (mpf_opp v)).
  { unfold mpf_sub_full.
    destruct (Z.eqb_spec (fn u) 0) as [Hc|_]; [lia|].
    destruct (Z.eqb_spec (fn v) 0) as [Hc|_]; [lia|].
    destruct (fneg u), (fneg v); try reflexivity; exfalso; apply Ns; reflexivity. }
  rewrite Hfull.
  assert (Hwf' : mpf_wf pv (mpf_opp v)).
  { unfold mpf_wf, mpf_opp. cbn [fM fn fexp]. split; [exact Hv0|]. split; [exact Hv1 | exact Hv2]. }
  assert (Hss : same_sign u (mpf_opp v)).
  { intros _ _. unfold mpf_opp. cbn [fneg]. destruct (fneg u), (fneg v); try reflexivity; exfalso;
      apply Ns; reflexivity. }
  destruct (mpf_add_accurate_sharp prec u (mpf_opp v) pu pv Hp (conj Hu0 (conj Hu1 Hu2)) Hwf' Hss)
    as (A1 & _ & A2 & A3).
  destruct (add_opp_sub u v) as [En Ed]. rewrite En, Ed in A2, A3.
  split; [exact A1|]. split; [exact A2|].
  intros Hw. apply A3. apply add_window_nothing_lost. exact Hw.
Qed.

(* ---------- every path on concrete operands ---------- *)

(* limb vectors written most significant limb first; MX is GMP_NUMB_MAX *)
Fixpoint limbs_val (l : list Z) : Z :=
  match l with [] => 0 | x :: r => x * B ^ Z.of_nat (length r) + limbs_val r end.
Definition fl (neg : bool) (l : list Z) (e : Z) : mpf := mkf neg (limbs_val l) (Z.of_nat (length l)) e.
Definition MX : Z := B - 1.
Definition sub_exact (u v r : mpf) : bool := fnum r * sub_den u v =? sub_num u v * fden r.

(* a zero operand: mpf_neg / mpf_set keep prec + 1 limbs; equal operands; opposite signs (dummy) *)
Example mpf_sub_ex_special :
  mpf_sub 2 (fl false [] 0) (fl true [1; 2; 3; 4] 5) = fl false [1; 2; 3] 5
  /\ mpf_sub 2 (fl true [1; 2; 3; 4] 5) (fl false [] 0) = fl true [1; 2; 3] 5
  /\ mpf_sub 2 (fl true [7; 5] 3) (fl true [7; 5] 3) = fl false [] 0
  /\ mpf_sub 2 (fl true [7; 5] 3) (fl false [7; 5] 3) = fl false [] 0.
Proof. vm_compute. repeat split; reflexivity. Qed.

(* ediff = 0, one operand cancels the leading limbs of the other ("cancellation"):
   u exhausted: the rest of v, high zeros stripped, cut to prec + 1 = 3 limbs, sign flipped;
   v exhausted: the rest of u *)
Example mpf_sub_ex_cancellation :
  mpf_sub 2 (fl false [7; 5] 3) (fl false [7; 5; 0; 0; 9; 8; 7; 6] 3) = fl true [9; 8; 7] (-1)
  /\ mpf_sub 2 (fl false [7; 5; 0; 3; 1] 3) (fl false [7; 5] 3) = fl false [3; 1] 0
  /\ sub_exact (fl false [7; 5; 0; 3; 1] 3) (fl false [7; 5] 3) (fl false [3; 1] 0) = true.
Proof. vm_compute. repeat split; reflexivity. Qed.

(* ediff = 0, equal leading limbs stripped, then leading limbs differing by more than one: the general
   case on the stripped operands; the first with a swap (u < v), the second cut to prec + 1 limbs *)
Example mpf_sub_ex_strip_general :
  mpf_sub 2 (fl false [7; 5; 3] 3) (fl false [7; 9; 1] 3) = fl true [3; B - 2] 2
  /\ sub_exact (fl false [7; 5; 3] 3) (fl false [7; 9; 1] 3) (fl true [3; B - 2] 2) = true
  /\ mpf_sub 2 (fl false [7; 9; 1; 4; 4] 3) (fl false [7; 5; 3] 3) = fl false [3; B - 2; 4] 2.
Proof. vm_compute. repeat split; reflexivity. Qed.

(* the near-cancellation path from ediff = 0 ("x+1 / x"), all exits:
   v exhausted (tp[size] = 1), after the 00/ff limbs have been skipped;
   u exhausted, MAX limbs of v stripped, v cut to prec limbs, two's complement;
   u exhausted and the complement carries out (v = 0);
   usize >= vsize without and with a borrow;  usize < vsize without and with a borrow;
   usize < vsize where the final mpn_add_1 carries out *)
Example mpf_sub_ex_close :
  mpf_sub 2 (fl false [8] 3) (fl false [7] 3) = fl false [1] 3
  /\ mpf_sub 2 (fl false [8; 0; 0; 5] 3) (fl false [7; MX; MX] 3) = fl false [1; 5] 1
  /\ mpf_sub 2 (fl false [8] 3) (fl false [7; MX; MX; MX; MX - 1; 9; 9; 9] 3) = fl false [1; B - 9] (-1)
  /\ mpf_sub 2 (fl false [8; 0; 0] 3) (fl false [7; MX; MX; 0] 3) = fl false [1; 0] 1
  /\ mpf_sub 3 (fl false [8; 3; 4; 5] 3) (fl false [7; 1; 2] 3) = fl false [1; 2; 2; 5] 3
  /\ mpf_sub 3 (fl false [8; 1; 4; 5] 3) (fl false [7; 3; 2] 3) = fl false [B - 2; 2; 5] 2
  /\ mpf_sub 3 (fl false [8; 3] 3) (fl false [7; 1; 2; 6] 3) = fl false [1; 1; B - 3; B - 6] 3
  /\ mpf_sub 3 (fl false [8; 1] 3) (fl false [7; 3; 2; 6] 3) = fl false [B - 3; B - 3; B - 6] 2
  /\ mpf_sub 3 (fl false [8; 3] 3) (fl false [7; 3; 0; 0] 3) = fl false [1; 0; 0; 0] 3.
Proof. vm_compute. repeat split; reflexivity. Qed.

(* ediff = 1: "1 00000000 ... / 0 ffffffff ..." goes to the near-cancellation path (here with the
   operands in both orders, negative operands); otherwise the general case, where normalize strips
   the high zero limb *)
Example mpf_sub_ex_ediff1 :
  mpf_sub 2 (fl true [1; 0; 0; 6] 4) (fl true [MX; MX; MX; 2] 3) = fl true [6; B - 2] 1
  /\ mpf_sub 2 (fl true [MX; MX; MX; 2] 3) (fl true [1; 0; 0; 6] 4) = fl false [6; B - 2] 1
  /\ sub_exact (fl true [1; 0; 0; 6] 4) (fl true [MX; MX; MX; 2] 3) (fl true [6; B - 2] 1) = true
  /\ mpf_sub 2 (fl false [1; 0; 5] 4) (fl false [MX - 1; 4] 3) = fl false [2; 1] 3
  /\ mpf_sub 2 (fl false [1; 1; 5] 4) (fl false [MX; 4] 3) = fl false [2; 1] 3.
Proof. vm_compute. repeat split; reflexivity. Qed.

(* the general case, prec = 3 (prec + 1 = 4 limbs kept): v inside u; v below u (its limb 6 is cut
   off); gap (prec = 4); gap with v cut; V completely cancelled (prec = 2, ediff = 3: u is cut to
   3 limbs and its low zero limbs stay); low zero limbs of u and v skipped; v zero after the cut *)
Example mpf_sub_ex_general :
  mpf_sub 3 (fl false [7; 5; 3; 2] 5) (fl false [9] 3) = fl false [7; 4; B - 6; 2] 5
  /\ mpf_sub 3 (fl false [7; 5] 5) (fl false [9; 4; 6] 3) = fl false [7; 4; B - 10; B - 4] 5
  /\ mpf_sub 4 (fl false [7] 5) (fl false [9; 1] 2) = fl false [6; MX; MX; B - 10; MX] 5
  /\ mpf_sub 3 (fl false [7] 5) (fl false [9; 1] 2) = fl false [6; MX; MX; B - 9] 5
  /\ mpf_sub 2 (fl false [7; 0; 0; 5] 5) (fl false [9; 1] 2) = fl false [7; 0; 0] 5
  /\ mpf_sub 3 (fl false [7; 5; 0; 0] 5) (fl false [3; 0; 0; 0] 5) = fl false [4; 5] 5
  /\ mpf_sub 1 (fl false [7; 2; 1] 3) (fl false [7; 0; 0; 5] 3) = fl false [2; 1] 2.
Proof. vm_compute. repeat split; reflexivity. Qed.

(* operands of different signs: mpf_add on u and -v (model of MpfAddDefs) *)
Example mpf_sub_ex_signs :
  mpf_sub_full 3 (fl false [7; 5; 3] 3) (fl true [9] 2) = fl false [7; 14; 3] 3
  /\ mpf_sub_full 3 (fl true [7; 5; 3] 3) (fl false [9] 2) = fl true [7; 14; 3] 3
  /\ mpf_sub_full 2 (fl true [8; 0; 0; 5] 3) (fl true [7; MX; MX] 3) = fl true [1; 5] 1.
Proof. vm_compute. repeat split; reflexivity. Qed.

(* the error bound 2^(-p) cannot be improved by another bit: prec = 2 (p = 64), u = 1,
   v = 0.[MAX][MAX-1][MAX][MAX][MAX]: after the leading MAX is stripped v is cut to prec = 2 limbs and
   the result [1; 1] stands for the exact [1; 0; 0; 1]: the certificate holds at p + 2 = 66 and fails
   at p + 3 = 67 *)
Example mpf_sub_ex_tight :
  let u := fl false [1] 1 in let v := fl false [MX; MX - 1; MX; MX; MX] 0 in
  let r := mpf_sub 2 u v in
  r = fl false [1; 1] (-1) /\ bits_of_prec 2 = 64
  /\ sub_exact u v (fl false [1; 0; 0; 1] (-1)) = true
  /\ acc_ok 64 (sub_num u v) (sub_den u v) (fnum r) (fden r) = true
  /\ acc_ok 66 (sub_num u v) (sub_den u v) (fnum r) (fden r) = true
  /\ acc_ok 67 (sub_num u v) (sub_den u v) (fnum r) (fden r) = false.
Proof. vm_compute. repeat split; reflexivity. Qed.
