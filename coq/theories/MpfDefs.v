(* MpfDefs.v — C13: floating-point results are accurate to the destination precision and exact
   when representable.
   (1) a bit-exact model of mpf_mul (mpf/mul.c): operand truncation to prec limbs, product, the
       adj limb, truncation to prec+1 limbs, exponent;
   (2) the accuracy certificate: given the exact rational result of an operation and the value the
       library returned, decide |r - exact| < 2^(2-p) |exact| and exactness-when-representable;
   (3) the exact result of every checked operation on dyadic operands.
   An mpf value is sign * M * B^(e - n) with M an n-limb integer (top limb non-zero).
   Definitions only. *)
From Coq Require Import ZArith List Bool.
From Mpir Require Import Word DivDefs.
Import ListNotations.
Local Open Scope Z_scope.

Record mpf := mkf { fneg : bool; fM : Z; fn : Z; fexp : Z }.     (* zero: fM = 0, fn = 0, fexp = 0 *)
Definition nlimbs (x : Z) : Z := if x =? 0 then 0 else Z.log2 x / 64 + 1.
Definition mkf_norm (neg : bool) (M e : Z) : mpf :=
  if M =? 0 then mkf false 0 0 0 else mkf neg M (nlimbs M) e.
Definition mpf_wf (prec : Z) (f : mpf) : Prop :=
  (fM f = 0 -> fn f = 0 /\ fexp f = 0) /\ (fM f <> 0 -> fn f = nlimbs (fM f) /\ 0 < fM f) /\ fn f <= prec + 1.
(* value as a rational num / den with den a power of B *)
Definition fnum (f : mpf) : Z :=
  let m := if fneg f then - fM f else fM f in
  if 0 <=? fexp f - fn f then m * B ^ (fexp f - fn f) else m.
Definition fden (f : mpf) : Z := if 0 <=? fexp f - fn f then 1 else B ^ (fn f - fexp f).

(* keep the top k limbs of an n-limb magnitude *)
Definition top_limbs (M n k : Z) : Z * Z := if k <? n then (M / B ^ (n - k), k) else (M, n).

(* mpf/mul.c *)
Definition mpf_mul (prec : Z) (u v : mpf) : mpf :=
  let '(um, un) := top_limbs (fM u) (fn u) prec in
  let '(vm, vn) := top_limbs (fM v) (fn v) prec in
  if (un =? 0) || (vn =? 0) then mkf false 0 0 0
  else
    let P := um * vm in
    let rsize0 := un + vn in
    let adj := if P <? B ^ (rsize0 - 1) then 1 else 0 in       (* cy_limb == 0 *)
    let rsize := rsize0 - adj in
    let '(pm, pn) := top_limbs P rsize (prec + 1) in
    mkf (xorb (fneg u) (fneg v)) pm pn (fexp u + fexp v - adj).

(* ---- accuracy certificate ---- *)
(* a value given as mantissa * 2^e2 turned into num / den *)
Definition dy_num (m e2 : Z) : Z := if 0 <=? e2 then m * 2 ^ e2 else m.
Definition dy_den (e2 : Z) : Z := if 0 <=? e2 then 1 else 2 ^ (- e2).
(* |rn/rd - en/ed| < 2^(2-p) * |en/ed|   (rd, ed > 0, p >= 2); for en = 0 the result must be 0 *)
Definition acc_ok (p en ed rn rd : Z) : bool :=
  if en =? 0 then rn =? 0
  else Z.abs (rn * ed - en * rd) * 2 ^ (p - 2) <? Z.abs en * rd.
(* number of significant bits of a dyadic mantissa *)
Definition sigbits (m : Z) : Z := if m =? 0 then 0 else Z.log2 (Z.abs m) + 1 - ctz (Z.abs m).
(* does the rational en/ed (ed > 0) have a binary expansion with at most p significant bits *)
Definition fits_bits (p en ed : Z) : bool :=
  let g := Z.gcd en ed in
  let n' := en / g in let d' := ed / g in
  (d' =? 2 ^ Z.log2 d') && (sigbits n' <=? p).
(* full verdict: accuracy, and equality when operands and exact value fit in p bits *)
Definition cert_ok (p : Z) (operands_fit : bool) (en ed rn rd : Z) : bool :=
  acc_ok p en ed rn rd && (if operands_fit && fits_bits p en ed then rn * ed =? en * rd else true).

(* square root: exact value sqrt (xn/xd) is in general irrational: check
   (1-d)^2 x < r^2 < (1+d)^2 x with d = 2^(2-p), and equality when x is the square of a p-bit dyadic *)
Definition sqrt_ok (p xn xd rn rd : Z) : bool :=
  if xn =? 0 then rn =? 0
  else
    let D := 2 ^ (p - 2) in
    (0 <? rn)
    && ((D - 1) * (D - 1) * xn * rd * rd <? rn * rn * xd * D * D)
    && (rn * rn * xd * D * D <? (D + 1) * (D + 1) * xn * rd * rd).

(* gmp-impl.h: __GMPF_BITS_TO_PREC and __GMPF_PREC_TO_BITS (mpf_init2 / mpf_get_prec) *)
Definition prec_of_bits (b : Z) : Z := (Z.max 53 b + 2 * 64 - 1) / 64.
Definition bits_of_prec (n : Z) : Z := n * 64 - 64.
