(* TablesDefs.v — what the constant tables that the library ships in source form must contain.  The tables themselves are
   REGENERATED from /repo on every run (gen/Gen_Consts.v: __gmp_digit_value_tab of mp_dv_tab.c, approx_tab of
   mpn/generic/sqrtrem.c); TablesProofs.v evaluates these predicates on them.  Definitions only. *)
From Coq Require Import ZArith List Bool.
From Mpir Require Import Word RadixDefs.
Import ListNotations.
Local Open Scope Z_scope.

Definition zrange (a : Z) (n : nat) : list Z := map (fun k => a + Z.of_nat k) (seq 0 n).

(* mp_dv_tab.c: the value of a byte as a digit.  First table (offset 0, bases up to 36, letters of either case are 10..35);
   second table (offset 224, bases 37..62: upper case 10..35, lower case 36..61); every other byte is 0xff = not a digit. *)
Definition is_dig (c : Z) : bool := (48 <=? c) && (c <=? 57).
Definition is_up (c : Z) : bool := (65 <=? c) && (c <=? 90).
Definition is_lo (c : Z) : bool := (97 <=? c) && (c <=? 122).
Definition digit_spec_ci (c : Z) : Z := if is_dig c then c - 48 else if is_up c then c - 55 else if is_lo c then c - 87 else 255.
Definition digit_spec_cs (c : Z) : Z := if is_dig c then c - 48 else if is_up c then c - 55 else if is_lo c then c - 61 else 255.
Definition digit_tab_ok (t : list Z) : bool :=
  (Z.of_nat (length t) =? 480)
  && forallb (fun c => (dv t 0 c =? digit_spec_ci c) && (dv t 224 c =? digit_spec_cs c)) (zrange 0 256).

(* sqrtrem.c: approx_tab[i - 64] = floor (sqrt (256 i)) for i = 64 .. 255 (the program in the comment above the table); the one-limb
   square root applies a single upward correction to the seed, which suffices exactly because the seed is this floor *)
Definition sqrt_tab_ok (t : list Z) : bool :=
  (Z.of_nat (length t) =? 192)
  && forallb (fun i => nth (Z.to_nat (i - 64)) t 0 =? Z.sqrt (256 * i)) (zrange 64 192).
