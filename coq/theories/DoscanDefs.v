(* DoscanDefs.v — scanf/doscan.c as coded, for input from a string (the function table of
   scanf/sscanffuns.c): the directive loop of __gmp_doscan, the field reader gmpscan for the types
   Z and Q, skip_white, the conversions through mpz_set_str / mpq_set_str (RadixDefs.set_str), and
   the C library's %d / %ld (glibc digit rules with the field width) for mixed formats.
   The format and the input are lists of byte values 0..255 exactly as the caller writes them; a 0
   byte (or the end of the list) is the terminator.  Definitions only. *)
From Coq Require Import ZArith List Bool.
From Mpir Require Import Word RadixDefs PrintfDefs.
Import ListNotations.
Local Open Scope Z_scope.

(* ---------------- scanf/sscanffuns.c ---------------- *)
(* get (sscanffuns.c:53-63):  c = (unsigned char) *s++; if (c == '\0') return EOF; *sp = s; return c;
   the stream is the list of bytes not yet read *)
Definition sget (s : list Z) : Z * list Z :=
  match s with
  | [] => (-1, [])
  | c :: r => if c =? 0 then (-1, s) else (c, r)
  end.
(* unget (sscanffuns.c:65-78):  if (c == EOF) return; s--; ASSERT ((unsigned char) *s == c); *sp = s; *)
Definition sunget (c : Z) (s : list Z) : list Z := if c =? -1 then s else c :: s.

(* <ctype.h> in the C locale *)
Definition isxdigit (c : Z) : bool :=
  is_digit c || ((97 <=? c) && (c <=? 102)) || ((65 <=? c) && (c <=? 70)).

(* skip_white (doscan.c:445-463):
     do { c = (funs->get) (data); ret++; } while (isspace (c));
     (funs->unget) (c, data); ret--;
   one input byte per iteration: structural recursion on the stream *)
Fixpoint skip_white (s : list Z) (ret : Z) : Z * list Z :=
  match s with
  | [] => (ret, [])
  | c :: r => if c =? 0 then (ret, s) else if isspace c then skip_white r (ret + 1) else (ret, s)
  end.

(* ---------------- gmpscan (doscan.c:219-439), types Z and Q ---------------- *)
(* c, the stream after c, chars, the characters stored in s[] *)
Record gs := mkgs { gc : Z; gin : list Z; gchars : Z; gbuf : list Z }.

(* #define GET(c)  chars++; if (chars > width) goto convert; (c) = ( *funs->get) (data);
   the boolean is "goto convert" *)
Definition GET (width : Z) (st : gs) : bool * gs :=
  let chars := gchars st + 1 in
  if width <? chars then (true, mkgs (gc st) (gin st) chars (gbuf st))
  else let '(c, r) := sget (gin st) in (false, mkgs c r chars (gbuf st)).
(* #define STORE(c)  s[s_upto++] = c; *)
Definition STORE (c : Z) (st : gs) : gs := mkgs (gc st) (gin st) (gchars st) (gbuf st ++ [c]).

(* another: (doscan.c:247-259)
     if (c == '-') { STORE (c); goto get_for_sign; }
     else if (c == '+') { get_for_sign: GET (c); } *)
Definition gs_sign (width : Z) (st : gs) : bool * gs :=
  if gc st =? 45 then GET width (STORE 45 st)
  else if gc st =? 43 then GET width st
  else (false, st).

(* (doscan.c:261-282)
     if (base == 0) { base = 10;
       if (c == '0') { seen_digit = 1; if (p->type != 'F') base = 8; STORE (c); GET (c);
         if (c == 'x' || c == 'X') { base = 16; seen_digit = 0; ... STORE (c); GET (c); } } }
   result: goto convert?, (base, seen_digit), state *)
Definition gs_base (width base : Z) (st : gs) : bool * (Z * bool) * gs :=
  if base =? 0 then
    if gc st =? 48 then
      let '(j, st1) := GET width (STORE 48 st) in
      if j then (true, (8, true), st1)
      else if (gc st1 =? 120) || (gc st1 =? 88) then
        let '(j2, st2) := GET width (STORE (gc st1) st1) in (j2, (16, false), st2)
      else (false, (8, true), st1)
    else (false, (10, false), st)
  else (false, (base, false), st).

(* digits: (doscan.c:284-303)
     for (;;) { if (base == 16) { if (! isxdigit (c)) break; }
                else { if (! isdigit (c)) break; if (base == 8 && (c == '8' || c == '9')) break; }
                seen_digit = 1; STORE (c); GET (c); } *)
Definition digit_ok (base c : Z) : bool :=
  if base =? 16 then isxdigit c
  else is_digit c && negb ((base =? 8) && ((c =? 56) || (c =? 57))).
Fixpoint gs_digits (fuel : nat) (width base : Z) (seen : bool) (st : gs) : option (bool * bool * gs) :=
  match fuel with
  | O => None
  | S f =>
      if digit_ok base (gc st) then
        let '(j, st1) := GET width (STORE (gc st) st) in
        if j then Some (true, true, st1) else gs_digits f width base true st1
      else Some (false, seen, st)
  end.

(* one number: "another:" up to the end of the digits loop; seen_digit = 0 at its start *)
Definition gs_number (fuel : nat) (width base : Z) (st : gs) : option (bool * bool * gs) :=
  let '(j, st1) := gs_sign width st in
  if j then Some (true, false, st1)
  else let '(j2, (b, seen), st2) := gs_base width base st1 in
       if j2 then Some (true, seen, st2) else gs_digits fuel width b seen st2.

(* mpq_set_str (mpq/set_str.c:35-63): slash = strchr (str, '/'); no slash: den = 1, mpz_set_str (num);
   otherwise mpz_set_str on both parts (the denominator only if the numerator succeeded).
   None: a part was rejected (the destination is then only partly written) *)
Fixpoint split_slash (s : list Z) (acc : list Z) : option (list Z * list Z) :=
  match s with
  | [] => None
  | c :: r => if c =? 47 then Some (rev acc, r) else split_slash r (c :: acc)
  end.
Definition mpq_set_str (tab : list Z) (s : list Z) (base : Z) : option (Z * Z) :=
  match split_slash s [] with
  | None => match set_str tab (s ++ [0]) base with Some n => Some (n, 1) | None => None end
  | Some (num, den) =>
      match set_str tab (num ++ [0]) base with
      | None => None
      | Some n => match set_str tab (den ++ [0]) base with Some d => Some (n, d) | None => None end
      end
  end.

(* what one conversion stores *)
Inductive sv :=
| SVZ (z : Z)          (* mpz_t *)
| SVQ (n d : Z)        (* mpq_t: numerator, denominator as mpq_set_str leaves them (not canonicalised) *)
| SVL (v : Z)          (* long / int through the C library *)
| SVN (n : Z)          (* %n *)
| SVfail.              (* mpz_set_str / mpq_set_str returned -1: destination not (fully) written *)

(* convert: / done: (doscan.c:373-438)
     if (! seen_digit) { set_invalid: invalid = 1; goto done; }
     if (! p->ignore) { STORE ('\0'); ... mpq_set_str ((mpq_ptr) dst, s, p->base) / mpz_set_str ((mpz_ptr) dst, s, p->base) }
   done: if (chars != width+1) ( *funs->unget) (c, data);  chars--;
     if (invalid) return -1;  return chars;
   result: return value, the stream, the stored value *)
Definition gs_finish (tab : list Z) (ty pbase width : Z) (ignore seen : bool) (st : gs)
    : Z * list Z * option sv :=
  let s' := if gchars st =? width + 1 then gin st else sunget (gc st) (gin st) in
  if negb seen then (-1, s', None)
  else (gchars st - 1, s',
        if ignore then None
        else Some (if ty =? 81
                   then match mpq_set_str tab (gbuf st) pbase with Some (n, d) => SVQ n d | None => SVfail end
                   else match set_str tab (gbuf st ++ [0]) pbase with Some z => SVZ z | None => SVfail end)).

(* gmpscan (doscan.c:219-439); ty is 'Z' (90) or 'Q' (81); pwidth is p->width (0 = none).
     c = ( *funs->get) (data); if (c == EOF) return -2;
     chars = 1; first = 1; width = (p->width == 0 ? INT_MAX-1 : p->width); base = p->base;
   and after the digits (doscan.c:305-371), for first != 0:
     if (p->type == 'Q' && c == '/') { if (! seen_digit) goto set_invalid; seen_digit = 0;
        base = p->base; do_second: first = 0; STORE (c); GET (c); goto another; }
   -3 is the out-of-fuel value *)
Definition gmpscan (tab : list Z) (ty pbase pwidth : Z) (ignore : bool) (s : list Z)
    : Z * list Z * option sv :=
  let '(c, r) := sget s in
  if c =? -1 then (-2, s, None)
  else
    let width := if pwidth =? 0 then 2147483646 else pwidth in
    let fuel := S (length s) in
    match gs_number fuel width pbase (mkgs c r 1 []) with
    | None => (-3, s, None)
    | Some (j, seen, st1) =>
        if negb j && (ty =? 81) && (gc st1 =? 47) then
          if negb seen then gs_finish tab ty pbase width ignore false st1
          else
            let '(j2, st2) := GET width (STORE 47 st1) in
            if j2 then gs_finish tab ty pbase width ignore false st2
            else match gs_number fuel width pbase st2 with
                 | None => (-3, s, None)
                 | Some (_, seen3, st3) => gs_finish tab ty pbase width ignore seen3 st3
                 end
        else gs_finish tab ty pbase width ignore seen st1
    end.

(* ---------------- the C library's  "%[*][width][l]d%n"  on a string (glibc vfscanf) ---------------- *)
(* white space is skipped; end of input there is an input failure (EOF); an optional sign and
   decimal digits, at most width bytes in all (width 0 = no limit); no digit is a matching failure
   (0, nothing consumed: sscanf works on a copy of the pointer); the value is strtol's (clamped to
   long) and for int truncated.  result: status (-1 EOF, 0 matching failure, 1 converted), value,
   the %n count (white space included) *)
Fixpoint take_dec (s : list Z) (w : Z) (fuel : nat) (acc : Z) (n : Z) : Z * Z :=
  match fuel with
  | O => (acc, n)
  | S f =>
      match s with
      | c :: r => if is_digit c && negb (w =? 0) then take_dec r (w - 1) f (acc * 10 + (c - 48)) (n + 1)
                  else (acc, n)
      | [] => (acc, n)
      end
  end.
Definition libc_d (long : bool) (pwidth : Z) (s : list Z) : Z * Z * Z :=
  let '(nws, s1) := skip_white s 0 in
  let '(c, r) := sget s1 in
  if c =? -1 then (-1, 0, 0)
  else
    let w := if pwidth =? 0 then -1 else pwidth in
    let sign := (c =? 45) || (c =? 43) in
    let body := if sign then r else s1 in
    let w1 := if sign then w - 1 else w in
    let '(v, n) := take_dec body w1 (length body) 0 0 in
    if n =? 0 then (0, 0, 0)
    else
      let v := if c =? 45 then - v else v in
      let v := Z.max (- 2 ^ 63) (Z.min (2 ^ 63 - 1) v) in
      let v := if long then v else (v + 2 ^ 31) mod 2 ^ 32 - 2 ^ 31 in
      (1, v, nws + (if sign then 1 else 0) + n).

(* ---------------- __gmp_doscan (doscan.c:466-762) ---------------- *)
(* struct gmp_doscan_params_t { int base; int ignore; char type; int width; }; sp_libc: no glibc-only
   flag ('a', '\'') seen, so that the model of the C library applies *)
Record sparam := mksp { sp_type : Z; sp_base : Z; sp_ignore : bool; sp_width : Z; sp_libc : bool }.
Definition sp_init : sparam := mksp 0 0 false 0 true.

Inductive spec_action :=
| A_done       (* case '\0': unterminated % sequence: goto done *)
| A_literal    (* case '%': goto literal *)
| A_libc (conv : Z)   (* libc_type: *)
| A_numeric    (* numeric: with a GMP type *)
| A_n          (* case 'n' *)
| A_next       (* default: something invalid in a % sequence: goto next *)
| A_fuel.

Definition is_gmp_type (t : Z) : bool := (t =? 70) || (t =? 81) || (t =? 90).
(* numeric: if (param.type != 'F' && param.type != 'Q' && param.type != 'Z') goto libc_type; *)
Definition numeric (conv : Z) (p : sparam) (fmt : list Z) : spec_action * sparam * list Z :=
  if is_gmp_type (sp_type p) then (A_numeric, p, fmt) else (A_libc conv, p, fmt).
Definition set_sp_base p b := mksp (sp_type p) b (sp_ignore p) (sp_width p) (sp_libc p).
Definition set_sp_type p t := mksp t (sp_base p) (sp_ignore p) (sp_width p) (sp_libc p).

(* the inner for (;;) (doscan.c:545-756): fchar = *fmt++; switch (fchar) ...; it runs until a case
   leaves it; the result says how, with the parameters and the rest of the format *)
Fixpoint parse_conv (fuel : nat) (fmt : list Z) (p : sparam) : spec_action * sparam * list Z :=
  match fuel with
  | O => (A_fuel, p, fmt)
  | S f =>
      let fchar := hd0 fmt in let fmt1 := tl0 fmt in
      if fchar =? 0 then (A_done, p, fmt1)                                     (* case '\0' *)
      else if fchar =? 37 then (A_literal, p, fmt1)                            (* case '%' *)
      else if (fchar =? 91) || (fchar =? 99) || (fchar =? 115) || (fchar =? 112)   (* [ c s p *)
        then (A_libc fchar, p, fmt1)
      else if (fchar =? 100) || (fchar =? 117) then numeric fchar (set_sp_base p 10) fmt1   (* d u *)
      else if (fchar =? 101) || (fchar =? 69) || (fchar =? 102) || (fchar =? 103) || (fchar =? 71)
              || (fchar =? 105) then numeric fchar p fmt1                      (* e E f g G i *)
      else if (fchar =? 97) || (fchar =? 39)                                   (* a ' : break *)
        then parse_conv f fmt1 (mksp (sp_type p) (sp_base p) (sp_ignore p) (sp_width p) false)
      else if (fchar =? 70) || (fchar =? 106) || (fchar =? 76) || (fchar =? 113) || (fchar =? 81)
              || (fchar =? 116) || (fchar =? 122) || (fchar =? 90)             (* F j L q Q t z Z *)
        then parse_conv f fmt1 (set_sp_type p fchar)
      else if fchar =? 104                                                     (* h: "hh" is 'H' *)
        then parse_conv f fmt1 (set_sp_type p (if sp_type p =? 104 then 72 else 104))
      else if fchar =? 108                                                     (* l: "ll" is 'L' *)
        then parse_conv f fmt1 (set_sp_type p (if sp_type p =? 108 then 76 else 108))
      else if fchar =? 110 then (A_n, p, fmt1)                                 (* n *)
      else if fchar =? 111 then numeric fchar (set_sp_base p 8) fmt1           (* o *)
      else if (fchar =? 120) || (fchar =? 88) then numeric fchar (set_sp_base p 16) fmt1   (* x X *)
      else if is_digit fchar then
        (* param.width = 0; do { param.width = param.width * 10 + (fchar-'0'); fchar = *fmt++; }
           while (isdigit (fchar)); fmt--; *)
        let '(w, fmt2) := parse_num fmt 0 in
        parse_conv f fmt2 (mksp (sp_type p) (sp_base p) (sp_ignore p) w (sp_libc p))
      else if fchar =? 42                                                      (* '*' *)
        then parse_conv f fmt1 (mksp (sp_type p) (sp_base p) true (sp_width p) (sp_libc p))
      else (A_next, p, fmt1)                                                   (* default *)
  end.

(* how the scan ended *)
Inductive stop :=
| St_fmt_end        (* the format is exhausted *)
| St_mismatch       (* a literal did not match a byte of the input *)
| St_eof            (* eof_no_match: the input ended at a literal or before a field *)
| St_invalid        (* invalid field *)
| St_bad_fmt        (* unterminated % sequence *)
| St_unsupported    (* a conversion this model does not cover (F, %c %s %[ %p, %i %u %o %x of C types ...) *)
| St_fuel.
Record dres := mkdres { d_ret : Z; d_stores : list sv; d_rest : list Z; d_chars : Z; d_stop : stop }.

(* done: return fields; and eof_no_match: if (fields == 0) fields = EOF; goto done; *)
Definition d_done (fields : Z) (st : list sv) (s : list Z) (chars : Z) (why : stop) : dres :=
  match why with
  | St_unsupported | St_fuel => mkdres (-99) st s chars why
  | St_eof => mkdres (if fields =? 0 then -1 else fields) st s chars why
  | _ => mkdres fields st s chars why
  end.

(* the value %n stores: chars converted to the destination type *)
Definition n_value (ty chars : Z) : option Z :=
  if ty =? 72 then Some ((chars + 128) mod 256 - 128)             (* 'H': char *)
  else if ty =? 104 then Some ((chars + 32768) mod 65536 - 32768)  (* 'h': short *)
  else if (ty =? 0) || (ty =? 106) || (ty =? 108) || (ty =? 113) || (ty =? 76) || (ty =? 81)
          || (ty =? 116) || (ty =? 122) || (ty =? 90) then Some chars
  else None.

(* the outer for (;;) (doscan.c:503-757) *)
Fixpoint dloop (tab : list Z) (fuel : nat) (fmt s : list Z) (fields chars : Z) (st : list sv) : dres :=
  match fuel with
  | O => d_done fields st s chars St_fuel
  | S f =>
      let fchar := hd0 fmt in let fmt1 := tl0 fmt in
      (* literal: c = (funs->get) (data);
           if (c != fchar) { (funs->unget) (c, data); if (c == EOF) { eof_no_match: ... } goto done; }
           chars++; continue;
         c is an int holding an unsigned char and is compared with (unsigned char) fchar (before the repair 5a194c5 in
         /repo the comparison was with the signed char, so that a format byte above 127 never matched) *)
      let literal (fch : Z) (fmt' : list Z) :=
        let '(c, r) := sget s in
        if c =? fch then dloop tab f fmt' r fields (chars + 1) st
        else d_done fields st s chars (if c =? -1 then St_eof else St_mismatch) in
      if fchar =? 0 then d_done fields st s chars St_fmt_end                   (* if (fchar == '\0') break; *)
      else if isspace fchar then                                               (* chars += skip_white (funs, data); *)
        let '(n, s') := skip_white s 0 in dloop tab f fmt1 s' fields (chars + n) st
      else if negb (fchar =? 37) then literal fchar fmt1
      else
        match parse_conv (S (length fmt1)) fmt1 sp_init with
        | (A_done, _, _) => d_done fields st s chars St_bad_fmt
        | (A_fuel, _, _) => d_done fields st s chars St_fuel
        | (A_literal, _, fmt2) => literal 37 fmt2
        | (A_next, _, fmt2) => dloop tab f fmt2 s fields chars st
        | (A_n, p, fmt2) =>
            (* case 'n': if (! param.ignore) { p = va_arg (ap, void * ); switch (param.type) ... = chars } goto next; *)
            if sp_ignore p then dloop tab f fmt2 s fields chars st
            else match n_value (sp_type p) chars with
                 | Some v => dloop tab f fmt2 s fields chars (st ++ [SVN v])
                 | None => d_done fields st s chars St_unsupported
                 end
        | (A_numeric, p, fmt2) =>
            (* chars += skip_white (funs, data);
               new_chars = gmpscan (funs, data, &param, param.ignore ? NULL : va_arg (ap, void* ));
               if (new_chars == -2) goto eof_no_match;  if (new_chars == -1) goto done;
               chars += new_chars;  increment_fields: if (! param.ignore) fields++;  goto next; *)
            if sp_type p =? 70 then d_done fields st s chars St_unsupported
            else
              let '(n, s1) := skip_white s 0 in
              let chars1 := chars + n in
              let '(new_chars, s2, v) := gmpscan tab (sp_type p) (sp_base p) (sp_width p) (sp_ignore p) s1 in
              if new_chars =? -3 then d_done fields st s2 chars1 St_fuel
              else if new_chars =? -2 then d_done fields st s2 chars1 St_eof
              else if new_chars =? -1 then d_done fields st s2 chars1 St_invalid
              else dloop tab f fmt2 s2 (if sp_ignore p then fields else fields + 1) (chars1 + new_chars)
                         (match v with Some x => st ++ [x] | None => st end)
        | (A_libc conv, p, fmt2) =>
            (* libc_type: the text of the conversion and "%n" go to sscanf (doscan.c:583-630):
               new_fields == 0 (or, when suppressed, new_chars == -1): goto done;
               new_fields == -1: goto eof_no_match;
               chars += new_chars; ( *funs->step) (data, new_chars); increment_fields *)
            if (conv =? 100) && ((sp_type p =? 0) || (sp_type p =? 108)) && sp_libc p then
              let '(status, v, new_chars) := libc_d (sp_type p =? 108) (sp_width p) s in
              if status =? -1 then d_done fields st s chars St_eof
              else if status =? 0 then d_done fields st s chars St_invalid
              else dloop tab f fmt2 (skipn (Z.to_nat new_chars) s)
                         (if sp_ignore p then fields else fields + 1) (chars + new_chars)
                         (if sp_ignore p then st else st ++ [SVL v])
            else d_done fields st s chars St_unsupported
        end
  end.

(* gmp_sscanf (s, fmt, ...) = __gmp_doscan (&__gmp_sscanf_funs, &s, fmt, ap)  (scanf/vsscanf.c) *)
Definition doscan_run (tab : list Z) (fmt input : list Z) : dres :=
  dloop tab (S (length fmt)) fmt input 0 0 [].
(* (return value, stored values in argument order, number of input bytes consumed);
   return value -99: outside the model (unsupported conversion) or out of fuel *)
Definition doscan (tab : list Z) (fmt input : list Z) : Z * list sv * Z :=
  let r := doscan_run tab fmt input in
  (d_ret r, d_stores r, len input - len (d_rest r)).
